// Harness for C06 (every reply-expected send gets exactly its own reply or one definite error).
//
// Three passes, all against the CURRENT /repo:
//
//	P/G lines  pure helpers through the verif hook: isSecondaryReply on all 256x256 (byte2, byte3)
//	           headers; the system-bytes generator around the uint32 wrap.
//	S lines    deterministic single-sender scenarios on a real hsmsss connection over net.Pipe; the
//	           driver runs the SAME action list through the extracted model and requires an EQUAL log.
//	H/K lines  N in {1,2,8,64} concurrent senders against a scripted adversarial peer (permutes, delays,
//	           duplicates, drops, answers with primaries / rejects / unsolicited secondaries reusing
//	           live system bytes; K lines add control responses reusing live system bytes); the driver
//	           runs the extracted monitor ok_C06 over the recorded log.
//
// Independently of the model, the harness applies the property itself to every recorded history
// (implementation-level oracle, c.Fail).
package main

import (
	"context"
	"fmt"
	"math/rand"
	"os"
	"sort"
	"strings"
	"sync"
	"time"

	"github.com/arloliu/go-secs/v2/hsms"

	"verifharness/cmd/c06/sc"
	"verifharness/vh"
)

const (
	t3 = 60 * time.Millisecond
	// deterministic scenarios use a longer T3: their expected outcomes are asserted, so a reply must
	// not lose a race against the timer on a loaded machine
	scenT3 = 150 * time.Millisecond
	t6 = 400 * time.Millisecond
)

func main() {
	c := vh.New()
	pure(c)
	scenarios(c)
	n := c.N
	if n < 4 {
		n = 4
	}
	sizes := []int{1, 2, 8, 64}
	for i := 0; i < n; i++ {
		ns := sizes[i%4]
		per := 6
		if ns == 64 {
			per = 2
		}
		history(c, rand.New(rand.NewSource(c.Rng.Int63())), ns, per, i%3 == 1, false)
	}
	for i := 0; i < 4; i++ {
		stalled(c, i%2 == 1)
	}
	for i := 0; i < 8; i++ {
		ctrlFirst(c, rand.New(rand.NewSource(c.Rng.Int63())), []int{1, 4}[(i/2)%2], i%2 == 1, i >= 4)
	}
	// known-finding class: control responses reusing live system bytes
	nk := n / 8
	if nk < 2 {
		nk = 2
	}
	for i := 0; i < nk; i++ {
		history(c, rand.New(rand.NewSource(c.Rng.Int63())), []int{1, 2, 8}[i%3], 5, i%2 == 1, true)
	}
	c.Finish()
}

// ---------------------------------------------------------------------------------------------
// pure helpers

func pure(c *vh.Ctx) {
	for b2 := 0; b2 < 256; b2++ {
		for b3 := 0; b3 < 256; b3++ {
			got := hsms.VerifIsSecondaryReply(byte(b2), byte(b3))
			line := fmt.Sprintf("P %d %d | %s", b2, b3, vh.B01(got))
			c.Case(line, line, true)
			// oracle: a secondary is an even function with the W-bit clear (SEMI E5 §7.2)
			if got != (b2 < 128 && b3%2 == 0) {
				c.Fail("isSecondaryReply disagrees with 'W-bit clear and even function'", line)
			}
		}
	}
	c.Count("pure/isSecondaryReply=65536")
	starts := []uint32{0, 1, 2, 0x7FFFFFFE, 0xFFFFFFF0, 0xFFFFFFFD, 0xFFFFFFFE, 0xFFFFFFFF}
	for i := 0; i < 24; i++ {
		st := c.Rng.Uint32()
		if i < len(starts) {
			st = starts[i]
		}
		vs := hsms.VerifNextSystemBytes(st, 12)
		var sb strings.Builder
		fmt.Fprintf(&sb, "G %d %d |", st, len(vs))
		seen := map[uint32]bool{}
		for _, v := range vs {
			fmt.Fprintf(&sb, " %d", v)
			if seen[v] {
				c.Fail("system-bytes generator repeated a value within 12 draws", sb.String())
			}
			seen[v] = true
		}
		c.Case(sb.String(), sb.String(), true)
		c.Count("pure/sysbytes")
	}
	// oracle: no repeat within a long window of consecutive draws (the property's uniqueness clause;
	// the theorem covers every window below 2^32)
	for _, st := range []uint32{0, 0xFFFF0000, c.Rng.Uint32()} {
		vs := hsms.VerifNextSystemBytes(st, 200000)
		seen := make(map[uint32]struct{}, len(vs))
		for i, v := range vs {
			if _, dup := seen[v]; dup {
				c.Fail("C06: system-bytes generator repeated a value within 200000 consecutive draws", fmt.Sprintf("start=%d draw=%d value=%d", st, i+1, v))
				break
			}
			seen[v] = struct{}{}
		}
		c.Count("pure/sysbytes-window")
	}
}

// ---------------------------------------------------------------------------------------------
// deterministic scenarios (equality with the model)

type scen struct {
	e    *sc.Env
	p    *sc.Peer
	acts []string
	bad  string // outcome assertion that failed, if any
}

func (s *scen) act(f string, a ...any) { s.acts = append(s.acts, fmt.Sprintf(f, a...)) }

func setup(active bool, nh int) (*scen, error) {
	e, err := sc.NewEnv(active, nh, scenT3, t6)
	if err != nil {
		return nil, err
	}
	s := &scen{e: e}
	if err := e.Open(false); err != nil {
		return nil, err
	}
	s.act("N")
	p, err := e.Connect(3 * time.Second)
	if err != nil {
		return nil, err
	}
	s.p = p
	s.act("U")
	if active {
		req, ok := p.Wait(3*time.Second, func(f sc.Frame) bool { return f.ST == 1 }, nil)
		if !ok {
			return nil, fmt.Errorf("no Select.req")
		}
		id := int64(sc.InternalCallBase + 1*1000 + 1)
		s.act("S %d KCtl %s", id, req.M())
		s.act("G %d go ; G %d go ; G %d go ; G %d go ; G %d wok", id, id, id, id, id)
		rsp := sc.SelectRsp(req.Sid, 0, req.Sys)
		if _, err := p.SendF(rsp); err != nil {
			return nil, err
		}
		s.act("P %s ; D ; G %d chan ; G %d go", rsp.M(), id, id)
		if err := e.WaitState(hsms.SelectedState, 3*time.Second); err != nil {
			return nil, err
		}
	} else {
		if err := e.Select(p, 7); err != nil {
			return nil, err
		}
		s.act("P %s ; D ; Q1", sc.SelectReq(e.Sid, 7).M())
	}
	return s, nil
}

func (s *scen) teardown() {
	_ = s.e.Close()
	s.p.Close()
}

// send starts a synchronous W-bit send in the background and waits until the peer has the primary.
func (s *scen) send(id int64, ctx context.Context, w bool) (sc.Frame, chan string, error) {
	done := make(chan string, 1)
	var gate chan struct{}
	if !w {
		// no reply wait: order the peer's "V" before the caller's "R" (see Env.RetGate)
		gate = make(chan struct{})
		s.e.RetGate = gate
	}
	go func() {
		res, _ := s.e.SyncSend(ctx, id, 1, 1, w)
		done <- res
	}()
	prim, ok := s.p.Wait(3*time.Second, sc.IsData, nil)
	if gate != nil {
		close(gate)
	}
	if !ok {
		return prim, done, fmt.Errorf("peer did not receive the primary")
	}
	tmpl := prim
	tmpl.Sys = 0
	s.act("S %d KSync %s", id, tmpl.M())
	if w {
		s.act("G %d go ; G %d go ; G %d go ; G %d go ; G %d wok", id, id, id, id, id)
	} else {
		s.act("G %d go ; G %d go ; G %d go ; G %d wok", id, id, id, id)
	}
	return prim, done, nil
}

func waitRes(done chan string) (string, error) {
	select {
	case r := <-done:
		return r, nil
	case <-time.After(5 * time.Second):
		return "", fmt.Errorf("call did not return within 5s")
	}
}

func (s *scen) waitHandler() error {
	select {
	case <-s.e.HSig:
		return nil
	case <-time.After(3 * time.Second):
		return fmt.Errorf("handler was not invoked")
	}
}

type scenario struct {
	name   string
	active bool
	run    func(s *scen, r *rand.Rand) error
}

func scenarioList() []scenario {
	bg := context.Background()
	reply := func(s *scen, prim sc.Frame, b2, b3 byte) error {
		_, rf, err := s.p.SendData(prim.Sid, b2, b3, prim.Sys)
		s.act("P %s ; D", rf.M())
		return err
	}
	// fin waits for the send to return and asserts its outcome class: the scripted peer behaviour of
	// each scenario admits exactly one (implementation-level oracle, no model involved)
	fin := func(s *scen, done chan string, choice string, want string) error {
		res, err := waitRes(done)
		s.act("G 1 %s ; G 1 go", choice)
		if err == nil && strings.Fields(res)[0] != want {
			s.bad = fmt.Sprintf("the reply-expected send returned %q, the scripted peer behaviour admits only %q", strings.Fields(res)[0], want)
		}
		return err
	}
	mk := func(name string, active bool, f func(s *scen, r *rand.Rand) error) scenario {
		return scenario{name, active, f}
	}
	var out []scenario
	for _, active := range []bool{false, true} {
		active := active
		out = append(out,
			mk("reply", active, func(s *scen, r *rand.Rand) error {
				prim, done, err := s.send(1, bg, true)
				if err != nil {
					return err
				}
				if err := reply(s, prim, prim.B2&0x7F, prim.B3+1); err != nil {
					return err
				}
				return fin(s, done, "chan", "okf")
			}),
			mk("abort-F0", active, func(s *scen, r *rand.Rand) error {
				prim, done, err := s.send(1, bg, true)
				if err != nil {
					return err
				}
				if err := reply(s, prim, prim.B2&0x7F, 0); err != nil {
					return err
				}
				return fin(s, done, "chan", "okf")
			}),
			mk("reject", active, func(s *scen, r *rand.Rand) error {
				prim, done, err := s.send(1, bg, true)
				if err != nil {
					return err
				}
				rj := sc.RejectReq(prim.Sid, 0, byte(1+r.Intn(255)), prim.Sys)
				if _, err := s.p.SendF(rj); err != nil {
					return err
				}
				s.act("P %s ; D", rj.M())
				return fin(s, done, "chan", "rej")
			}),
			mk("t3", active, func(s *scen, r *rand.Rand) error {
				_, done, err := s.send(1, bg, true)
				if err != nil {
					return err
				}
				s.act("K %d", scenT3.Milliseconds())
				return fin(s, done, "timer", "t3")
			}),
			mk("stalled-write-t3", active, func(s *scen, r *rand.Rand) error {
				// the peer leaves the primary unread for 0.6 x T3 (the library's write blocks on the
				// pipe), then reads it and never replies: T3 counts from the write, not from the call
				s.p.Hold()
				go func() { time.Sleep(scenT3 * 6 / 10); s.p.Release() }()
				_, done, err := s.send(1, bg, true)
				if err != nil {
					return err
				}
				s.act("K %d", scenT3.Milliseconds())
				return fin(s, done, "timer", "t3")
			}),
			mk("ctx", active, func(s *scen, r *rand.Rand) error {
				ctx, cancel := context.WithCancel(bg)
				defer cancel()
				_, done, err := s.send(1, ctx, true)
				if err != nil {
					return err
				}
				cancel()
				s.act("Z 1")
				return fin(s, done, "ctx", "ctx")
			}),
			mk("primary-collision", active, func(s *scen, r *rand.Rand) error {
				prim, done, err := s.send(1, bg, true)
				if err != nil {
					return err
				}
				// a peer primary (W set, odd function) reusing the live system bytes goes to the handler
				if err := reply(s, prim, 0x80|5, 1); err != nil {
					return err
				}
				if err := s.waitHandler(); err != nil {
					return err
				}
				// W clear but odd function: still a primary
				if err := reply(s, prim, 5, 3); err != nil {
					return err
				}
				if err := s.waitHandler(); err != nil {
					return err
				}
				// W set, even function: not a reply either
				if err := reply(s, prim, 0x80|5, 2); err != nil {
					return err
				}
				if err := s.waitHandler(); err != nil {
					return err
				}
				if err := reply(s, prim, prim.B2&0x7F, prim.B3+1); err != nil {
					return err
				}
				return fin(s, done, "chan", "okf")
			}),
			mk("unsolicited-then-reply", active, func(s *scen, r *rand.Rand) error {
				prim, done, err := s.send(1, bg, true)
				if err != nil {
					return err
				}
				other := prim
				other.Sys = prim.Sys + 1000
				if err := reply(s, other, 1, 2); err != nil {
					return err
				}
				if err := s.waitHandler(); err != nil {
					return err
				}
				if err := reply(s, prim, prim.B2&0x7F, prim.B3+1); err != nil {
					return err
				}
				return fin(s, done, "chan", "okf")
			}),
			mk("late-duplicate", active, func(s *scen, r *rand.Rand) error {
				prim, done, err := s.send(1, bg, true)
				if err != nil {
					return err
				}
				if err := reply(s, prim, prim.B2&0x7F, prim.B3+1); err != nil {
					return err
				}
				if err := fin(s, done, "chan", "okf"); err != nil {
					return err
				}
				// the transaction is over: a second reply is unsolicited and goes to the handler
				if err := reply(s, prim, prim.B2&0x7F, prim.B3+1); err != nil {
					return err
				}
				return s.waitHandler()
			}),
			mk("closed", active, func(s *scen, r *rand.Rand) error {
				_, done, err := s.send(1, bg, true)
				if err != nil {
					return err
				}
				s.e.Down()
				s.p.Close()
				s.act("F ; X ; T")
				return fin(s, done, "gen", "closed")
			}),
			mk("fire-and-forget", active, func(s *scen, r *rand.Rand) error {
				_, done, err := s.send(1, bg, false)
				if err != nil {
					return err
				}
				_, err = waitRes(done)
				s.act("G 1 go")
				return err
			}),
			mk("two-sequential", active, func(s *scen, r *rand.Rand) error {
				for id := int64(1); id <= 2; id++ {
					done := make(chan string, 1)
					go func() { res, _ := s.e.SyncSend(bg, id, 2, 3, true); done <- res }()
					prim, ok := s.p.Wait(3*time.Second, sc.IsData, nil)
					if !ok {
						return fmt.Errorf("no primary")
					}
					tmpl := prim
					tmpl.Sys = 0
					s.act("S %d KSync %s ; G %d go ; G %d go ; G %d go ; G %d go ; G %d wok", id, tmpl.M(), id, id, id, id, id)
					_, rf, err := s.p.SendData(prim.Sid, prim.B2&0x7F, prim.B3+1, prim.Sys)
					if err != nil {
						return err
					}
					s.act("P %s ; D", rf.M())
					if _, err := waitRes(done); err != nil {
						return err
					}
					s.act("G %d chan ; G %d go", id, id)
				}
				return nil
			}),
		)
		for _, st := range []byte{6, 2, 4} {
			st := st
			out = append(out, mk(fmt.Sprintf("ctrl-rsp-collision-%d", st), active, func(s *scen, r *rand.Rand) error {
				prim, done, err := s.send(1, bg, true)
				if err != nil {
					return err
				}
				cf := sc.Frame{Sid: 0xFFFF, ST: st, Sys: prim.Sys}
				if st == 2 {
					cf.B3 = 1
				}
				if _, err := s.p.SendF(cf); err != nil {
					return err
				}
				// the registry is data-only for a data transaction: the control response is a miss,
				// answered Reject(TransactionNotOpen); the sender is untouched
				s.act("P %s ; D ; Q1", cf.M())
				rj, ok := s.p.Wait(3*time.Second, func(f sc.Frame) bool { return f.ST == 7 }, nil)
				if !ok || rj.B3 != 3 || rj.Sys != prim.Sys || rj.B2 != st {
					s.bad = "a control response reusing an open data transaction's system bytes was not answered with Reject(reason 3) echoing its SType and system bytes"
				}
				select {
				case res := <-done:
					done <- res
					s.bad = fmt.Sprintf("the reply-expected send returned %q on a control response reusing its system bytes, before the peer's reply", strings.Fields(res)[0])
					s.act("G 1 chan ; G 1 go")
					return nil
				case <-time.After(5 * time.Millisecond):
				}
				if err := reply(s, prim, prim.B2&0x7F, prim.B3+1); err != nil {
					return err
				}
				return fin(s, done, "chan", "okf")
			}))
		}
	}
	return out
}

func scenarios(c *vh.Ctx) {
	reps := 1
	if c.Tier == "thorough" {
		reps = 10
	}
	for rep := 0; rep < reps; rep++ {
		for _, sn := range scenarioList() {
			r := rand.New(rand.NewSource(c.Rng.Int63()))
			s, err := setup(sn.active, 1)
			if err != nil {
				c.Fail("rig: scenario setup failed: "+sn.name, err.Error())
				continue
			}
			err = sn.run(s, r)
			log := sc.Render(s.e.Rec.Entries())
			s.teardown()
			role := "passive"
			if sn.active {
				role = "active"
			}
			if err != nil {
				if strings.Contains(err.Error(), "handler was not invoked") {
					c.Fail("C06: an inbound data message that no waiting sender could take was not delivered to the handler ("+sn.name+"/"+role+")", log)
				} else {
					c.Fail("rig: scenario did not complete: "+sn.name+"/"+role, err.Error()+" | "+log)
				}
				continue
			}
			line := fmt.Sprintf("S %d %d %d %s | %s", scenT3.Milliseconds(), t6.Milliseconds(), 1, strings.Join(s.acts, " ; "), log)
			c.Case(line, sn.name+"/"+role, true)
			c.Count("scenario/" + sn.name)
			if s.bad != "" {
				c.Fail("C06: scenario "+sn.name+"/"+role+": "+s.bad, line)
			}
			oracle(c, s.e.Rec, scenT3, sn.name+"/"+role, log)
		}
	}
}

// ---------------------------------------------------------------------------------------------
// concurrent histories against the adversarial peer

type pend struct {
	prim sc.Frame
	due  time.Time
}

func history(c *vh.Ctx, r *rand.Rand, nSenders, per int, active bool, collide bool) {
	nh := 1 + r.Intn(2)
	e, err := sc.NewEnv(active, nh, t3, t6)
	if err != nil {
		c.Fail("rig: NewEnv", err.Error())
		return
	}
	if err := e.Open(false); err != nil {
		c.Fail("rig: Open", err.Error())
		return
	}
	p, err := e.Connect(3 * time.Second)
	if err != nil {
		c.Fail("rig: Connect", err.Error())
		_ = e.Close()
		return
	}
	if err := e.Select(p, 0xE0000001); err != nil {
		c.Fail("rig: Select", err.Error())
		_ = e.Close()
		p.Close()
		return
	}

	finish := make(chan struct{})
	peerDone := make(chan bool, 1)
	pr := rand.New(rand.NewSource(r.Int63()))
	behav := map[string]int{}
	go func() { // the scripted peer: one goroutine
		var pending []pend
		var held *sc.Frame
		answer := func(prim sc.Frame) { _, _, _ = p.SendData(prim.Sid, prim.B2&0x7F, prim.B3+1, prim.Sys) }
		handle := func(f sc.Frame) {
			if !sc.IsData(f) || f.B2&0x80 == 0 {
				return
			}
			x := pr.Intn(100)
			if collide && x >= 80 {
				behav["ctrl-rsp"]++
				st := []byte{6, 2, 4}[pr.Intn(3)]
				_, _ = p.SendF(sc.Frame{Sid: 0xFFFF, ST: st, B3: byte(pr.Intn(2)), Sys: f.Sys})
				if pr.Intn(2) == 0 {
					answer(f)
				}
				return
			}
			switch {
			case x < 35:
				behav["reply"]++
				answer(f)
			case x < 50:
				behav["delay"]++
				pending = append(pending, pend{f, time.Now().Add(time.Duration(1+pr.Intn(90)) * time.Millisecond)})
			case x < 58:
				behav["duplicate"]++
				answer(f)
				answer(f)
			case x < 66:
				behav["drop"]++
			case x < 74:
				behav["primary-collision"]++
				_, _, _ = p.SendData(f.Sid, 0x80|byte(1+pr.Intn(20)), byte(1+2*pr.Intn(60)), f.Sys)
				if pr.Intn(2) == 0 {
					_, _, _ = p.SendData(f.Sid, byte(1+pr.Intn(20)), byte(1+2*pr.Intn(60)), f.Sys)
				}
				if pr.Intn(3) != 0 {
					answer(f)
				}
			case x < 81:
				behav["reject"]++
				_, _ = p.SendF(sc.RejectReq(f.Sid, 0, byte(1+pr.Intn(6)), f.Sys))
			case x < 88:
				behav["unsolicited"]++
				_, _, _ = p.SendData(f.Sid, byte(1+pr.Intn(20)), byte(2*pr.Intn(60)), f.Sys+0x10000+uint32(pr.Intn(5)))
				answer(f)
			case x < 94:
				behav["permute"]++
				if held == nil {
					ff := f
					held = &ff
				} else {
					answer(f)
					answer(*held)
					held = nil
				}
			default:
				behav["orphan-ctrl"]++
				// control responses / rejects for transactions that are not open
				_, _ = p.SendF(sc.Frame{Sid: 0xFFFF, ST: []byte{2, 4, 6, 7}[pr.Intn(4)], B3: byte(pr.Intn(5)), Sys: f.Sys + 0x20000})
				answer(f)
			}
		}
		tick := time.NewTicker(2 * time.Millisecond)
		defer tick.Stop()
		for {
			select {
			case f, ok := <-p.In:
				if !ok {
					peerDone <- false
					return
				}
				handle(f)
			case now := <-tick.C:
				keep := pending[:0]
				for _, q := range pending {
					if now.After(q.due) {
						answer(q.prim)
					} else {
						keep = append(keep, q)
					}
				}
				pending = keep
			case <-finish:
				for _, q := range pending {
					answer(q.prim)
				}
				if held != nil {
					answer(*held)
				}
				peerDone <- p.Barrier(nil)
				return
			}
		}
	}()

	var wg sync.WaitGroup
	var idmu sync.Mutex
	nextID := int64(0)
	seeds := make([]int64, nSenders)
	for i := range seeds {
		seeds[i] = r.Int63()
	}
	for sidx := 0; sidx < nSenders; sidx++ {
		wg.Add(1)
		go func(sidx int) {
			defer wg.Done()
			cr := rand.New(rand.NewSource(seeds[sidx]))
			for k := 0; k < per; k++ {
				idmu.Lock()
				nextID++
				id := nextID
				idmu.Unlock()
				ctx, cancel := context.WithTimeout(context.Background(), 3*time.Second)
				if cr.Intn(100) < 15 {
					cancel()
					ctx, cancel = context.WithTimeout(context.Background(), time.Duration(2+cr.Intn(40))*time.Millisecond)
				}
				e.SyncSend(ctx, id, byte(1+cr.Intn(20)), byte(1+2*cr.Intn(60)), true)
				cancel()
			}
		}(sidx)
	}
	callersDone := make(chan struct{})
	go func() { wg.Wait(); close(callersDone) }()
	select {
	case <-callersDone:
	case <-time.After(30 * time.Second):
		c.Fail("rig: callers did not finish within 30s", sc.Render(e.Rec.Entries()))
	}
	close(finish)
	okBarrier := false
	select {
	case okBarrier = <-peerDone:
	case <-time.After(10 * time.Second):
	}
	if err := e.Close(); err != nil {
		c.Note("Close: " + err.Error())
	}
	p.Close()
	es := e.Rec.Entries()
	log := sc.Render(es)
	if !okBarrier {
		c.Fail("rig: barrier did not complete", log)
		return
	}
	tag := "H"
	if collide {
		tag = "K"
	}
	role := "passive"
	if active {
		role = "active"
	}
	line := fmt.Sprintf("%s %d %d %d | %s", tag, t3.Milliseconds(), t6.Milliseconds(), nh, log)
	c.Case(line, line, true)
	c.Count(fmt.Sprintf("history/senders=%d/%s", nSenders, role))
	ks := make([]string, 0, len(behav))
	for k := range behav {
		ks = append(ks, k)
	}
	sort.Strings(ks)
	for _, k := range ks {
		c.Sum.Histogram["peer/"+k] += behav[k]
	}
	oracle(c, e.Rec, t3, fmt.Sprintf("history senders=%d %s collide=%v", nSenders, role, collide), log)
}

// ctrlFirst: single and concurrent senders against a peer that answers every W-bit primary FIRST with
// colliding control responses (each kind: Linktest.rsp, Select.rsp, Deselect.rsp carrying the
// primary's system bytes), THEN with the real reply — 20 ms later ("spaced": the waiter has long
// taken the control response) or at once ("back-to-back": the control response may still sit in the
// waiter's one-slot channel) — and sometimes with a duplicate reply after it. T3 is long (1 s) and
// the peer answers at once, so the only admissible outcome of every send is its own reply; a duplicate may be discarded or delivered as unsolicited,
// never returned to another sender (general oracle).
func ctrlFirst(c *vh.Ctx, r *rand.Rand, nSenders int, active bool, backToBack bool) {
	const cT3 = 1000 * time.Millisecond
	e, err := sc.NewEnv(active, 1, cT3, t6)
	if err != nil {
		c.Fail("rig: NewEnv", err.Error())
		return
	}
	if err := e.Open(false); err != nil {
		c.Fail("rig: Open", err.Error())
		return
	}
	p, err := e.Connect(3 * time.Second)
	if err != nil {
		c.Fail("rig: Connect", err.Error())
		_ = e.Close()
		return
	}
	defer p.Close()
	defer e.Close()
	if err := e.Select(p, 0xE0000001); err != nil {
		c.Fail("rig: Select", err.Error())
		return
	}
	role := map[bool]string{false: "passive", true: "active"}[active]
	variant := "spaced"
	if backToBack {
		variant = "back-to-back"
	}
	what := fmt.Sprintf("ctrl-before-reply %s senders=%d %s", variant, nSenders, role)
	const per = 3
	finish := make(chan struct{})
	peerDone := make(chan bool, 1)
	pr := rand.New(rand.NewSource(r.Int63()))
	go func() {
		k := 0
		for {
			select {
			case f, ok := <-p.In:
				if !ok {
					peerDone <- false
					return
				}
				if !sc.IsData(f) || f.B2&0x80 == 0 {
					continue
				}
				kinds := []byte{6, 2, 4}
				cnt := 1 + pr.Intn(3)
				for j := 0; j < cnt; j++ {
					st := kinds[(k+j)%3]
					_, _ = p.SendF(sc.Frame{Sid: 0xFFFF, ST: st, B3: byte(pr.Intn(2)), Sys: f.Sys})
				}
				k++
				if !backToBack {
					time.Sleep(20 * time.Millisecond)
				}
				_, _, _ = p.SendData(f.Sid, f.B2&0x7F, f.B3+1, f.Sys) // the real reply
				if pr.Intn(3) == 0 {
					_, _, _ = p.SendData(f.Sid, f.B2&0x7F, f.B3+1, f.Sys) // duplicate after the real reply
				}
			case <-finish:
				peerDone <- p.Barrier(nil)
				return
			}
		}
	}()
	var wg sync.WaitGroup
	results := make(chan [2]string, nSenders*per)
	for sidx := 0; sidx < nSenders; sidx++ {
		wg.Add(1)
		go func(sidx int) {
			defer wg.Done()
			for k := 0; k < per; k++ {
				id := int64(sidx*per + k + 1)
				ctx, cancel := context.WithTimeout(context.Background(), 5*time.Second)
				res, _ := e.SyncSend(ctx, id, byte(1+sidx%20), byte(1+2*k), true)
				cancel()
				results <- [2]string{fmt.Sprint(id), res}
			}
		}(sidx)
	}
	doneAll := make(chan struct{})
	go func() { wg.Wait(); close(doneAll) }()
	select {
	case <-doneAll:
	case <-time.After(30 * time.Second):
		c.Fail("rig: callers did not finish", what+" | "+sc.Render(e.Rec.Entries()))
	}
	close(finish)
	okB := false
	select {
	case okB = <-peerDone:
	case <-time.After(10 * time.Second):
	}
	log := sc.Render(e.Rec.Entries())
	close(results)
	lost := 0
	for rr := range results {
		if strings.Fields(rr[1])[0] != "okf" {
			lost++
			if backToBack && lost > 2 {
				continue // the class is reported; keep room in the failure list
			}
			c.Fail(fmt.Sprintf("C06: reply-expected send returned %q although the peer sent its reply behind control responses reusing the system bytes (T3 = %d ms)", strings.Fields(rr[1])[0], cT3.Milliseconds()),
				fmt.Sprintf("%s | call %s | %s", what, rr[0], log))
		}
	}
	if !okB {
		c.Fail("rig: barrier did not complete", what+" | "+log)
		return
	}
	line := fmt.Sprintf("H %d %d %d | %s", cT3.Milliseconds(), t6.Milliseconds(), 1, log)
	c.Case(line, what, true)
	c.Count("history/ctrl-before-reply/" + variant)
	if !(backToBack && lost > 0) { // the lost replies of the known class are already reported above
		oracle(c, e.Rec, cT3, what, log)
	}
}

// stalled: two concurrent reply-expected senders against a peer that leaves the first primary
// unread for 0.6 x T3 (one sender is blocked in the transport write, the other queues on the write
// lock behind it), then reads both and never replies. Exact lower bound: each T3 timeout comes no
// earlier than T3 after the peer STARTED reading that primary's payload (which precedes the return
// of the library's write, hence the arming of the timer).
func stalled(c *vh.Ctx, active bool) {
	const sT3 = 250 * time.Millisecond
	e, err := sc.NewEnv(active, 1, sT3, t6)
	if err != nil {
		c.Fail("rig: NewEnv", err.Error())
		return
	}
	if err := e.Open(false); err != nil {
		c.Fail("rig: Open", err.Error())
		return
	}
	p, err := e.Connect(3 * time.Second)
	if err != nil {
		c.Fail("rig: Connect", err.Error())
		_ = e.Close()
		return
	}
	defer p.Close()
	defer e.Close()
	if err := e.Select(p, 0xE0000001); err != nil {
		c.Fail("rig: Select", err.Error())
		return
	}
	p.Hold()
	type out struct {
		id  int64
		res string
		ret time.Time
	}
	outs := make(chan out, 2)
	for id := int64(1); id <= 2; id++ {
		id := id
		go func() {
			ctx, cancel := context.WithTimeout(context.Background(), 5*time.Second)
			defer cancel()
			res, _ := e.SyncSend(ctx, id, 3, 1, true)
			outs <- out{id, res, time.Now()}
		}()
	}
	time.Sleep(sT3 * 6 / 10)
	p.Release()
	what := "stalled-write senders=2 " + map[bool]string{false: "passive", true: "active"}[active]
	for k := 0; k < 2; k++ {
		select {
		case o := <-outs:
			log := sc.Render(e.Rec.Entries())
			if o.res != "t3" {
				c.Fail("rig: stalled-write send returned "+o.res+", want t3", what+" | "+log)
				continue
			}
			v, ok := e.Rec.PayloadAt.Load(o.id)
			if !ok {
				c.Fail("rig: peer never read the primary", what+" | "+log)
				continue
			}
			// o.ret is taken after the return, so o.ret - payloadAt over-estimates: exact lower bound
			if d := o.ret.Sub(v.(time.Time)); d < sT3 {
				c.Fail(fmt.Sprintf("C06: T3 timeout only %d ms after the primary was written (T3 = %d ms): the reply window started before the write", d.Milliseconds(), sT3.Milliseconds()),
					fmt.Sprintf("%s | call %d | %s", what, o.id, log))
			}
		case <-time.After(10 * time.Second):
			c.Fail("rig: stalled-write send did not return", what+" | "+sc.Render(e.Rec.Entries()))
			return
		}
	}
	if !p.Barrier(nil) {
		c.Fail("rig: barrier", what+" | "+sc.Render(e.Rec.Entries()))
		return
	}
	log := sc.Render(e.Rec.Entries())
	line := fmt.Sprintf("H %d %d %d | %s", sT3.Milliseconds(), t6.Milliseconds(), 1, log)
	c.Case(line, what, true)
	c.Count("history/stalled-write")
}

// ---------------------------------------------------------------------------------------------
// implementation-level oracle: the property on the recorded history, no model involved

var knownReported int

func oracle(c *vh.Ctx, rec *sc.Rec, T3 time.Duration, what, log string) {
	es := rec.Entries()
	type callInfo struct {
		sys   int64
		w     bool
		start int
	}
	calls := map[int64]*callInfo{}
	sentBy := map[int64]sc.Frame{} // serial -> frame
	var sentOrder []int64
	usedBy := map[int64]int64{}
	hl := map[int64]int64{}
	hcount := map[[2]int64]int{}
	outcomes := map[string]int{}
	for i, e := range es {
		switch e.K {
		case 'S':
			if e.Kind == "KSync" {
				calls[e.ID] = &callInfo{sys: -1, w: e.F.B2&0x80 != 0, start: i}
			}
		case 'V':
			if ci, ok := calls[e.ID]; ok && ci.sys < 0 {
				ci.sys = int64(e.F.Sys)
			}
		case 'P':
			sentBy[e.N] = *e.F
			sentOrder = append(sentOrder, e.N)
		case 'H':
			k := [2]int64{e.ID, e.N}
			hcount[k]++
			if hcount[k] > 1 {
				c.Fail("C06: a handler received the same inbound message twice", what+" | "+log)
			}
			if last, ok := hl[e.ID]; ok && last >= e.N {
				c.Fail("C06: handler deliveries out of arrival order", what+" | "+log)
			}
			hl[e.ID] = e.N
			if by, ok := usedBy[e.N]; ok {
				c.Fail(fmt.Sprintf("C06: inbound message %d delivered to a handler and returned to call %d", e.N, by), what+" | "+log)
			}
		case 'R':
			ci, ok := calls[e.ID]
			if !ok || !ci.w {
				continue
			}
			f := strings.Fields(e.Result)
			outcomes[f[0]]++
			switch f[0] {
			case "ok-":
				// which frames did the peer send with this call's system bytes?
				var ctl, col []string
				for _, n := range sentOrder {
					pf := sentBy[n]
					if int64(pf.Sys) == ci.sys && pf.PT == 0 && (pf.ST == 2 || pf.ST == 4 || pf.ST == 6) {
						ctl = append(ctl, fmt.Sprintf("SType=%d", pf.ST))
						col = append(col, fmt.Sprintf("P %d %s", n, pf.M()))
					}
				}
				if len(ctl) > 0 {
					c.Count("oracle/nil-nil-after-control-response")
					knownReported++
					if knownReported > 6 {
						continue // the class is reported; keep room in the failure list for anything else
					}
					c.Fail("C06: reply-expected send returned (nil, nil) after the peer sent a control response "+ctl[0]+" with the primary's system bytes",
						fmt.Sprintf("%s | call %d sys %d | collided: %s | %s", what, e.ID, ci.sys, col[0], log))
				} else {
					c.Fail("C06: reply-expected send returned (nil, nil)", fmt.Sprintf("%s | call %d | %s", what, e.ID, log))
				}
			case "okf":
				var n, sid, b2, b3, pt, st, sys int64
				fmt.Sscan(f[1], &n)
				fmt.Sscan(f[2], &sid)
				fmt.Sscan(f[3], &b2)
				fmt.Sscan(f[4], &b3)
				fmt.Sscan(f[5], &pt)
				fmt.Sscan(f[6], &st)
				fmt.Sscan(f[7], &sys)
				if sys != ci.sys {
					c.Fail("C06: reply carries system bytes of another transaction", fmt.Sprintf("%s | call %d | %s", what, e.ID, log))
				}
				if b2 >= 128 || b3%2 != 0 || st != 0 || pt != 0 {
					c.Fail("C06: a message that is not a secondary was returned as the reply", fmt.Sprintf("%s | call %d | %s", what, e.ID, log))
				}
				pf, ok := sentBy[n]
				if !ok || int64(pf.Sys) != sys || int64(pf.B3) != b3 {
					c.Fail("C06: returned reply was never sent by the peer", fmt.Sprintf("%s | call %d | %s", what, e.ID, log))
				}
				if by, dup := usedBy[n]; dup {
					c.Fail(fmt.Sprintf("C06: one inbound message returned to two callers (%d and %d)", by, e.ID), what+" | "+log)
				}
				usedBy[n] = e.ID
				for h := int64(0); h < 4; h++ {
					if hcount[[2]int64{h, n}] > 0 {
						c.Fail("C06: inbound message returned to a caller and delivered to a handler", what+" | "+log)
					}
				}
			case "rej":
				var reason int64
				fmt.Sscan(f[1], &reason)
				found := false
				for _, n := range sentOrder {
					pf := sentBy[n]
					if pf.ST == 7 && int64(pf.Sys) == ci.sys && int64(pf.B3) == reason {
						found = true
					}
				}
				if !found {
					c.Fail("C06: reject error with a reason the peer never sent for this transaction", fmt.Sprintf("%s | call %d | %s", what, e.ID, log))
				}
			case "t3":
				if e.N < T3.Milliseconds() {
					c.Fail(fmt.Sprintf("C06: T3 timeout after %d ms < T3", e.N), fmt.Sprintf("%s | call %d | %s", what, e.ID, log))
				}
				// no T3 when the peer replied well inside T3: a secondary with this transaction's system
				// bytes that the library had taken off the wire at least `margin` before the timer could
				// fire (the timer is armed after the write, the write ends after payloadAt) must have
				// been routed to this sender (registered from before the write until it returns)
				if pa, ok := rec.PayloadAt.Load(e.ID); ok {
					margin := T3 / 2
					if margin < 100*time.Millisecond {
						margin = 100 * time.Millisecond
					}
					for _, n := range sentOrder {
						pf := sentBy[n]
						if pf.PT != 0 || pf.ST != 0 || pf.B2 >= 128 || pf.B3%2 != 0 || int64(pf.Sys) != ci.sys {
							continue
						}
						if _, used := usedBy[n]; used {
							continue
						}
						if wa, ok := rec.WroteAt.Load(n); ok {
							d := wa.(time.Time).Sub(pa.(time.Time))
							if d >= 0 && d+margin <= T3 {
								c.Fail(fmt.Sprintf("C06: T3 timeout although the peer's reply (frame %d, same system bytes) had reached the library %d ms after the primary was written (T3 = %d ms)", n, d.Milliseconds(), T3.Milliseconds()),
									fmt.Sprintf("%s | call %d sys %d | %s", what, e.ID, ci.sys, log))
								break
							}
						}
					}
				}
			case "closed", "ctx", "notsel", "notopen", "werr":
			default:
				c.Fail("C06: reply-expected send returned an outcome outside the property's list: "+f[0], fmt.Sprintf("%s | call %d | %s", what, e.ID, log))
			}
		}
	}
	for k, v := range outcomes {
		c.Sum.Histogram["outcome/"+k] += v
	}
	_ = os.Stderr
}
