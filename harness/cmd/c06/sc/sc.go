// Package sc is the e2e rig shared by the C06 and C07 harnesses: a real hsmsss connection over
// net.Pipe (public WithDialer / WithListener), a scripted raw-frame peer, and one sequenced
// recorder to which callers, handlers and the peer append observable-log entries in the syntax the
// extracted monitors (coq/theories/Hsms/SendCoreMon.v) read.
//
// Log conventions (the monitors rely on them): "P" (peer sent) is appended BEFORE the bytes are
// written; "V" (peer received) after the frame was read; "S" before the call, "R" after it
// returned; "H" inside the handler; "D" BEFORE every lifecycle move of the harness (Open, Close,
// closing the pipe); "B"/"C"/"M" only at quiescent points.
package sc

import (
	"context"
	"encoding/binary"
	"encoding/hex"
	"errors"
	"fmt"
	"io"
	"net"
	"strings"
	"sync"
	"time"

	"github.com/arloliu/go-secs/v2/hsms"
	"github.com/arloliu/go-secs/v2/hsmsss"
	"github.com/arloliu/go-secs/v2/logger"
	"github.com/arloliu/go-secs/v2/secs2"
)

// ---------------------------------------------------------------------------------------------
// frames

// Frame is an HSMS frame as header fields + body (model: SendCore.frame).
type Frame struct {
	Sid    uint16
	B2, B3 byte
	PT, ST byte
	Sys    uint32
	Body   []byte
}

// Wire renders the frame with its 4-byte length prefix.
func (f Frame) Wire() []byte {
	out := make([]byte, 14+len(f.Body))
	binary.BigEndian.PutUint32(out[0:4], uint32(10+len(f.Body)))
	binary.BigEndian.PutUint16(out[4:6], f.Sid)
	out[6], out[7], out[8], out[9] = f.B2, f.B3, f.PT, f.ST
	binary.BigEndian.PutUint32(out[10:14], f.Sys)
	copy(out[14:], f.Body)
	return out
}

// FrameFrom parses header||body.
func FrameFrom(p []byte) Frame {
	return Frame{Sid: binary.BigEndian.Uint16(p[0:2]), B2: p[2], B3: p[3], PT: p[4], ST: p[5],
		Sys: binary.BigEndian.Uint32(p[6:10]), Body: append([]byte(nil), p[10:]...)}
}

// FrameOfMsg converts a library message.
func FrameOfMsg(m hsms.Message) Frame {
	h := m.HeaderBytes()
	f := FrameFrom(h[:])
	if dm, ok := m.(*hsms.DataMessage); ok && dm != nil {
		f.Body = dm.AppendBodyTo(nil)
	}
	return f
}

// M renders the frame in model syntax: sid b2 b3 pt st sys bodyhex.
func (f Frame) M() string {
	b := "-"
	if len(f.Body) > 0 {
		b = hex.EncodeToString(f.Body)
	}
	return fmt.Sprintf("%d %d %d %d %d %d %s", f.Sid, f.B2, f.B3, f.PT, f.ST, f.Sys, b)
}

// U4Body is the SECS-II encoding of <U4 v>.
func U4Body(v uint32) []byte {
	b := []byte{0xB1, 4, 0, 0, 0, 0}
	binary.BigEndian.PutUint32(b[2:], v)
	return b
}

// U4Of extracts v from a <U4 v> body (ok=false otherwise).
func U4Of(body []byte) (uint32, bool) {
	if len(body) == 6 && body[0] == 0xB1 && body[1] == 4 {
		return binary.BigEndian.Uint32(body[2:]), true
	}
	return 0, false
}

func IsData(f Frame) bool { return f.PT == 0 && f.ST == 0 }

// Control frame builders (peer side).
func SelectReq(sid uint16, sys uint32) Frame        { return Frame{Sid: sid, ST: 1, Sys: sys} }
func SelectRsp(sid uint16, st byte, sys uint32) Frame { return Frame{Sid: sid, B3: st, ST: 2, Sys: sys} }
func DeselectReq(sid uint16, sys uint32) Frame      { return Frame{Sid: sid, ST: 3, Sys: sys} }
func DeselectRsp(sid uint16, st byte, sys uint32) Frame {
	return Frame{Sid: sid, B3: st, ST: 4, Sys: sys}
}
func LinktestReq(sys uint32) Frame { return Frame{Sid: 0xFFFF, ST: 5, Sys: sys} }
func LinktestRsp(sys uint32) Frame { return Frame{Sid: 0xFFFF, ST: 6, Sys: sys} }
func RejectReq(sid uint16, b2, reason byte, sys uint32) Frame {
	return Frame{Sid: sid, B2: b2, B3: reason, ST: 7, Sys: sys}
}
func SeparateReq(sid uint16, sys uint32) Frame { return Frame{Sid: sid, ST: 9, Sys: sys} }

// ---------------------------------------------------------------------------------------------
// recorder

// Entry is one observable-log entry; Text is its model syntax.
type Entry struct {
	K      byte   // S R V P H A B C M U D
	ID     int64  // call id / origin / handler
	N      int64  // serial
	F      *Frame // frame, if any
	Text   string // pre-rendered tail (result etc.)
	Kind   string // call kind for S
	Result string // result class for R
}

type Rec struct {
	mu    sync.Mutex
	es    []Entry
	nsent int64

	// PayloadAt: for each call id, the instant the peer STARTED reading the payload of the frame
	// carrying that call's token (taken after any stall, before the read that lets the library's
	// write finish). It is <= the instant the library's write returned, hence <= the instant the
	// reply timer was armed: "timeout - PayloadAt >= T3" is an exact lower bound on correct code.
	PayloadAt sync.Map

	// WroteAt: for each peer serial, the instant the peer's write of that frame RETURNED (on net.Pipe:
	// the library's recv goroutine has taken every byte of it; it dispatches the frame next, on the
	// same goroutine).
	WroteAt sync.Map
}

func (r *Rec) Add(e Entry) {
	r.mu.Lock()
	r.es = append(r.es, e)
	r.mu.Unlock()
}

// AddSent assigns the next peer serial and appends the "P" entry atomically; mk builds the frame
// from the serial (data frames carry it in the body).
func (r *Rec) AddSent(mk func(n int64) Frame) (int64, Frame) {
	r.mu.Lock()
	r.nsent++
	n := r.nsent
	f := mk(n)
	r.es = append(r.es, Entry{K: 'P', N: n, F: &f})
	r.mu.Unlock()
	return n, f
}

func (r *Rec) Entries() []Entry {
	r.mu.Lock()
	defer r.mu.Unlock()
	return append([]Entry(nil), r.es...)
}

// Render produces the log in model syntax. The system bytes of a call's message are filled in
// from the frame the peer received for that call (token -> call id); -1 if it never reached the
// peer.
func Render(es []Entry) string {
	sys := map[int64]int64{}
	for _, e := range es {
		if e.K == 'V' && e.ID >= 0 {
			if _, ok := sys[e.ID]; !ok {
				sys[e.ID] = int64(e.F.Sys)
			}
		}
	}
	var parts []string
	for _, e := range es {
		switch e.K {
		case 'S':
			f := *e.F
			s, ok := sys[e.ID]
			fm := f.M()
			if !ok {
				s = -1
				if e.Kind == "KReply" || e.Kind == "KForward" || e.Kind == "KForwardAsync" {
					s = int64(f.Sys) // caller-chosen system bytes
				}
			}
			t := strings.Fields(fm)
			t[5] = fmt.Sprint(s)
			parts = append(parts, fmt.Sprintf("S %d %s %s", e.ID, e.Kind, strings.Join(t, " ")))
		case 'R':
			parts = append(parts, fmt.Sprintf("R %d %s %d", e.ID, e.Result, e.N))
		case 'V':
			parts = append(parts, fmt.Sprintf("V %d %d %s", e.N, e.ID, e.F.M()))
		case 'P':
			parts = append(parts, fmt.Sprintf("P %d %s", e.N, e.F.M()))
		case 'H':
			parts = append(parts, fmt.Sprintf("H %d %d", e.ID, e.N))
		case 'A':
			parts = append(parts, fmt.Sprintf("A %d %s", e.ID, e.Result))
		case 'B':
			parts = append(parts, "B")
		case 'C':
			parts = append(parts, "C "+e.Text)
		case 'M':
			parts = append(parts, fmt.Sprintf("M %d", e.N))
		case 'U':
			parts = append(parts, fmt.Sprintf("U %d", e.N))
		case 'D':
			parts = append(parts, fmt.Sprintf("D %d", e.N))
		}
	}
	return strings.Join(parts, " ; ")
}

// ---------------------------------------------------------------------------------------------
// result classification (error CLASS only, never message text)

// Classify maps the return values of a synchronous send to the model's result syntax.
func Classify(reply *hsms.DataMessage, err error) string {
	if err == nil {
		if reply == nil {
			return "ok-"
		}
		f := FrameOfMsg(reply)
		n := int64(-1)
		if v, ok := U4Of(f.Body); ok {
			n = int64(v)
		}
		return fmt.Sprintf("okf %d %s", n, f.M())
	}
	return ClassifyErr(err)
}

// ClassifyErr maps an error to the model's result syntax.
func ClassifyErr(err error) string {
	var re *hsms.RejectError
	switch {
	case err == nil:
		return "ok-"
	case errors.As(err, &re):
		return fmt.Sprintf("rej %d", re.Reason)
	case errors.Is(err, hsms.ErrT3Timeout):
		return "t3"
	case errors.Is(err, hsms.ErrT6Timeout):
		return "t6"
	case errors.Is(err, hsms.ErrConnClosed):
		return "closed"
	case errors.Is(err, context.Canceled), errors.Is(err, context.DeadlineExceeded):
		return "ctx"
	case errors.Is(err, hsms.ErrNotSelectedState):
		return "notsel"
	case errors.Is(err, hsms.ErrNotOpen):
		return "notopen"
	default:
		return "werr"
	}
}

// ---------------------------------------------------------------------------------------------
// scripted peer

// Peer is the raw-frame peer on one pipe end. A reader goroutine logs every frame ("V") and
// hands it to In; the script writes through Send.
type Peer struct {
	Conn net.Conn
	Rec  *Rec
	Gen  int64
	In   chan Frame
	wmu  sync.Mutex
	ctlN int64 // synthesized ids for library-internal control transactions
	dead chan struct{}

	holdMu sync.Mutex
	hold   chan struct{} // while non-nil and open, the reader does not read frame payloads
}

// Hold makes the peer stop reading (a slow / zero-window peer): the library's next write blocks on
// the pipe until Release.
func (p *Peer) Hold() {
	p.holdMu.Lock()
	p.hold = make(chan struct{})
	p.holdMu.Unlock()
}

// Release lets the reader continue.
func (p *Peer) Release() {
	p.holdMu.Lock()
	if p.hold != nil {
		close(p.hold)
		p.hold = nil
	}
	p.holdMu.Unlock()
}

func (p *Peer) waitHold() {
	p.holdMu.Lock()
	ch := p.hold
	p.holdMu.Unlock()
	if ch != nil {
		select {
		case <-ch:
		case <-p.dead:
		}
	}
}

const InternalCallBase = 1000000

func NewPeer(conn net.Conn, rec *Rec, gen int64) *Peer {
	p := &Peer{Conn: conn, Rec: rec, Gen: gen, In: make(chan Frame, 1<<14), dead: make(chan struct{})}
	go p.readLoop()
	return p
}

func (p *Peer) readLoop() {
	defer close(p.dead)
	defer close(p.In)
	var lb [4]byte
	for {
		if _, err := io.ReadFull(p.Conn, lb[:]); err != nil {
			return
		}
		n := binary.BigEndian.Uint32(lb[:])
		if n < 10 || n > 1<<20 {
			return
		}
		p.waitHold() // the length prefix is in; the rest of the library's write is still blocked
		payloadAt := time.Now()
		buf := make([]byte, n)
		if _, err := io.ReadFull(p.Conn, buf); err != nil {
			return
		}
		f := FrameFrom(buf)
		origin := int64(-1)
		if IsData(f) {
			if v, ok := U4Of(f.Body); ok {
				origin = int64(v)
				p.Rec.PayloadAt.LoadOrStore(origin, payloadAt)
			}
		} else if f.PT == 0 && (f.ST == 1 || f.ST == 5) {
			// a control transaction the library started by itself: synthesize its start
			p.ctlN++
			origin = InternalCallBase + p.Gen*1000 + p.ctlN
			ff := f
			p.Rec.Add(Entry{K: 'S', ID: origin, Kind: "KCtl", F: &ff})
		}
		ff := f
		p.Rec.Add(Entry{K: 'V', N: p.Gen, ID: origin, F: &ff})
		select {
		case p.In <- f:
		default: // script not consuming; the log has the frame anyway
		}
	}
}

// Send logs then writes one frame; mk receives the serial.
func (p *Peer) Send(mk func(n int64) Frame) (int64, Frame, error) {
	p.wmu.Lock()
	defer p.wmu.Unlock()
	n, f := p.Rec.AddSent(mk)
	_ = p.Conn.SetWriteDeadline(time.Now().Add(5 * time.Second))
	_, err := p.Conn.Write(f.Wire())
	if err == nil {
		p.Rec.WroteAt.Store(n, time.Now())
	}
	return n, f, err
}

// SendF sends a fixed frame.
func (p *Peer) SendF(f Frame) (int64, error) {
	n, _, err := p.Send(func(int64) Frame { return f })
	return n, err
}

// SendData sends a data frame whose body is <U4 serial>.
func (p *Peer) SendData(sid uint16, b2, b3 byte, sys uint32) (int64, Frame, error) {
	return p.Send(func(n int64) Frame {
		return Frame{Sid: sid, B2: b2, B3: b3, Sys: sys, Body: U4Body(uint32(n))}
	})
}

// Wait returns the next frame satisfying pred (others are passed to other, if non-nil).
func (p *Peer) Wait(d time.Duration, pred func(Frame) bool, other func(Frame)) (Frame, bool) {
	t := time.NewTimer(d)
	defer t.Stop()
	for {
		select {
		case f, ok := <-p.In:
			if !ok {
				return Frame{}, false
			}
			if pred(f) {
				return f, true
			}
			if other != nil {
				other(f)
			}
		case <-t.C:
			return Frame{}, false
		}
	}
}

var barrierSeq uint32

// Barrier sends a Linktest.req and waits for its Linktest.rsp: the recv goroutine dispatches in
// order and the async sender is FIFO, so when the rsp is read every earlier frame was dispatched
// and every earlier queued answer was read. Appends "B".
func (p *Peer) Barrier(other func(Frame)) bool {
	p.wmu.Lock()
	barrierSeq++
	sys := 0xF0000000 + barrierSeq
	p.wmu.Unlock()
	if _, err := p.SendF(LinktestReq(sys)); err != nil {
		return false
	}
	_, ok := p.Wait(5*time.Second, func(f Frame) bool { return f.ST == 6 && f.Sys == sys }, other)
	if ok {
		p.Rec.Add(Entry{K: 'B'})
	}
	return ok
}

func (p *Peer) Close() {
	p.Release()
	_ = p.Conn.Close()
	select {
	case <-p.dead:
	case <-time.After(2 * time.Second):
	}
}

// ---------------------------------------------------------------------------------------------
// environment: one connection under test

type nullLogger struct{}

func (nullLogger) Debug(string, ...any)          {}
func (nullLogger) Info(string, ...any)           {}
func (nullLogger) Warn(string, ...any)           {}
func (nullLogger) Error(string, ...any)          {}
func (nullLogger) Fatal(string, ...any)          {}
func (l nullLogger) With(...any) logger.Logger   { return l }
func (nullLogger) Level() logger.LogLevel        { return logger.ErrorLevel }
func (nullLogger) SetLevel(logger.LogLevel)      {}

type pipeListener struct {
	conns  chan net.Conn
	closed chan struct{}
	once   sync.Once
}

func (l *pipeListener) Accept() (net.Conn, error) {
	select {
	case c := <-l.conns:
		return c, nil
	case <-l.closed:
		return nil, net.ErrClosed
	}
}
func (l *pipeListener) Close() error { l.once.Do(func() { close(l.closed) }); return nil }
func (l *pipeListener) Addr() net.Addr { return pipeAddr{} }

type pipeAddr struct{}

func (pipeAddr) Network() string { return "pipe" }
func (pipeAddr) String() string  { return "pipe" }

// Env is one connection under test plus the rig around it.
type Env struct {
	Rec    *Rec
	Conn   hsmsss.Connection
	Active bool
	Sid    uint16
	Gen    int64
	T3, T6 time.Duration
	NH     int
	HSig   chan int64 // one value per handler-0 invocation (serial)

	mu      sync.Mutex
	lis     *pipeListener     // passive: current listener
	lisCh   chan *pipeListener // passive: listeners created by the factory
	dialCh  chan net.Conn     // active: peer ends of dialed pipes
	dialGo  chan struct{}     // active: tokens allowing a dial to proceed
	OnAsync func(origin int64, res string)
	notifMu sync.Mutex
	notifN  map[hsms.ConnState]int // notifications delivered so far, per `next` state

	// RetGate, when non-nil, delays the "R" entry of SyncSend until it is closed (bounded): a
	// deterministic scenario uses it to order "V" (peer has read the frame) before "R" for sends
	// that do not wait for a reply — the write returns as soon as the peer's Read has copied the
	// bytes, i.e. possibly before the peer's reader has appended its "V".
	RetGate chan struct{}

	// SnapshotLog, when set by a scenario, is the rendered log to compare (taken before the scenario
	// lets later, uncompared events happen).
	SnapshotLog string

	hookMu         sync.Mutex
	afterWriteLock func() // run once inside writeFrame, after the write lock is taken (existing test seam)
}

// SetAfterWriteLock arms f to run ONCE at the next writeFrame, between taking the write lock and
// the write-boundary checks (the seam the in-package B2 test uses).
func (e *Env) SetAfterWriteLock(f func()) {
	e.hookMu.Lock()
	e.afterWriteLock = f
	e.hookMu.Unlock()
}

// NewEnv builds (does not open) a connection. nh handlers are registered; each logs "H".
func NewEnv(active bool, nh int, t3, t6 time.Duration, extra ...hsms.ConnOption) (*Env, error) {
	e := &Env{Rec: &Rec{}, Active: active, Sid: 1, T3: t3, T6: t6, NH: nh, HSig: make(chan int64, 1<<14),
		lisCh: make(chan *pipeListener, 64), dialCh: make(chan net.Conn, 64), dialGo: make(chan struct{}, 64)}
	copts := []hsms.ConnOption{
		hsms.WithT3(t3), hsms.WithT6(t6), hsms.WithT7(60 * time.Second), hsms.WithT8(5 * time.Second),
		hsms.WithT5(50 * time.Millisecond), hsms.WithReconnectBackoff(20*time.Millisecond, 1.0),
		hsms.WithSessionID(e.Sid), hsms.WithCloseTimeout(3 * time.Second), hsms.WithLogger(nullLogger{}),
		hsms.WithAsyncSendErrorHandler(func(m hsms.Message, err error) {
			origin := int64(-1)
			f := FrameOfMsg(m)
			if IsData(f) {
				if v, ok := U4Of(f.Body); ok {
					origin = int64(v)
				}
			}
			e.Rec.Add(Entry{K: 'A', ID: origin, Result: ClassifyErr(err)})
		}),
	}
	copts = append(copts, extra...)
	opts := []hsmsss.Option{}
	for _, o := range copts {
		opts = append(opts, hsmsss.WithConnectionOption(o))
	}
	if active {
		opts = append(opts, hsmsss.WithActive(), hsmsss.WithDialer(func(ctx context.Context, network, addr string) (net.Conn, error) {
			select {
			case <-e.dialGo:
			case <-ctx.Done():
				return nil, ctx.Err()
			}
			a, b := net.Pipe()
			e.mu.Lock()
			g := e.Gen
			e.mu.Unlock()
			e.Rec.Add(Entry{K: 'U', N: g})
			e.dialCh <- b
			return a, nil
		}))
	} else {
		opts = append(opts, hsmsss.WithPassive(), hsmsss.WithListener(func(ctx context.Context, network, addr string) (net.Listener, error) {
			l := &pipeListener{conns: make(chan net.Conn), closed: make(chan struct{})}
			e.mu.Lock()
			e.lis = l
			e.mu.Unlock()
			select {
			case e.lisCh <- l:
			default:
			}
			return l, nil
		}))
	}
	cfg, err := hsmsss.NewConfig("127.0.0.1", 5000, opts...)
	if err != nil {
		return nil, err
	}
	conn, err := hsmsss.New(cfg)
	if err != nil {
		return nil, err
	}
	e.Conn = conn
	hsms.VerifSetSendHooks(hsmsss.VerifCore(conn), func() {
		e.hookMu.Lock()
		f := e.afterWriteLock
		e.afterWriteLock = nil
		e.hookMu.Unlock()
		if f != nil {
			f()
		}
	}, nil)
	e.notifN = map[hsms.ConnState]int{}
	conn.AddConnStateChangeHandler(func(prev, next hsms.ConnState) {
		e.notifMu.Lock()
		e.notifN[next]++
		e.notifMu.Unlock()
	})
	for h := 0; h < nh; h++ {
		h := h
		conn.AddDataMessageHandler(func(m *hsms.DataMessage, _ hsms.SECS2Endpoint) {
			n := int64(-1)
			if v, ok := U4Of(m.AppendBodyTo(nil)); ok {
				n = int64(v)
			}
			e.Rec.Add(Entry{K: 'H', ID: int64(h), N: n})
			if h == 0 {
				select {
				case e.HSig <- n:
				default:
				}
			}
		})
	}
	return e, nil
}

// Down appends "D <current generation>": the harness is about to make a lifecycle move.
func (e *Env) Down() {
	e.mu.Lock()
	g := e.Gen
	e.mu.Unlock()
	e.Rec.Add(Entry{K: 'D', N: g})
}

// Open logs "D", bumps the generation and opens in background mode. For the active role the dial
// is released immediately (AllowDial) unless hold is set.
func (e *Env) Open(hold bool) error {
	e.Down()
	e.mu.Lock()
	e.Gen++
	e.mu.Unlock()
	if e.Active && !hold {
		e.AllowDial()
	}
	ctx, cancel := context.WithTimeout(context.Background(), 5*time.Second)
	defer cancel()
	return e.Conn.Open(ctx, hsms.OpenBackground)
}

// AllowDial lets one pending/future dial of the active role proceed.
func (e *Env) AllowDial() { e.dialGo <- struct{}{} }

// NextGen is called by a harness that expects the library to reconnect by itself (after a drop):
// it bumps the generation number the next "U" will carry.
func (e *Env) NextGen() {
	e.mu.Lock()
	e.Gen++
	e.mu.Unlock()
}

// Connect establishes the TCP-level link and returns the peer. Passive: the peer dials the
// current listener ("U" is logged before the peer can write). Active: the peer end of the pipe
// the library dialed.
func (e *Env) Connect(d time.Duration) (*Peer, error) {
	e.mu.Lock()
	g := e.Gen
	e.mu.Unlock()
	if e.Active {
		select {
		case c := <-e.dialCh:
			return NewPeer(c, e.Rec, g), nil
		case <-time.After(d):
			return nil, errors.New("rig: library did not dial")
		}
	}
	var l *pipeListener
	select {
	case l = <-e.lisCh:
	case <-time.After(d):
		return nil, errors.New("rig: library did not listen")
	}
	a, b := net.Pipe()
	select {
	case l.conns <- a:
	case <-l.closed:
		return nil, errors.New("rig: listener closed")
	case <-time.After(d):
		return nil, errors.New("rig: library did not accept")
	}
	e.Rec.Add(Entry{K: 'U', N: g})
	return NewPeer(b, e.Rec, g), nil
}

// Select runs the select procedure from the peer's side. Passive library: the peer sends
// Select.req (system bytes sys) and waits for the rsp. Active library: the peer waits for the
// library's Select.req and answers status 0. Returns the frames involved.
func (e *Env) Select(p *Peer, sys uint32) error {
	if e.Active {
		req, ok := p.Wait(3*time.Second, func(f Frame) bool { return f.ST == 1 }, nil)
		if !ok {
			return errors.New("rig: no Select.req from the library")
		}
		if _, err := p.SendF(SelectRsp(req.Sid, 0, req.Sys)); err != nil {
			return err
		}
		return e.WaitState(hsms.SelectedState, 3*time.Second)
	}
	if _, err := p.SendF(SelectReq(e.Sid, sys)); err != nil {
		return err
	}
	if _, ok := p.Wait(3*time.Second, func(f Frame) bool { return f.ST == 2 && f.Sys == sys }, nil); !ok {
		return errors.New("rig: no Select.rsp from the library")
	}
	return e.WaitState(hsms.SelectedState, 3*time.Second)
}

// NotifCount is the number of state-change notifications with next == s delivered so far.
func (e *Env) NotifCount(s hsms.ConnState) int {
	e.notifMu.Lock()
	defer e.notifMu.Unlock()
	return e.notifN[s]
}

// WaitNotified waits until the supervisor has REACTED to entering s at least n times in total
// (its notification was delivered), i.e. the echo event of the synchronous commit has been
// processed.
func (e *Env) WaitNotified(s hsms.ConnState, n int, d time.Duration) error {
	dl := time.Now().Add(d)
	for time.Now().Before(dl) {
		if e.NotifCount(s) >= n {
			return nil
		}
		time.Sleep(200 * time.Microsecond)
	}
	return fmt.Errorf("rig: no notification #%d of state %v", n, s)
}

// WaitState polls State() (the same lock-free read the send gate uses).
func (e *Env) WaitState(s hsms.ConnState, d time.Duration) error {
	dl := time.Now().Add(d)
	for time.Now().Before(dl) {
		if e.Conn.State() == s {
			return nil
		}
		time.Sleep(200 * time.Microsecond)
	}
	return fmt.Errorf("rig: state %v not reached (is %v)", s, e.Conn.State())
}

// Close logs "D" and closes the connection under a watchdog.
func (e *Env) Close() error {
	e.Down()
	done := make(chan error, 1)
	go func() { done <- e.Conn.Close() }()
	select {
	case err := <-done:
		return err
	case <-time.After(15 * time.Second):
		return errors.New("rig: Close did not return within 15s")
	}
}

// Cond appends the declared stable condition "C <state> <opened>".
func (e *Env) Cond(opened bool) {
	st := "NC"
	switch e.Conn.State() {
	case hsms.NotSelectedState:
		st = "NS"
	case hsms.SelectedState:
		st = "SEL"
	}
	o := "0"
	if opened {
		o = "1"
	}
	e.Rec.Add(Entry{K: 'C', Text: st + " " + o})
}

// Metric appends a drop-counter snapshot.
func (e *Env) Metric() {
	e.Rec.Add(Entry{K: 'M', N: int64(e.Conn.Metrics().DataMsgDropNotSelectedCount())})
}

// SyncSend performs SendDataMessage with the call id as body token, logging S and R.
func (e *Env) SyncSend(ctx context.Context, id int64, stream, fn byte, w bool) (string, time.Duration) {
	b2 := stream
	if w {
		b2 |= 0x80
	}
	f := Frame{Sid: e.Sid, B2: b2, B3: fn, Body: U4Body(uint32(id))}
	e.Rec.Add(Entry{K: 'S', ID: id, Kind: "KSync", F: &f})
	t0 := time.Now()
	reply, err := e.Conn.SendDataMessage(ctx, stream, fn, w, secs2.U4(uint32(id)))
	ret := time.Now()
	el := ret.Sub(t0)
	// "no earlier than T3 after the primary was written": measure from the instant the peer started
	// reading the payload when known (a tighter start that still precedes the arming of the timer)
	if v, ok := e.Rec.PayloadAt.Load(id); ok {
		if d := ret.Sub(v.(time.Time)); d < el {
			el = d
		}
	}
	res := Classify(reply, err)
	if reply != nil && err != nil {
		res = "both"
	}
	if g := e.RetGate; g != nil {
		select {
		case <-g:
		case <-time.After(3 * time.Second):
		}
	}
	e.Rec.Add(Entry{K: 'R', ID: id, Result: res, N: el.Milliseconds()})
	return res, el
}

// ---------------------------------------------------------------------------------------------
// all data-sending entry points (C07)

type s2msg struct {
	s, f byte
	w    bool
	it   secs2.Item
}

func (m s2msg) StreamCode() uint8   { return m.s }
func (m s2msg) FunctionCode() uint8 { return m.f }
func (m s2msg) WaitBit() bool       { return m.w }
func (m s2msg) Item() secs2.Item    { return m.it }

// EntryPoints lists the data-sending entry points with the model kind each maps to.
var EntryPoints = []struct{ Name, Kind string }{
	{"sync", "KSync"}, {"secs2", "KSync"}, {"syncnw", "KSync"}, {"async", "KAsync"}, {"reply", "KReply"},
	{"forward", "KForward"}, {"forwardasync", "KForwardAsync"},
}

// Call performs one data-sending entry point with body token id, logging S and R. The message is
// S5F1 (W as the entry point dictates); forward/reply carry caller-chosen system bytes.
func (e *Env) Call(ctx context.Context, ep string, id int64) string {
	item := secs2.U4(uint32(id))
	body := U4Body(uint32(id))
	var f Frame
	var kind string
	var do func() (*hsms.DataMessage, error)
	switch ep {
	case "sync":
		kind, f = "KSync", Frame{Sid: e.Sid, B2: 0x80 | 5, B3: 1, Body: body}
		do = func() (*hsms.DataMessage, error) { return e.Conn.SendDataMessage(ctx, 5, 1, true, item) }
	case "syncnw":
		kind, f = "KSync", Frame{Sid: e.Sid, B2: 5, B3: 1, Body: body}
		do = func() (*hsms.DataMessage, error) { return e.Conn.SendDataMessage(ctx, 5, 1, false, item) }
	case "secs2":
		kind, f = "KSync", Frame{Sid: e.Sid, B2: 0x80 | 5, B3: 1, Body: body}
		do = func() (*hsms.DataMessage, error) { return e.Conn.SendSECS2Message(ctx, s2msg{5, 1, true, item}) }
	case "async":
		kind, f = "KAsync", Frame{Sid: e.Sid, B2: 0x80 | 5, B3: 1, Body: body}
		do = func() (*hsms.DataMessage, error) { return nil, e.Conn.SendDataMessageAsync(ctx, 5, 1, true, item) }
	case "reply":
		sys := uint32(0x60000000 + id)
		kind, f = "KReply", Frame{Sid: e.Sid, B2: 5, B3: 2, Sys: sys, Body: body}
		prim, err := hsms.NewDataMessage(5, 1, true, e.Sid, hsms.ToSystemBytes(sys), nil)
		do = func() (*hsms.DataMessage, error) {
			if err != nil {
				return nil, err
			}
			return nil, e.Conn.ReplyDataMessage(ctx, prim, item)
		}
	case "forward", "forwardasync":
		sys := uint32(0x70000000 + id)
		kind, f = "KForward", Frame{Sid: e.Sid, B2: 0x80 | 5, B3: 1, Sys: sys, Body: body}
		msg, err := hsms.NewDataMessage(5, 1, true, e.Sid, hsms.ToSystemBytes(sys), item)
		if ep == "forward" {
			do = func() (*hsms.DataMessage, error) {
				if err != nil {
					return nil, err
				}
				return nil, e.Conn.ForwardDataMessage(ctx, msg)
			}
		} else {
			kind = "KForwardAsync"
			do = func() (*hsms.DataMessage, error) {
				if err != nil {
					return nil, err
				}
				return nil, e.Conn.ForwardDataMessageAsync(ctx, msg)
			}
		}
	default:
		panic("unknown entry point " + ep)
	}
	e.Rec.Add(Entry{K: 'S', ID: id, Kind: kind, F: &f})
	t0 := time.Now()
	reply, err := do()
	el := time.Since(t0)
	res := Classify(reply, err)
	if reply != nil && err != nil {
		res = "both"
	}
	e.Rec.Add(Entry{K: 'R', ID: id, Result: res, N: el.Milliseconds()})
	return res
}
