// Harness for C19: runs the real linktest reducers and the REAL runLinktest loop (through the
// verif hook, with a scripted runtime) and records inputs + observed behaviour for the model.
package main

import (
	"fmt"
	"math/rand"
	"strings"
	"sync"
	"time"

	"github.com/arloliu/go-secs/v2/hsmsss"

	"verifharness/vh"
)

const sentBase = int64(1) << 30 // abstract send stamp: above every small receive stamp, below "future"

func stampModel(v int64) string {
	if v >= hsmsss.VerifStampFuture {
		return "4611686018427387904" // 2^62, what the hook stores
	}
	return fmt.Sprint(v)
}

func main() {
	c := vh.New()
	r := c.Rng

	// --- pure reducers: boundary orderings first, then random ---
	vals := []int64{-1 << 63, -2, -1, 0, 1, 2, 3, 1<<63 - 2, 1<<63 - 1}
	nF := c.N
	for i := 0; i < nF; i++ {
		pick := func() int64 {
			switch r.Intn(4) {
			case 0:
				return vals[r.Intn(len(vals))]
			case 1:
				return int64(r.Intn(6)) - 1
			default:
				return r.Int63n(1000) - 100
			}
		}
		sup := r.Intn(2) == 0
		recvNow, sentAt, infl, last := pick(), pick(), pick(), pick()
		fails := int(r.Intn(8)) - 1
		if r.Intn(20) == 0 {
			fails = int(vals[r.Intn(len(vals)-1)]) // never MaxInt64: fails+1 would overflow (the bridge carries that bound)
		}
		nf, nr, cr := hsmsss.VerifLinktestFailureStep(sup, recvNow, sentAt, infl, fails, last)
		line := vh.Join("F", vh.B01(sup), fmt.Sprint(recvNow), fmt.Sprint(sentAt), fmt.Sprint(infl), fmt.Sprint(fails), fmt.Sprint(last),
			"|", fmt.Sprint(nf), fmt.Sprint(nr), vh.B01(cr))
		c.Case(line, line, true)
		c.Count("F/credited=" + vh.B01(cr))
		// oracle: with suppression off every failure counts; credit never grows the run
		if !sup && (cr || nf != fails+1) {
			c.Fail("suppress off but failure not counted", line)
		}
		if cr && nf != 0 {
			c.Fail("credited failure left a non-zero run", line)
		}

		ok := hsmsss.VerifLinktestDisconnectRecheck(sup, infl, recvNow, sentAt)
		line2 := vh.Join("R", vh.B01(sup), fmt.Sprint(infl), fmt.Sprint(recvNow), fmt.Sprint(sentAt), "|", vh.B01(ok))
		c.Case(line2, line2, true)
		if ok && sup && (infl > 0 || recvNow > sentAt) {
			c.Fail("re-check allows dropping a link that shows life", line2)
		}
	}

	// --- the real loop against scripted histories ---
	nL := c.N / 4
	if nL < 50 {
		nL = 50
	}
	for i := 0; i < nL; i++ {
		th := 1 + r.Intn(4)
		sup := r.Intn(3) != 0
		k := 1 + r.Intn(12)
		obs := make([]hsmsss.VerifLinktestObs, k)
		stamp := int64(1 + r.Intn(5))
		mode := r.Intn(4) // 0 dead peer, 1 mostly alive, 2 intermittent, 3 random
		for j := range obs {
			o := &obs[j]
			fail := true
			switch mode {
			case 1:
				fail = r.Intn(5) == 0
			case 2:
				fail = r.Intn(3) != 0
			case 3:
				fail = r.Intn(2) == 0
			}
			o.ProbeFails = fail
			if mode != 0 && r.Intn(6) == 0 {
				o.PreInflight = int64(r.Intn(3))
			}
			if mode != 0 && r.Intn(4) == 0 {
				stamp += int64(r.Intn(3)) // a frame arrived before this probe went out
			}
			o.RecvNow = stamp
			if mode != 0 && r.Intn(8) == 0 {
				o.RecvNow = hsmsss.VerifStampFuture // a frame arrived after the probe was sent
			}
			if mode != 0 && r.Intn(8) == 0 {
				o.Inflight = 1
			}
			o.RecvFinal = o.RecvNow
			if mode != 0 && r.Intn(8) == 0 {
				o.RecvFinal = hsmsss.VerifStampFuture
			}
			if mode != 0 && r.Intn(8) == 0 {
				o.InflightFinal = 1
			}
			if !sup {
				o.RecvFinal = o.RecvNow
			}
		}
		trace := hsmsss.VerifRunLinktest(th, sup, obs)

		var sb strings.Builder
		fmt.Fprintf(&sb, "L %d %s %d", th, vh.B01(sup), k)
		for j, o := range obs {
			fmt.Fprintf(&sb, " %d %s %d %s %d %s %d", o.PreInflight, vh.B01(o.ProbeFails), sentBase+int64(j),
				stampModel(o.RecvNow), o.Inflight, stampModel(o.RecvFinal), o.InflightFinal)
		}
		sb.WriteString(" |")
		downAt := -1
		for j, it := range trace {
			fmt.Fprintf(&sb, " %d %d %d %d %s", it.Suppressed, it.Send, it.Err, it.Credited, vh.B01(it.Down))
			if it.Down && downAt < 0 {
				downAt = j
			}
		}
		line := sb.String()
		c.Case(line, line, k >= 2)
		c.Count(fmt.Sprintf("L/mode=%d/down=%v", mode, downAt >= 0))

		// implementation-level oracle (the property, without the model):
		// (1) a dead peer after a clean start is dropped at exactly the threshold-th probe
		if mode == 0 {
			want := th - 1
			if k < th {
				want = -1
			}
			if downAt != want {
				c.Fail(fmt.Sprintf("dead peer: disconnect at iteration %d, want %d", downAt, want), line)
			}
		}
		// (2) a disconnect needs `th` trailing probed iterations that all failed without life
		if downAt >= 0 {
			cnt := 0
			for j := downAt; j >= 0 && cnt < th; j-- {
				o := obs[j]
				if sup && o.PreInflight > 0 {
					continue // skipped iteration: not a probe
				}
				alive := !o.ProbeFails || (sup && (o.RecvNow >= hsmsss.VerifStampFuture || o.Inflight > 0))
				if j == downAt && sup && (o.RecvFinal >= hsmsss.VerifStampFuture || o.InflightFinal > 0) {
					alive = true
				}
				if alive {
					c.Fail("disconnected although one of the last <threshold> probes showed life", line)
					break
				}
				cnt++
			}
			if cnt < th && len(c.Sum.OracleFailures) == 0 {
				c.Fail("disconnected before <threshold> consecutive probe timeouts", line)
			}
		}
		// (3) suppression rule 2 / probe rule
		for j, it := range trace {
			o := obs[j]
			wantSkip := sup && o.PreInflight > 0
			if (it.Suppressed == 1) != wantSkip || (it.Send == 1) == wantSkip {
				c.Fail("probe rule: probe sent/suppressed contrary to the reply-outstanding rule", line)
				break
			}
		}
	}
	timedPass(c)
	c.Finish()
}

// timedPass drives the real loop with a REAL interval so that suppression rule 1 ("a frame moved
// within the last interval") is scripted too: an active observation is an iteration in which one
// of OUR OWN writes landed inside the window (nothing received). Such an iteration must be skipped
// and must leave the failure run untouched: our own writes never forgive a counted timeout.
func timedPass(c *vh.Ctx) {
	const interval = 3 * time.Millisecond
	n := c.N / 25
	if n < 60 {
		n = 60
	}
	if n > 4000 {
		n = 4000
	}
	type res struct {
		line, count string
		fails       []string
		invalid     bool
	}
	out := make([]res, n)
	seeds := make([]int64, n)
	for i := range seeds {
		seeds[i] = c.Rng.Int63()
	}
	var wg sync.WaitGroup
	sem := make(chan struct{}, 6)
	for i := 0; i < n; i++ {
		wg.Add(1)
		sem <- struct{}{}
		go func(i int) {
			defer wg.Done()
			defer func() { <-sem }()
			r := rand.New(rand.NewSource(seeds[i]))
			for attempt := 0; attempt < 4; attempt++ {
				out[i] = timedCase(r, i, interval)
				if !out[i].invalid {
					return
				}
			}
		}(i)
	}
	wg.Wait()
	for _, o := range out {
		if o.invalid {
			c.Count("T/discarded-scheduler-delay")
			continue
		}
		c.Case(o.line, o.line, true)
		c.Count(o.count)
		for _, f := range o.fails {
			c.Fail(f, o.line)
		}
	}
}

func timedCase(r *rand.Rand, i int, interval time.Duration) (out struct {
	line, count string
	fails       []string
	invalid     bool
}) {
	th := 1 + r.Intn(4)
	sup := r.Intn(5) != 0
	mode := i % 3 // 0: silent peer + own one-way writes; 1: the same with rule-2 skips; 2: random
	k := th + 1 + r.Intn(6)
	obs := make([]hsmsss.VerifLinktestObs, k)
	stamp := int64(1 + r.Intn(5))
	for j := range obs {
		o := &obs[j]
		o.ProbeFails = true
		o.Active = r.Intn(2) == 0
		switch mode {
		case 1:
			if !o.Active && r.Intn(4) == 0 {
				o.PreInflight = 1
			}
		case 2:
			o.ProbeFails = r.Intn(4) != 0
			if r.Intn(5) == 0 {
				stamp += int64(r.Intn(2))
			}
			if r.Intn(10) == 0 {
				o.Inflight = 1
			}
		}
		o.RecvNow, o.RecvFinal = stamp, stamp
	}
	trace, invalid := hsmsss.VerifRunLinktestTimed(th, sup, obs, interval)
	if invalid {
		out.invalid = true
		return out
	}
	var sb strings.Builder
	fmt.Fprintf(&sb, "T %d %s %d", th, vh.B01(sup), k)
	for j, o := range obs {
		fmt.Fprintf(&sb, " %s %d %s %d %s %d %s %d", vh.B01(o.Active), o.PreInflight, vh.B01(o.ProbeFails), sentBase+int64(j),
			stampModel(o.RecvNow), o.Inflight, stampModel(o.RecvFinal), o.InflightFinal)
	}
	sb.WriteString(" |")
	downAt := -1
	for j, it := range trace {
		fmt.Fprintf(&sb, " %d %d %d %d %s", it.Suppressed, it.Send, it.Err, it.Credited, vh.B01(it.Down))
		if it.Down && downAt < 0 {
			downAt = j
		}
	}
	out.line = sb.String()
	out.count = fmt.Sprintf("T/mode=%d/sup=%v/down=%v", mode, sup, downAt >= 0)
	// implementation-level oracle (the property, without the model): the peer is silent in modes 0
	// and 1 (every probe times out, nothing is received, no reply outstanding at the snapshots), so
	// the link must drop at exactly the threshold-th PROBED iteration, whatever we wrote ourselves.
	if mode != 2 {
		probes, want := 0, -1
		for j, o := range obs {
			if sup && (o.Active || o.PreInflight > 0) {
				continue
			}
			probes++
			if probes == th {
				want = j
				break
			}
		}
		if downAt != want {
			out.fails = append(out.fails, fmt.Sprintf("silent peer with local one-way writes: disconnect at iteration %d, want %d (the threshold-th consecutive probe timeout)", downAt, want))
		}
	}
	for j, it := range trace {
		o := obs[j]
		wantSkip := sup && (o.Active || o.PreInflight > 0)
		if (it.Suppressed == 1) != wantSkip || (it.Send == 1) == wantSkip {
			out.fails = append(out.fails, "probe rule: probe sent/suppressed contrary to the traffic-within-interval / reply-outstanding rules")
			break
		}
	}
	return out
}
