// Harness for C15: builds random item trees (every type, empty / one / many values, nesting,
// EmptyItem children, extreme numbers, constructor-built and decoder-built), renders each with
// BOTH real renderers (Item.ToSML and sml.Encode) and writes tree + texts for the model driver.
// Implementation-level oracle: the two texts are equal; numeric / boolean / binary leaves are
// read back by the real parser to the same values.
package main

import (
	"fmt"
	"math"
	"strconv"

	"github.com/arloliu/go-secs/v2/secs2"
	"github.com/arloliu/go-secs/v2/sml"

	"verifharness/smlcase"
	"verifharness/vh"
)

func walk(it secs2.Item, f func(secs2.Item)) {
	f(it)
	if it.IsList() {
		cs, _ := it.ToList()
		for _, c := range cs {
			walk(c, f)
		}
	}
}

func isValueLeaf(it secs2.Item) bool {
	return it.IsBinary() || it.IsBoolean() || it.IsInt8() || it.IsInt16() || it.IsInt32() || it.IsInt64() ||
		it.IsUint8() || it.IsUint16() || it.IsUint32() || it.IsUint64() || it.IsFloat32() || it.IsFloat64()
}

func main() {
	c := vh.New()
	r := c.Rng
	cfg := smlcase.Cfg{EmptyChildren: true, MaxDepth: 4, MaxKids: 5, MaxLeaf: 12}
	if c.Tier == "thorough" {
		cfg.MaxDepth, cfg.MaxKids, cfg.MaxLeaf = 6, 7, 40
	}

	one := func(it secs2.Item, origin string) {
		if it.Error() != nil {
			c.Count("skipped/errored-item")
			return
		}
		syn, ok := smlcase.Syntax(it)
		if !ok {
			c.Count("skipped/no-syntax")
			return
		}
		a := it.ToSML()
		b := sml.Encode(it)
		line := "T " + syn + " | " + smlcase.Hex([]byte(a)) + " " + smlcase.Hex([]byte(b))
		c.Case(line, syn, true)
		c.Count(origin + "/" + smlcase.Kind(it))
		walk(it, func(x secs2.Item) { // which rune classes the quoted / raw-quoted texts carry
			var txt, tag string
			switch {
			case x.IsLocalizedStr():
				txt, _ = x.ToLocalizedStr()
				tag = "W"
			case x.IsJIS8():
				txt, _ = x.ToJIS8()
				tag = "J"
			case x.IsASCII():
				txt, _ = x.ToASCII()
				tag = "A"
			default:
				return
			}
			for _, cl := range smlcase.StringClasses(txt) {
				c.Count("runes/" + tag + "/" + cl)
			}
		})
		if a != b {
			c.Fail("sml.Encode(item) differs from item.ToSML()", line)
		}
		// readback: every numeric / boolean / binary leaf, through the real parser
		walk(it, func(x secs2.Item) {
			if !isValueLeaf(x) {
				return
			}
			c.Count("readback/" + smlcase.Kind(x))
			for _, txt := range []string{x.ToSML(), sml.Encode(x)} {
				ms, err := sml.Parse("S1F1\n" + txt + "\n.")
				if err != nil || len(ms) != 1 {
					s, _ := smlcase.Syntax(x)
					c.Fail("rendered leaf does not parse", "R "+s+" | "+smlcase.Hex([]byte(txt)))
					continue
				}
				back, err := ms[0].Item()
				if err != nil || !smlcase.EqualModNaN(x, back) {
					s, _ := smlcase.Syntax(x)
					c.Fail("rendered leaf reads back as a different value", "R "+s+" | "+smlcase.Hex([]byte(txt)))
				}
			}
		})
	}

	// ---- rendering HISTORY: ToSML / Encode are functions of the value, not of what was rendered
	// before. Sub-items are reached through the public accessors (PRNG-chosen style) and rendered
	// in a PRNG-chosen order and subset (children before parents, parents before children,
	// shuffled, repeated); every rendering must equal the model (T line), the other renderer, and
	// the first rendering of the same item.
	kidsOf := func(it secs2.Item) []secs2.Item {
		var out []secs2.Item
		switch r.Intn(4) {
		case 0:
			for k := range it.Items() {
				out = append(out, k)
			}
		case 1:
			out, _ = it.ToList()
		case 2:
			for i := 0; i < it.Size(); i++ {
				k, err := it.ItemAt(i)
				if err == nil {
					out = append(out, k)
				}
			}
		default:
			for i := 0; i < it.Size(); i++ {
				k, err := it.Get(i)
				if err == nil {
					out = append(out, k)
				}
			}
		}
		return out
	}
	var collect func(it secs2.Item, pre, post *[]secs2.Item)
	collect = func(it secs2.Item, pre, post *[]secs2.Item) {
		*pre = append(*pre, it)
		if it.IsList() {
			for _, k := range kidsOf(it) {
				collect(k, pre, post)
			}
		}
		*post = append(*post, it)
	}
	history := func(root secs2.Item, origin string) {
		if root.Error() != nil || !root.IsList() {
			return
		}
		if _, ok := smlcase.Syntax(root); !ok {
			return
		}
		var pre, post []secs2.Item
		collect(root, &pre, &post)
		firstSML := map[secs2.Item]string{}
		firstEnc := map[secs2.Item]string{}
		lines := 0
		visit := func(x secs2.Item, when string) {
			a := x.ToSML()
			b := sml.Encode(x)
			syn, _ := smlcase.Syntax(x)
			line := "T " + syn + " | " + smlcase.Hex([]byte(a)) + " " + smlcase.Hex([]byte(b))
			if x.IsList() && lines < 10 && len(line) < 20000 {
				lines++
				c.Case(line, "H"+line, true)
			}
			if a != b {
				c.Fail("sml.Encode(item) differs from item.ToSML() after other items of the tree were rendered ("+when+")", line)
			}
			if p, ok := firstSML[x]; ok && p != a {
				c.Fail("item.ToSML() of the same item changed with the rendering history ("+when+")", line)
			}
			if p, ok := firstEnc[x]; ok && p != b {
				c.Fail("sml.Encode(item) of the same item changed with the rendering history ("+when+")", line)
			}
			if _, ok := firstSML[x]; !ok {
				firstSML[x], firstEnc[x] = a, b
			}
		}
		mode := r.Intn(6)
		var order []secs2.Item
		switch mode {
		case 0: // children before parents, lists only
			for _, x := range post {
				if x.IsList() {
					order = append(order, x)
				}
			}
		case 1: // parents before children
			order = pre
		case 2: // a shuffled subset
			for _, x := range pre {
				if r.Intn(2) == 0 {
					order = append(order, x)
				}
			}
			r.Shuffle(len(order), func(i, j int) { order[i], order[j] = order[j], order[i] })
		case 3: // one deepest list first, then upwards by the post-order
			deepest := post[0]
			for _, x := range post {
				if x.IsList() {
					deepest = x
					break
				}
			}
			order = append([]secs2.Item{deepest, deepest}, post...)
		case 4: // everything, children first, then everything again parents first
			order = append(append([]secs2.Item{}, post...), pre...)
		default: // only one inner list, then the root
			var inner []secs2.Item
			for _, x := range pre[1:] {
				if x.IsList() {
					inner = append(inner, x)
				}
			}
			if len(inner) > 0 {
				order = append(order, inner[r.Intn(len(inner))])
			}
		}
		if len(order) > 60 {
			order = order[:60]
		}
		for _, x := range order {
			visit(x, "history")
		}
		// now the root and every visited item again
		visit(root, "root after history")
		for _, x := range order {
			visit(x, "again")
		}
		visit(root, "root again")
		c.Count(fmt.Sprintf("history/%s/mode%d", origin, mode))
	}
	// one item value shared by two parents at different depths
	shared := func() {
		x := secs2.NewListItem(smlcase.Tree(r, cfg, 2, false), smlcase.Tree(r, cfg, 2, false))
		if r.Intn(3) == 0 {
			x = secs2.NewListItem()
		}
		p1 := secs2.NewListItem(x, smlcase.Leaf(r, cfg))
		p2 := secs2.NewListItem(secs2.NewListItem(secs2.NewListItem(x), smlcase.Leaf(r, cfg)), x)
		both := secs2.NewListItem(p1, p2)
		if x.Error() != nil || both.Error() != nil {
			return
		}
		if r.Intn(2) == 0 {
			_ = x.ToSML() // the shared item rendered on its own before any parent
		}
		history(p1, "shared")
		history(p2, "shared")
		history(both, "shared")
	}

	// boundary corpus first
	corpus := []secs2.Item{
		secs2.NewEmptyItem(), secs2.NewListItem(), secs2.NewListItem(secs2.NewEmptyItem()),
		secs2.NewListItem(secs2.NewListItem(), secs2.NewListItem(secs2.NewListItem(secs2.NewASCIIItem("")))),
		secs2.NewListItem(nil, secs2.NewASCIIItem("x"), nil),
		secs2.NewASCIIItem(""), secs2.NewASCIIItem(">"), secs2.NewASCIIItem("a\"b\\c\x00\xff"), secs2.NewJIS8Item(""), secs2.NewUTF8StrItem(""),
		secs2.NewUTF8StrItem("a\"b\\\n\xffé"), secs2.NewBinaryItem(), secs2.NewBinaryItem([]byte{}), secs2.NewBinaryItem(byte(0)),
		secs2.NewBinaryItem([]byte{0, 255}), secs2.NewBooleanItem(), secs2.NewBooleanItem(true), secs2.NewBooleanItem(false, true),
		secs2.NewIntItem(8, int64(math.MinInt64)), secs2.NewIntItem(8, int64(math.MinInt64), int64(math.MaxInt64)), secs2.NewIntItem(1),
		secs2.NewIntItem(1, 300), secs2.NewUintItem(8, uint64(math.MaxUint64)), secs2.NewUintItem(2), secs2.NewFloatItem(4), secs2.NewFloatItem(8),
		secs2.NewFloatItem(4, math.NaN()), secs2.NewFloatItem(8, math.Inf(-1), math.Copysign(0, -1)), secs2.NewFloatItem(4, 1e39, 0.1),
		secs2.NewIntItem(4, "0x10"), secs2.NewFloatItem(8, "1e3"),
	}
	for _, it := range corpus {
		one(it, "corpus")
	}
	// every class of rune strconv's quoting tells apart (and every boundary of its tables), in
	// localized items — quoted with %q / strconv.Quote — and in ASCII / JIS-8 items (raw-quoted)
	for i, s := range smlcase.QuoteCorpus() {
		one(secs2.NewLocalizedStrItem(uint16(i%16), s), "quote-corpus")
		one(secs2.NewASCIIItem(s), "quote-corpus")
		one(secs2.NewJIS8Item(s), "quote-corpus")
		if i%7 == 0 {
			one(secs2.NewListItem(secs2.NewUTF8StrItem(s), secs2.NewListItem(secs2.NewJIS8Item(s), secs2.NewUTF8StrItem(s+s))), "quote-corpus")
		}
	}
	// sizes around the powers the size text and the storage could care about; wide and deep lists
	for _, n := range []int{9, 10, 11, 99, 100, 255, 256, 257, 1000, 65535, 65536} {
		bs := make([]byte, n)
		is := make([]int64, n)
		fs := make([]float64, n)
		bools := make([]bool, n)
		for i := range bs {
			bs[i] = byte(i * 7)
			is[i] = int64(i) - int64(n)/2
			fs[i] = float64(i) / 3
			bools[i] = i%3 == 0
		}
		one(secs2.NewASCIIItem(string(bs)), "sized")
		one(secs2.NewBinaryItem(bs), "sized")
		if n <= 1000 {
			one(secs2.NewIntItem(4, is), "sized")
			one(secs2.NewFloatItem(4, fs), "sized")
			one(secs2.NewBooleanItem(bools), "sized")
			one(secs2.NewJIS8Item(string(bs)), "sized")
			one(secs2.NewUTF8StrItem(string(bs)), "sized")
			kids := make([]secs2.Item, n)
			for i := range kids {
				kids[i] = secs2.NewUintItem(1, uint64(i%256))
			}
			one(secs2.NewListItem(kids...), "sized")
		}
	}
	for _, depth := range []int{1, 2, 9, 10, 33, 64, 65, 100} {
		var it secs2.Item = secs2.NewBooleanItem(true)
		for i := 0; i < depth; i++ {
			it = secs2.NewListItem(it, secs2.NewASCIIItem("d"))
		}
		one(it, "deep")
	}

	// history on fresh fixed shapes: a chain, and a list of lists
	for _, depth := range []int{2, 3, 5, 10} {
		for rep := 0; rep < 6; rep++ {
			var it secs2.Item = secs2.NewListItem(secs2.NewBooleanItem(true))
			for i := 0; i < depth; i++ {
				it = secs2.NewListItem(secs2.NewListItem(), it, secs2.NewASCIIItem("d"))
			}
			history(it, "chain")
		}
	}

	for i := 0; i < c.N; i++ {
		it := smlcase.Tree(r, cfg, 0, true)
		// half of the trees get their history pass BEFORE the root is ever rendered, half after
		hfirst := r.Intn(2) == 0
		if hfirst {
			history(it, "built-fresh")
		}
		one(it, "built")
		if !hfirst {
			history(it, "built")
		}
		if i%8 == 0 {
			shared()
		}
		// the same tree as the decoder builds it (skipped where the wire form does not decode,
		// e.g. an EmptyItem child)
		if i%3 == 0 {
			if dec, err := secs2.Decode(it.ToBytes()); err == nil {
				if r.Intn(2) == 0 {
					history(dec, "decoded-fresh")
				}
				one(dec, "decoded")
				history(dec, "decoded")
			} else {
				c.Count("skipped/undecodable")
			}
		}
	}

	// strconv round trip of the integer tokens, against the model's ParseInt/ParseUint
	edges := []int64{0, 1, -1, 127, -128, 128, -129, 32767, -32768, 32768, 2147483647, -2147483648, 2147483648, math.MaxInt64, math.MinInt64}
	for _, w := range []int{1, 2, 4, 8} {
		for _, v := range edges {
			txt := strconv.FormatInt(v, 10)
			got, err := strconv.ParseInt(txt, 0, 8*w)
			obs := fmt.Sprintf("1 %d", got)
			if err != nil {
				obs = "0 range"
			}
			line := fmt.Sprintf("N I %d %d | %s", w, v, obs)
			c.Case(line, line, true)
			if v >= 0 {
				gotu, err := strconv.ParseUint(txt, 0, 8*w)
				obs := fmt.Sprintf("1 %d", gotu)
				if err != nil {
					obs = "0 range"
				}
				line := fmt.Sprintf("N U %d %d | %s", w, v, obs)
				c.Case(line, line, true)
			}
		}
		line := fmt.Sprintf("N U %d %d | ", w, uint64(math.MaxUint64))
		got, err := strconv.ParseUint(strconv.FormatUint(math.MaxUint64, 10), 0, 8*w)
		if err != nil {
			line += "0 range"
		} else {
			line += fmt.Sprintf("1 %d", got)
		}
		c.Case(line, line, true)
	}
	c.Finish()
}
