package main

// Pipelined pass: the peer writes several frames in ONE write and fences only after the burst, so
// the recv goroutine, the commits and the FIFO sender run back to back with no round trip in
// between. The concatenated answers of a burst must equal the model's outputs for those frames.
// A frame that ends the link, or that completes one of the library's own transactions, is sent
// as a burst of its own (answers still queued at teardown are legitimately discarded; the waiter
// deregisters on another goroutine). A frame that deselects goes into a new burst when an S9F1 of
// the library's own is still in flight (the send gate may drop it: C07).
//
// Case line:  B <cfg> <ctr0> | f ; f / f / f ; f ; f / ... | o0 ; o1 ; ...      (one o per burst)

import (
	"fmt"
	"strings"
	"time"

	"github.com/arloliu/go-secs/v2/hsms"
)

func (h *H) runGenBurst(r *Rig, p *Peer, ctr0 uint32, tag string, next func(i int, o *Oracle) *Frame) genResult {
	c := h.c
	rng := c.Rng
	o := newOracle(r.Cfg, ctr0)
	var bursts, obs []string
	caseSoFar := func() string {
		return fmt.Sprintf("B %s %d | %s | %s", r.Cfg.M(), ctr0, strings.Join(bursts, " / "), strings.Join(obs, " ; "))
	}
	fail := func(class, kind, detail string) {
		c.Fail(fmt.Sprintf("E37 table violated (pipelined): class=%s: %s", class, kind), caseSoFar()+" ## "+detail+r.Cfg.Tag())
	}
	emit := func(ended bool) {
		line := caseSoFar()
		c.Case(line, line, len(bursts) > 1)
		c.Count("gen:" + tag)
		if ended {
			c.Count("gen-ended-by-library")
		}
	}

	var carry *Frame
	idx := 0
	pull := func() *Frame {
		if carry != nil {
			f := carry
			carry = nil
			return f
		}
		fp := next(idx, o)
		idx++
		if fp == nil {
			return nil
		}
		f := *fp
		if f.PT == 0 && f.ST == 5 && len(f.Body) == 0 && f.Sys >= barrierBase {
			f.Sys &= 0x0FFFFFFF
		}
		return &f
	}

	// build draws the next burst (at most size frames) and what the table prescribes for it.
	type burst struct {
		fs                  []Frame
		wantOuts, wantDeliv []Frame
		classes             []string
		last                Expect
	}
	build := func(size int) burst {
		var fs []Frame
		var wantOuts, wantDeliv []Frame
		var classes []string
		last := Expect{}
		ownData := false
		for len(fs) < size {
			fp := pull()
			if fp == nil {
				break
			}
			pre := o.Clone()
			exp := o.Expect(*fp)
			// A data message of the library's own (S9F1) still queued when a later frame of the same
			// burst deselects is dropped by the send gate (data flows only while Selected, C07): the
			// outcome of that race is not prescribed, so the deselecting frame starts a new burst.
			losesSelected := pre.Sel && !o.Sel
			if ((exp.LinkEnds || exp.Closed) && len(fs) > 0) || (losesSelected && ownData) {
				*o = *pre // not part of this burst: it goes alone
				carry = fp
				break
			}
			for _, rf := range exp.Replies {
				ownData = ownData || (rf.ST == 0 && rf.PT == 0)
			}
			fs = append(fs, *fp)
			classes = append(classes, strings.Fields(exp.Class)[0])
			wantOuts = append(wantOuts, exp.Replies...)
			if exp.Deliver {
				wantDeliv = append(wantDeliv, *fp)
			}
			last = exp
			if exp.LinkEnds || exp.Closed {
				break
			}
		}
		return burst{fs, wantOuts, wantDeliv, classes, last}
	}

	discard := func(why string) genResult {
		c.Count("held:discarded")
		c.Count("held:discarded: " + why)
		return genResult{ctr: o.LastSys, ended: true, discarded: true}
	}

	// connect. With the TCP-up hold armed (verif seam) the transport is parked just before its
	// synchronous NotConnected -> NotSelected commit: the peer writes its first burst AND the barrier
	// in one write while the commit is held. No frame can be dispatched before the commit returns —
	// the answers must be exactly those of an un-held link.
	var startOuts []Frame
	want := o.Start()
	if hc := r.hold; hc != nil && hc.armed.Load() {
		select {
		case <-hc.held:
		case <-time.After(rigCeiling):
			// the scenario could not be set up (nothing about the property was observed): discarded
			return discard("the transport did not reach TCPUp within the ceiling")
		}
		b := build(h.heldBurst)
		bar := h.newBarrier()
		var ms []string
		var wire []byte
		for _, f := range b.fs {
			ms = append(ms, f.M())
			wire = append(wire, f.Wire()...)
		}
		wire = append(wire, bar.Wire()...)
		go func() {
			_ = p.Conn.SetWriteDeadline(time.Now().Add(2 * stepTimeout))
			_, _ = p.Conn.Write(wire)
		}()
		time.Sleep(h.holdFor)
		hc.Release()
		var afterSt hsms.ConnState
		select {
		case afterSt = <-hc.after:
		case <-time.After(rigCeiling):
			return discard("TCPUp did not return within the ceiling")
		}
		rsp, all, down, tmo := h.collect(p, bar)
		var outs []Frame
		for _, f := range all {
			if f.PT == 0 && f.ST == 1 && len(startOuts) < len(want) {
				startOuts = append(startOuts, f) // the active side's own Select.req (written by another goroutine)
			} else {
				outs = append(outs, f)
			}
		}
		// The active side's Select.req is written by the select goroutine, the barrier's answer by the
		// async sender: either may reach the peer first. Wait for the Select.req itself (an event, not
		// a quiet period); anything else read meanwhile is an answer and is judged as such.
		for !down && !tmo && len(startOuts) < len(want) {
			f, res := p.Next(rigCeiling)
			if res == readTimeout {
				return discard("the peer did not see the active side's Select.req within the ceiling")
			}
			if res == readEOF {
				down = true
				break
			}
			if f.PT == 0 && f.ST == 1 {
				startOuts = append(startOuts, f)
			} else {
				outs = append(outs, f)
			}
		}
		c.Count("held:established")
		deliv := r.TakeDelivered()
		obs = append(obs, obsString(selOf(afterSt), "K", startOuts, nil))
		class := "held-tcpup:" + strings.Join(b.classes, "+")
		c.Count("held-tcpup")
		if len(ms) > 0 {
			bursts = append(bursts, strings.Join(ms, " ; "))
		}
		if down || tmo {
			obs = append(obs, obsString("x", "D", outs, deliv))
			if tmo {
				fail(class, "the burst written while the TCP-up commit was held got no answer within the step timeout", "")
			} else {
				fail(class, "disconnect", "")
			}
			emit(true)
			return genResult{ctr: o.LastSys, ended: true}
		}
		st := r.Conn.State()
		if len(ms) > 0 {
			obs = append(obs, obsString(selOf(st), "K", outs, deliv))
		}
		if !framesEqual(startOuts, want) || afterSt != hsms.NotSelectedState {
			fail("connect", "frames sent on connect or State() after TCPUp differ", hexes(startOuts))
		}
		if !framesEqual(outs, b.wantOuts) {
			fail(class, "replies differ", fmt.Sprintf("replies %s, prescribed %s", hexes(outs), hexes(b.wantOuts)))
		}
		if !framesEqual(deliv, b.wantDeliv) {
			fail(class, "handler invocations differ", hexes(deliv))
		}
		if selOf(st) != b01(o.Sel) {
			fail(class, "State() differs from the acknowledged selected state", selOf(st))
		}
		bursts = append(bursts, bar.M())
		obs = append(obs, obsString(selOf(st), "K", []Frame{rsp}, nil))
		o.Expect(bar)
	} else {
		for range want {
			f, res := p.Next(stepTimeout)
			if res != readFrame {
				break
			}
			startOuts = append(startOuts, f)
		}
		bar0, brsp, more, down, tmo := h.fence(p)
		startOuts = append(startOuts, more...)
		if down || tmo {
			obs = append(obs, obsString("n", "D", startOuts, nil))
			fail("connect", "link not usable after connect", "")
			emit(true)
			return genResult{ctr: o.LastSys, ended: true}
		}
		st := r.Conn.State()
		obs = append(obs, obsString(selOf(st), "K", startOuts, r.TakeDelivered()))
		if !framesEqual(startOuts, want) || st != hsms.NotSelectedState {
			fail("connect", "frames sent on connect or State() differ", hexes(startOuts))
		}
		bursts = append(bursts, bar0.M())
		obs = append(obs, obsString(selOf(st), "K", []Frame{brsp}, nil))
		o.Expect(bar0)
	}

	alive := true
	for alive {
		b := build(1 + rng.Intn(8))
		fs, wantOuts, wantDeliv, classes, last := b.fs, b.wantOuts, b.wantDeliv, b.classes, b.last
		if len(fs) == 0 {
			break
		}
		var ms []string
		var wire []byte
		for _, f := range fs {
			ms = append(ms, f.M())
			wire = append(wire, f.Wire()...)
		}
		bursts = append(bursts, strings.Join(ms, " ; "))
		for _, cl := range classes {
			c.Count("class:" + cl)
		}
		c.Count(fmt.Sprintf("burst-size:%d", len(fs)))
		class := strings.Join(classes, "+")
		if _, err := p.Conn.Write(wire); err != nil {
			outs, _, _ := h.drain(p)
			obs = append(obs, obsString("x", "D", outs, r.TakeDelivered()))
			fail(class, "the link was already closed when this burst was written", "")
			alive = false
			break
		}
		if last.LinkEnds {
			outs, down, _ := h.drain(p)
			deliv := r.TakeDelivered()
			alive = false
			if !down {
				obs = append(obs, obsString(selOf(r.Conn.State()), "K", outs, deliv))
				fail(class, "the link did not end", "")
				break
			}
			obs = append(obs, obsString("x", "D", outs, deliv))
			if len(outs) != 0 || len(deliv) != 0 {
				fail(class, "frames were sent back or delivered before the link ended", hexes(outs))
			}
			break
		}
		bar, rsp, outs, down, tmo := h.fence(p)
		deliv := r.TakeDelivered()
		if down || tmo {
			obs = append(obs, obsString("x", "D", outs, deliv))
			fail(class, "disconnect or no answer to the barrier", "")
			alive = false
			break
		}
		st := r.Conn.State()
		obs = append(obs, obsString(selOf(st), "K", outs, deliv))
		if !framesEqual(outs, wantOuts) {
			fail(class, "replies differ", fmt.Sprintf("replies %s, prescribed %s", hexes(outs), hexes(wantOuts)))
		}
		if !framesEqual(deliv, wantDeliv) {
			fail(class, "handler invocations differ", hexes(deliv))
		}
		if selOf(st) != b01(o.Sel) {
			fail(class, "State() differs from the acknowledged selected state", selOf(st))
		}
		bursts = append(bursts, bar.M())
		obs = append(obs, obsString(selOf(st), "K", []Frame{rsp}, nil))
		o.Expect(bar)
		if last.Closed {
			// wait until the completed transaction is really closed (see runGen)
			probe := Frame{Sid: 0xFFFF, ST: 6, Sys: fs[len(fs)-1].Sys}
			closed := false
			for try := 0; try < 20000; try++ {
				if err := p.Send(probe); err != nil {
					break
				}
				bar, rsp, outs, down, tmo := h.fence(p)
				if down || tmo {
					break
				}
				if len(outs) == 0 {
					c.Count("probe-retry")
					continue
				}
				pexp := o.Expect(probe)
				bursts = append(bursts, probe.M())
				obs = append(obs, obsString(selOf(r.Conn.State()), "K", outs, r.TakeDelivered()))
				if !framesEqual(outs, pexp.Replies) {
					fail(pexp.Class, "replies differ", hexes(outs))
				}
				bursts = append(bursts, bar.M())
				obs = append(obs, obsString(selOf(r.Conn.State()), "K", []Frame{rsp}, nil))
				o.Expect(bar)
				closed = true
				break
			}
			if !closed {
				fail(class, "the completed transaction never closed", "")
				alive = false
				bursts = append(bursts, probe.M())
				obs = append(obs, "x D")
			}
		}
	}
	emit(!alive)
	if alive {
		return genResult{ctr: o.LastSys, alive: p}
	}
	return genResult{ctr: o.LastSys, ended: true}
}

// randomBurst: n pipelined generations over the same alphabet as random().
func (h *H) randomBurst(n int) {
	rng := h.c.Rng
	done := 0
	for done < n {
		cfg := Cfg{Active: rng.Intn(2) == 0, Validate: rng.Intn(2) == 0, Equip: rng.Intn(2) == 0, Trace: rng.Intn(2) == 0}
		switch rng.Intn(3) {
		case 0:
			cfg.Sid = 0xFFFF
		default:
			cfg.Sid = uint16(rng.Intn(65536))
		}
		r, err := newRig(cfg)
		if err != nil {
			h.fatal("rig: %v", err)
		}
		if err := r.Open(); err != nil {
			h.fatal("open: %v", err)
		}
		ctr := uint32(0)
		ngen := 1 + rng.Intn(3)
		for g := 0; g < ngen && done < n; g++ {
			p, err := r.Connect(stepTimeout)
			if err != nil {
				h.c.Fail("rig: "+err.Error(), "burst")
				break
			}
			length := 1 + rng.Intn(2*h.maxLen)
			res := h.runGenBurst(r, p, ctr, "pipelined", func(i int, o *Oracle) *Frame {
				if i >= length {
					return nil
				}
				f := h.randFrame(rng, cfg, o)
				return &f
			})
			ctr = res.ctr
			_ = p.Conn.Close()
			done++
		}
		if err := r.Close(); err != nil {
			h.c.Fail("rig: "+err.Error(), "burst")
		}
	}
}
