package main

// Pipelined pass: the peer writes several frames in ONE write and fences only after the burst, so
// the recv goroutine, the commits and the FIFO sender run back to back with no round trip in
// between. The concatenated answers of a burst must equal the model's outputs for those frames.
// A frame that ends the link, or that completes one of the library's own transactions, is sent
// as a burst of its own (answers still queued at teardown are legitimately discarded; the waiter
// deregisters on another goroutine). A frame that deselects goes into a new burst when an S9F1 of
// the library's own is still in flight (the send gate may drop it: C07).
//
// Case line:  B <cfg> <ctr0> | f ; f / f / f ; f ; f / ... | o0 ; o1 ; ...      (one o per burst)

import (
	"fmt"
	"strings"

	"github.com/arloliu/go-secs/v2/hsms"
)

func (h *H) runGenBurst(r *Rig, p *Peer, ctr0 uint32, tag string, next func(i int, o *Oracle) *Frame) genResult {
	c := h.c
	rng := c.Rng
	o := newOracle(r.Cfg, ctr0)
	var bursts, obs []string
	caseSoFar := func() string {
		return fmt.Sprintf("B %s %d | %s | %s", r.Cfg.M(), ctr0, strings.Join(bursts, " / "), strings.Join(obs, " ; "))
	}
	fail := func(class, kind, detail string) {
		c.Fail(fmt.Sprintf("E37 table violated (pipelined): class=%s: %s", class, kind), caseSoFar()+" ## "+detail)
	}
	emit := func(ended bool) {
		line := caseSoFar()
		c.Case(line, line, len(bursts) > 1)
		c.Count("gen:" + tag)
		if ended {
			c.Count("gen-ended-by-library")
		}
	}

	// connect
	var startOuts []Frame
	want := o.Start()
	for range want {
		f, res := p.Next(stepTimeout)
		if res != readFrame {
			break
		}
		startOuts = append(startOuts, f)
	}
	bar0, brsp, more, down, tmo := h.fence(p)
	startOuts = append(startOuts, more...)
	if down || tmo {
		obs = append(obs, obsString("n", "D", startOuts, nil))
		fail("connect", "link not usable after connect", "")
		emit(true)
		return genResult{ctr: o.LastSys, ended: true}
	}
	st := r.Conn.State()
	obs = append(obs, obsString(selOf(st), "K", startOuts, r.TakeDelivered()))
	if !framesEqual(startOuts, want) || st != hsms.NotSelectedState {
		fail("connect", "frames sent on connect or State() differ", hexes(startOuts))
	}
	bursts = append(bursts, bar0.M())
	obs = append(obs, obsString(selOf(st), "K", []Frame{brsp}, nil))
	o.Expect(bar0)

	var carry *Frame
	idx := 0
	pull := func() *Frame {
		if carry != nil {
			f := carry
			carry = nil
			return f
		}
		fp := next(idx, o)
		idx++
		if fp == nil {
			return nil
		}
		f := *fp
		if f.PT == 0 && f.ST == 5 && len(f.Body) == 0 && f.Sys >= barrierBase {
			f.Sys &= 0x0FFFFFFF
		}
		return &f
	}

	alive := true
	for alive {
		size := 1 + rng.Intn(8)
		var fs []Frame
		var wantOuts, wantDeliv []Frame
		var classes []string
		last := Expect{}
		ownData := false
		for len(fs) < size {
			fp := pull()
			if fp == nil {
				break
			}
			pre := o.Clone()
			exp := o.Expect(*fp)
			// A data message of the library's own (S9F1) still queued when a later frame of the same
			// burst deselects is dropped by the send gate (data flows only while Selected, C07): the
			// outcome of that race is not prescribed, so the deselecting frame starts a new burst.
			losesSelected := pre.Sel && !o.Sel
			if ((exp.LinkEnds || exp.Closed) && len(fs) > 0) || (losesSelected && ownData) {
				*o = *pre // not part of this burst: it goes alone
				carry = fp
				break
			}
			for _, rf := range exp.Replies {
				ownData = ownData || (rf.ST == 0 && rf.PT == 0)
			}
			fs = append(fs, *fp)
			classes = append(classes, strings.Fields(exp.Class)[0])
			wantOuts = append(wantOuts, exp.Replies...)
			if exp.Deliver {
				wantDeliv = append(wantDeliv, *fp)
			}
			last = exp
			if exp.LinkEnds || exp.Closed {
				break
			}
		}
		if len(fs) == 0 {
			break
		}
		var ms []string
		var wire []byte
		for _, f := range fs {
			ms = append(ms, f.M())
			wire = append(wire, f.Wire()...)
		}
		bursts = append(bursts, strings.Join(ms, " ; "))
		for _, cl := range classes {
			c.Count("class:" + cl)
		}
		c.Count(fmt.Sprintf("burst-size:%d", len(fs)))
		class := strings.Join(classes, "+")
		if _, err := p.Conn.Write(wire); err != nil {
			outs, _, _ := h.drain(p)
			obs = append(obs, obsString("x", "D", outs, r.TakeDelivered()))
			fail(class, "the link was already closed when this burst was written", "")
			alive = false
			break
		}
		if last.LinkEnds {
			outs, down, _ := h.drain(p)
			deliv := r.TakeDelivered()
			alive = false
			if !down {
				obs = append(obs, obsString(selOf(r.Conn.State()), "K", outs, deliv))
				fail(class, "the link did not end", "")
				break
			}
			obs = append(obs, obsString("x", "D", outs, deliv))
			if len(outs) != 0 || len(deliv) != 0 {
				fail(class, "frames were sent back or delivered before the link ended", hexes(outs))
			}
			break
		}
		bar, rsp, outs, down, tmo := h.fence(p)
		deliv := r.TakeDelivered()
		if down || tmo {
			obs = append(obs, obsString("x", "D", outs, deliv))
			fail(class, "disconnect or no answer to the barrier", "")
			alive = false
			break
		}
		st := r.Conn.State()
		obs = append(obs, obsString(selOf(st), "K", outs, deliv))
		if !framesEqual(outs, wantOuts) {
			fail(class, "replies differ", fmt.Sprintf("replies %s, prescribed %s", hexes(outs), hexes(wantOuts)))
		}
		if !framesEqual(deliv, wantDeliv) {
			fail(class, "handler invocations differ", hexes(deliv))
		}
		if selOf(st) != b01(o.Sel) {
			fail(class, "State() differs from the acknowledged selected state", selOf(st))
		}
		bursts = append(bursts, bar.M())
		obs = append(obs, obsString(selOf(st), "K", []Frame{rsp}, nil))
		o.Expect(bar)
		if last.Closed {
			// wait until the completed transaction is really closed (see runGen)
			probe := Frame{Sid: 0xFFFF, ST: 6, Sys: fs[len(fs)-1].Sys}
			closed := false
			for try := 0; try < 20000; try++ {
				if err := p.Send(probe); err != nil {
					break
				}
				bar, rsp, outs, down, tmo := h.fence(p)
				if down || tmo {
					break
				}
				if len(outs) == 0 {
					c.Count("probe-retry")
					continue
				}
				pexp := o.Expect(probe)
				bursts = append(bursts, probe.M())
				obs = append(obs, obsString(selOf(r.Conn.State()), "K", outs, r.TakeDelivered()))
				if !framesEqual(outs, pexp.Replies) {
					fail(pexp.Class, "replies differ", hexes(outs))
				}
				bursts = append(bursts, bar.M())
				obs = append(obs, obsString(selOf(r.Conn.State()), "K", []Frame{rsp}, nil))
				o.Expect(bar)
				closed = true
				break
			}
			if !closed {
				fail(class, "the completed transaction never closed", "")
				alive = false
				bursts = append(bursts, probe.M())
				obs = append(obs, "x D")
			}
		}
	}
	emit(!alive)
	if alive {
		return genResult{ctr: o.LastSys, alive: p}
	}
	return genResult{ctr: o.LastSys, ended: true}
}

// randomBurst: n pipelined generations over the same alphabet as random().
func (h *H) randomBurst(n int) {
	rng := h.c.Rng
	done := 0
	for done < n {
		cfg := Cfg{Active: rng.Intn(2) == 0, Validate: rng.Intn(2) == 0, Equip: rng.Intn(2) == 0}
		switch rng.Intn(3) {
		case 0:
			cfg.Sid = 0xFFFF
		default:
			cfg.Sid = uint16(rng.Intn(65536))
		}
		r, err := newRig(cfg)
		if err != nil {
			h.fatal("rig: %v", err)
		}
		if err := r.Open(); err != nil {
			h.fatal("open: %v", err)
		}
		ctr := uint32(0)
		ngen := 1 + rng.Intn(3)
		for g := 0; g < ngen && done < n; g++ {
			p, err := r.Connect(stepTimeout)
			if err != nil {
				h.c.Fail("rig: "+err.Error(), "burst")
				break
			}
			length := 1 + rng.Intn(2*h.maxLen)
			res := h.runGenBurst(r, p, ctr, "pipelined", func(i int, o *Oracle) *Frame {
				if i >= length {
					return nil
				}
				f := h.randFrame(rng, cfg, o)
				return &f
			})
			ctr = res.ctr
			_ = p.Conn.Close()
			done++
		}
		if err := r.Close(); err != nil {
			h.c.Fail("rig: "+err.Error(), "burst")
		}
	}
}
