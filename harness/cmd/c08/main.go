// Command c08 is the C08 harness: a scripted raw-frame peer drives a REAL hsmsss connection over
// net.Pipe (public WithDialer / WithListener; both roles, equipment/host, session-id validation
// on/off) with sequences over the whole frame alphabet and records, per frame, exactly what the
// library sent back (fenced by a Linktest.req barrier), what reached the application's handler,
// whether the link ended, and State(). The case file is replayed on the extracted Coq model
// (Hsms/Responder.v) by ocaml/c08_driver.ml; independently of the model, every step is judged
// against the E37 table in oracle.go.
//
// Case lines
//
//	Q <active> <sid> <validate> <equip> <ctr0> | f ; f ; ... | o0 ; o1 ; ...
//	    f  = sid b2 b3 pt st sys bodyhex            (barrier frames are ordinary frames of the list)
//	    o0 = what the library did on connect, oi = reaction to the i-th frame:
//	         <sel 0|1|n> <K|D> {S<hex of header||body>}* {H<hex>}*       (H = handler invocation)
//	P <active> <sid> <validate> <equip> <ctr0> | e ; e ; ... | o ; o ; ...
//	    e  = A <k>  |  F <k> <frame>                one passive listener generation, several peers
//	    o  = a<k> | r<k> | {S<hex>|H<hex>}* [d]     adopted / refused / outputs on the live link
package main

import (
	"flag"
	"fmt"
	"os"
	"strings"
	"time"

	"verifharness/vh"

	"github.com/arloliu/go-secs/v2/hsms"
)

const (
	barrierBase = 0xFB000000
	stepTimeout = 15 * time.Second // ceiling of every event wait (frame, barrier answer, link end)
	rigCeiling  = 20 * time.Second // ceiling of the waits that only set a scenario up
)

type H struct {
	c        *vh.Ctx
	barrierN uint32
	maxLen   int
	// held-TCP-up scenarios (hold.go)
	heldBurst int
	holdFor   time.Duration
}

func main() {
	mode := flag.String("mode", "all", "all | seq | held | second")
	c := vh.New()
	h := &H{c: c, maxLen: 30}
	if c.Tier == "thorough" {
		h.maxLen = 200
	}
	if *mode == "all" || *mode == "seq" {
		for b := 0; b < 256; b++ {
			line := fmt.Sprintf("V %d | - | %s", b, b01(hsms.IsValidSType(byte(b))))
			c.Case(line, line, false)
		}
		h.corpus()
		h.random(c.N)
		h.randomBurst(c.N / 2)
	}
	if *mode == "all" || *mode == "held" {
		rounds := 1
		if c.Tier == "thorough" {
			rounds = 8
		}
		h.held(rounds)
	}
	if *mode == "all" || *mode == "second" {
		n := 6
		if c.Tier == "thorough" {
			n = 60
		}
		h.second(n)
	}
	c.Finish()
}

func (h *H) fatal(format string, a ...any) {
	fmt.Fprintf(os.Stderr, "c08 harness: "+format+"\n", a...)
	os.Exit(2)
}

// ---------------------------------------------------------------------------------------------
// one TCP generation

type genResult struct {
	ctr   uint32 // system-bytes counter after the generation (as tracked by the oracle)
	ended bool   // the library ended the link
	alive *Peer  // the peer, if the link is still up
	// discarded: the rig could not establish the scenario (counted, judged by the floor obligation)
	discarded bool
}

// fence sends a Linktest.req barrier and collects every frame read before its Linktest.rsp.
// down: the link ended instead. timeout: neither happened within stepTimeout.
func (h *H) fence(p *Peer) (bar Frame, rsp Frame, outs []Frame, down, timeout bool) {
	bar = h.newBarrier()
	if err := p.Send(bar); err != nil {
		outs, down, timeout = h.drain(p)
		return
	}
	rsp, outs, down, timeout = h.collect(p, bar)
	return
}

func (h *H) newBarrier() Frame {
	h.barrierN++
	return Frame{Sid: 0xFFFF, ST: 5, Sys: barrierBase + h.barrierN&0x00FFFFFF}
}

// collect reads every frame up to the Linktest.rsp answering bar.
func (h *H) collect(p *Peer, bar Frame) (rsp Frame, outs []Frame, down, timeout bool) {
	for {
		f, res := p.Next(stepTimeout)
		switch res {
		case readEOF:
			down = true
			return
		case readTimeout:
			timeout = true
			return
		}
		if f.ST == 6 && f.PT == 0 && f.Sys == bar.Sys {
			rsp = f
			return
		}
		outs = append(outs, f)
	}
}

// drain reads until the link ends.
func (h *H) drain(p *Peer) (outs []Frame, down, timeout bool) {
	for {
		f, res := p.Next(stepTimeout)
		switch res {
		case readEOF:
			return outs, true, false
		case readTimeout:
			return outs, false, true
		}
		outs = append(outs, f)
	}
}

func selOf(s hsms.ConnState) string {
	switch s {
	case hsms.SelectedState:
		return "1"
	case hsms.NotSelectedState:
		return "0"
	}
	return "n"
}

func obsString(sel, eff string, outs, deliv []Frame) string {
	parts := []string{sel, eff}
	for _, f := range outs {
		parts = append(parts, "S"+f.Hex())
	}
	for _, f := range deliv {
		parts = append(parts, "H"+f.Hex())
	}
	return strings.Join(parts, " ")
}

func framesEqual(a, b []Frame) bool {
	if len(a) != len(b) {
		return false
	}
	for i := range a {
		if !a[i].Equal(b[i]) {
			return false
		}
	}
	return true
}

func hexes(fs []Frame) string {
	var s []string
	for _, f := range fs {
		s = append(s, f.Hex())
	}
	return "[" + strings.Join(s, ",") + "]"
}

// runGen drives one TCP generation. next returns the next frame to send (nil = stop) given the
// oracle's view; keepUp leaves the link open at the end (for the second-connection scenarios).
func (h *H) runGen(r *Rig, p *Peer, ctr0 uint32, tag string, next func(i int, o *Oracle) *Frame) genResult {
	c := h.c
	o := newOracle(r.Cfg, ctr0)
	var frames, obs []string
	caseSoFar := func() string {
		return fmt.Sprintf("Q %s %d | %s | %s", r.Cfg.M(), ctr0, strings.Join(frames, " ; "), strings.Join(obs, " ; "))
	}
	// what = class + kind of deviation (stable); the bytes go into the case
	fail := func(class, detail string) {
		kind, rest := detail, ""
		if i := strings.Index(detail, " ## "); i >= 0 {
			kind, rest = detail[:i], detail[i:]
		}
		c.Fail(fmt.Sprintf("E37 table violated: class=%s: %s", class, kind), caseSoFar()+rest+r.Cfg.Tag())
	}
	emit := func(ended bool) {
		line := caseSoFar()
		c.Case(line, line, len(frames) > 1)
		c.Count("gen:" + tag)
		if ended {
			c.Count("gen-ended-by-library")
		}
	}

	// ---- connect: what the library sends unasked
	var startOuts []Frame
	want := o.Start()
	for range want {
		f, res := p.Next(stepTimeout)
		if res != readFrame {
			break
		}
		startOuts = append(startOuts, f)
	}
	bar0, brsp, more, down, tmo := h.fence(p)
	startOuts = append(startOuts, more...)
	if down || tmo {
		obs = append(obs, obsString("n", "D", startOuts, nil))
		fail("connect", "link not usable after connect")
		emit(true)
		return genResult{ctr: o.LastSys, ended: true}
	}
	st := r.Conn.State()
	obs = append(obs, obsString(selOf(st), "K", startOuts, r.TakeDelivered()))
	if !framesEqual(startOuts, want) {
		fail("connect", fmt.Sprintf("frames sent on connect differ ## sent %s, prescribed %s", hexes(startOuts), hexes(want)))
	}
	if st != hsms.NotSelectedState {
		fail("connect", "State() after connect is not NotSelected")
	}
	// the first barrier is frame #0 of the sequence
	frames = append(frames, bar0.M())
	obs = append(obs, obsString(selOf(st), "K", []Frame{brsp}, nil))
	if b0 := o.Expect(bar0); !framesEqual([]Frame{brsp}, b0.Replies) {
		fail(b0.Class, fmt.Sprintf("reply differs ## reply %s, prescribed %s", hexes([]Frame{brsp}), hexes(b0.Replies)))
	}

	reportReplay := func(nf, no int) {
		frames, obs = frames[:nf], obs[:no]
		c.Fail(replayWhat, caseSoFar()+r.Cfg.Tag())
		c.Count("deselect-undone")
	}

	// step sends f, fences, records, judges. Returns false when the link ended (or the generation
	// must be abandoned).
	step := func(f Frame) (bool, Expect) {
		nf, no := len(frames), len(obs)
		pre := o.Clone()
		exp := o.Expect(f)
		frames = append(frames, f.M())
		c.Count("class:" + strings.Fields(exp.Class)[0])
		if err := p.Send(f); err != nil {
			outs, _, _ := h.drain(p)
			obs = append(obs, obsString("x", "D", outs, r.TakeDelivered()))
			fail(exp.Class, "the link was already closed when this frame was written")
			return false, exp
		}
		if exp.LinkEnds {
			outs, down, _ := h.drain(p)
			deliv := r.TakeDelivered()
			if !down {
				obs = append(obs, obsString(selOf(r.Conn.State()), "K", outs, deliv))
				fail(exp.Class, "the link did not end")
				return true, exp
			}
			obs = append(obs, obsString("x", "D", outs, deliv))
			if len(outs) != 0 {
				fail(exp.Class, "frames were sent back before the link ended ## "+hexes(outs))
			}
			if len(deliv) != 0 {
				fail(exp.Class, "handler invoked")
			}
			return false, exp
		}
		bar, rsp, outs, down, tmo := h.fence(p)
		deliv := r.TakeDelivered()
		if down || tmo {
			if down && replayed(pre, o, f, outs, deliv, true, 0) {
				reportReplay(nf, no)
				return false, exp
			}
			obs = append(obs, obsString("x", "D", outs, deliv))
			if tmo {
				fail(exp.Class, "no answer to the barrier within the step timeout")
			} else {
				fail(exp.Class, "disconnect")
			}
			return false, exp
		}
		st := r.Conn.State()
		replyOK := framesEqual(outs, exp.Replies)
		delivOK := exp.Deliver == (len(deliv) == 1) && len(deliv) <= 1 && (len(deliv) == 0 || deliv[0].Equal(f))
		stateOK := selOf(st) == b01(o.Sel)
		if !(replyOK && delivOK && stateOK) && replayed(pre, o, f, outs, deliv, false, st) {
			reportReplay(nf, no)
			return false, exp
		}
		obs = append(obs, obsString(selOf(st), "K", outs, deliv))
		if !replyOK {
			fail(exp.Class, fmt.Sprintf("reply differs ## reply %s, prescribed %s", hexes(outs), hexes(exp.Replies)))
		}
		if !delivOK {
			fail(exp.Class, fmt.Sprintf("handler invocations differ ## handler saw %s", hexes(deliv)))
		}
		if !stateOK {
			fail(exp.Class, fmt.Sprintf("State() differs from the acknowledged selected state ## State()=%s acknowledged=%s", selOf(st), b01(o.Sel)))
		}
		// the barrier is a frame of the sequence too
		frames = append(frames, bar.M())
		obs = append(obs, obsString(selOf(st), "K", []Frame{rsp}, nil))
		bexp := o.Expect(bar)
		if !framesEqual([]Frame{rsp}, bexp.Replies) {
			fail(bexp.Class, fmt.Sprintf("reply differs ## reply %s, prescribed %s", hexes([]Frame{rsp}), hexes(bexp.Replies)))
		}
		return true, exp
	}

	alive := true
	for i := 0; alive; i++ {
		fp := next(i, o)
		if fp == nil {
			break
		}
		f := *fp
		if f.PT == 0 && f.ST == 5 && len(f.Body) == 0 && f.Sys >= barrierBase {
			f.Sys &= 0x0FFFFFFF // never collide with a barrier
		}
		var exp Expect
		alive, exp = step(f)
		if alive && exp.Closed && !exp.LinkEnds {
			// The waiter deregisters on its own goroutine. Probe with an orphan Linktest.rsp until the
			// library answers it with Reject(3): only that probe is part of the recorded sequence.
			probe := Frame{Sid: 0xFFFF, ST: 6, Sys: f.Sys}
			closed := false
			for try := 0; try < 20000 && alive; try++ {
				if err := p.Send(probe); err != nil {
					alive = false
					break
				}
				bar, rsp, outs, down, tmo := h.fence(p)
				if down || tmo {
					alive = false
					break
				}
				if len(outs) == 0 {
					c.Count("probe-retry")
					time.Sleep(50 * time.Microsecond)
					continue
				}
				nf, no := len(frames), len(obs)
				ppre := o.Clone()
				pexp := o.Expect(probe)
				frames = append(frames, probe.M())
				st := r.Conn.State()
				if selOf(st) != b01(o.Sel) && replayed(ppre, o, probe, outs, nil, false, st) {
					reportReplay(nf, no)
					alive, closed = false, true
					break
				}
				obs = append(obs, obsString(selOf(st), "K", outs, r.TakeDelivered()))
				if !framesEqual(outs, pexp.Replies) {
					fail(pexp.Class, fmt.Sprintf("reply differs ## reply %s, prescribed %s", hexes(outs), hexes(pexp.Replies)))
				}
				frames = append(frames, bar.M())
				obs = append(obs, obsString(selOf(st), "K", []Frame{rsp}, nil))
				closed = true
				break
			}
			if !closed {
				fail(exp.Class, "the completed transaction never closed (an orphan response is still swallowed)")
				if !alive {
					obs = append(obs, "x D")
					frames = append(frames, probe.M())
				}
			}
		}
	}
	emit(!alive)
	if alive {
		return genResult{ctr: o.LastSys, alive: p}
	}
	return genResult{ctr: o.LastSys, ended: true}
}

// session runs several TCP generations on one connection object.
func (h *H) session(cfg Cfg, tag string, gens []func(i int, o *Oracle) *Frame) {
	r, err := newRig(cfg)
	if err != nil {
		h.fatal("rig: %v", err)
	}
	if err := r.Open(); err != nil {
		h.fatal("open: %v", err)
	}
	ctr := uint32(0)
	for _, g := range gens {
		p, err := r.Connect(stepTimeout)
		if err != nil {
			h.c.Fail("rig: "+err.Error(), tag)
			break
		}
		res := h.runGen(r, p, ctr, tag, g)
		ctr = res.ctr
		// drop the link from the peer's side (no-op if the library already ended it)
		_ = p.Conn.Close()
	}
	if err := r.Close(); err != nil {
		h.c.Fail("rig: "+err.Error(), tag)
	}
}

func script(fs ...Frame) func(i int, o *Oracle) *Frame {
	return func(i int, o *Oracle) *Frame {
		if i >= len(fs) {
			return nil
		}
		f := fs[i]
		return &f
	}
}

func allCfgs(sid uint16) []Cfg {
	var out []Cfg
	for _, a := range []bool{false, true} {
		for _, v := range []bool{false, true} {
			for _, e := range []bool{false, true} {
				for _, t := range []bool{false, true} {
					out = append(out, Cfg{Active: a, Sid: sid, Validate: v, Equip: e, Trace: t})
				}
			}
		}
	}
	return out
}

// replayed recognises the one known way the library's selected state moves with no frame causing
// it (the supervisor re-stores Selected from a stale select-accepted echo after a Deselect was
// acknowledged): the observation is exactly what the table prescribes for an entity that is still
// Selected, or the answer was right and only State() has already moved. pre / post: the oracle
// before / after the frame.
func replayed(pre, post *Oracle, f Frame, outs, deliv []Frame, down bool, st hsms.ConnState) bool {
	if post.DeselAcked && !post.Sel && !down && st == hsms.SelectedState {
		exp := pre.Clone().Expect(f)
		if framesEqual(outs, exp.Replies) && exp.Deliver == (len(deliv) == 1) && len(deliv) <= 1 {
			return true // answered correctly, then flipped
		}
	}
	if !pre.DeselAcked || pre.Sel {
		return false
	}
	alt := pre.Clone()
	alt.Sel = true
	aexp := alt.Expect(f)
	if down {
		return false // a link that ended is reported as such, whatever the cause
	}
	if aexp.LinkEnds || !framesEqual(outs, aexp.Replies) || selOf(st) != b01(alt.Sel) {
		return false
	}
	if aexp.Deliver == (len(deliv) == 1) && len(deliv) <= 1 {
		// the Selected entity may have used fresh system bytes (S9F1): the counter the next TCP
		// generation starts from is the library's, not the one the table predicted
		post.LastSys = alt.LastSys
		return true
	}
	return false
}

const replayWhat = "selected state came back after Deselect.rsp(0) with no Select in between: the library answers as a Selected entity again"
