package main

// Sequence generators: a boundary corpus (every SType x PType x body, every table row from both
// states, the active side's own Select transaction answered in every way) and random sequences over
// the whole alphabet. All randomness comes from c.Rng.

import (
	"fmt"
	"math/rand"
)

func selectReq(sid uint16, sys uint32) Frame   { return Frame{Sid: sid, ST: 1, Sys: sys} }
func deselectReq(sid uint16, sys uint32) Frame { return Frame{Sid: sid, ST: 3, Sys: sys} }
func separateReq(sid uint16, sys uint32) Frame { return Frame{Sid: sid, ST: 9, Sys: sys} }
func dataFrame(sid uint16, s, f byte, w bool, sys uint32, body []byte) Frame {
	b2 := s & 0x7F
	if w {
		b2 |= 0x80
	}
	return Frame{Sid: sid, B2: b2, B3: f, Sys: sys, Body: body}
}

// openSys returns one of the library's open transactions, if any.
func openSys(o *Oracle) (uint32, bool) {
	var best uint32
	found := false
	for k := range o.Open {
		if !found || k < best {
			best, found = k, true
		}
	}
	return best, found
}

func (h *H) corpus() {
	const sid = 0x0102
	for _, cfg := range allCfgs(sid) {
		// 1. every SType, PType 0 / 1 / 255, header-only and with a body, from NotSelected and from
		//    Selected (the sweep itself moves the state at SType 1 and 3; Separate comes last)
		for _, pt := range []byte{0, 1, 255} {
			for _, body := range [][]byte{nil, {0x01, 0x00}} {
				for _, pre := range []bool{false, true} {
					var fs []Frame
					if pre {
						fs = append(fs, selectReq(sid, 77))
					}
					for st := 0; st < 256; st++ {
						if st == 9 {
							continue
						}
						fs = append(fs, Frame{Sid: sid, B2: byte(st * 7), B3: byte(st * 3), PT: pt, ST: byte(st), Sys: 0x01000000 + uint32(st), Body: body})
						if pre && st == 3 && pt == 0 && body == nil {
							fs = append(fs, selectReq(sid, 78)) // stay Selected for the rest of the sweep
						}
					}
					fs = append(fs, Frame{Sid: sid, PT: pt, ST: 9, Sys: 0x01000009, Body: body})
					fs = append(fs, Frame{Sid: sid, ST: 5, Sys: 5})
					h.session(cfg, "corpus-sweep", []func(int, *Oracle) *Frame{script(fs...)})
				}
			}
		}
		// 2. the classic procedures and their repetitions
		h.session(cfg, "corpus-procedures", []func(int, *Oracle) *Frame{
			script(selectReq(sid, 1), selectReq(sid, 2), deselectReq(sid, 3), deselectReq(sid, 4), selectReq(0xFFFF, 5),
				Frame{Sid: 7, ST: 5, Sys: 6}, separateReq(sid, 7)),
			script(separateReq(sid, 1), deselectReq(sid, 2), selectReq(sid, 3), Frame{Sid: sid, PT: 3, ST: 1, Sys: 4},
				Frame{Sid: sid, ST: 8, Sys: 5}, Frame{Sid: sid, ST: 1, Sys: 6, Body: []byte{1}}, selectReq(sid, 7),
				deselectReq(sid, 8), selectReq(sid, 9), separateReq(sid, 10)),
			script(selectReq(sid, 1),
				dataFrame(sid, 1, 1, true, 100, nil), dataFrame(sid, 1, 2, false, 101, []byte{0x01, 0x00}),
				dataFrame(sid+1, 1, 3, true, 102, nil), dataFrame(sid+1, 9, 1, false, 103, nil),
				dataFrame(sid+1, 9, 1, true, 104, []byte{0x21, 0x01, 0xAA}), dataFrame(sid+1, 6, 12, false, 105, []byte{0xFF, 0xFF}),
				deselectReq(sid, 2), dataFrame(sid, 1, 1, true, 106, nil), dataFrame(sid+1, 1, 1, true, 107, nil)),
		})
		// 3. orphan responses and rejects with every status byte of interest
		var fs []Frame
		for _, st := range []byte{2, 4, 6, 7} {
			for _, b3 := range []byte{0, 1, 2, 3, 4, 255} {
				fs = append(fs, Frame{Sid: sid, B2: b3 ^ 0x55, B3: b3, ST: st, Sys: 0x7000 + uint32(st)*256 + uint32(b3)})
			}
		}
		h.session(cfg, "corpus-orphans", []func(int, *Oracle) *Frame{script(fs...), script(append([]Frame{selectReq(sid, 9)}, fs...)...)})
		if !cfg.Active {
			continue
		}
		// 4. the active side's own Select.req answered in every way
		answer := func(mk func(sys uint32) []Frame) func(int, *Oracle) *Frame {
			var fs []Frame
			return func(i int, o *Oracle) *Frame {
				if i == 0 {
					sys, _ := openSys(o)
					fs = mk(sys)
				}
				if i >= len(fs) {
					return nil
				}
				return &fs[i]
			}
		}
		for _, status := range []byte{0, 1, 2, 3, 4, 255} {
			status := status
			h.session(cfg, "corpus-own-select", []func(int, *Oracle) *Frame{
				answer(func(sys uint32) []Frame {
					return []Frame{{Sid: sid, B3: status, ST: 2, Sys: sys}, {Sid: sid, B3: status, ST: 2, Sys: sys},
						dataFrame(sid, 1, 1, true, 9, nil), selectReq(sid, 10), separateReq(sid, 11)}
				}),
				// simultaneous select: the peer's Select.req first, then the answer to ours
				answer(func(sys uint32) []Frame {
					return []Frame{selectReq(sid, 500), {Sid: sid, B3: status, ST: 2, Sys: sys}, dataFrame(sid, 1, 1, true, 9, nil),
						{Sid: sid, B3: 0, ST: 2, Sys: sys}}
				}),
			})
		}
		for _, st := range []byte{4, 6, 7} {
			st := st
			h.session(cfg, "corpus-own-select", []func(int, *Oracle) *Frame{
				answer(func(sys uint32) []Frame { return []Frame{{Sid: sid, ST: st, Sys: sys}, selectReq(sid, 1)} }),
				answer(func(sys uint32) []Frame {
					return []Frame{{Sid: sid, ST: st, Sys: sys + 1}, {Sid: sid, ST: st, Sys: sys, Body: []byte{0}},
						{Sid: sid, PT: 1, ST: st, Sys: sys}, {Sid: sid, B3: 3, ST: st, Sys: sys}, selectReq(sid, 1)}
				}),
			})
		}
		// data carrying the open Select's system bytes: primaries and replies, before and after the
		// peer selected
		h.session(cfg, "corpus-own-select", []func(int, *Oracle) *Frame{
			answer(func(sys uint32) []Frame {
				return []Frame{dataFrame(sid, 1, 2, false, sys, nil), selectReq(sid, 700), dataFrame(sid, 1, 1, true, sys, nil),
					dataFrame(sid, 1, 1, false, sys, nil), dataFrame(sid, 1, 2, true, sys, nil), dataFrame(sid, 1, 2, false, sys, nil),
					selectReq(sid, 701)}
			}),
			answer(func(sys uint32) []Frame {
				return []Frame{selectReq(sid, 700), dataFrame(sid+1, 1, 2, false, sys, nil), dataFrame(sid+1, 9, 1, false, sys+1, nil),
					dataFrame(sid, 1, 0, false, sys, []byte{1, 2, 3}), selectReq(sid, 701)}
			}),
		})
	}
}

// randFrame draws one frame; the oracle's view biases system bytes towards open transactions.
func (h *H) randFrame(rng *rand.Rand, cfg Cfg, o *Oracle) Frame {
	sid := cfg.Sid
	switch rng.Intn(10) {
	case 0:
		sid = 0xFFFF
	case 1:
		sid = uint16(rng.Intn(65536))
	case 2:
		sid = cfg.Sid + 1
	}
	sys := rng.Uint32()
	switch rng.Intn(4) {
	case 0:
		sys = uint32(rng.Intn(8))
	case 1:
		if s, ok := openSys(o); ok {
			sys = s
		}
	}
	var b2, b3 byte
	if rng.Intn(3) == 0 {
		b2, b3 = byte(rng.Intn(256)), byte(rng.Intn(256))
	}
	body := func(p int) []byte {
		if rng.Intn(100) >= p {
			return nil
		}
		b := make([]byte, 1+rng.Intn(12))
		rng.Read(b)
		return b
	}
	status := func() byte {
		switch rng.Intn(6) {
		case 0, 1:
			return 0
		case 2, 3:
			return 1
		case 4:
			return byte(2 + rng.Intn(5))
		}
		return byte(rng.Intn(256))
	}
	w := rng.Intn(100)
	switch {
	case w < 13:
		return Frame{Sid: sid, B2: b2, B3: b3, ST: 1, Sys: sys}
	case w < 23:
		return Frame{Sid: sid, B2: b2, B3: b3, ST: 3, Sys: sys}
	case w < 27:
		return Frame{Sid: sid, B2: b2, B3: b3, ST: 5, Sys: sys}
	case w < 30:
		return Frame{Sid: sid, B2: b2, B3: b3, ST: 9, Sys: sys}
	case w < 37:
		return Frame{Sid: sid, B2: b2, B3: status(), ST: 2, Sys: sys}
	case w < 41:
		return Frame{Sid: sid, B2: b2, B3: status(), ST: 4, Sys: sys}
	case w < 45:
		return Frame{Sid: sid, B2: b2, B3: b3, ST: 6, Sys: sys}
	case w < 50:
		return Frame{Sid: sid, B2: byte(rng.Intn(256)), B3: byte(1 + rng.Intn(5)), ST: 7, Sys: sys}
	case w < 68:
		s, f := byte(rng.Intn(128)), byte(rng.Intn(256))
		if rng.Intn(8) == 0 {
			s, f = 9, 1
		}
		if rng.Intn(4) == 0 {
			f &^= 1 // a reply
		}
		return dataFrame(sid, s, f, rng.Intn(2) == 0, sys, body(60))
	case w < 76:
		return Frame{Sid: sid, B2: b2, B3: b3, PT: byte(1 + rng.Intn(255)), ST: byte(rng.Intn(256)), Sys: sys, Body: body(30)}
	case w < 84:
		st := byte(10 + rng.Intn(246))
		if rng.Intn(4) == 0 {
			st = 8
		}
		return Frame{Sid: sid, B2: b2, B3: b3, ST: st, Sys: sys, Body: body(30)}
	case w < 92:
		st := []byte{1, 2, 3, 4, 5, 6, 7, 9}[rng.Intn(8)]
		return Frame{Sid: sid, B2: b2, B3: b3, ST: st, Sys: sys, Body: body(100)}
	}
	return Frame{Sid: uint16(rng.Intn(65536)), B2: byte(rng.Intn(256)), B3: byte(rng.Intn(256)), PT: byte(rng.Intn(3)) % 2 * byte(rng.Intn(256)),
		ST: byte(rng.Intn(12)), Sys: rng.Uint32(), Body: body(40)}
}

func (h *H) random(n int) {
	rng := h.c.Rng
	done := 0
	for done < n {
		cfg := Cfg{Active: rng.Intn(2) == 0, Validate: rng.Intn(2) == 0, Equip: rng.Intn(2) == 0, Trace: rng.Intn(2) == 0}
		switch rng.Intn(4) {
		case 0:
			cfg.Sid = 0xFFFF
		case 1:
			cfg.Sid = 0
		default:
			cfg.Sid = uint16(rng.Intn(65536))
		}
		ngen := 1 + rng.Intn(3)
		var gens []func(int, *Oracle) *Frame
		for g := 0; g < ngen && done < n; g++ {
			length := 1 + rng.Intn(h.maxLen)
			gens = append(gens, func(i int, o *Oracle) *Frame {
				if i >= length {
					return nil
				}
				f := h.randFrame(rng, cfg, o)
				return &f
			})
			done++
		}
		h.c.Count("cfg:trace=" + b01(cfg.Trace))
		h.session(cfg, fmt.Sprintf("random-%s", map[bool]string{true: "active", false: "passive"}[cfg.Active]), gens)
	}
}
