package main

// The e2e rig of the C08 harness: one real hsmsss connection (public API only: WithDialer /
// WithListener over net.Pipe), a raw-frame peer, a handler log. Nothing here knows the model.

import (
	"context"
	"encoding/binary"
	"encoding/hex"
	"errors"
	"fmt"
	"io"
	"net"
	"sync"
	"sync/atomic"
	"time"

	"github.com/arloliu/go-secs/v2/hsms"
	"github.com/arloliu/go-secs/v2/hsmsss"
	"github.com/arloliu/go-secs/v2/logger"
)

// Frame is an HSMS frame as header fields + body (model: Responder.frame).
type Frame struct {
	Sid    uint16
	B2, B3 byte
	PT, ST byte
	Sys    uint32
	Body   []byte
}

// Wire renders header||body with the 4-byte length prefix.
func (f Frame) Wire() []byte {
	out := make([]byte, 14+len(f.Body))
	binary.BigEndian.PutUint32(out[0:4], uint32(10+len(f.Body)))
	binary.BigEndian.PutUint16(out[4:6], f.Sid)
	out[6], out[7], out[8], out[9] = f.B2, f.B3, f.PT, f.ST
	binary.BigEndian.PutUint32(out[10:14], f.Sys)
	copy(out[14:], f.Body)
	return out
}

// Hex is header||body in hex (what the model's [wire] renders).
func (f Frame) Hex() string { return hex.EncodeToString(f.Wire()[4:]) }

// M renders the frame in model syntax: sid b2 b3 pt st sys bodyhex.
func (f Frame) M() string {
	b := "-"
	if len(f.Body) > 0 {
		b = hex.EncodeToString(f.Body)
	}
	return fmt.Sprintf("%d %d %d %d %d %d %s", f.Sid, f.B2, f.B3, f.PT, f.ST, f.Sys, b)
}

func frameFrom(p []byte) Frame {
	return Frame{Sid: binary.BigEndian.Uint16(p[0:2]), B2: p[2], B3: p[3], PT: p[4], ST: p[5],
		Sys: binary.BigEndian.Uint32(p[6:10]), Body: append([]byte(nil), p[10:]...)}
}

func (f Frame) Equal(g Frame) bool { return f.Hex() == g.Hex() }

// ---------------------------------------------------------------------------------------------

type nullLogger struct{}

func (nullLogger) Debug(string, ...any)        {}
func (nullLogger) Info(string, ...any)         {}
func (nullLogger) Warn(string, ...any)         {}
func (nullLogger) Error(string, ...any)        {}
func (nullLogger) Fatal(string, ...any)        {}
func (l nullLogger) With(...any) logger.Logger { return l }
func (nullLogger) Level() logger.LogLevel      { return logger.ErrorLevel }
func (nullLogger) SetLevel(logger.LogLevel)    {}

type pipeListener struct {
	conns  chan net.Conn
	closed chan struct{}
	once   sync.Once
}

func (l *pipeListener) Accept() (net.Conn, error) {
	select {
	case c := <-l.conns:
		return c, nil
	case <-l.closed:
		return nil, net.ErrClosed
	}
}
func (l *pipeListener) Close() error   { l.once.Do(func() { close(l.closed) }); return nil }
func (l *pipeListener) Addr() net.Addr { return pipeAddr{} }

type pipeAddr struct{}

func (pipeAddr) Network() string { return "pipe" }
func (pipeAddr) String() string  { return "pipe" }

// Peer is the raw-frame peer on one pipe end: a reader goroutine hands every frame to In and
// closes In when the link ends.
type Peer struct {
	Conn net.Conn
	In   chan Frame
}

func newPeer(conn net.Conn) *Peer {
	p := &Peer{Conn: conn, In: make(chan Frame, 1<<12)}
	go func() {
		defer close(p.In)
		var lb [4]byte
		for {
			if _, err := io.ReadFull(p.Conn, lb[:]); err != nil {
				return
			}
			n := binary.BigEndian.Uint32(lb[:])
			if n < 10 || n > 1<<20 {
				return
			}
			buf := make([]byte, n)
			if _, err := io.ReadFull(p.Conn, buf); err != nil {
				return
			}
			p.In <- frameFrom(buf)
		}
	}()
	return p
}

// Send writes one frame; an error means the library no longer reads (link ended).
func (p *Peer) Send(f Frame) error {
	_ = p.Conn.SetWriteDeadline(time.Now().Add(5 * time.Second))
	_, err := p.Conn.Write(f.Wire())
	return err
}

type readRes int

const (
	readFrame readRes = iota
	readEOF
	readTimeout
)

// Next returns the next frame the library wrote, or EOF / timeout.
func (p *Peer) Next(d time.Duration) (Frame, readRes) {
	t := time.NewTimer(d)
	defer t.Stop()
	select {
	case f, ok := <-p.In:
		if !ok {
			return Frame{}, readEOF
		}
		return f, readFrame
	case <-t.C:
		return Frame{}, readTimeout
	}
}

// ---------------------------------------------------------------------------------------------

// Cfg is the configuration quantified over by the property.
type Cfg struct {
	Active   bool
	Sid      uint16
	Validate bool
	Equip    bool
	// Trace: hsms.WithTraceTraffic (logger = discard sink). Read by dispatchFrame; no effect on what
	// the responder answers, so it is not a parameter of the model: the same case line must hold.
	Trace bool
}

func (c Cfg) M() string {
	return fmt.Sprintf("%s %d %s %s", b01(c.Active), c.Sid, b01(c.Validate), b01(c.Equip))
}

// Tag is the part of the configuration that is not a model parameter (for failure reports).
func (c Cfg) Tag() string { return " ## trace=" + b01(c.Trace) }

func b01(b bool) string {
	if b {
		return "1"
	}
	return "0"
}

// Rig is one connection under test.
type Rig struct {
	Cfg  Cfg
	Conn hsmsss.Connection

	dialCh chan net.Conn      // active: peer ends of dialled pipes
	dialGo chan struct{}      // active: tokens allowing a dial to proceed
	lisCh  chan *pipeListener // passive: listeners created by the factory
	curLis *pipeListener
	hold   *holdCtl
	gen    int

	hmu       sync.Mutex
	delivered []Frame
}

func newRig(c Cfg) (*Rig, error) { return newRigHooked(c, nil) }

// newRigHooked additionally places the harness's hooks around the synchronous commits the
// transport makes through its runtime (verif seam hsms.VerifHookRuntime).
func newRigHooked(c Cfg, hold *holdCtl) (*Rig, error) {
	r := &Rig{Cfg: c, dialCh: make(chan net.Conn, 16), dialGo: make(chan struct{}, 16), lisCh: make(chan *pipeListener, 16)}
	copts := []hsms.ConnOption{
		// quiet link: nothing but responses may appear while a sequence runs
		hsms.WithT3(120 * time.Second), hsms.WithT6(120 * time.Second), hsms.WithT7(120 * time.Second),
		hsms.WithT8(10 * time.Second), hsms.WithLinktestInterval(0),
		hsms.WithT5(20 * time.Millisecond), hsms.WithReconnectBackoff(time.Millisecond, 1.0),
		hsms.WithSessionID(c.Sid), hsms.WithSessionIDValidation(c.Validate), hsms.WithTraceTraffic(c.Trace),
		hsms.WithCloseTimeout(3 * time.Second), hsms.WithLogger(nullLogger{}),
	}
	opts := []hsmsss.Option{}
	for _, o := range copts {
		opts = append(opts, hsmsss.WithConnectionOption(o))
	}
	if c.Equip {
		opts = append(opts, hsmsss.WithEquipRole())
	} else {
		opts = append(opts, hsmsss.WithHostRole())
	}
	if c.Active {
		opts = append(opts, hsmsss.WithActive(), hsmsss.WithDialer(func(ctx context.Context, network, addr string) (net.Conn, error) {
			select {
			case <-r.dialGo:
			case <-ctx.Done():
				return nil, ctx.Err()
			}
			a, b := net.Pipe()
			r.dialCh <- b
			return a, nil
		}))
	} else {
		opts = append(opts, hsmsss.WithPassive(), hsmsss.WithListener(func(ctx context.Context, network, addr string) (net.Listener, error) {
			l := &pipeListener{conns: make(chan net.Conn), closed: make(chan struct{})}
			r.lisCh <- l
			return l, nil
		}))
	}
	cfg, err := hsmsss.NewConfig("127.0.0.1", 5000, opts...)
	if err != nil {
		return nil, err
	}
	conn, err := hsmsss.New(cfg)
	if err != nil {
		return nil, err
	}
	r.Conn = conn
	if hold != nil {
		r.hold = hold
		ok := hsms.VerifHookRuntime(hsmsss.VerifCore(conn), hsms.VerifRuntimeHooks{
			BeforeTCPUp: func(net.Conn) {
				if hold.armed.Load() {
					hold.held <- struct{}{}
					<-hold.release
				}
			},
			AfterTCPUp: func(net.Conn) {
				if hold.armed.CompareAndSwap(true, false) {
					hold.after <- conn.State()
				}
			},
			BeforeCommitSelected: func() {
				if d := time.Duration(hold.commitDelay.Load()); d > 0 {
					time.Sleep(d)
				}
			},
		})
		if !ok {
			return nil, errors.New("rig: runtime hook not installed")
		}
	}
	conn.AddDataMessageHandler(func(m *hsms.DataMessage, _ hsms.SECS2Endpoint) {
		h := m.HeaderBytes()
		f := frameFrom(h[:])
		f.Body = m.AppendBodyTo(nil)
		r.hmu.Lock()
		r.delivered = append(r.delivered, f)
		r.hmu.Unlock()
	})
	return r, nil
}

// Open opens in background mode (never waits for a peer).
func (r *Rig) Open() error {
	if r.Cfg.Active {
		r.dialGo <- struct{}{} // Open dials synchronously
	}
	ctx, cancel := context.WithTimeout(context.Background(), 5*time.Second)
	defer cancel()
	return r.Conn.Open(ctx, hsms.OpenBackground)
}

// Connect establishes the next TCP generation and returns the peer end.
func (r *Rig) Connect(d time.Duration) (*Peer, error) {
	r.gen++
	if r.Cfg.Active {
		if r.gen > 1 {
			r.dialGo <- struct{}{}
		}
		select {
		case c := <-r.dialCh:
			return newPeer(c), nil
		case <-time.After(d):
			return nil, errors.New("rig: library did not dial")
		}
	}
	select {
	case r.curLis = <-r.lisCh:
	case <-time.After(d):
		return nil, errors.New("rig: library did not listen")
	}
	return r.dialPassive(d)
}

// dialPassive connects one more peer to the current listener.
func (r *Rig) dialPassive(d time.Duration) (*Peer, error) {
	a, b := net.Pipe()
	select {
	case r.curLis.conns <- a:
	case <-r.curLis.closed:
		return nil, errors.New("rig: listener closed")
	case <-time.After(d):
		return nil, errors.New("rig: library did not accept")
	}
	return newPeer(b), nil
}

// TakeDelivered returns and clears the handler log.
func (r *Rig) TakeDelivered() []Frame {
	r.hmu.Lock()
	defer r.hmu.Unlock()
	d := r.delivered
	r.delivered = nil
	return d
}

// Close closes the connection under a watchdog.
func (r *Rig) Close() error {
	done := make(chan error, 1)
	go func() { done <- r.Conn.Close() }()
	select {
	case err := <-done:
		return err
	case <-time.After(15 * time.Second):
		return errors.New("rig: Close did not return within 15s")
	}
}

// waitState polls State().
func (r *Rig) waitState(s hsms.ConnState, d time.Duration) bool {
	dl := time.Now().Add(d)
	for time.Now().Before(dl) {
		if r.Conn.State() == s {
			return true
		}
		time.Sleep(100 * time.Microsecond)
	}
	return r.Conn.State() == s
}

// holdCtl scripts the runtime hooks: while armed, the transport's TCPUp call parks (held is
// signalled) until release is closed; the state right after TCPUp returned is reported on after.
type holdCtl struct {
	armed       atomic.Bool
	held        chan struct{}
	release     chan struct{}
	after       chan hsms.ConnState
	commitDelay atomic.Int64 // nanoseconds slept before every CommitSelected
	relOnce     sync.Once
}

// Release lets a parked TCPUp proceed (idempotent).
func (h *holdCtl) Release() { h.relOnce.Do(func() { close(h.release) }) }

func newHold() *holdCtl {
	return &holdCtl{held: make(chan struct{}, 4), release: make(chan struct{}), after: make(chan hsms.ConnState, 4)}
}
