package main

// Held-commit scenarios (verif seam hsms.VerifHookRuntime). The responder model treats the
// transport's synchronous commits as atomic with respect to the recv goroutine:
//
//   - the TCP-up commit (NotConnected -> NotSelected) lands before the generation's first frame can
//     be dispatched, in both roles — otherwise the Select responder's CAS fails and a peer that
//     writes Select.req (+ data) the instant the connection is up is answered status 1 / Reject 4;
//   - the Selected commit lands before Select.rsp can be read by the peer.
//
// Black-box runs only ever see these windows a few microseconds wide. Here the harness HOLDS the
// commit for tens of milliseconds while the peer's first burst (and the barrier) is already
// written, and runs the same exact differential on the outcome. On correct code nothing can be
// dispatched before the commit returns, so the hold only delays the very same answers.

import (
	"time"

	"github.com/arloliu/go-secs/v2/hsms"
)

// heldScenario runs one generation with TCPUp held; first are the frames of the held burst.
func (h *H) heldScenario(cfg Cfg, first []Frame, tail int, intruder bool) {
	c := h.c
	hc := newHold()
	hc.armed.Store(true)
	r, err := newRigHooked(cfg, hc)
	if err != nil {
		h.fatal("rig: %v", err)
	}
	opened := make(chan error, 1)
	go func() { opened <- r.Open() }() // the active role dials (and is held) inside Open
	p, err := r.Connect(rigCeiling)
	if err != nil {
		c.Count("held:discarded")
		c.Count("held:discarded: " + err.Error())
		hc.armed.Store(false)
		hc.Release()
		_ = r.Close()
		return
	}
	var second *Peer
	secondDone := make(chan struct{})
	if intruder && !cfg.Active {
		// a second peer connects while the first connection's TCP-up is still held
		go func() {
			defer close(secondDone)
			second, _ = r.dialPassive(2 * rigCeiling)
		}()
	} else {
		close(secondDone)
	}
	h.heldBurst = len(first)
	total := len(first) + tail
	res := h.runGenBurst(r, p, 0, "held-tcpup", func(i int, o *Oracle) *Frame {
		if i < len(first) {
			f := first[i]
			return &f
		}
		if i >= total {
			return nil
		}
		f := h.randFrame(c.Rng, cfg, o)
		return &f
	})
	if res.discarded {
		// release the transport if it is still parked, then tear the rig down without a verdict
		hc.armed.Store(false)
		hc.Release()
	}
	select {
	case err := <-opened:
		if err != nil && !res.discarded {
			c.Fail("rig: open: "+err.Error(), "held")
		}
	case <-time.After(rigCeiling):
		if !res.discarded {
			c.Fail("rig: Open did not return within the ceiling", "held")
		}
	}
	<-secondDone
	if intruder && !cfg.Active && !res.discarded {
		c.Count("held-tcpup:intruder")
		if second == nil {
			c.Fail("second connection: the listener no longer accepts", "held-tcpup "+cfg.M())
		} else {
			outs, down, _ := h.drain(second)
			if !down || len(outs) != 0 {
				c.Fail("second connection: a further connection was not refused", "held-tcpup "+cfg.M())
			}
			_ = second.Conn.Close()
		}
	}
	_ = p.Conn.Close()
	if err := r.Close(); err != nil {
		c.Fail("rig: "+err.Error(), "held")
	}
}

// heldCommitSelected: CommitSelected is delayed; whenever the peer holds the Select.rsp the
// library must already report Selected.
func (h *H) heldCommitSelected(cfg Cfg) {
	c := h.c
	hc := newHold()
	hc.commitDelay.Store(int64(h.holdFor / 2))
	r, err := newRigHooked(cfg, hc)
	if err != nil {
		h.fatal("rig: %v", err)
	}
	opened := make(chan error, 1)
	go func() { opened <- r.Open() }()
	discard := func(why string) {
		c.Count("held:discarded")
		c.Count("held:discarded: " + why)
		_ = r.Close()
	}
	p, err := r.Connect(rigCeiling)
	if err != nil {
		discard(err.Error())
		return
	}
	select {
	case <-opened:
	case <-time.After(rigCeiling):
		discard("Open did not return within the ceiling")
		return
	}
	if cfg.Active {
		if _, res := p.Next(rigCeiling); res != readFrame { // the library's own Select.req
			_ = p.Conn.Close()
			discard("the peer did not see the active side's Select.req within the ceiling")
			return
		}
	}
	c.Count("held:established")
	req := selectReq(cfg.Sid, 0x4242)
	_ = p.Send(req)
	f, res := p.Next(stepTimeout)
	st := r.Conn.State()
	c.Count("held-commit-selected")
	kase := "held CommitSelected " + cfg.M() + " | " + req.M()
	if res != readFrame || !f.Equal(Frame{Sid: cfg.Sid, B3: 0, ST: 2, Sys: req.Sys}) {
		c.Fail("E37 table violated: class=select.req sel=0: reply differs (CommitSelected held)", kase)
	} else if st != hsms.SelectedState {
		c.Fail("State() is not Selected when the peer already holds Select.rsp status 0", kase)
	}
	_ = p.Conn.Close()
	if err := r.Close(); err != nil {
		c.Fail("rig: "+err.Error(), "held")
	}
}

func (h *H) held(rounds int) {
	rng := h.c.Rng
	h.holdFor = 60 * time.Millisecond
	for round := 0; round < rounds; round++ {
		sid := uint16(1 + rng.Intn(60000))
		for _, validate := range []bool{false, true} {
			cfgP := Cfg{Active: false, Sid: sid, Validate: validate, Equip: round%2 == 0, Trace: validate != (round%2 == 0)}
			cfgA := Cfg{Active: true, Sid: sid, Validate: validate, Equip: round%2 == 1, Trace: validate == (round%2 == 0)}
			sel := selectReq(sid, 0x1001)
			d1 := dataFrame(sid, 1, 1, true, 0x2001, []byte{0x01, 0x00})
			d2 := dataFrame(sid, 6, 11, false, 0x2002, nil)
			d3 := dataFrame(sid+1, 2, 17, true, 0x2003, []byte{0xA5, 0x01, 0x07}) // foreign session when validating
			// passive: Select.req alone, with pipelined data, with a second connection during the hold
			h.heldScenario(cfgP, []Frame{sel}, 2, false)
			h.heldScenario(cfgP, []Frame{sel, d1}, 2, false)
			h.heldScenario(cfgP, []Frame{sel, d1, d2, d3}, 3, true)
			h.heldScenario(cfgP, []Frame{d1, sel, d2}, 0, true) // data BEFORE the select: Reject 4, then status 0
			h.heldScenario(cfgP, nil, 3, false)                 // only the barrier is pipelined
			// active: the peer's own Select.req (simultaneous select) and data behind it, during the hold
			h.heldScenario(cfgA, []Frame{sel, d1}, 2, false)
			h.heldScenario(cfgA, nil, 2, false)
		}
		h.heldCommitSelected(Cfg{Active: false, Sid: sid, Validate: false, Equip: false})
		h.heldCommitSelected(Cfg{Active: true, Sid: sid, Validate: true, Equip: true})
	}
	h.heldBurst = 0
}
