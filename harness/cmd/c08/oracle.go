package main

// Implementation-level oracle for C08: the SEMI E37 / E37.1 response table written from the
// property statement, keyed by (frame class, last acknowledged selected state, open transaction?).
// It makes no reference to the Coq model. It also tells the harness which frames end the link, so
// that the harness waits for the closure instead of sending a barrier into a dying connection.

import "fmt"

// Oracle tracks what a peer knows from the frames it sent and read.
type Oracle struct {
	Cfg     Cfg
	Sel     bool            // last acknowledged selected state
	Open    map[uint32]bool // system bytes of the library's own open control transactions
	LastSys uint32          // last system bytes the library generated itself
	// DeselAcked: the library acknowledged a Deselect (status 0) and nothing selected since
	DeselAcked bool
}

// Clone copies the tracked state.
func (o *Oracle) Clone() *Oracle {
	n := *o
	n.Open = map[uint32]bool{}
	for k, v := range o.Open {
		n.Open[k] = v
	}
	return &n
}

func newOracle(c Cfg, ctr0 uint32) *Oracle {
	return &Oracle{Cfg: c, Open: map[uint32]bool{}, LastSys: ctr0}
}

// Start: what the library sends on a fresh TCP connection before the peer says anything.
func (o *Oracle) Start() []Frame {
	if !o.Cfg.Active {
		return nil
	}
	o.LastSys++
	o.Open[o.LastSys] = true
	return []Frame{{Sid: o.Cfg.Sid, ST: 1, Sys: o.LastSys}}
}

// Expect is one row of the table.
type Expect struct {
	Class    string
	Replies  []Frame
	Deliver  bool // handed to the application's data handler
	LinkEnds bool
	Closed   bool // one of the library's transactions was completed by this frame
}

func validSType(st byte) bool { return st <= 7 || st == 9 }

func reject(f Frame, tyByte, reason byte) Frame {
	return Frame{Sid: f.Sid, B2: tyByte, B3: reason, ST: 7, Sys: f.Sys}
}

// Expect classifies f, returns the prescribed reaction and advances the tracked state.
func (o *Oracle) Expect(f Frame) Expect {
	sel := b01(o.Sel)
	switch {
	case f.PT != 0:
		return Expect{Class: "ptype", Replies: []Frame{reject(f, f.PT, 2)}}
	case !validSType(f.ST):
		return Expect{Class: "stype", Replies: []Frame{reject(f, f.ST, 1)}}
	case f.ST != 0 && len(f.Body) > 0:
		return Expect{Class: "ctrl-body", Replies: []Frame{reject(f, f.ST, 1)}}
	}
	switch f.ST {
	case 1:
		st := byte(0)
		if o.Sel {
			st = 1
		}
		o.Sel = true
		o.DeselAcked = false
		return Expect{Class: "select.req sel=" + sel, Replies: []Frame{{Sid: f.Sid, B3: st, ST: 2, Sys: f.Sys}}}
	case 3:
		st := byte(1)
		if o.Sel {
			st = 0
			o.DeselAcked = true
		}
		o.Sel = false
		return Expect{Class: "deselect.req sel=" + sel, Replies: []Frame{{Sid: f.Sid, B3: st, ST: 4, Sys: f.Sys}}}
	case 5:
		return Expect{Class: "linktest.req", Replies: []Frame{{Sid: 0xFFFF, ST: 6, Sys: f.Sys}}}
	case 9:
		if o.Sel {
			return Expect{Class: "separate.req sel=1", LinkEnds: true}
		}
		return Expect{Class: "separate.req sel=0"}
	case 2, 4, 6:
		if !o.Open[f.Sys] {
			return Expect{Class: fmt.Sprintf("orphan-rsp st=%d", f.ST), Replies: []Frame{reject(f, f.ST, 3)}}
		}
		delete(o.Open, f.Sys)
		// the answer to the library's own Select.req
		if f.ST == 2 && f.B3 == 0 {
			o.Sel = true
			o.DeselAcked = false
			return Expect{Class: "select.rsp accept", Closed: true}
		}
		if f.ST == 2 && f.B3 == 1 {
			return Expect{Class: "select.rsp already-active", Closed: true}
		}
		return Expect{Class: "select refused", LinkEnds: true, Closed: true}
	case 7:
		if !o.Open[f.Sys] {
			return Expect{Class: "orphan-reject"}
		}
		delete(o.Open, f.Sys)
		return Expect{Class: "select rejected", LinkEnds: true, Closed: true}
	}
	// data
	if !o.Sel {
		return Expect{Class: "data sel=0", Replies: []Frame{reject(f, 0, 4)}}
	}
	isS9F1 := f.B2&0x7F == 9 && f.B3 == 1
	if o.Cfg.Validate && !isS9F1 && f.Sid != o.Cfg.Sid {
		o.LastSys++
		h := f.Wire()[4:14]
		return Expect{Class: "data foreign-session", Replies: []Frame{{Sid: o.Cfg.Sid, B2: 9, B3: 1, Sys: o.LastSys,
			Body: append([]byte{0x21, 10}, h...)}}}
	}
	if f.B2&0x80 == 0 && f.B3%2 == 0 && o.Open[f.Sys] {
		// a data reply carrying the system bytes of the library's open Select.req: the select
		// procedure was answered by something that is not a Select.rsp
		delete(o.Open, f.Sys)
		return Expect{Class: "select answered by data", LinkEnds: true, Closed: true}
	}
	return Expect{Class: "data sel=1", Deliver: true}
}
