package main

// Second TCP connection to a passive endpoint with a live session: the harness owns the listener
// (WithListener), hands the library further connections while the first one is up, and checks
// that each is refused (closed without a byte) while the first session keeps answering.

import (
	"fmt"
	"strings"
	"time"

	"github.com/arloliu/go-secs/v2/hsms"
)

func (h *H) second(n int) {
	c := h.c
	rng := c.Rng
	for it := 0; it < n; it++ {
		cfg := Cfg{Active: false, Sid: uint16(1 + rng.Intn(1000)), Validate: rng.Intn(2) == 0, Equip: rng.Intn(2) == 0, Trace: it%2 == 1}
		r, err := newRig(cfg)
		if err != nil {
			h.fatal("rig: %v", err)
		}
		if err := r.Open(); err != nil {
			h.fatal("open: %v", err)
		}
		var evs, obs []string
		caseLine := func() string {
			return fmt.Sprintf("P %s 0 | %s | %s", cfg.M(), strings.Join(evs, " ; "), strings.Join(obs, " ; "))
		}
		fail := func(what string) { c.Fail("second connection: "+what, caseLine()+cfg.Tag()) }
		o := newOracle(cfg, 0)

		first, err := r.Connect(stepTimeout)
		if err != nil {
			c.Fail("rig: "+err.Error(), "second")
			_ = r.Close()
			continue
		}
		evs = append(evs, "A 1")
		obs = append(obs, "a1")
		alive := true
		// frame on the live connection, fenced
		live := func(f Frame) {
			if !alive {
				return
			}
			ne, no := len(evs), len(obs)
			pre := o.Clone()
			exp := o.Expect(f)
			evs = append(evs, "F 1 "+f.M())
			undone := func(outs, deliv []Frame, down bool) bool {
				st := r.Conn.State()
				if !replayed(pre, o, f, outs, deliv, down, st) {
					return false
				}
				evs, obs = evs[:ne], obs[:no]
				c.Fail(replayWhat, caseLine())
				c.Count("deselect-undone")
				alive = false
				return true
			}
			if err := first.Send(f); err != nil {
				obs = append(obs, "d")
				alive = false
				fail("the first session was disturbed (write failed)")
				return
			}
			if exp.LinkEnds {
				outs, down, _ := h.drain(first)
				alive = false
				obs = append(obs, tokensD(outs, r.TakeDelivered()))
				if !down {
					fail("the link did not end on Separate while selected")
				}
				return
			}
			bar, rsp, outs, down, tmo := h.fence(first)
			deliv := r.TakeDelivered()
			if down || tmo {
				if down && undone(outs, deliv, true) {
					return
				}
				obs = append(obs, tokensD(outs, deliv))
				alive = false
				fail("the first session was disturbed (no answer to the barrier)")
				return
			}
			bad := !framesEqual(outs, exp.Replies) || exp.Deliver != (len(deliv) == 1) || selOf(r.Conn.State()) != b01(o.Sel)
			if bad && undone(outs, deliv, false) {
				return
			}
			obs = append(obs, tokens(outs, deliv))
			if !framesEqual(outs, exp.Replies) || exp.Deliver != (len(deliv) == 1) {
				fail(fmt.Sprintf("class=%s: reply differs on the first session", exp.Class))
			}
			if selOf(r.Conn.State()) != b01(o.Sel) {
				fail("State() differs from the acknowledged selected state")
			}
			evs = append(evs, "F 1 "+bar.M())
			obs = append(obs, tokens([]Frame{rsp}, nil))
			o.Expect(bar)
		}
		// another peer connects: must be closed without a byte, whatever it writes
		k := 1
		intruder := func(write bool) {
			if !alive {
				return
			}
			k++
			p, err := r.dialPassive(stepTimeout)
			if err != nil {
				fail("the listener no longer accepts: " + err.Error())
				return
			}
			evs = append(evs, fmt.Sprintf("A %d", k))
			if write {
				// the write races with the close: either it fails or nobody reads it
				_ = p.Conn.SetWriteDeadline(time.Now().Add(200 * time.Millisecond))
				_, _ = p.Conn.Write(selectReq(cfg.Sid, 0x5000+uint32(k)).Wire())
			}
			outs, down, _ := h.drain(p)
			if down && len(outs) == 0 {
				obs = append(obs, fmt.Sprintf("r%d", k))
			} else {
				obs = append(obs, fmt.Sprintf("a%d", k))
				fail("a further connection was not refused")
			}
			_ = p.Conn.Close()
			c.Count("second:intruders")
		}

		live(Frame{Sid: 0xFFFF, ST: 5, Sys: 1})
		if it%2 == 0 {
			intruder(false) // while connected but not selected
		}
		live(selectReq(cfg.Sid, 2))
		intruder(it%3 == 0)
		live(dataFrame(cfg.Sid, 1, 1, true, 3, []byte{0x01, 0x00}))
		steps := 2 + rng.Intn(8)
		for i := 0; i < steps && alive; i++ {
			if rng.Intn(3) == 0 {
				intruder(rng.Intn(2) == 0)
			} else {
				f := h.randFrame(rng, cfg, o)
				if f.PT == 0 && f.ST == 5 && len(f.Body) == 0 && f.Sys >= barrierBase {
					f.Sys &= 0x0FFFFFFF
				}
				live(f)
			}
		}
		intruder(true)
		if alive {
			// round trip on the first session still works and the state is what the peer was told
			live(dataFrame(cfg.Sid, 2, 3, false, 9, nil))
			if r.Conn.State() == hsms.NotConnectedState {
				fail("the first session is gone")
			}
		}
		line := caseLine()
		c.Case(line, line, true)
		c.Count("second:scenarios")
		_ = first.Conn.Close()
		if err := r.Close(); err != nil {
			c.Fail("rig: "+err.Error(), "second")
		}
	}
}

func tokensD(outs, deliv []Frame) string {
	t := tokens(outs, deliv)
	if t == "-" {
		return "d"
	}
	return t + " d"
}

func tokens(outs, deliv []Frame) string {
	var parts []string
	for _, f := range outs {
		parts = append(parts, "S"+f.Hex())
	}
	for _, f := range deliv {
		parts = append(parts, "H"+f.Hex())
	}
	if len(parts) == 0 {
		return "-"
	}
	return strings.Join(parts, " ")
}
