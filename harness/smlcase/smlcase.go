// Package smlcase is shared by the C13 and C15 harnesses: random secs2 item trees over the full
// item grammar, their rendering in the model syntax the OCaml drivers read, and an equality that
// treats NaN payloads as the property statements do.
//
// Model syntax of an item (prefix, space separated):
//
//	E | L n item*n | A hex | J hex | W hex hex(strconv.Quote) | B hex | T 01-string
//	| I w n v*n | U w n v*n | F w n (float64bits/hex(FormatFloat text))*n
//
// Everything is read back from the constructed secs2.Item through its public accessors, so the
// syntax shows what the item holds (after clamping), not what the generator asked for.
package smlcase

import (
	"encoding/hex"
	"fmt"
	"math"
	"math/rand"
	"strconv"
	"strings"
	"unicode"
	"unicode/utf8"

	"github.com/arloliu/go-secs/v2/secs2"
)

// Hex renders bytes ("-" for empty).
func Hex(b []byte) string {
	if len(b) == 0 {
		return "-"
	}
	return hex.EncodeToString(b)
}

// FloatText is the text Go prints for an element of an F4/F8 item (the models' float oracle).
func FloatText(byteSize int, v float64) string {
	prec := 17
	if byteSize == 4 {
		prec = 9
	}
	return strconv.FormatFloat(v, 'G', prec, byteSize*8)
}

// Syntax renders item in model syntax. ok=false if the item has a shape the model has no
// constructor for (never for built-in items without a deferred error).
func Syntax(it secs2.Item) (string, bool) {
	var sb strings.Builder
	ok := syntax(&sb, it)
	return sb.String(), ok
}

func widthOf(it secs2.Item) int {
	switch {
	case it.IsInt8(), it.IsUint8():
		return 1
	case it.IsInt16(), it.IsUint16():
		return 2
	case it.IsInt32(), it.IsUint32(), it.IsFloat32():
		return 4
	default:
		return 8
	}
}

func syntax(sb *strings.Builder, it secs2.Item) bool {
	if it == nil || it.Error() != nil {
		return false
	}
	switch {
	case it.IsEmpty():
		sb.WriteString("E")
	case it.IsList():
		cs, _ := it.ToList()
		fmt.Fprintf(sb, "L %d", len(cs))
		for _, c := range cs {
			sb.WriteByte(' ')
			if !syntax(sb, c) {
				return false
			}
		}
	case it.IsASCII():
		s, _ := it.ToASCII()
		sb.WriteString("A " + Hex([]byte(s)))
	case it.IsJIS8():
		s, _ := it.ToJIS8()
		sb.WriteString("J " + Hex([]byte(s)))
	case it.IsLocalizedStr():
		s, _ := it.ToLocalizedStr()
		sb.WriteString("W " + Hex([]byte(s)) + " " + Hex([]byte(strconv.Quote(s))))
	case it.IsBinary():
		b, _ := it.ToBinary()
		sb.WriteString("B " + Hex(b))
	case it.IsBoolean():
		vs, _ := it.ToBoolean()
		sb.WriteString("T ")
		if len(vs) == 0 {
			sb.WriteByte('-')
		}
		for _, v := range vs {
			if v {
				sb.WriteByte('1')
			} else {
				sb.WriteByte('0')
			}
		}
	case it.IsInt8(), it.IsInt16(), it.IsInt32(), it.IsInt64():
		vs, _ := it.ToInt()
		fmt.Fprintf(sb, "I %d %d", widthOf(it), len(vs))
		for _, v := range vs {
			fmt.Fprintf(sb, " %d", v)
		}
	case it.IsUint8(), it.IsUint16(), it.IsUint32(), it.IsUint64():
		vs, _ := it.ToUint()
		fmt.Fprintf(sb, "U %d %d", widthOf(it), len(vs))
		for _, v := range vs {
			fmt.Fprintf(sb, " %d", v)
		}
	case it.IsFloat32(), it.IsFloat64():
		vs, _ := it.ToFloat()
		w := widthOf(it)
		fmt.Fprintf(sb, "F %d %d", w, len(vs))
		for _, v := range vs {
			fmt.Fprintf(sb, " %d/%s", math.Float64bits(v), Hex([]byte(FloatText(w, v))))
		}
	default:
		return false
	}
	return true
}

// EqualModNaN is secs2.Equal except that two float elements that are both NaN are equal whatever
// their payload, and the localized-string header is ignored (C13/C15 statements).
func EqualModNaN(a, b secs2.Item) bool {
	if a == nil || b == nil || a.Error() != nil || b.Error() != nil {
		return false
	}
	if a.Type() != b.Type() || a.Size() != b.Size() {
		return false
	}
	switch {
	case a.IsList():
		x, _ := a.ToList()
		y, _ := b.ToList()
		if len(x) != len(y) {
			return false
		}
		for i := range x {
			if !EqualModNaN(x[i], y[i]) {
				return false
			}
		}
		return true
	case a.IsFloat32(), a.IsFloat64():
		x, _ := a.ToFloat()
		y, _ := b.ToFloat()
		if len(x) != len(y) {
			return false
		}
		for i := range x {
			if math.IsNaN(x[i]) && math.IsNaN(y[i]) {
				continue
			}
			if a.IsFloat32() {
				if math.Float32bits(float32(x[i])) != math.Float32bits(float32(y[i])) {
					return false
				}
			} else if math.Float64bits(x[i]) != math.Float64bits(y[i]) {
				return false
			}
		}
		return true
	case a.IsLocalizedStr():
		x, _ := a.ToLocalizedStr()
		y, _ := b.ToLocalizedStr()
		return x == y
	default:
		return secs2.Equal(a, b)
	}
}

// Cfg steers the generator.
type Cfg struct {
	EmptyChildren bool // allow EmptyItem as a list child
	PlainJW       bool // JIS-8 / localized text free of quotes, backslash, angle brackets, control bytes
	MaxDepth      int
	MaxKids       int
	MaxLeaf       int
	NoStrings     bool // numeric/boolean/binary leaves only
}

var intEdges = []int64{0, 1, -1, 2, 7, 9, 10, 11, 99, 100, 127, 128, -128, -129, 255, 256, 32767, 32768, -32768, -32769,
	65535, 65536, 2147483647, 2147483648, -2147483648, -2147483649, 4294967295, 4294967296,
	math.MaxInt64, math.MinInt64, math.MaxInt64 - 1, math.MinInt64 + 1, 1000000000000000000, -1000000000000000000}

var uintEdges = []uint64{0, 1, 2, 9, 10, 99, 100, 255, 256, 65535, 65536, 4294967295, 4294967296,
	math.MaxUint64, math.MaxUint64 - 1, 1 << 63, 1<<63 - 1, 10000000000000000000, 9999999999999999999}

var floatEdges = []float64{0, math.Copysign(0, -1), 1, -1, 0.1, -0.1, 1.5, 1e10, 1e-10, 1e21, 1e20, 123456789, 1234567890123456789,
	math.MaxFloat32, -math.MaxFloat32, math.SmallestNonzeroFloat32, math.MaxFloat64, -math.MaxFloat64,
	math.SmallestNonzeroFloat64, 2.2250738585072014e-308, 1.1754943508222875e-38, 1e39, -1e39, 3.4028235677973366e38,
	math.Inf(1), math.Inf(-1), math.NaN(), math.Float64frombits(0x7ff8000000000001), math.Float64frombits(0xfff0000000000001),
	math.Float64frombits(0x7ff4000000000000), 16777216, 16777217, 9007199254740993, 0.30000000000000004, 5e-324, 1e-45, 1e-46}

func count(r *rand.Rand, c Cfg) int {
	switch r.Intn(10) {
	case 0, 1:
		return 0
	case 2, 3, 4:
		return 1
	case 5, 6:
		return 2
	case 7:
		return 3
	default:
		m := c.MaxLeaf
		if m < 4 {
			m = 4
		}
		return r.Intn(m)
	}
}

// RandBytes draws n bytes biased towards the characters the SML grammar cares about.
func RandBytes(r *rand.Rand, n int) []byte {
	special := []byte("\"'\\<> \t\r\n.[]:/*0x_AaLl,;")
	b := make([]byte, n)
	mode := r.Intn(4)
	for i := range b {
		switch {
		case mode == 0: // any byte
			b[i] = byte(r.Intn(256))
		case mode == 1 && r.Intn(3) == 0:
			b[i] = special[r.Intn(len(special))]
		case mode == 2 && r.Intn(4) == 0:
			b[i] = byte(r.Intn(256))
		case mode == 3 && r.Intn(5) == 0:
			b[i] = byte([]int{0, 0x1f, 0x20, 0x7e, 0x7f, 0x80, 0xff, 0xc3, 0xa9, 0xef, 0xbf, 0xbd}[r.Intn(12)])
		default:
			b[i] = byte(0x20 + r.Intn(0x5f))
		}
	}
	return b
}

// ---------------------------------------------------------------------------------------------
// Runes that strconv's quoting functions (Quote, QuoteToASCII, QuoteToGraphic, %q, %+q) tell
// apart: every Unicode general category they distinguish, and every boundary of their tables.

// SpecialRunes are single code points, one list per class.
var SpecialRunes = map[string][]rune{
	"Zs":      {0x20, 0xA0, 0x1680, 0x2000, 0x2001, 0x2002, 0x2003, 0x2004, 0x2005, 0x2006, 0x2007, 0x2008, 0x2009, 0x200A, 0x202F, 0x205F, 0x3000},
	"Zl":      {0x2028},
	"Zp":      {0x2029},
	"Cf":      {0xAD, 0x200B, 0x200C, 0x200D, 0x200E, 0x200F, 0xFEFF, 0x061C, 0x2060, 0x2066, 0xFFF9, 0x110BD, 0xE0001, 0xE007F},
	"Cc":      {0x00, 0x01, 0x07, 0x08, 0x09, 0x0A, 0x0B, 0x0C, 0x0D, 0x1B, 0x1F, 0x7F, 0x80, 0x85, 0x9F},
	"Co":      {0xE000, 0xF8FF, 0xF0000, 0xFFFFD, 0x100000, 0x10FFFD},
	"Cn":      {0x0378, 0x0530, 0x2065, 0xFDD0, 0xFFFE, 0xFFFF, 0x1FFFE, 0x30000 + 0x2000, 0xE0080, 0x10FFFE, 0x10FFFF},
	"Mn":      {0x0300, 0x0301, 0x0483, 0x20D0, 0xFE00, 0xE0100},
	"Me":      {0x0488, 0x0489, 0x20DD, 0x20E0, 0xA670},
	"Mc":      {0x0903, 0x093E},
	"FFFD":    {0xFFFD},
	"quoting": {'"', '\'', '\\', '<', '>', '`', '$', '%'},
	"letters": {'a', 'Z', '0', 0xE9, 0x3B1, 0x4E2D, 0x1F600, 0x10400},
}

// InvalidUTF8 are byte strings that are not UTF-8: stray continuation and lead bytes, truncated
// sequences, overlong forms, encodings of the surrogate range and of values above U+10FFFF.
var InvalidUTF8 = []string{"\x80", "\xbf", "\xc0\x80", "\xc1\xbf", "\xc3", "\xe2\x82", "\xf0\x9f\x98", "\xe0\x80\x80", "\xf0\x80\x80\x80",
	"\xed\xa0\x80", "\xed\xad\xbf", "\xed\xae\x80", "\xed\xbf\xbf", "\xf4\x90\x80\x80", "\xf5\x80\x80\x80", "\xf8\x88\x80\x80\x80", "\xfe", "\xff"}

// RuneClass names the class of a rune for the evidence histogram.
func RuneClass(r rune) string {
	switch {
	case r == utf8.RuneError:
		return "FFFD-or-invalid"
	case r < 0x80 && r >= 0x20 && r != 0x7f:
		return "ascii-printable"
	case unicode.Is(unicode.Zs, r):
		return "Zs"
	case unicode.Is(unicode.Zl, r):
		return "Zl"
	case unicode.Is(unicode.Zp, r):
		return "Zp"
	case unicode.Is(unicode.Cf, r):
		return "Cf"
	case unicode.Is(unicode.Cc, r):
		return "Cc"
	case unicode.Is(unicode.Co, r):
		return "Co"
	case unicode.Is(unicode.Cs, r):
		return "Cs"
	case unicode.Is(unicode.Mn, r):
		return "Mn"
	case unicode.Is(unicode.Me, r):
		return "Me"
	case unicode.Is(unicode.Mc, r):
		return "Mc"
	case unicode.Is(unicode.C, r) || !unicode.In(r, unicode.L, unicode.M, unicode.N, unicode.P, unicode.S, unicode.Z):
		return "Cn" // unassigned and noncharacters: in C but in none of Cc, Cf, Co, Cs"
	case strconv.IsPrint(r):
		return "other-print"
	default:
		return "other-nonprint"
	}
}

// StringClasses lists the classes present in s (invalid UTF-8 counted as its own class).
func StringClasses(s string) []string {
	seen := map[string]bool{}
	var out []string
	for i := 0; i < len(s); {
		r, w := utf8.DecodeRuneInString(s[i:])
		cl := RuneClass(r)
		if r == utf8.RuneError && w == 1 {
			cl = "invalid-utf8"
		} else if r == utf8.RuneError {
			cl = "FFFD"
		}
		if !seen[cl] {
			seen[cl] = true
			out = append(out, cl)
		}
		i += w
	}
	return out
}

var quoteCorpus []string

// QuoteCorpus is the deterministic corpus for quoted text: every special rune and every invalid
// byte string alone, at the start, in the middle, at the end and doubled; combining marks at the
// start and after a base; every rune on which strconv.IsPrint and strconv.IsGraphic differ; and
// every boundary of the IsPrint / IsGraphic tables over the whole code space (both neighbours),
// packed 48 to a string.
func QuoteCorpus() []string {
	if quoteCorpus != nil {
		return quoteCorpus
	}
	var out []string
	place := func(x string) {
		out = append(out, x, x+"ab", "a"+x+"b", "ab"+x, x+x, "a"+x+x+"b", x+" "+x)
	}
	classes := make([]string, 0, len(SpecialRunes))
	for k := range SpecialRunes {
		classes = append(classes, k)
	}
	sortStrings(classes)
	for _, k := range classes {
		for _, r := range SpecialRunes[k] {
			place(string(r))
		}
	}
	for _, b := range InvalidUTF8 {
		place(b)
	}
	for _, m := range append(append([]rune{}, SpecialRunes["Mn"]...), SpecialRunes["Me"]...) {
		out = append(out, string(m)+"a", "a"+string(m), "e"+string(m)+string(m), " "+string(m), "\u00a0"+string(m), string(m)+"\xff")
	}
	// where the two predicates differ, and every boundary of either
	var diff, edge []rune
	pp, pg := false, false
	for r := rune(0); r <= unicode.MaxRune; r++ {
		p, g := strconv.IsPrint(r), strconv.IsGraphic(r)
		if p != g {
			diff = append(diff, r)
		}
		if r > 0 && (p != pp || g != pg) {
			edge = append(edge, r-1, r)
		}
		pp, pg = p, g
	}
	for _, r := range diff {
		place(string(r))
	}
	for i := 0; i < len(edge); i += 48 {
		j := i + 48
		if j > len(edge) {
			j = len(edge)
		}
		out = append(out, string(edge[i:j]))
	}
	quoteCorpus = out
	return out
}

func sortStrings(a []string) {
	for i := 1; i < len(a); i++ {
		for j := i; j > 0 && a[j] < a[j-1]; j-- {
			a[j], a[j-1] = a[j-1], a[j]
		}
	}
}

// SpecialText draws a short string mixing special runes, invalid bytes and ASCII.
func SpecialText(r *rand.Rand, n int) string {
	classes := make([]string, 0, len(SpecialRunes))
	for k := range SpecialRunes {
		classes = append(classes, k)
	}
	sortStrings(classes)
	var sb strings.Builder
	for i := 0; i < n; i++ {
		switch r.Intn(6) {
		case 0:
			sb.WriteString(InvalidUTF8[r.Intn(len(InvalidUTF8))])
		case 1, 2:
			sb.WriteByte(byte(0x20 + r.Intn(0x5f)))
		default:
			l := SpecialRunes[classes[r.Intn(len(classes))]]
			sb.WriteRune(l[r.Intn(len(l))])
		}
	}
	return sb.String()
}

// PlainBytes draws printable ASCII (plus, sometimes, well-formed UTF-8 letters) without quotes,
// backslash, angle brackets and control characters.
func PlainBytes(r *rand.Rand, n int, utf bool) []byte {
	var out []byte
	for len(out) < n {
		if utf && r.Intn(6) == 0 {
			out = append(out, []byte(string(rune([]int{0xe9, 0x3b1, 0x4e2d, 0x1f600, 0xa0, 0x3000}[r.Intn(6)])))...)
			continue
		}
		c := byte(0x20 + r.Intn(0x5f))
		if c == '"' || c == '\'' || c == '\\' || c == '<' || c == '>' {
			continue
		}
		out = append(out, c)
	}
	return out
}

func randFloat(r *rand.Rand, w int) float64 {
	switch r.Intn(6) {
	case 0, 1:
		return floatEdges[r.Intn(len(floatEdges))]
	case 2:
		return float64(math.Float32frombits(r.Uint32()))
	case 3:
		if w == 4 { // float64 values inside the float32 range that float32 cannot represent
			return float64(math.Float32frombits(r.Uint32()&0x7f7fffff)) * (1 + r.Float64()*1e-9) * float64(1-2*r.Intn(2))
		}
		return math.Float64frombits(r.Uint64())
	case 4:
		return math.Float64frombits(r.Uint64())
	default:
		return float64(r.Intn(2001)-1000) / float64(1+r.Intn(100))
	}
}

// Leaf draws one non-list item.
func Leaf(r *rand.Rand, c Cfg) secs2.Item {
	n := count(r, c)
	k := r.Intn(16)
	if c.NoStrings {
		k = 3 + r.Intn(13)
	}
	switch k {
	case 0:
		if r.Intn(5) == 0 {
			return secs2.NewASCIIItem(SpecialText(r, n))
		}
		return secs2.NewASCIIItem(string(RandBytes(r, n)))
	case 1:
		if !c.PlainJW && r.Intn(4) == 0 {
			return secs2.NewJIS8Item(SpecialText(r, n))
		}
		if c.PlainJW {
			return secs2.NewJIS8Item(string(PlainBytes(r, n, false)))
		}
		return secs2.NewJIS8Item(string(RandBytes(r, n)))
	case 2:
		if c.PlainJW {
			return secs2.NewUTF8StrItem(string(PlainBytes(r, n, true)))
		}
		if r.Intn(2) == 0 {
			return secs2.NewLocalizedStrItem(uint16(r.Intn(16)), SpecialText(r, n))
		}
		return secs2.NewLocalizedStrItem(uint16(r.Intn(16)), string(RandBytes(r, n)))
	case 3:
		b := make([]byte, n)
		for i := range b {
			if r.Intn(3) == 0 {
				b[i] = []byte{0, 1, 2, 15, 16, 127, 128, 254, 255}[r.Intn(9)]
			} else {
				b[i] = byte(r.Intn(256))
			}
		}
		return secs2.NewBinaryItem(b)
	case 4:
		b := make([]bool, n)
		for i := range b {
			b[i] = r.Intn(2) == 0
		}
		return secs2.NewBooleanItem(b)
	case 5, 6, 7, 8:
		w := []int{1, 2, 4, 8}[k-5]
		vs := make([]int64, n)
		for i := range vs {
			switch r.Intn(3) {
			case 0:
				vs[i] = intEdges[r.Intn(len(intEdges))]
			case 1:
				vs[i] = int64(r.Uint64())
			default:
				vs[i] = int64(r.Intn(2001) - 1000)
			}
		}
		return secs2.NewIntItem(w, vs)
	case 9, 10, 11, 12:
		w := []int{1, 2, 4, 8}[k-9]
		vs := make([]uint64, n)
		for i := range vs {
			switch r.Intn(3) {
			case 0:
				vs[i] = uintEdges[r.Intn(len(uintEdges))]
			case 1:
				vs[i] = r.Uint64()
			default:
				vs[i] = uint64(r.Intn(1000))
			}
		}
		return secs2.NewUintItem(w, vs)
	default:
		w := 4
		if k >= 14 {
			w = 8
		}
		vs := make([]float64, n)
		for i := range vs {
			vs[i] = randFloat(r, w)
		}
		if w == 4 && r.Intn(3) == 0 { // the float32 constructor path
			fs := make([]float32, n)
			for i := range fs {
				fs[i] = float32(vs[i])
			}
			return secs2.NewFloatItem(4, fs)
		}
		return secs2.NewFloatItem(w, vs)
	}
}

// Tree draws an item: a leaf, the empty item (only where allowed) or a list.
func Tree(r *rand.Rand, c Cfg, depth int, top bool) secs2.Item {
	if depth >= c.MaxDepth || r.Intn(3) != 0 {
		if (top || c.EmptyChildren) && r.Intn(12) == 0 {
			return secs2.NewEmptyItem()
		}
		return Leaf(r, c)
	}
	n := 0
	switch r.Intn(6) {
	case 0:
		n = 0
	case 1:
		n = 1
	default:
		n = 1 + r.Intn(c.MaxKids)
	}
	kids := make([]secs2.Item, n)
	for i := range kids {
		kids[i] = Tree(r, c, depth+1, false)
	}
	return secs2.NewListItem(kids...)
}

// Kind is a histogram bucket for an item.
func Kind(it secs2.Item) string {
	if it.IsEmpty() {
		return "empty"
	}
	s := it.Type()
	switch {
	case it.IsList():
		switch {
		case it.Size() == 0:
			return "list/0"
		default:
			return "list/n"
		}
	case it.Size() == 0:
		return s + "/0"
	case it.Size() == 1:
		return s + "/1"
	default:
		return s + "/n"
	}
}
