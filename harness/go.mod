module verifharness

go 1.26.0

require github.com/arloliu/go-secs/v2 v2.0.0

require (
	github.com/phsym/console-slog v0.3.1 // indirect
	github.com/puzpuzpuz/xsync/v3 v3.5.1 // indirect
)

replace github.com/arloliu/go-secs/v2 => /repo
