// Package fr holds what the C03/C04 (HSMS frame) harnesses share: a SECS-II item generator built
// on the public constructors, errored items, header/hex helpers, error classification, and a
// scripted raw peer for net.Pipe end-to-end runs.
package fr

import (
	"encoding/hex"
	"errors"
	"fmt"
	"math/rand"
	"strings"

	"github.com/arloliu/go-secs/v2/hsms"
	"github.com/arloliu/go-secs/v2/secs2"
)

// RandItem builds a random, error-free item tree through the public constructors.
func RandItem(r *rand.Rand, depth int) secs2.Item {
	k := r.Intn(14)
	if depth <= 0 && k == 0 {
		k = 1 + r.Intn(13)
	}
	n := r.Intn(4)
	if r.Intn(12) == 0 {
		n = []int{0, 1, 255, 256, 257, 300}[r.Intn(6)]
	}
	switch k {
	case 0:
		cnt := r.Intn(4)
		kids := make([]secs2.Item, cnt)
		for i := range kids {
			kids[i] = RandItem(r, depth-1)
		}
		return secs2.L(kids...)
	case 1:
		b := make([]byte, n)
		for i := range b {
			b[i] = byte(32 + r.Intn(95))
			if b[i] == '"' || b[i] == '\\' {
				b[i] = 'x'
			}
		}
		return secs2.A(string(b))
	case 2:
		vals := make([]any, n)
		for i := range vals {
			vals[i] = byte(r.Intn(256))
		}
		return secs2.B(vals...)
	case 3:
		vals := make([]any, n)
		for i := range vals {
			vals[i] = r.Intn(2) == 0
		}
		return secs2.BOOLEAN(vals...)
	case 4:
		return secs2.U1(ints(r, n, 0, 255)...)
	case 5:
		return secs2.U2(ints(r, n, 0, 65535)...)
	case 6:
		return secs2.U4(ints(r, n, 0, 1<<32-1)...)
	case 7:
		return secs2.U8(ints(r, n, 0, 1<<62)...)
	case 8:
		return secs2.I1(ints(r, n, -128, 127)...)
	case 9:
		return secs2.I2(ints(r, n, -32768, 32767)...)
	case 10:
		return secs2.I4(ints(r, n, -1<<31, 1<<31-1)...)
	case 11:
		return secs2.I8(ints(r, n, -1<<61, 1<<61)...)
	case 12:
		vals := make([]any, n)
		for i := range vals {
			vals[i] = float32(r.NormFloat64())
		}
		return secs2.F4(vals...)
	default:
		vals := make([]any, n)
		for i := range vals {
			vals[i] = r.NormFloat64() * 1e6
		}
		return secs2.F8(vals...)
	}
}

func ints(r *rand.Rand, n int, lo, hi int64) []any {
	vals := make([]any, n)
	for i := range vals {
		switch r.Intn(4) {
		case 0:
			vals[i] = lo
		case 1:
			vals[i] = hi
		default:
			vals[i] = lo + r.Int63n(hi-lo+1)
		}
	}
	return vals
}

// ErrItem returns an item whose Error() is non-nil (a deferred construction error), directly or
// through a list child. It panics if the library stops producing one for these arguments, so a
// silently useless generator cannot go unnoticed.
func ErrItem(r *rand.Rand) secs2.Item {
	var it secs2.Item
	switch r.Intn(5) {
	case 0:
		it = secs2.B(300)
	case 1:
		it = secs2.U1(-1)
	case 2:
		it = secs2.L(secs2.A("ok"), secs2.B(300))
	case 3:
		it = secs2.L(secs2.L(secs2.U1("abc")), secs2.U2(1))
	default:
		it = secs2.L(secs2.A("a"), secs2.L(secs2.BOOLEAN(3), secs2.F4("zz")))
	}
	if it.Error() == nil {
		panic(fmt.Sprintf("fr.ErrItem: expected a deferred error from %T", it))
	}
	return it
}

// Hex / UnHex render bytes for case lines ("-" = empty).
func Hex(b []byte) string {
	if len(b) == 0 {
		return "-"
	}
	return hex.EncodeToString(b)
}

// ConsErr classifies a NewDataMessage error: S(tream) R(sp W-bit) I(tem, anything else).
func ConsErr(err error) string {
	switch {
	case err == nil:
		return "ok"
	case errors.Is(err, hsms.ErrInvalidStreamCode):
		return "S"
	case errors.Is(err, hsms.ErrInvalidRspMsg):
		return "R"
	default:
		return "I"
	}
}

// DecErr classifies a frame decode error: H(eader length sentinel: too short / length field
// too small / length mismatch), P(Type), S(Type), B(ig: the only unclassified error).
func DecErr(err error) string {
	switch {
	case err == nil:
		return "ok"
	case errors.Is(err, hsms.ErrInvalidHeaderLength):
		return "H"
	case errors.Is(err, hsms.ErrInvalidPType):
		return "P"
	case errors.Is(err, hsms.ErrInvalidControlMsgSType):
		return "S"
	default:
		return "B"
	}
}

// RenderMsg renders a decoded message for a case line: `D <hdr> <body>` or `C <hdr> <w>`.
func RenderMsg(m hsms.Message) string {
	h := m.HeaderBytes()
	if dm, ok := m.ToDataMessage(); ok {
		return "D " + Hex(h[:]) + " " + Hex(dm.AppendBodyTo(nil))
	}
	cm := m.(*hsms.ControlMessage)
	w := "0"
	if cm.WaitBit() {
		w = "1"
	}
	return "C " + Hex(h[:]) + " " + w
}

// RenderDecode renders the outcome of a decode entry point.
func RenderDecode(m hsms.Message, err error) string {
	if err != nil {
		return "E " + DecErr(err)
	}
	return "OK " + RenderMsg(m)
}

// Bufs renders net.Buffers-like chunks: count then each chunk.
func Bufs(bs [][]byte) string {
	parts := []string{fmt.Sprint(len(bs))}
	for _, b := range bs {
		parts = append(parts, Hex(b))
	}
	return strings.Join(parts, " ")
}

// SB renders system bytes as four decimals.
func SB(b [4]byte) string { return fmt.Sprintf("%d %d %d %d", b[0], b[1], b[2], b[3]) }
