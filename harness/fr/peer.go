package fr

import (
	"context"
	"encoding/binary"
	"io"
	"net"
	"sync"
	"time"

	"github.com/arloliu/go-secs/v2/hsms"
	"github.com/arloliu/go-secs/v2/hsmsss"
	"github.com/arloliu/go-secs/v2/logger"
)

// NopLogger silences the library.
type NopLogger struct{}

func (NopLogger) Debug(string, ...any)        {}
func (NopLogger) Info(string, ...any)         {}
func (NopLogger) Warn(string, ...any)         {}
func (NopLogger) Error(string, ...any)        {}
func (NopLogger) Fatal(string, ...any)        {}
func (l NopLogger) With(...any) logger.Logger { return l }
func (NopLogger) Level() logger.LogLevel      { return logger.LogLevel(0) }
func (NopLogger) SetLevel(logger.LogLevel)    {}

// Peer is a raw byte-level HSMS peer on the far end of a net.Pipe. It records every frame the
// connection under test writes (the raw bytes, length prefix included), answers Select.req and
// Linktest.req so the link comes up and stays up, and lets the harness write arbitrary bytes.
type Peer struct {
	Conn net.Conn

	wmu sync.Mutex // serialises writes (auto-replies vs harness writes)

	mu     sync.Mutex
	frames [][]byte
	closed bool
	rerr   error

	Frames chan []byte // every frame read, in order (buffered)
	Done   chan struct{}

	// OnData, if set, is called on the read goroutine for every data frame (SType 0) read.
	OnData func(p *Peer, frame []byte)
	// NoAutoSelect disables answering Select.req.
	NoAutoSelect bool
}

// NewPeer starts the read loop on conn.
func NewPeer(conn net.Conn) *Peer {
	p := &Peer{Conn: conn, Frames: make(chan []byte, 1<<14), Done: make(chan struct{})}
	go p.readLoop()
	return p
}

func (p *Peer) readLoop() {
	defer close(p.Done)
	for {
		var lb [4]byte
		if _, err := io.ReadFull(p.Conn, lb[:]); err != nil {
			p.finish(err)
			return
		}
		n := binary.BigEndian.Uint32(lb[:])
		if n > 1<<26 {
			p.finish(io.ErrUnexpectedEOF)
			return
		}
		f := make([]byte, 4+int(n))
		copy(f, lb[:])
		if _, err := io.ReadFull(p.Conn, f[4:]); err != nil {
			p.finish(err)
			return
		}
		p.mu.Lock()
		p.frames = append(p.frames, f)
		p.mu.Unlock()
		select {
		case p.Frames <- f:
		default:
		}
		if n >= 10 {
			switch f[9] {
			case 1:
				if !p.NoAutoSelect {
					rsp := append([]byte{0, 0, 0, 10}, f[4:14]...)
					rsp[7], rsp[9] = 0, 2
					go p.Write(rsp)
				}
			case 5:
				rsp := append([]byte{0, 0, 0, 10}, f[4:14]...)
				rsp[9] = 6
				go p.Write(rsp)
			case 0:
				if p.OnData != nil {
					p.OnData(p, f)
				}
			}
		}
	}
}

func (p *Peer) finish(err error) {
	p.mu.Lock()
	p.closed, p.rerr = true, err
	p.mu.Unlock()
}

// Write writes raw bytes to the connection under test (blocks until it reads them).
func (p *Peer) Write(b []byte) error {
	p.wmu.Lock()
	defer p.wmu.Unlock()
	_ = p.Conn.SetWriteDeadline(time.Now().Add(10 * time.Second))
	_, err := p.Conn.Write(b)
	return err
}

// ReadClosed reports whether the peer's read side saw the connection end.
func (p *Peer) ReadClosed() bool {
	p.mu.Lock()
	defer p.mu.Unlock()
	return p.closed
}

// Snapshot returns the frames read so far.
func (p *Peer) Snapshot() [][]byte {
	p.mu.Lock()
	defer p.mu.Unlock()
	return append([][]byte(nil), p.frames...)
}

// WaitFrame waits for the next frame satisfying pred.
func (p *Peer) WaitFrame(pred func([]byte) bool, d time.Duration) []byte {
	t := time.NewTimer(d)
	defer t.Stop()
	for {
		select {
		case f := <-p.Frames:
			if pred(f) {
				return f
			}
		case <-t.C:
			return nil
		}
	}
}

// Link is an open hsmsss connection (active role) whose far end is a Peer over net.Pipe.
type Link struct {
	Conn hsmsss.Connection
	mu   sync.Mutex
	peer *Peer
	// every peer ever dialled (a reconnect creates a new one)
	Peers []*Peer
	// Setup, if set, runs on each new peer before its read loop can see a frame.
	Setup func(p *Peer)
}

// Peer returns the current peer.
func (l *Link) Peer() *Peer {
	l.mu.Lock()
	defer l.mu.Unlock()
	return l.peer
}

// PeersMu calls f with every peer dialled so far (all generations).
func (l *Link) PeersMu(f func(peers []*Peer)) {
	l.mu.Lock()
	ps := append([]*Peer(nil), l.Peers...)
	l.mu.Unlock()
	f(ps)
}

// OpenLink builds an active hsmsss connection dialling into a scripted Peer and opens it
// (waiting for Selected). Extra connection options come after the quiet defaults.
func OpenLink(sessionID uint16, setup func(p *Peer), opts ...hsms.ConnOption) (*Link, error) {
	l := &Link{Setup: setup}
	dial := func(ctx context.Context, network, address string) (net.Conn, error) {
		a, b := net.Pipe()
		p := &Peer{Conn: b, Frames: make(chan []byte, 1<<14), Done: make(chan struct{})}
		if l.Setup != nil {
			l.Setup(p)
		}
		l.mu.Lock()
		l.peer = p
		l.Peers = append(l.Peers, p)
		l.mu.Unlock()
		go p.readLoop()
		return a, nil
	}
	base := []hsms.ConnOption{
		hsms.WithLogger(NopLogger{}), hsms.WithSessionID(sessionID),
		hsms.WithT3(3 * time.Second), hsms.WithT5(time.Second), hsms.WithT6(3 * time.Second), hsms.WithT7(3 * time.Second),
		hsms.WithCloseTimeout(3 * time.Second),
	}
	hopts := []hsmsss.Option{hsmsss.WithActive(), hsmsss.WithDialer(dial)}
	for _, o := range append(base, opts...) {
		hopts = append(hopts, hsmsss.WithConnectionOption(o))
	}
	cfg, err := hsmsss.NewConfig("pipe", 5000, hopts...)
	if err != nil {
		return nil, err
	}
	conn, err := hsmsss.New(cfg)
	if err != nil {
		return nil, err
	}
	l.Conn = conn
	ctx, cancel := context.WithTimeout(context.Background(), 10*time.Second)
	defer cancel()
	if err := conn.Open(ctx, hsms.OpenWaitSelected); err != nil {
		_ = conn.Close()
		return nil, err
	}
	return l, nil
}
