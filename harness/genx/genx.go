// Package genx is the shared e2e machinery of the C09 / C20 harnesses: a real HSMS-SS connection
// (active role, public WithDialer) whose successive TCP generations are successive net.Pipe pairs,
// one scripted byte-level peer per generation, callers that tag every payload with a unique token
// and the generation the harness observed at acceptance, fault injection at every phase of a send,
// a recorder, the implementation-level oracles and the log writer for the extracted monitors.
package genx

import (
	"bytes"
	"context"
	"encoding/binary"
	"errors"
	"fmt"
	"io"
	"net"
	"runtime"
	"sort"
	"strconv"
	"strings"
	"sync"
	"sync/atomic"
	"time"

	"github.com/arloliu/go-secs/v2/hsms"
	"github.com/arloliu/go-secs/v2/hsmsss"
	"github.com/arloliu/go-secs/v2/logger"
	"github.com/arloliu/go-secs/v2/secs1"
	"github.com/arloliu/go-secs/v2/secs2"
)

type nopLogger struct{}

func (nopLogger) Debug(string, ...any)        {}
func (nopLogger) Info(string, ...any)         {}
func (nopLogger) Warn(string, ...any)         {}
func (nopLogger) Error(string, ...any)        {}
func (nopLogger) Fatal(string, ...any)        {}
func (l nopLogger) With(...any) logger.Logger { return l }
func (nopLogger) Level() logger.LogLevel      { return logger.LogLevel(0) }
func (nopLogger) SetLevel(logger.LogLevel)    {}

// Call kinds (model: kind).
const (
	KSyncW  = 0
	KSyncNW = 1
	KAsync  = 2
)

// Results (model: result). RReply/RReject carry the generation of the peer that sent them.
const (
	ROk = iota
	RQueued
	RReply
	RReject
	RTimer
	RClosed
	RCtx
	RNotSel
	RWriteErr
	RNotOpen
)

var resName = []string{"ok", "queued", "reply", "reject", "timer", "closed", "ctx", "notsel", "writeerr", "notopen"}

// Event is one recorder entry; Seq is the global order of recording.
type Event struct {
	Seq  int
	Typ  byte // A accepted, W wire, C completed, E async error, T teardown, U gen up, D dispatched, S snapshot
	C    int  // call id
	K    int  // kind
	G    int  // generation
	R    int  // result
	From int  // generation a reply came from
	Snap [8]int64
	Q    bool
	At   time.Time
}

// Call is the harness-side record of one API call.
type Call struct {
	ID       int
	Kind     int
	Lo       int // generations dialled - 1, sampled immediately before the API call
	HookGen  int // the same, sampled inside writeFrame (after the socket capture) on the caller's goroutine; -1 if never reached
	Hi       int // sampled after the call returned
	Start    time.Time
	End      time.Time
	Res      int
	From     int
	Err      error
	WireGen  int32 // generation whose peer read the frame, -1 if none (atomic)
	AsyncErr int32 // async error-handler callbacks for this token (atomic)
	done     chan struct{}
}

// Exact reports whether the generation the call was pinned to is known exactly: the harness saw
// the same generation before the call and at the first point where the call is certainly pinned.
func (c *Call) Exact() bool {
	if c.HookGen >= 0 {
		return c.HookGen == c.Lo
	}
	return c.Hi == c.Lo
}

// Peer is the scripted byte-level peer of one generation.
type Peer struct {
	Gen  int
	Conn net.Conn
	env  *Env
	wmu  sync.Mutex

	// behaviour switches (set by the scenario before or while the generation lives)
	NoSelect   atomic.Bool // never answer Select.req
	NoLinktest atomic.Bool // never answer Linktest.req
	Mute       atomic.Bool // never answer data primaries
	RejectAll  atomic.Bool // answer data primaries with Reject.req (reason 4) instead of a reply
	StopRead   atomic.Bool // stop reading after the current frame (the writer side then stalls)
	resume     chan struct{}

	// independent counts
	DataRecv atomic.Int64 // complete data frames read from the connection under test
	DataSent atomic.Int64 // complete data frames written to it (write returned nil)
	// DataSentMaybe: SECS-I blocks completely written whose ACK never arrived (the generation ended in
	// between): the connection under test may or may not have accepted them
	DataSentMaybe atomic.Int64
	Selected      atomic.Bool      // Select.rsp(0) was written
	CtrlSeen      [10]atomic.Int64 // control frames read, by SType
	S9F1Seen      atomic.Int64     // S9F1 data frames read (the answer to a foreign-session data frame)
	S9F9Seen      atomic.Int64     // S9F9 data frames read (the notice after a T3 with autoS9F9)
	EOF           chan struct{}
	closed        chan struct{}
	tmu           sync.Mutex // orders the T event against W events of this peer
	tdone         bool
	closeOnce     sync.Once
	// Held holds W-bit primaries the peer has not answered (Mute), so a scenario can answer later.
	hmu  sync.Mutex
	Held [][]byte

	// SECS-I fault behaviours: Dup = how many times each acknowledged block is transmitted again (a
	// sender that lost the ACK); NakFirst = 1 NAK / 2 stay silent on the first transmission of every
	// block the connection under test sends (it then retransmits). DupSent counts the duplicates.
	Dup      atomic.Int32
	NakFirst atomic.Int32
	DupSent  atomic.Int64
	s1nak    string

	// SECS-I line state (nil channels for HSMS-SS)
	s1     bool
	s1in   chan byte
	s1out  chan s1Req
	s1last string
}

// Env is one connection under test plus its generations.
type Env struct {
	Conn  hsms.Connection
	Core  hsms.Connection
	Secs1 bool // the connection under test is SECS-I over TCP (else HSMS-SS)

	// snapMu orders snapshots against the harness's own bookkeeping: every "log event + independent
	// count" pair is updated under RLock, a snapshot is taken under Lock, so a snapshot never falls
	// between a wire/dispatch/async-error event and the count that goes with it
	snapMu    sync.RWMutex
	mu        sync.Mutex
	listeners []*Listener
	events    []Event
	seq       int
	peers     []*Peer
	calls     map[int]*Call
	nextID    int

	dials atomic.Int64 // generations dialled so far

	// hook state
	hmu        sync.Mutex
	byGo       map[int64]*Call
	stallCall  map[int]chan struct{} // call id -> released when closed
	stallOther chan struct{}         // one-shot: the next hook invocation on a non-caller goroutine waits on it
	inHook     chan int              // receives the call id (or -1) when a stalled invocation parks

	// OnGen configures each new peer before its read loop starts.
	OnGen func(p *Peer)
	// DialErr, if it returns non-nil for attempt n, makes that dial fail.
	DialErr func(n int) error
	// AfterStart, if set, runs at the end of every tr.Start (n counts the Starts of this
	// connection, from 1), before Start returns to Open / the reconnect loop: it may block, which
	// holds that caller "inside tr.Start" after the generation it published came up.
	AfterStart func(n int, err error)
	// DialGate, if set, is called at the start of every dial attempt (it may block: the reconnect
	// loop is then provably running). Attempts counts every dial attempt.
	DialGate func(gen int)
	Attempts atomic.Int64
	// ReDials counts the successful dials other than the first one of each Open cycle: the
	// harness's own count of re-establishments (every re-dial follows an involuntary end of the
	// previous generation, whether the harness injected it or the library decided it — e.g. a
	// SECS-I send that ran out of retries under load). cycleFresh is set by Open/OpenBackground.
	ReDials    atomic.Int64
	cycleFresh atomic.Bool
	closing    atomic.Bool // set around Close: a dial that starts then is refused and counted by nobody
	// handler events
	HandlerCalls   atomic.Int64
	DecodeErrCalls atomic.Int64 // decode-error handler invocations (HandlerMode 2)
	// HandlerHold, when set, makes the data handler block (on the receive goroutine) until the
	// channel is closed.
	HandlerHold atomic.Pointer[chan struct{}]
	// InlineReply makes the data handler answer every primary with ReplyDataMessage on the calling
	// (receive) goroutine; the records are read with Inline().
	InlineReply atomic.Bool
	inline      []*InlineRec
	AsyncErrs   atomic.Int64 // async error-handler callbacks (data and control)
	AsyncNotSel atomic.Int64 // ... of which ErrNotSelectedState (B2 on the sender goroutine)

	CloseTimeout time.Duration
	T3           time.Duration
	SessionID    uint16
}

func goid() int64 {
	var buf [64]byte
	n := runtime.Stack(buf[:], false)
	f := strings.Fields(string(buf[:n]))
	if len(f) < 2 {
		return -1
	}
	id, _ := strconv.ParseInt(f[1], 10, 64)
	return id
}

// Options for NewEnv.
type Options struct {
	T3, T5, T6, T7, T8 time.Duration
	Linktest           time.Duration
	LinktestThreshold  int
	WriteTimeout       time.Duration
	CloseTimeout       time.Duration
	Backoff            time.Duration
	QueueSize          int
	// options that change which frames are counted / dropped / answered (HSMS-SS passes only)
	ValidateSessionID bool          // hsms.WithSessionIDValidation: foreign-session data is counted, dropped, answered S9F1
	AutoS9F9          bool          // hsms.WithAutoS9F9: an S9F9 data frame follows every T3
	HandlerMode       int           // 0 data handler; 1 NO data handler registered; 2 data handler + decode-error handler
	TraceTraffic      bool          // hsms.WithTraceTraffic
	Secs1             bool          // SECS-I transport (equipment role) instead of HSMS-SS
	Passive           bool          // HSMS-SS passive role: harness-owned listener, peers connect (see passive.go)
	T2                time.Duration // SECS-I line timers
	Retry             int
}

// DefaultOptions are quiet, fast timers: every protocol timer far above a normal round trip.
func DefaultOptions() Options {
	return Options{T3: 2 * time.Second, T5: 50 * time.Millisecond, T6: 2 * time.Second, T7: 10 * time.Second, T8: 2 * time.Second,
		WriteTimeout: 2 * time.Second, CloseTimeout: 2 * time.Second, Backoff: 2 * time.Millisecond, QueueSize: 64}
}

// NewEnv builds (does not open) an active HSMS-SS connection dialling scripted peers.
func NewEnv(o Options) (*Env, error) {
	e := &Env{calls: map[int]*Call{}, byGo: map[int64]*Call{}, stallCall: map[int]chan struct{}{}, inHook: make(chan int, 64),
		CloseTimeout: o.CloseTimeout, T3: o.T3, SessionID: 7, Secs1: o.Secs1}
	dial := func(ctx context.Context, network, address string) (net.Conn, error) {
		n := int(e.dials.Load())
		e.Attempts.Add(1)
		if e.DialGate != nil {
			e.DialGate(n)
		}
		if e.DialErr != nil {
			if err := e.DialErr(n); err != nil {
				return nil, err
			}
		}
		if e.closing.Load() {
			return nil, errors.New("genx: connection is being closed")
		}
		if !e.cycleFresh.CompareAndSwap(true, false) {
			e.ReDials.Add(1)
		}
		a, b := net.Pipe()
		p := &Peer{Gen: n, Conn: b, env: e, EOF: make(chan struct{}), closed: make(chan struct{}), resume: make(chan struct{}, 1)}
		if o.Secs1 {
			p.s1, p.s1in, p.s1out = true, make(chan byte, 1<<16), make(chan s1Req, 64)
			p.Selected.Store(true)
		}
		if e.OnGen != nil {
			e.OnGen(p)
		}
		e.mu.Lock()
		e.peers = append(e.peers, p)
		e.mu.Unlock()
		e.dials.Add(1)
		e.record(Event{Typ: 'U', G: n})
		if p.s1 {
			go p.s1Loop()
		} else {
			go p.readLoop()
		}
		return a, nil
	}
	copts := []hsms.ConnOption{
		hsms.WithLogger(nopLogger{}), hsms.WithSessionID(e.SessionID),
		hsms.WithT3(o.T3), hsms.WithT5(o.T5), hsms.WithT6(o.T6), hsms.WithT7(o.T7), hsms.WithT8(o.T8),
		hsms.WithCloseTimeout(o.CloseTimeout), hsms.WithWriteTimeout(o.WriteTimeout),
		hsms.WithReconnectBackoff(o.Backoff, 1.5), hsms.WithLinktestInterval(o.Linktest),
		hsms.WithLinktestSuppression(false),
		hsms.WithAsyncSendErrorHandler(func(msg hsms.Message, err error) { e.asyncErr(msg, err) }),
	}
	if !o.Secs1 {
		copts = append(copts, hsms.WithSessionIDValidation(o.ValidateSessionID), hsms.WithAutoS9F9(o.AutoS9F9), hsms.WithTraceTraffic(o.TraceTraffic))
	}
	if o.LinktestThreshold > 0 {
		copts = append(copts, hsms.WithLinktestFailThreshold(o.LinktestThreshold))
	}
	if o.QueueSize > 0 {
		copts = append(copts, hsms.WithSenderQueueSize(o.QueueSize))
	}
	var conn hsms.Connection
	if o.Secs1 {
		t2, retry := o.T2, o.Retry
		if t2 <= 0 {
			t2 = 30 * time.Millisecond
		}
		sopts := []secs1.Option{secs1.WithActive(), secs1.WithDialer(dial), secs1.WithEquipment(), secs1.WithDeviceID(e.SessionID),
			secs1.WithT1(200 * time.Millisecond), secs1.WithT2(t2), secs1.WithT4(time.Second), secs1.WithRetryLimit(retry), secs1.WithT5(o.T5)}
		for _, c := range copts {
			sopts = append(sopts, secs1.WithConnectionOption(c))
		}
		cfg, err := secs1.NewConfig("pipe", 5000, sopts...)
		if err != nil {
			return nil, err
		}
		sc, err := secs1.New(cfg)
		if err != nil {
			return nil, err
		}
		conn, e.Core = sc, secs1.VerifCore(sc)
	} else {
		hopts := []hsmsss.Option{hsmsss.WithActive(), hsmsss.WithDialer(dial)}
		if o.Passive {
			hopts = []hsmsss.Option{hsmsss.WithPassive(), hsmsss.WithListener(e.listen)}
		}
		for _, c := range copts {
			hopts = append(hopts, hsmsss.WithConnectionOption(c))
		}
		cfg, err := hsmsss.NewConfig("pipe", 5000, hopts...)
		if err != nil {
			return nil, err
		}
		hc, err := hsmsss.New(cfg)
		if err != nil {
			return nil, err
		}
		conn, e.Core = hc, hsmsss.VerifCore(hc)
	}
	e.Conn = conn
	if e.Core == nil || !hsms.VerifSetSendHooks(e.Core, e.afterWriteLock, nil) {
		return nil, errors.New("genx: cannot install send hooks")
	}
	if !hsms.VerifGateTransportStart(e.Core, func(n int, err error) {
		if f := e.AfterStart; f != nil {
			f(n, err)
		}
	}) {
		return nil, errors.New("genx: cannot install the start gate")
	}
	if o.HandlerMode == 2 {
		conn.AddDecodeErrorHandler(func(msg *hsms.DataMessage, err error, ep hsms.SECS2Endpoint) { e.DecodeErrCalls.Add(1) })
	}
	if o.HandlerMode != 1 {
		e.addDataHandler(conn)
	}
	return e, nil
}

func (e *Env) addDataHandler(conn hsms.Connection) {
	conn.AddDataMessageHandler(func(msg *hsms.DataMessage, ep hsms.SECS2Endpoint) {
		e.HandlerCalls.Add(1)
		if hold := e.HandlerHold.Load(); hold != nil {
			<-*hold // an application handler that blocks the generation's receive goroutine
		}
		if e.InlineReply.Load() {
			// an INLINE handler: it answers on the generation's own receive goroutine
			rec := &InlineRec{Start: time.Now()}
			e.mu.Lock()
			e.inline = append(e.inline, rec)
			e.mu.Unlock()
			err := ep.ReplyDataMessage(context.Background(), msg, body(0xFFFFFF, uint32(e.Gen())))
			e.mu.Lock()
			rec.End, rec.Res, rec.Returned = time.Now(), classify(err), true
			e.mu.Unlock()
		}
	})
}

func (e *Env) record(ev Event) {
	e.mu.Lock()
	ev.Seq = e.seq
	e.seq++
	ev.At = time.Now()
	e.events = append(e.events, ev)
	e.mu.Unlock()
}

// InlineRec is one ReplyDataMessage issued by the inline data handler.
type InlineRec struct {
	Start, End time.Time
	Res        int
	Returned   bool
}

// Inline returns copies of the inline-reply records.
func (e *Env) Inline() []InlineRec {
	e.mu.Lock()
	defer e.mu.Unlock()
	out := make([]InlineRec, len(e.inline))
	for i, r := range e.inline {
		out[i] = *r
	}
	return out
}

// Gen is the index of the newest generation dialled (-1 before the first dial).
func (e *Env) Gen() int { return int(e.dials.Load()) - 1 }

// Peer returns the peer of generation g (nil if not dialled yet).
func (e *Env) Peer(g int) *Peer {
	e.mu.Lock()
	defer e.mu.Unlock()
	if g < 0 || g >= len(e.peers) {
		return nil
	}
	return e.peers[g]
}

// Peers returns all peers.
func (e *Env) Peers() []*Peer {
	e.mu.Lock()
	defer e.mu.Unlock()
	return append([]*Peer(nil), e.peers...)
}

// afterWriteLock is the connection's testHookAfterWriteLock: it runs inside writeFrame, under the
// generation's write lock, right after the generation's socket was captured.
func (e *Env) afterWriteLock() {
	g := goid()
	e.hmu.Lock()
	c := e.byGo[g]
	var wait chan struct{}
	id := -1
	if c != nil {
		if c.HookGen < 0 {
			c.HookGen = e.Gen()
		}
		wait = e.stallCall[c.ID]
		delete(e.stallCall, c.ID)
		id = c.ID
	} else if e.stallOther != nil {
		wait = e.stallOther
		e.stallOther = nil
	}
	e.hmu.Unlock()
	if wait != nil {
		e.inHook <- id
		<-wait
	}
}

// StallCall arranges for call id to park inside writeFrame (socket captured, nothing written)
// until the returned release func is called. WaitParked blocks until it has parked.
func (e *Env) StallCall(id int) (release func()) {
	ch := make(chan struct{})
	e.hmu.Lock()
	e.stallCall[id] = ch
	e.hmu.Unlock()
	var once sync.Once
	return func() { once.Do(func() { close(ch) }) }
}

// StallSender parks the next writeFrame of a non-caller goroutine (the generation's async sender).
func (e *Env) StallSender() (release func()) {
	ch := make(chan struct{})
	e.hmu.Lock()
	e.stallOther = ch
	e.hmu.Unlock()
	var once sync.Once
	return func() { once.Do(func() { close(ch) }) }
}

// WaitParked waits until a stalled hook invocation has parked; returns its call id (-1: sender).
func (e *Env) WaitParked(d time.Duration) (int, bool) {
	select {
	case id := <-e.inHook:
		return id, true
	case <-time.After(d):
		return 0, false
	}
}

func (e *Env) asyncErr(msg hsms.Message, err error) {
	e.snapMu.RLock()
	defer e.snapMu.RUnlock()
	e.AsyncErrs.Add(1)
	if classify(err) == RNotSel {
		e.AsyncNotSel.Add(1)
	}
	dm, ok := msg.(*hsms.DataMessage)
	if !ok {
		e.record(Event{Typ: 'E', C: -1, K: 4, R: classify(err)})
		return
	}
	tok, _, ok := parseBody(dm.ToBytes()[14:])
	var c *Call
	if ok {
		e.mu.Lock()
		c = e.calls[int(tok)]
		e.mu.Unlock()
	}
	if c != nil {
		atomic.AddInt32(&c.AsyncErr, 1)
		e.record(Event{Typ: 'E', C: c.ID, K: c.Kind, R: classify(err)})
	} else {
		// a data frame the library sent on its own (S9F9 after a T3 in the equipment role)
		e.record(Event{Typ: 'E', C: -1, K: KAsync, R: classify(err)})
	}
}

func classify(err error) int {
	var re *hsms.RejectError
	switch {
	case err == nil:
		return ROk
	case errors.As(err, &re):
		return RReject
	case errors.Is(err, hsms.ErrConnClosed):
		return RClosed
	case errors.Is(err, hsms.ErrT3Timeout):
		return RTimer
	case errors.Is(err, hsms.ErrNotSelectedState):
		return RNotSel
	case errors.Is(err, hsms.ErrNotOpen):
		return RNotOpen
	case errors.Is(err, context.Canceled), errors.Is(err, context.DeadlineExceeded):
		return RCtx
	default:
		return RWriteErr
	}
}

func body(tok, gen uint32) secs2.Item { return secs2.U4(tok, gen) }

// parseBody reads the U4[2] item (token, generation) of a harness payload.
func parseBody(b []byte) (tok, gen uint32, ok bool) {
	if len(b) != 10 || b[0] != 0xB1 || b[1] != 8 {
		return 0, 0, false
	}
	return binary.BigEndian.Uint32(b[2:6]), binary.BigEndian.Uint32(b[6:10]), true
}

// Start launches one API call on its own goroutine and returns its record; <-c.Done() when it returned.
func (e *Env) Start(kind int, ctx context.Context) *Call {
	e.mu.Lock()
	id := e.nextID
	e.nextID++
	c := &Call{ID: id, Kind: kind, HookGen: -1, WireGen: -1, From: -1, done: make(chan struct{})}
	e.calls[id] = c
	e.mu.Unlock()
	ready := make(chan struct{})
	go func() {
		g := goid()
		e.hmu.Lock()
		e.byGo[g] = c
		e.hmu.Unlock()
		c.Lo = e.Gen()
		c.Start = time.Now()
		close(ready)
		var reply *hsms.DataMessage
		var err error
		switch kind {
		case KSyncW:
			reply, err = e.Conn.SendDataMessage(ctx, 1, 1, true, body(uint32(id), uint32(c.Lo)))
		case KSyncNW:
			reply, err = e.Conn.SendDataMessage(ctx, 1, 3, false, body(uint32(id), uint32(c.Lo)))
		case KAsync:
			err = e.Conn.SendDataMessageAsync(ctx, 1, 5, false, body(uint32(id), uint32(c.Lo)))
		}
		c.End = time.Now()
		c.Hi = e.Gen()
		c.Err = err
		c.Res = classify(err)
		var re *hsms.RejectError
		if errors.As(err, &re) {
			c.From = int(re.Reason) - 10
		}
		if err == nil {
			switch {
			case kind == KAsync:
				c.Res = RQueued
			case reply != nil:
				c.Res = RReply
				if _, from, ok := parseBody(reply.ToBytes()[14:]); ok {
					c.From = int(from)
				}
			}
		}
		e.hmu.Lock()
		delete(e.byGo, g)
		e.hmu.Unlock()
		close(c.done)
	}()
	<-ready
	return c
}

// OnWire reports whether a peer has read the call's frame.
func (c *Call) OnWire() bool { return atomic.LoadInt32(&c.WireGen) >= 0 }

// Done is closed when the call returned.
func (c *Call) Done() <-chan struct{} { return c.done }

// Wait waits for the call to return (false on timeout).
func (c *Call) Wait(d time.Duration) bool {
	select {
	case <-c.done:
		return true
	case <-time.After(d):
		return false
	}
}

// ---- peer ----

func frame(sid uint16, b2, b3, ptype, stype byte, sys [4]byte, body []byte) []byte {
	f := make([]byte, 14+len(body))
	binary.BigEndian.PutUint32(f[0:4], uint32(10+len(body)))
	binary.BigEndian.PutUint16(f[4:6], sid)
	f[6], f[7], f[8], f[9] = b2, b3, ptype, stype
	copy(f[10:14], sys[:])
	copy(f[14:], body)
	return f
}

func (p *Peer) write(f []byte) error {
	if p.s1 {
		return p.s1Write(f)
	}
	p.wmu.Lock()
	defer p.wmu.Unlock()
	_ = p.Conn.SetWriteDeadline(time.Now().Add(5 * time.Second))
	_, err := p.Conn.Write(f)
	return err
}

// WriteRaw writes arbitrary bytes to the connection under test.
func (p *Peer) WriteRaw(b []byte) error { return p.write(b) }

// SendData writes one data frame (counted in DataSent when the write completed) and records the
// dispatch evidence event.
func (p *Peer) SendData(f []byte) error {
	err := p.write(f)
	if err == nil {
		p.env.snapMu.RLock()
		p.env.record(Event{Typ: 'D', G: p.Gen})
		p.DataSent.Add(1)
		p.env.snapMu.RUnlock()
	} else if errors.Is(err, errS1Unacked) {
		p.DataSentMaybe.Add(1)
	}
	return err
}

// Reply answers the W-bit primary f (a full frame) with the secondary carrying (token, own generation).
func (p *Peer) Reply(f []byte) error {
	var sys [4]byte
	copy(sys[:], f[10:14])
	tok, _, _ := parseBody(f[14:])
	b := body(tok, uint32(p.Gen)).ToBytes()
	return p.SendData(frame(binary.BigEndian.Uint16(f[4:6]), f[6]&0x7F, f[7]+1, 0, 0, sys, b))
}

// Primary sends an unsolicited primary S1F13 (W clear) to the connection under test.
func (p *Peer) Primary(n uint32) error {
	var sys [4]byte
	binary.BigEndian.PutUint32(sys[:], 0x80000000|n)
	return p.SendData(frame(p.env.SessionID, 1, 13, 0, 0, sys, body(n, uint32(p.Gen)).ToBytes()))
}

// LinktestReq / SelectReq write the control request on this peer's connection.
func (p *Peer) LinktestReq() error {
	return p.write(frame(0xFFFF, 0, 0, 0, 5, [4]byte{0x71, 0, 0, byte(p.Gen)}, nil))
}

func (p *Peer) SelectReq() error {
	return p.write(frame(p.env.SessionID, 0, 0, 0, 1, [4]byte{0x72, 0, 0, byte(p.Gen)}, nil))
}

// PrimaryForeign sends an unsolicited primary carrying a Session ID that is not the connection's:
// a well-formed data frame (counted as received); with session-ID validation on it is dropped
// and answered with S9F1, otherwise it is delivered like any other primary.
func (p *Peer) PrimaryForeign(n uint32) error {
	var sys [4]byte
	binary.BigEndian.PutUint32(sys[:], 0x80000000|n)
	return p.SendData(frame(p.env.SessionID+1, 1, 13, 0, 0, sys, body(n, uint32(p.Gen)).ToBytes()))
}

// PrimaryBadBody sends an unsolicited primary whose SECS-II body does not decode (a list header
// announcing five items, then nothing): the frame itself is well-formed and counted as received.
func (p *Peer) PrimaryBadBody(n uint32) error {
	var sys [4]byte
	binary.BigEndian.PutUint32(sys[:], 0x80000000|n)
	return p.SendData(frame(p.env.SessionID, 1, 13, 0, 0, sys, []byte{0x01, 0x05}))
}

// ReplyForeign answers the W-bit primary f like Reply, but under a foreign Session ID.
func (p *Peer) ReplyForeign(f []byte) error {
	var sys [4]byte
	copy(sys[:], f[10:14])
	tok, _, _ := parseBody(f[14:])
	b := body(tok, uint32(p.Gen)).ToBytes()
	return p.SendData(frame(binary.BigEndian.Uint16(f[4:6])+1, f[6]&0x7F, f[7]+1, 0, 0, sys, b))
}

// PrimaryBig sends an unsolicited primary whose body (a binary item of size bytes) spans several
// SECS-I blocks when size > 244.
func (p *Peer) PrimaryBig(n uint32, size int) error {
	var sys [4]byte
	binary.BigEndian.PutUint32(sys[:], 0x80000000|n)
	b := make([]byte, 3+size)
	b[0], b[1], b[2] = 0x22, byte(size>>8), byte(size)
	for i := 3; i < len(b); i++ {
		b[i] = byte(i * 7)
	}
	return p.SendData(frame(p.env.SessionID, 1, 13, 0, 0, sys, b))
}

// PrimaryUncounted writes an unsolicited primary that the connection under test must NOT count as
// received (the scenario sends it while the connection is not Selected): no D event, no DataSent.
func (p *Peer) PrimaryUncounted(n uint32) error {
	var sys [4]byte
	binary.BigEndian.PutUint32(sys[:], 0x80000000|n)
	return p.write(frame(p.env.SessionID, 1, 13, 0, 0, sys, body(n, uint32(p.Gen)).ToBytes()))
}

// OpenBackground opens without waiting for Selected.
func (e *Env) OpenBackground() error {
	e.cycleFresh.Store(true)
	return e.Conn.Open(context.Background(), hsms.OpenBackground)
}

// RejectF answers f with Reject.req; the reason byte carries 10 + the peer's generation (the
// library reports the reason byte verbatim), so a reject is attributable to a generation.
func (p *Peer) RejectF(f []byte) error {
	var sys [4]byte
	copy(sys[:], f[10:14])
	return p.write(frame(binary.BigEndian.Uint16(f[4:6]), 0, byte(10+p.Gen%200), 0, 7, sys, nil))
}

// Deselect sends Deselect.req (the connection under test answers and leaves Selected).
func (p *Peer) Deselect() error {
	return p.write(frame(p.env.SessionID, 0, 0, 0, 3, [4]byte{0x7f, 0, 0, 1}, nil))
}

// TakeHeld returns and clears the unanswered W-bit primaries.
func (p *Peer) TakeHeld() [][]byte {
	p.hmu.Lock()
	defer p.hmu.Unlock()
	h := p.Held
	p.Held = nil
	return h
}

// Close closes the peer's end of the pipe (peer close / reset).
func (p *Peer) Close() { p.closeOnce.Do(func() { close(p.closed); _ = p.Conn.Close() }) }

// markDown records the end of this generation as seen by its peer, once.
func (p *Peer) markDown() {
	p.tmu.Lock()
	if !p.tdone {
		p.tdone = true
		p.env.record(Event{Typ: 'T', G: p.Gen})
	}
	p.tmu.Unlock()
}

// Resume lets a StopRead peer read again.
func (p *Peer) Resume() {
	p.StopRead.Store(false)
	select {
	case p.resume <- struct{}{}:
	default:
	}
}

// onData handles one complete data frame read from the connection under test (internal layout).
func (p *Peer) onData(f []byte) {
	// the wire event is recorded BEFORE the independent count moves: a snapshot taken once the
	// counts agree then has every wire event in front of it
	p.env.snapMu.RLock()
	defer p.env.snapMu.RUnlock()
	// (deferred calls run last-declared first: the wire event, then DataRecv, then the S9 counters)
	if f[6]&0x7F == 9 && f[7] == 1 {
		defer p.S9F1Seen.Add(1)
	}
	if f[6]&0x7F == 9 && f[7] == 9 {
		defer p.S9F9Seen.Add(1)
	}
	defer p.DataRecv.Add(1)
	hold := f[6]&0x80 != 0 && (p.Mute.Load() || (p.RejectAll.Load() && p.s1))
	if hold {
		// held BEFORE the call is marked on the wire: a scenario that waits for OnWire and then
		// takes the held primaries must find this one
		p.hmu.Lock()
		p.Held = append(p.Held, f)
		p.hmu.Unlock()
	}
	tok, _, ok := parseBody(f[14:])
	var c *Call
	if ok {
		p.env.mu.Lock()
		c = p.env.calls[int(tok)]
		p.env.mu.Unlock()
	}
	if c != nil {
		atomic.StoreInt32(&c.WireGen, int32(p.Gen))
		p.env.record(Event{Typ: 'W', G: p.Gen, C: c.ID, K: c.Kind})
	} else {
		// a data frame the library sent on its own (S9F9 after a T3 in the equipment role): an
		// anonymous async data send, counted by the data-sent counter like any other
		p.env.record(Event{Typ: 'W', G: p.Gen, C: -1, K: KAsync})
	}
	if f[6]&0x80 != 0 && !hold { // W-bit primary
		if p.RejectAll.Load() && !p.s1 {
			go func() { _ = p.RejectF(f) }()
		} else {
			go func() { _ = p.Reply(f) }()
		}
	}
}

func (p *Peer) readLoop() {
	defer func() {
		p.markDown()
		close(p.EOF)
	}()
	for {
		_ = p.Conn.SetReadDeadline(time.Time{})
		var lb [4]byte
		if _, err := io.ReadFull(p.Conn, lb[:]); err != nil {
			return
		}
		// a stalled peer stops MID-FRAME: the length prefix was consumed, the rest is not, so the
		// writer of this very frame blocks in its write (net.Pipe is unbuffered)
		for p.StopRead.Load() {
			select {
			case <-p.resume:
			case <-p.closed:
				return
			}
		}
		n := binary.BigEndian.Uint32(lb[:])
		if n < 10 || n > 1<<24 {
			return
		}
		f := make([]byte, 4+int(n))
		copy(f, lb[:])
		if _, err := io.ReadFull(p.Conn, f[4:]); err != nil {
			return
		}
		if f[9] < 10 {
			p.CtrlSeen[f[9]].Add(1)
		}
		switch f[9] {
		case 1: // Select.req
			if !p.NoSelect.Load() {
				rsp := append([]byte(nil), f[:14]...)
				rsp[7], rsp[9] = 0, 2
				p.Selected.Store(true)
				go func() { _ = p.write(rsp) }()
			}
		case 5: // Linktest.req
			if !p.NoLinktest.Load() {
				rsp := append([]byte(nil), f[:14]...)
				rsp[9] = 6
				go func() { _ = p.write(rsp) }()
			}
		case 0: // data
			p.onData(f)
		}
	}
}

// ---- lifecycle helpers ----

// Open opens the connection and waits for Selected.
func (e *Env) Open(d time.Duration) error {
	ctx, cancel := context.WithTimeout(context.Background(), d)
	defer cancel()
	e.cycleFresh.Store(true)
	return e.Conn.Open(ctx, hsms.OpenWaitSelected)
}

// Close closes the connection under test; dials that start while it runs are refused.
func (e *Env) Close() error {
	e.closing.Store(true)
	defer e.closing.Store(false)
	return e.Conn.Close()
}

// WaitSelected waits until generation g (or a later one) is dialled and the connection reports Selected.
func (e *Env) WaitSelected(g int, d time.Duration) bool {
	dl := time.Now().Add(d)
	for time.Now().Before(dl) {
		if e.Gen() >= g && e.Conn.State() == hsms.SelectedState {
			return true
		}
		time.Sleep(200 * time.Microsecond)
	}
	return false
}

// WaitState waits for the connection state.
func (e *Env) WaitState(s hsms.ConnState, d time.Duration) bool {
	dl := time.Now().Add(d)
	for time.Now().Before(dl) {
		if e.Conn.State() == s {
			return true
		}
		time.Sleep(200 * time.Microsecond)
	}
	return false
}

// Metrics reads the getters: sent recv inflight err drop asyncErr reconnecting reconnects.
func (e *Env) Metrics() [8]int64 {
	m := e.Conn.Metrics()
	return [8]int64{int64(m.DataMsgSendCount()), int64(m.DataMsgRecvCount()), m.DataMsgInflightCount(), int64(m.DataMsgErrCount()),
		int64(m.DataMsgDropNotSelectedCount()), int64(m.AsyncSendErrCount()), m.Reconnecting(), int64(m.Reconnects())}
}

// WaitSettled polls until the data-sent getter equals the data frames the peers have read (the
// increment follows the write by a few instructions on another goroutine) and every call that
// returned a result implying "on the wire" has its wire event recorded.
func (e *Env) WaitSettled(d time.Duration) bool {
	dl := time.Now().Add(d)
	for time.Now().Before(dl) {
		var peer int64
		for _, p := range e.Peers() {
			peer += p.DataRecv.Load()
		}
		ok := int64(e.Conn.Metrics().DataMsgSendCount()) == peer
		for _, c := range e.Calls() {
			select {
			case <-c.done:
				if c.Kind != KAsync && (c.Res == ROk || c.Res == RReply || c.Res == RReject || c.Res == RTimer) && atomic.LoadInt32(&c.WireGen) < 0 {
					ok = false
				}
				if c.Kind == KAsync && c.Res == RQueued && c.Lo == e.Gen() && atomic.LoadInt32(&c.WireGen) < 0 && atomic.LoadInt32(&c.AsyncErr) == 0 {
					ok = false // still queued on the live generation
				}
			default:
			}
		}
		if ok {
			return true
		}
		time.Sleep(200 * time.Microsecond)
	}
	return false
}

// Snapshot records the metrics getters. quiet: the harness has brought the connection to a
// quiescent Selected or closed point (every call returned, state stable).
func (e *Env) Snapshot(quiet bool) [8]int64 {
	e.snapMu.Lock()
	defer e.snapMu.Unlock()
	m := e.Metrics()
	e.record(Event{Typ: 'S', Snap: m, Q: quiet})
	return m
}

// SnapshotIf reads the getters with the harness's bookkeeping frozen and records the snapshot only
// if ok(m) holds (ok may read the independent counts: they cannot move meanwhile). A frame that
// lands between the caller's convergence poll and the snapshot makes ok fail; the caller polls again.
func (e *Env) SnapshotIf(quiet bool, ok func(m [8]int64) bool) ([8]int64, bool) {
	e.snapMu.Lock()
	defer e.snapMu.Unlock()
	m := e.Metrics()
	if !ok(m) {
		return m, false
	}
	e.record(Event{Typ: 'S', Snap: m, Q: quiet})
	return m, true
}

// WaitReconnectingZero polls the reconnecting gauge (the loop's deferred decrement runs just after
// the successful dial, which may be after the state already reads Selected).
func (e *Env) WaitReconnectingZero(d time.Duration) bool {
	dl := time.Now().Add(d)
	for time.Now().Before(dl) {
		if e.Conn.Metrics().Reconnecting() == 0 {
			return true
		}
		time.Sleep(200 * time.Microsecond)
	}
	return false
}

// Finish records call events (accepted / completed) into the log in canonical order and returns it.
// Raw W/E/T/U/D/S events were recorded live; A and C events are inserted here: A at the call's
// start time, C at its end time; then the per-call order is canonicalised (see Canon).
func (e *Env) Finish() []Event {
	e.WaitSettled(2 * time.Second)
	e.mu.Lock()
	evs := append([]Event(nil), e.events...)
	calls := make([]*Call, 0, len(e.calls))
	for _, c := range e.calls {
		calls = append(calls, c)
	}
	e.mu.Unlock()
	sort.Slice(calls, func(i, j int) bool { return calls[i].ID < calls[j].ID })
	for _, c := range calls {
		select {
		case <-c.done:
		default:
			continue // never returned: reported by the scenario
		}
		g := c.Lo
		if !c.Exact() {
			// lenient reading of an ambiguous acceptance: any generation in [Lo, upper] the call may
			// have been pinned to; prefer the one whose peer saw the frame
			up := c.Hi
			if c.HookGen >= 0 {
				up = c.HookGen
			}
			if w := int(atomic.LoadInt32(&c.WireGen)); w >= c.Lo && w <= up {
				g = w
			} else if (c.Res == RReply || c.Res == RReject) && c.From >= c.Lo && c.From <= up {
				g = c.From
			}
		}
		if g < 0 {
			g = 0
		}
		if c.Res != RNotOpen {
			evs = append(evs, Event{Typ: 'A', C: c.ID, K: c.Kind, G: g, At: c.Start, Seq: -1})
		}
		evs = append(evs, Event{Typ: 'C', C: c.ID, K: c.Kind, R: c.Res, From: c.From, At: c.End, Seq: 1 << 30})
	}
	sort.SliceStable(evs, func(i, j int) bool {
		if !evs[i].At.Equal(evs[j].At) {
			return evs[i].At.Before(evs[j].At)
		}
		return evs[i].Seq < evs[j].Seq
	})
	return Canon(evs)
}

// Canon linearises the per-call events the way the model orders them. The recorder's order across
// goroutines is only approximately real time, so for one call: A first; for a synchronous call the
// frame was on the wire before the call returned (the write had returned), so W precedes C; for an
// asynchronous call C stands for the enqueue, which precedes the sender goroutine's W or E.
func Canon(evs []Event) []Event {
	out := make([]Event, 0, len(evs))
	type pos struct{ a, w, c, e int }
	idx := map[int]*pos{}
	for _, ev := range evs {
		out = append(out, ev)
	}
	find := func() {
		idx = map[int]*pos{}
		for i, ev := range out {
			switch ev.Typ {
			case 'A', 'W', 'C', 'E':
				if ev.C < 0 {
					continue
				}
				p := idx[ev.C]
				if p == nil {
					p = &pos{-1, -1, -1, -1}
					idx[ev.C] = p
				}
				switch ev.Typ {
				case 'A':
					p.a = i
				case 'W':
					p.w = i
				case 'C':
					p.c = i
				case 'E':
					if p.e < 0 {
						p.e = i
					}
				}
			}
		}
	}
	move := func(from, to int) { // move out[from] to position to (to < from)
		ev := out[from]
		copy(out[to+1:from+1], out[to:from])
		out[to] = ev
	}
	for changed := true; changed; {
		changed = false
		find()
		for _, p := range idx {
			first := -1
			for _, i := range []int{p.w, p.c, p.e} {
				if i >= 0 && (first < 0 || i < first) {
					first = i
				}
			}
			if p.a >= 0 && first >= 0 && p.a > first {
				move(p.a, first)
				changed = true
				break
			}
			if p.c < 0 {
				continue
			}
			if out[p.c].K == KAsync {
				m := -1
				for _, i := range []int{p.w, p.e} {
					if i >= 0 && (m < 0 || i < m) {
						m = i
					}
				}
				if m >= 0 && p.c > m {
					move(p.c, m)
					changed = true
					break
				}
			} else if p.w >= 0 && p.w > p.c {
				move(p.w, p.c)
				changed = true
				break
			}
		}
	}
	return out
}

// Line renders a log in the driver's syntax: events separated by " ; ".
func Line(evs []Event) string {
	var b bytes.Buffer
	for i, ev := range evs {
		if i > 0 {
			b.WriteString(" ; ")
		}
		switch ev.Typ {
		case 'A':
			fmt.Fprintf(&b, "A %d %d %d", ev.C, ev.K, ev.G)
		case 'W':
			fmt.Fprintf(&b, "W %d %d %d", ev.G, ev.C, ev.K)
		case 'C':
			fmt.Fprintf(&b, "C %d %d %d %d", ev.C, ev.K, ev.R, ev.From)
		case 'E':
			fmt.Fprintf(&b, "E %d %d %d", ev.C, ev.K, ev.R)
		case 'T':
			fmt.Fprintf(&b, "T %d", ev.G)
		case 'U':
			fmt.Fprintf(&b, "U %d", ev.G)
		case 'D':
			fmt.Fprintf(&b, "D %d", ev.G)
		case 'S':
			q := 0
			if ev.Q {
				q = 1
			}
			fmt.Fprintf(&b, "S %d %d %d %d %d %d %d %d %d", ev.Snap[0], ev.Snap[1], ev.Snap[2], ev.Snap[3], ev.Snap[4], ev.Snap[5], ev.Snap[6], ev.Snap[7], q)
		}
	}
	return b.String()
}

// ResName names a result.
func ResName(r int) string { return resName[r] }

// Calls returns the call records sorted by id.
func (e *Env) Calls() []*Call {
	e.mu.Lock()
	defer e.mu.Unlock()
	out := make([]*Call, 0, len(e.calls))
	for _, c := range e.calls {
		out = append(out, c)
	}
	sort.Slice(out, func(i, j int) bool { return out[i].ID < out[j].ID })
	return out
}

// Oracle is the implementation-level C09 check on the call records, independent of the model:
// a frame read by the peer of a generation other than the one the call was accepted in; a reply
// delivered across generations. fail(what, case) is called for each violation.
func (e *Env) OracleC09(fail func(what, kase string), ctxt string) {
	for _, c := range e.Calls() {
		select {
		case <-c.done:
		default:
			fail("send never returned", fmt.Sprintf("%s call=%d kind=%d lo=%d", ctxt, c.ID, c.Kind, c.Lo))
			continue
		}
		if !c.Exact() {
			continue
		}
		if w := int(atomic.LoadInt32(&c.WireGen)); w >= 0 && w != c.Lo {
			fail("stale frame: a frame accepted in one generation was read by the peer of another",
				fmt.Sprintf("%s call=%d kind=%d accepted_gen=%d wire_gen=%d result=%s", ctxt, c.ID, c.Kind, c.Lo, w, resName[c.Res]))
		}
		if (c.Res == RReply || c.Res == RReject) && c.From != c.Lo {
			fail("stale reply: a reply sent on one generation completed a send accepted in another",
				fmt.Sprintf("%s call=%d accepted_gen=%d reply_gen=%d", ctxt, c.ID, c.Lo, c.From))
		}
	}
}
