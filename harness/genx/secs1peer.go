package genx

import (
	"errors"
	"time"
)

// SECS-I (SEMI E4) side of the scripted peer: an independent reading of the block protocol
// (it sends single- and multi-block messages; it expects single-block messages). The connection under test is the equipment (master); the peer is
// the host (slave: on ENQ contention it yields). Frames are exchanged with the rest of the
// harness in the same internal layout as HSMS frames ([len4][sid2][b2][b3][0][0][sys4][body]);
// sid is the device id.

const (
	chENQ = 0x05
	chEOT = 0x04
	chACK = 0x06
	chNAK = 0x15
)

const s1Wait = time.Second // generous line timeouts of the peer (the library's T1/T2 are much shorter)

type s1Req struct {
	wires [][]byte // the block transmissions of one message, in order
	res   chan error
}

// e4Blocks cuts one internal frame into E4 block transmissions [len][header][body][sum]: at most
// 244 body bytes per block, numbered from 1, E-bit on the last; R=0 (host to equipment).
func e4Blocks(f []byte) [][]byte {
	body := f[14:]
	n := (len(body) + 243) / 244
	if n == 0 {
		n = 1
	}
	out := make([][]byte, 0, n)
	for i := 0; i < n; i++ {
		lo, hi := i*244, (i+1)*244
		if hi > len(body) {
			hi = len(body)
		}
		num := i + 1
		eb := byte(0)
		if i == n-1 {
			eb = 0x80
		}
		w := make([]byte, 0, 13+hi-lo)
		w = append(w, byte(10+hi-lo))
		w = append(w, f[4]&0x7F, f[5], f[6], f[7], eb|byte(num>>8), byte(num), f[10], f[11], f[12], f[13])
		w = append(w, body[lo:hi]...)
		sum := 0
		for _, v := range w[1:] {
			sum += int(v)
		}
		out = append(out, append(w, byte(sum>>8), byte(sum)))
	}
	return out
}

func (p *Peer) s1ReadByte(d time.Duration) (byte, bool) {
	select {
	case b, ok := <-p.s1in:
		return b, ok
	case <-time.After(d):
		return 0, false
	case <-p.closed:
		return 0, false
	}
}

func (p *Peer) s1Raw(b ...byte) bool {
	_ = p.Conn.SetWriteDeadline(time.Now().Add(5 * time.Second))
	_, err := p.Conn.Write(b)
	return err == nil
}

// s1Take runs the receiver half after the peer granted the line with EOT.
func (p *Peer) s1Take() {
	lb, ok := p.s1ReadByte(s1Wait)
	if !ok {
		return
	}
	n := int(lb)
	if n < 10 || n > 254 {
		p.s1Raw(chNAK)
		return
	}
	rest := make([]byte, 0, n+2)
	for len(rest) < n+2 {
		b, ok := p.s1ReadByte(s1Wait)
		if !ok {
			return
		}
		rest = append(rest, b)
	}
	sum := 0
	for _, v := range rest[:n] {
		sum += int(v)
	}
	if sum&0xFFFF != int(rest[n])<<8|int(rest[n+1]) {
		p.s1Raw(chNAK)
		return
	}
	if mode := p.NakFirst.Load(); mode != 0 && string(rest[:n]) != p.s1nak {
		// behave as a receiver that rejects (1) or misses (2) the FIRST transmission of a block: the
		// sender retransmits it (E4 RTY); it is still ONE message for the data-sent counter
		p.s1nak = string(rest[:n])
		if mode == 1 {
			p.s1Raw(chNAK)
		}
		return
	}
	if !p.s1Raw(chACK) {
		// the line died before the acknowledgement got through: by E4 the sender must treat the
		// block as not delivered, so the peer does not count it as received either
		return
	}
	h := rest[:10]
	if h[4]&0x80 == 0 { // multi-block messages are not used by this harness
		return
	}
	var sys [4]byte
	copy(sys[:], h[6:10])
	raw := string(rest[:n])
	if raw == p.s1last { // E4 9.4.2: a retransmission of the block just taken
		return
	}
	p.s1last = raw
	f := frame(uint16(h[0]&0x7F)<<8|uint16(h[1]), h[2], h[3], 0, 0, sys, rest[10:n])
	p.onData(f)
}

// errS1Unacked: the whole block was put on the line (the connection under test consumed every
// byte) but no ACK came back — it may well have accepted and dispatched the block.
var errS1Unacked = errors.New("block written, not acknowledged")

// s1Send transmits one block with the E4 handshake; as the slave it yields on contention.
func (p *Peer) s1Send(w []byte) error {
	wrote := false
	fail := func(e error) error {
		if wrote {
			return errS1Unacked
		}
		return e
	}
	for try := 0; try < 8; try++ {
		if !p.s1Raw(chENQ) {
			return fail(errors.New("line closed"))
		}
		granted, yielded := false, false
		dl := time.Now().Add(s1Wait)
		for !granted && !yielded {
			b, ok := p.s1ReadByte(time.Until(dl))
			if !ok {
				break
			}
			switch b {
			case chEOT:
				granted = true
			case chENQ:
				p.s1Raw(chEOT)
				p.s1Take()
				yielded = true
			}
		}
		if !granted {
			select {
			case <-p.closed:
				return fail(errors.New("peer closed"))
			default:
			}
			continue
		}
		if !p.s1Raw(w...) {
			return fail(errors.New("line closed"))
		}
		wrote = true
		b, ok := p.s1ReadByte(s1Wait)
		if ok && b == chACK {
			return nil
		}
		if !ok {
			return errS1Unacked
		}
	}
	return fail(errors.New("gave up"))
}

// s1SendMsg transmits the blocks of one message. After each acknowledged block it may behave as a
// sender that LOST the acknowledgement: it transmits the identical block again (full ENQ/EOT
// handshake) Dup more times — by E4 9.4.2 the receiver acknowledges and discards those. The
// message is ONE message whatever the number of transmissions.
func (p *Peer) s1SendMsg(wires [][]byte) error {
	for i, w := range wires {
		if err := p.s1Send(w); err != nil {
			if errors.Is(err, errS1Unacked) && i < len(wires)-1 {
				return errors.New("message abandoned before its last block")
			}
			return err
		}
		for k := int32(0); k < p.Dup.Load(); k++ {
			if p.s1Send(w) != nil {
				break
			}
			p.DupSent.Add(1)
		}
	}
	return nil
}

func (p *Peer) s1Loop() {
	defer func() {
		p.markDown()
		close(p.EOF)
	}()
	go func() {
		buf := make([]byte, 1024)
		for {
			n, err := p.Conn.Read(buf)
			for _, b := range buf[:n] {
				p.s1in <- b
			}
			if err != nil {
				close(p.s1in)
				return
			}
		}
	}()
	for {
		select {
		case b, ok := <-p.s1in:
			if !ok {
				return
			}
			if b == chENQ {
				if p.StopRead.Load() {
					continue // a stalled peer never grants the line: the sender runs out of retries
				}
				p.s1Raw(chEOT)
				p.s1Take()
			}
		case req := <-p.s1out:
			req.res <- p.s1SendMsg(req.wires)
		case <-p.closed:
			return
		}
	}
}

// s1Write hands one internal frame to the line loop and waits for its ACK.
func (p *Peer) s1Write(f []byte) error {
	req := s1Req{wires: e4Blocks(f), res: make(chan error, 1)}
	select {
	case p.s1out <- req:
	case <-p.closed:
		return errors.New("peer closed")
	case <-p.EOF:
		return errors.New("line closed")
	}
	select {
	case err := <-req.res:
		return err
	case <-p.EOF:
		// the line loop ended while it held the request: it may have written the block
		select {
		case err := <-req.res:
			return err
		default:
		}
		return errS1Unacked
	}
}
