package genx

import (
	"errors"
	"time"
)

// SECS-I (SEMI E4) side of the scripted peer: an independent reading of the block protocol,
// single-block messages only. The connection under test is the equipment (master); the peer is
// the host (slave: on ENQ contention it yields). Frames are exchanged with the rest of the
// harness in the same internal layout as HSMS frames ([len4][sid2][b2][b3][0][0][sys4][body]);
// sid is the device id.

const (
	chENQ = 0x05
	chEOT = 0x04
	chACK = 0x06
	chNAK = 0x15
)

const s1Wait = time.Second // generous line timeouts of the peer (the library's T1/T2 are much shorter)

type s1Req struct {
	wire []byte
	res  chan error
}

func e4Wire(f []byte) []byte {
	// f: internal frame; E4 header: R=0 (host to equipment), E-bit set, block number 1
	body := f[14:]
	w := make([]byte, 0, 13+len(body))
	w = append(w, byte(10+len(body)))
	w = append(w, f[4]&0x7F, f[5], f[6], f[7], 0x80, 1, f[10], f[11], f[12], f[13])
	w = append(w, body...)
	sum := 0
	for _, v := range w[1:] {
		sum += int(v)
	}
	return append(w, byte(sum>>8), byte(sum))
}

func (p *Peer) s1ReadByte(d time.Duration) (byte, bool) {
	select {
	case b, ok := <-p.s1in:
		return b, ok
	case <-time.After(d):
		return 0, false
	case <-p.closed:
		return 0, false
	}
}

func (p *Peer) s1Raw(b ...byte) bool {
	_ = p.Conn.SetWriteDeadline(time.Now().Add(5 * time.Second))
	_, err := p.Conn.Write(b)
	return err == nil
}

// s1Take runs the receiver half after the peer granted the line with EOT.
func (p *Peer) s1Take() {
	lb, ok := p.s1ReadByte(s1Wait)
	if !ok {
		return
	}
	n := int(lb)
	if n < 10 || n > 254 {
		p.s1Raw(chNAK)
		return
	}
	rest := make([]byte, 0, n+2)
	for len(rest) < n+2 {
		b, ok := p.s1ReadByte(s1Wait)
		if !ok {
			return
		}
		rest = append(rest, b)
	}
	sum := 0
	for _, v := range rest[:n] {
		sum += int(v)
	}
	if sum&0xFFFF != int(rest[n])<<8|int(rest[n+1]) {
		p.s1Raw(chNAK)
		return
	}
	if !p.s1Raw(chACK) {
		// the line died before the acknowledgement got through: by E4 the sender must treat the
		// block as not delivered, so the peer does not count it as received either
		return
	}
	h := rest[:10]
	if h[4]&0x80 == 0 { // multi-block messages are not used by this harness
		return
	}
	var sys [4]byte
	copy(sys[:], h[6:10])
	raw := string(rest[:n])
	if raw == p.s1last { // E4 9.4.2: a retransmission of the block just taken
		return
	}
	p.s1last = raw
	f := frame(uint16(h[0]&0x7F)<<8|uint16(h[1]), h[2], h[3], 0, 0, sys, rest[10:n])
	p.onData(f)
}

// errS1Unacked: the whole block was put on the line (the connection under test consumed every
// byte) but no ACK came back — it may well have accepted and dispatched the block.
var errS1Unacked = errors.New("block written, not acknowledged")

// s1Send transmits one block with the E4 handshake; as the slave it yields on contention.
func (p *Peer) s1Send(w []byte) error {
	wrote := false
	fail := func(e error) error {
		if wrote {
			return errS1Unacked
		}
		return e
	}
	for try := 0; try < 8; try++ {
		if !p.s1Raw(chENQ) {
			return fail(errors.New("line closed"))
		}
		granted, yielded := false, false
		dl := time.Now().Add(s1Wait)
		for !granted && !yielded {
			b, ok := p.s1ReadByte(time.Until(dl))
			if !ok {
				break
			}
			switch b {
			case chEOT:
				granted = true
			case chENQ:
				p.s1Raw(chEOT)
				p.s1Take()
				yielded = true
			}
		}
		if !granted {
			select {
			case <-p.closed:
				return fail(errors.New("peer closed"))
			default:
			}
			continue
		}
		if !p.s1Raw(w...) {
			return fail(errors.New("line closed"))
		}
		wrote = true
		b, ok := p.s1ReadByte(s1Wait)
		if ok && b == chACK {
			return nil
		}
		if !ok {
			return errS1Unacked
		}
	}
	return fail(errors.New("gave up"))
}

func (p *Peer) s1Loop() {
	defer func() {
		p.markDown()
		close(p.EOF)
	}()
	go func() {
		buf := make([]byte, 1024)
		for {
			n, err := p.Conn.Read(buf)
			for _, b := range buf[:n] {
				p.s1in <- b
			}
			if err != nil {
				close(p.s1in)
				return
			}
		}
	}()
	for {
		select {
		case b, ok := <-p.s1in:
			if !ok {
				return
			}
			if b == chENQ {
				if p.StopRead.Load() {
					continue // a stalled peer never grants the line: the sender runs out of retries
				}
				p.s1Raw(chEOT)
				p.s1Take()
			}
		case req := <-p.s1out:
			req.res <- p.s1Send(req.wire)
		case <-p.closed:
			return
		}
	}
}

// s1Write hands one internal frame to the line loop and waits for its ACK.
func (p *Peer) s1Write(f []byte) error {
	req := s1Req{wire: e4Wire(f), res: make(chan error, 1)}
	select {
	case p.s1out <- req:
	case <-p.closed:
		return errors.New("peer closed")
	case <-p.EOF:
		return errors.New("line closed")
	}
	select {
	case err := <-req.res:
		return err
	case <-p.EOF:
		// the line loop ended while it held the request: it may have written the block
		select {
		case err := <-req.res:
			return err
		default:
		}
		return errS1Unacked
	}
}
