package genx

import (
	"context"
	"net"
	"sync"
	"time"
)

// Passive HSMS-SS: the connection under test listens on a harness-owned listener (public
// WithListener) and the scripted peers connect to it. The listener can hand a connection to a
// pending Accept at three instants relative to the Close the library performs when it tears a
// listening generation down: just before it, from INSIDE Close, and after Close has returned.

// Race instants for Listener.ArmRace.
const (
	RaceBeforeClose = 1 // Accept returns the connection, then the harness closes at once
	RaceAtClose     = 2 // Accept returns the connection from inside the listener's Close
	RaceAfterClose  = 3 // Close returns, then the pending Accept still returns the connection
)

// Listener is the harness-owned net.Listener of one listening generation.
type Listener struct {
	env    *Env
	conns  chan net.Conn
	closed chan struct{}
	once   sync.Once
	mu     sync.Mutex
	mode   int
	race   net.Conn // handed out at the armed instant
}

func (l *Listener) Accept() (net.Conn, error) {
	select {
	case c := <-l.conns:
		return c, nil
	case <-l.closed:
		l.mu.Lock()
		c := l.race
		if l.mode == RaceAfterClose {
			l.race = nil
		} else {
			c = nil
		}
		l.mu.Unlock()
		if c != nil {
			return c, nil
		}
		return nil, net.ErrClosed
	}
}

func (l *Listener) Close() error {
	l.once.Do(func() {
		l.mu.Lock()
		c, at := l.race, l.mode == RaceAtClose
		if at {
			l.race = nil
		}
		l.mu.Unlock()
		if at && c != nil {
			// the pending Accept takes the connection BEFORE the listener reads as closed
			select {
			case l.conns <- c:
			case <-time.After(time.Second):
			}
		}
		close(l.closed)
	})
	return nil
}

func (l *Listener) Addr() net.Addr { return &net.TCPAddr{IP: net.IPv4(127, 0, 0, 1), Port: 5000} }

// listen is the ListenFunc handed to the library.
func (e *Env) listen(context.Context, string, string) (net.Listener, error) {
	l := &Listener{env: e, conns: make(chan net.Conn), closed: make(chan struct{})}
	e.mu.Lock()
	e.listeners = append(e.listeners, l)
	e.mu.Unlock()
	return l, nil
}

// Listener returns the newest listener the library asked for (nil if none yet).
func (e *Env) Listener() *Listener {
	e.mu.Lock()
	defer e.mu.Unlock()
	if len(e.listeners) == 0 {
		return nil
	}
	return e.listeners[len(e.listeners)-1]
}

// newPassivePeer creates the next generation's peer and the pipe; the library's end is returned.
func (e *Env) newPassivePeer() (*Peer, net.Conn) {
	n := int(e.dials.Load())
	a, b := net.Pipe()
	p := &Peer{Gen: n, Conn: b, env: e, EOF: make(chan struct{}), closed: make(chan struct{}), resume: make(chan struct{}, 1)}
	if e.OnGen != nil {
		e.OnGen(p)
	}
	e.mu.Lock()
	e.peers = append(e.peers, p)
	e.mu.Unlock()
	e.dials.Add(1)
	e.record(Event{Typ: 'U', G: n})
	go p.readLoop()
	return p, a
}

// Connect makes a new peer connect to the current listener (the pending Accept returns its
// connection) and, as the initiator, run the Select procedure.
func (e *Env) Connect(d time.Duration) *Peer {
	l := e.Listener()
	if l == nil {
		return nil
	}
	p, a := e.newPassivePeer()
	select {
	case l.conns <- a:
	case <-time.After(d):
		return nil
	}
	_ = p.write(frame(e.SessionID, 0, 0, 0, 1, [4]byte{0x70, 0, 0, byte(p.Gen)}, nil)) // Select.req
	dl := time.Now().Add(d)
	for p.CtrlSeen[2].Load() == 0 && time.Now().Before(dl) {
		time.Sleep(200 * time.Microsecond)
	}
	if p.CtrlSeen[2].Load() == 0 {
		return nil
	}
	p.Selected.Store(true)
	return p
}

// ArmRace prepares a peer whose connection the current listener hands to the library at the given
// instant relative to the listener's Close (see the Race* constants). For RaceBeforeClose the
// connection is handed over right away (the caller closes next).
func (e *Env) ArmRace(mode int, d time.Duration) *Peer {
	l := e.Listener()
	if l == nil {
		return nil
	}
	p, a := e.newPassivePeer()
	if mode == RaceBeforeClose {
		select {
		case l.conns <- a:
		case <-time.After(d):
			return nil
		}
		return p
	}
	l.mu.Lock()
	l.mode, l.race = mode, a
	l.mu.Unlock()
	return p
}
