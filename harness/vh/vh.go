// Package vh holds what every per-property harness shares: flags, the single PRNG all random
// choices derive from, the case-file writer and the JSON summary the check driver reads.
package vh

import (
	"bufio"
	"encoding/hex"
	"encoding/json"
	"flag"
	"fmt"
	"math/rand"
	"os"
	"sort"
	"strings"
)

// Ctx is one harness invocation.
type Ctx struct {
	Seed  int64
	N     int    // case budget
	Tier  string // quick | thorough
	Out   string // case file for the model driver
	Rng   *rand.Rand
	w     *bufio.Writer
	f     *os.File
	Sum   Summary
	dist  map[string]bool
	fails map[string]int
	Extra map[string]string
}

// Failure is an implementation-level oracle failure: the property itself, checked on the real
// code without reference to the model.
type Failure struct {
	What string `json:"what"`
	Case string `json:"case"`
}

// Summary is printed as one JSON object on the last stdout line.
type Summary struct {
	Evaluations        int            `json:"evaluations"`
	DistinctNontrivial int            `json:"distinct_nontrivial"`
	Histogram          map[string]int `json:"histogram"`
	OracleFailures     []Failure      `json:"oracle_failures"`
	Samples            []string       `json:"samples"`
	Notes              []string       `json:"notes,omitempty"`
}

// New parses the common flags: -seed -n -tier -out, plus any the caller registered before.
func New() *Ctx {
	c := &Ctx{dist: map[string]bool{}}
	flag.Int64Var(&c.Seed, "seed", 1, "PRNG seed")
	flag.IntVar(&c.N, "n", 1000, "case budget")
	flag.StringVar(&c.Tier, "tier", "quick", "quick|thorough")
	flag.StringVar(&c.Out, "out", "", "case file to write")
	flag.Parse()
	c.Rng = rand.New(rand.NewSource(c.Seed))
	c.Sum.Histogram = map[string]int{}
	if c.Out != "" {
		f, err := os.Create(c.Out)
		if err != nil {
			fmt.Fprintln(os.Stderr, "harness:", err)
			os.Exit(2)
		}
		c.f = f
		c.w = bufio.NewWriterSize(f, 1<<20)
	}
	return c
}

// Case writes one case line for the model driver and counts it. key identifies the case for the
// distinct count; nontrivial says whether it counts as non-trivial by the harness's rule.
func (c *Ctx) Case(line string, key string, nontrivial bool) {
	if c.dist == nil {
		c.dist = map[string]bool{}
	}
	c.Sum.Evaluations++
	if nontrivial && !c.dist[key] {
		c.dist[key] = true
		c.Sum.DistinctNontrivial++
	}
	if c.w != nil {
		c.w.WriteString(line)
		c.w.WriteByte('\n')
	}
	if len(c.Sum.Samples) < 5 && nontrivial {
		s := line
		if len(s) > 300 {
			s = s[:300] + "..."
		}
		c.Sum.Samples = append(c.Sum.Samples, s)
	}
}

// Merge folds the counts, samples, notes and failures of another context (used by harnesses that
// run scenarios concurrently with one private Ctx each) into c.
func (c *Ctx) Merge(o *Ctx) {
	c.Sum.Evaluations += o.Sum.Evaluations
	c.Sum.DistinctNontrivial += o.Sum.DistinctNontrivial
	for k, v := range o.Sum.Histogram {
		c.Sum.Histogram[k] += v
	}
	for _, s := range o.Sum.Samples {
		if len(c.Sum.Samples) < 8 {
			c.Sum.Samples = append(c.Sum.Samples, s)
		}
	}
	c.Sum.Notes = append(c.Sum.Notes, o.Sum.Notes...)
	for _, f := range o.Sum.OracleFailures {
		c.Fail(f.What, f.Case)
	}
}

// Count bumps a histogram bucket (input distribution, outcome kinds).
func (c *Ctx) Count(bucket string) { c.Sum.Histogram[bucket]++ }

// Fail records an implementation-level oracle failure.
func (c *Ctx) Fail(what, kase string) {
	// keep at most 5 cases per distinct failure description (so a frequent known finding can never
	// crowd a different violation out of the report) and 400 in total
	if c.fails == nil {
		c.fails = map[string]int{}
	}
	c.fails[what]++
	if c.fails[what] <= 5 && len(c.Sum.OracleFailures) < 400 {
		if len(kase) > 4000 {
			kase = kase[:4000] + "..."
		}
		c.Sum.OracleFailures = append(c.Sum.OracleFailures, Failure{What: what, Case: kase})
	}
}

// Note adds free text to the summary.
func (c *Ctx) Note(s string) { c.Sum.Notes = append(c.Sum.Notes, s) }

// Finish flushes the case file and prints the summary.
func (c *Ctx) Finish() {
	if c.w != nil {
		c.w.Flush()
		c.f.Close()
	}
	if c.Sum.OracleFailures == nil {
		c.Sum.OracleFailures = []Failure{}
	}
	if c.Sum.Samples == nil {
		c.Sum.Samples = []string{}
	}
	js, _ := json.Marshal(c.Sum)
	fmt.Println("SUMMARY " + string(js))
}

// Hex renders bytes for a case line ("-" for empty).
func Hex(b []byte) string {
	if len(b) == 0 {
		return "-"
	}
	return hex.EncodeToString(b)
}

// B01 renders a bool as 0/1.
func B01(b bool) string {
	if b {
		return "1"
	}
	return "0"
}

// SortedKeys returns the keys of m sorted.
func SortedKeys(m map[string]int) []string {
	ks := make([]string, 0, len(m))
	for k := range m {
		ks = append(ks, k)
	}
	sort.Strings(ks)
	return ks
}

// Join is strings.Join with a space.
func Join(parts ...string) string { return strings.Join(parts, " ") }
