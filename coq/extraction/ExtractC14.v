(* Extraction for the C14 correspondence driver. ExtrOcamlBasic only; Z/N stay datatypes. *)
From Coq Require Import Extraction ExtrOcamlBasic ZArith NArith.
From GoSecs Require Import Base.Decimal Sml.ErrPos Sml.Parser.
Extraction Language OCaml.
Extraction "c14_model.ml"
  Z.add Z.mul Z.opp Z.sub Z.div_eucl Z.of_N Z.to_N N.add N.mul N.div_eucl Z.eqb Z.ltb Z.leb Z.max
  blen new_parse_error run_parse run_parse_one outcome_of final_meters cfg_current cfg_repaired fuel_for_input.
