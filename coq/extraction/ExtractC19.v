(* Extraction for the C19 correspondence driver. ExtrOcamlBasic only; Z/N stay datatypes. *)
From Coq Require Import Extraction ExtrOcamlBasic ZArith NArith.
From GoSecs Require Import Gen.Gen Hsms.Linktest.
Extraction Language OCaml.
Extraction "c19_model.ml"
  Z.add Z.mul Z.opp Z.sub Z.div_eucl Z.of_N Z.to_N N.add N.mul N.div_eucl Z.eqb Z.ltb
  failure_step disconnect_recheck iter run
  Gen.hsmsss.linktestFailureStep Gen.hsmsss.linktestDisconnectRecheck.
