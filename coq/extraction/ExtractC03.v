(* Extraction for the C03 correspondence driver. ExtrOcamlBasic only; Z/N stay datatypes. *)
From Coq Require Import Extraction ExtrOcamlBasic ZArith NArith List.
From GoSecs Require Import Gen.Gen Gen.BridgeFrames Hsms.Header Hsms.Frame.
Extraction Language OCaml.
Extraction "c03_model.ml"
  Z.add Z.mul Z.opp Z.sub Z.div_eucl Z.of_N Z.to_N N.add N.mul N.div_eucl Z.eqb Z.ltb
  len be32 hdr_bytes hdr_split session_id stream_of wait_bit function_of msg_id msg_type msg_hdr msg_body
  new_data_message new_data_message_from_header
  new_select_req new_deselect_req new_separate_req new_linktest_req
  new_select_rsp new_deselect_rsp new_linktest_rsp new_reject_req_raw new_reject_req
  to_bytes frame_buffers decode_message decode_payload
  stamp_chain derive_build frame_cap repeat.
