(* Extraction for the C12 correspondence driver. ExtrOcamlBasic only; Z/N stay datatypes. *)
From Coq Require Import Extraction ExtrOcamlBasic ZArith NArith.
From GoSecs Require Import Alias.Heap Alias.Codec Alias.Once.
Extraction Language OCaml.
Extraction "c12_model.ml"
  Z.add Z.mul Z.opp Z.sub Z.div_eucl Z.of_N Z.to_N N.add N.mul N.div_eucl Z.eqb Z.ltb
  init step run obs obs_all is_owned cinit cstep crun
  oinit exec orun all_same.
