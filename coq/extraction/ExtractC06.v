(* Extraction for the C06 correspondence driver. ExtrOcamlBasic only; Z/N stay datatypes. *)
From Coq Require Import Extraction ExtrOcamlBasic ZArith NArith List.
From GoSecs Require Import Hsms.SendCore Hsms.SendCoreMon.
Extraction Language OCaml.
Extraction "c06_model.ml"
  Z.add Z.mul Z.opp Z.sub Z.div_eucl Z.of_N Z.to_N N.add N.mul N.div_eucl Z.eqb Z.ltb
  is_secondary key_of init exec run mon0 mon_upd mon_run chk_outcome chk_uniq chk_recip chk_C06 ok_C06
  chk_gate chk_declared chk_inbound chk_C07 ok_C07 frame_eqb.
