(* Extraction for the C18 correspondence driver and the e2e monitor. ExtrOcamlBasic only. *)
From Coq Require Import Extraction ExtrOcamlBasic ZArith NArith List.
From GoSecs Require Import Secs1.Line.
Extraction Language OCaml.
Extraction "c18_model.ml"
  Z.add Z.mul Z.opp Z.sub Z.div_eucl Z.of_N Z.to_N N.add N.mul N.div_eucl Z.eqb Z.ltb
  step run sys0 get ok_dir.
