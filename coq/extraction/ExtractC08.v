(* Extraction for the C08 correspondence driver. ExtrOcamlBasic only; Z/N stay datatypes. *)
From Coq Require Import Extraction ExtrOcamlBasic ZArith NArith.
From GoSecs Require Import Gen.Gen Hsms.Responder Hsms.ResponderSpec.
Extraction Language OCaml.
Extraction "c08_model.ml"
  Z.add Z.mul Z.opp Z.sub Z.div_eucl Z.of_N Z.to_N N.add N.mul N.div_eucl Z.eqb Z.ltb
  wire respond start run prun pstart pstep valid_stype selected
  spec_start spec_step spec_run classify
  Gen.hsms.IsValidSType.
