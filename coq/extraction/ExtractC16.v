(* Extraction for the C16 correspondence driver. ExtrOcamlBasic only; Z/N stay datatypes. *)
From Coq Require Import Extraction ExtrOcamlBasic ZArith NArith.
From GoSecs Require Import Gen.Gen Secs2.ConstructParse Secs2.Construct.
Extraction Language OCaml.
Extraction "c16_model.ml"
  Z.add Z.mul Z.opp Z.sub Z.div_eucl Z.of_N Z.to_N N.add N.mul N.div_eucl Z.eqb Z.ltb
  parse_int64 parse_uint64
  new_int new_uint new_float new_binary new_boolean new_ascii new_jis8 new_localized new_list
  error has_error equal equal_opt type_code size_of num_values bool_values own_err
  new_data_message build send clamp clampU clamp_f4 f64_narrow f32_widen f64_of_Z f64_nan
  Gen.secs2.clampInt64 Gen.secs2.clampUint64.
