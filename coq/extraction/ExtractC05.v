(* Extraction for the C05 correspondence driver. ExtrOcamlBasic only. *)
From Coq Require Import Extraction ExtrOcamlBasic ZArith NArith.
From GoSecs Require Import Gen.Gen Hsms.Supervisor.
Extraction Language OCaml.
Extraction "c05_model.ml"
  Z.add Z.mul Z.opp Z.sub Z.div_eucl Z.of_N Z.to_N N.add N.mul N.div_eucl Z.eqb Z.ltb
  init exec run mon_run mon0 ok_C05 ok_no_replay is_echo Gen.hsms.transition.
