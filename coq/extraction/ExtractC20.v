(* Extraction for the C20 correspondence driver. ExtrOcamlBasic only. *)
From Coq Require Import Extraction ExtrOcamlBasic ZArith NArith.
From GoSecs Require Import Hsms.Generations Hsms.Metrics.
Extraction Language OCaml.
Extraction "c20_model.ml"
  Z.add Z.mul Z.opp Z.sub Z.div_eucl Z.of_N Z.to_N N.add N.mul N.div_eucl Z.eqb Z.ltb
  init exec run mon9_0 mon9_step ok_C09 mon20_0 mon20_step mon20_run ok_C20 snap_ok.
