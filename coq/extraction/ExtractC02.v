(* Extraction for the C02 correspondence driver. ExtrOcamlBasic only; Z/N stay datatypes. *)
From Coq Require Import Extraction ExtrOcamlBasic ZArith NArith List.
From GoSecs Require Import Gen.Gen Base.BytesBE Secs2.Item Secs2.Encode Secs2.Decode Secs2.DecodeChk Secs2.DecodeCost.
Extraction Language OCaml.
Extraction "c02_model.ml"
  Z.add Z.mul Z.opp Z.sub Z.div_eucl Z.of_N Z.to_N N.add N.mul N.div_eucl Z.eqb Z.ltb Z.leb
  Z.of_nat length zlen
  depth size equal encode decode consumed chk_decode decode_cost cost_factor cost_offset
  Gen.secs2.MaxByteSize Gen.secs2.MaxListDepth Gen.secs2.slabChunkSizes.
