(* Extraction for the C04 correspondence driver. ExtrOcamlBasic only; Z/N stay datatypes. *)
From Coq Require Import Extraction ExtrOcamlBasic ZArith NArith List.
From GoSecs Require Import Gen.Gen Gen.BridgeFrames Hsms.Header Hsms.Frame Hsms.Reader.
Extraction Language OCaml.
Extraction "c04_model.ml"
  Z.add Z.mul Z.opp Z.sub Z.div_eucl Z.of_N Z.to_N N.add N.mul N.div_eucl Z.eqb Z.ltb
  len hdr_bytes hdr_split to_bytes
  decode_message decode_payload decode_owned
  decode_message_chk decode_payload_chk decode_owned_chk wf_frameb wf_payloadb
  family_of crun f_holders f_decodes
  run spec_events stream_of_segs has_t8_drop
  frame_cap Gen.hsms.IsValidSType.
