(* Extraction for the C11 correspondence driver. ExtrOcamlBasic only; Z/N stay datatypes. *)
From Coq Require Import Extraction ExtrOcamlBasic ZArith NArith.
From GoSecs Require Import Hsms.Backoff Hsms.Lifecycle.
Extraction Language OCaml.
Extraction "c11_model.ml"
  Z.add Z.mul Z.opp Z.sub Z.div_eucl Z.of_N Z.to_N N.add N.mul N.div_eucl Z.eqb Z.ltb Z.leb
  Backoff_next_delay_bits Backoff_next_delay_old_bits Backoff_f64_of_bits Backoff_sleeps_from Backoff_mult_ok Backoff_next_delay
  ok_C11 ok_C10 lc_mon_run.
