(* Extraction for the C01 correspondence driver. ExtrOcamlBasic only; Z/N stay datatypes. *)
From Coq Require Import Extraction ExtrOcamlBasic ZArith NArith List.
From GoSecs Require Import Gen.Gen Base.BytesBE Secs2.Item Secs2.Encode Secs2.Decode Secs2.Raw.
Extraction Language OCaml.
Extraction "c01_model.ml"
  Z.add Z.mul Z.opp Z.sub Z.div_eucl Z.of_N Z.to_N N.add N.mul N.div_eucl Z.eqb Z.ltb Z.leb
  Z.of_nat length zlen header_len
  wf ctor_ok depth size equal encode encoded_len append_to to_bytes decode
  erase encode_c encoded_len_c decode_c wf_c
  Gen.secs2.headerLen Gen.secs2.MaxByteSize Gen.secs2.MaxListDepth.
