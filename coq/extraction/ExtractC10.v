(* Extraction for the C10 correspondence driver. ExtrOcamlBasic only; Z/N stay datatypes. *)
From Coq Require Import Extraction ExtrOcamlBasic ZArith NArith.
From GoSecs Require Import Hsms.Lifecycle.
Extraction Language OCaml.
Extraction "c10_model.ml"
  Z.add Z.mul Z.opp Z.sub Z.div_eucl Z.of_N Z.to_N N.add N.mul N.div_eucl Z.eqb Z.ltb
  Lifecycle_init Lifecycle_exec Lifecycle_run Lifecycle_observe ok_C10 ok_C11 lc_mon_run
  Lifecycle_goroutines Lifecycle_sockets Lifecycle_loops.
