(* Extraction for the C17 correspondence driver. ExtrOcamlBasic only; Z/N stay datatypes. *)
From Coq Require Import Extraction ExtrOcamlBasic ZArith NArith List.
From GoSecs Require Import Secs1.Block Secs1.Assembler Secs1.RecvStream.
Extraction Language OCaml.
Extraction "c17_model.ml"
  Z.add Z.mul Z.opp Z.sub Z.div_eucl Z.of_N Z.to_N N.add N.mul N.div_eucl Z.eqb Z.ltb
  build_header msg_header hdr_num hdr_ebit split_body split_frame append_block parse_block
  assemble_frame wire_of_blocks accept astate0 spec_step sstate0 deliveries_of rstep rrun.
