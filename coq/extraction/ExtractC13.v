(* Extraction for the C13 correspondence driver. ExtrOcamlBasic only; Z/N stay datatypes. *)
From Coq Require Import Extraction ExtrOcamlBasic ZArith NArith.
From GoSecs Require Import Base.Decimal Base.Utf8 Sml.Syntax Sml.Encoder Sml.StrictAscii Sml.StrictParser.
Extraction Language OCaml.
Extraction "c13_model.ml"
  Z.add Z.mul Z.opp Z.sub Z.div_eucl Z.of_N Z.to_N N.add N.mul N.div_eucl Z.eqb Z.ltb
  encode_msg encode parse_strict parse_ascii_strict write_strict_ascii write_strict_ascii_fixed
  parse_int parse_uint fields bool_token.
