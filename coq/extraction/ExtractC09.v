(* Extraction for the C09 correspondence driver. ExtrOcamlBasic only. *)
From Coq Require Import Extraction ExtrOcamlBasic ZArith NArith.
From GoSecs Require Import Hsms.Generations.
Extraction Language OCaml.
Extraction "c09_model.ml"
  Z.add Z.mul Z.opp Z.sub Z.div_eucl Z.of_N Z.to_N N.add N.mul N.div_eucl Z.eqb Z.ltb
  init exec run mon9_0 mon9_step mon9_run ok_C09.
