(* Extraction for the C15 correspondence driver. ExtrOcamlBasic only; Z/N stay datatypes. *)
From Coq Require Import Extraction ExtrOcamlBasic ZArith NArith.
From GoSecs Require Import Base.Decimal Sml.Syntax Sml.Encoder Sml.ToSml.
Extraction Language OCaml.
Extraction "c15_model.ml"
  Z.add Z.mul Z.opp Z.sub Z.div_eucl Z.of_N Z.to_N N.add N.mul N.div_eucl Z.eqb Z.ltb
  to_sml encode encode_default default_opts parse_int parse_uint format_int format_uint.
