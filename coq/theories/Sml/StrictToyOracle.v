(** A small concrete instance of the strconv oracles that satisfies every law the C13 theorems
    assume — so the laws are jointly satisfiable and the theorems are not vacuous. (Floats print
    as the decimal of their bit pattern; nothing about real floating point is claimed here.) *)
From Coq Require Import ZArith List Lia Bool ZifyBool.
From GoSecs Require Import Base.Decimal Base.DecimalProofs Base.Utf8 Sml.Syntax Sml.Encoder Sml.StrictParser
  Sml.StrictRoundtripDefs Sml.StrictRoundtrip.
Import ListNotations.
Open Scope Z_scope.

Definition toy_ffmt (w : fwidth) (v : Z) : bytes := format_uint v.
Definition toy_fparse (w : fwidth) (tok : bytes) : option Z :=
  match parse_uint false 64 tok with
  | NOk v => if fdom w v then Some v else None
  | _ => None
  end.
Definition toy_quote (s : bytes) : bytes := c_dq :: s ++ [c_dq].
Definition toy_quote_plain (s : bytes) : bool := true.
Definition toy_narrow (v : Z) : Z := v.

Lemma fdom_range w v : fdom w v = true -> 0 <= v < 2 ^ 64.
Proof. unfold fdom. lia. Qed.

Lemma toy_ffmt_good : forall w v, fdom w v = true -> good_tok (toy_ffmt w v) = true.
Proof.
  intros w v H. apply fdom_range in H. unfold toy_ffmt.
  destruct (format_uint_spec v ltac:(lia)) as (ds & E & NE & F & _). rewrite E.
  destruct ds as [|d ds']; [contradiction|]. cbn [good_tok].
  apply forallb_forall. intros x Hx. rewrite Forall_forall in F. specialize (F x Hx).
  unfold digit_lt in F. unfold vtok_char, in_range. lia.
Qed.

Lemma toy_roundtrip : forall w v, fdom w v = true ->
  exists v', toy_fparse w (toy_ffmt w v) = Some v' /\ feq toy_narrow w v v'.
Proof.
  intros w v H. exists v. unfold toy_fparse, toy_ffmt.
  rewrite parse_uint_format by (pose proof (fdom_range w v H); lia). rewrite H. split; [reflexivity|].
  unfold feq. destruct (is_nan64 v); [left; tauto|right]. repeat split. destruct w; reflexivity.
Qed.

Lemma toy_quote_law : forall s, toy_quote_plain s = true -> toy_quote s = c_dq :: s ++ [c_dq].
Proof. reflexivity. Qed.

Lemma toy_fparse_dom : forall w tok v, toy_fparse w tok = Some v -> fdom w v = true.
Proof.
  intros w tok v. unfold toy_fparse. destruct (parse_uint false 64 tok) as [x| |]; try discriminate.
  destruct (fdom w x) eqn:E; [|discriminate]. intros H; inversion H; subst. exact E.
Qed.
