(** Model of sml/parser.go on the STRICT path (sml.ParseStrict / Parser{strict:true}.Parse):
    message loop, header scan (optional name, optional quotes, S/F codes, W), comments, item type
    and size syntax, lists, parseASCIIStrict (Sml/StrictAscii.v), JIS-8 and localized-string
    scanners (Go's rune iteration), value lists via strings.Fields (Unicode spaces) with
    ParseInt/ParseUint base 0, boolean spelling via strings.ToUpper, binary range, and the
    message construction checks of hsms.NewDataMessage / the secs2 size limits.

    Oracle (code outside go-secs): [fparse w tok] = strconv.ParseFloat(tok, 32|64) as the bit
    pattern of the returned float64, [None] on any error.

    The parser state is the pair (pos, data) with data = input[pos:]; [input] is a parameter.
    Fuel: [parse_item] is structurally recursive on a nesting fuel, the child loop of a list on a
    second fuel; exhaustion is the distinct result [PFuel]. *)
From Coq Require Import ZArith List Bool.
From GoSecs Require Import Base.Decimal Base.Utf8 Sml.Syntax Sml.StrictAscii.
Import ListNotations.
Open Scope Z_scope.

Inductive perror :=
| PE_NoTerm | PE_Stream | PE_Code | PE_StreamRange | PE_Function
| PE_ExpectLt | PE_ItemType | PE_ItemSize | PE_MinMax
| PE_ListEof | PE_ListChild
| PE_Depth           (* list nesting beyond secs2.MaxListDepth *)
| PE_Ascii (e : perr)
| PE_JQuote | PE_JUnclosed | PE_WQuote | PE_WUnclosed
| PE_Bool | PE_Binary | PE_BinaryRange | PE_Float | PE_Int | PE_Uint
| PE_Dot
| PE_Construct.     (* not a *ParseError: hsms.NewDataMessage refused (item error, W on even function) *)

Record pst := { pos : Z; data : bytes }.

Inductive pres (A : Type) :=
| POk (a : A) (st : pst)
| PErr (e : perror) (off : Z)
| PFuel.
Arguments POk {A}. Arguments PErr {A}. Arguments PFuel {A}.

(** secs2.MaxListDepth (bridge to the generated constant: Gen/BridgeStrictParser.v) *)
Definition max_list_depth : Z := 64.

Inductive itype := TList | TAscii | TJis8 | TLocal | TBoolean | TBinary
                 | TFloat (w : fwidth) | TInt (w : width) | TUint (w : width).

(** ---------- string helpers (package strings) ---------- *)
Fixpoint index_byte_from (c : Z) (d : bytes) (i : Z) : option Z :=
  match d with [] => None | b :: t => if b =? c then Some i else index_byte_from c t (i + 1) end.
Definition index_byte (c : Z) (d : bytes) : option Z := index_byte_from c d 0.

Fixpoint index_any2_from (c1 c2 : Z) (d : bytes) (i : Z) : option Z :=
  match d with
  | [] => None
  | b :: t => if (b =? c1) || (b =? c2) then Some i else index_any2_from c1 c2 t (i + 1)
  end.

(** strings.Index(d, [c1;c2]) *)
Fixpoint index_pair_from (c1 c2 : Z) (d : bytes) (i : Z) : option Z :=
  match d with
  | b :: ((b' :: _) as t) => if (b =? c1) && (b' =? c2) then Some i else index_pair_from c1 c2 t (i + 1)
  | _ => None
  end.

Definition is_sml_space (b : Z) : bool := (b =? 32) || (b =? 9) || (b =? 13) || (b =? 10).

Fixpoint drop_spaces (d : bytes) (n : Z) : Z * bytes :=
  match d with
  | b :: t => if is_sml_space b then drop_spaces t (n + 1) else (n, d)
  | [] => (n, [])
  end.

Fixpoint span_digits (d : bytes) : bytes * bytes :=
  match d with
  | b :: t => if is_digit b then let '(ds, r) := span_digits t in (b :: ds, r) else ([], d)
  | [] => ([], [])
  end.

Definition upper_byte (b : Z) : Z := if (97 <=? b) && (b <=? 122) then b - 32 else b.

(** unicode.IsSpace *)
Definition is_unicode_space (r : Z) : bool :=
  in_range 9 13 r || (r =? 32) || (r =? 133) || (r =? 160) || (r =? 5760) || in_range 8192 8202 r
  || (r =? 8232) || (r =? 8233) || (r =? 8239) || (r =? 8287) || (r =? 12288).

(** strings.Fields: maximal runs of non-space runes. [skip]: continuation bytes of the current
    rune still to pass; [keep]: whether that rune belongs to a field; [cur]: current field,
    reversed; [acc]: fields so far, reversed. *)
Fixpoint fields_loop (d : bytes) (skip : nat) (keep : bool) (cur : bytes) (acc : list bytes) : list bytes :=
  match d with
  | [] => rev (match cur with [] => acc | _ => rev cur :: acc end)
  | b :: t =>
      match skip with
      | S k => fields_loop t k keep (if keep then b :: cur else cur) acc
      | O =>
          let '(r, w) := decode_rune d in
          if is_unicode_space r
          then fields_loop t (pred w) false [] (match cur with [] => acc | _ => rev cur :: acc end)
          else fields_loop t (pred w) true (b :: cur) acc
      end
  end.
Definition fields (d : bytes) : list bytes := fields_loop d O false [] [].

(** strings.ToUpper of a value token, as the rune sequence of the result. Only the ASCII letters
    and the two code points whose upper case is an ASCII letter (U+017F, U+0131) can produce an
    ASCII letter; every other rune is kept (it can never equal one). *)
Definition upper_rune (r : Z) : Z :=
  if (97 <=? r) && (r <=? 122) then r - 32
  else if r =? 383 then 83 else if r =? 305 then 73 else r.

Fixpoint upper_runes (d : bytes) (skip : nat) : list Z :=
  match d with
  | [] => []
  | _ :: t =>
      match skip with
      | S k => upper_runes t k
      | O => let '(r, w) := decode_rune d in upper_rune r :: upper_runes t (pred w)
      end
  end.

Fixpoint zlist_eqb (a b : list Z) : bool :=
  match a, b with
  | [], [] => true
  | x :: a', y :: b' => (x =? y) && zlist_eqb a' b'
  | _, _ => false
  end.

Definition bool_token (tok : bytes) : option bool :=
  let u := upper_runes tok O in
  if zlist_eqb u [84; 82; 85; 69] || zlist_eqb u [84] then Some true
  else if zlist_eqb u [70; 65; 76; 83; 69] || zlist_eqb u [70] then Some false
  else None.

(** a scanner shared by parseJIS8 and parseLocalizedStr: "for i, ch := range p.data" looking for
    the quote (remember its offset) and for a closing bracket directly after the last quote.
    Returns (lastQuotePos, offset of the bracket). *)
Fixpoint quoted_scan (q : Z) (d : bytes) (i : Z) (skip : nat) (lastq : Z) : option (Z * Z) :=
  match d with
  | [] => None
  | _ :: t =>
      match skip with
      | S k => quoted_scan q t (i + 1) k lastq
      | O =>
          let '(ch, w) := decode_rune d in
          if ch =? q then quoted_scan q t (i + 1) (pred w) i
          else if ch =? c_gt then
            (if lastq <? i - 1 then quoted_scan q t (i + 1) (pred w) lastq else Some (lastq, i))
          else quoted_scan q t (i + 1) (pred w) lastq
      end
  end.

(** secs2 size limits: an item that breaks one carries a deferred error, and
    hsms.NewDataMessage refuses a body with an error anywhere in the tree *)
Fixpoint item_size_ok (x : item) : bool :=
  match x with
  | IEmpty => true
  | IList cs => (Z.of_nat (length cs) <=? max_byte_size) && forallb item_size_ok cs
  | IAscii s | IJis8 s => blen s <=? max_byte_size
  | ILocal s => blen s + 2 <=? max_byte_size
  | IBinary bs => blen bs <=? max_byte_size
  | IBoolean vs => Z.of_nat (length vs) <=? max_byte_size
  | IInt w vs | IUint w vs => Z.of_nat (length vs) * wbytes w <=? max_byte_size
  | IFloat w vs => Z.of_nat (length vs) * fbytes w <=? max_byte_size
  end.

Fixpoint map_opt {A B} (f : A -> option B) (l : list A) : option (list B) :=
  match l with
  | [] => Some []
  | x :: t => match f x with
              | Some y => match map_opt f t with Some ys => Some (y :: ys) | None => None end
              | None => None
              end
  end.

Section Parser.
  Variable fparse : fwidth -> bytes -> option Z.
  Variable input : bytes.

  Definition ilen : Z := blen input.

  Definition forward (n : Z) (st : pst) : pst :=
    if pos st + n <=? ilen
    then {| pos := pos st + n; data := skipn (Z.to_nat n) (data st) |}
    else st.

  Definition backward (n : Z) (st : pst) : pst :=
    if pos st - n >=? 0
    then {| pos := pos st - n; data := skipn (Z.to_nat (pos st - n)) input |}
    else st.

  (** skipSpace: moves to the first non-space byte; if there is none it does NOT move and
      reports false *)
  Definition skip_space (st : pst) : pst * bool :=
    let '(n, r) := drop_spaces (data st) 0 in
    match r with
    | [] => (st, false)
    | _ => (forward n st, true)
    end.

  (** skipComment: spaces, then at most ONE comment *)
  Definition skip_comment (st : pst) : pst :=
    let '(st1, ok) := skip_space st in
    if negb ok then st1 else
    match data st1 with
    | a :: b :: _ =>
        if (a =? 47) && (b =? 47) then
          match index_byte 10 (data st1) with Some i => forward (i + 1) st1 | None => st1 end
        else if (a =? 47) && (b =? 42) then
          match index_pair_from 42 47 (data st1) 0 with Some i => forward (i + 2) st1 | None => st1 end
        else st1
    | _ => st1
    end.

  Definition eof : Z := -1.
  Definition peek_rune (st : pst) : Z := match data st with [] => eof | b :: _ => b end.

  Definition peek_ns (st : pst) : pst * Z :=
    let '(st1, ok) := skip_space st in (st1, if ok then peek_rune st1 else eof).

  Definition next_rune (st : pst) : pst * Z :=
    if pos st >=? ilen then (st, eof)
    else match data st with
         | [] => (st, eof)
         | b :: _ => (forward 1 st, b)
         end.

  Definition next_ns (st : pst) : pst * Z :=
    let '(st1, ok) := skip_space st in if ok then next_rune st1 else (st1, eof).

  (** nextCode (bits = 8) / nextItemSize (bits = 32, then the MaxInt32 bound): the digits up to
      the first non-digit, which must exist. ASCII digits are one-byte runes, so the rune loop
      stops at the first byte that is not a digit. *)
  Definition next_number (bits : Z) (e : perror) (st : pst) : pres Z :=
    if pos st >=? ilen then PErr e (pos st) else
    let '(ds, r) := span_digits (data st) in
    match r with
    | [] => PErr e (pos st)
    | _ =>
        match parse_uint false bits ds with
        | NOk v => if (bits =? 32) && (v >? 2147483647) then PErr e (pos st)
                   else POk v (forward (blen ds) st)
        | _ => PErr e (pos st)
        end
    end.

  Definition is_quote_rune (ch : Z) : bool := (ch =? c_sq) || (ch =? c_dq).

  (** "skip single or double quote": ch := peekNonSpaceRune(); if quote then forward(1) *)
  Definition header_quote (st : pst) : pst :=
    let '(st, ch) := peek_ns st in
    if is_quote_rune ch then forward 1 st else st.

  (** the end of parseHSMSHeader: optional closing quote, optional W *)
  Definition header_tail (st : pst) : pst * bool :=
    let st := header_quote st in
    let '(st, ch) := peek_ns st in
    if ch =? 87 then (forward 1 st, true) else (st, false).

  (** parseHSMSHeader: (stream, function, wbit) *)
  Definition parse_header (st : pst) : pres (Z * Z * bool) :=
    match index_any2_from 10 46 (data st) 0 with
    | None => PErr PE_NoTerm (pos st)
    | Some first_term =>
        let first_lt := match index_byte c_lt (data st) with Some i => i | None => -1 end in
        let i := Z.max first_term first_lt in
        let st := match index_byte 58 (firstn (Z.to_nat i) (data st)) with
                  | Some midx => forward (midx + 1) st
                  | None => st
                  end in
        let st := header_quote st in
        let '(st, r) := next_rune st in
        if negb (r =? 83) then PErr PE_Stream (pos st) else
        match next_number 8 PE_Code st with
        | PErr e o => PErr e o
        | PFuel => PFuel
        | POk sv st =>
            if sv >? 127 then PErr PE_StreamRange (pos st) else
            let '(st, r) := next_rune st in
            if negb (r =? 70) then PErr PE_Function (pos st) else
            match next_number 8 PE_Code st with
            | PErr e o => PErr e o
            | PFuel => PFuel
            | POk fv st =>
                let '(st, wb) := header_tail st in POk (sv, fv, wb) st
            end
        end
    end.

  (** parseItemType *)
  Definition width_of_digit (c : Z) : option width :=
    if c =? 49 then Some W1 else if c =? 50 then Some W2 else if c =? 52 then Some W4
    else if c =? 56 then Some W8 else None.

  Definition parse_item_type (st : pst) : option (itype * pst) :=
    let st := fst (skip_space st) in
    match data st with
    | [] => None
    | b0 :: t =>
        let c0 := upper_byte b0 in
        let second := match t with b1 :: _ => Some (upper_byte b1) | [] => None end in
        if c0 =? 76 then Some (TList, forward 1 st)
        else if c0 =? 65 then Some (TAscii, forward 1 st)
        else if c0 =? 74 then Some (TJis8, forward 1 st)
        else if c0 =? 87 then Some (TLocal, forward 1 st)
        else if c0 =? 66 then
          match second with
          | None => Some (TBinary, forward 1 st)
          | Some c1 =>
              if c1 =? 79 then
                (if (7 <=? blen (data st)) && zlist_eqb (map upper_byte (firstn 7 (data st))) s_BOOLEAN
                 then Some (TBoolean, forward 7 st)
                 else Some (TBinary, forward 1 st))
              else if (c1 =? 32) || (c1 =? c_lb) then Some (TBinary, forward 1 st)
              else None
          end
        else if c0 =? 70 then
          match second with
          | Some c1 => if c1 =? 52 then Some (TFloat F4, forward 2 st)
                       else if c1 =? 56 then Some (TFloat F8, forward 2 st) else None
          | None => None
          end
        else if (c0 =? 73) || (c0 =? 85) then
          match second with
          | Some c1 =>
              match width_of_digit c1 with
              | Some w => Some (if c0 =? 73 then TInt w else TUint w, forward 2 st)
              | None => None
              end
          | None => None
          end
        else None
    end.

  (** parseItemSize; the sizes only feed capacity hints on the strict path, so only success and
      the new position matter *)
  Definition parse_item_size (st : pst) : pres unit :=
    let '(st, ch) := next_ns st in
    if negb (ch =? c_lb) then POk tt (backward 1 st) else
    let '(st, ch) := peek_ns st in
    let r :=
      if ch =? c_dot then
        match next_number 32 PE_ItemSize (forward 2 st) with
        | POk mx st => POk (0, mx) st
        | PErr e o => PErr e o
        | PFuel => PFuel
        end
      else
        match next_number 32 PE_ItemSize st with
        | PErr e o => PErr e o
        | PFuel => PFuel
        | POk mn st =>
            let '(st, ch) := peek_ns st in
            if ch =? c_dot then
              let st := forward 2 st in
              if peek_rune st =? c_rb then POk (mn, mn) st
              else match next_number 32 PE_ItemSize st with
                   | POk mx st => POk (mn, mx) st
                   | PErr e o => PErr e o
                   | PFuel => PFuel
                   end
            else POk (mn, mn) st
        end in
    match r with
    | PErr e o => PErr e o
    | PFuel => PFuel
    | POk (mn, mx) st =>
        let '(st, ch) := next_ns st in
        if negb (ch =? c_rb) then PErr PE_ItemSize (pos st)
        else if mn >? mx then PErr PE_MinMax (pos st)
        else POk tt st
    end.

  (** getItemValueStrings *)
  Definition value_strings (st : pst) : list bytes * pst :=
    match index_byte c_gt (data st) with
    | None => ([[]], st)
    | Some i => (fields (firstn (Z.to_nat i) (data st)), forward (i + 1) st)
    end.

  Definition parse_values {A} (tok : bytes -> option A) (e : perror) (mk : list A -> item) (st : pst) : pres item :=
    let start := pos st in
    let '(vals, st) := value_strings st in
    match map_opt tok vals with
    | Some vs => POk (mk vs) st
    | None => PErr e start
    end.

  Definition int_token (w : width) (tok : bytes) : option Z :=
    match parse_int true (wbits w) tok with NOk v => Some v | _ => None end.
  Definition uint_token (w : width) (tok : bytes) : option Z :=
    match parse_uint true (wbits w) tok with NOk v => Some v | _ => None end.
  (** binary: ParseInt(val, 0, 0), then [0, 256) *)
  Definition binary_token (tok : bytes) : option Z :=
    match parse_int true 64 tok with
    | NOk v => if (v <? 0) || (v >=? 256) then None else Some v
    | _ => None
    end.

  (** parseBinary distinguishes "not a number" from "out of range" only in the message text *)

  (** parseJIS8 / parseLocalizedStr *)
  Definition parse_quoted (mk : bytes -> item) (eq eu : perror) (st : pst) : pres item :=
    let '(st, ch) := next_ns st in
    if ch =? c_gt then POk (mk []) st
    else if negb (is_quote_rune ch) then PErr eq (pos st)
    else match quoted_scan ch (data st) 0 O 0 with
         | Some (lastq, i) => POk (mk (firstn (Z.to_nat lastq) (data st))) (forward (i + 1) st)
         | None => PErr eu (pos st)
         end.

  (** parseASCIIStrict + NewASCIIItem *)
  Definition parse_ascii (st : pst) : pres item :=
    match parse_ascii_strict (data st) with
    | AOk s n _ => POk (IAscii s) (forward n st)
    | AErr e => PErr (PE_Ascii e) (pos st)
    end.

  (** parseList's loop, over a parser for the children *)
  Fixpoint parse_list_loop (pitem : pst -> pres item) (n : nat) (st : pst) (acc : list item) : pres item :=
    match n with
    | O => PFuel
    | S n' =>
        let '(st, ch) := peek_ns st in
        if ch =? c_lt then
          match pitem st with
          | POk x st => parse_list_loop pitem n' st (x :: acc)
          | PErr e o => PErr e o
          | PFuel => PFuel
          end
        else if ch =? c_gt then POk (IList (rev acc)) (forward 1 st)
        else if ch =? eof then PErr PE_ListEof (pos st)
        else PErr PE_ListChild (pos st)
    end.

  (** the type switch of parseItem, over a parser for list children. [d] is the value of the
      parser's [depth] field on entry: the number of parseList frames active in the message being
      parsed. The code keeps it in the Parser (reset to 0 by parseMsg, ++ on entry of parseList,
      -- when the list's closing bracket is consumed); every error aborts the whole parse, so the
      field always equals the number of enclosing lists and is threaded here as an argument.
      parseList: depth++; if depth > secs2.MaxListDepth, a ParseError at the current position. *)
  Definition parse_body (pitem : Z -> pst -> pres item) (ty : itype) (d : Z) (st : pst) : pres item :=
    match ty with
    | TList =>
        if d + 1 >? max_list_depth then PErr PE_Depth (pos st)
        else parse_list_loop (pitem (d + 1)) (S (length (data st))) st []
    | TAscii => parse_ascii st
    | TJis8 => parse_quoted IJis8 PE_JQuote PE_JUnclosed st
    | TLocal => parse_quoted ILocal PE_WQuote PE_WUnclosed st
    | TBoolean => parse_values bool_token PE_Bool IBoolean st
    | TBinary => parse_values binary_token PE_Binary IBinary st
    | TFloat w => parse_values (fparse w) PE_Float (IFloat w) st
    | TInt w => parse_values (int_token w) PE_Int (IInt w) st
    | TUint w => parse_values (uint_token w) PE_Uint (IUint w) st
    end.

  (** parseItem *)
  Fixpoint parse_item (fuel : nat) (d : Z) (st : pst) : pres item :=
    match fuel with
    | O => PFuel
    | S fuel' =>
        let '(st, ch) := next_ns st in
        if negb (ch =? c_lt) then PErr PE_ExpectLt (pos st) else
        match parse_item_type st with
        | None => PErr PE_ItemType (pos (fst (skip_space st)))
        | Some (ty, st) =>
            match parse_item_size st with
            | PErr e o => PErr e o
            | PFuel => PFuel
            | POk _ st =>
                match parse_body (parse_item fuel') ty d (skip_comment st) with
                | POk x st => POk x (skip_comment st)
                | e => e
                end
            end
        end
    end.

  (** parseText *)
  Definition parse_text (fuel : nat) (st : pst) : pres item :=
    let st := skip_comment st in
    let '(st, ch) := peek_ns st in
    if ch =? c_dot then POk IEmpty st else parse_item fuel 0 st.

  (** parseMsg(false): None = no more messages *)
  Definition parse_msg (fuel : nat) (st : pst) : pres (option msg) :=
    let st := skip_comment st in
    let '(st, ch) := peek_ns st in
    if ch =? eof then POk None st else
    match parse_header st with
    | PErr e o => PErr e o
    | PFuel => PFuel
    | POk (sv, fv, wb) st =>
        match parse_text fuel st with
        | PErr e o => PErr e o
        | PFuel => PFuel
        | POk body st =>
            let '(st, ch) := next_ns st in
            if negb (ch =? c_dot) then PErr PE_Dot (pos st)
            else if negb (item_size_ok body) || (wb && (fv mod 2 =? 0)) then PErr PE_Construct (pos st)
            else POk (Some {| m_stream := sv; m_function := fv; m_wbit := wb; m_body := body |}) st
        end
    end.

  (** Parser.Parse *)
  Fixpoint parse_msgs (n : nat) (fuel : nat) (st : pst) (acc : list msg) : pres (list msg) :=
    match n with
    | O => PFuel
    | S n' =>
        match parse_msg fuel st with
        | PErr e o => PErr e o
        | PFuel => PFuel
        | POk None st => POk (rev acc) st
        | POk (Some m) st => parse_msgs n' fuel st (m :: acc)
        end
    end.
End Parser.

(** sml.ParseStrict(input) *)
Definition parse_strict (fparse : fwidth -> bytes -> option Z) (input : bytes) : pres (list msg) :=
  parse_msgs fparse input (S (length input)) (S (length input)) {| pos := 0; data := input |} [].
