(** C13, second half: every text the strict parser accepts re-encodes and re-parses to an equal
    message, under the statement's restriction on JIS-8 / localized text (and, for the encoder as
    it is, on ASCII items holding the closing bracket: finding C13-ascii-gt). *)
From Coq Require Import ZArith List Lia Bool ZifyBool.
From GoSecs Require Import Base.Decimal Base.DecimalProofs Base.Utf8 Sml.Syntax Sml.Encoder
  Sml.StrictAscii Sml.StrictAsciiProofs Sml.StrictParser Sml.StrictRoundtripDefs
  Sml.StrictRoundtripMsg Sml.StrictRoundtripFinal Sml.StrictParserOutput.
Import ListNotations.
Open Scope Z_scope.

Section Reparse.
  Variable egt : bool.
  Variable quote_plain : bytes -> bool.

  (** the restriction of the statement: JIS-8 / localized text without the closing bracket, the
      latter left alone by strconv.Quote (both follow from "free of quote, backslash, angle
      bracket and control characters" for text Quote does not escape); without the repair, ASCII
      items without the closing bracket *)
  Fixpoint restricted (x : item) : bool :=
    match x with
    | IList cs => forallb restricted cs
    | IAscii s => egt || no_gt s
    | IJis8 s => no_gt s
    | ILocal s => no_gt s && quote_plain s
    | _ => true
    end.

  Lemma dom_from_out : forall x, wf_out x = true -> item_size_ok x = true -> restricted x = true ->
    dom_item egt quote_plain x = true.
  Proof.
    induction x as [|cs IH|s|s|s|bs|vs|w vs|w vs|w vs] using item_ind'; cbn [wf_out item_size_ok restricted dom_item];
      intros W S R; try discriminate; try lia.
    apply andb_true_iff in S. destruct S as [S1 S2]. apply andb_true_iff. split; [exact S1|].
    apply forallb_forall. intros x Hx. rewrite Forall_forall in IH. rewrite forallb_forall in W, S2, R.
    apply IH; auto.
  Qed.

  Lemma dom_msg_from_out m : msg_out_ok m -> restricted (m_body m) = true -> dom_msg egt quote_plain m = true.
  Proof.
    intros (Hs & Hf & Hw & Hz & Hb & Hd) R. unfold dom_msg.
    assert (B : is_empty (m_body m) || dom_item egt quote_plain (m_body m) = true).
    { destruct Hb as [E|Wb]; [rewrite E; reflexivity|]. rewrite (dom_from_out _ Wb Hz R). apply orb_true_r. }
    rewrite B.
    assert (M : 0 <= m_function m mod 2 < 2) by (apply Z.mod_pos_bound; lia).
    destruct (m_wbit m); cbn [negb orb andb] in *; lia.
  Qed.
End Reparse.

Section ReparseThm.
  Variable ffmt : fwidth -> Z -> bytes.
  Variable quote : bytes -> bytes.
  Variable fparse : fwidth -> bytes -> option Z.
  Variable quote_plain : bytes -> bool.
  Variable narrow32 : Z -> Z.
  Hypothesis ffmt_good : forall w v, fdom w v = true -> good_tok (ffmt w v) = true.
  Hypothesis float_roundtrip : forall w v, fdom w v = true ->
    exists v', fparse w (ffmt w v) = Some v' /\ feq narrow32 w v v'.
  Hypothesis quote_law : forall s, quote_plain s = true -> quote s = c_dq :: s ++ [c_dq].
  (** ParseFloat(_, 32) returns values a float32 holds (or an error) *)
  Hypothesis fparse_dom : forall w tok v, fparse w tok = Some v -> fdom w v = true.

  (** the encoder as it is *)
  Theorem parse_encode_parse_current : forall o t ms st,
    opts_ok o = true -> bytes_ok t = true -> parse_strict fparse t = POk ms st ->
    forall m, In m ms -> restricted true quote_plain (m_body m) = true ->
    exists m' st', parse_strict fparse (encode_msg ffmt quote o m) = POk [m'] st' /\ msg_eqv narrow32 m m'.
  Proof.
    intros o t ms st Ho Ht P m Hm R.
    pose proof (parse_strict_out fparse fparse_dom t ms st Ht P) as F. rewrite Forall_forall in F.
    apply (encode_parse_current ffmt quote fparse quote_plain narrow32 ffmt_good float_roundtrip quote_law o m Ho).
    apply dom_msg_from_out; [apply F; exact Hm|exact R].
  Qed.

  (** the repaired encoder: no restriction on ASCII items *)
  Theorem parse_encode_parse_fixed : forall o t ms st,
    opts_ok o = true -> bytes_ok t = true -> parse_strict fparse t = POk ms st ->
    forall m, In m ms -> restricted true quote_plain (m_body m) = true ->
    exists m' st', parse_strict fparse (encode_msg_w write_strict_ascii_fixed ffmt quote o m) = POk [m'] st'
                   /\ msg_eqv narrow32 m m'.
  Proof.
    intros o t ms st Ho Ht P m Hm R.
    pose proof (parse_strict_out fparse fparse_dom t ms st Ht P) as F. rewrite Forall_forall in F.
    apply (encode_parse_fixed ffmt quote fparse quote_plain narrow32 ffmt_good float_roundtrip quote_law o m Ho).
    apply dom_msg_from_out; [apply F; exact Hm|exact R].
  Qed.
End ReparseThm.
