(** The statements about whole runs of the parser model, for every configuration, both modes,
    every input and every ParseFloat oracle (derived from Sml/ParserProofs.v):

    [run_total]      never out of fuel with [fuel_for_input]; a panic only without the quote repair
    [run_position]   every syntax error carries a consistent position
    [run_valid]      every returned message passed the NewDataMessage checks
    [run_resources]  calls <= 40 len + 40, steps <= 160 (len+1)^2, allocations <= len + 1; with the
                     hint cap every allocation <= 16 len bytes (sum <= 16 len (len + 1)); with the
                     depth cap d the recursion depth <= d + 1

    for Parse ([parse_with]) and for ParseMessage / ParseHeader ([parse_one_with]). *)
From Coq Require Import ZArith List Bool Lia.
From GoSecs Require Import Base.Decimal Sml.ErrPos Sml.ErrPosProofs Sml.Parser Sml.ParserProofs.
Import ListNotations.
Open Scope Z_scope.

Definition parse_one_with (cf : cfg) (pf : Z -> bytes -> numres) (fuel : nat) (strict header_only : bool) (s : bytes) : res msg :=
  run_parse_one cf strict s (blen s) pf fuel header_only.

Lemma fuel_for_input_ok s : 2 * blen s + 2 <= Z.of_nat (fuel_for_input s).
Proof. unfold fuel_for_input, blen. lia. Qed.

(** the final-state facts in closed form *)
Definition meters_ok (cf : cfg) (len : Z) (m : meters) : Prop :=
  m_calls m <= 40 * len + 40 /\
  0 <= m_steps m <= 160 * (len + 1) * (len + 1) /\
  m_allocs m <= len + 1 /\
  (c_cap_hint cf = true -> m_alloc_max m <= 16 * len /\ m_alloc_sum m <= 16 * len * (len + 1)) /\
  (forall d, c_depth_cap cf = Some d -> m_depth_max m <= d + 1).

Lemma final_ok_meters cf s st' :
  cap_ok cf -> final_ok cf (blen s) (init_state s) st' -> meters_ok cf (blen s) (mt st').
Proof.
  intros Hc (F1 & F2 & F3). pose proof (blen_nonneg s) as Hn.
  specialize (F3 (minv_init cf s (blen s) eq_refl Hc)).
  unfold calls, allocs in F1, F2. cbn [init_state mt pos meters0 m_calls m_allocs] in F1, F2.
  destruct F3 as (M1 & M2 & M3 & M4 & M5 & M6). unfold cost_bound, alloc_bound in *.
  unfold meters_ok. split; [lia|]. split; [nia|]. split; [lia|]. split; [|exact M6].
  intros Hcap. destruct (M4 Hcap) as [A1 A2]. split; [lia|nia].
Qed.

Section Main.
Variable pf : Z -> bytes -> numres.

(** sml.Parse / sml.ParseStrict / Parser.Parse *)
Lemma run_parse_post cf strict s fuel : cap_ok cf -> 2 * blen s + 2 <= Z.of_nat fuel ->
  post cf s (parse_with cf pf fuel strict s)
       (fun ms st' => meters_ok cf (blen s) (mt st') /\ Forall msg_valid ms)
       (fun st' => meters_ok cf (blen s) (mt st')).
Proof.
  intros Hc Hf. unfold parse_with, run_parse. pose proof (blen_nonneg s) as Hn.
  eapply post_weaken.
  - apply (parse_loop_spec cf s (blen s) eq_refl strict pf fuel ltac:(lia) fuel [] (init_state s)
             (wf_init s) (dpre_init cf s Hc)); [cbn [init_state pos]; lia|constructor].
  - cbn beta. intros ms st' [F V]. split; [apply final_ok_meters; assumption|exact V].
  - cbn beta. intros st' F. apply final_ok_meters; assumption.
Qed.

(** Parser.ParseMessage / Parser.ParseHeader *)
Lemma run_parse_one_post cf strict ho s fuel : cap_ok cf -> 2 * blen s + 2 <= Z.of_nat fuel ->
  post cf s (parse_one_with cf pf fuel strict ho s)
       (fun m st' => meters_ok cf (blen s) (mt st') /\ msg_valid m)
       (fun st' => meters_ok cf (blen s) (mt st')).
Proof.
  intros Hc Hf. unfold parse_one_with, run_parse_one. pose proof (blen_nonneg s) as Hn.
  pose proof (parse_msg_spec cf s (blen s) eq_refl strict pf fuel ho (init_state s) (wf_init s) (dpre_init cf s Hc) ltac:(lia)) as HM.
  assert (Hfin : forall c st', step cf s (blen s) c (init_state s) st' -> c <= 40 -> final_ok cf (blen s) (init_state s) st').
  { intros c st' [S1 S2 S3 S4 S5 S6] Hle. pose proof (wf_le s (blen s) eq_refl _ S1) as Hp.
    cbn [init_state pos] in *. split; [|split; [|exact S6]]; cbn [init_state pos]; lia. }
  destruct (parse_msg cf strict s (blen s) pf fuel ho (init_state s)) as [m st'|e st'|st'|st']; cbn [post] in HM |- *.
  - destruct HM as (Hs & _ & Hv). destruct m as [m|]; cbn [post].
    + split; [apply final_ok_meters; [exact Hc|apply (Hfin 17); [exact Hs|lia]]|apply Hv; reflexivity].
    + split; [exact I|]. apply final_ok_meters; [exact Hc|apply (Hfin 17); [exact Hs|lia]].
  - destruct HM as [He [B1 B2 B3]]. split; [exact He|]. apply final_ok_meters; [exact Hc|].
    cbn [init_state pos] in *. split; [|split; [|exact B3]]; cbn [init_state pos]; lia.
  - exact HM.
  - exact HM.
Qed.

(** ---------- the four statements, for Parse ---------- *)
Theorem run_total cf strict s : cap_ok cf ->
  outcome_of (parse_with cf pf (fuel_for_input s) strict s) <> OutOfFuel /\
  (c_quote_fix cf = true -> outcome_of (parse_with cf pf (fuel_for_input s) strict s) <> Panic).
Proof.
  intros Hc. pose proof (run_parse_post cf strict s _ Hc (fuel_for_input_ok s)) as H.
  destruct (parse_with cf pf (fuel_for_input s) strict s); cbn [post outcome_of] in *;
    (split; [discriminate || contradiction|intros Hq; try discriminate]).
  rewrite H in Hq. discriminate.
Qed.

Theorem run_position cf strict s t off line col : cap_ok cf ->
  outcome_of (parse_with cf pf (fuel_for_input s) strict s) = Err (ESyntax t off line col) ->
  pos_ok s off line col.
Proof.
  intros Hc. pose proof (run_parse_post cf strict s _ Hc (fuel_for_input_ok s)) as H.
  destruct (parse_with cf pf (fuel_for_input s) strict s); cbn [post outcome_of] in *; intros E; try discriminate.
  inversion E. subst e. exact (proj1 H).
Qed.

Theorem run_valid cf strict s ms : cap_ok cf ->
  outcome_of (parse_with cf pf (fuel_for_input s) strict s) = Ok ms -> Forall msg_valid ms.
Proof.
  intros Hc. pose proof (run_parse_post cf strict s _ Hc (fuel_for_input_ok s)) as H.
  destruct (parse_with cf pf (fuel_for_input s) strict s); cbn [post outcome_of] in *; intros E; try discriminate.
  inversion E. subst a. exact (proj2 H).
Qed.

Theorem run_resources cf strict s : cap_ok cf ->
  outcome_of (parse_with cf pf (fuel_for_input s) strict s) <> Panic ->
  meters_ok cf (blen s) (final_meters (parse_with cf pf (fuel_for_input s) strict s)).
Proof.
  intros Hc. pose proof (run_parse_post cf strict s _ Hc (fuel_for_input_ok s)) as H.
  destruct (parse_with cf pf (fuel_for_input s) strict s); cbn [post outcome_of final_meters] in *; intros E.
  - exact (proj1 H).
  - exact (proj2 H).
  - contradiction E; reflexivity.
  - contradiction.
Qed.

(** ---------- the same for ParseMessage / ParseHeader ---------- *)
Theorem one_total cf strict ho s : cap_ok cf ->
  outcome_of (parse_one_with cf pf (fuel_for_input s) strict ho s) <> OutOfFuel /\
  (c_quote_fix cf = true -> outcome_of (parse_one_with cf pf (fuel_for_input s) strict ho s) <> Panic).
Proof.
  intros Hc. pose proof (run_parse_one_post cf strict ho s _ Hc (fuel_for_input_ok s)) as H.
  destruct (parse_one_with cf pf (fuel_for_input s) strict ho s); cbn [post outcome_of] in *;
    (split; [discriminate || contradiction|intros Hq; try discriminate]).
  rewrite H in Hq. discriminate.
Qed.

Theorem one_position cf strict ho s t off line col : cap_ok cf ->
  outcome_of (parse_one_with cf pf (fuel_for_input s) strict ho s) = Err (ESyntax t off line col) ->
  pos_ok s off line col.
Proof.
  intros Hc. pose proof (run_parse_one_post cf strict ho s _ Hc (fuel_for_input_ok s)) as H.
  destruct (parse_one_with cf pf (fuel_for_input s) strict ho s); cbn [post outcome_of] in *; intros E; try discriminate.
  inversion E. subst e. exact (proj1 H).
Qed.

Theorem one_valid cf strict ho s m : cap_ok cf ->
  outcome_of (parse_one_with cf pf (fuel_for_input s) strict ho s) = Ok m -> msg_valid m.
Proof.
  intros Hc. pose proof (run_parse_one_post cf strict ho s _ Hc (fuel_for_input_ok s)) as H.
  destruct (parse_one_with cf pf (fuel_for_input s) strict ho s); cbn [post outcome_of] in *; intros E; try discriminate.
  inversion E. subst a. exact (proj2 H).
Qed.

Theorem one_resources cf strict ho s : cap_ok cf ->
  outcome_of (parse_one_with cf pf (fuel_for_input s) strict ho s) <> Panic ->
  meters_ok cf (blen s) (final_meters (parse_one_with cf pf (fuel_for_input s) strict ho s)).
Proof.
  intros Hc. pose proof (run_parse_one_post cf strict ho s _ Hc (fuel_for_input_ok s)) as H.
  destruct (parse_one_with cf pf (fuel_for_input s) strict ho s); cbn [post outcome_of final_meters] in *; intros E.
  - exact (proj1 H).
  - exact (proj2 H).
  - contradiction E; reflexivity.
  - contradiction.
Qed.

End Main.

Lemma cap_ok_current : cap_ok cfg_current.
Proof. intros d H. discriminate. Qed.
Lemma cap_ok_repaired : cap_ok cfg_repaired.
Proof. intros d H. inversion H. unfold max_list_depth. lia. Qed.
