(** C13, message level: the strict parser reads back what the strict encoder writes, for every
    message of the statement's grammar and every option combination — by induction over the body
    with the nesting level, the surrounding whitespace and the following text generalised. *)
From Coq Require Import ZArith List Lia Bool ZifyBool.
From GoSecs Require Import Base.Decimal Base.DecimalProofs Base.Utf8 Sml.Syntax Sml.Encoder Sml.ToSml
  Sml.ToSmlProofs Sml.StrictAscii Sml.StrictAsciiProofs Sml.StrictParser Sml.StrictParserLemmas
  Sml.StrictUtf8Proofs Sml.StrictRoundtripDefs Sml.StrictRoundtripLeaves Sml.StrictRoundtripItems.
Import ListNotations.
Open Scope Z_scope.

(** a character that may follow an item: not a space and not the start of a comment *)
Definition follow (c : Z) : Prop := is_sml_space c = false /\ c <> 47.

Lemma map_opt_map {A B} (f : A -> bytes) (g : bytes -> option B) (h : A -> B) vs :
  (forall v, In v vs -> g (f v) = Some (h v)) -> map_opt g (map f vs) = Some (map h vs).
Proof.
  induction vs as [|v vs IH]; intros H; [reflexivity|].
  cbn [map map_opt]. rewrite H by (left; reflexivity).
  rewrite IH by (intros x Hx; apply H; right; exact Hx). reflexivity.
Qed.

Lemma map_id {A} (l : list A) : map (fun x => x) l = l.
Proof. induction l; cbn; congruence. Qed.

Section Roundtrip.
  Variable egt : bool.
  Variable ffmt : fwidth -> Z -> bytes.
  Variable quote : bytes -> bytes.
  Variable fparse : fwidth -> bytes -> option Z.
  Variable quote_plain : bytes -> bool.
  Variable narrow32 : Z -> Z.

  (** the laws assumed of Go's strconv (validated by the harness on every generated value) *)
  Hypothesis ffmt_good : forall w v, fdom w v = true -> good_tok (ffmt w v) = true.
  Hypothesis float_roundtrip : forall w v, fdom w v = true ->
    exists v', fparse w (ffmt w v) = Some v' /\ feq narrow32 w v v'.
  Hypothesis quote_law : forall s, quote_plain s = true -> quote s = c_dq :: s ++ [c_dq].

  Notation wsa := (write_strict_ascii_gen egt).
  Notation body := (enc_body wsa ffmt quote).
  Notation eqv := (item_eqv narrow32).

  Variable o : enc_opts.
  Hypothesis Ho : opts_ok o = true.

  Variable input : bytes.

  Notation pitem := (parse_item fparse input).

  (** what "the parser reads item x back" means at one place of the input *)
  Definition reads_back (x : item) : Prop :=
    forall fuel dp level pre ws ws' c rest',
      (depth x < fuel)%nat -> dp + Z.of_nat (depth x) <= max_list_depth ->
      Forall is_ws ws -> Forall is_ws ws' -> follow c ->
      input = pre ++ ws ++ body o level x ++ ws' ++ c :: rest' ->
      exists x' q,
        pitem fuel dp (mkst pre (ws ++ body o level x ++ ws' ++ c :: rest')) = POk x' (mkst q (c :: rest'))
        /\ input = q ++ c :: rest' /\ eqv x x'.

  (** the frame of every sized item: bracket, type, size; then the body parser; then skipComment *)
  Lemma item_frame ty n B fuel dp pre ws :
    input = pre ++ ws ++ c_lt :: type_chars ty ++ c_lb :: format_int n ++ c_rb :: B ->
    Forall is_ws ws -> 0 <= n <= max_byte_size ->
    pitem (S fuel) dp (mkst pre (ws ++ c_lt :: type_chars ty ++ c_lb :: format_int n ++ c_rb :: B)) =
    match parse_body fparse input (pitem fuel) ty dp
            (skip_comment input (mkst (pre ++ ws ++ c_lt :: type_chars ty ++ c_lb :: format_int n ++ [c_rb]) B)) with
    | POk x st => POk x (skip_comment input st)
    | e => e
    end.
  Proof.
    intros Hin Fws Hn. cbn [parse_item].
    rewrite next_ns_ws by (try exact Hin; try exact Fws; reflexivity).
    rewrite Z.eqb_refl. cbn [negb].
    assert (Hin2 : input = (pre ++ ws ++ [c_lt]) ++ type_chars ty ++ c_lb :: format_int n ++ c_rb :: B).
    { lsolve Hin. }
    rewrite (parse_item_type_ok input ty _ _ Hin2).
    assert (Hin3 : input = ((pre ++ ws ++ [c_lt]) ++ type_chars ty) ++ c_lb :: format_int n ++ c_rb :: B).
    { lsolve Hin2. }
    rewrite (parse_item_size_ok input _ n B Hin3 Hn).
    replace (((pre ++ ws ++ [c_lt]) ++ type_chars ty) ++ c_lb :: format_int n ++ [c_rb])
      with (pre ++ ws ++ c_lt :: type_chars ty ++ c_lb :: format_int n ++ [c_rb])
      by (lnorm; reflexivity).
    reflexivity.
  Qed.

  (** after an item: skipComment moves over the whitespace to the follower *)
  Lemma after_item q ws' c rest' : input = q ++ ws' ++ c :: rest' -> Forall is_ws ws' -> follow c ->
    skip_comment input (mkst q (ws' ++ c :: rest')) = mkst (q ++ ws') (c :: rest')
    /\ input = (q ++ ws') ++ c :: rest'.
  Proof.
    intros Hin F [NS N47]. split; [apply skip_comment_ws; assumption|].
    rewrite Hin, <- app_assoc. reflexivity.
  Qed.

  (** a leaf whose values are space-separated tokens *)
  Lemma value_leaf {A} ty (tok : bytes -> option A) e (mk : list A -> item) n ts vs
        fuel dp pre ws ws' c rest' :
    (forall pi d st, parse_body fparse input pi ty d st = parse_values input tok e mk st) ->
    forallb good_tok ts = true -> map_opt tok ts = Some vs -> 0 <= n <= max_byte_size ->
    Forall is_ws ws -> Forall is_ws ws' -> follow c ->
    input = pre ++ ws ++ (c_lt :: type_chars ty ++ c_lb :: format_int n ++ c_rb ::
                          flat_map (fun x => c_sp :: x) ts ++ [c_gt]) ++ ws' ++ c :: rest' ->
    exists q,
      pitem (S fuel) dp (mkst pre (ws ++ (c_lt :: type_chars ty ++ c_lb :: format_int n ++ c_rb ::
                          flat_map (fun x => c_sp :: x) ts ++ [c_gt]) ++ ws' ++ c :: rest'))
      = POk (mk vs) (mkst q (c :: rest')) /\ input = q ++ c :: rest'.
  Proof.
    intros Hbody G M Hn Fws Fws' Fc Hin.
    assert (Shape : forall X : bytes,
      (c_lt :: type_chars ty ++ c_lb :: format_int n ++ c_rb :: flat_map (fun x => c_sp :: x) ts ++ [c_gt]) ++ X
      = c_lt :: type_chars ty ++ c_lb :: format_int n ++ c_rb :: (flat_map (fun x => c_sp :: x) ts ++ c_gt :: X)).
    { intros X. lnorm. reflexivity. }
    rewrite Shape in *.
    rewrite (item_frame ty n _ fuel dp pre ws Hin Fws Hn).
    set (P := pre ++ ws ++ c_lt :: type_chars ty ++ c_lb :: format_int n ++ [c_rb]).
    assert (HinP : input = P ++ flat_map (fun x => c_sp :: x) ts ++ c_gt :: ws' ++ c :: rest').
    { subst P. lsolve Hin. }
    destruct (skip_comment_values input P ts _ HinP G) as (p' & S1 & Hin1).
    rewrite S1. rewrite Hbody.
    rewrite (parse_values_ok input tok e mk p' ts _ vs Hin1 G M).
    assert (Hin2 : input = (p' ++ join_sp ts ++ [c_gt]) ++ ws' ++ c :: rest').
    { lsolve Hin1. }
    destruct (after_item _ ws' c rest' Hin2 Fws' Fc) as [S2 Hin3].
    rewrite S2. eexists. split; [reflexivity|exact Hin3].
  Qed.

  (** ---------- shapes of the encoder output ---------- *)
  Lemma storage_shape {A} (tag : bytes) (tok : A -> bytes) (z : A) vs :
    encode_storage tag tok (store z vs)
    = c_lt :: tag ++ c_lb :: format_int (Z.of_nat (length vs)) ++ c_rb ::
      flat_map (fun x => c_sp :: x) (map tok vs) ++ [c_gt].
  Proof.
    unfold encode_storage. rewrite store_size, store_iter. rewrite flat_map_map. lnorm. reflexivity.
  Qed.

  Lemma bytes_ok_Forall s : bytes_ok s = true -> Forall is_byte s.
  Proof.
    unfold bytes_ok. intros H. apply Forall_forall. intros x Hx.
    rewrite forallb_forall in H. specialize (H x Hx). unfold byte_ok in H. unfold is_byte. lia.
  Qed.

  Lemma no_gt_spec s : no_gt s = true -> ~ In c_gt s.
  Proof.
    unfold no_gt. intros H I. apply negb_true_iff in H.
    assert (existsb (Z.eqb c_gt) s = true) by (apply existsb_exists; exists c_gt; split; [exact I|apply Z.eqb_refl]).
    congruence.
  Qed.

  Lemma int_char_vtok c : int_char c -> vtok_char c = true.
  Proof. unfold int_char, vtok_char, in_range. lia. Qed.

  Lemma format_int_good v : good_tok (format_int v) = true.
  Proof.
    pose proof (format_int_nonempty v) as NE. pose proof (format_int_chars v) as F.
    destruct (format_int v) as [|c t]; [contradiction|]. cbn [good_tok].
    apply forallb_forall. intros x Hx. apply int_char_vtok. rewrite Forall_forall in F. apply F. exact Hx.
  Qed.

  Lemma format_uint_good v : 0 <= v -> good_tok (format_uint v) = true.
  Proof. intros H. rewrite <- format_int_nonneg by exact H. apply format_int_good. Qed.

  Lemma forallb_map_true {A B} (f : A -> B) (g : B -> bool) l :
    (forall x, In x l -> g (f x) = true) -> forallb g (map f l) = true.
  Proof.
    intros H. apply forallb_forall. intros y Hy. apply in_map_iff in Hy.
    destruct Hy as (x & <- & Hx). apply H. exact Hx.
  Qed.

  Lemma len_bound (n k : Z) : 0 <= n -> 1 <= k -> n * k <= max_byte_size -> 0 <= n <= max_byte_size.
  Proof. intros. nia. Qed.

  Lemma tok_hex_good b : 0 <= b < 256 -> good_tok (tok_hex b) = true.
  Proof.
    intros H. unfold tok_hex, format_hex2. cbn [good_tok forallb].
    assert (H1 : 0 <= b / 16 < 16) by (split; [apply Z.div_pos; lia|apply Z.div_lt_upper_bound; lia]).
    assert (H2 : 0 <= b mod 16 < 16) by (apply Z.mod_pos_bound; lia).
    pose proof (hex_digit_range _ H1). pose proof (hex_digit_range _ H2).
    unfold vtok_char, in_range. lia.
  Qed.

  Lemma format_bin_good b : 0 <= b -> good_tok (48 :: 98 :: format_bin b) = true.
  Proof.
    intros H. cbn [good_tok forallb]. apply andb_true_iff. split; [reflexivity|].
    apply andb_true_iff. split; [reflexivity|].
    unfold format_bin.
    destruct (digits_fuel_spec 2 ltac:(lia) (Z.to_nat (Z.log2 b)) b [] (fuel_for_ok b H)) as (ds & E & _ & F & _).
    unfold fuel_for. rewrite E, app_nil_r. apply forallb_forall. intros x Hx.
    rewrite Forall_forall in F. specialize (F x Hx). unfold digit_lt in F. unfold vtok_char, in_range. lia.
  Qed.

  (** ---------- the leaves ---------- *)
  Lemma fuel_pos x fuel : (depth x < fuel)%nat -> exists f, fuel = S f.
  Proof. destruct fuel; [lia|]. intros _. eexists. reflexivity. Qed.

  Lemma reads_int w vs : dom_item egt quote_plain (IInt w vs) = true -> reads_back (IInt w vs).
  Proof.
    intros D. cbn [dom_item] in D. apply andb_true_iff in D. destruct D as [D1 D2].
    intros fuel dp level pre ws ws' c rest' Hf Hdp Fws Fws' Fc Hin.
    destruct (fuel_pos _ _ Hf) as (f & ->).
    cbn [enc_body encode_item_w] in *. unfold encode_int in *. rewrite storage_shape in *.
    change (73 :: format_int (wbytes w)) with (type_chars (TInt w)) in *.
    destruct (value_leaf (TInt w) (int_token w) PE_Int (IInt w) (Z.of_nat (length vs)) (map format_int vs) vs
                f dp pre ws ws' c rest') as (q & R & Hq); try assumption.
    - reflexivity.
    - apply forallb_map_true. intros; apply format_int_good.
    - rewrite (map_opt_map format_int (int_token w) (fun v => v)); [rewrite map_id; reflexivity|].
      intros v Hv. unfold int_token. rewrite forallb_forall in D2. specialize (D2 v Hv). unfold int_in in D2.
      rewrite parse_int_format; [reflexivity|destruct w; cbv; discriminate|lia].
    - apply (len_bound _ (wbytes w)); [lia|destruct w; cbv; discriminate|lia].
    - exists (IInt w vs), q. split; [exact R|]. split; [exact Hq|constructor].
  Qed.

  Lemma reads_uint w vs : dom_item egt quote_plain (IUint w vs) = true -> reads_back (IUint w vs).
  Proof.
    intros D. cbn [dom_item] in D. apply andb_true_iff in D. destruct D as [D1 D2].
    intros fuel dp level pre ws ws' c rest' Hf Hdp Fws Fws' Fc Hin.
    destruct (fuel_pos _ _ Hf) as (f & ->).
    cbn [enc_body encode_item_w] in *. unfold encode_uint in *. rewrite storage_shape in *.
    change (85 :: format_int (wbytes w)) with (type_chars (TUint w)) in *.
    destruct (value_leaf (TUint w) (uint_token w) PE_Uint (IUint w) (Z.of_nat (length vs)) (map format_uint vs) vs
                f dp pre ws ws' c rest') as (q & R & Hq); try assumption.
    - reflexivity.
    - apply forallb_map_true. intros v Hv. apply format_uint_good.
      rewrite forallb_forall in D2. specialize (D2 v Hv). unfold uint_in in D2. lia.
    - rewrite (map_opt_map format_uint (uint_token w) (fun v => v)); [rewrite map_id; reflexivity|].
      intros v Hv. unfold uint_token. rewrite forallb_forall in D2. specialize (D2 v Hv). unfold uint_in in D2.
      rewrite parse_uint_format; [reflexivity|destruct w; cbv; discriminate|lia].
    - apply (len_bound _ (wbytes w)); [lia|destruct w; cbv; discriminate|lia].
    - exists (IUint w vs), q. split; [exact R|]. split; [exact Hq|constructor].
  Qed.

  Lemma reads_boolean vs : dom_item egt quote_plain (IBoolean vs) = true -> reads_back (IBoolean vs).
  Proof.
    intros D. cbn [dom_item] in D.
    intros fuel dp level pre ws ws' c rest' Hf Hdp Fws Fws' Fc Hin.
    destruct (fuel_pos _ _ Hf) as (f & ->).
    cbn [enc_body encode_item_w] in *. unfold encode_boolean in *. rewrite storage_shape in *.
    change s_BOOLEAN with (type_chars TBoolean) in *.
    destruct (value_leaf TBoolean bool_token PE_Bool IBoolean (Z.of_nat (length vs))
                (map (fun v : bool => if v then s_True else s_False) vs) vs
                f dp pre ws ws' c rest') as (q & R & Hq); try assumption.
    - reflexivity.
    - apply forallb_map_true. intros [|] _; reflexivity.
    - rewrite (map_opt_map (fun v : bool => if v then s_True else s_False) bool_token (fun v => v)); [rewrite map_id; reflexivity|].
      intros [|] _; reflexivity.
    - lia.
    - exists (IBoolean vs), q. split; [exact R|]. split; [exact Hq|constructor].
  Qed.

  Lemma reads_binary bs : dom_item egt quote_plain (IBinary bs) = true -> reads_back (IBinary bs).
  Proof.
    intros D. cbn [dom_item] in D. apply andb_true_iff in D. destruct D as [D1 D2].
    pose proof (bytes_ok_Forall _ D1) as FB. rewrite Forall_forall in FB.
    intros fuel dp level pre ws ws' c rest' Hf Hdp Fws Fws' Fc Hin.
    destruct (fuel_pos _ _ Hf) as (f & ->).
    cbn [enc_body encode_item_w] in *. unfold encode_binary in *.
    set (tk := fun b => if eo_binary_literal o then 48 :: 98 :: format_bin b else tok_hex b).
    assert (Sh : [c_lt; 66; c_lb] ++ format_int (blen bs) ++ [c_rb]
                 ++ flat_map (fun b => if eo_binary_literal o then [c_sp; 48; 98] ++ format_bin b
                                       else [c_sp; 48; 120] ++ format_hex2 b) bs ++ [c_gt]
                 = c_lt :: type_chars TBinary ++ c_lb :: format_int (Z.of_nat (length bs)) ++ c_rb ::
                   flat_map (fun x => c_sp :: x) (map tk bs) ++ [c_gt]).
    { rewrite flat_map_map.
      rewrite (flat_map_ext (fun b => if eo_binary_literal o then [c_sp; 48; 98] ++ format_bin b
                                      else [c_sp; 48; 120] ++ format_hex2 b) (fun x => c_sp :: tk x))
        by (intros b; subst tk; cbv beta; destruct (eo_binary_literal o); reflexivity).
      unfold blen. cbn [type_chars]. lnorm. reflexivity. }
    rewrite Sh in *.
    destruct (value_leaf TBinary binary_token PE_Binary IBinary (Z.of_nat (length bs)) (map tk bs) bs
                f dp pre ws ws' c rest') as (q & R & Hq); try assumption.
    - reflexivity.
    - apply forallb_map_true. intros b Hb. specialize (FB b Hb). unfold is_byte in FB. subst tk. cbv beta.
      destruct (eo_binary_literal o); [apply format_bin_good; lia|apply tok_hex_good; exact FB].
    - rewrite (map_opt_map tk binary_token (fun v => v)); [rewrite map_id; reflexivity|].
      intros b Hb. specialize (FB b Hb). unfold is_byte in FB. subst tk. cbv beta. unfold binary_token.
      destruct (eo_binary_literal o).
      + fold (tok_bin b). rewrite parse_int_tok_bin by exact FB. replace ((b <? 0) || (b >=? 256)) with false by lia. reflexivity.
      + rewrite parse_int_tok_hex by exact FB. replace ((b <? 0) || (b >=? 256)) with false by lia. reflexivity.
    - unfold blen in D2. lia.
    - exists (IBinary bs), q. split; [exact R|]. split; [exact Hq|constructor].
  Qed.

  Lemma floats_back w vs : forallb (fdom w) vs = true ->
    exists vs', map_opt (fparse w) (map (ffmt w) vs) = Some vs' /\ Forall2 (feq narrow32 w) vs vs'.
  Proof.
    induction vs as [|v vs IH]; intros F.
    - exists []. split; [reflexivity|constructor].
    - cbn [forallb] in F. apply andb_true_iff in F. destruct F as [Fv Fvs].
      destruct (IH Fvs) as (vs' & M & E). destruct (float_roundtrip w v Fv) as (v' & P & Ev).
      exists (v' :: vs'). split; [cbn [map map_opt]; rewrite P, M; reflexivity|constructor; assumption].
  Qed.

  Lemma reads_float w vs : dom_item egt quote_plain (IFloat w vs) = true -> reads_back (IFloat w vs).
  Proof.
    intros D. cbn [dom_item] in D. apply andb_true_iff in D. destruct D as [D1 D2].
    intros fuel dp level pre ws ws' c rest' Hf Hdp Fws Fws' Fc Hin.
    destruct (fuel_pos _ _ Hf) as (f & ->).
    cbn [enc_body encode_item_w] in *. unfold encode_float in *. rewrite storage_shape in *.
    change (70 :: format_int (fbytes w)) with (type_chars (TFloat w)) in *.
    destruct (floats_back w vs D2) as (vs' & M & E).
    destruct (value_leaf (TFloat w) (fparse w) PE_Float (IFloat w) (Z.of_nat (length vs)) (map (ffmt w) vs) vs'
                f dp pre ws ws' c rest') as (q & R & Hq); try assumption.
    - reflexivity.
    - apply forallb_map_true. intros v Hv. apply ffmt_good. rewrite forallb_forall in D2. apply D2. exact Hv.
    - apply (len_bound _ (fbytes w)); [lia|destruct w; cbv; discriminate|lia].
    - exists (IFloat w vs'), q. split; [exact R|]. split; [exact Hq|constructor; exact E].
  Qed.

  (** ---------- string leaves ---------- *)
  Lemma eo_strict_true : eo_strict o = true.
  Proof. unfold opts_ok in Ho. apply andb_true_iff in Ho. tauto. Qed.

  Lemma indent_ws : Forall is_ws (eo_indent o).
  Proof.
    unfold opts_ok in Ho. apply andb_true_iff in Ho. destruct Ho as [_ H].
    apply Forall_forall. intros x Hx. rewrite forallb_forall in H. apply H. exact Hx.
  Qed.

  Lemma rep_ws n : Forall is_ws (rep (eo_indent o) n).
  Proof. induction n; cbn [rep]; [constructor|apply Forall_app; split; [apply indent_ws|assumption]]. Qed.

  Lemma quote_byte_is_q : is_q (quote_byte o).
  Proof. unfold quote_byte. destruct (eo_ascii_single o); [right|left]; reflexivity. Qed.

  (** the strict writer's text starts with the quote or with the 0 of a 0xHH token *)
  Lemma wsa_head q s : exists h r, wsa q s = h :: r /\ (h = q \/ h = 48).
  Proof.
    destruct s as [|c s]; [exists q, [q]; split; [reflexivity|left; reflexivity]|].
    cbn [write_strict_ascii_gen strict_ascii_loop_gen]. destruct (printable c).
    - eexists q, _. split; [reflexivity|left; reflexivity].
    - eexists 48, _. split; [reflexivity|right; reflexivity].
  Qed.

  Lemma reads_ascii s : dom_item egt quote_plain (IAscii s) = true -> reads_back (IAscii s).
  Proof.
    intros D. cbn [dom_item] in D. apply andb_true_iff in D. destruct D as [D D3].
    apply andb_true_iff in D. destruct D as [D1 D2].
    pose proof (bytes_ok_Forall _ D1) as FB.
    assert (NG : egt = false -> ~ In c_gt s).
    { intros E. rewrite E in D3. cbn [orb] in D3. apply no_gt_spec. exact D3. }
    pose proof quote_byte_is_q as Q.
    intros fuel dp level pre ws ws' c rest' Hf Hdp Fws Fws' Fc Hin.
    destruct (fuel_pos _ _ Hf) as (f & ->).
    cbn [enc_body encode_item_w] in *. unfold encode_string in *. rewrite eo_strict_true in *.
    set (q := quote_byte o) in *. set (X := ws' ++ c :: rest') in *.
    assert (Sh : ([c_lt; 65; c_lb] ++ format_int (blen s) ++ [c_rb; c_sp] ++ wsa q s ++ [c_gt]) ++ X
                 = c_lt :: type_chars TAscii ++ c_lb :: format_int (blen s) ++ c_rb :: (c_sp :: wsa q s ++ c_gt :: X)).
    { cbn [type_chars]. lnorm. reflexivity. }
    rewrite Sh in *.
    rewrite (item_frame TAscii (blen s) _ f dp pre ws Hin Fws) by (pose proof (blen_nonneg s); lia).
    set (P := pre ++ ws ++ c_lt :: type_chars TAscii ++ c_lb :: format_int (blen s) ++ [c_rb]).
    assert (HinP : input = P ++ [c_sp] ++ wsa q s ++ c_gt :: X) by (subst P; lsolve Hin).
    destruct (wsa_head q s) as (h & r & Eh & Hh). 
    assert (S1 : skip_comment input (mkst P (c_sp :: wsa q s ++ c_gt :: X)) = mkst (P ++ [c_sp]) (wsa q s ++ c_gt :: X)).
    { rewrite Eh in *. cbn [app] in *.
      apply (skip_comment_ws input P [c_sp] h (r ++ c_gt :: X)); [exact HinP|repeat constructor| |].
      - destruct Hh as [->| ->]; [destruct Q as [E|E]; rewrite E; reflexivity|reflexivity].
      - destruct Hh as [->| ->]; [destruct Q as [E|E]; rewrite E; discriminate|discriminate]. }
    rewrite S1. cbn [parse_body]. unfold parse_ascii. cbn [data mkst].
    rewrite (strict_ascii_roundtrip_gen egt q s X Q FB NG).
    fold (mkst (P ++ [c_sp]) (wsa q s ++ c_gt :: X)).
    replace (blen (wsa q s) + 1) with (blen (wsa q s ++ [c_gt])) by (rewrite blen_app, blen_cons, blen_nil; lia).
    change (wsa q s ++ c_gt :: X) with (wsa q s ++ [c_gt] ++ X). rewrite app_assoc.
    rewrite forward_app by (rewrite HinP; lnorm; reflexivity).
    assert (Hin2 : input = ((P ++ [c_sp]) ++ wsa q s ++ [c_gt]) ++ ws' ++ c :: rest') by (rewrite HinP; subst X; lnorm; reflexivity).
    destruct (after_item _ ws' c rest' Hin2 Fws' Fc) as [S2 Hin3].
    subst X. rewrite S2. exists (IAscii s). eexists. split; [reflexivity|]. split; [exact Hin3|constructor].
  Qed.

  (** parseJIS8 / parseLocalizedStr on "q text q>" *)
  Lemma parse_quoted_ok (mk : bytes -> item) eq eu P q s X :
    input = P ++ q :: s ++ q :: c_gt :: X -> is_q q -> Forall is_byte s -> ~ In c_gt s ->
    parse_quoted input mk eq eu (mkst P (q :: s ++ q :: c_gt :: X))
    = POk (mk s) (mkst (P ++ q :: s ++ [q; c_gt]) X).
  Proof.
    intros Hin Q FB NG. unfold parse_quoted.
    pose proof (is_q_ascii q Q) as Aq.
    assert (NSq : is_sml_space q = false) by (destruct Q as [->| ->]; reflexivity).
    pose proof (next_ns_ws input P [] q (s ++ q :: c_gt :: X)) as N1. cbn [app] in N1.
    rewrite N1 by (try exact Hin; try exact NSq; constructor). clear N1.
    replace (q =? c_gt) with false by (destruct Q as [->| ->]; reflexivity).
    replace (is_quote_rune q) with true by (destruct Q as [->| ->]; reflexivity).
    cbn [negb data mkst].
    rewrite (quoted_scan_ok q X Aq ltac:(destruct Q as [->| ->]; discriminate) s 0 O 0 FB NG)
      by (exists [], s; repeat split; constructor).
    cbn [Z.add]. rewrite firstn_blen_app.
    fold (mkst (P ++ [q]) (s ++ q :: c_gt :: X)).
    replace (blen s + 1 + 1) with (blen (s ++ [q; c_gt])) by (rewrite blen_app, !blen_cons, blen_nil; lia).
    change (s ++ q :: c_gt :: X) with (s ++ [q; c_gt] ++ X). rewrite app_assoc.
    rewrite forward_app by (rewrite Hin; lnorm; reflexivity).
    f_equal. f_equal. lnorm. reflexivity.
  Qed.

  Lemma reads_jis8 s : dom_item egt quote_plain (IJis8 s) = true -> reads_back (IJis8 s).
  Proof.
    intros D. cbn [dom_item] in D. apply andb_true_iff in D. destruct D as [D D3].
    apply andb_true_iff in D. destruct D as [D1 D2].
    pose proof (bytes_ok_Forall _ D1) as FB. pose proof (no_gt_spec _ D3) as NG.
    pose proof quote_byte_is_q as Q.
    intros fuel dp level pre ws ws' c rest' Hf Hdp Fws Fws' Fc Hin.
    destruct (fuel_pos _ _ Hf) as (f & ->).
    cbn [enc_body encode_item_w] in *. unfold encode_string in *.
    set (q := quote_byte o) in *. set (X := ws' ++ c :: rest') in *.
    assert (Sh : ([c_lt; 74; c_lb] ++ format_int (blen s) ++ [c_rb; c_sp] ++ ([q] ++ s ++ [q]) ++ [c_gt]) ++ X
                 = c_lt :: type_chars TJis8 ++ c_lb :: format_int (blen s) ++ c_rb :: (c_sp :: q :: s ++ q :: c_gt :: X)).
    { cbn [type_chars]. lnorm. reflexivity. }
    rewrite Sh in *.
    rewrite (item_frame TJis8 (blen s) _ f dp pre ws Hin Fws) by (pose proof (blen_nonneg s); lia).
    set (P := pre ++ ws ++ c_lt :: type_chars TJis8 ++ c_lb :: format_int (blen s) ++ [c_rb]).
    assert (HinP : input = P ++ [c_sp] ++ q :: s ++ q :: c_gt :: X) by (subst P; lsolve Hin).
    assert (NSq : is_sml_space q = false) by (destruct Q as [E|E]; rewrite E; reflexivity).
    assert (N47 : q <> 47) by (destruct Q as [E|E]; rewrite E; discriminate).
    assert (S1 : skip_comment input (mkst P (c_sp :: q :: s ++ q :: c_gt :: X)) = mkst (P ++ [c_sp]) (q :: s ++ q :: c_gt :: X))
      by (apply (skip_comment_ws input P [c_sp] q (s ++ q :: c_gt :: X)); [exact HinP|repeat constructor|exact NSq|exact N47]).
    rewrite S1.
    cbn [parse_body].
    rewrite (parse_quoted_ok IJis8 PE_JQuote PE_JUnclosed (P ++ [c_sp]) q s X) by (try assumption; rewrite HinP; lnorm; reflexivity).
    assert (Hin2 : input = ((P ++ [c_sp]) ++ q :: s ++ [q; c_gt]) ++ ws' ++ c :: rest') by (rewrite HinP; subst X; lnorm; reflexivity).
    destruct (after_item _ ws' c rest' Hin2 Fws' Fc) as [S2 Hin3].
    subst X. rewrite S2. exists (IJis8 s). eexists. split; [reflexivity|]. split; [exact Hin3|constructor].
  Qed.

  Lemma reads_local s : dom_item egt quote_plain (ILocal s) = true -> reads_back (ILocal s).
  Proof.
    intros D. cbn [dom_item] in D. apply andb_true_iff in D. destruct D as [D D4].
    apply andb_true_iff in D. destruct D as [D D3]. apply andb_true_iff in D. destruct D as [D1 D2].
    pose proof (bytes_ok_Forall _ D1) as FB. pose proof (no_gt_spec _ D3) as NG.
    intros fuel dp level pre ws ws' c rest' Hf Hdp Fws Fws' Fc Hin.
    destruct (fuel_pos _ _ Hf) as (f & ->).
    cbn [enc_body encode_item_w] in *. rewrite (quote_law s D4) in *.
    set (X := ws' ++ c :: rest') in *.
    assert (Sh : ([c_lt; 87; c_sp] ++ (c_dq :: s ++ [c_dq]) ++ [c_gt]) ++ X
                 = c_lt :: 87 :: c_sp :: c_dq :: s ++ c_dq :: c_gt :: X) by (lnorm; reflexivity).
    rewrite Sh in *.
    cbn [parse_item].
    rewrite next_ns_ws by (try exact Hin; try exact Fws; reflexivity).
    rewrite Z.eqb_refl. cbn [negb].
    rewrite (parse_item_type_W input (pre ++ ws ++ [c_lt])) by lsolve Hin.
    rewrite (parse_item_size_none input ((pre ++ ws ++ [c_lt]) ++ [87]) c_dq (s ++ c_dq :: c_gt :: X))
      by (try reflexivity; try discriminate; lsolve Hin).
    set (P := ((pre ++ ws ++ [c_lt]) ++ [87]) ++ [c_sp]).
    assert (HinP : input = P ++ c_dq :: s ++ c_dq :: c_gt :: X) by (subst P; lsolve Hin).
    pose proof (skip_comment_ws input P [] c_dq (s ++ c_dq :: c_gt :: X)) as S1. cbn [app] in S1.
    rewrite app_nil_r in S1. rewrite S1 by (try exact HinP; try constructor; try reflexivity; discriminate).
    cbn [parse_body].
    rewrite (parse_quoted_ok ILocal PE_WQuote PE_WUnclosed P c_dq s X HinP ltac:(left; reflexivity) FB NG).
    assert (Hin2 : input = (P ++ c_dq :: s ++ [c_dq; c_gt]) ++ ws' ++ c :: rest') by (rewrite HinP; subst X; lnorm; reflexivity).
    destruct (after_item _ ws' c rest' Hin2 Fws' Fc) as [S2 Hin3].
    subst X. rewrite S2. exists (ILocal s). eexists. split; [reflexivity|]. split; [exact Hin3|constructor].
  Qed.

  (** ---------- lists ---------- *)
  Lemma body_head x level : dom_item egt quote_plain x = true -> exists b, body o level x = c_lt :: b.
  Proof.
    destruct x as [|cs|s|s|s|bs|vs|w vs|w vs|w vs]; intros D; try discriminate;
      cbn [enc_body encode_item_w]; unfold encode_string, encode_binary, encode_boolean, encode_int,
      encode_uint, encode_float, encode_storage; try (eexists; reflexivity).
    destruct cs; eexists; reflexivity.
  Qed.

  (** the text of the remaining children of a list, then its closing line *)
  Definition tail_text (level : nat) (cs : list item) (X : bytes) : bytes :=
    flat_map (fun c => rep (eo_indent o) (S level) ++ body o (S level) c ++ [c_nl]) cs
    ++ rep (eo_indent o) level ++ c_gt :: X.

  Lemma tail_text_shape level cs X : forallb (dom_item egt quote_plain) cs = true ->
    exists Wf c0 r, tail_text level cs X = Wf ++ c0 :: r /\ Forall is_ws Wf /\ (c0 = c_lt \/ c0 = c_gt).
  Proof.
    intros D. destruct cs as [|c1 cs'].
    - exists (rep (eo_indent o) level), c_gt, X. split; [reflexivity|]. split; [apply rep_ws|right; reflexivity].
    - cbn [forallb] in D. apply andb_true_iff in D. destruct D as [D1 _].
      destruct (body_head c1 (S level) D1) as (b & Eb).
      exists (rep (eo_indent o) (S level)), c_lt.
      eexists. split; [|split; [apply rep_ws|left; reflexivity]].
      unfold tail_text. cbn [flat_map]. rewrite Eb. lnorm. reflexivity.
  Qed.

  Lemma tail_text_len level cs X : (length cs < length (tail_text level cs X))%nat.
  Proof.
    unfold tail_text. induction cs as [|c cs IH]; cbn [flat_map length].
    - cbn [app]. rewrite app_length. cbn [length]. lia.
    - rewrite <- !app_assoc. rewrite !app_length in *. cbn [length] in *. lia.
  Qed.

  Lemma ws_prefix W : Forall is_ws W -> forall Wf c0 r d, Forall is_ws Wf -> is_sml_space c0 = false ->
    W ++ d = Wf ++ c0 :: r -> exists W2, Wf = W ++ W2 /\ d = W2 ++ c0 :: r.
  Proof.
    induction 1 as [|b W Hb _ IH]; intros Wf c0 r d FWf NC E.
    - exists Wf. split; [reflexivity|exact E].
    - destruct Wf as [|b' Wf'].
      + cbn [app] in E. inversion E; subst. unfold is_ws in Hb. congruence.
      + cbn [app] in E. inversion E; subst. inversion FWf; subst.
        destruct (IH Wf' c0 r d H3 NC H1) as (W2 & -> & ->). exists W2. split; reflexivity.
  Qed.

  Lemma depth_child c cs : In c cs -> (depth c <= fold_right (fun c m => Nat.max (depth c) m) O cs)%nat.
  Proof.
    induction cs as [|a cs IH]; intros I; [contradiction|]. cbn [fold_right].
    destruct I as [->|I]; [lia|]. specialize (IH I). lia.
  Qed.

  Lemma list_loop level X : forall cs,
    Forall reads_back cs -> forallb (dom_item egt quote_plain) cs = true ->
    forall fuel dp n acc p W d,
      (forall c, In c cs -> (depth c < fuel)%nat) ->
      (forall c, In c cs -> dp + Z.of_nat (depth c) <= max_list_depth) -> (length cs < n)%nat ->
      Forall is_ws W -> W ++ d = tail_text level cs X -> input = p ++ d ->
      exists cs' q,
        parse_list_loop input (pitem fuel dp) n (mkst p d) acc = POk (IList (rev acc ++ cs')) (mkst q X)
        /\ input = q ++ X /\ Forall2 eqv cs cs'.
  Proof.
    induction cs as [|c1 cs IH]; intros RB D fuel dp n acc p W d Hd Hdp Hn FW E Hin.
    - (* only the closing bracket is left *)
      unfold tail_text in E. cbn [flat_map app] in E.
      destruct (ws_prefix W FW (rep (eo_indent o) level) c_gt X d (rep_ws level) eq_refl E) as (W2 & EW & ->).
      assert (FW2 : Forall is_ws W2).
      { pose proof (rep_ws level) as F. rewrite EW in F. apply Forall_app in F. tauto. }
      destruct n as [|n]; [cbn in Hn; lia|]. cbn [parse_list_loop].
      rewrite peek_ns_ws by (try exact Hin; try exact FW2; reflexivity).
      change (c_gt =? c_lt) with false. rewrite Z.eqb_refl. cbv iota beta.
      rewrite forward_1 by lsolve Hin.
      exists [], ((p ++ W2) ++ [c_gt]). rewrite app_nil_r. split; [reflexivity|]. split; [lsolve Hin|constructor].
    - cbn [forallb] in D. apply andb_true_iff in D. destruct D as [D1 D].
      inversion RB as [|? ? RB1 RBs]; subst.
      destruct (body_head c1 (S level) D1) as (b1 & Eb).
      assert (E' : W ++ d = rep (eo_indent o) (S level) ++ c_lt :: (b1 ++ c_nl :: tail_text level cs X)).
      { rewrite E. unfold tail_text. cbn [flat_map]. rewrite Eb. lnorm. reflexivity. }
      destruct (ws_prefix W FW _ c_lt _ d (rep_ws (S level)) eq_refl E') as (W2 & EW & Ed).
      assert (FW2 : Forall is_ws W2).
      { pose proof (rep_ws (S level)) as F. rewrite EW in F. apply Forall_app in F. tauto. }
      destruct n as [|n]; [cbn in Hn; lia|]. cbn [parse_list_loop].
      rewrite Ed in *.
      rewrite peek_ns_ws by (try exact Hin; try exact FW2; reflexivity).
      rewrite Z.eqb_refl.
      (* the child, followed by a newline and the rest *)
      destruct (tail_text_shape level cs X D) as (Wf & c0 & r & ET & FWf & Hc0).
      assert (Fol : follow c0) by (destruct Hc0 as [->| ->]; split; (reflexivity || discriminate)).
      assert (HinC : input = (p ++ W2) ++ [] ++ body o (S level) c1 ++ (c_nl :: Wf) ++ c0 :: r).
      { rewrite Hin, Eb. lnorm. rewrite ET. lnorm. reflexivity. }
      assert (FnlWf : Forall is_ws (c_nl :: Wf)) by (constructor; [reflexivity|exact FWf]).
      destruct (RB1 fuel dp (S level) (p ++ W2) [] (c_nl :: Wf) c0 r (Hd c1 (or_introl eq_refl))
                  (Hdp c1 (or_introl eq_refl)) (Forall_nil _) FnlWf Fol HinC) as (x1 & q1 & R1 & Hq1 & Ev1).
      assert (Same : mkst (p ++ W2) (c_lt :: b1 ++ c_nl :: tail_text level cs X)
                     = mkst (p ++ W2) ([] ++ body o (S level) c1 ++ (c_nl :: Wf) ++ c0 :: r)).
      { f_equal. rewrite Eb, ET. lnorm. reflexivity. }
      rewrite Same, R1.
      destruct (IH RBs D fuel dp n (x1 :: acc) q1 Wf (c0 :: r)) as (cs' & q & R & Hq & Ev).
      + intros c Hc. apply Hd. right. exact Hc.
      + intros c Hc. apply Hdp. right. exact Hc.
      + cbn [length] in Hn. lia.
      + exact FWf.
      + symmetry. exact ET.
      + exact Hq1.
      + exists (x1 :: cs'), q. split; [|split; [exact Hq|constructor; assumption]].
        rewrite R. cbn [rev]. rewrite <- app_assoc. reflexivity.
  Qed.

  Lemma reads_list cs : Forall reads_back cs -> dom_item egt quote_plain (IList cs) = true -> reads_back (IList cs).
  Proof.
    intros RB D. cbn [dom_item] in D. apply andb_true_iff in D. destruct D as [D1 D2].
    intros fuel dp level pre ws ws' c rest' Hf Hdp Fws Fws' Fc Hin.
    destruct fuel as [|f]; [lia|]. cbn [depth] in Hf.
    assert (Dok : (dp + 1 >? max_list_depth) = false).
    { cbn [depth] in Hdp. rewrite Nat2Z.inj_succ in Hdp. lia. }
    assert (Dch : forall x, In x cs -> dp + 1 + Z.of_nat (depth x) <= max_list_depth).
    { intros x Hx. pose proof (depth_child x cs Hx). cbn [depth] in Hdp. rewrite Nat2Z.inj_succ in Hdp. lia. }
    set (X := ws' ++ c :: rest') in *.
    destruct cs as [|c1 cs'].
    - (* <L[0]> *)
      cbn [enc_body] in *.
      assert (Sh : [c_lt; 76; c_lb; 48; c_rb; c_gt] ++ X
                   = c_lt :: type_chars TList ++ c_lb :: format_int 0 ++ c_rb :: (c_gt :: X)) by reflexivity.
      rewrite Sh in *.
      rewrite (item_frame TList 0 _ f dp pre ws Hin Fws) by (unfold max_byte_size; lia).
      set (P := pre ++ ws ++ c_lt :: type_chars TList ++ c_lb :: format_int 0 ++ [c_rb]).
      assert (HinP : input = P ++ c_gt :: X) by (subst P; lsolve Hin).
      pose proof (skip_comment_ws input P [] c_gt X) as S1. cbn [app] in S1. rewrite app_nil_r in S1.
      rewrite S1 by (try exact HinP; try constructor; try reflexivity; discriminate).
      cbn [parse_body]. rewrite Dok. cbn [parse_list_loop].
      pose proof (peek_ns_ws input P [] c_gt X) as P1. cbn [app] in P1. rewrite app_nil_r in P1.
      rewrite P1 by (try exact HinP; try constructor; reflexivity).
      change (c_gt =? c_lt) with false. rewrite Z.eqb_refl. cbv iota beta.
      rewrite forward_1 by exact HinP.
      assert (Hin2 : input = (P ++ [c_gt]) ++ ws' ++ c :: rest') by (rewrite HinP; subst X; lnorm; reflexivity).
      destruct (after_item _ ws' c rest' Hin2 Fws' Fc) as [S2 Hin3].
      subst X. rewrite S2. exists (IList []). eexists. split; [reflexivity|]. split; [exact Hin3|repeat constructor].
    - remember (c1 :: cs') as cs eqn:Ecs.
      assert (Bd : body o level (IList cs)
                   = [c_lt; 76; c_lb] ++ format_int (Z.of_nat (length cs)) ++ [c_rb; c_nl]
                     ++ flat_map (fun c => rep (eo_indent o) (S level) ++ body o (S level) c ++ [c_nl]) cs
                     ++ rep (eo_indent o) level ++ [c_gt]) by (subst cs; reflexivity).
      rewrite Bd in *.
      assert (Sh : ([c_lt; 76; c_lb] ++ format_int (Z.of_nat (length cs)) ++ [c_rb; c_nl]
                     ++ flat_map (fun c => rep (eo_indent o) (S level) ++ body o (S level) c ++ [c_nl]) cs
                     ++ rep (eo_indent o) level ++ [c_gt]) ++ X
                   = c_lt :: type_chars TList ++ c_lb :: format_int (Z.of_nat (length cs)) ++ c_rb :: (c_nl :: tail_text level cs X)).
      { unfold tail_text. cbn [type_chars]. lnorm. reflexivity. }
      rewrite Sh in *.
      rewrite (item_frame TList (Z.of_nat (length cs)) _ f dp pre ws Hin Fws) by lia.
      set (P := pre ++ ws ++ c_lt :: type_chars TList ++ c_lb :: format_int (Z.of_nat (length cs)) ++ [c_rb]).
      destruct (tail_text_shape level cs X D2) as (Wf & c0 & r & ET & FWf & Hc0).
      assert (NS0 : is_sml_space c0 = false) by (destruct Hc0 as [->| ->]; reflexivity).
      assert (N47 : c0 <> 47) by (destruct Hc0 as [->| ->]; discriminate).
      assert (HinP : input = P ++ (c_nl :: Wf) ++ c0 :: r) by (subst P; rewrite Hin, ET; lnorm; reflexivity).
      assert (S1 : skip_comment input (mkst P (c_nl :: tail_text level cs X)) = mkst (P ++ c_nl :: Wf) (c0 :: r)).
      { rewrite ET. apply (skip_comment_ws input P (c_nl :: Wf) c0 r HinP); [constructor; [reflexivity|exact FWf]|exact NS0|exact N47]. }
      rewrite S1. cbn [parse_body]. rewrite Dok. cbn [data mkst].
      destruct (list_loop level X cs RB D2 f (dp + 1) (S (length (c0 :: r))) [] (P ++ c_nl :: Wf) Wf (c0 :: r)) as (cs'' & q & R & Hq & Ev).
      + intros x Hx. pose proof (depth_child x cs Hx). lia.
      + exact Dch.
      + pose proof (tail_text_len level cs X) as L. rewrite ET, app_length in L.
        (* every child contributes its bracket and its newline after the first indentation *)
        assert (length cs <= length (c0 :: r))%nat; [|lia].
        subst cs. cbn [forallb] in D2. apply andb_true_iff in D2. destruct D2 as [Dc1 Dcs].
        destruct (body_head c1 (S level) Dc1) as (b1 & Eb).
        unfold tail_text in ET. cbn [flat_map] in ET. rewrite Eb in ET.
        assert (E2 : rep (eo_indent o) (S level) ++ c_lt :: (b1 ++ c_nl :: tail_text level cs' X) = Wf ++ c0 :: r).
        { rewrite <- ET. unfold tail_text. lnorm. reflexivity. }
        destruct (ws_prefix _ (rep_ws (S level)) Wf c0 r _ FWf NS0 E2) as (W2 & EW & Ed).
        destruct (ws_prefix _ FWf (rep (eo_indent o) (S level)) c_lt _ (c0 :: r) (rep_ws (S level)) eq_refl (eq_sym E2)) as (W3 & EW3 & Ed3).
        rewrite Ed3. rewrite app_length. cbn [length]. rewrite app_length. cbn [length].
        pose proof (tail_text_len level cs' X). lia.
      + exact FWf.
      + symmetry. exact ET.
      + lsolve HinP.
      + rewrite R. cbn [rev app].
        assert (Hin2 : input = q ++ ws' ++ c :: rest') by exact Hq.
        destruct (after_item _ ws' c rest' Hin2 Fws' Fc) as [S2 Hin3].
        subst X. rewrite S2. exists (IList cs''). eexists. split; [reflexivity|]. split; [exact Hin3|constructor; exact Ev].
  Qed.

  (** every item of the grammar is read back, wherever it stands *)
  Theorem reads_all : forall x, dom_item egt quote_plain x = true -> reads_back x.
  Proof.
    induction x as [|cs IH|s|s|s|bs|vs|w vs|w vs|w vs] using item_ind'; intros D.
    - discriminate.
    - apply reads_list; [|exact D].
      cbn [dom_item] in D. apply andb_true_iff in D. destruct D as [_ D].
      rewrite forallb_forall in D. apply Forall_forall. intros x Hx.
      rewrite Forall_forall in IH. apply IH; [exact Hx|apply D; exact Hx].
    - apply reads_ascii; exact D.
    - apply reads_jis8; exact D.
    - apply reads_local; exact D.
    - apply reads_binary; exact D.
    - apply reads_boolean; exact D.
    - apply reads_int; exact D.
    - apply reads_uint; exact D.
    - apply reads_float; exact D.
  Qed.
End Roundtrip.
