(** Shared vocabulary of the SML models (C13, C15): the item tree the renderers walk, the data
    message triple the SML header carries, encoder options, and byte-string helpers.

    The tree has exactly the shapes go-secs items can have when they carry no deferred error:
    the ten leaf kinds of secs2 plus the empty item and lists. [secs2.NewListItem] drops nil
    children, so a list has no holes; an EmptyItem child is possible and is a constructor here.
    Float elements are the IEEE-754 binary64 bit patterns (as [Z]) of the float64 values the item's
    [Floats()] iterator yields; how they print and parse is Go's strconv, an oracle in the models.
    The localized-string header (LSH) is not rendered in SML and is left out of the tree. *)
From Coq Require Import ZArith List Lia Bool.
From GoSecs Require Import Base.Decimal.
Import ListNotations.
Open Scope Z_scope.

Inductive width := W1 | W2 | W4 | W8.
Definition wbytes (w : width) : Z := match w with W1 => 1 | W2 => 2 | W4 => 4 | W8 => 8 end.
Definition wbits (w : width) : Z := 8 * wbytes w.

Inductive fwidth := F4 | F8.
Definition fbytes (w : fwidth) : Z := match w with F4 => 4 | F8 => 8 end.
Definition fbits (w : fwidth) : Z := 8 * fbytes w.

Inductive item :=
| IEmpty
| IList (cs : list item)
| IAscii (s : bytes)
| IJis8 (s : bytes)
| ILocal (s : bytes)
| IBinary (bs : bytes)
| IBoolean (vs : list bool)
| IInt (w : width) (vs : list Z)
| IUint (w : width) (vs : list Z)
| IFloat (w : fwidth) (vs : list Z).

Definition is_list (x : item) : bool := match x with IList _ => true | _ => false end.
Definition is_empty (x : item) : bool := match x with IEmpty => true | _ => false end.

(** induction principle that reaches the children of a list *)
Section ItemInd.
  Variable P : item -> Prop.
  Hypothesis HEmpty : P IEmpty.
  Hypothesis HList : forall cs, Forall P cs -> P (IList cs).
  Hypothesis HAscii : forall s, P (IAscii s).
  Hypothesis HJis8 : forall s, P (IJis8 s).
  Hypothesis HLocal : forall s, P (ILocal s).
  Hypothesis HBinary : forall bs, P (IBinary bs).
  Hypothesis HBoolean : forall vs, P (IBoolean vs).
  Hypothesis HInt : forall w vs, P (IInt w vs).
  Hypothesis HUint : forall w vs, P (IUint w vs).
  Hypothesis HFloat : forall w vs, P (IFloat w vs).

  Fixpoint item_ind' (x : item) : P x :=
    match x with
    | IEmpty => HEmpty
    | IList cs =>
        HList cs ((fix go (l : list item) : Forall P l :=
                     match l with
                     | [] => Forall_nil P
                     | c :: l' => Forall_cons c (item_ind' c) (go l')
                     end) cs)
    | IAscii s => HAscii s
    | IJis8 s => HJis8 s
    | ILocal s => HLocal s
    | IBinary bs => HBinary bs
    | IBoolean vs => HBoolean vs
    | IInt w vs => HInt w vs
    | IUint w vs => HUint w vs
    | IFloat w vs => HFloat w vs
    end.
End ItemInd.

(** Storage of numeric and boolean items (secs2 IntItem/UintItem/FloatItem/BooleanItem):
    [size], a [scalar] used when size = 1, a [values] slice otherwise. *)
Record storage (A : Type) := { st_size : Z; st_scalar : A; st_values : list A }.
Arguments st_size {A}. Arguments st_scalar {A}. Arguments st_values {A}.

(** what NewIntItem/NewUintItem/NewFloatItem/NewBooleanItem and the decoder leave behind *)
Definition store {A} (zero : A) (vs : list A) : storage A :=
  match vs with
  | [v] => {| st_size := 1; st_scalar := v; st_values := [] |}
  | _ => {| st_size := Z.of_nat (length vs); st_scalar := zero; st_values := vs |}
  end.

(** the Ints()/Uints()/Floats()/Bools() iterators *)
Definition iter_storage {A} (st : storage A) : list A :=
  if st_size st =? 1 then [st_scalar st] else st_values st.

(** what an SML header line carries: stream, function, W-bit; and the body *)
Record msg := { m_stream : Z; m_function : Z; m_wbit : bool; m_body : item }.

(** secs2.MaxByteSize *)
Definition max_byte_size : Z := 16777215.

(** encoder options (sml/options.go). [eo_ascii_single]: asciiQuote == QuoteSingle (every other
    value, including QuoteNone which the option maps to QuoteDouble, quotes with the double quote).
    [eo_sf_quote]: 0 none (default and unknown values), 1 single, 2 double. *)
Record enc_opts := {
  eo_strict : bool;
  eo_ascii_single : bool;
  eo_sf_quote : Z;
  eo_binary_literal : bool;
  eo_indent : bytes
}.

Definition default_opts : enc_opts :=
  {| eo_strict := false; eo_ascii_single := false; eo_sf_quote := 0;
     eo_binary_literal := false; eo_indent := [32; 32] |}.

(** strings.Repeat(unit, n) *)
Fixpoint rep (u : bytes) (n : nat) : bytes :=
  match n with O => [] | S n' => u ++ rep u n' end.

(** character constants *)
Definition c_lt : Z := 60.   (* '<' *)
Definition c_gt : Z := 62.   (* '>' *)
Definition c_lb : Z := 91.   (* '[' *)
Definition c_rb : Z := 93.   (* ']' *)
Definition c_sp : Z := 32.
Definition c_nl : Z := 10.
Definition c_dq : Z := 34.   (* double quote *)
Definition c_sq : Z := 39.   (* '\'' *)
Definition c_bs : Z := 92.   (* '\\' *)
Definition c_dot : Z := 46.

(** ASCII literals used by the renderers *)
Definition s_True : bytes := [84; 114; 117; 101].
Definition s_False : bytes := [70; 97; 108; 115; 101].
Definition s_BOOLEAN : bytes := [66; 79; 79; 76; 69; 65; 78].
