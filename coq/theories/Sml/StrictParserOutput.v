(** What the strict parser can output, on ANY input of bytes: every item of an accepted message
    is well formed (bytes in range, integers within their width, floats in the item's range, no
    EmptyItem below the top, sizes within the secs2 limits) and the header triple is in range.
    With the statement's restriction on JIS-8 / localized text this puts every accepted message in
    the domain of the encode-parse theorem: the second half of C13. *)
From Coq Require Import ZArith List Lia Bool ZifyBool.
From GoSecs Require Import Base.Decimal Base.DecimalProofs Base.Utf8 Sml.Syntax Sml.Encoder
  Sml.StrictAscii Sml.StrictAsciiProofs Sml.StrictParser Sml.StrictUtf8Proofs Sml.StrictRoundtripDefs.
Import ListNotations.
Open Scope Z_scope.

(** ---------- bytes ---------- *)
Lemma bytes_ok_skipn n l : bytes_ok l = true -> bytes_ok (skipn n l) = true.
Proof.
  unfold bytes_ok. revert l. induction n as [|n IH]; intros l H; [exact H|].
  destruct l as [|a l]; [reflexivity|]. cbn [skipn]. cbn [forallb] in H. apply andb_true_iff in H. apply IH. tauto.
Qed.

Lemma bytes_ok_firstn n l : bytes_ok l = true -> bytes_ok (firstn n l) = true.
Proof.
  unfold bytes_ok. revert l. induction n as [|n IH]; intros l H; [reflexivity|].
  destruct l as [|a l]; [reflexivity|]. cbn [firstn forallb]. cbn [forallb] in H. apply andb_true_iff in H.
  apply andb_true_iff. split; [tauto|apply IH; tauto].
Qed.

Lemma bytes_ok_app a b : bytes_ok (a ++ b) = true <-> bytes_ok a = true /\ bytes_ok b = true.
Proof. unfold bytes_ok. rewrite forallb_app. apply andb_true_iff. Qed.

Lemma bytes_ok_rev a : bytes_ok (rev a) = true <-> bytes_ok a = true.
Proof.
  unfold bytes_ok. rewrite !forallb_forall. split; intros H x Hx; apply H.
  - apply in_rev in Hx. exact Hx.
  - apply in_rev. exact Hx.
Qed.

Lemma bytes_ok_rev_append a b : bytes_ok a = true -> bytes_ok b = true -> bytes_ok (rev_append a b) = true.
Proof. intros Ha Hb. rewrite rev_append_rev. apply bytes_ok_app. split; [apply bytes_ok_rev; exact Ha|exact Hb]. Qed.

(** bit-or of two bytes is a byte *)
Lemma lor_byte a b : 0 <= a < 256 -> 0 <= b < 256 -> 0 <= Z.lor a b < 256.
Proof.
  intros Ha Hb. split; [apply Z.lor_nonneg; lia|].
  destruct (Z.eq_dec (Z.lor a b) 0) as [->|N]; [lia|].
  assert (P : 0 < Z.lor a b) by (assert (0 <= Z.lor a b) by (apply Z.lor_nonneg; lia); lia).
  change 256 with (2 ^ 8). apply (proj2 (Z.log2_lt_pow2 (Z.lor a b) 8 P)).
  rewrite Z.log2_lor by lia.
  apply Z.max_lub_lt.
  - destruct (Z.eq_dec a 0) as [->|Na]; [cbn; lia|]. apply (proj1 (Z.log2_lt_pow2 a 8 ltac:(lia))). change (2 ^ 8) with 256. lia.
  - destruct (Z.eq_dec b 0) as [->|Nb]; [cbn; lia|]. apply (proj1 (Z.log2_lt_pow2 b 8 ltac:(lia))). change (2 ^ 8) with 256. lia.
Qed.

Lemma land63 x : 0 <= Z.land x 63 < 64.
Proof. change 63 with (Z.ones 6). rewrite Z.land_ones by lia. apply Z.mod_pos_bound. reflexivity. Qed.

Lemma shiftr_bound r k n : 0 <= r < 2 ^ (k + n) -> 0 <= k -> 0 <= n -> 0 <= Z.shiftr r n < 2 ^ k.
Proof.
  intros H Hk Hn. rewrite Z.shiftr_div_pow2 by exact Hn. split; [apply Z.div_pos; [lia|apply Z.pow_pos_nonneg; lia]|].
  apply Z.div_lt_upper_bound; [apply Z.pow_pos_nonneg; lia|]. rewrite <- Z.pow_add_r by lia. rewrite Z.add_comm. lia.
Qed.

Lemma encode_rune_bytes r : bytes_ok (encode_rune r) = true.
Proof.
  unfold encode_rune.
  assert (B : forall x, 0 <= x < 256 -> byte_ok x = true) by (intros; unfold byte_ok; lia).
  assert (C : forall x, byte_ok (Z.lor 128 (Z.land x 63)) = true).
  { intros x. apply B. apply lor_byte; [lia|]. pose proof (land63 x). lia. }
  destruct ((0 <=? r) && (r <? 128)) eqn:E1; [cbn [bytes_ok forallb]; rewrite B by lia; reflexivity|].
  destruct ((0 <=? r) && (r <? 2048)) eqn:E2.
  { cbn [bytes_ok forallb]. rewrite C. rewrite B; [reflexivity|].
    apply lor_byte; [lia|]. pose proof (shiftr_bound r 5 6 ltac:(change (2 ^ (5 + 6)) with 2048; lia) ltac:(lia) ltac:(lia)).
    change (2 ^ 5) with 32 in *. lia. }
  destruct ((r <? 0) || (1114111 <? r) || in_range 55296 57343 r) eqn:E3; [reflexivity|].
  assert (R : 2048 <= r <= 1114111) by (unfold in_range in E3; lia).
  destruct (r <? 65536) eqn:E4.
  { cbn [bytes_ok forallb]. rewrite !C. rewrite B; [reflexivity|].
    apply lor_byte; [lia|]. pose proof (shiftr_bound r 4 12 ltac:(change (2 ^ (4 + 12)) with 65536; lia) ltac:(lia) ltac:(lia)).
    change (2 ^ 4) with 16 in *. lia. }
  cbn [bytes_ok forallb]. rewrite !C. rewrite B; [reflexivity|].
  apply lor_byte; [lia|]. pose proof (shiftr_bound r 3 18 ltac:(change (2 ^ (3 + 18)) with 2097152; lia) ltac:(lia) ltac:(lia)).
  change (2 ^ 3) with 8 in *. lia.
Qed.

(** ---------- numbers ---------- *)
Lemma parse_digits_range base maxv base0 : 0 <= base -> forall s n us v us',
  0 <= n <= maxv -> parse_digits base maxv base0 s n us = (NOk v, us') -> 0 <= v <= maxv.
Proof.
  intros Hb. induction s as [|c s IH]; intros n us v us' Hn H; cbn [parse_digits] in H.
  - inversion H; subst. exact Hn.
  - destruct ((c =? 95) && base0); [eapply IH; eassumption|].
    destruct (if is_digit c then Some (c - 48) else if is_letter c then Some (lower c - 97 + 10) else None) as [d|] eqn:Ed; [|discriminate].
    destruct (d >=? base); [discriminate|].
    destruct (n * base + d >? maxv) eqn:Eo; [discriminate|].
    eapply IH; [|exact H].
    assert (0 <= d).
    { destruct (is_digit c) eqn:D1; [inversion Ed; unfold is_digit in D1; lia|].
      destruct (is_letter c) eqn:D2; [inversion Ed; unfold is_letter in D2; lia|discriminate]. }
    nia.
Qed.

Lemma parse_uint_range base0 bits tok v : 0 <= bits -> parse_uint base0 bits tok = NOk v -> 0 <= v <= 2 ^ bits - 1.
Proof.
  intros Hb H. unfold parse_uint in H. destruct tok as [|c0 t0]; [discriminate|].
  assert (P : 0 < 2 ^ bits) by (apply Z.pow_pos_nonneg; lia).
  match type of H with context [let '(base, s) := ?X in _] => destruct X as [base s] eqn:EX end.
  destruct (parse_digits base (2 ^ bits - 1) base0 s 0 false) as [[n| |] us] eqn:PD; try discriminate.
  assert (0 <= base).
  { destruct (base0 && (c0 =? 48)); [|inversion EX; lia].
    destruct t0 as [|c1 t1]; [inversion EX; lia|].
    repeat match type of EX with (if ?c then _ else _) = _ => destruct c end; inversion EX; lia. }
  pose proof (parse_digits_range base (2 ^ bits - 1) base0 H0 s 0 false n us ltac:(lia) PD).
  destruct (us && negb (underscore_ok (c0 :: t0))); inversion H; subst; assumption.
Qed.

Lemma parse_int_range base0 bits tok v : 1 <= bits -> parse_int base0 bits tok = NOk v ->
  - 2 ^ (bits - 1) <= v < 2 ^ (bits - 1).
Proof.
  intros Hb H. unfold parse_int in H. destruct tok as [|c t]; [discriminate|].
  match type of H with context [let '(neg, s1) := ?X in _] => destruct X as [neg s1] end.
  destruct (parse_uint base0 bits s1) as [un| |] eqn:PU; try discriminate.
  pose proof (parse_uint_range base0 bits s1 un ltac:(lia) PU) as R.
  assert (P : 0 < 2 ^ (bits - 1)) by (apply Z.pow_pos_nonneg; lia).
  destruct neg; cbn [negb andb] in H.
  - destruct (un >? 2 ^ (bits - 1)) eqn:E; [discriminate|]. inversion H; subst. lia.
  - destruct (un >=? 2 ^ (bits - 1)) eqn:E; [discriminate|]. inversion H; subst. lia.
Qed.

(** ---------- the ASCII state machine ---------- *)
Definition astate_ok (st : astate) : Prop := bytes_ok (a_rsb st) = true.

Lemma num_byte_range tok v : num_byte tok = inr v -> 0 <= v < 256.
Proof.
  unfold num_byte. destruct (parse_uint true 64 tok) as [x| |] eqn:P; try discriminate.
  pose proof (parse_uint_range true 64 tok x ltac:(lia) P) as R.
  destruct (x >? 255) eqn:E; [discriminate|]. intros H; inversion H; subst. lia.
Qed.

Lemma astep_ok q ch st : astate_ok st ->
  match astep q ch st with
  | ACont st' => astate_ok st'
  | ADone s => bytes_ok s = true
  | AFail _ => True
  end.
Proof.
  intros H. unfold astate_ok in *.
  assert (PR : bytes_ok (a_rsb (push_rune ch st)) = true).
  { unfold push_rune. cbn [a_rsb]. apply bytes_ok_rev_append; [apply encode_rune_bytes|exact H]. }
  unfold astep.
  destruct (a_quote st).
  - destruct (ch =? c_bs); [destruct (a_esc st); [exact PR|exact H]|].
    destruct (ch =? q); [destruct (a_esc st); [exact PR|exact H]|].
    destruct (ch =? c_gt); [destruct (a_esc st); [exact PR|exact I]|exact PR].
  - destruct (a_num st).
    + destruct (ch =? c_sp).
      * destruct (num_byte (a_numstr st)) as [e|v] eqn:NB; [exact I|].
        cbn [a_rsb]. pose proof (num_byte_range _ _ NB). unfold bytes_ok in *. cbn [forallb]. unfold byte_ok at 1.
        apply andb_true_iff. split; [lia|exact H].
      * destruct (ch =? c_gt); [|exact H].
        destruct (num_byte (a_numstr st)) as [e|v] eqn:NB; [exact I|].
        pose proof (num_byte_range _ _ NB). apply bytes_ok_rev. unfold bytes_ok in *. cbn [forallb]. unfold byte_ok at 1.
        apply andb_true_iff. split; [lia|exact H].
    + destruct (ch =? q); [exact H|]. destruct (ch =? c_sp); [exact H|].
      destruct (ch =? c_gt); [apply bytes_ok_rev; exact H|exact H].
Qed.

Lemma astrict_loop_ok q : forall d i skip st s n rest,
  astate_ok st -> bytes_ok d = true -> astrict_loop q d i skip st = AOk s n rest ->
  bytes_ok s = true /\ bytes_ok rest = true.
Proof.
  induction d as [|b t IH]; intros i skip st s n rest Hst Hd H; cbn [astrict_loop] in H; [discriminate|].
  assert (Ht : bytes_ok t = true) by (unfold bytes_ok in *; cbn [forallb] in Hd; apply andb_true_iff in Hd; tauto).
  destruct skip as [|k]; [|eapply IH; eassumption].
  destruct (decode_rune (b :: t)) as [ch w].
  pose proof (astep_ok q ch st Hst) as A.
  destruct (astep q ch st) as [st'|s'|e]; [eapply IH; eassumption| |discriminate].
  inversion H; subst. split; assumption.
Qed.

Lemma parse_ascii_strict_ok d s n rest : bytes_ok d = true -> parse_ascii_strict d = AOk s n rest ->
  bytes_ok s = true.
Proof.
  intros Hd H. unfold parse_ascii_strict in H.
  eapply (astrict_loop_ok _ d 0 O astate0 s n rest); [reflexivity|exact Hd|exact H].
Qed.

(** ---------- what an accepted item looks like ---------- *)
Fixpoint wf_out (x : item) : bool :=
  match x with
  | IEmpty => false
  | IList cs => forallb wf_out cs
  | IAscii s | IJis8 s | ILocal s | IBinary s => bytes_ok s
  | IBoolean _ => true
  | IInt w vs => forallb (int_in w) vs
  | IUint w vs => forallb (uint_in w) vs
  | IFloat w vs => forallb (fdom w) vs
  end.

Lemma map_opt_forall {A} (f : bytes -> option A) (P : A -> bool) toks vs :
  (forall t v, f t = Some v -> P v = true) -> map_opt f toks = Some vs -> forallb P vs = true.
Proof.
  intros HP. revert vs. induction toks as [|t toks IH]; intros vs H; cbn [map_opt] in H.
  - inversion H. reflexivity.
  - destruct (f t) as [v|] eqn:E; [|discriminate]. destruct (map_opt f toks) as [vs'|]; [|discriminate].
    inversion H; subst. cbn [forallb]. rewrite (HP _ _ E), (IH _ eq_refl). reflexivity.
Qed.

Section Output.
  Variable fparse : fwidth -> bytes -> option Z.
  Hypothesis fparse_dom : forall w tok v, fparse w tok = Some v -> fdom w v = true.
  Variable input : bytes.
  Hypothesis Hinput : bytes_ok input = true.

  Definition okst (st : pst) : Prop := bytes_ok (data st) = true.

  Lemma forward_ok n st : okst st -> okst (forward input n st).
  Proof. unfold okst, forward. intros H. destruct (pos st + n <=? ilen input); [cbn [data]; apply bytes_ok_skipn; exact H|exact H]. Qed.

  Lemma backward_ok n st : okst st -> okst (backward input n st).
  Proof. unfold okst, backward. intros H. destruct (pos st - n >=? 0); [cbn [data]; apply bytes_ok_skipn; exact Hinput|exact H]. Qed.

  Lemma skip_space_ok st : okst st -> okst (fst (skip_space input st)).
  Proof.
    intros H. unfold skip_space. destruct (drop_spaces (data st) 0) as [n r]. destruct r; [exact H|apply forward_ok; exact H].
  Qed.

  Lemma skip_comment_ok st : okst st -> okst (skip_comment input st).
  Proof.
    intros H. unfold skip_comment. pose proof (skip_space_ok st H) as S.
    destruct (skip_space input st) as [st1 ok]. cbn [fst] in S. destruct ok; cbn [negb]; [|exact S].
    destruct (data st1) as [|a [|b l]]; try exact S.
    destruct ((a =? 47) && (b =? 47)).
    - match goal with |- okst (match ?X with Some _ => _ | None => _ end) => destruct X; [apply forward_ok|]; exact S end.
    - destruct ((a =? 47) && (b =? 42)); [|exact S].
      match goal with |- okst (match ?X with Some _ => _ | None => _ end) => destruct X; [apply forward_ok|]; exact S end.
  Qed.

  Lemma peek_ns_ok st : okst st -> okst (fst (peek_ns input st)).
  Proof. intros H. unfold peek_ns. pose proof (skip_space_ok st H). destruct (skip_space input st). exact H0. Qed.

  Lemma next_rune_ok st : okst st -> okst (fst (next_rune input st)).
  Proof.
    intros H. unfold next_rune. destruct (pos st >=? ilen input); [exact H|].
    destruct (data st); [exact H|apply forward_ok; exact H].
  Qed.

  Lemma next_ns_ok st : okst st -> okst (fst (next_ns input st)).
  Proof.
    intros H. unfold next_ns. pose proof (skip_space_ok st H) as S. destruct (skip_space input st) as [st1 ok].
    destruct ok; [apply next_rune_ok; exact S|exact S].
  Qed.

  Lemma next_number_ok bits e st v st' : 0 <= bits -> okst st -> next_number input bits e st = POk v st' ->
    okst st' /\ 0 <= v <= 2 ^ bits - 1.
  Proof.
    intros Hb H N. unfold next_number in N. destruct (pos st >=? ilen input); [discriminate|].
    destruct (span_digits (data st)) as [ds r]. destruct r; [discriminate|].
    destruct (parse_uint false bits ds) as [x| |] eqn:P; try discriminate.
    destruct ((bits =? 32) && (x >? 2147483647)); [discriminate|]. inversion N; subst.
    split; [apply forward_ok; exact H|eapply parse_uint_range; eassumption].
  Qed.

  Lemma header_quote_okst st : okst st -> okst (header_quote input st).
  Proof.
    intros H. unfold header_quote. pose proof (peek_ns_ok st H) as P. destruct (peek_ns input st) as [st1 ch].
    destruct (is_quote_rune ch); [apply forward_ok|]; exact P.
  Qed.

  Lemma header_tail_okst st : okst st -> okst (fst (header_tail input st)).
  Proof.
    intros H. unfold header_tail. pose proof (peek_ns_ok _ (header_quote_okst st H)) as P.
    destruct (peek_ns input (header_quote input st)) as [st1 ch]. destruct (ch =? 87); [apply forward_ok|]; exact P.
  Qed.

  Lemma parse_header_out st sv fv wb st' : okst st -> parse_header input st = POk (sv, fv, wb) st' ->
    okst st' /\ 0 <= sv <= 127 /\ 0 <= fv <= 255.
  Proof.
    intros H P. unfold parse_header in P.
    destruct (index_any2_from 10 46 (data st) 0); [|discriminate].
    match type of P with context [header_quote input ?S] => assert (H1 : okst S) by (destruct (index_byte 58 _); [apply forward_ok|]; exact H); set (S0 := S) in * end.
    pose proof (next_rune_ok _ (header_quote_okst S0 H1)) as H2.
    destruct (next_rune input (header_quote input S0)) as [st2 r2]. cbn [fst] in H2.
    destruct (negb (r2 =? 83)); [discriminate|].
    destruct (next_number input 8 PE_Code st2) as [sv' st3| |] eqn:N1; try discriminate.
    destruct (next_number_ok 8 PE_Code st2 sv' st3 ltac:(lia) H2 N1) as [H3 R3].
    destruct (sv' >? 127) eqn:E1; [discriminate|].
    pose proof (next_rune_ok _ H3) as H4. destruct (next_rune input st3) as [st4 r4]. cbn [fst] in H4.
    destruct (negb (r4 =? 70)); [discriminate|].
    destruct (next_number input 8 PE_Code st4) as [fv' st5| |] eqn:N2; try discriminate.
    destruct (next_number_ok 8 PE_Code st4 fv' st5 ltac:(lia) H4 N2) as [H5 R5].
    pose proof (header_tail_okst st5 H5) as H6. destruct (header_tail input st5) as [st6 wb6]. cbn [fst] in H6.
    inversion P; subst. change (2 ^ 8 - 1) with 255 in *. repeat split; try assumption; lia.
  Qed.

  Lemma parse_item_type_okst st ty st' : okst st -> parse_item_type input st = Some (ty, st') -> okst st'.
  Proof.
    intros H P. unfold parse_item_type in P. pose proof (skip_space_ok st H) as S.
    destruct (data (fst (skip_space input st))) as [|b0 t]; [discriminate|].
    repeat match type of P with
           | (if ?c then _ else _) = _ => destruct c
           | match ?x with Some _ => _ | None => _ end = _ => destruct x
           end; inversion P; subst; apply forward_ok; exact S.
  Qed.

  Lemma parse_item_size_okst st st' : okst st -> parse_item_size input st = POk tt st' -> okst st'.
  Proof.
    intros H P. unfold parse_item_size in P.
    pose proof (next_ns_ok st H) as H1. destruct (next_ns input st) as [st1 ch1]. cbn [fst] in H1.
    destruct (negb (ch1 =? c_lb)); [inversion P; subst; apply backward_ok; exact H1|].
    pose proof (peek_ns_ok st1 H1) as H2. destruct (peek_ns input st1) as [st2 ch2]. cbn [fst] in H2.
    match type of P with match ?R with _ => _ end = _ => destruct R as [[mn mx] st3| |] eqn:ER end; try discriminate.
    assert (H3 : okst st3).
    { destruct (ch2 =? c_dot).
      - destruct (next_number input 32 PE_ItemSize (forward input 2 st2)) as [mx' st4| |] eqn:N; try discriminate.
        inversion ER; subst. eapply next_number_ok; [| |exact N]; [lia|apply forward_ok; exact H2].
      - destruct (next_number input 32 PE_ItemSize st2) as [mn' st4| |] eqn:N; try discriminate.
        destruct (next_number_ok 32 PE_ItemSize st2 mn' st4 ltac:(lia) H2 N) as [H4 _].
        pose proof (peek_ns_ok st4 H4) as H5. destruct (peek_ns input st4) as [st5 ch5]. cbn [fst] in H5.
        destruct (ch5 =? c_dot); [|inversion ER; subst; exact H5].
        destruct (peek_rune (forward input 2 st5) =? c_rb); [inversion ER; subst; apply forward_ok; exact H5|].
        destruct (next_number input 32 PE_ItemSize (forward input 2 st5)) as [mx' st6| |] eqn:N6; try discriminate.
        inversion ER; subst. eapply next_number_ok; [| |exact N6]; [lia|apply forward_ok; exact H5]. }
    pose proof (next_ns_ok st3 H3) as H7. destruct (next_ns input st3) as [st7 ch7]. cbn [fst] in H7.
    destruct (negb (ch7 =? c_rb)); [discriminate|]. destruct (mn >? mx); [discriminate|]. inversion P; subst. exact H7.
  Qed.

  Lemma parse_values_out {A} (tok : bytes -> option A) e (mk : list A -> item) (P : A -> bool) st x st' :
    (forall t v, tok t = Some v -> P v = true) -> okst st ->
    parse_values input tok e mk st = POk x st' -> okst st' /\ exists vs, x = mk vs /\ forallb P vs = true.
  Proof.
    intros HP H R. unfold parse_values, value_strings in R.
    destruct (index_byte c_gt (data st)) as [i|].
    - destruct (map_opt tok (fields (firstn (Z.to_nat i) (data st)))) as [vs|] eqn:M; [|discriminate].
      inversion R; subst. split; [apply forward_ok; exact H|]. exists vs. split; [reflexivity|eapply map_opt_forall; eassumption].
    - destruct (map_opt tok [[]]) as [vs|] eqn:M; [|discriminate].
      inversion R; subst. split; [exact H|]. exists vs. split; [reflexivity|eapply map_opt_forall; eassumption].
  Qed.

  Lemma parse_quoted_out (mk : bytes -> item) eq eu st x st' : okst st ->
    parse_quoted input mk eq eu st = POk x st' -> okst st' /\ exists s, x = mk s /\ bytes_ok s = true.
  Proof.
    intros H R. unfold parse_quoted in R.
    pose proof (next_ns_ok st H) as H1. destruct (next_ns input st) as [st1 ch]. cbn [fst] in H1.
    destruct (ch =? c_gt); [inversion R; subst; split; [exact H1|exists []; split; reflexivity]|].
    destruct (negb (is_quote_rune ch)); [discriminate|].
    destruct (quoted_scan ch (data st1) 0 0 0) as [[lastq i]|]; [|discriminate].
    inversion R; subst. split; [apply forward_ok; exact H1|].
    eexists. split; [reflexivity|apply bytes_ok_firstn; exact H1].
  Qed.

  Lemma parse_ascii_out st x st' : okst st -> parse_ascii input st = POk x st' ->
    okst st' /\ exists s, x = IAscii s /\ bytes_ok s = true.
  Proof.
    intros H R. unfold parse_ascii in R.
    destruct (parse_ascii_strict (data st)) as [s n rest|e] eqn:PA; [|discriminate].
    inversion R; subst. split; [apply forward_ok; exact H|].
    exists s. split; [reflexivity|eapply parse_ascii_strict_ok; eassumption].
  Qed.

  Lemma parse_list_loop_out (pitem : pst -> pres item) (Q : item -> Prop) :
    (forall st x st', okst st -> pitem st = POk x st' -> okst st' /\ Q x) ->
    forall n st acc x st', okst st -> Forall Q acc ->
      parse_list_loop input pitem n st acc = POk x st' -> okst st' /\ exists cs, x = IList cs /\ Forall Q cs.
  Proof.
    intros HP. induction n as [|n IH]; intros st acc x st' H Hacc R; cbn [parse_list_loop] in R; [discriminate|].
    pose proof (peek_ns_ok st H) as H1. destruct (peek_ns input st) as [st1 ch]. cbn [fst] in H1.
    destruct (ch =? c_lt).
    - destruct (pitem st1) as [y st2| |] eqn:PI; try discriminate.
      destruct (HP _ _ _ H1 PI) as [H2 Wy].
      eapply IH; [exact H2| |exact R]. constructor; assumption.
    - destruct (ch =? c_gt); [|destruct (ch =? eof); discriminate].
      inversion R; subst. split; [apply forward_ok; exact H1|].
      exists (rev acc). split; [reflexivity|apply Forall_rev; exact Hacc].
  Qed.

  Lemma int_token_in w t v : int_token w t = Some v -> int_in w v = true.
  Proof.
    unfold int_token. destruct (parse_int true (wbits w) t) as [x| |] eqn:P; try discriminate.
    intros H; inversion H; subst. pose proof (parse_int_range true (wbits w) t v ltac:(destruct w; cbv; discriminate) P).
    unfold int_in. lia.
  Qed.

  Lemma uint_token_in w t v : uint_token w t = Some v -> uint_in w v = true.
  Proof.
    unfold uint_token. destruct (parse_uint true (wbits w) t) as [x| |] eqn:P; try discriminate.
    intros H; inversion H; subst. pose proof (parse_uint_range true (wbits w) t v ltac:(destruct w; cbv; discriminate) P).
    unfold uint_in. lia.
  Qed.

  Lemma binary_token_in t v : binary_token t = Some v -> byte_ok v = true.
  Proof.
    unfold binary_token. destruct (parse_int true 64 t) as [x| |]; try discriminate.
    destruct ((x <? 0) || (x >=? 256)) eqn:E; [discriminate|]. intros H; inversion H; subst. unfold byte_ok. lia.
  Qed.

  (** an accepted item is well formed and, read at nesting [d] <= the cap, stays within the cap *)
  Definition out_ok (d : Z) (x : item) : Prop :=
    wf_out x = true /\ d + Z.of_nat (depth x) <= max_list_depth.

  Lemma depth_list_bound d cs : d + 1 <= max_list_depth ->
    Forall (fun c => d + 1 + Z.of_nat (depth c) <= max_list_depth) cs ->
    d + Z.of_nat (depth (IList cs)) <= max_list_depth.
  Proof.
    intros Hd F. cbn [depth]. rewrite Nat2Z.inj_succ.
    assert (d + 1 + Z.of_nat (fold_right (fun c m => Nat.max (depth c) m) O cs) <= max_list_depth); [|lia].
    induction F as [|c l Hc _ IH]; cbn [fold_right]; [lia|]. lia.
  Qed.

  Theorem parse_item_out : forall fuel d st x st', okst st -> d <= max_list_depth ->
    parse_item fparse input fuel d st = POk x st' -> okst st' /\ out_ok d x.
  Proof.
    induction fuel as [|fuel IH]; intros d st x st' H Hd R; cbn [parse_item] in R; [discriminate|].
    pose proof (next_ns_ok st H) as H1. destruct (next_ns input st) as [st1 ch]. cbn [fst] in H1.
    destruct (negb (ch =? c_lt)); [discriminate|].
    destruct (parse_item_type input st1) as [[ty st2]|] eqn:PT; [|discriminate].
    pose proof (parse_item_type_okst _ _ _ H1 PT) as H2.
    destruct (parse_item_size input st2) as [[] st3| |] eqn:PS; try discriminate.
    pose proof (parse_item_size_okst _ _ H2 PS) as H3.
    pose proof (skip_comment_ok _ H3) as H4.
    destruct (parse_body fparse input (parse_item fparse input fuel) ty d (skip_comment input st3)) as [y st5| |] eqn:PB; try discriminate.
    inversion R; subst.
    assert (B : okst st5 /\ out_ok d x).
    { unfold out_ok. destruct ty; cbn [parse_body] in PB.
      - destruct (d + 1 >? max_list_depth) eqn:E; [discriminate|].
        destruct (parse_list_loop_out (parse_item fparse input fuel (d + 1)) (out_ok (d + 1))
                    (fun st x st' Hs Hp => IH (d + 1) st x st' Hs ltac:(lia) Hp) _ _ [] _ _ H4 (Forall_nil _) PB)
          as [K (cs & -> & F)].
        split; [exact K|]. split.
        + cbn [wf_out]. apply forallb_forall. intros c Hc. rewrite Forall_forall in F. apply F. exact Hc.
        + apply depth_list_bound; [lia|]. eapply Forall_impl; [|exact F]. intros a [_ Ha]. exact Ha.
      - destruct (parse_ascii_out _ _ _ H4 PB) as [K (s & -> & Bs)]. cbn [depth]. repeat split; try assumption; lia.
      - destruct (parse_quoted_out _ _ _ _ _ _ H4 PB) as [K (s & -> & Bs)]. cbn [depth]. repeat split; try assumption; lia.
      - destruct (parse_quoted_out _ _ _ _ _ _ H4 PB) as [K (s & -> & Bs)]. cbn [depth]. repeat split; try assumption; lia.
      - destruct (parse_values_out bool_token PE_Bool IBoolean (fun _ => true) _ _ _ ltac:(reflexivity) H4 PB) as [K (vs & -> & _)].
        cbn [depth]. repeat split; try assumption; lia.
      - destruct (parse_values_out binary_token PE_Binary IBinary byte_ok _ _ _ binary_token_in H4 PB) as [K (vs & -> & F)].
        cbn [depth]. repeat split; try assumption; lia.
      - destruct (parse_values_out (fparse w) PE_Float (IFloat w) (fdom w) _ _ _ (fparse_dom w) H4 PB) as [K (vs & -> & F)].
        cbn [depth]. repeat split; try assumption; lia.
      - destruct (parse_values_out (int_token w) PE_Int (IInt w) (int_in w) _ _ _ (int_token_in w) H4 PB) as [K (vs & -> & F)].
        cbn [depth]. repeat split; try assumption; lia.
      - destruct (parse_values_out (uint_token w) PE_Uint (IUint w) (uint_in w) _ _ _ (uint_token_in w) H4 PB) as [K (vs & -> & F)].
        cbn [depth]. repeat split; try assumption; lia. }
    destruct B as [B1 B2]. split; [apply skip_comment_ok; exact B1|exact B2].
  Qed.

  (** every accepted message: header in range, W only on odd functions, body empty or well formed
      and within the size limits *)
  Definition msg_out_ok (m : msg) : Prop :=
    0 <= m_stream m <= 127 /\ 0 <= m_function m <= 255 /\
    (m_wbit m && (m_function m mod 2 =? 0)) = false /\
    item_size_ok (m_body m) = true /\ (m_body m = IEmpty \/ wf_out (m_body m) = true) /\
    Z.of_nat (depth (m_body m)) <= max_list_depth.

  Lemma parse_msg_out fuel st om st' : okst st -> parse_msg fparse input fuel st = POk om st' ->
    okst st' /\ match om with Some m => msg_out_ok m | None => True end.
  Proof.
    intros H R. unfold parse_msg in R.
    pose proof (peek_ns_ok _ (skip_comment_ok st H)) as H1.
    destruct (peek_ns input (skip_comment input st)) as [st1 ch]. cbn [fst] in H1.
    destruct (ch =? eof); [inversion R; subst; split; [exact H1|exact I]|].
    destruct (parse_header input st1) as [[[sv fv] wb] st2| |] eqn:PH; try discriminate.
    destruct (parse_header_out _ _ _ _ _ H1 PH) as (H2 & Rs & Rf).
    destruct (parse_text fparse input fuel st2) as [body st3| |] eqn:PT; try discriminate.
    assert (B : okst st3 /\ (body = IEmpty \/ wf_out body = true) /\ Z.of_nat (depth body) <= max_list_depth).
    { unfold parse_text in PT. pose proof (peek_ns_ok _ (skip_comment_ok st2 H2)) as H3.
      destruct (peek_ns input (skip_comment input st2)) as [st4 ch4]. cbn [fst] in H3.
      destruct (ch4 =? c_dot); [inversion PT; subst; split; [exact H3|split; [left; reflexivity|cbv; discriminate]]|].
      assert (Z0 : 0 <= max_list_depth) by (cbv; discriminate).
      destruct (parse_item_out fuel 0 st4 body st3 H3 Z0 PT) as [K [W Dp]].
      split; [exact K|split; [right; exact W|lia]]. }
    destruct B as [H3 [Wb Db]].
    pose proof (next_ns_ok st3 H3) as H4. destruct (next_ns input st3) as [st4 ch4]. cbn [fst] in H4.
    destruct (negb (ch4 =? c_dot)); [discriminate|].
    destruct (negb (item_size_ok body) || wb && (fv mod 2 =? 0)) eqn:E; [discriminate|].
    inversion R; subst. split; [exact H4|].
    unfold msg_out_ok. cbn [m_stream m_function m_wbit m_body].
    apply orb_false_iff in E. destruct E as [E1 E2]. apply negb_false_iff in E1. tauto.
  Qed.

  Lemma parse_msgs_out fuel : forall n st acc ms st', okst st -> Forall msg_out_ok acc ->
    parse_msgs fparse input n fuel st acc = POk ms st' -> Forall msg_out_ok ms.
  Proof.
    induction n as [|n IH]; intros st acc ms st' H Hacc R; cbn [parse_msgs] in R; [discriminate|].
    destruct (parse_msg fparse input fuel st) as [[m|] st1| |] eqn:PM; try discriminate.
    - destruct (parse_msg_out _ _ _ _ H PM) as [H1 Om].
      eapply IH; [exact H1| |exact R]. constructor; assumption.
    - inversion R; subst. apply Forall_rev. exact Hacc.
  Qed.
End Output.

(** sml.ParseStrict on bytes: every message it returns is in range and well formed *)
Theorem parse_strict_out fparse :
  (forall w tok v, fparse w tok = Some v -> fdom w v = true) ->
  forall input ms st, bytes_ok input = true -> parse_strict fparse input = POk ms st -> Forall msg_out_ok ms.
Proof.
  intros FD input ms st Hin R. unfold parse_strict in R.
  eapply (parse_msgs_out fparse FD input Hin); [|constructor|exact R]. exact Hin.
Qed.
