(** Model of the per-type [ToSML] renderers of package secs2 (ascii.go, jis8.go,
    localized_str.go, binary.go, boolean.go, int.go, uint.go, float.go, list.go formatSML,
    item.go EmptyItem) — the library's SECOND, independent SML renderer.

    Numeric and boolean items keep their values in a [storage]: [size], a [scalar] used when
    size = 1 and a [values] slice otherwise (constructors AND the decoder establish exactly this:
    [store]). ToSML branches on the size; the iterators the sml encoder uses ([Ints()] …) branch
    the same way ([iter_storage]). Both are modelled so the theorem covers the storage cases. *)
From Coq Require Import ZArith List Bool.
From GoSecs Require Import Base.Decimal Sml.Syntax.
Import ListNotations.
Open Scope Z_scope.

(** "for i, v := range values { if i > 0 { ' ' }; tok v }" *)
Definition join_sp (toks : list bytes) : bytes :=
  match toks with
  | [] => []
  | t :: ts => t ++ flat_map (fun x => c_sp :: x) ts
  end.

Section ToSml.
  Variable ffmt : fwidth -> Z -> bytes.
  Variable quote : bytes -> bytes.

  (** shared shape of IntItem/UintItem/FloatItem/BooleanItem.ToSML:
      size 0: "<T[0]>"; else "<T[size] " + (scalar | values joined by ' ') + ">" *)
  Definition sml_storage {A} (tag : bytes) (tok : A -> bytes) (st : storage A) : bytes :=
    if st_size st =? 0 then [c_lt] ++ tag ++ [c_lb; 48; c_rb; c_gt]
    else [c_lt] ++ tag ++ [c_lb] ++ format_int (st_size st) ++ [c_rb; c_sp]
         ++ (if st_size st =? 1 then tok (st_scalar st) else join_sp (map tok (st_values st)))
         ++ [c_gt].

  Definition sml_string (tok : Z) (s : bytes) : bytes :=
    match s with
    | [] => [c_lt; tok; c_lb; 48; c_rb; c_sp; c_dq; c_dq; c_gt]
    | _ => [c_lt; tok; c_lb] ++ format_int (blen s) ++ [c_rb; c_sp; c_dq] ++ s ++ [c_dq; c_gt]
    end.

  Definition sml_binary (bs : bytes) : bytes :=
    match bs with
    | [] => [c_lt; 66; c_lb; 48; c_rb; c_gt]
    | _ => [c_lt; 66; c_lb] ++ format_int (blen bs) ++ [c_rb; c_sp]
           ++ join_sp (map (fun b => [48; 120] ++ format_hex2 b) bs) ++ [c_gt]
    end.

  (** ToSML of every non-list item *)
  Definition to_sml_leaf (x : item) : bytes :=
    match x with
    | IEmpty => []
    | IList _ => []     (* not a leaf; see [to_sml_at] *)
    | IAscii s => sml_string 65 s
    | IJis8 s => sml_string 74 s
    | ILocal s => [c_lt; 87; c_sp] ++ quote s ++ [c_gt]     (* fmt.Sprintf("<W %q>") *)
    | IBinary bs => sml_binary bs
    | IBoolean vs => sml_storage s_BOOLEAN (fun v : bool => if v then s_True else s_False) (store false vs)
    | IInt w vs => sml_storage (73 :: format_int (wbytes w)) format_int (store 0 vs)
    | IUint w vs => sml_storage (85 :: format_int (wbytes w)) format_uint (store 0 vs)
    | IFloat w vs => sml_storage (70 :: format_int (fbytes w)) (ffmt w) (store 0 vs)
    end.

  (** ListItem.formatSML(level); a non-list child is rendered by its own ToSML after
      indentStr + "  ", a list child by formatSML(level+1). The indentation unit is the literal
      two spaces. *)
  Fixpoint to_sml_at (level : nat) (x : item) : bytes :=
    match x with
    | IList cs =>
        let ind := rep [c_sp; c_sp] level in
        match cs with
        | [] => ind ++ [c_lt; 76; c_lb; 48; c_rb; c_gt]
        | _ =>
            ind ++ [c_lt; 76; c_lb] ++ format_int (Z.of_nat (length cs)) ++ [c_rb; c_nl]
            ++ flat_map (fun v =>
                           if is_list v then to_sml_at (S level) v ++ [c_nl]
                           else ind ++ [c_sp; c_sp] ++ to_sml_at (S level) v ++ [c_nl]) cs
            ++ ind ++ [c_gt]
        end
    | _ => to_sml_leaf x
    end.

  (** Item.ToSML() *)
  Definition to_sml (x : item) : bytes := to_sml_at O x.
End ToSml.
