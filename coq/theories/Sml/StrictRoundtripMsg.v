(** C13, message level: header line, body, terminating dot, construction checks; then the
    statement for the encoder as it is (ASCII items without the closing bracket), for the repaired
    encoder (all bytes), and parse-encode-parse. *)
From Coq Require Import ZArith List Lia Bool ZifyBool.
From GoSecs Require Import Base.Decimal Base.DecimalProofs Base.Utf8 Sml.Syntax Sml.Encoder Sml.ToSml
  Sml.ToSmlProofs Sml.StrictAscii Sml.StrictAsciiProofs Sml.StrictParser Sml.StrictParserLemmas
  Sml.StrictUtf8Proofs Sml.StrictRoundtripDefs Sml.StrictRoundtripLeaves Sml.StrictRoundtripItems
  Sml.StrictRoundtrip.
Import ListNotations.
Open Scope Z_scope.

Lemma index_any2_app c1 c2 a c t : ~ In c1 a -> ~ In c2 a -> c = c1 \/ c = c2 -> forall i,
  index_any2_from c1 c2 (a ++ c :: t) i = Some (i + blen a).
Proof.
  induction a as [|b a IH]; intros N1 N2 Hc i; cbn [app index_any2_from].
  - replace ((c =? c1) || (c =? c2)) with true by lia. rewrite blen_nil. f_equal. lia.
  - assert (b <> c1) by (intros ->; apply N1; left; reflexivity).
    assert (b <> c2) by (intros ->; apply N2; left; reflexivity).
    replace ((b =? c1) || (b =? c2)) with false by lia.
    rewrite IH; [rewrite blen_cons; f_equal; lia| | |exact Hc]; intros I; [apply N1|apply N2]; right; exact I.
Qed.

Lemma In_firstn {A} (x : A) k l : In x (firstn k l) -> In x l.
Proof.
  revert l. induction k as [|k IH]; intros l I; [contradiction|].
  destruct l as [|a l]; [contradiction|]. cbn [firstn] in I. destruct I as [->|I]; [left; reflexivity|right; apply IH; exact I].
Qed.

Lemma Forall2_len {A B} {R : A -> B -> Prop} {l l'} : Forall2 R l l' -> length l = length l'.
Proof. induction 1; cbn [length]; congruence. Qed.

Lemma in_firstn_app_1 (x : Z) k (A : bytes) b B : (k <= length A + 1)%nat ->
  In x (firstn k (A ++ b :: B)) -> In x (A ++ [b]).
Proof.
  intros Hk I. rewrite firstn_app in I. apply in_app_or in I. apply in_or_app. destruct I as [I|I].
  - left. eapply In_firstn; exact I.
  - right. destruct (k - length A)%nat as [|[|n]] eqn:E; cbn [firstn] in I; [contradiction| |lia].
    destruct I as [->|[]]. left. reflexivity.
Qed.

(** the depth of an item is bounded by the length of its text *)
Lemma depth_le_body wsa ffmt quote o : forall x level, (depth x <= length (enc_body wsa ffmt quote o level x))%nat.
Proof.
  induction x as [|cs IH|s|s|s|bs|vs|w vs|w vs|w vs] using item_ind'; intros level; cbn [depth]; try lia.
  cbn [enc_body]. destruct cs as [|c cs']; [cbn [length fold_right]; lia|].
  remember (c :: cs') as cs. clear Heqcs.
  rewrite !app_length. cbn [length].
  assert (fold_right (fun c m => Nat.max (depth c) m) O cs
          <= length (flat_map (fun c => rep (eo_indent o) (S level) ++ enc_body wsa ffmt quote o (S level) c ++ [c_nl]) cs))%nat; [|lia].
  induction IH as [|a l Ha _ IHl]; cbn [fold_right flat_map]; [lia|].
  rewrite !app_length. specialize (Ha (S level)). lia.
Qed.

Section Sizes.
  Variable egt : bool.
  Variable quote_plain : bytes -> bool.
  Variable narrow32 : Z -> Z.

  Lemma dom_size_ok : forall x, dom_item egt quote_plain x = true -> item_size_ok x = true.
  Proof.
    induction x as [|cs IH|s|s|s|bs|vs|w vs|w vs|w vs] using item_ind'; cbn [dom_item item_size_ok]; intros D;
      try discriminate; try lia.
    apply andb_true_iff in D. destruct D as [D1 D2]. apply andb_true_iff. split; [exact D1|].
    apply forallb_forall. intros x Hx. rewrite Forall_forall in IH. apply IH; [exact Hx|].
    rewrite forallb_forall in D2. apply D2. exact Hx.
  Qed.

  Lemma eqv_size_ok : forall x x', item_eqv narrow32 x x' -> item_size_ok x' = item_size_ok x.
  Proof.
    induction x as [|cs IH|s|s|s|bs|vs|w vs|w vs|w vs] using item_ind'; intros x' E; inversion E; subst; try reflexivity.
    - match goal with H : Forall2 _ cs _ |- _ => rename H into F2 end.
      cbn [item_size_ok]. rewrite (Forall2_len F2). f_equal.
      clear E. induction F2 as [|a b l l' Hab _ IHl]; [reflexivity|].
      pose proof (Forall_inv IH) as Ia. pose proof (Forall_inv_tail IH) as Il.
      cbn [forallb]. rewrite (Ia _ Hab), (IHl Il). reflexivity.
    - match goal with H : Forall2 _ vs _ |- _ => rename H into F2 end.
      cbn [item_size_ok]. rewrite (Forall2_len F2). reflexivity.
  Qed.
End Sizes.

Section Message.
  Variable egt : bool.
  Variable ffmt : fwidth -> Z -> bytes.
  Variable quote : bytes -> bytes.
  Variable fparse : fwidth -> bytes -> option Z.
  Variable quote_plain : bytes -> bool.
  Variable narrow32 : Z -> Z.
  Hypothesis ffmt_good : forall w v, fdom w v = true -> good_tok (ffmt w v) = true.
  Hypothesis float_roundtrip : forall w v, fdom w v = true ->
    exists v', fparse w (ffmt w v) = Some v' /\ feq narrow32 w v v'.
  Hypothesis quote_law : forall s, quote_plain s = true -> quote s = c_dq :: s ++ [c_dq].

  Notation wsa := (write_strict_ascii_gen egt).
  Variable o : enc_opts.
  Hypothesis Ho : opts_ok o = true.

  (** header characters: quotes, S, F, digits, space, W — never newline, dot, bracket or colon *)
  Definition hdr_char (c : Z) : Prop := c = c_sq \/ c = c_dq \/ c = 83 \/ c = 70 \/ c = 32 \/ c = 87 \/ (48 <= c <= 57).

  Lemma sf_quote_cases : sf_quote o = [] \/ sf_quote o = [c_sq] \/ sf_quote o = [c_dq].
  Proof. unfold sf_quote. destruct (eo_sf_quote o =? 1); [tauto|]. destruct (eo_sf_quote o =? 2); tauto. Qed.

  Lemma format_int_hdr n : 0 <= n -> Forall hdr_char (format_int n).
  Proof.
    intros H. pose proof (format_int_chars n) as F. rewrite format_int_nonneg in * by exact H.
    pose proof (format_uint_digits n H) as G. eapply Forall_impl; [|exact G].
    intros a Ha. unfold is_digit in Ha. unfold hdr_char. lia.
  Qed.

  Ltac hdr_list := repeat (apply Forall_cons; [unfold hdr_char, c_sp, c_sq, c_dq; lia|]); apply Forall_nil.

  Lemma header_chars m : 0 <= m_stream m -> 0 <= m_function m -> Forall hdr_char (write_header o m).
  Proof.
    intros Hs Hf. unfold write_header.
    assert (Q : Forall hdr_char (sf_quote o)).
    { destruct sf_quote_cases as [->|[->| ->]]; hdr_list. }
    repeat (apply Forall_app; split); try exact Q; try (apply format_int_hdr; assumption).
    - hdr_list.
    - hdr_list.
    - destruct (m_wbit m); hdr_list.
  Qed.

  Lemma hdr_not c l : Forall hdr_char l -> ~ hdr_char c -> ~ In c l.
  Proof. intros F N I. rewrite Forall_forall in F. apply N. apply F. exact I. Qed.

  (** the optional S/F quote *)
  Lemma header_quote_ok input P sq W x t :
    sq = [] \/ sq = [c_sq] \/ sq = [c_dq] -> Forall is_ws W -> is_sml_space x = false -> is_quote_rune x = false ->
    input = P ++ sq ++ W ++ x :: t ->
    exists P', header_quote input (mkst P (sq ++ W ++ x :: t)) = mkst P' (match sq with [] => x :: t | _ => W ++ x :: t end)
               /\ input = P' ++ (match sq with [] => x :: t | _ => W ++ x :: t end).
  Proof.
    intros Hsq FW NS NQ Hin. unfold header_quote. destruct Hsq as [->|Hsq].
    - cbn [app] in *. rewrite peek_ns_ws by assumption. rewrite NQ.
      exists (P ++ W). split; [reflexivity|lsolve Hin].
    - assert (exists qc, sq = [qc] /\ is_quote_rune qc = true /\ is_sml_space qc = false) as (qc & -> & Q1 & Q2).
      { destruct Hsq as [->| ->]; eexists; repeat split. }
      cbn [app] in *.
      pose proof (peek_ns_ws input P [] qc (W ++ x :: t)) as Pk. cbn [app] in Pk. rewrite app_nil_r in Pk.
      rewrite Pk by (try exact Hin; try exact Q2; constructor). rewrite Q1.
      rewrite forward_1 by exact Hin. exists (P ++ [qc]). split; [reflexivity|lsolve Hin].
  Qed.

  Lemma header_quote_ok0 input P sq x t :
    sq = [] \/ sq = [c_sq] \/ sq = [c_dq] -> is_sml_space x = false -> is_quote_rune x = false ->
    input = P ++ sq ++ x :: t ->
    exists P', header_quote input (mkst P (sq ++ x :: t)) = mkst P' (x :: t) /\ input = P' ++ x :: t.
  Proof.
    intros Hsq NS NQ Hin.
    destruct (header_quote_ok input P sq [] x t Hsq (Forall_nil _) NS NQ Hin) as (P' & H1 & H2).
    exists P'. destruct sq; cbn [app] in *; split; assumption.
  Qed.

  Section WithInput.
    Variable input : bytes.
    Variable m : msg.
    Hypothesis Dm : dom_msg egt quote_plain m = true.
    (** after the header line: whitespace, then the first character of the body or the final dot *)
    Variables (Wt : bytes) (c : Z) (r : bytes).
    Hypothesis HWt : Forall is_ws Wt.
    Hypothesis Hc : c = c_lt \/ c = c_dot.
    Hypothesis Hin : input = write_header o m ++ c_nl :: Wt ++ c :: r.
    (** without a body there is no bracket at all *)
    Hypothesis Hlt : c = c_dot -> ~ In c_lt r.

    Lemma ws_not_in x : is_sml_space x = false -> ~ In x Wt.
    Proof. intros N I. rewrite Forall_forall in HWt. specialize (HWt _ I). unfold is_ws in HWt. congruence. Qed.

    Lemma header_tail_ok P sq :
      sq = [] \/ sq = [c_sq] \/ sq = [c_dq] ->
      input = P ++ sq ++ (if m_wbit m then [c_sp; 87] else []) ++ c_nl :: Wt ++ c :: r ->
      exists q, header_tail input (mkst P (sq ++ (if m_wbit m then [c_sp; 87] else []) ++ c_nl :: Wt ++ c :: r))
                = (mkst q (if m_wbit m then c_nl :: Wt ++ c :: r else c :: r), m_wbit m)
                /\ input = q ++ (if m_wbit m then c_nl :: Wt ++ c :: r else c :: r).
    Proof.
      intros SQ HinP. unfold header_tail.
      assert (NSc : is_sml_space c = false) by (destruct Hc as [->| ->]; reflexivity).
      assert (NQc : is_quote_rune c = false) by (destruct Hc as [->| ->]; reflexivity).
      destruct (m_wbit m).
      - (* " W" *)
        destruct (header_quote_ok input P sq [c_sp] 87 (c_nl :: Wt ++ c :: r) SQ ltac:(repeat constructor) eq_refl eq_refl HinP)
          as (P' & HQ & HinQ).
        change (sq ++ [c_sp; 87] ++ c_nl :: Wt ++ c :: r) with (sq ++ [c_sp] ++ 87 :: c_nl :: Wt ++ c :: r).
        rewrite HQ.
        destruct sq as [|x sq'].
        + pose proof (peek_ns_ws input P' [] 87 (c_nl :: Wt ++ c :: r)) as Pk. cbn [app] in Pk. rewrite app_nil_r in Pk.
          rewrite Pk by (try exact HinQ; try constructor; reflexivity).
          rewrite Z.eqb_refl. rewrite forward_1 by exact HinQ.
          eexists. split; [reflexivity|lsolve HinQ].
        + rewrite peek_ns_ws by (try exact HinQ; try reflexivity; repeat constructor).
          rewrite Z.eqb_refl. rewrite forward_1 by lsolve HinQ.
          eexists. split; [reflexivity|lsolve HinQ].
      - cbn [app] in *.
        change (sq ++ c_nl :: Wt ++ c :: r) with (sq ++ (c_nl :: Wt) ++ c :: r) in *.
        assert (FW : Forall is_ws (c_nl :: Wt)) by (constructor; [reflexivity|exact HWt]).
        destruct (header_quote_ok input P sq (c_nl :: Wt) c r SQ FW NSc NQc HinP) as (P' & HQ & HinQ).
        rewrite HQ.
        assert (N87 : (c =? 87) = false) by (destruct Hc as [->| ->]; reflexivity).
        destruct sq as [|x sq'].
        + pose proof (peek_ns_ws input P' [] c r) as Pk. cbn [app] in Pk. rewrite app_nil_r in Pk.
          rewrite Pk by (try exact HinQ; try constructor; exact NSc).
          rewrite N87. eexists. split; [reflexivity|exact HinQ].
        + rewrite peek_ns_ws by (try exact HinQ; try exact FW; exact NSc).
          rewrite N87. eexists. split; [reflexivity|lsolve HinQ].
    Qed.

    Lemma parse_header_ok :
      exists q, parse_header input (mkst [] input)
                = POk (m_stream m, m_function m, m_wbit m) (mkst q (if m_wbit m then c_nl :: Wt ++ c :: r else c :: r))
                /\ input = q ++ (if m_wbit m then c_nl :: Wt ++ c :: r else c :: r).
    Proof.
      pose proof Dm as Dm'. unfold dom_msg in Dm'. repeat (apply andb_true_iff in Dm'; destruct Dm' as [Dm' ?]).
      assert (Hs : 0 <= m_stream m <= 127) by lia. assert (Hf : 0 <= m_function m <= 255) by lia.
      pose proof (header_chars m ltac:(lia) ltac:(lia)) as HC.
      assert (NSc : is_sml_space c = false) by (destruct Hc as [->| ->]; reflexivity).
      unfold parse_header. cbn [data mkst].
      set (A := write_header o m ++ c_nl :: Wt).
      assert (HinA : input = A ++ c :: r) by (subst A; lsolve Hin).
      assert (NA : forall x, ~ hdr_char x -> is_sml_space x = false -> ~ In x A).
      { intros x N1 N2 I. subst A. apply in_app_or in I. destruct I as [I|[E|I]].
        - revert I. apply hdr_not; assumption.
        - subst x. discriminate N2.
        - revert I. apply ws_not_in. exact N2. }
      (* the first newline-or-dot ends the header *)
      assert (T1 : index_any2_from 10 46 input 0 = Some (blen (write_header o m))).
      { rewrite Hin. rewrite (index_any2_app 10 46 (write_header o m) c_nl); [reflexivity| | |left; reflexivity];
          apply hdr_not; try exact HC; unfold hdr_char, c_sq, c_dq; lia. }
      rewrite T1.
      (* no colon up to the first bracket *)
      assert (Colon : index_byte 58 (firstn (Z.to_nat (Z.max (blen (write_header o m))
                        match index_byte c_lt input with Some i => i | None => -1 end)) input) = None).
      { apply index_byte_none. intros I.
        assert (K : (Z.to_nat (Z.max (blen (write_header o m)) match index_byte c_lt input with Some i => i | None => -1 end) <= length A)%nat).
        { assert (LA : blen (write_header o m) <= blen A) by (subst A; rewrite blen_app; pose proof (blen_nonneg (c_nl :: Wt)); lia).
          destruct Hc as [E|E].
          - rewrite HinA, E. rewrite index_byte_app by (apply NA; [unfold hdr_char, c_sq, c_dq, c_lt; lia|reflexivity]).
            unfold blen in *. lia.
          - rewrite index_byte_none; [unfold blen in *; lia|].
            rewrite HinA, E. intros I2. apply in_app_or in I2. destruct I2 as [I2|[E2|I2]]; [|discriminate|exact (Hlt E I2)].
            revert I2. apply NA; [unfold hdr_char, c_sq, c_dq, c_lt; lia|reflexivity]. }
        set (k := Z.to_nat (Z.max (blen (write_header o m)) match index_byte c_lt input with Some i => i | None => -1 end)) in *.
        clearbody k.
        rewrite HinA in I. rewrite firstn_app in I. apply in_app_or in I. destruct I as [I|I].
        - apply In_firstn in I. revert I. apply NA; [unfold hdr_char, c_sq, c_dq; lia|reflexivity].
        - replace (k - length A)%nat with O in I by lia. cbn [firstn] in I. exact I. }
      rewrite Colon.
      (* the header text, piece by piece *)
      unfold write_header in Hin.
      set (sq := sf_quote o) in *.
      set (wt := if m_wbit m then [c_sp; 87] else []) in *.
      pose proof sf_quote_cases as SQ. fold sq in SQ.
      set (T0 := format_int (m_stream m) ++ 70 :: format_int (m_function m) ++ sq ++ wt ++ c_nl :: Wt ++ c :: r).
      assert (Hin0 : input = [] ++ sq ++ 83 :: T0) by (subst T0; lsolve Hin).
      assert (In1 : mkst [] input = mkst [] (sq ++ 83 :: T0)) by (f_equal; exact Hin0).
      rewrite In1.
      destruct (header_quote_ok0 input [] sq 83 T0 SQ eq_refl eq_refl Hin0) as (P1 & HQ1 & HinQ1).
      rewrite HQ1.
      rewrite next_rune_cons by exact HinQ1. rewrite Z.eqb_refl. cbn [negb].
      subst T0.
      rewrite (next_number_format input 8 PE_Code (P1 ++ [83]) (m_stream m) 70 _) by (try reflexivity; try lia; lsolve HinQ1).
      replace (m_stream m >? 127) with false by lia.
      rewrite next_rune_cons by lsolve HinQ1. rewrite Z.eqb_refl. cbn [negb].
      (* the function code is followed by a quote, a space or the newline *)
      assert (exists x T2, sq ++ wt ++ c_nl :: Wt ++ c :: r = x :: T2 /\ is_digit x = false) as (x & T2 & ET & NDx).
      { destruct SQ as [E|[E|E]]; rewrite E; cbn [app].
        - subst wt. destruct (m_wbit m); eexists _, _; split; reflexivity.
        - eexists _, _; split; reflexivity.
        - eexists _, _; split; reflexivity. }
      assert (Hin2 : input = (((P1 ++ [83]) ++ format_int (m_stream m)) ++ [70]) ++ format_int (m_function m) ++ x :: T2) by (rewrite <- ET; lsolve HinQ1).
      rewrite ET.
      rewrite (next_number_format input 8 PE_Code _ (m_function m) x T2 Hin2) by (try reflexivity; try lia; exact NDx).
      rewrite <- ET.
      destruct (header_tail_ok ((((P1 ++ [83]) ++ format_int (m_stream m)) ++ [70]) ++ format_int (m_function m)) sq SQ) as (q & HT & Hq).
      { fold wt. rewrite Hin2, <- ET. lnorm. reflexivity. }
      fold wt in HT. rewrite HT. exists q. split; [reflexivity|exact Hq].
    Qed.
  End WithInput.

  Lemma header_head m : exists h0 t0, write_header o m = h0 :: t0 /\ is_sml_space h0 = false /\ h0 <> 47 /\ h0 <> -1.
  Proof.
    unfold write_header. destruct sf_quote_cases as [->|[->| ->]]; cbn [app]; eexists _, _; repeat split; discriminate.
  Qed.

  Lemma parse_msg_end input q : input = q ++ [] ->
    parse_msg fparse input (S (length input)) (mkst q []) = POk None (mkst q []).
  Proof. intros _. reflexivity. Qed.

  (** C13, first half: the strict parser reads back the strict encoder's text *)
  Theorem encode_parse_msg m : dom_msg egt quote_plain m = true ->
    exists m' st, parse_strict fparse (encode_msg_w wsa ffmt quote o m) = POk [m'] st /\ msg_eqv narrow32 m m'.
  Proof.
    intros Dm. pose proof Dm as Dm'. unfold dom_msg in Dm'.
    repeat (apply andb_true_iff in Dm'; destruct Dm' as [Dm' ?]).
    set (input := encode_msg_w wsa ffmt quote o m).
    (* the shape of the text after the header line *)
    assert (Shape : exists Wt c r, Forall is_ws Wt /\ (c = c_lt \/ c = c_dot) /\
              input = write_header o m ++ c_nl :: Wt ++ c :: r /\ (c = c_dot -> ~ In c_lt r) /\
              ((c = c_dot /\ r = [] /\ m_body m = IEmpty) \/
               (c = c_lt /\ dom_item egt quote_plain (m_body m) = true /\
                c :: r = enc_body wsa ffmt quote o O (m_body m) ++ [c_nl; c_dot] /\ Wt = []))).
    { subst input. unfold encode_msg_w.
      destruct (is_empty (m_body m)) eqn:IE.
      - assert (EB : m_body m = IEmpty) by (destruct (m_body m); try discriminate; reflexivity).
        rewrite EB.
        exists [c_nl], c_dot, []. split; [repeat constructor|]. split; [right; reflexivity|].
        split; [reflexivity|]. split; [intros _ []|left; repeat split].
      - match goal with H : (false || _) = true |- _ => cbn [orb] in H; rename H into DI end.
        destruct (body_head egt ffmt quote quote_plain o (m_body m) O DI) as (b & Eb).
        exists [], c_lt, (b ++ [c_nl; c_dot]). split; [constructor|]. split; [left; reflexivity|].
        rewrite encode_item_split. unfold lead. destruct (is_list (m_body m)); cbn [rep app]; rewrite Eb;
          (split; [lnorm; reflexivity|]; split; [discriminate|right; repeat split; assumption]). }
    destruct Shape as (Wt & c & r & FWt & Hc & Hin & Hlt & Cases).
    clearbody input.
    assert (NSc : is_sml_space c = false) by (destruct Hc as [->| ->]; reflexivity).
    assert (N47 : c <> 47) by (destruct Hc as [->| ->]; discriminate).
    destruct (header_head m) as (h0 & t0 & Eh & NS0 & N470 & NE0).
    unfold parse_strict.
    assert (Len : (1 <= length input)%nat) by (rewrite Hin, Eh; cbn [app length]; lia).
    destruct (length input) as [|n0] eqn:EL; [lia|]. rewrite <- EL. clear Len.
    cbn [parse_msgs]. unfold parse_msg at 1.
    assert (In0 : {| pos := 0; data := input |} = mkst [] input) by reflexivity.
    rewrite In0.
    assert (Hin0 : input = [] ++ [] ++ h0 :: (t0 ++ c_nl :: Wt ++ c :: r)) by (rewrite Hin, Eh; reflexivity).
    replace (mkst [] input) with (mkst [] ([] ++ h0 :: (t0 ++ c_nl :: Wt ++ c :: r))) by (f_equal; symmetry; exact Hin0).
    rewrite (skip_comment_ws input [] [] h0 _ Hin0 (Forall_nil _) NS0 N470).
    change (h0 :: t0 ++ c_nl :: Wt ++ c :: r) with ([] ++ h0 :: (t0 ++ c_nl :: Wt ++ c :: r)).
    rewrite (peek_ns_ws input ([] ++ []) [] h0 _ Hin0 (Forall_nil _) NS0).
    replace (h0 =? eof) with false by (unfold eof; lia).
    cbn [app].
    replace (mkst [] (h0 :: t0 ++ c_nl :: Wt ++ c :: r)) with (mkst [] input) by (f_equal; rewrite Hin, Eh; reflexivity).
    destruct (parse_header_ok input m Dm Wt c r FWt Hc Hin Hlt) as (q & PH & Hq).
    rewrite PH.
    (* parseText: to the body or the dot *)
    unfold parse_text.
    assert (SC : exists q', skip_comment input (mkst q (if m_wbit m then c_nl :: Wt ++ c :: r else c :: r)) = mkst q' (c :: r)
                            /\ input = q' ++ c :: r).
    { destruct (m_wbit m).
      - exists (q ++ c_nl :: Wt). split; [|lsolve Hq].
        apply (skip_comment_ws input q (c_nl :: Wt) c r Hq); [constructor; [reflexivity|exact FWt]|exact NSc|exact N47].
      - exists q. split; [|exact Hq].
        pose proof (skip_comment_ws input q [] c r) as S. cbn [app] in S. rewrite app_nil_r in S.
        apply S; [exact Hq|constructor|exact NSc|exact N47]. }
    destruct SC as (q' & SC & Hq'). rewrite SC.
    pose proof (peek_ns_ws input q' [] c r) as Pk. cbn [app] in Pk. rewrite app_nil_r in Pk.
    rewrite Pk by (try exact Hq'; try constructor; exact NSc). clear Pk.
    assert (NoW : m_wbit m && (m_function m mod 2 =? 0) = false) by (destruct (m_wbit m); cbn [negb orb andb] in *; lia).
    destruct Cases as [(-> & -> & EB)|(-> & DI & Er & ->)].
    - (* empty body *)
      rewrite Z.eqb_refl.
      pose proof (next_ns_ws input q' [] c_dot []) as Nx. cbn [app] in Nx.
      rewrite Nx by (try exact Hq'; try constructor; reflexivity). clear Nx.
      rewrite Z.eqb_refl. cbn [negb item_size_ok orb]. rewrite NoW.
      rewrite EL. cbn [parse_msgs]. rewrite <- EL.
      rewrite parse_msg_end by (rewrite app_nil_r; lsolve Hq').
      eexists _, _. split; [reflexivity|].
      unfold msg_eqv. cbn [m_stream m_function m_wbit m_body]. rewrite EB. repeat split. constructor.
    - (* a body of the grammar *)
      change (c_lt =? c_dot) with false. cbv iota.
      rewrite Er in *.
      assert (HinB : input = q' ++ [] ++ enc_body wsa ffmt quote o O (m_body m) ++ [c_nl] ++ c_dot :: []) by lsolve Hq'.
      assert (Dp : (depth (m_body m) < S (length input))%nat).
      { pose proof (depth_le_body wsa ffmt quote o (m_body m) O) as L.
        rewrite HinB. rewrite !app_length. lia. }
      assert (Dd : 0 + Z.of_nat (depth (m_body m)) <= max_list_depth) by lia.
      destruct (reads_all egt ffmt quote fparse quote_plain narrow32 ffmt_good float_roundtrip quote_law o Ho input
                  (m_body m) DI (S (length input)) 0 O q' [] [c_nl] c_dot [] Dp Dd (Forall_nil _)
                  ltac:(repeat constructor) ltac:(split; [reflexivity|discriminate]) HinB) as (x' & q2 & R & Hq2 & Ev).
      assert (SameSt : mkst q' (enc_body wsa ffmt quote o O (m_body m) ++ [c_nl; c_dot])
                       = mkst q' ([] ++ enc_body wsa ffmt quote o O (m_body m) ++ [c_nl] ++ [c_dot])) by reflexivity.
      rewrite SameSt, R.
      pose proof (next_ns_ws input q2 [] c_dot []) as Nx. cbn [app] in Nx.
      rewrite Nx by (try exact Hq2; try constructor; reflexivity). clear Nx.
      rewrite Z.eqb_refl. cbn [negb].
      rewrite (eqv_size_ok narrow32 _ _ Ev), (dom_size_ok egt quote_plain _ DI). cbn [negb orb]. rewrite NoW.
      rewrite EL. cbn [parse_msgs]. rewrite <- EL.
      rewrite parse_msg_end by (rewrite app_nil_r; lsolve Hq2).
      eexists _, _. split; [reflexivity|].
      unfold msg_eqv. cbn [m_stream m_function m_wbit m_body]. repeat split. exact Ev.
  Qed.
End Message.
