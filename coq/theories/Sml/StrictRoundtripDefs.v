(** Vocabulary of the message-level round-trip theorems of C13: the strconv oracles and their
    laws' ingredients, the domain of the statement as a boolean predicate, equality of bodies
    "NaN payload bits and the localized-string header aside", and the encoder output split into
    leading indentation + body. *)
From Coq Require Import ZArith List Lia Bool ZifyBool.
From GoSecs Require Import Base.Decimal Base.DecimalProofs Base.Utf8 Sml.Syntax Sml.Encoder
  Sml.ToSmlProofs Sml.StrictAscii Sml.StrictAsciiProofs Sml.StrictParser.
Import ListNotations.
Open Scope Z_scope.

(** characters strconv.FormatFloat(_, 'G', _, _) may print: digits, letters, '+', '-', '.' *)
Definition vtok_char (c : Z) : bool :=
  in_range 48 57 c || in_range 65 90 c || in_range 97 122 c || (c =? 43) || (c =? 45) || (c =? 46).
Definition good_tok (t : bytes) : bool :=
  match t with [] => false | _ => forallb vtok_char t end.

(** IEEE-754 binary64 bit patterns *)
Definition is_nan64 (b : Z) : bool := ((b / 2 ^ 52) mod 2048 =? 2047) && negb (b mod 2 ^ 52 =? 0).
Definition abs_bits (b : Z) : Z := b mod 2 ^ 63.
(** an F4 item holds float64 values v with clampF4 v = v: |v| <= MaxFloat32, or Inf / NaN *)
Definition fdom (w : fwidth) (b : Z) : bool :=
  (0 <=? b) && (b <? 2 ^ 64) &&
  match w with
  | F8 => true
  | F4 => (abs_bits b <=? 5183643170566569984) || (9218868437227405312 <=? abs_bits b)
  end.

Section Equal.
  (** Go's float32(x) conversion on bit patterns (oracle; only equality of its results is used) *)
  Variable narrow32 : Z -> Z.

  (** same wire value, NaN payload aside (secs2.Equal compares F4 at float32 precision) *)
  Definition feq (w : fwidth) (a b : Z) : Prop :=
    (is_nan64 a = true /\ is_nan64 b = true) \/
    (is_nan64 a = false /\ is_nan64 b = false /\
     match w with F8 => a = b | F4 => narrow32 a = narrow32 b end).

  (** equal bodies: same shape and values; floats up to [feq]; the LSH is not in the tree *)
  Inductive item_eqv : item -> item -> Prop :=
  | EqvEmpty : item_eqv IEmpty IEmpty
  | EqvList cs cs' : Forall2 item_eqv cs cs' -> item_eqv (IList cs) (IList cs')
  | EqvAscii s : item_eqv (IAscii s) (IAscii s)
  | EqvJis8 s : item_eqv (IJis8 s) (IJis8 s)
  | EqvLocal s : item_eqv (ILocal s) (ILocal s)
  | EqvBinary s : item_eqv (IBinary s) (IBinary s)
  | EqvBoolean vs : item_eqv (IBoolean vs) (IBoolean vs)
  | EqvInt w vs : item_eqv (IInt w vs) (IInt w vs)
  | EqvUint w vs : item_eqv (IUint w vs) (IUint w vs)
  | EqvFloat w vs vs' : Forall2 (feq w) vs vs' -> item_eqv (IFloat w vs) (IFloat w vs').

  Definition msg_eqv (m m' : msg) : Prop :=
    m_stream m = m_stream m' /\ m_function m = m_function m' /\ m_wbit m = m_wbit m' /\
    item_eqv (m_body m) (m_body m').
End Equal.

(** list nesting of an item: 0 for a leaf, 1 + the deepest child for a list *)
Fixpoint depth (x : item) : nat :=
  match x with
  | IList cs => S (fold_right (fun c m => Nat.max (depth c) m) O cs)
  | _ => O
  end.

Section Domain.
  (** [egt]: the repaired writer is in use (then ASCII items may hold the closing bracket) *)
  Variable egt : bool.
  (** strconv.Quote(s) is s between double quotes (oracle predicate, see the laws) *)
  Variable quote_plain : bytes -> bool.

  Definition no_gt (s : bytes) : bool := negb (existsb (Z.eqb c_gt) s).

  Definition int_in (w : width) (v : Z) : bool := (- 2 ^ (wbits w - 1) <=? v) && (v <? 2 ^ (wbits w - 1)).
  Definition uint_in (w : width) (v : Z) : bool := (0 <=? v) && (v <=? 2 ^ wbits w - 1).

  (** the item grammar of the statement, below the top level: no EmptyItem; sizes within the
      secs2 limits (otherwise the item carries an error and is no message body); ASCII with any
      bytes (without the closing bracket unless the repair is in); JIS-8 without the closing
      bracket (the statement excludes more); localized text without it and left alone by
      strconv.Quote; integers within their width; floats within the item's range *)
  Fixpoint dom_item (x : item) : bool :=
    match x with
    | IEmpty => false
    | IList cs => (Z.of_nat (length cs) <=? max_byte_size) && forallb dom_item cs
    | IAscii s => bytes_ok s && (blen s <=? max_byte_size) && (egt || no_gt s)
    | IJis8 s => bytes_ok s && (blen s <=? max_byte_size) && no_gt s
    | ILocal s => bytes_ok s && (blen s + 2 <=? max_byte_size) && no_gt s && quote_plain s
    | IBinary bs => bytes_ok bs && (blen bs <=? max_byte_size)
    | IBoolean vs => Z.of_nat (length vs) <=? max_byte_size
    | IInt w vs => (Z.of_nat (length vs) * wbytes w <=? max_byte_size) && forallb (int_in w) vs
    | IUint w vs => (Z.of_nat (length vs) * wbytes w <=? max_byte_size) && forallb (uint_in w) vs
    | IFloat w vs => (Z.of_nat (length vs) * fbytes w <=? max_byte_size) && forallb (fdom w) vs
    end.

  (** a data message: stream 0..127, function 0..255, W only on an odd function
      (hsms.NewDataMessage); the body is empty or an item of the grammar, nested no deeper than
      secs2.MaxListDepth (the strict parser's cap since fix 95562b6; finding C13-depth-cap) *)
  Definition dom_msg (m : msg) : bool :=
    (0 <=? m_stream m) && (m_stream m <=? 127) && (0 <=? m_function m) && (m_function m <=? 255)
    && (negb (m_wbit m) || (m_function m mod 2 =? 1))
    && (is_empty (m_body m) || dom_item (m_body m))
    && (Z.of_nat (depth (m_body m)) <=? max_list_depth).

  (** encoder options: the indent unit is SML whitespace *)
  Definition opts_ok (o : enc_opts) : bool := eo_strict o && forallb is_sml_space (eo_indent o).
End Domain.

(** ---------- the encoder output as indentation + body ---------- *)
Section Body.
  Variable wsa : Z -> bytes -> bytes.
  Variable ffmt : fwidth -> Z -> bytes.
  Variable quote : bytes -> bytes.

  Fixpoint enc_body (o : enc_opts) (level : nat) (x : item) : bytes :=
    match x with
    | IList cs =>
        match cs with
        | [] => [c_lt; 76; c_lb; 48; c_rb; c_gt]
        | _ =>
            [c_lt; 76; c_lb] ++ format_int (Z.of_nat (length cs)) ++ [c_rb; c_nl]
            ++ flat_map (fun c => rep (eo_indent o) (S level) ++ enc_body o (S level) c ++ [c_nl]) cs
            ++ rep (eo_indent o) level ++ [c_gt]
        end
    | _ => encode_item_w wsa ffmt quote o level x
    end.

  Definition lead (o : enc_opts) (level : nat) (x : item) : bytes :=
    if is_list x then rep (eo_indent o) level else [].

  Lemma encode_item_split o : forall x level,
    encode_item_w wsa ffmt quote o level x = lead o level x ++ enc_body o level x.
  Proof.
    induction x as [|cs IH|s|s|s|bs|vs|w vs|w vs|w vs] using item_ind'; intros level;
      try reflexivity.
    unfold lead. cbn [is_list encode_item_w enc_body].
    destruct cs as [|c cs']; [reflexivity|].
    do 5 f_equal.
    apply flat_map_ext_Forall.
    eapply Forall_impl; [|exact IH]. cbv beta. intros a Ha.
    rewrite Ha. unfold lead. destruct (is_list a); cbn [app]; rewrite <- ?app_assoc; reflexivity.
  Qed.
End Body.
