(** Proofs about [new_parse_error]: for EVERY input and every non-negative offset the reported
    position satisfies [pos_ok] (offset clamped into the input; line and column consistent with
    the offset). *)
From Coq Require Import ZArith List Lia Bool.
From GoSecs Require Import Base.Decimal Sml.ErrPos.
Import ListNotations.
Open Scope Z_scope.

Definition lc_step (lc : Z * Z) (b : Z) : Z * Z :=
  if b =? 10 then (fst lc + 1, 1) else (fst lc, snd lc + 1).

Lemma lc_loop_fold : forall n inp line col,
  lc_loop inp n line col = fold_left lc_step (firstn n inp) (line, col).
Proof.
  induction n as [|n IH]; intros inp line col; [reflexivity|].
  destruct inp as [|b t]; [reflexivity|].
  cbn [lc_loop firstn fold_left]. unfold lc_step at 2. cbn [fst snd].
  destruct (b =? 10); apply IH.
Qed.

(** the specification on a fully processed prefix [l] (nat-indexed) *)
Definition lc_spec (l : bytes) (lc : Z * Z) : Prop :=
  fst lc = 1 + count_nl l /\
  exists sol : nat, (sol <= length l)%nat /\
    snd lc = 1 + Z.of_nat (length l) - Z.of_nat sol /\
    (sol = O \/ nth_error l (pred sol) = Some 10) /\
    (forall i : nat, (sol <= i < length l)%nat -> nth_error l i <> Some 10).

Lemma count_nl_app l b : count_nl (l ++ [b]) = count_nl l + (if b =? 10 then 1 else 0).
Proof.
  unfold count_nl. rewrite count_occ_app. cbn [count_occ].
  destruct (Z.eq_dec b 10) as [->|N].
  - rewrite Z.eqb_refl. lia.
  - apply Z.eqb_neq in N. rewrite N. lia.
Qed.

Lemma lc_spec_fold : forall l, lc_spec l (fold_left lc_step l (1, 1)).
Proof.
  induction l as [|b l IH] using rev_ind.
  - split; [reflexivity|]. exists O. cbn. repeat split; auto; intros; lia.
  - rewrite fold_left_app. cbn [fold_left]. destruct IH as [Hl (sol & Hs & Hc & Hp & Hn)].
    set (lc := fold_left lc_step l (1, 1)) in *.
    unfold lc_step. destruct (b =? 10) eqn:Eb.
    + apply Z.eqb_eq in Eb. subst b. split.
      * cbn [fst]. rewrite count_nl_app, Z.eqb_refl. lia.
      * exists (S (length l)). rewrite app_length. cbn [length fst snd]. repeat split.
        -- lia.
        -- lia.
        -- right. cbn [pred]. rewrite nth_error_app2 by lia. rewrite Nat.sub_diag. reflexivity.
        -- intros i Hi. lia.
    + split.
      * cbn [fst]. rewrite count_nl_app, Eb. lia.
      * exists sol. rewrite app_length. cbn [length fst snd]. repeat split.
        -- lia.
        -- lia.
        -- destruct Hp as [->|Hp]; [left; reflexivity|right].
           destruct sol as [|s]; [cbn in *|].
           ++ destruct l; [discriminate|]. exact Hp.
           ++ cbn [pred] in *. rewrite nth_error_app1 by lia. exact Hp.
        -- intros i Hi. destruct (Nat.eq_dec i (length l)) as [->|N].
           ++ rewrite nth_error_app2 by lia. rewrite Nat.sub_diag. cbn. intros H. inversion H. subst.
              discriminate.
           ++ rewrite nth_error_app1 by lia. apply Hn. lia.
Qed.

Lemma nth_error_firstn_lt {A} : forall (n i : nat) (l : list A), (i < n)%nat -> nth_error (firstn n l) i = nth_error l i.
Proof.
  induction n as [|n IH]; intros i l Hi; [lia|].
  destruct l as [|a l]; [destruct i; reflexivity|].
  destruct i as [|i]; [reflexivity|]. cbn. apply IH. lia.
Qed.

(** Every position built by [newParseError] from a non-negative offset is consistent. *)
Theorem new_parse_error_ok : forall input offset,
  0 <= offset ->
  let '(off, line, col) := new_parse_error input offset in pos_ok input off line col.
Proof.
  intros input offset H0. unfold new_parse_error.
  set (off := if offset >? blen input then blen input else offset).
  assert (Hoff : 0 <= off <= blen input).
  { unfold off, blen in *. destruct (offset >? Z.of_nat (length input)) eqn:E; lia. }
  rewrite lc_loop_fold.
  pose proof (lc_spec_fold (firstn (Z.to_nat off) input)) as [Hl (sol & Hs & Hc & Hp & Hn)].
  destruct (fold_left lc_step (firstn (Z.to_nat off) input) (1, 1)) as [line col].
  cbn [fst snd] in *.
  assert (Hlen : length (firstn (Z.to_nat off) input) = Z.to_nat off).
  { apply firstn_length_le. unfold blen in Hoff. lia. }
  rewrite Hlen in *.
  split; [exact Hoff|]. split; [exact Hl|].
  exists (Z.of_nat sol). split; [|lia].
  split; [lia|]. split.
  - destruct sol as [|s]; [left; reflexivity|right].
    destruct Hp as [Hp|Hp]; [discriminate|].
    cbn [pred] in Hp. rewrite nth_error_firstn_lt in Hp by lia.
    replace (Z.to_nat (Z.of_nat (S s) - 1)) with s by lia. exact Hp.
  - intros i Hi. specialize (Hn (Z.to_nat i)).
    rewrite nth_error_firstn_lt in Hn by lia. apply Hn. lia.
Qed.

(** Clamp: the reported offset is min(offset, len). *)
Lemma new_parse_error_offset input offset :
  fst (fst (new_parse_error input offset)) = Z.min offset (blen input).
Proof.
  unfold new_parse_error. destruct (lc_loop _ _ _ _). cbn [fst].
  destruct (offset >? blen input) eqn:E; lia.
Qed.
