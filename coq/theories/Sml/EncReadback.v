(** C15, second half: every numeric, boolean and binary item rendered by EITHER renderer
    (Item.ToSML or sml.Encode with default options) is read back by the parser as the same values.
    Corollary of the C13 item lemmas (Sml/StrictRoundtrip.v) and of C15_identical. *)
From Coq Require Import ZArith List Lia Bool.
From GoSecs Require Import Base.Decimal Sml.Syntax Sml.Encoder Sml.ToSml Sml.ToSmlProofs Sml.StrictParser
  Sml.StrictParserLemmas Sml.StrictRoundtripDefs Sml.StrictRoundtrip Sml.StrictRoundtripFinal.
Import ListNotations.
Open Scope Z_scope.

Definition no_plain (s : bytes) : bool := false.

Theorem readback_both :
  forall (ffmt : fwidth -> Z -> bytes) (quote : bytes -> bytes) (fparse : fwidth -> bytes -> option Z) (narrow32 : Z -> Z),
    (forall w v, fdom w v = true -> good_tok (ffmt w v) = true) ->
    (forall w v, fdom w v = true -> exists v', fparse w (ffmt w v) = Some v' /\ feq narrow32 w v v') ->
    forall x, value_leaf_item x = true -> dom_item false no_plain x = true ->
    forall text, text = to_sml ffmt quote x \/ text = encode_default ffmt quote x ->
    forall input dp pre ws ws' c rest',
      dp <= max_list_depth -> Forall is_ws ws -> Forall is_ws ws' -> follow c ->
      input = pre ++ ws ++ text ++ ws' ++ c :: rest' ->
      exists x' q,
        parse_item fparse input 1 dp (mkst pre (ws ++ text ++ ws' ++ c :: rest')) = POk x' (mkst q (c :: rest'))
        /\ input = q ++ c :: rest' /\ item_eqv narrow32 x x'.
Proof.
  intros ffmt quote fparse narrow32 L1 L2 x VL D text Ht input dp pre ws ws' c rest' Hdp F1 F2 Fc Hin.
  assert (E : text = encode_default ffmt quote x).
  { destruct Ht as [->| ->]; [apply to_sml_eq_encode_default|reflexivity]. }
  subst text.
  apply (readback_default ffmt quote fparse no_plain narrow32 L1 L2 ltac:(discriminate) x VL D input dp pre ws ws' c rest' Hdp F1 F2 Fc Hin).
Qed.
