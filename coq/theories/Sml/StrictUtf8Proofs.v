(** Facts about Go's rune decoding used by the strict-parser proofs: a multi-byte rune never is
    an ASCII character, and the bytes it swallows after its first byte are all >= 0x80 — so the
    ASCII sentinels of the SML grammar are always seen at rune boundaries. *)
From Coq Require Import ZArith List Lia Bool ZifyBool.
From GoSecs Require Import Base.Decimal Base.Utf8.
Import ListNotations.
Open Scope Z_scope.

Lemma lor_ge_128_l a b : 0 <= a -> 0 <= b -> 128 <= a -> 128 <= Z.lor a b.
Proof.
  intros Ha Hb H.
  assert (L : 7 <= Z.log2 (Z.lor a b)).
  { rewrite Z.log2_lor by assumption. apply Z.max_le_iff. left.
    change 7 with (Z.log2 128). apply Z.log2_le_mono. exact H. }
  assert (P : 0 < Z.lor a b).
  { destruct (Z.eq_dec (Z.lor a b) 0) as [E|N]; [rewrite E in L; cbn in L; lia|].
    assert (0 <= Z.lor a b) by (apply Z.lor_nonneg; split; assumption). lia. }
  destruct (Z.log2_spec (Z.lor a b) P) as [L1 _].
  assert (2 ^ 7 <= 2 ^ Z.log2 (Z.lor a b)) by (apply Z.pow_le_mono_r; lia).
  change (2 ^ 7) with 128 in *. lia.
Qed.

Lemma lor_ge_128_r a b : 0 <= a -> 0 <= b -> 128 <= b -> 128 <= Z.lor a b.
Proof. intros. rewrite Z.lor_comm. apply lor_ge_128_l; assumption. Qed.

Lemma land_nonneg_r a m : 0 <= m -> 0 <= Z.land a m.
Proof. intros. apply Z.land_nonneg. right. assumption. Qed.

Lemma shiftl_nonneg a n : 0 <= a -> 0 <= Z.shiftl a n.
Proof. intros. apply Z.shiftl_nonneg. assumption. Qed.

Lemma shiftl_ge a n : 0 <= n -> 1 <= a -> 2 ^ n <= Z.shiftl a n.
Proof. intros Hn Ha. rewrite Z.shiftl_mul_pow2 by exact Hn. assert (0 < 2 ^ n) by (apply Z.pow_pos_nonneg; lia). nia. Qed.

Lemma land_mod a k : 0 <= k -> Z.land a (Z.ones k) = a mod 2 ^ k.
Proof. intros. apply Z.land_ones. assumption. Qed.

(** the rune of a non-ASCII first byte is never below 128 *)
Lemma decode_rune_nonascii b0 t : 128 <= b0 < 256 ->
  128 <= fst (decode_rune (b0 :: t)).
Proof.
  intros H0. cbn [decode_rune].
  replace (b0 <? 128) with false by lia.
  destruct (b0 <? 194) eqn:E1; [cbn; unfold rune_error; lia|].
  destruct (b0 <? 224) eqn:E2.
  { destruct t as [|b1 t]; [cbn; unfold rune_error; lia|].
    destruct (is_cont b1) eqn:C; [|cbn; unfold rune_error; lia]. cbn [fst].
    apply lor_ge_128_l.
    - apply shiftl_nonneg, land_nonneg_r; lia.
    - apply land_nonneg_r; lia.
    - change 31 with (Z.ones 5). rewrite land_mod by lia.
      assert (2 <= b0 mod 2 ^ 5).
      { change (2 ^ 5) with 32. assert (b0 = 32 * 6 + (b0 - 192)) as R by lia.
        rewrite R. rewrite Z.add_comm, Z.mul_comm, Z_mod_plus_full. rewrite Z.mod_small; lia. }
      rewrite Z.shiftl_mul_pow2 by lia. change (2 ^ 6) with 64. lia. }
  destruct (b0 <? 240) eqn:E3.
  { destruct t as [|b1 [|b2 t]]; try (cbn; unfold rune_error; lia).
    match goal with |- context [if ?c then _ else _] => destruct c eqn:C end; [|cbn; unfold rune_error; lia].
    cbn [fst]. apply andb_true_iff in C. destruct C as [C1 C2].
    apply lor_ge_128_l; [| apply land_nonneg_r; lia |].
    { apply Z.lor_nonneg. split; apply shiftl_nonneg, land_nonneg_r; lia. }
    destruct (Z.eq_dec b0 224) as [->|N].
    - apply lor_ge_128_r; [apply shiftl_nonneg, land_nonneg_r; lia|apply shiftl_nonneg, land_nonneg_r; lia|].
      cbn in C1. unfold in_range in C1.
      change 63 with (Z.ones 6). rewrite land_mod by lia. change (2 ^ 6) with 64.
      assert (32 <= b1 mod 64).
      { assert (b1 = 64 * 2 + (b1 - 128)) as R by lia. rewrite R.
        rewrite Z.add_comm, Z.mul_comm, Z_mod_plus_full. rewrite Z.mod_small; lia. }
      rewrite Z.shiftl_mul_pow2 by lia. change (2 ^ 6) with 64. lia.
    - apply lor_ge_128_l; [apply shiftl_nonneg, land_nonneg_r; lia|apply shiftl_nonneg, land_nonneg_r; lia|].
      change 15 with (Z.ones 4). rewrite land_mod by lia. change (2 ^ 4) with 16.
      assert (1 <= b0 mod 16).
      { assert (b0 = 16 * 14 + (b0 - 224)) as R by lia. rewrite R.
        rewrite Z.add_comm, Z.mul_comm, Z_mod_plus_full. rewrite Z.mod_small; lia. }
      pose proof (shiftl_ge (b0 mod 16) 12 ltac:(lia) H). change (2 ^ 12) with 4096 in *. lia. }
  destruct (b0 <? 245) eqn:E4; [|cbn; unfold rune_error; lia].
  destruct t as [|b1 [|b2 [|b3 t]]]; try (cbn; unfold rune_error; lia).
  match goal with |- context [if ?c then _ else _] => destruct c eqn:C end; [|cbn; unfold rune_error; lia].
  cbn [fst]. apply andb_true_iff in C. destruct C as [C C3]. apply andb_true_iff in C. destruct C as [C1 C2].
  apply lor_ge_128_l; [| apply land_nonneg_r; lia |].
  { repeat (apply Z.lor_nonneg; split); apply shiftl_nonneg, land_nonneg_r; lia. }
  apply lor_ge_128_l; [| apply shiftl_nonneg, land_nonneg_r; lia |].
  { apply Z.lor_nonneg; split; apply shiftl_nonneg, land_nonneg_r; lia. }
  destruct (Z.eq_dec b0 240) as [->|N].
  - apply lor_ge_128_r; [apply shiftl_nonneg, land_nonneg_r; lia|apply shiftl_nonneg, land_nonneg_r; lia|].
    cbn in C1. unfold in_range in C1.
    change 63 with (Z.ones 6). rewrite land_mod by lia. change (2 ^ 6) with 64.
    assert (16 <= b1 mod 64).
    { assert (b1 = 64 * 2 + (b1 - 128)) as R by lia. rewrite R.
      rewrite Z.add_comm, Z.mul_comm, Z_mod_plus_full. rewrite Z.mod_small; lia. }
    rewrite Z.shiftl_mul_pow2 by lia. change (2 ^ 12) with 4096. lia.
  - apply lor_ge_128_l; [apply shiftl_nonneg, land_nonneg_r; lia|apply shiftl_nonneg, land_nonneg_r; lia|].
    change 7 with (Z.ones 3). rewrite land_mod by lia. change (2 ^ 3) with 8.
    assert (1 <= b0 mod 8).
    { assert (b0 = 8 * 30 + (b0 - 240)) as R by lia. rewrite R.
      rewrite Z.add_comm, Z.mul_comm, Z_mod_plus_full. rewrite Z.mod_small; lia. }
    pose proof (shiftl_ge (b0 mod 8) 18 ltac:(lia) H). change (2 ^ 18) with 262144 in *. lia.
Qed.

(** the bytes a rune swallows after its first byte are continuation bytes (>= 128) *)
Definition high (b : Z) : Prop := 128 <= b.

Lemma is_cont_high b : is_cont b = true -> high b.
Proof. unfold is_cont, in_range, high. lia. Qed.

Lemma decode_rune_width b0 t r w : decode_rune (b0 :: t) = (r, w) ->
  exists k pre post, w = S k /\ t = pre ++ post /\ length pre = k /\ Forall high pre.
Proof.
  cbn [decode_rune]. intros H.
  destruct (b0 <? 128); [inversion H; exists O, [], t; repeat split; constructor|].
  destruct (b0 <? 194); [inversion H; exists O, [], t; repeat split; constructor|].
  destruct (b0 <? 224).
  { destruct t as [|b1 t]; [inversion H; exists O, [], []; repeat split; constructor|].
    destruct (is_cont b1) eqn:C; inversion H.
    - exists 1%nat, [b1], t. repeat split. constructor; [apply is_cont_high; exact C|constructor].
    - exists O, [], (b1 :: t). repeat split. constructor. }
  destruct (b0 <? 240).
  { destruct t as [|b1 [|b2 t]]; try (inversion H; eexists O, [], _; repeat split; constructor).
    match type of H with context [if ?c then _ else _] => destruct c eqn:C end; inversion H.
    - apply andb_true_iff in C. destruct C as [C1 C2].
      exists 2%nat, [b1; b2], t. repeat split.
      constructor; [unfold in_range in C1; unfold high; destruct (b0 =? 224); lia|].
      constructor; [apply is_cont_high; exact C2|constructor].
    - exists O, [], (b1 :: b2 :: t). repeat split. constructor. }
  destruct (b0 <? 245); [|inversion H; exists O, [], t; repeat split; constructor].
  destruct t as [|b1 [|b2 [|b3 t]]]; try (inversion H; eexists O, [], _; repeat split; constructor).
  match type of H with context [if ?c then _ else _] => destruct c eqn:C end; inversion H.
  - apply andb_true_iff in C. destruct C as [C C3]. apply andb_true_iff in C. destruct C as [C1 C2].
    exists 3%nat, [b1; b2; b3], t. repeat split.
    constructor; [unfold in_range in C1; unfold high; destruct (b0 =? 240); lia|].
    constructor; [apply is_cont_high; exact C2|].
    constructor; [apply is_cont_high; exact C3|constructor].
  - exists O, [], (b1 :: b2 :: b3 :: t). repeat split. constructor.
Qed.
