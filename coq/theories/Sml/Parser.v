(** Executable model of sml/parser.go (both modes, all entry points), instrumented.

    The model follows the Go code function by function. It is at the same time the
    "instrumented twin": every place where the Go code indexes or slices a string with an index
    that is not guarded by that string's own length returns [RPanic] exactly when Go's bounds
    check would fire, and three meters are threaded through the state:

    - [m_allocs], [m_alloc_sum], [m_alloc_max]: every capacity the parser passes to [make] or
      [strings.Builder.Grow], in bytes (capacity * element size);
    - [m_depth], [m_depth_max]: the number of active [parseList] frames (recursion depth);
    - [m_calls], [m_steps]: a cost model — every scanning primitive charges the number of bytes
      it looks at ([m_steps]) and counts as one unit ([m_calls]).

    Configuration [cfg] switches between the CURRENT code and the three proposed repairs, each
    a visible one-line difference: [c_quote_fix] (checkASCIICloseQuote bounds its scan by
    len(p.data) instead of p.len), [c_cap_hint] (capacity hints are capped by the remaining input
    length), [c_depth_cap] (parseList refuses nesting deeper than secs2.MaxListDepth).

    State: the Go parser keeps [pos] and [data = input[pos:]]; [forward]/[backward] are the only
    writers. The model keeps [data] and, as a zipper, the reversed consumed prefix [back], so
    that [backward] is exact and cheap. [plen] is p.len (= len(input), set by initInput).

    Outside go-secs: strconv.ParseFloat is the Section variable [parse_float] (any total
    function); ParseInt/ParseUint are Base/Decimal.v; UTF-8 decoding is Base/Utf8.v. *)
From Coq Require Import ZArith List Bool.
From GoSecs Require Import Base.Decimal Base.Utf8 Sml.ErrPos.
Import ListNotations.
Open Scope Z_scope.

(** ---------- configuration ---------- *)
Record cfg := { c_quote_fix : bool; c_cap_hint : bool; c_depth_cap : option Z }.
Definition max_list_depth : Z := 64.        (* secs2.MaxListDepth *)
Definition cfg_current : cfg := {| c_quote_fix := false; c_cap_hint := false; c_depth_cap := None |}.
Definition cfg_repaired : cfg := {| c_quote_fix := true; c_cap_hint := true; c_depth_cap := Some max_list_depth |}.

(** ---------- results ---------- *)
Inductive item :=
| IEmpty
| IList (l : list item)
| IAscii (s : bytes) | IJis8 (s : bytes) | ILocal (s : bytes)
| IBool (l : list bool) | IBin (l : bytes)
| IFloat (w : Z) (l : list Z)      (* float64 bit patterns *)
| IInt (w : Z) (l : list Z) | IUint (w : Z) (l : list Z).

Record msg := { m_stream : Z; m_function : Z; m_wbit : bool; m_item : item }.

(** where a syntax error was raised (documentation; the text of an error is not an observable) *)
Inductive etag :=
| T_noterm | T_stream | T_code | T_stream_range | T_function
| T_expect_lt | T_item_type | T_item_size | T_minmax | T_depth
| T_list_eof | T_list_child
| T_ascii_unclosed | T_ascii_num | T_ascii_latin1 | T_ascii_eof | T_ascii_quote | T_ascii_overflow
| T_jis8_quote | T_jis8_unclosed | T_local_quote | T_local_unclosed
| T_value | T_dot.

Inductive perr :=
| ESyntax (t : etag) (off line col : Z)     (* *sml.ParseError *)
| EConstruct                                (* "sml: %w" around an hsms.NewDataMessage error *)
| ENoMessage.                               (* sml.ErrNoMessage *)

Record meters := {
  m_calls : Z; m_steps : Z;
  m_allocs : Z; m_alloc_sum : Z; m_alloc_max : Z;
  m_depth : Z; m_depth_max : Z }.

Definition meters0 : meters :=
  {| m_calls := 0; m_steps := 0; m_allocs := 0; m_alloc_sum := 0; m_alloc_max := 0; m_depth := 0; m_depth_max := 0 |}.

Record pst := { pos : Z; back : bytes; data : bytes; mt : meters }.

Inductive res (A : Type) :=
| ROk (a : A) (s : pst)
| RErr (e : perr) (s : pst)      (* the state at the point of failure (meters survive) *)
| RPanic (s : pst)               (* Go run-time panic: index / slice out of range *)
| RFuel (s : pst).               (* model fuel exhausted (never, see ParserProofs) *)
Arguments ROk {A}. Arguments RErr {A}. Arguments RPanic {A}. Arguments RFuel {A}.

Notation "'do' ( x , s ) <- e ; f" :=
  (match e with
   | ROk x s => f
   | RErr er s' => RErr er s'
   | RPanic s' => RPanic s'
   | RFuel s' => RFuel s'
   end) (at level 200, x pattern, s name, e at level 100, f at level 200).

Inductive itype := TList | TAscii | TJis8 | TLocal | TBoolean | TBinary
                 | TFloat (w : Z) | TInt (w : Z) | TUint (w : Z).

(** ---------- pure string helpers ---------- *)
Definition eof : Z := -1.
Definition is_ws (b : Z) : bool := (b =? 32) || (b =? 9) || (b =? 13) || (b =? 10).
Definition is_quote (b : Z) : bool := (b =? 39) || (b =? 34).
Definition upper_byte (b : Z) : Z := if (97 <=? b) && (b <=? 122) then b - 32 else b.

(** index of the first non-space byte ([None]: only white space, or empty) *)
Fixpoint ws_span (d : bytes) (k : Z) : option Z :=
  match d with
  | [] => None
  | b :: t => if is_ws b then ws_span t (k + 1) else Some k
  end.

(** strings.IndexByte *)
Fixpoint index_byte (c : Z) (d : bytes) (i : Z) : option Z :=
  match d with [] => None | b :: t => if b =? c then Some i else index_byte c t (i + 1) end.

(** strings.IndexByte(d[:n], c) *)
Fixpoint index_byte_upto (c : Z) (d : bytes) (n : nat) (i : Z) : option Z :=
  match n, d with
  | S n', b :: t => if b =? c then Some i else index_byte_upto c t n' (i + 1)
  | _, _ => None
  end.

(** strings.IndexAny(d, "\n.") *)
Fixpoint index_term (d : bytes) (i : Z) : option Z :=
  match d with
  | [] => None
  | b :: t => if (b =? 10) || (b =? 46) then Some i else index_term t (i + 1)
  end.

(** strings.Index(d, [c1;c2]) *)
Fixpoint index_pair (c1 c2 : Z) (d : bytes) (i : Z) : option Z :=
  match d with
  | b :: ((b' :: _) as t) => if (b =? c1) && (b' =? c2) then Some i else index_pair c1 c2 t (i + 1)
  | _ => None
  end.

(** "for i, ch := range d { if ch < '0' || ch > '9' {...i...} }": index of the first non-digit
    ([None]: the loop falls through). Digits are ASCII, every byte of a multi-byte or invalid
    sequence is >= 0x80, so the rune loop stops at the same byte index as a byte loop. *)
Fixpoint digit_span (d : bytes) (i : Z) : option Z :=
  match d with
  | [] => None
  | b :: t => if is_digit b then digit_span t (i + 1) else Some i
  end.

Fixpoint zlist_eqb (a b : list Z) : bool :=
  match a, b with
  | [], [] => true
  | x :: a', y :: b' => (x =? y) && zlist_eqb a' b'
  | _, _ => false
  end.

(** len(d) >= 7 && strings.ToUpper(d[:7]) == "BOOLEAN" (no letter of BOOLEAN is the upper case
    of a non-ASCII rune, so the comparison is ASCII case folding of the first seven bytes) *)
Definition is_boolean7 (d : bytes) : bool :=
  zlist_eqb (map upper_byte (firstn 7 d)) [66; 79; 79; 76; 69; 65; 78].

(** unicode.IsSpace *)
Definition is_unicode_space (r : Z) : bool :=
  in_range 9 13 r || (r =? 32) || (r =? 133) || (r =? 160) || (r =? 5760) || in_range 8192 8202 r
  || (r =? 8232) || (r =? 8233) || (r =? 8239) || (r =? 8287) || (r =? 12288).

(** strings.Fields: maximal runs of non-space runes. [skip] = continuation bytes of the current
    rune still to pass, [keep] = whether that rune belongs to a field, [cur] = current field
    (reversed), [acc] = finished fields (reversed). *)
Fixpoint fields_loop (d : bytes) (skip : nat) (keep : bool) (cur : bytes) (acc : list bytes) : list bytes :=
  match d with
  | [] => rev (match cur with [] => acc | _ => rev cur :: acc end)
  | b :: t =>
      match skip with
      | S k => fields_loop t k keep (if keep then b :: cur else cur) acc
      | O =>
          let '(r, w) := decode_rune d in
          if is_unicode_space r
          then fields_loop t (pred w) false [] (match cur with [] => acc | _ => rev cur :: acc end)
          else fields_loop t (pred w) true (b :: cur) acc
      end
  end.
Definition fields (d : bytes) : list bytes := fields_loop d O false [] [].

(** strings.ToUpper(tok) compared with an ASCII word: the runes of the result. Besides the ASCII
    letters only U+017F (long s -> S) and U+0131 (dotless i -> I) have an ASCII upper case. *)
Definition upper_rune (r : Z) : Z :=
  if (97 <=? r) && (r <=? 122) then r - 32
  else if r =? 383 then 83 else if r =? 305 then 73 else r.

Fixpoint upper_runes (d : bytes) (skip : nat) : list Z :=
  match d with
  | [] => []
  | _ :: t =>
      match skip with
      | S k => upper_runes t k
      | O => let '(r, w) := decode_rune d in upper_rune r :: upper_runes t (pred w)
      end
  end.

Definition bool_token (tok : bytes) : option bool :=
  let u := upper_runes tok O in
  if zlist_eqb u [84; 82; 85; 69] || zlist_eqb u [84] then Some true
  else if zlist_eqb u [70; 65; 76; 83; 69] || zlist_eqb u [70] then Some false
  else None.

Fixpoint map_opt {A B} (f : A -> option B) (l : list A) : option (list B) :=
  match l with
  | [] => Some []
  | a :: t => match f a with
              | Some b => match map_opt f t with Some r => Some (b :: r) | None => None end
              | None => None
              end
  end.

(** move [n] bytes from the front of [d] onto [b] (reversed): (b', d') *)
Fixpoint shift (n : nat) (d b : bytes) : bytes * bytes :=
  match n, d with
  | S n', x :: t => shift n' t (x :: b)
  | _, _ => (b, d)
  end.

(** ---------- JIS-8 / localized string scanner ----------
    "for i, ch := range p.data": quote -> lastQuotePos = i; '>' -> accept iff lastQuotePos >= i-1.
    Both targets are ASCII, so the rune loop visits them at the same byte offsets as a byte loop.
    Result: (lastQuotePos, i). *)
Fixpoint quoted_scan (q : Z) (d : bytes) (i lastq : Z) : option (Z * Z) :=
  match d with
  | [] => None
  | b :: t =>
      if b =? q then quoted_scan q t (i + 1) i
      else if b =? 62 then (if lastq <? i - 1 then quoted_scan q t (i + 1) lastq else Some (lastq, i))
      else quoted_scan q t (i + 1) lastq
  end.

(** ---------- parseASCIIStrict, the scanning part ---------- *)

(** first loop: quoteChar = first ' or " before the first '>' (default '"') *)
Fixpoint find_quote (d : bytes) : Z :=
  match d with
  | [] => 34
  | b :: t => if b =? 62 then 34 else if is_quote b then b else find_quote t
  end.

Inductive amode := APlain | AQuote (esc : bool) | ANum (num : bytes).   (* [num] reversed *)

Inductive ares :=
| ADone (i : Z) (s : bytes) (iters cost : Z)      (* forward(i+1); item value s *)
| AFail (t : etag) (iters cost : Z)
| AEof (iters cost : Z).

(** strconv.ParseUint(numStr, 0, 0) followed by the Latin-1 range check *)
Definition ascii_num (num_rev : bytes) : numres :=
  match parse_uint true 64 (rev num_rev) with
  | NOk v => if v >? 255 then NRange else NOk v
  | NSyntax => NSyntax
  | NRange => NSyntax      (* both are "invalid ASCII numeric byte" *)
  end.

(** second loop. [sb] is the builder content, reversed. [iters] counts rune iterations, [cost]
    adds the bytes copied by every [numStr += string(ch)] (Go builds a new string each time). *)
Fixpoint ascii_strict_loop (q : Z) (d : bytes) (skip : nat) (i : Z) (m : amode) (sb : bytes)
         (iters cost : Z) : ares :=
  match d with
  | [] => AEof iters cost
  | _ :: t =>
      match skip with
      | S k => ascii_strict_loop q t k (i + 1) m sb iters cost
      | O =>
          let '(ch, w) := decode_rune d in
          let k := pred w in
          let enc := rev (encode_rune ch) in
          let iters := iters + 1 in
          match m with
          | AQuote esc =>
              if ch =? 92 then
                (if esc then ascii_strict_loop q t k (i + 1) (AQuote false) (enc ++ sb) iters cost
                 else ascii_strict_loop q t k (i + 1) (AQuote true) sb iters cost)
              else if ch =? q then
                (if esc then ascii_strict_loop q t k (i + 1) (AQuote false) (enc ++ sb) iters cost
                 else ascii_strict_loop q t k (i + 1) APlain sb iters cost)
              else if ch =? 62 then
                (if esc then ascii_strict_loop q t k (i + 1) (AQuote false) (enc ++ sb) iters cost
                 else AFail T_ascii_unclosed iters cost)
              else ascii_strict_loop q t k (i + 1) (AQuote false) (enc ++ sb) iters cost
          | ANum num =>
              if ch =? 32 then
                match ascii_num num with
                | NOk v => ascii_strict_loop q t k (i + 1) APlain (v :: sb) iters (cost + blen num)
                | NSyntax => AFail T_ascii_num iters (cost + blen num)
                | NRange => AFail T_ascii_latin1 iters (cost + blen num)
                end
              else if ch =? 62 then
                match ascii_num num with
                | NOk v => ADone i (rev (v :: sb)) iters (cost + blen num)
                | NSyntax => AFail T_ascii_num iters (cost + blen num)
                | NRange => AFail T_ascii_latin1 iters (cost + blen num)
                end
              else ascii_strict_loop q t k (i + 1) (ANum (enc ++ num)) sb iters (cost + blen num + blen enc)
          | APlain =>
              if ch =? q then ascii_strict_loop q t k (i + 1) (AQuote false) sb iters cost
              else if ch =? 32 then ascii_strict_loop q t k (i + 1) APlain sb iters cost
              else if ch =? 62 then ADone i (rev sb) iters cost
              else ascii_strict_loop q t k (i + 1) (ANum enc) sb iters (cost + blen enc)
          end
      end
  end.

(** ---------- parseASCIIFast, the scanning part ---------- *)

Inductive sres := SFound (n : Z) | SNo | SPanicked.

(** the white-space loop of checkASCIICloseQuote: "for nidx := idx+1; nidx < BOUND; nidx++ {
    switch p.data[nidx] ...". [d] = data[nidx:]; running off the end of [d] while
    nidx < BOUND is the index-out-of-range panic. *)
Fixpoint close_ws_scan (bound : Z) (d : bytes) (nidx : Z) {struct d} : sres :=
  if nidx <? bound then
    match d with
    | [] => SPanicked
    | b :: t => if is_ws b then close_ws_scan bound t (nidx + 1)
                else if b =? 62 then SFound (nidx + 1) else SNo
    end
  else SNo.

(** checkASCIICloseQuote(idx, q) with d = p.data:
      if idx+1 >= BOUND || idx >= BOUND || p.data[idx] != q { return false, 0 }   *)
Definition close_quote (bound : Z) (d : bytes) (idx q : Z) : sres :=
  if (idx + 1 >=? bound) || (idx >=? bound) then SNo
  else match nth_error d (Z.to_nat idx) with
       | None => SPanicked
       | Some b => if b =? q then close_ws_scan bound (skipn (Z.to_nat idx + 1) d) (idx + 1) else SNo
       end.

Inductive fres := FFound (i n : Z) (cost : Z) | FNone (cost : Z) | FPanicked.

(** the fallback loop "for i := 0; i < len(p.data); i++ { checkASCIICloseQuote(i, q) ... }".
    [d] = data[i:], so p.data[i] is the head of [d] (guarded by the loop condition). *)
Fixpoint fast_loop (bound q : Z) (d : bytes) (i cost : Z) : fres :=
  match d with
  | [] => FNone cost
  | b :: t =>
      if (i + 1 >=? bound) || (i >=? bound) then fast_loop bound q t (i + 1) (cost + 1)
      else if b =? q then
        match close_ws_scan bound t (i + 1) with
        | SFound n => FFound i n (cost + 1 + (n - i))
        | SPanicked => FPanicked
        | SNo => fast_loop bound q t (i + 1) (cost + 1)
        end
      else fast_loop bound q t (i + 1) (cost + 1)
  end.

(** ---------- message construction (hsms.NewDataMessage and the secs2 size limits) ---------- *)
Definition max_byte_size : Z := 16777215.

(** item.Error() != nil: only the size limits can fire for items the parser builds *)
Fixpoint item_err (it : item) : bool :=
  match it with
  | IEmpty => false
  | IList l => (Z.of_nat (length l) >? max_byte_size) || existsb item_err l
  | IAscii s | IJis8 s => blen s >? max_byte_size
  | ILocal s => blen s + 2 >? max_byte_size
  | IBool l => Z.of_nat (length l) >? max_byte_size
  | IBin l => blen l >? max_byte_size
  | IFloat w l | IInt w l | IUint w l => Z.of_nat (length l) * w >? max_byte_size
  end.

(** hsms.NewDataMessage(stream, function, wbit, 0, [4]byte{}, item); the stream range was checked
    by the header parser already (stream <= 127) *)
Definition new_data_message (stream function : Z) (wbit : bool) (it : item) : option msg :=
  if 127 <? stream then None
  else if item_err it then None
  else if wbit && (function mod 2 =? 0) then None
  else Some {| m_stream := stream; m_function := function; m_wbit := wbit; m_item := it |}.

(** ====================================================================================== *)
Section Parser.

Variable cf : cfg.
Variable strict : bool.                       (* Parser.strict, immutable after NewParser *)
Variable input : bytes.                       (* p.input *)
Variable plen : Z.                            (* p.len = len(input) *)
Variable parse_float : Z -> bytes -> numres.  (* strconv.ParseFloat(tok, bits): NOk = float64 bits *)

(** ---------- meters ---------- *)
Definition with_mt (st : pst) (m : meters) : pst :=
  {| pos := pos st; back := back st; data := data st; mt := m |}.

(** one scanning primitive looking at [c] bytes *)
Definition tickn (n c : Z) (st : pst) : pst :=
  let m := mt st in
  with_mt st {| m_calls := m_calls m + n; m_steps := m_steps m + c;
                m_allocs := m_allocs m; m_alloc_sum := m_alloc_sum m; m_alloc_max := m_alloc_max m;
                m_depth := m_depth m; m_depth_max := m_depth_max m |}.
Definition tick (c : Z) (st : pst) : pst := tickn 1 c st.

(** bytes left: len(p.data) *)
Definition remaining (st : pst) : Z := plen - pos st.

Definition scan_cost (r : option Z) (st : pst) : Z :=
  match r with Some i => i + 1 | None => remaining st + 1 end.

(** make([]T, 0, n) / sb.Grow(n) with n taken from the size hint; [esz] = element size in bytes.
    Repair c_cap_hint: n is replaced by min(n, len(p.data)). *)
Definition alloc (n esz : Z) (st : pst) : pst :=
  let n' := if c_cap_hint cf then Z.min n (remaining st) else n in
  let b := n' * esz in
  let m := mt st in
  with_mt st {| m_calls := m_calls m; m_steps := m_steps m;
                m_allocs := m_allocs m + 1; m_alloc_sum := m_alloc_sum m + b;
                m_alloc_max := Z.max (m_alloc_max m) b;
                m_depth := m_depth m; m_depth_max := m_depth_max m |}.

Definition enter (st : pst) : pst :=
  let m := mt st in
  with_mt st {| m_calls := m_calls m; m_steps := m_steps m;
                m_allocs := m_allocs m; m_alloc_sum := m_alloc_sum m; m_alloc_max := m_alloc_max m;
                m_depth := m_depth m + 1; m_depth_max := Z.max (m_depth_max m) (m_depth m + 1) |}.

Definition leave (st : pst) : pst :=
  let m := mt st in
  with_mt st {| m_calls := m_calls m; m_steps := m_steps m;
                m_allocs := m_allocs m; m_alloc_sum := m_alloc_sum m; m_alloc_max := m_alloc_max m;
                m_depth := m_depth m - 1; m_depth_max := m_depth_max m |}.

(** ---------- errors: p.errf / p.errfAt = newParseError(p.input, offset, ...) ---------- *)
Definition mk_syntax (t : etag) (offset : Z) : perr :=
  let '(off, line, col) := new_parse_error input offset in ESyntax t off line col.
Definition fail_at {A} (t : etag) (offset : Z) (st : pst) : res A := RErr (mk_syntax t offset) st.
Definition fail {A} (t : etag) (st : pst) : res A := fail_at t (pos st) st.

(** ---------- cursor ---------- *)

(** func (p *Parser) forward(n int) bool *)
Definition forward (n : Z) (st : pst) : bool * pst :=
  if pos st + n <=? plen then
    let '(b', d') := shift (Z.to_nat n) (data st) (back st) in
    (true, {| pos := pos st + n; back := b'; data := d'; mt := mt st |})
  else (false, st).
Definition fwd (n : Z) (st : pst) : pst := snd (forward n st).

(** func (p *Parser) backward(n int) *)
Definition backward (n : Z) (st : pst) : pst :=
  if pos st - n >=? 0 then
    let '(d', b') := shift (Z.to_nat n) (back st) (data st) in
    {| pos := pos st - n; back := b'; data := d'; mt := mt st |}
  else st.

(** func (p *Parser) skipSpace() bool *)
Definition skip_space (st : pst) : bool * pst :=
  let r := ws_span (data st) 0 in
  let st1 := tick (scan_cost r st) st in
  match r with
  | Some i => forward i st1
  | None => (false, st1)
  end.

(** func (p *Parser) skipComment() *)
Definition skip_comment (st : pst) : pst :=
  let '(ok, st1) := skip_space st in
  if negb ok then st1 else
  match data st1 with
  | c0 :: c1 :: _ =>
      if (c0 =? 47) && (c1 =? 47) then          (* strings.HasPrefix(p.data, "//") *)
        let r := index_byte 10 (data st1) 0 in
        let st2 := tick (scan_cost r st1) st1 in
        match r with Some i => fwd (i + 1) st2 | None => st2 end
      else if (c0 =? 47) && (c1 =? 42) then     (* strings.HasPrefix(p.data, "/*") *)
        let r := index_pair 42 47 (data st1) 0 in
        let st2 := tick (scan_cost r st1) st1 in
        match r with Some i => fwd (i + 2) st2 | None => st2 end
      else st1
  | _ => st1
  end.

(** func (p *Parser) peekRune() rune *)
Definition peek_rune (st : pst) : Z := match data st with [] => eof | b :: _ => b end.

(** func (p *Parser) peekNonSpaceRune() rune *)
Definition peek_nonspace (st : pst) : Z * pst :=
  let '(ok, st1) := skip_space st in
  if ok then (peek_rune st1, st1) else (eof, st1).

(** func (p *Parser) nextRune() rune: "r := rune(p.data[0])" is guarded by p.pos < p.len only *)
Definition next_rune (st : pst) : res Z :=
  if pos st >=? plen then ROk eof st
  else match data st with
       | [] => RPanic st
       | b :: _ => let '(ok, st1) := forward 1 st in if ok then ROk b st1 else ROk eof st1
       end.

(** func (p *Parser) nextNonSpaceRune() rune *)
Definition next_nonspace (st : pst) : res Z :=
  let '(ok, st1) := skip_space st in
  if ok then next_rune st1 else ROk eof st1.

(** nextCode (bits = 8) and nextItemSize (bits = 32) up to the conversion:
    strconv.ParseUint(p.data[:i], 10, bits) at the first non-digit i; result (value, i) *)
Definition next_number (bits : Z) (t : etag) (st : pst) : res (Z * Z) :=
  if pos st >=? plen then fail t st
  else
    let r := digit_span (data st) 0 in
    let st1 := tick (scan_cost r st) st in
    match r with
    | None => fail t st1
    | Some i =>
        match parse_uint false bits (firstn (Z.to_nat i) (data st1)) with
        | NOk v => ROk (v, i) st1
        | _ => fail t st1
        end
    end.

(** func (p *Parser) nextCode() (uint8, error) *)
Definition next_code (st : pst) : res Z :=
  do (vi, st1) <- next_number 8 T_code st;
  ROk (fst vi) (fwd (snd vi) st1).

(** func (p *Parser) nextItemSize() (int, error) *)
Definition next_item_size (st : pst) : res Z :=
  do (vi, st1) <- next_number 32 T_item_size st;
  if fst vi >? 2147483647 then fail T_item_size st1
  else ROk (fst vi) (fwd (snd vi) st1).

(** func (p *Parser) parseHSMSHeader() error; result (stream, function, wbit) *)
Definition parse_header (st : pst) : res (Z * Z * bool) :=
  let ft := index_term (data st) 0 in
  let st := tick (scan_cost ft st) st in
  match ft with
  | None => fail T_noterm st
  | Some ft =>
      let fb := index_byte 60 (data st) 0 in
      let st := tick (scan_cost fb st) st in
      let i := Z.max ft (match fb with Some j => j | None => -1 end) in
      let mi := index_byte_upto 58 (data st) (Z.to_nat i) 0 in
      let st := tick (match mi with Some m => m + 1 | None => i + 1 end) st in
      let st := match mi with Some m => fwd (m + 1) st | None => st end in
      let '(ch, st) := peek_nonspace st in
      let st := if is_quote ch then fwd 1 st else st in
      do (r, st) <- next_rune st;
      if negb (r =? 83) then fail T_stream st else
      do (sv, st) <- next_code st;
      if sv >? 127 then fail T_stream_range st else
      do (r, st) <- next_rune st;
      if negb (r =? 70) then fail T_function st else
      do (fv, st) <- next_code st;
      let '(ch, st) := peek_nonspace st in
      let st := if is_quote ch then fwd 1 st else st in
      let '(ch, st) := peek_nonspace st in
      if ch =? 87 then ROk (sv, fv, true) (fwd 1 st) else ROk (sv, fv, false) st
  end.

(** func (p *Parser) parseItemType() (secs2.FormatCode, bool) *)
Definition parse_item_type (st : pst) : option itype * pst :=
  let st := snd (skip_space st) in
  match data st with
  | [] => (None, st)
  | c0 :: t =>
      let f := upper_byte c0 in
      let second := match t with c1 :: _ => Some (upper_byte c1) | [] => None end in
      if f =? 76 then (Some TList, fwd 1 st)
      else if f =? 65 then (Some TAscii, fwd 1 st)
      else if f =? 74 then (Some TJis8, fwd 1 st)
      else if f =? 87 then (Some TLocal, fwd 1 st)
      else if f =? 66 then
        match second with
        | Some s =>
            if s =? 79 then (if is_boolean7 (data st) then (Some TBoolean, fwd 7 st) else (Some TBinary, fwd 1 st))
            else if (s =? 32) || (s =? 91) then (Some TBinary, fwd 1 st)
            else (None, st)
        | None => (Some TBinary, fwd 1 st)
        end
      else if f =? 70 then
        match second with
        | Some s => if s =? 52 then (Some (TFloat 4), fwd 2 st)
                    else if s =? 56 then (Some (TFloat 8), fwd 2 st) else (None, st)
        | None => (None, st)
        end
      else if (f =? 73) || (f =? 85) then
        match second with
        | Some s =>
            let w := if s =? 49 then 1 else if s =? 50 then 2 else if s =? 52 then 4 else if s =? 56 then 8 else 0 in
            if w =? 0 then (None, st)
            else (Some (if f =? 73 then TInt w else TUint w), fwd 2 st)
        | None => (None, st)
        end
      else (None, st)
  end.

(** the tail of parseItemSize: closing bracket and min <= max; result maxSize *)
Definition size_finish (mn mx : Z) (st : pst) : res Z :=
  do (r, st) <- next_nonspace st;
  if negb (r =? 93) then fail T_item_size st
  else if mn >? mx then fail T_minmax st
  else ROk mx st.

(** func (p *Parser) parseItemSize() (minSize, maxSize int, err error); result maxSize *)
Definition parse_item_size (st : pst) : res Z :=
  do (r, st) <- next_nonspace st;
  if negb (r =? 91) then ROk 0 (backward 1 st) else
  let '(ch, st) := peek_nonspace st in
  if ch =? 46 then
    let st := fwd 2 st in
    do (mx, st) <- next_item_size st;
    size_finish 0 mx st
  else
    do (mn, st) <- next_item_size st;
    let '(ch, st) := peek_nonspace st in
    if ch =? 46 then
      let st := fwd 2 st in
      if peek_rune st =? 93 then size_finish mn mn st
      else do (mx, st) <- next_item_size st; size_finish mn mx st
    else size_finish mn mn st.

(** func (p *Parser) getItemValueStrings() []string *)
Definition value_strings (st : pst) : list bytes * pst :=
  let r := index_byte 62 (data st) 0 in
  let st := tick (scan_cost r st) st in
  match r with
  | None => ([[]], st)
  | Some i => (fields (firstn (Z.to_nat i) (data st)), fwd (i + 1) st)
  end.

(** parseBoolean / parseBinary / parseFloat / parseInt / parseUint share one shape: allocate
    from the hint, remember the start offset, split the values, convert each; any conversion
    failure is a syntax error AT THE START offset (errfAt). *)
Definition parse_values (esz size : Z) (conv : list bytes -> option item) (st : pst) : res item :=
  let st := alloc size esz st in
  let start := pos st in
  let '(vals, st) := value_strings st in
  match conv vals with
  | Some it => ROk it st
  | None => fail_at T_value start st
  end.

Definition num_ok (r : numres) : option Z := match r with NOk v => Some v | _ => None end.

Definition conv_binary (tok : bytes) : option Z :=
  match parse_int true 64 tok with
  | NOk v => if (v <? 0) || (v >=? 256) then None else Some v
  | _ => None
  end.

Definition parse_value_item (ty : itype) (size : Z) (st : pst) : res item :=
  match ty with
  | TBoolean => parse_values 1 size (fun vs => option_map IBool (map_opt bool_token vs)) st
  | TBinary => parse_values 1 size (fun vs => option_map IBin (map_opt conv_binary vs)) st
  | TFloat w => parse_values 8 size (fun vs => option_map (IFloat w) (map_opt (fun t => num_ok (parse_float (8 * w) t)) vs)) st
  | TInt w => parse_values 8 size (fun vs => option_map (IInt w) (map_opt (fun t => num_ok (parse_int true (8 * w) t)) vs)) st
  | TUint w => parse_values 8 size (fun vs => option_map (IUint w) (map_opt (fun t => num_ok (parse_uint true (8 * w) t)) vs)) st
  | _ => RPanic st   (* not a value type: never called (parse_item dispatches) *)
  end.

(** func (p *Parser) parseASCIIStrict(size int) *)
Definition parse_ascii_strict (size : Z) (st : pst) : res item :=
  let q := find_quote (data st) in
  let st := tick (remaining st + 1) st in
  let st := alloc size 1 st in                                   (* sb.Grow(size) *)
  match ascii_strict_loop q (data st) O 0 APlain [] 0 0 with
  | ADone i s iters cost => ROk (IAscii s) (fwd (i + 1) (tickn (iters + 1) (iters + cost) st))
  | AFail t iters cost => fail t (tickn (iters + 1) (iters + cost) st)
  | AEof iters cost => fail T_ascii_eof (tickn (iters + 1) (iters + cost) st)
  end.

(** the bound checkASCIICloseQuote compares idx and nidx with: p.len in the current code,
    len(p.data) in the repaired one *)
Definition quote_bound (st : pst) : Z := if c_quote_fix cf then remaining st else plen.

(** func (p *Parser) parseASCIIFast(maxSize int) *)
Definition parse_ascii_fast (max_size : Z) (st : pst) : res item :=
  do (ch, st) <- next_nonspace st;
  if ch =? 62 then ROk (IAscii []) st
  else if negb (is_quote ch) then fail T_ascii_quote st
  else
    let fallback (st : pst) : res item :=
      match fast_loop (quote_bound st) ch (data st) 0 0 with
      | FFound i n cost => ROk (IAscii (firstn (Z.to_nat i) (data st))) (fwd n (tick (cost + 1) st))
      | FNone cost => fail T_ascii_unclosed (tick (cost + 1) st)
      | FPanicked => RPanic st
      end in
    if max_size >? 0 then
      if remaining st <? max_size + 2 then fail T_ascii_overflow st
      else
        match close_quote (quote_bound st) (data st) max_size ch with
        | SFound n => ROk (IAscii (firstn (Z.to_nat max_size) (data st))) (fwd n (tick (n - max_size + 1) st))
        | SPanicked => RPanic st
        | SNo => fallback (tick 1 st)
        end
    else fallback st.

(** parseJIS8 / parseLocalizedStr *)
Definition parse_quoted (mk : bytes -> item) (tq tu : etag) (st : pst) : res item :=
  do (ch, st) <- next_nonspace st;
  if ch =? 62 then ROk (mk []) st
  else if negb (is_quote ch) then fail tq st
  else
    let r := quoted_scan ch (data st) 0 0 in
    let st := tick (match r with Some (_, i) => i + 1 | None => remaining st + 1 end) st in
    match r with
    | Some (lastq, i) => ROk (mk (firstn (Z.to_nat lastq) (data st))) (fwd (i + 1) st)
    | None => fail tu st
    end.

(** func (p *Parser) parseItem() and parseList(size), mutually recursive. Fuel: one unit per
    parseItem call and per iteration of parseList's loop. *)
Fixpoint parse_item (fuel : nat) (st : pst) : res item :=
  match fuel with
  | O => RFuel st
  | S f =>
      do (ch, st) <- next_nonspace st;
      if negb (ch =? 60) then fail T_expect_lt st else
      match parse_item_type st with
      | (None, st) => fail T_item_type st
      | (Some ty, st) =>
          do (size, st) <- parse_item_size st;
          let st := skip_comment st in
          do (it, st) <-
            match ty with
            | TList =>
                let st := enter st in
                match c_depth_cap cf with
                | Some dmax => if m_depth (mt st) >? dmax then fail T_depth st
                               else parse_list f [] (alloc size 16 st)
                | None => parse_list f [] (alloc size 16 st)
                end
            | TAscii => if strict then parse_ascii_strict size st else parse_ascii_fast size st
            | TJis8 => parse_quoted IJis8 T_jis8_quote T_jis8_unclosed st
            | TLocal => parse_quoted ILocal T_local_quote T_local_unclosed st
            | _ => parse_value_item ty size st
            end;
          ROk it (skip_comment st)
      end
  end
with parse_list (fuel : nat) (acc : list item) (st : pst) : res item :=
  match fuel with
  | O => RFuel st
  | S f =>
      let '(ch, st) := peek_nonspace st in
      if ch =? 60 then
        do (it, st) <- parse_item f st;
        parse_list f (it :: acc) st
      else if ch =? 62 then ROk (IList (rev acc)) (leave (fwd 1 st))
      else if ch =? eof then fail T_list_eof st
      else fail T_list_child st
  end.

(** func (p *Parser) parseText() *)
Definition parse_text (fuel : nat) (st : pst) : res item :=
  let st := skip_comment st in
  let '(ch, st) := peek_nonspace st in
  if ch =? 46 then ROk IEmpty st else parse_item fuel st.

(** func (p *Parser) parseMsg(headerOnly bool); [None] = (nil, nil): no more messages *)
Definition parse_msg (fuel : nat) (header_only : bool) (st : pst) : res (option msg) :=
  let st := skip_comment st in
  let '(ch, st) := peek_nonspace st in
  if ch =? eof then ROk None st else
  do (h, st) <- parse_header st;
  let '(sv, fv, w) := h in
  if header_only then
    match new_data_message sv fv w IEmpty with
    | Some m => ROk (Some m) st
    | None => RErr EConstruct st
    end
  else
    do (it, st) <- parse_text fuel st;
    do (ch, st) <- next_nonspace st;
    if negb (ch =? 46) then fail T_dot st else
    match new_data_message sv fv w it with
    | Some m => ROk (Some m) st
    | None => RErr EConstruct st
    end.

(** the loop of func (p *Parser) Parse(input) *)
Fixpoint parse_loop (fuel ifuel : nat) (acc : list msg) (st : pst) : res (list msg) :=
  match fuel with
  | O => RFuel st
  | S f =>
      do (m, st) <- parse_msg ifuel false st;
      match m with
      | None => ROk (rev acc) st
      | Some m => parse_loop f ifuel (m :: acc) st
      end
  end.

(** p.initInput(input) *)
Definition init_state : pst := {| pos := 0; back := []; data := input; mt := meters0 |}.

(** Parser.Parse / sml.Parse / sml.ParseStrict *)
Definition run_parse (fuel : nat) : res (list msg) := parse_loop fuel fuel [] init_state.

(** Parser.ParseMessage (header_only = false) / Parser.ParseHeader (header_only = true) *)
Definition run_parse_one (fuel : nat) (header_only : bool) : res msg :=
  do (m, st) <- parse_msg fuel header_only init_state;
  match m with
  | Some m => ROk m st
  | None => RErr ENoMessage st
  end.

End Parser.

(** ---------- the functions the property theorems speak about ---------- *)
Inductive outcome (A : Type) := Ok (a : A) | Err (e : perr) | Panic | OutOfFuel.
Arguments Ok {A}. Arguments Err {A}. Arguments Panic {A}. Arguments OutOfFuel {A}.

Definition outcome_of {A} (r : res A) : outcome A :=
  match r with ROk a _ => Ok a | RErr e _ => Err e | RPanic _ => Panic | RFuel _ => OutOfFuel end.

Definition final_meters {A} (r : res A) : meters :=
  match r with ROk _ s | RErr _ s | RPanic s | RFuel s => mt s end.

(** sml.Parse (strict = false) / sml.ParseStrict (strict = true) under configuration [cf] *)
Definition parse_with (cf : cfg) (pf : Z -> bytes -> numres) (fuel : nat) (strict : bool) (s : bytes) : res (list msg) :=
  run_parse cf strict s (blen s) pf fuel.

(** enough fuel for every input (ParserProofs): two units per byte, plus two *)
Definition fuel_for_input (s : bytes) : nat := S (S (length s + length s)).
