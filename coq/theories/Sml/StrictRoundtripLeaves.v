(** Component lemmas of the C13 message-level proof: strings.Fields on the value lists the
    encoder writes, the JIS-8 / localized scanner on raw-quoted text, item type and size syntax,
    and the value tokens of every leaf type. *)
From Coq Require Import ZArith List Lia Bool ZifyBool.
From GoSecs Require Import Base.Decimal Base.DecimalProofs Base.Utf8 Sml.Syntax Sml.Encoder Sml.ToSml
  Sml.StrictAscii Sml.StrictAsciiProofs Sml.StrictParser Sml.StrictParserLemmas Sml.StrictUtf8Proofs
  Sml.StrictRoundtripDefs.
Import ListNotations.
Open Scope Z_scope.

(** ---------- value-token characters ---------- *)
Lemma vtok_char_range c : vtok_char c = true -> 43 <= c < 127 /\ c <> 47 /\ c <> c_gt /\ c <> 32.
Proof. unfold vtok_char, in_range, c_gt. lia. Qed.

Lemma vtok_char_not_space c : vtok_char c = true -> is_unicode_space c = false.
Proof. intros H. apply vtok_char_range in H. unfold is_unicode_space, in_range. lia. Qed.

Lemma vtok_char_not_sml_space c : vtok_char c = true -> is_sml_space c = false.
Proof. intros H. apply vtok_char_range in H. unfold is_sml_space. lia. Qed.

Definition flush (cur : bytes) (acc : list bytes) : list bytes :=
  match cur with [] => acc | _ => rev cur :: acc end.

Lemma fields_loop_nil k cur acc : fields_loop [] O k cur acc = rev (flush cur acc).
Proof. reflexivity. Qed.

Lemma fields_loop_char c d k cur acc : vtok_char c = true ->
  fields_loop (c :: d) O k cur acc = fields_loop d O true (c :: cur) acc.
Proof.
  intros H. pose proof (vtok_char_range c H) as R.
  cbn [fields_loop]. rewrite decode_rune_ascii by lia.
  rewrite (vtok_char_not_space c H). reflexivity.
Qed.

Lemma fields_loop_space d k cur acc :
  fields_loop (32 :: d) O k cur acc = fields_loop d O false [] (flush cur acc).
Proof. reflexivity. Qed.

Lemma fields_loop_tok t : forallb vtok_char t = true -> t <> [] -> forall d k cur acc,
  fields_loop (t ++ d) O k cur acc = fields_loop d O true (rev t ++ cur) acc.
Proof.
  induction t as [|c t IH]; intros F NE d k cur acc; [contradiction|].
  cbn [forallb] in F. apply andb_true_iff in F. destruct F as [Fc Ft].
  cbn [app]. rewrite fields_loop_char by exact Fc.
  destruct t as [|c' t'].
  - reflexivity.
  - rewrite IH by (try exact Ft; discriminate). cbn [rev]. rewrite <- !app_assoc. reflexivity.
Qed.

Lemma good_tok_spec t : good_tok t = true -> t <> [] /\ forallb vtok_char t = true.
Proof. destruct t; cbn [good_tok]; [discriminate|]. intros H. split; [discriminate|exact H]. Qed.

Lemma fields_loop_sp_toks : forall ts k cur acc, forallb good_tok ts = true ->
  fields_loop (flat_map (fun t => 32 :: t) ts) O k cur acc = rev (flush cur acc) ++ ts.
Proof.
  induction ts as [|t ts IH]; intros k cur acc F.
  - cbn [flat_map]. rewrite fields_loop_nil, app_nil_r. reflexivity.
  - cbn [forallb] in F. apply andb_true_iff in F. destruct F as [Ft Fts].
    destruct (good_tok_spec t Ft) as [NE FC].
    cbn [flat_map]. change ((32 :: t) ++ flat_map (fun t0 => 32 :: t0) ts) with (32 :: (t ++ flat_map (fun t0 => 32 :: t0) ts)).
    rewrite fields_loop_space. rewrite fields_loop_tok by assumption.
    rewrite IH by exact Fts. rewrite app_nil_r.
    unfold flush at 1. destruct (rev t) eqn:E.
    + exfalso. apply NE. rewrite <- (rev_involutive t), E. reflexivity.
    + rewrite <- E. rewrite rev_involutive. cbn [rev]. rewrite <- app_assoc. reflexivity.
Qed.

(** strings.Fields of "t1 t2 ... tn" (single spaces) is [t1; ...; tn] *)
Lemma fields_join_sp ts : forallb good_tok ts = true -> fields (join_sp ts) = ts.
Proof.
  intros F. unfold fields. destruct ts as [|t ts]; [reflexivity|].
  cbn [forallb] in F. apply andb_true_iff in F. destruct F as [Ft Fts].
  destruct (good_tok_spec t Ft) as [NE FC].
  cbn [join_sp]. rewrite fields_loop_tok by assumption.
  change (flat_map (fun x => c_sp :: x) ts) with (flat_map (fun x => 32 :: x) ts).
  rewrite fields_loop_sp_toks by exact Fts. rewrite app_nil_r.
  unfold flush. destruct (rev t) eqn:E.
  - exfalso. apply NE. rewrite <- (rev_involutive t), E. reflexivity.
  - rewrite <- E. rewrite rev_involutive. reflexivity.
Qed.

Lemma tok_no_char c t : forallb vtok_char t = true -> vtok_char c = false -> ~ In c t.
Proof.
  intros F NC I. rewrite forallb_forall in F. specialize (F c I). congruence.
Qed.

Lemma join_sp_no_gt ts : forallb good_tok ts = true -> ~ In c_gt (join_sp ts).
Proof.
  intros F. destruct ts as [|t ts]; [intros []|].
  cbn [forallb] in F. apply andb_true_iff in F. destruct F as [Ft Fts].
  cbn [join_sp]. intros I. apply in_app_or in I. destruct I as [I|I].
  - destruct (good_tok_spec t Ft) as [_ FC]. revert I. apply tok_no_char; [exact FC|reflexivity].
  - apply in_flat_map in I. destruct I as (x & Ix & I).
    rewrite forallb_forall in Fts. specialize (Fts x Ix). destruct (good_tok_spec x Fts) as [_ FC].
    destruct I as [E|I]; [discriminate|]. revert I. apply tok_no_char; [exact FC|reflexivity].
Qed.

(** " t1 t2 .. tn" = (one space if any token) ++ "t1 t2 .. tn" *)
Lemma sp_toks_join ts :
  flat_map (fun t => c_sp :: t) ts = (match ts with [] => [] | _ => [c_sp] end) ++ join_sp ts.
Proof. destruct ts as [|t ts]; reflexivity. Qed.

Lemma join_sp_head ts : forallb good_tok ts = true -> ts <> [] ->
  exists c r, join_sp ts = c :: r /\ vtok_char c = true.
Proof.
  intros F NE. destruct ts as [|t ts]; [contradiction|].
  cbn [forallb] in F. apply andb_true_iff in F. destruct F as [Ft _].
  destruct t as [|c t']; [discriminate|]. cbn [good_tok forallb] in Ft.
  apply andb_true_iff in Ft. destruct Ft as [Fc _].
  exists c, (t' ++ flat_map (fun x => c_sp :: x) ts). split; [reflexivity|exact Fc].
Qed.

(** ---------- the JIS-8 / localized scanner on raw-quoted text ---------- *)
Definition skip_safe (k : nat) (s : bytes) : Prop :=
  exists pre post, s = pre ++ post /\ length pre = k /\ Forall high pre.

Lemma quoted_scan_ok q t' : 0 <= q < 128 -> q <> c_gt ->
  forall s i k lastq, Forall is_byte s -> ~ In c_gt s -> skip_safe k s ->
  quoted_scan q (s ++ q :: c_gt :: t') i k lastq = Some (i + blen s, i + blen s + 1).
Proof.
  intros Hq Nq. induction s as [|b s IH]; intros i k lastq FB NG (pre & post & E & L & HP).
  - destruct pre; [|discriminate]. cbn [length] in L. subst k.
    cbn [app quoted_scan]. rewrite decode_rune_ascii by lia. rewrite Z.eqb_refl. cbn [pred].
    rewrite decode_rune_ascii by reflexivity.
    replace (c_gt =? q) with false by lia. rewrite Z.eqb_refl.
    replace (i <? i + 1 - 1) with false by lia. rewrite blen_nil. f_equal. f_equal; lia.
  - pose proof (Forall_inv FB) as Bb. pose proof (Forall_inv_tail FB) as FB'.
    assert (NG' : ~ In c_gt s) by (intros I; apply NG; right; exact I).
    assert (Nb : b <> c_gt) by (intros ->; apply NG; left; reflexivity).
    cbn [app quoted_scan]. destruct k as [|k].
    + (* at a rune boundary *)
      destruct (decode_rune (b :: s ++ q :: c_gt :: t')) as [ch w] eqn:D.
      destruct (decode_rune_width _ _ _ _ D) as (k' & pre' & post' & Ew & Et & Lp & Hp). subst w. cbn [pred].
      assert (SS : skip_safe k' s).
      { (* the swallowed bytes are high, hence inside s *)
        clear -Et Lp Hp Hq Nq. revert s Et. revert k' Lp. induction pre' as [|x pre' IHp]; intros k' Lp s Et.
        - cbn in Lp. subst k'. exists [], s. repeat split. constructor.
        - cbn [length] in Lp. destruct k' as [|k'']; [discriminate|]. inversion Lp as [Lp'].
          inversion Hp as [|? ? Hx Hp']; subst.
          destruct s as [|y s'].
          + cbn [app] in Et. inversion Et; subst. unfold high in Hx. lia.
          + cbn [app] in Et. inversion Et; subst.
            destruct (IHp Hp' _ eq_refl s' H1) as (p2 & q2 & E2 & L2 & H2).
            exists (x :: p2), q2. repeat split; [rewrite E2; reflexivity|cbn [length]; rewrite L2; reflexivity|constructor; assumption]. }
      assert (Hch : ch <> c_gt).
      { destruct (Z_lt_le_dec b 128) as [Lt|Ge].
        - unfold is_byte in Bb. rewrite decode_rune_ascii in D by lia. inversion D; subst. exact Nb.
        - pose proof (decode_rune_nonascii b (s ++ q :: c_gt :: t') ltac:(unfold is_byte in Bb; lia)) as G.
          rewrite D in G. cbn [fst] in G. unfold c_gt. lia. }
      replace (ch =? c_gt) with false by lia.
      destruct (ch =? q); rewrite (IH _ _ _ FB' NG' SS); rewrite blen_cons; f_equal; f_equal; lia.
    + (* stepping over a continuation byte *)
      destruct pre as [|x pre]; [discriminate|]. cbn [length] in L. inversion L as [L'].
      cbn [app] in E. inversion E; subst. inversion HP as [|? ? _ HP']; subst.
      rewrite (IH _ _ _ FB' NG'); [rewrite blen_cons; f_equal; f_equal; lia|].
      exists pre, post. repeat split. exact HP'.
Qed.
