(** Model of sml/parser.go parseASCIIStrict: quote-character detection and the rune-by-rune state
    machine (quoted runs with backslash escapes, numeric byte tokens read by
    strconv.ParseUint(tok, 0, 0), spaces between them, the closing angle bracket), with Go's rune
    iteration (Base/Utf8.v) and WriteRune re-encoding. Also the REPAIRED writeStrictASCII
    proposed for finding C13-gt (escape the closing angle bracket inside a quoted run). *)
From Coq Require Import ZArith List Bool.
From GoSecs Require Import Base.Decimal Base.Utf8 Sml.Syntax Sml.Encoder.
Import ListNotations.
Open Scope Z_scope.

(** parser error classes (message text is never compared) *)
Inductive perr :=
| EUnclosedQuote      (* quoted run reaches the closing bracket unescaped *)
| EBadNumeric         (* ParseUint rejects a numeric byte token *)
| ELatin1             (* numeric token above 255 *)
| EItemEof.           (* input ends inside the item *)

Record astate := {
  a_quote : bool;     (* isQuoteStr *)
  a_num : bool;       (* isNumStr *)
  a_esc : bool;       (* isEscapedCh *)
  a_numstr : bytes;   (* numStr *)
  a_rsb : bytes       (* strings.Builder content, reversed *)
}.

Definition astate0 : astate :=
  {| a_quote := false; a_num := false; a_esc := false; a_numstr := []; a_rsb := [] |}.

Inductive astep_res := ACont (st : astate) | ADone (s : bytes) | AFail (e : perr).

Definition push_rune (ch : Z) (st : astate) : astate :=
  {| a_quote := a_quote st; a_num := a_num st; a_esc := false; a_numstr := a_numstr st;
     a_rsb := rev_append (encode_rune ch) (a_rsb st) |}.

(** numeric token -> byte: ParseUint(numStr, 0, 0), then the Latin-1 bound *)
Definition num_byte (tok : bytes) : perr + Z :=
  match parse_uint true 64 tok with
  | NOk v => if v >? 255 then inl ELatin1 else inr v
  | _ => inl EBadNumeric
  end.

(** one iteration of "for i, ch := range p.data" *)
Definition astep (q : Z) (ch : Z) (st : astate) : astep_res :=
  if a_quote st then
    if ch =? c_bs then
      (if a_esc st then ACont (push_rune ch st)
       else ACont {| a_quote := true; a_num := a_num st; a_esc := true; a_numstr := a_numstr st; a_rsb := a_rsb st |})
    else if ch =? q then
      (if a_esc st then ACont (push_rune ch st)
       else ACont {| a_quote := false; a_num := a_num st; a_esc := a_esc st; a_numstr := a_numstr st; a_rsb := a_rsb st |})
    else if ch =? c_gt then
      (if a_esc st then ACont (push_rune ch st) else AFail EUnclosedQuote)
    else ACont (push_rune ch st)
  else if a_num st then
    if ch =? c_sp then
      match num_byte (a_numstr st) with
      | inl e => AFail e
      | inr v => ACont {| a_quote := false; a_num := false; a_esc := a_esc st; a_numstr := []; a_rsb := v :: a_rsb st |}
      end
    else if ch =? c_gt then
      match num_byte (a_numstr st) with
      | inl e => AFail e
      | inr v => ADone (rev (v :: a_rsb st))
      end
    else ACont {| a_quote := false; a_num := true; a_esc := a_esc st; a_numstr := a_numstr st ++ encode_rune ch; a_rsb := a_rsb st |}
  else
    if ch =? q then ACont {| a_quote := true; a_num := false; a_esc := a_esc st; a_numstr := a_numstr st; a_rsb := a_rsb st |}
    else if ch =? c_sp then ACont st
    else if ch =? c_gt then ADone (rev (a_rsb st))
    else ACont {| a_quote := false; a_num := true; a_esc := a_esc st; a_numstr := encode_rune ch; a_rsb := a_rsb st |}.

(** [consumed] is what the parser forwards by (i+1); [rest] is the input after the closing bracket *)
Inductive ares := AOk (s : bytes) (consumed : Z) (rest : bytes) | AErr (e : perr).

(** the range loop, byte by byte: [skip] counts the continuation bytes of the current rune that
    remain to be stepped over; [i] is the byte offset of the head of [data]. On the closing
    bracket the parser forwards by i+1. *)
Fixpoint astrict_loop (q : Z) (data : bytes) (i : Z) (skip : nat) (st : astate) : ares :=
  match data with
  | [] => AErr EItemEof
  | _ :: t =>
      match skip with
      | S k => astrict_loop q t (i + 1) k st
      | O =>
          let '(ch, w) := decode_rune data in
          match astep q ch st with
          | ACont st' => astrict_loop q t (i + 1) (pred w) st'
          | ADone s => AOk s (i + 1) t
          | AFail e => AErr e
          end
      end
  end.

(** quoteChar: the first quote character before the first closing bracket, default double quote *)
Fixpoint detect_quote (data : bytes) (skip : nat) : Z :=
  match data with
  | [] => c_dq
  | _ :: t =>
      match skip with
      | S k => detect_quote t k
      | O =>
          let '(ch, w) := decode_rune data in
          if ch =? c_gt then c_dq
          else if (ch =? c_sq) || (ch =? c_dq) then ch
          else detect_quote t (pred w)
      end
  end.

(** parseASCIIStrict on the remaining input (after the size and skipComment) *)
Definition parse_ascii_strict (data : bytes) : ares :=
  astrict_loop (detect_quote data O) data 0 O astate0.

(** ---------- the repaired encoder (proposed fix, fixes/C13-escape-gt.diff) ---------- *)

(** [egt = false]: the code as it is (equal to Encoder.strict_ascii_loop, lemma in the proofs);
    [egt = true]: the repair. *)
Fixpoint strict_ascii_loop_gen (egt : bool) (q : Z) (s : bytes) (first in_run : bool) : bytes :=
  match s with
  | [] => if in_run then [q] else []
  | c :: s' =>
      if printable c then
        (if in_run then [] else (if first then [] else [c_sp]) ++ [q])
        ++ (if (c =? q) || (c =? c_bs) || (egt && (c =? c_gt)) then [c_bs] else []) ++ [c]
        ++ strict_ascii_loop_gen egt q s' false true
      else
        (if in_run then [q] else [])
        ++ (if first then [] else [c_sp])
        ++ [48; 120; hex_digit (Z.shiftr c 4); hex_digit (Z.land c 15)]
        ++ strict_ascii_loop_gen egt q s' false false
  end.

Definition write_strict_ascii_gen (egt : bool) (q : Z) (s : bytes) : bytes :=
  match s with
  | [] => [q; q]
  | _ => strict_ascii_loop_gen egt q s true false
  end.

Definition write_strict_ascii_fixed := write_strict_ascii_gen true.
