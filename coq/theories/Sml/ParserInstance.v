(** Parser values as objects: what a *sml.Parser carries between calls, and why a call does not
    depend on it. The Go struct has pos, len, input, data (overwritten by initInput at the start
    of Parse / ParseMessage / ParseHeader), stream, function, wbit (zeroed at the start of every
    parseMsg, locals of [parse_msg] in the model) and strict (written by NewParser only).
    [obj_parse] is Parser.Parse on an arbitrary object: it returns the outcome and the object the
    call leaves behind. *)
From Coq Require Import ZArith List Bool.
From GoSecs Require Import Base.Decimal Sml.ErrPos Sml.Parser.
Import ListNotations.
Open Scope Z_scope.

Record parser_obj := { o_pos : Z; o_len : Z; o_input : bytes; o_data : bytes; o_strict : bool }.

(** sml.NewParser(sml.WithParserStrictMode(strict)) *)
Definition new_parser (strict : bool) : parser_obj :=
  {| o_pos := 0; o_len := 0; o_input := []; o_data := []; o_strict := strict |}.

Definition final_state {A} (r : res A) : pst :=
  match r with ROk _ s | RErr _ s | RPanic s | RFuel s => s end.

Definition obj_parse (cf : cfg) (pf : Z -> bytes -> numres) (o : parser_obj) (input : bytes)
  : outcome (list msg) * parser_obj :=
  (* p.initInput(input): input, data, len, pos are overwritten before anything reads them *)
  let r := parse_with cf pf (fuel_for_input input) (o_strict o) input in
  (outcome_of r,
   {| o_pos := pos (final_state r); o_len := blen input; o_input := input;
      o_data := data (final_state r); o_strict := o_strict o |}).

(** a sequence of Parse calls on one object *)
Fixpoint obj_parse_all (cf : cfg) (pf : Z -> bytes -> numres) (o : parser_obj) (inputs : list bytes)
  : list (outcome (list msg)) :=
  match inputs with
  | [] => []
  | i :: rest => let '(r, o') := obj_parse cf pf o i in r :: obj_parse_all cf pf o' rest
  end.

(** The outcome of a call depends on the options and the input only — not on what the object
    was used for before; and a call never changes the options. *)
Lemma obj_parse_independent cf pf o input :
  fst (obj_parse cf pf o input) = fst (obj_parse cf pf (new_parser (o_strict o)) input) /\
  o_strict (snd (obj_parse cf pf o input)) = o_strict o.
Proof. split; reflexivity. Qed.

(** Hence any number of calls on one (reused) object gives, call by call, what fresh objects
    with the same options give — in particular in any interleaving with calls on other objects,
    since no object is shared. *)
Lemma obj_parse_all_fresh cf pf : forall inputs o,
  obj_parse_all cf pf o inputs =
  map (fun i => fst (obj_parse cf pf (new_parser (o_strict o)) i)) inputs.
Proof.
  induction inputs as [|i rest IH]; intros o; [reflexivity|].
  cbn [obj_parse_all map]. unfold obj_parse at 1. cbn [fst snd].
  rewrite IH. reflexivity.
Qed.
