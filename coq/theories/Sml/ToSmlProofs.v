(** C15: the two SML renderers agree on every item tree, byte for byte.
    Induction over the tree with the indentation level generalised; empty items, the
    single-value storage and EmptyItem children are cases of the proof. No oracle law is needed:
    both renderers call the same strconv functions on the same values. *)
From Coq Require Import ZArith List Lia Bool ZifyBool.
From GoSecs Require Import Base.Decimal Sml.Syntax Sml.Encoder Sml.ToSml.
Import ListNotations.
Open Scope Z_scope.

Lemma rep_snoc u n : rep u (S n) = rep u n ++ u.
Proof.
  induction n as [|n IH]; cbn [rep].
  - rewrite app_nil_r. reflexivity.
  - cbn [rep] in IH. rewrite IH at 1. rewrite app_assoc. reflexivity.
Qed.

Lemma flat_map_ext_Forall {A B} (f g : A -> list B) l :
  Forall (fun x => f x = g x) l -> flat_map f l = flat_map g l.
Proof. induction 1 as [|x l H _ IH]; cbn; [reflexivity|rewrite H, IH; reflexivity]. Qed.

Lemma flat_map_map {A B C} (f : A -> B) (g : B -> list C) l :
  flat_map g (map f l) = flat_map (fun x => g (f x)) l.
Proof. induction l as [|x l IH]; cbn; [reflexivity|rewrite IH; reflexivity]. Qed.

(** " " + (tokens joined by " ") = every token preceded by " ", for a non-empty token list *)
Lemma sp_join_sp {A} (tok : A -> bytes) v vs :
  c_sp :: join_sp (map tok (v :: vs)) = flat_map (fun x => c_sp :: tok x) (v :: vs).
Proof.
  cbn [map join_sp flat_map]. rewrite flat_map_map. reflexivity.
Qed.

Lemma store_size {A} (z : A) vs : st_size (store z vs) = Z.of_nat (length vs).
Proof. destruct vs as [|v [|v' vs]]; reflexivity. Qed.

Lemma store_iter {A} (z : A) vs : iter_storage (store z vs) = vs.
Proof.
  destruct vs as [|v [|v' vs]]; try reflexivity.
  unfold iter_storage, store. cbn [st_size st_values length].
  assert (Z.of_nat (S (S (length vs))) =? 1 = false) as -> by lia. reflexivity.
Qed.

(** IntItem/UintItem/FloatItem/BooleanItem: ToSML = encoder, for the empty, the one-value and the
    many-value storage *)
Lemma storage_agree {A} (tag : bytes) (tok : A -> bytes) (z : A) vs :
  sml_storage tag tok (store z vs) = encode_storage tag tok (store z vs).
Proof.
  unfold encode_storage. rewrite store_iter.
  destruct vs as [|v [|v' vs]].
  - reflexivity.
  - unfold sml_storage, store. cbn [st_size st_scalar]. cbn [Z.eqb flat_map].
    rewrite app_nil_r. change ([c_rb; c_sp] ++ tok v ++ [c_gt]) with ([c_rb] ++ (c_sp :: tok v) ++ [c_gt]).
    reflexivity.
  - unfold sml_storage, store. cbn [st_size st_values length].
    assert (Z.of_nat (S (S (length vs))) =? 0 = false) as -> by lia.
    assert (Z.of_nat (S (S (length vs))) =? 1 = false) as -> by lia.
    rewrite <- (sp_join_sp tok v (v' :: vs)).
    repeat rewrite <- app_assoc. reflexivity.
Qed.

Section Agree.
  Variable ffmt : fwidth -> Z -> bytes.
  Variable quote : bytes -> bytes.

  Lemma string_agree tok s : sml_string tok s = encode_string write_strict_ascii default_opts tok s false.
  Proof.
    unfold sml_string, encode_string, quote_byte. cbn [eo_ascii_single default_opts].
    destruct s as [|c s]; [reflexivity|].
    repeat rewrite <- app_assoc. reflexivity.
  Qed.

  Lemma binary_agree bs : sml_binary bs = encode_binary default_opts bs.
  Proof.
    unfold sml_binary, encode_binary. cbn [eo_binary_literal default_opts].
    destruct bs as [|b bs]; [reflexivity|].
    change (flat_map (fun b0 => [c_sp; 48; 120] ++ format_hex2 b0) (b :: bs))
      with (flat_map (fun b0 => c_sp :: ([48; 120] ++ format_hex2 b0)) (b :: bs)).
    rewrite <- (sp_join_sp (fun b0 => [48; 120] ++ format_hex2 b0) b bs).
    repeat rewrite <- app_assoc. reflexivity.
  Qed.

  (** a non-list item renders the same whatever the level *)
  Lemma leaf_agree x : is_list x = false -> forall l l',
    to_sml_at ffmt quote l x = encode_item ffmt quote default_opts l' x.
  Proof.
    intros NL l l'. unfold encode_item. destruct x; try discriminate; cbn [to_sml_at to_sml_leaf encode_item_w].
    - reflexivity.
    - apply string_agree.
    - apply string_agree.
    - reflexivity.
    - apply binary_agree.
    - apply storage_agree.
    - apply storage_agree.
    - apply storage_agree.
    - apply storage_agree.
  Qed.

  Theorem to_sml_at_agree : forall x level,
    to_sml_at ffmt quote level x = encode_item ffmt quote default_opts level x.
  Proof.
    induction x as [|cs IH|s|s|s|bs|vs|w vs|w vs|w vs] using item_ind'; intros level;
      try (apply leaf_agree; reflexivity).
    unfold encode_item. cbn [to_sml_at encode_item_w]. fold (encode_item ffmt quote). change (eo_indent default_opts) with [c_sp; c_sp].
    destruct cs as [|c cs']; [reflexivity|].
    do 5 f_equal.
    apply flat_map_ext_Forall.
    eapply Forall_impl; [|exact IH]. cbv beta. intros a Ha.
    destruct (is_list a) eqn:L.
    - rewrite Ha. reflexivity.
    - rewrite (leaf_agree a L (S level) (S level)). rewrite rep_snoc.
      repeat rewrite <- app_assoc. reflexivity.
  Qed.

  (** C15, first half: Item.ToSML() = sml.Encode(item), for every item tree *)
  Theorem to_sml_eq_encode_default : forall x,
    to_sml ffmt quote x = encode_default ffmt quote x.
  Proof. intros x. apply to_sml_at_agree. Qed.
End Agree.
