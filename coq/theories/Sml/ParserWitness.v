(** Concrete runs of the parser model (vm_compute): the three inputs on which the CURRENT code
    violates C14, and the same inputs under the proposed repairs. Used by Properties/C14.v for
    the [_refuted] theorems and the non-vacuity examples. *)
From Coq Require Import ZArith List Bool.
From GoSecs Require Import Base.Decimal Sml.ErrPos Sml.Parser.
Import ListNotations.
Open Scope Z_scope.

(** a ParseFloat that rejects everything (the witnesses contain no float items) *)
Definition no_float : Z -> bytes -> numres := fun _ _ => NSyntax.

Definition with_quote_fix : cfg := {| c_quote_fix := true; c_cap_hint := false; c_depth_cap := None |}.
Definition with_cap_hint : cfg := {| c_quote_fix := false; c_cap_hint := true; c_depth_cap := None |}.
Definition with_depth_cap : cfg := {| c_quote_fix := false; c_cap_hint := false; c_depth_cap := Some max_list_depth |}.

Definition run (cf : cfg) (strict : bool) (s : bytes) : res (list msg) :=
  parse_with cf no_float (fuel_for_input s) strict s.

(** "S1F1\n<A \"\" " — a truncated ASCII item: closing quote, then white space up to the end *)
Definition w_panic : bytes := [83;49;70;49;10;60;65;32;34;34;32].

Lemma w_panic_current : outcome_of (run cfg_current false w_panic) = Panic.
Proof. vm_compute. reflexivity. Qed.

Lemma w_panic_fixed : outcome_of (run with_quote_fix false w_panic) = Err (ESyntax T_ascii_unclosed 9 2 5).
Proof. vm_compute. reflexivity. Qed.

(** "S80F25\n<A[0] \"\"\n" *)
Definition w_panic2 : bytes := [83;56;48;70;50;53;10;60;65;91;48;93;32;34;34;10].
Lemma w_panic2_current : outcome_of (run cfg_current false w_panic2) = Panic.
Proof. vm_compute. reflexivity. Qed.

(** "S1F1\n<L[1000000]>\n." — 20 bytes, a size hint of one million list elements *)
Definition w_hint : bytes := [83;49;70;49;10;60;76;91;49;48;48;48;48;48;48;93;62;10;46].

Lemma w_hint_len : blen w_hint = 19.
Proof. reflexivity. Qed.

Lemma w_hint_current :
  outcome_of (run cfg_current false w_hint) = Ok [{| m_stream := 1; m_function := 1; m_wbit := false; m_item := IList [] |}] /\
  m_alloc_max (final_meters (run cfg_current false w_hint)) = 16000000 /\
  m_alloc_sum (final_meters (run cfg_current false w_hint)) = 16000000.
Proof. vm_compute. repeat split. Qed.

Lemma w_hint_capped :
  outcome_of (run with_cap_hint false w_hint) = Ok [{| m_stream := 1; m_function := 1; m_wbit := false; m_item := IList [] |}] /\
  m_alloc_max (final_meters (run with_cap_hint false w_hint)) = 48.
Proof. vm_compute. repeat split. Qed.

(** "S1F1\n" followed by 65 times "<L " — one level more than secs2.MaxListDepth, never closed *)
Definition w_deep (n : nat) : bytes := [83;49;70;49;10] ++ concat (repeat [60;76;32] n).

Lemma w_deep_current : m_depth_max (final_meters (run cfg_current false (w_deep 65))) = 65.
Proof. vm_compute. reflexivity. Qed.

Lemma w_deep_1000 : m_depth_max (final_meters (run cfg_current true (w_deep 1000))) = 1000 /\ blen (w_deep 1000) = 3005.
Proof. vm_compute. split; reflexivity. Qed.

Lemma w_deep_capped :
  outcome_of (run with_depth_cap false (w_deep 1000)) = Err (ESyntax T_depth 200 2 196) /\
  m_depth_max (final_meters (run with_depth_cap false (w_deep 1000))) = 65.
Proof. vm_compute. split; reflexivity. Qed.

(** a well-formed two-message text, both modes, for non-vacuity:
    "S1F1 W\n<L[2]\n  <A \"hi\">\n  <U1 7>\n>\n.\nS1F2 <B 0x0A>." *)
Definition w_valid : bytes :=
  [83;49;70;49;32;87;10;60;76;91;50;93;10;32;32;60;65;32;34;104;105;34;62;10;32;32;60;85;49;32;55;62;10;62;10;46;10;
   83;49;70;50;32;60;66;32;48;120;48;65;62;46].

Definition w_valid_msgs : list msg :=
  [{| m_stream := 1; m_function := 1; m_wbit := true; m_item := IList [IAscii [104;105]; IUint 1 [7]] |};
   {| m_stream := 1; m_function := 2; m_wbit := false; m_item := IBin [10] |}].

Lemma w_valid_ok : outcome_of (run cfg_current false w_valid) = Ok w_valid_msgs /\
                   outcome_of (run cfg_current true w_valid) = Ok w_valid_msgs /\
                   outcome_of (run cfg_repaired true w_valid) = Ok w_valid_msgs.
Proof. vm_compute. repeat split. Qed.

(** "S1F1\n<L\n  <A x>\n>." — a syntax error on line 3 *)
Definition w_err : bytes := [83;49;70;49;10;60;76;10;32;32;60;65;32;120;62;10;62;46].
Lemma w_err_pos : outcome_of (run cfg_current false w_err) = Err (ESyntax T_ascii_quote 14 3 7).
Proof. vm_compute. reflexivity. Qed.

(** ---------- the statements Properties/C14.v quotes (proved by vm_compute in their final
    shape: no conversion between [run] and [parse_with] is left to the lazy machine) ---------- *)
Lemma total_refuted :
  exists s, outcome_of (parse_with cfg_current no_float (fuel_for_input s) false s) = Panic.
Proof. exists w_panic. vm_compute. reflexivity. Qed.

Lemma resources_refuted :
  exists s, blen s = 19 /\
    m_alloc_max (final_meters (parse_with cfg_current no_float (fuel_for_input s) false s)) = 16000000.
Proof. exists w_hint. vm_compute. split; reflexivity. Qed.

Lemma depth_refuted :
  exists s, m_depth_max (final_meters (parse_with cfg_current no_float (fuel_for_input s) false s)) = 65 /\ 65 > max_list_depth.
Proof. exists (w_deep 65). vm_compute. split; reflexivity. Qed.

Lemma model_accepts :
  outcome_of (parse_with cfg_current no_float (fuel_for_input w_valid) false w_valid) = Ok w_valid_msgs /\
  outcome_of (parse_with cfg_current no_float (fuel_for_input w_valid) true w_valid) = Ok w_valid_msgs.
Proof. vm_compute. split; reflexivity. Qed.

Lemma model_position :
  outcome_of (parse_with cfg_current no_float (fuel_for_input w_err) false w_err) = Err (ESyntax T_ascii_quote 14 3 7).
Proof. vm_compute. reflexivity. Qed.
