(** Model of sml/errors.go [newParseError]: the byte offset is clamped to len(input), line and
    column are computed by one pass over input[0:offset]. Together with the specification
    [pos_ok] the parser theorems use (C14_position): offset within the input, line = 1 + number
    of newlines before the offset, column = 1 + distance to the start of that line. *)
From Coq Require Import ZArith List Lia Bool.
From GoSecs Require Import Base.Decimal.
Import ListNotations.
Open Scope Z_scope.

(** for i := 0; i < offset; i++ { if input[i] == '\n' { line++; col = 1 } else { col++ } } *)
Fixpoint lc_loop (inp : bytes) (n : nat) (line col : Z) {struct n} : Z * Z :=
  match n with
  | O => (line, col)
  | S n' =>
      match inp with
      | [] => (line, col)           (* input[i] with i >= len(input): excluded by the clamp *)
      | b :: t => if b =? 10 then lc_loop t n' (line + 1) 1 else lc_loop t n' line (col + 1)
      end
  end.

(** newParseError(input, offset, _) as (Offset, Line, Col) *)
Definition new_parse_error (input : bytes) (offset : Z) : Z * Z * Z :=
  let off := if offset >? blen input then blen input else offset in
  let '(line, col) := lc_loop input (Z.to_nat off) 1 1 in
  (off, line, col).

(** ---------- specification ---------- *)

Definition count_nl (l : bytes) : Z := Z.of_nat (count_occ Z.eq_dec l 10).

(** [sol] is the offset of the first byte of the line that contains [off]: it is 0 or preceded
    by a newline, and no newline lies in [sol, off). *)
Definition line_start (input : bytes) (off sol : Z) : Prop :=
  0 <= sol <= off /\
  (sol = 0 \/ nth_error input (Z.to_nat (sol - 1)) = Some 10) /\
  (forall i, sol <= i < off -> nth_error input (Z.to_nat i) <> Some 10).

Definition pos_ok (input : bytes) (off line col : Z) : Prop :=
  0 <= off <= blen input /\
  line = 1 + count_nl (firstn (Z.to_nat off) input) /\
  exists sol, line_start input off sol /\ col = 1 + off - sol.
