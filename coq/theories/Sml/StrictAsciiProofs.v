(** C13 core: parseASCIIStrict inverts writeStrictASCII for ALL byte strings — for the repaired
    encoder unconditionally, for the encoder as it is for every string without the closing
    bracket; and the refutation at that byte. *)
From Coq Require Import ZArith List Lia Bool ZifyBool.
From GoSecs Require Import Base.Decimal Base.DecimalProofs Base.Utf8 Sml.Syntax Sml.Encoder Sml.StrictAscii.
Import ListNotations.
Open Scope Z_scope.

Lemma blen_app (a b : bytes) : blen (a ++ b) = blen a + blen b.
Proof. unfold blen. rewrite app_length. lia. Qed.
Lemma blen_cons (c : Z) (a : bytes) : blen (c :: a) = 1 + blen a.
Proof. unfold blen. cbn [length]. lia. Qed.
Lemma blen_nil : blen (@nil Z) = 0.
Proof. reflexivity. Qed.
Lemma blen_nonneg (a : bytes) : 0 <= blen a.
Proof. unfold blen. lia. Qed.

(** the code (with the repair applied) = the generalised loop with the repair switched on *)
Lemma strict_loop_gen_true q s : forall first in_run,
  strict_ascii_loop q s first in_run = strict_ascii_loop_gen true q s first in_run.
Proof.
  induction s as [|c s IH]; intros first in_run; cbn [strict_ascii_loop strict_ascii_loop_gen].
  - reflexivity.
  - cbn [andb]. rewrite !IH. reflexivity.
Qed.

Lemma write_strict_gen_true q s : write_strict_ascii q s = write_strict_ascii_gen true q s.
Proof. destruct s; [reflexivity|]. apply strict_loop_gen_true. Qed.

(** ---------- parser states that occur while reading encoder output ---------- *)
Definition st_idle (acc : bytes) : astate :=
  {| a_quote := false; a_num := false; a_esc := false; a_numstr := []; a_rsb := acc |}.
Definition st_run (acc : bytes) : astate :=
  {| a_quote := true; a_num := false; a_esc := false; a_numstr := []; a_rsb := acc |}.
Definition st_tok (tok : bytes) (acc : bytes) : astate :=
  {| a_quote := false; a_num := true; a_esc := false; a_numstr := tok; a_rsb := acc |}.

(** one ASCII byte = one rune of width one *)
Lemma loop_ascii qc b t i st : 0 <= b < 128 ->
  astrict_loop qc (b :: t) i O st =
  match astep qc b st with
  | ACont st' => astrict_loop qc t (i + 1) O st'
  | ADone s => AOk s (i + 1) t
  | AFail e => AErr e
  end.
Proof.
  intros H. cbn [astrict_loop]. rewrite decode_rune_ascii by lia. reflexivity.
Qed.

Lemma encode_rune_ascii c : 0 <= c < 128 -> encode_rune c = [c].
Proof. intros H. unfold encode_rune. replace ((0 <=? c) && (c <? 128)) with true by lia. reflexivity. Qed.

Definition is_q (q : Z) : Prop := q = c_dq \/ q = c_sq.

Ltac astep_simpl :=
  unfold astep, push_rune, st_run, st_idle, st_tok;
  cbn [a_quote a_esc a_num a_numstr a_rsb].

Definition st_esc (acc : bytes) : astate :=
  {| a_quote := true; a_num := false; a_esc := true; a_numstr := []; a_rsb := acc |}.

Lemma is_q_ascii q : is_q q -> 0 <= q < 128.
Proof. intros [->| ->]; cbv; split; congruence. Qed.

(** close an open run *)
Lemma step_close qc t i acc : is_q qc ->
  astrict_loop qc (qc :: t) i O (st_run acc) = astrict_loop qc t (i + 1) O (st_idle acc).
Proof.
  intros Q. rewrite loop_ascii by (apply is_q_ascii; exact Q).
  assert (astep qc qc (st_run acc) = ACont (st_idle acc)) as ->; [|reflexivity].
  astep_simpl. replace (qc =? c_bs) with false by (destruct Q; subst; reflexivity).
  rewrite Z.eqb_refl. reflexivity.
Qed.

(** open a run *)
Lemma step_open qc t i acc : is_q qc ->
  astrict_loop qc (qc :: t) i O (st_idle acc) = astrict_loop qc t (i + 1) O (st_run acc).
Proof.
  intros Q. rewrite loop_ascii by (apply is_q_ascii; exact Q).
  assert (astep qc qc (st_idle acc) = ACont (st_run acc)) as ->; [|reflexivity].
  astep_simpl. rewrite Z.eqb_refl. reflexivity.
Qed.

(** a space between tokens *)
Lemma step_space qc t i acc : is_q qc ->
  astrict_loop qc (c_sp :: t) i O (st_idle acc) = astrict_loop qc t (i + 1) O (st_idle acc).
Proof.
  intros Q. rewrite loop_ascii by (cbv; split; congruence).
  assert (astep qc c_sp (st_idle acc) = ACont (st_idle acc)) as ->; [|reflexivity].
  astep_simpl. replace (c_sp =? qc) with false by (destruct Q; subst; reflexivity). reflexivity.
Qed.

(** a plain printable character inside a run *)
Lemma step_plain qc c t i acc : 0 <= c < 128 -> c <> qc -> c <> c_bs -> c <> c_gt ->
  astrict_loop qc (c :: t) i O (st_run acc) = astrict_loop qc t (i + 1) O (st_run (c :: acc)).
Proof.
  intros H N1 N2 N3. rewrite loop_ascii by lia.
  assert (astep qc c (st_run acc) = ACont (st_run (c :: acc))) as ->; [|reflexivity].
  astep_simpl.
  replace (c =? c_bs) with false by lia. replace (c =? qc) with false by lia.
  replace (c =? c_gt) with false by lia.
  rewrite encode_rune_ascii by lia. reflexivity.
Qed.

(** backslash + any ASCII character inside a run writes that character *)
Lemma step_escaped qc c t i acc : is_q qc -> 0 <= c < 128 ->
  astrict_loop qc (c_bs :: c :: t) i O (st_run acc) = astrict_loop qc t (i + 2) O (st_run (c :: acc)).
Proof.
  intros Q H. rewrite loop_ascii by (cbv; split; congruence).
  assert (astep qc c_bs (st_run acc) = ACont (st_esc acc)) as -> by reflexivity.
  rewrite loop_ascii by lia.
  assert (astep qc c (st_esc acc) = ACont (st_run (c :: acc))) as ->.
  { unfold st_esc. astep_simpl. rewrite encode_rune_ascii by lia. cbn [rev_append].
    destruct (c =? c_bs); [reflexivity|]. destruct (c =? qc); [reflexivity|].
    destruct (c =? c_gt); reflexivity. }
  replace (i + 1 + 1) with (i + 2) by lia. reflexivity.
Qed.

(** hex digits are ASCII letters/digits *)
Lemma hex_digit_range d : 0 <= d < 16 -> (48 <= hex_digit d <= 57) \/ (65 <= hex_digit d <= 70).
Proof. intros H. unfold hex_digit. destruct (d <? 10) eqn:E; lia. Qed.

(** a character that is neither the quote, a space nor the bracket starts / extends a token *)
Lemma step_tok_start qc c t i acc : is_q qc -> 0 <= c < 128 -> c <> c_dq -> c <> c_sq -> c <> c_sp -> c <> c_gt ->
  astrict_loop qc (c :: t) i O (st_idle acc) = astrict_loop qc t (i + 1) O (st_tok [c] acc).
Proof.
  intros Q H N1 N2 N3 N4. rewrite loop_ascii by lia.
  assert (astep qc c (st_idle acc) = ACont (st_tok [c] acc)) as ->; [|reflexivity].
  astep_simpl.
  replace (c =? qc) with false by (destruct Q; subst; lia).
  replace (c =? c_sp) with false by lia. replace (c =? c_gt) with false by lia.
  rewrite encode_rune_ascii by lia. reflexivity.
Qed.

Lemma step_tok_more qc c tok t i acc : 0 <= c < 128 -> c <> c_sp -> c <> c_gt ->
  astrict_loop qc (c :: t) i O (st_tok tok acc) = astrict_loop qc t (i + 1) O (st_tok (tok ++ [c]) acc).
Proof.
  intros H N3 N4. rewrite loop_ascii by lia.
  assert (astep qc c (st_tok tok acc) = ACont (st_tok (tok ++ [c]) acc)) as ->; [|reflexivity].
  astep_simpl.
  replace (c =? c_sp) with false by lia. replace (c =? c_gt) with false by lia.
  rewrite encode_rune_ascii by lia. reflexivity.
Qed.

Lemma shiftr4 c : 0 <= c -> Z.shiftr c 4 = c / 16.
Proof. intros. rewrite Z.shiftr_div_pow2 by lia. reflexivity. Qed.
Lemma land15 c : 0 <= c -> Z.land c 15 = c mod 16.
Proof. intros. change 15 with (Z.ones 4). rewrite Z.land_ones by lia. reflexivity. Qed.

(** a whole 0xHH token read from the idle state *)
Lemma step_hex_token qc c t i acc : is_q qc -> 0 <= c < 256 ->
  astrict_loop qc (48 :: 120 :: hex_digit (Z.shiftr c 4) :: hex_digit (Z.land c 15) :: t) i O (st_idle acc)
  = astrict_loop qc t (i + 4) O (st_tok (tok_hex c) acc).
Proof.
  intros Q H.
  rewrite shiftr4, land15 by lia.
  assert (H1 : 0 <= c / 16 < 16) by (split; [apply Z.div_pos; lia|apply Z.div_lt_upper_bound; lia]).
  assert (H2 : 0 <= c mod 16 < 16) by (apply Z.mod_pos_bound; lia).
  pose proof (hex_digit_range _ H1) as R1. pose proof (hex_digit_range _ H2) as R2.
  rewrite step_tok_start by (try exact Q; unfold c_dq, c_sq, c_sp, c_gt; lia).
  rewrite step_tok_more by (unfold c_sp, c_gt; lia).
  rewrite step_tok_more by (unfold c_sp, c_gt; lia).
  rewrite step_tok_more by (unfold c_sp, c_gt; lia).
  cbn [app]. unfold tok_hex, format_hex2. f_equal. lia.
Qed.

Lemma num_byte_tok_hex c : 0 <= c < 256 -> num_byte (tok_hex c) = inr c.
Proof.
  intros H. unfold num_byte. rewrite parse_uint_tok_hex by exact H.
  replace (c >? 255) with false by lia. reflexivity.
Qed.

(** a space ends a pending token *)
Lemma step_tok_space qc c t i acc : 0 <= c < 256 ->
  astrict_loop qc (c_sp :: t) i O (st_tok (tok_hex c) acc) = astrict_loop qc t (i + 1) O (st_idle (c :: acc)).
Proof.
  intros H. rewrite loop_ascii by (cbv; split; congruence).
  assert (astep qc c_sp (st_tok (tok_hex c) acc) = ACont (st_idle (c :: acc))) as ->; [|reflexivity].
  astep_simpl. rewrite Z.eqb_refl. rewrite num_byte_tok_hex by exact H. reflexivity.
Qed.

(** the closing bracket in each of the three states *)
Lemma step_gt_idle qc t i acc : is_q qc ->
  astrict_loop qc (c_gt :: t) i O (st_idle acc) = AOk (rev acc) (i + 1) t.
Proof.
  intros Q. rewrite loop_ascii by (cbv; split; congruence).
  assert (astep qc c_gt (st_idle acc) = ADone (rev acc)) as ->; [|reflexivity].
  astep_simpl. replace (c_gt =? qc) with false by (destruct Q; subst; reflexivity). reflexivity.
Qed.

Lemma step_gt_tok qc c t i acc : 0 <= c < 256 ->
  astrict_loop qc (c_gt :: t) i O (st_tok (tok_hex c) acc) = AOk (rev (c :: acc)) (i + 1) t.
Proof.
  intros H. rewrite loop_ascii by (cbv; split; congruence).
  assert (astep qc c_gt (st_tok (tok_hex c) acc) = ADone (rev (c :: acc))) as ->; [|reflexivity].
  astep_simpl. change (c_gt =? c_sp) with false. rewrite Z.eqb_refl.
  rewrite num_byte_tok_hex by exact H. reflexivity.
Qed.

(** ---------- the induction ---------- *)
Inductive estate := EStart | EInRun | EAfterTok (c : Z).
Definition e_first (es : estate) := match es with EStart => true | _ => false end.
Definition e_inrun (es : estate) := match es with EInRun => true | _ => false end.
Definition pst (es : estate) (acc : bytes) : astate :=
  match es with
  | EStart => st_idle acc
  | EInRun => st_run acc
  | EAfterTok c => st_tok (tok_hex c) acc
  end.
Definition pending (es : estate) : bytes := match es with EAfterTok c => [c] | _ => [] end.
Definition es_ok (es : estate) : Prop := match es with EAfterTok c => 0 <= c < 256 | _ => True end.

Definition is_byte (c : Z) : Prop := 0 <= c < 256.

Lemma printable_range c : printable c = true -> 32 <= c < 127.
Proof. unfold printable. lia. Qed.

Lemma rev_cons_app (c : Z) acc l : rev (c :: acc) ++ l = rev acc ++ c :: l.
Proof. cbn [rev]. rewrite <- app_assoc. reflexivity. Qed.

Ltac len_tac := f_equal; try (rewrite ?blen_app; rewrite ?blen_cons; rewrite ?blen_app; rewrite ?blen_cons; rewrite ?blen_nil; lia).

Section Roundtrip.
  Variable egt : bool.
  Variables q qc : Z.
  Hypothesis Hq : is_q q.
  Hypothesis Hqc : is_q qc.
  Variable rest : bytes.

  Lemma loop_roundtrip : forall s es acc i,
    Forall is_byte s -> es_ok es ->
    (egt = false -> ~ In c_gt s) ->
    (e_inrun es = true \/ Exists (fun c => printable c = true) s -> qc = q) ->
    let out := strict_ascii_loop_gen egt q s (e_first es) (e_inrun es) in
    astrict_loop qc (out ++ c_gt :: rest) i O (pst es acc)
    = AOk (rev acc ++ pending es ++ s) (i + blen out + 1) rest.
  Proof.
    induction s as [|c s IH]; intros es acc i FB OK NG QC; cbv zeta.
    - (* end of string *)
      cbn [strict_ascii_loop_gen]. destruct es as [| |c0]; cbn [e_inrun e_first pst pending app].
      + rewrite step_gt_idle by exact Hqc. rewrite app_nil_r. len_tac.
      + assert (qc = q) as -> by (apply QC; left; reflexivity).
        rewrite step_close by exact Hq. rewrite step_gt_idle by exact Hq.
        rewrite app_nil_r. len_tac.
      + rewrite step_gt_tok by exact OK. cbn [rev]. len_tac.
    - inversion FB as [|? ? Bc FB']; subst.
      assert (NG' : egt = false -> ~ In c_gt s) by (intros E I; apply (NG E); right; exact I).
      cbn [strict_ascii_loop_gen]. destruct (printable c) eqn:P.
      + (* printable: open a run if needed, then the (escaped) character *)
        pose proof (printable_range c P) as R.
        assert (qc = q) as -> by (apply QC; right; constructor; exact P).
        set (esc := (c =? q) || (c =? c_bs) || (egt && (c =? c_gt))).
        assert (Hchar : forall t i' acc',
          astrict_loop q ((if esc then [c_bs] else []) ++ c :: t) i' O (st_run acc')
          = astrict_loop q t (i' + blen (if esc then [c_bs] else []) + 1) O (st_run (c :: acc'))).
        { intros t i' acc'. destruct esc eqn:E.
          - cbn [app]. rewrite step_escaped by (exact Hq || lia). len_tac.
          - cbn [app]. subst esc. rewrite step_plain; [len_tac|lia|lia|lia|].
            destruct egt; [lia|]. intros ->. apply (NG eq_refl). left. reflexivity. }
        specialize (IH EInRun).
        cbn [e_first e_inrun pst pending] in IH.
        assert (QC' : true = true \/ Exists (fun c0 => printable c0 = true) s -> q = q) by reflexivity.
        destruct es as [| |c0]; cbn [e_inrun e_first pst pending app].
        * rewrite step_open by exact Hq.
          rewrite <- app_assoc. cbn [app]. rewrite Hchar.
          rewrite (IH (c :: acc) _ FB' I NG' QC'). rewrite rev_cons_app.
          len_tac.
        * rewrite <- app_assoc. cbn [app]. rewrite Hchar.
          rewrite (IH (c :: acc) _ FB' I NG' QC'). rewrite rev_cons_app.
          len_tac.
        * cbn [app]. rewrite step_tok_space by exact OK. rewrite step_open by exact Hq.
          rewrite <- app_assoc. cbn [app]. rewrite Hchar.
          rewrite (IH (c :: c0 :: acc) _ FB' I NG' QC'). rewrite !rev_cons_app.
          len_tac.
      + (* not printable: close a run if open, separator, 0xHH *)
        specialize (IH (EAfterTok c)).
        cbn [e_first e_inrun pst pending] in IH.
        assert (QC' : false = true \/ Exists (fun c0 => printable c0 = true) s -> qc = q).
        { intros [D|E]; [discriminate|]. apply QC. right. apply Exists_cons_tl. exact E. }
        destruct es as [| |c0]; cbn [e_inrun e_first pst pending app].
        * rewrite (step_hex_token qc c _ i acc Hqc Bc).
          rewrite (IH acc _ FB' Bc NG' QC').
          len_tac.
        * assert (qc = q) as E by (apply QC; left; reflexivity). rewrite E in *.
          rewrite step_close by exact Hq.
          rewrite step_space by exact Hq.
          rewrite (step_hex_token q c _ _ acc Hq Bc).
          rewrite (IH acc _ FB' Bc NG' QC').
          len_tac.
        * idtac.
          rewrite step_tok_space by exact OK.
          rewrite (step_hex_token qc c _ _ (c0 :: acc) Hqc Bc).
          rewrite (IH (c0 :: acc) _ FB' Bc NG' QC'). rewrite rev_cons_app.
          len_tac.
  Qed.
End Roundtrip.

(** ---------- quote-character detection on encoder output ---------- *)
Lemma detect_ascii b t : 0 <= b < 128 ->
  detect_quote (b :: t) O =
  if b =? c_gt then c_dq else if (b =? c_sq) || (b =? c_dq) then b else detect_quote t O.
Proof. intros H. cbn [detect_quote]. rewrite decode_rune_ascii by lia. reflexivity. Qed.

Lemma detect_skip b t : 0 <= b < 128 -> b <> c_gt -> b <> c_sq -> b <> c_dq ->
  detect_quote (b :: t) O = detect_quote t O.
Proof.
  intros H N1 N2 N3. rewrite detect_ascii by exact H.
  replace (b =? c_gt) with false by lia. replace (b =? c_sq) with false by lia.
  replace (b =? c_dq) with false by lia. reflexivity.
Qed.

Lemma detect_hit q t : is_q q -> detect_quote (q :: t) O = q.
Proof. intros [->| ->]; reflexivity. Qed.

Lemma detect_gen egt q rest : is_q q -> forall s first, Forall is_byte s ->
  detect_quote (strict_ascii_loop_gen egt q s first false ++ c_gt :: rest) O =
  if existsb printable s then q else c_dq.
Proof.
  intros Q. induction s as [|c s IH]; intros first FB.
  - reflexivity.
  - inversion FB as [|? ? Bc FB']; subst. cbn [strict_ascii_loop_gen existsb].
    destruct (printable c) eqn:P; cbn [orb].
    + destruct first; cbn [app].
      * apply detect_hit. exact Q.
      * rewrite detect_skip by (cbv; repeat split; congruence). apply detect_hit. exact Q.
    + assert (H1 : 0 <= c / 16 < 16) by (unfold is_byte in Bc; split; [apply Z.div_pos; lia|apply Z.div_lt_upper_bound; lia]).
      assert (H2 : 0 <= c mod 16 < 16) by (apply Z.mod_pos_bound; lia).
      pose proof (hex_digit_range _ H1) as R1. pose proof (hex_digit_range _ H2) as R2.
      unfold is_byte in Bc. rewrite shiftr4, land15 by lia.
      assert (T : forall t, detect_quote (48 :: 120 :: hex_digit (c / 16) :: hex_digit (c mod 16) :: t) O = detect_quote t O).
      { intros t. rewrite !detect_skip by (unfold c_gt, c_sq, c_dq; lia). reflexivity. }
      destruct first; cbn [app].
      * rewrite T. apply IH. exact FB'.
      * rewrite detect_skip by (cbv; repeat split; congruence). rewrite T. apply IH. exact FB'.
Qed.

Lemma existsb_Exists_printable s : Exists (fun c => printable c = true) s -> existsb printable s = true.
Proof. intros E. apply existsb_exists. apply Exists_exists in E. exact E. Qed.

(** parseASCIIStrict inverts writeStrictASCII: generalised over the repair switch *)
Theorem strict_ascii_roundtrip_gen egt q s rest :
  is_q q -> Forall is_byte s -> (egt = false -> ~ In c_gt s) ->
  parse_ascii_strict (write_strict_ascii_gen egt q s ++ c_gt :: rest)
  = AOk s (blen (write_strict_ascii_gen egt q s) + 1) rest.
Proof.
  intros Q FB NG. unfold parse_ascii_strict.
  destruct s as [|c s].
  - cbn [write_strict_ascii_gen app]. rewrite detect_hit by exact Q.
    change astate0 with (st_idle []).
    rewrite step_open, step_close, step_gt_idle by exact Q. reflexivity.
  - unfold write_strict_ascii_gen.
    rewrite (detect_gen egt q rest Q (c :: s) true FB).
    set (qc := if existsb printable (c :: s) then q else c_dq).
    assert (Hqc : is_q qc) by (subst qc; destruct (existsb printable (c :: s)); [exact Q|left; reflexivity]).
    change astate0 with (pst EStart []).
    pose proof (loop_roundtrip egt q qc Q Hqc rest (c :: s) EStart [] 0 FB I NG) as L.
    cbv zeta in L. cbn [e_first e_inrun pending rev app] in L.
    rewrite L; [reflexivity|].
    intros [D|E]; [discriminate|]. subst qc. rewrite (existsb_Exists_printable _ E). reflexivity.
Qed.

(** the REPAIRED encoder (escape the closing bracket): every byte string, both quote styles,
    whatever follows the item *)
Theorem strict_ascii_roundtrip_fixed : forall (s : bytes) q rest,
  is_q q -> Forall is_byte s ->
  parse_ascii_strict (write_strict_ascii_fixed q s ++ c_gt :: rest)
  = AOk s (blen (write_strict_ascii_fixed q s) + 1) rest.
Proof. intros s q rest Q FB. apply strict_ascii_roundtrip_gen; [exact Q|exact FB|discriminate]. Qed.

(** the encoder as it is (repair applied): every byte string *)
Theorem strict_ascii_roundtrip : forall (s : bytes) q rest,
  is_q q -> Forall is_byte s ->
  parse_ascii_strict (write_strict_ascii q s ++ c_gt :: rest)
  = AOk s (blen (write_strict_ascii q s) + 1) rest.
Proof.
  intros s q rest Q FB. rewrite write_strict_gen_true.
  apply strict_ascii_roundtrip_gen; [exact Q|exact FB|discriminate].
Qed.
