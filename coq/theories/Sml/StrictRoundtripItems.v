(** C13 message-level proof, item syntax: what parseItemType, parseItemSize and the value
    parsers do on the text the encoder writes for one item header and one value list. *)
From Coq Require Import ZArith List Lia Bool ZifyBool.
From GoSecs Require Import Base.Decimal Base.DecimalProofs Base.Utf8 Sml.Syntax Sml.Encoder Sml.ToSml
  Sml.StrictAscii Sml.StrictAsciiProofs Sml.StrictParser Sml.StrictParserLemmas Sml.StrictUtf8Proofs
  Sml.StrictRoundtripDefs Sml.StrictRoundtripLeaves.
Import ListNotations.
Open Scope Z_scope.

Definition type_chars (ty : itype) : bytes :=
  match ty with
  | TList => [76] | TAscii => [65] | TJis8 => [74] | TLocal => [87]
  | TBoolean => s_BOOLEAN | TBinary => [66]
  | TFloat w => 70 :: format_int (fbytes w)
  | TInt w => 73 :: format_int (wbytes w)
  | TUint w => 85 :: format_int (wbytes w)
  end.

Section Items.
  Variable fparse : fwidth -> bytes -> option Z.
  Variable input : bytes.

  Lemma parse_item_type_ok ty p t : input = p ++ type_chars ty ++ c_lb :: t ->
    parse_item_type input (mkst p (type_chars ty ++ c_lb :: t)) = Some (ty, mkst (p ++ type_chars ty) (c_lb :: t)).
  Proof.
    intros Hin. unfold parse_item_type.
    destruct ty as [| | | | | |w|w|w]; try destruct w; cbn [type_chars fbytes wbytes] in *;
      try change (format_int 1) with [49] in *; try change (format_int 2) with [50] in *;
      try change (format_int 4) with [52] in *; try change (format_int 8) with [56] in *;
      unfold s_BOOLEAN in *; cbn [app] in *;
      (rewrite skip_space_here by (try exact Hin; reflexivity)); cbn [fst data mkst];
      repeat match goal with
      | |- context [upper_byte ?x] => let v := eval vm_compute in (upper_byte x) in change (upper_byte x) with v
      end.
    all: try (cbn [Z.eqb Pos.eqb orb andb width_of_digit]; 
              first [ rewrite forward_1 by exact Hin | rewrite forward_2 by exact Hin ]; reflexivity).
    (* BOOLEAN *)
    cbn [Z.eqb Pos.eqb orb andb].
    assert (7 <=? blen (66 :: 79 :: 79 :: 76 :: 69 :: 65 :: 78 :: c_lb :: t) = true) as ->.
    { rewrite !blen_cons. pose proof (blen_nonneg t). lia. }
    cbn [andb firstn Z.to_nat Pos.to_nat Pos.iter_op Nat.add map].
    change (zlist_eqb (map upper_byte (firstn 7 (66 :: 79 :: 79 :: 76 :: 69 :: 65 :: 78 :: c_lb :: t))) [66; 79; 79; 76; 69; 65; 78]) with true.
    cbn [andb].
    change (forward input 7 (mkst p (66 :: 79 :: 79 :: 76 :: 69 :: 65 :: 78 :: c_lb :: t)))
      with (forward input (blen [66; 79; 79; 76; 69; 65; 78]) (mkst p ([66; 79; 79; 76; 69; 65; 78] ++ c_lb :: t))).
    rewrite forward_app by exact Hin. reflexivity.
  Qed.

  (** "<W " : the localized item has no size *)
  Lemma parse_item_type_W p t : input = p ++ 87 :: c_sp :: t ->
    parse_item_type input (mkst p (87 :: c_sp :: t)) = Some (TLocal, mkst (p ++ [87]) (c_sp :: t)).
  Proof.
    intros Hin. unfold parse_item_type.
    rewrite skip_space_here by (try exact Hin; reflexivity). cbn [fst data mkst].
    change (upper_byte 87) with 87. cbn [Z.eqb Pos.eqb].
    rewrite forward_1 by exact Hin. reflexivity.
  Qed.

  Lemma format_int_head n : 0 <= n -> exists d ds, format_int n = d :: ds /\ is_digit d = true.
  Proof.
    intros Hn. rewrite format_int_nonneg by exact Hn.
    pose proof (format_uint_digits n Hn) as F. pose proof (format_uint_nonempty n Hn) as NE.
    destruct (format_uint n) as [|d ds]; [contradiction|].
    exists d, ds. split; [reflexivity|]. inversion F; assumption.
  Qed.

  Lemma is_digit_not_space d : is_digit d = true -> is_sml_space d = false.
  Proof. unfold is_digit, is_sml_space. lia. Qed.

  (** parseItemSize on "[n]" *)
  Lemma parse_item_size_ok p n t : input = p ++ c_lb :: format_int n ++ c_rb :: t ->
    0 <= n <= max_byte_size ->
    parse_item_size input (mkst p (c_lb :: format_int n ++ c_rb :: t))
    = POk tt (mkst (p ++ c_lb :: format_int n ++ [c_rb]) t).
  Proof.
    intros Hin Hn. unfold parse_item_size.
    pose proof (next_ns_ws input p [] c_lb (format_int n ++ c_rb :: t)) as N1.
    cbn [app] in N1. rewrite N1 by (try exact Hin; try constructor; reflexivity). clear N1.
    rewrite Z.eqb_refl. cbn [negb].
    destruct (format_int_head n ltac:(lia)) as (d & ds & E & Hd).
    assert (Hin2 : input = (p ++ [c_lb]) ++ format_int n ++ c_rb :: t) by (rewrite Hin, <- app_assoc; reflexivity).
    (* peekNonSpaceRune sees the first digit *)
    assert (P1 : peek_ns input (mkst (p ++ [c_lb]) (format_int n ++ c_rb :: t))
                 = (mkst (p ++ [c_lb]) (format_int n ++ c_rb :: t), d)).
    { rewrite E in *. cbn [app] in *.
      pose proof (peek_ns_ws input (p ++ [c_lb]) [] d (ds ++ c_rb :: t)) as Pk. cbn [app] in Pk.
      rewrite app_nil_r in Pk. apply Pk; [exact Hin2|constructor|apply is_digit_not_space; exact Hd]. }
    rewrite P1. replace (d =? c_dot) with false by (unfold is_digit, c_dot in *; lia).
    rewrite (next_number_format input 32 PE_ItemSize (p ++ [c_lb]) n c_rb t Hin2) by (unfold max_byte_size in Hn; try reflexivity; lia).
    assert (Hin3 : input = ((p ++ [c_lb]) ++ format_int n) ++ c_rb :: t) by (rewrite Hin2, app_assoc; reflexivity).
    pose proof (peek_ns_ws input ((p ++ [c_lb]) ++ format_int n) [] c_rb t) as P2. cbn [app] in P2.
    rewrite app_nil_r in P2. rewrite P2 by (try exact Hin3; try constructor; reflexivity).
    change (c_rb =? c_dot) with false. cbv iota beta.
    pose proof (next_ns_ws input ((p ++ [c_lb]) ++ format_int n) [] c_rb t) as N2. cbn [app] in N2.
    rewrite N2 by (try exact Hin3; try constructor; reflexivity).
    rewrite Z.eqb_refl. cbn [negb]. replace (n >? n) with false by lia.
    f_equal. f_equal. rewrite <- !app_assoc. reflexivity.
  Qed.

  (** parseItemSize on " q..." (no size): one byte back *)
  Lemma parse_item_size_none p q t : input = p ++ c_sp :: q :: t ->
    is_sml_space q = false -> q <> c_lb ->
    parse_item_size input (mkst p (c_sp :: q :: t)) = POk tt (mkst (p ++ [c_sp]) (q :: t)).
  Proof.
    intros Hin NS NL. unfold parse_item_size.
    pose proof (next_ns_ws input p [c_sp] q t) as N1. cbn [app] in N1.
    rewrite N1 by (try exact Hin; try exact NS; repeat constructor).
    replace (q =? c_lb) with false by lia. cbn [negb].
    change (p ++ [c_sp; q]) with (p ++ [c_sp] ++ [q]). rewrite app_assoc.
    rewrite backward_1 by (rewrite Hin, <- app_assoc; reflexivity). reflexivity.
  Qed.

  (** a value list " t1 .. tn>" read by getItemValueStrings + the token parser *)
  Lemma parse_values_ok {A} (tok : bytes -> option A) e (mk : list A -> item) p ts t vs :
    input = p ++ join_sp ts ++ c_gt :: t ->
    forallb good_tok ts = true -> map_opt tok ts = Some vs ->
    parse_values input tok e mk (mkst p (join_sp ts ++ c_gt :: t))
    = POk (mk vs) (mkst (p ++ join_sp ts ++ [c_gt]) t).
  Proof.
    intros Hin G M. unfold parse_values, value_strings. cbn [pos data mkst].
    rewrite index_byte_app by (apply join_sp_no_gt; exact G).
    rewrite firstn_blen_app. rewrite (fields_join_sp ts G). rewrite M.
    fold (mkst p (join_sp ts ++ c_gt :: t)).
    change (join_sp ts ++ c_gt :: t) with (join_sp ts ++ [c_gt] ++ t).
    rewrite app_assoc.
    replace (blen (join_sp ts) + 1) with (blen (join_sp ts ++ [c_gt])) by (rewrite blen_app, blen_cons, blen_nil; lia).
    rewrite forward_app by (rewrite Hin, <- !app_assoc; reflexivity).
    rewrite <- ?app_assoc. reflexivity.
  Qed.

  (** skipComment in front of a value list: at most the one space the encoder writes *)
  Lemma skip_comment_values p ts t : input = p ++ flat_map (fun x => c_sp :: x) ts ++ c_gt :: t ->
    forallb good_tok ts = true ->
    exists p', skip_comment input (mkst p (flat_map (fun x => c_sp :: x) ts ++ c_gt :: t))
               = mkst p' (join_sp ts ++ c_gt :: t) /\ input = p' ++ join_sp ts ++ c_gt :: t.
  Proof.
    intros Hin G. destruct ts as [|t1 ts'].
    - exists p. cbn [flat_map join_sp app] in *. split; [|exact Hin].
      pose proof (skip_comment_ws input p [] c_gt t) as S. cbn [app] in S. rewrite app_nil_r in S.
      apply S; [exact Hin|constructor|reflexivity|discriminate].
    - destruct (join_sp_head (t1 :: ts') G ltac:(discriminate)) as (c & r & E & Hc).
      pose proof (vtok_char_range c Hc) as R.
      rewrite sp_toks_join in *. rewrite E in *. cbn [app] in *.
      exists (p ++ [c_sp]). split; [|rewrite Hin, <- app_assoc; reflexivity].
      pose proof (skip_comment_ws input p [c_sp] c (r ++ c_gt :: t)) as S. cbn [app] in S.
      apply S; [exact Hin|repeat constructor|apply vtok_char_not_sml_space; exact Hc|lia].
  Qed.
End Items.
