(** Model of sml/encoder.go: [Encoder.encodeItem] tree walk with every option
    (strict, ASCII quote style, S/F quote style, binary style, indent unit), [writeStrictASCII],
    [writeHeader] and [EncodeMessage]. Executable; no proofs here.

    Oracles (code outside go-secs): [ffmt w bits] = strconv.FormatFloat(v,'G',9|17,32|64) of the
    float64 with bit pattern [bits]; [quote s] = strconv.Quote(s). *)
From Coq Require Import ZArith List Bool.
From GoSecs Require Import Base.Decimal Sml.Syntax.
Import ListNotations.
Open Scope Z_scope.

(** sml/encoder.go writeStrictASCII: printable runs (0x20..0x7E) quoted with [q], the quote, the
    backslash and the closing bracket escaped by a backslash; every other byte a 0xHH token; tokens and runs
    separated by one space; "" renders as an empty run. State: [first] (nothing emitted yet),
    [in_run] (a quoted run is open). *)
Definition printable (c : Z) : bool := (32 <=? c) && (c <? 127).

Fixpoint strict_ascii_loop (q : Z) (s : bytes) (first in_run : bool) : bytes :=
  match s with
  | [] => if in_run then [q] else []
  | c :: s' =>
      if printable c then
        (if in_run then [] else (if first then [] else [c_sp]) ++ [q])
        ++ (if (c =? q) || (c =? c_bs) || (c =? c_gt) then [c_bs] else []) ++ [c]
        ++ strict_ascii_loop q s' false true
      else
        (if in_run then [q] else [])
        ++ (if first then [] else [c_sp])
        ++ [48; 120; hex_digit (Z.shiftr c 4); hex_digit (Z.land c 15)]
        ++ strict_ascii_loop q s' false false
  end.

Definition write_strict_ascii (q : Z) (s : bytes) : bytes :=
  match s with
  | [] => [q; q]
  | _ => strict_ascii_loop q s true false
  end.

(** The tree walk is written over the strict ASCII writer [wsa] so that the SAME walk can be
    instantiated with the writer as it is ([write_strict_ascii], the model of the code: section
    [Encoder] below) and with the repaired writer of finding C13-ascii-gt (Sml/StrictAscii.v). *)
Section EncoderW.
  Variable wsa : Z -> bytes -> bytes.
  Variable ffmt : fwidth -> Z -> bytes.
  Variable quote : bytes -> bytes.

  Definition quote_byte (o : enc_opts) : Z := if eo_ascii_single o then c_sq else c_dq.

  (** encodeString *)
  Definition encode_string (o : enc_opts) (tok : Z) (s : bytes) (strict : bool) : bytes :=
    [c_lt; tok; c_lb] ++ format_int (blen s) ++ [c_rb; c_sp]
    ++ (if strict then wsa (quote_byte o) s
        else [quote_byte o] ++ s ++ [quote_byte o])
    ++ [c_gt].

  (** encodeBinary: " 0b" + FormatInt(b,2) or fmt " 0x%02X" per byte *)
  Definition encode_binary (o : enc_opts) (bs : bytes) : bytes :=
    [c_lt; 66; c_lb] ++ format_int (blen bs) ++ [c_rb]
    ++ flat_map (fun b => if eo_binary_literal o then [c_sp; 48; 98] ++ format_bin b
                          else [c_sp; 48; 120] ++ format_hex2 b) bs
    ++ [c_gt].

  (** encodeBoolean/encodeInt/encodeUint/encodeFloat: "<T[" + Itoa(it.Size()) + "]", then
      " " + token for every value the item's iterator yields, then ">". *)
  Definition encode_storage {A} (tag : bytes) (tok : A -> bytes) (st : storage A) : bytes :=
    [c_lt] ++ tag ++ [c_lb] ++ format_int (st_size st) ++ [c_rb]
    ++ flat_map (fun v => c_sp :: tok v) (iter_storage st)
    ++ [c_gt].

  Definition encode_boolean (vs : list bool) : bytes :=
    encode_storage s_BOOLEAN (fun v : bool => if v then s_True else s_False) (store false vs).
  Definition encode_int (w : width) (vs : list Z) : bytes :=
    encode_storage (73 :: format_int (wbytes w)) format_int (store 0 vs).
  Definition encode_uint (w : width) (vs : list Z) : bytes :=
    encode_storage (85 :: format_int (wbytes w)) format_uint (store 0 vs).
  Definition encode_float (w : fwidth) (vs : list Z) : bytes :=
    encode_storage (70 :: format_int (fbytes w)) (ffmt w) (store 0 vs).

  (** encodeItem / encodeList. A non-list child is preceded by the child indentation, a list
      child writes its own; every child is followed by a newline. *)
  Fixpoint encode_item_w (o : enc_opts) (level : nat) (x : item) : bytes :=
    match x with
    | IEmpty => []
    | IList cs =>
        let ind := rep (eo_indent o) level in
        match cs with
        | [] => ind ++ [c_lt; 76; c_lb; 48; c_rb; c_gt]
        | _ =>
            ind ++ [c_lt; 76; c_lb] ++ format_int (Z.of_nat (length cs)) ++ [c_rb; c_nl]
            ++ flat_map (fun c =>
                           (if is_list c then encode_item_w o (S level) c
                            else rep (eo_indent o) (S level) ++ encode_item_w o (S level) c)
                           ++ [c_nl]) cs
            ++ ind ++ [c_gt]
        end
    | IAscii s => encode_string o 65 s (eo_strict o)
    | IJis8 s => encode_string o 74 s false
    | ILocal s => [c_lt; 87; c_sp] ++ quote s ++ [c_gt]
    | IBinary bs => encode_binary o bs
    | IBoolean vs => encode_boolean vs
    | IInt w vs => encode_int w vs
    | IUint w vs => encode_uint w vs
    | IFloat w vs => encode_float w vs
    end.


  (** writeSFQuote / writeHeader / EncodeMessage *)
  Definition sf_quote (o : enc_opts) : bytes :=
    if eo_sf_quote o =? 1 then [c_sq] else if eo_sf_quote o =? 2 then [c_dq] else [].

  Definition write_header (o : enc_opts) (m : msg) : bytes :=
    sf_quote o ++ [83] ++ format_int (m_stream m) ++ [70] ++ format_int (m_function m) ++ sf_quote o
    ++ (if m_wbit m then [c_sp; 87] else []).

  Definition encode_msg_w (o : enc_opts) (m : msg) : bytes :=
    write_header o m ++ [c_nl] ++ encode_item_w o O (m_body m) ++ [c_nl; c_dot].
End EncoderW.

(** ---------- the encoder as it is ---------- *)
Section Encoder.
  Variable ffmt : fwidth -> Z -> bytes.
  Variable quote : bytes -> bytes.

  Definition encode_item : enc_opts -> nat -> item -> bytes := encode_item_w write_strict_ascii ffmt quote.

  (** Encoder.Encode / sml.Encode *)
  Definition encode (o : enc_opts) (x : item) : bytes := encode_item o O x.
  Definition encode_default (x : item) : bytes := encode default_opts x.

  (** Encoder.EncodeMessage / sml.EncodeMessage *)
  Definition encode_msg : enc_opts -> msg -> bytes := encode_msg_w write_strict_ascii ffmt quote.
End Encoder.
