(** Proofs about the parser model (Sml/Parser.v), for EVERY configuration [cf], both modes, every
    input and every ParseFloat oracle:

    - the cursor invariant [wf] (data = input[pos:], 0 <= pos <= len) is preserved by every
      function, hence every syntax error carries a consistent position (Sml/ErrPosProofs.v);
    - no function returns [RFuel] when the fuel exceeds the number of bytes left;
    - [RPanic] is returned only when [c_quote_fix cf = false] (the current checkASCIICloseQuote);
    - meters: every scanning primitive costs at most [cost_bound] steps, the number of primitive
      calls and of allocations is linear in the number of bytes consumed; with [c_cap_hint] every
      allocation is at most 16 * len bytes; with [c_depth_cap = Some d] the recursion depth never
      exceeds d + 1. *)
From Coq Require Import ZArith List Bool Lia.
From GoSecs Require Import Base.Decimal Base.Utf8 Sml.ErrPos Sml.ErrPosProofs Sml.Parser.
Import ListNotations.
Open Scope Z_scope.

(** ---------- lists ---------- *)
Lemma blen_nonneg (l : bytes) : 0 <= blen l.
Proof. unfold blen. lia. Qed.

Lemma blen_cons b (l : bytes) : blen (b :: l) = blen l + 1.
Proof. unfold blen. cbn [length]. lia. Qed.

Lemma blen_app (a b : bytes) : blen (a ++ b) = blen a + blen b.
Proof. unfold blen. rewrite app_length. lia. Qed.

Lemma blen_nil : blen [] = 0.
Proof. reflexivity. Qed.

Lemma shift_spec : forall n d b,
  shift n d b = (rev (firstn n d) ++ b, skipn n d).
Proof.
  induction n as [|n IH]; intros d b; [reflexivity|].
  destruct d as [|x t]; [reflexivity|].
  cbn [shift firstn skipn rev]. rewrite IH. rewrite <- app_assoc. reflexivity.
Qed.

Lemma blen_firstn (n : nat) (d : bytes) : (n <= length d)%nat -> blen (firstn n d) = Z.of_nat n.
Proof. intros H. unfold blen. rewrite firstn_length_le by exact H. reflexivity. Qed.

Lemma blen_skipn (n : nat) (d : bytes) : (n <= length d)%nat -> blen (skipn n d) = blen d - Z.of_nat n.
Proof. intros H. unfold blen. rewrite skipn_length. lia. Qed.

(** ---------- bounds of the scanning functions ---------- *)
Lemma ws_span_bound : forall d k i, ws_span d k = Some i -> k <= i < k + blen d.
Proof.
  induction d as [|b t IH]; intros k i H; [discriminate|].
  cbn [ws_span] in H. rewrite blen_cons. destruct (is_ws b).
  - apply IH in H. lia.
  - inversion H. subst. pose proof (blen_nonneg t). lia.
Qed.

Lemma index_byte_bound : forall c d k i, index_byte c d k = Some i -> k <= i < k + blen d.
Proof.
  induction d as [|b t IH]; intros k i H; [discriminate|].
  cbn [index_byte] in H. rewrite blen_cons. destruct (b =? c).
  - inversion H. subst. pose proof (blen_nonneg t). lia.
  - apply IH in H. lia.
Qed.

Lemma index_byte_upto_bound : forall c n d k i,
  index_byte_upto c d n k = Some i -> k <= i < k + blen d /\ i < k + Z.of_nat n.
Proof.
  induction n as [|n IH]; intros d k i H; destruct d as [|b t]; try discriminate H.
  cbn [index_byte_upto] in H. rewrite blen_cons. destruct (b =? c).
  - inversion H. subst. pose proof (blen_nonneg t). lia.
  - apply IH in H. lia.
Qed.

Lemma index_term_bound : forall d k i, index_term d k = Some i -> k <= i < k + blen d.
Proof.
  induction d as [|b t IH]; intros k i H; [discriminate|].
  cbn [index_term] in H. rewrite blen_cons. destruct ((b =? 10) || (b =? 46)).
  - inversion H. subst. pose proof (blen_nonneg t). lia.
  - apply IH in H. lia.
Qed.

Lemma index_pair_bound : forall c1 c2 d k i, index_pair c1 c2 d k = Some i -> k <= i /\ i + 1 < k + blen d.
Proof.
  induction d as [|b t IH]; intros k i H; [discriminate|].
  cbn [index_pair] in H. destruct t as [|b' t']; [discriminate|].
  rewrite !blen_cons in *. destruct ((b =? c1) && (b' =? c2)).
  - inversion H. subst. pose proof (blen_nonneg t'). lia.
  - apply IH in H. try rewrite blen_cons in H. lia.
Qed.

Lemma digit_span_bound : forall d k i, digit_span d k = Some i -> k <= i < k + blen d.
Proof.
  induction d as [|b t IH]; intros k i H; [discriminate|].
  cbn [digit_span] in H. rewrite blen_cons. destruct (is_digit b).
  - apply IH in H. lia.
  - inversion H. subst. pose proof (blen_nonneg t). lia.
Qed.

Lemma quoted_scan_bound : forall q d i lastq r,
  quoted_scan q d i lastq = Some r -> 0 <= lastq <= i -> 0 <= fst r <= snd r /\ i <= snd r < i + blen d.
Proof.
  induction d as [|b t IH]; intros i lastq r H Hl; [discriminate|].
  cbn [quoted_scan] in H. rewrite blen_cons. pose proof (blen_nonneg t).
  destruct (b =? q).
  - apply IH in H; [|lia]. lia.
  - destruct (b =? 62).
    + destruct (lastq <? i - 1).
      * apply IH in H; [|lia]. lia.
      * inversion H. subst. cbn [fst snd]. lia.
    + apply IH in H; [|lia]. lia.
Qed.

Lemma ws_span_head : forall d k i, ws_span d k = Some i ->
  exists b t, skipn (Z.to_nat (i - k)) d = b :: t /\ is_ws b = false.
Proof.
  induction d as [|b t IH]; intros k i H; [discriminate|].
  cbn [ws_span] in H. destruct (is_ws b) eqn:Eb.
  - pose proof (ws_span_bound _ _ _ H) as Hb. destruct (IH _ _ H) as (b' & t' & E1 & E2).
    exists b', t'. split; [|exact E2].
    replace (Z.to_nat (i - k)) with (S (Z.to_nat (i - (k + 1)))) by lia. exact E1.
  - inversion H. subst. exists b, t. rewrite Z.sub_diag. split; [reflexivity|exact Eb].
Qed.

(** ====================================================================================== *)
Section Proofs.

Variable cf : cfg.
Variable input : bytes.
Variable plen : Z.
Hypothesis Hplen : plen = blen input.

(** the cursor invariant: data = input[pos:] (as a zipper) *)
Definition wf (st : pst) : Prop := rev (back st) ++ data st = input /\ pos st = blen (back st).

Lemma wf_pos st : wf st -> 0 <= pos st /\ pos st + blen (data st) = plen.
Proof.
  intros [H1 H2]. rewrite Hplen, <- H1, blen_app. unfold blen in *. rewrite rev_length. lia.
Qed.

Lemma wf_remaining st : wf st -> remaining plen st = blen (data st).
Proof. intros H. apply wf_pos in H. unfold remaining. lia. Qed.

(** ---------- meters ---------- *)
Definition cost_bound : Z := 4 * (plen + 1).     (* what one scanning primitive may cost *)
Definition alloc_bound : Z := 16 * plen.          (* what one capped allocation may request *)

Definition calls (st : pst) := m_calls (mt st).
Definition allocs (st : pst) := m_allocs (mt st).
Definition depth (st : pst) := m_depth (mt st).

Definition minv (m : meters) : Prop :=
  0 <= m_calls m /\ 0 <= m_steps m <= m_calls m * cost_bound /\
  0 <= m_allocs m /\
  (c_cap_hint cf = true ->
     m_alloc_max m <= alloc_bound /\ m_alloc_sum m <= m_allocs m * alloc_bound) /\
  0 <= m_depth m <= m_depth_max m /\
  (forall d, c_depth_cap cf = Some d -> m_depth_max m <= d + 1).

(** [rel k a st st']: from st to st' at most k primitive calls and a allocations happened, the
    recursion depth is back where it was, and the meter invariant is preserved *)
Record rel (k a : Z) (st st' : pst) : Prop := mkrel {
  r_calls : calls st <= calls st' <= calls st + k;
  r_allocs : allocs st <= allocs st' <= allocs st + a;
  r_depth : depth st' = depth st;
  r_minv : minv (mt st) -> minv (mt st') }.

Lemma rel_refl st : rel 0 0 st st.
Proof. constructor; try lia; auto. Qed.

Lemma rel_mt st st' : mt st' = mt st -> rel 0 0 st st'.
Proof. intros H. constructor; unfold calls, allocs, depth; rewrite H; try lia; auto. Qed.

Lemma rel_trans k1 a1 k2 a2 s1 s2 s3 :
  rel k1 a1 s1 s2 -> rel k2 a2 s2 s3 -> rel (k1 + k2) (a1 + a2) s1 s3.
Proof. intros [] []. constructor; try lia; auto. Qed.

Lemma rel_weaken k a k' a' s1 s2 : rel k a s1 s2 -> k <= k' -> a <= a' -> rel k' a' s1 s2.
Proof. intros [] ? ?. constructor; try lia; auto. Qed.

Lemma rel_tickn n c st : 0 <= n -> 0 <= c <= n * cost_bound -> rel n 0 st (tickn n c st).
Proof.
  intros Hn Hc. constructor; unfold calls, allocs, depth, tickn, with_mt; cbn [mt m_calls m_allocs m_depth]; try lia.
  unfold minv. cbn [mt m_calls m_steps m_allocs m_alloc_sum m_alloc_max m_depth m_depth_max].
  intros (H1 & H2 & H3 & H4 & H5 & H6). repeat split; try lia; auto; try apply H4; auto.
Qed.

Lemma rel_tick c st : 0 <= c <= cost_bound -> rel 1 0 st (tick c st).
Proof. intros H. apply rel_tickn; lia. Qed.

Lemma tickn_pos n c st : pos (tickn n c st) = pos st /\ data (tickn n c st) = data st /\ back (tickn n c st) = back st.
Proof. repeat split. Qed.

Lemma wf_tickn n c st : wf st -> wf (tickn n c st).
Proof. intros H. exact H. Qed.

Lemma scan_cost_bound r st :
  wf st -> (forall i, r = Some i -> 0 <= i < blen (data st)) -> 0 <= scan_cost plen r st <= cost_bound.
Proof.
  intros Hw Hr. pose proof (wf_pos _ Hw) as [Hp Hl]. pose proof (blen_nonneg (data st)).
  unfold scan_cost, cost_bound, remaining. destruct r as [i|].
  - specialize (Hr i eq_refl). lia.
  - lia.
Qed.

(** the element sizes the parser allocates with *)
Definition esz_ok (e : Z) : Prop := e = 1 \/ e = 8 \/ e = 16.

Lemma rel_alloc n e st : wf st -> esz_ok e -> rel 0 1 st (alloc cf plen n e st).
Proof.
  intros Hw He. pose proof (wf_pos _ Hw) as [Hp Hl]. pose proof (blen_nonneg (data st)).
  constructor; unfold calls, allocs, depth, alloc, with_mt; cbn [mt m_calls m_allocs m_depth]; try lia.
  unfold minv. cbn [mt m_calls m_steps m_allocs m_alloc_sum m_alloc_max m_depth m_depth_max].
  intros (H1 & H2 & H3 & H4 & H5 & H6).
  split; [lia|]. split; [lia|]. split; [lia|]. split; [|split; [lia|exact H6]].
  intros Hc. destruct (H4 Hc) as [Ha Hs]. rewrite Hc. unfold remaining, alloc_bound in *.
  destruct He as [ -> | [ -> | -> ] ]; lia.
Qed.

Lemma wf_alloc n e st : wf st -> wf (alloc cf plen n e st).
Proof. intros H. exact H. Qed.

(** ---------- errors ---------- *)
Definition err_ok (e : perr) : Prop :=
  match e with ESyntax _ off line col => pos_ok input off line col | _ => True end.

Lemma mk_syntax_ok t off : 0 <= off -> err_ok (mk_syntax input t off).
Proof.
  intros H. unfold mk_syntax. pose proof (new_parse_error_ok input off H) as P.
  destruct (new_parse_error input off) as [[o l] c]. exact P.
Qed.

(** what a result may be: Ok with [Qok], an error with a consistent position and [Qerr], a
    panic only in the configuration without the quote repair, never out of fuel *)
Definition post {A} (r : res A) (Qok : A -> pst -> Prop) (Qerr : pst -> Prop) : Prop :=
  match r with
  | ROk x st' => Qok x st'
  | RErr e st' => err_ok e /\ Qerr st'
  | RPanic _ => c_quote_fix cf = false
  | RFuel _ => False
  end.

Lemma post_fail {A} t st (Qok : A -> pst -> Prop) (Qerr : pst -> Prop) :
  wf st -> Qerr st -> post (fail input t st) Qok Qerr.
Proof. intros Hw Hq. cbn. split; [apply mk_syntax_ok; apply (wf_pos _ Hw)|exact Hq]. Qed.

Lemma post_fail_at {A} t off st (Qok : A -> pst -> Prop) (Qerr : pst -> Prop) :
  0 <= off -> Qerr st -> post (fail_at input t off st) Qok Qerr.
Proof. intros Hw Hq. cbn. split; [apply mk_syntax_ok; exact Hw|exact Hq]. Qed.

Lemma post_weaken {A} (r : res A) (Q1 Q2 : A -> pst -> Prop) (E1 E2 : pst -> Prop) :
  post r Q1 E1 -> (forall x s, Q1 x s -> Q2 x s) -> (forall s, E1 s -> E2 s) -> post r Q2 E2.
Proof. destruct r; cbn; intuition. Qed.

(** ---------- cursor ---------- *)
Lemma forward_spec n st : wf st -> 0 <= n ->
  (n <= blen (data st) /\ fst (forward plen n st) = true /\ wf (snd (forward plen n st)) /\
   pos (snd (forward plen n st)) = pos st + n /\
   data (snd (forward plen n st)) = skipn (Z.to_nat n) (data st) /\ mt (snd (forward plen n st)) = mt st)
  \/ (blen (data st) < n /\ forward plen n st = (false, st)).
Proof.
  intros Hw Hn. pose proof (wf_pos _ Hw) as [Hp Hl]. unfold forward.
  destruct (pos st + n <=? plen) eqn:E.
  - left. apply Z.leb_le in E. rewrite shift_spec. cbn [fst snd pos data mt back].
    assert (Hle : (Z.to_nat n <= length (data st))%nat) by (unfold blen in *; lia).
    repeat split; try lia.
    + destruct Hw as [H1 H2]. cbn. rewrite rev_app_distr, rev_involutive, <- app_assoc, firstn_skipn. exact H1.
    + destruct Hw as [H1 H2]. cbn. rewrite blen_app. unfold blen at 1. rewrite rev_length.
      fold (blen (firstn (Z.to_nat n) (data st))). rewrite blen_firstn by exact Hle. lia.
  - right. apply Z.leb_gt in E. split; [lia|reflexivity].
Qed.

Lemma fwd_spec n st : wf st -> 0 <= n ->
  wf (fwd plen n st) /\ pos st <= pos (fwd plen n st) <= pos st + n /\ mt (fwd plen n st) = mt st /\
  (n <= blen (data st) -> pos (fwd plen n st) = pos st + n /\ data (fwd plen n st) = skipn (Z.to_nat n) (data st)).
Proof.
  intros Hw Hn. unfold fwd. destruct (forward_spec n st Hw Hn) as [(H1 & H2 & H3 & H4 & H5 & H6)|[H1 H2]].
  - split; [exact H3|]. split; [lia|]. split; [exact H6|]. intros _. split; [exact H4|exact H5].
  - rewrite H2. cbn [snd]. split; [exact Hw|]. split; [lia|]. split; [reflexivity|]. intros; lia.
Qed.

Lemma backward_spec st : wf st ->
  wf (backward 1 st) /\ pos st - 1 <= pos (backward 1 st) <= pos st /\ mt (backward 1 st) = mt st.
Proof.
  intros Hw. pose proof (wf_pos _ Hw) as [Hp Hl]. unfold backward.
  destruct (pos st - 1 >=? 0) eqn:E; [|split; [exact Hw|split; [lia|reflexivity]]].
  apply Z.geb_le in E. rewrite shift_spec. cbn [pos data mt back].
  destruct Hw as [H1 H2].
  destruct (back st) as [|x bk] eqn:Eb; [rewrite blen_nil in H2; lia|].
  change (Z.to_nat 1) with 1%nat. cbn [firstn skipn rev app pos data mt back].
  split; [|split; [lia|reflexivity]].
  split; cbn [pos data back].
  - cbn [rev] in H1. rewrite <- app_assoc in H1. exact H1.
  - rewrite blen_cons in H2. lia.
Qed.

(** func skipSpace *)
Lemma skip_space_spec st : wf st ->
  let r := skip_space plen st in
  wf (snd r) /\ pos st <= pos (snd r) /\ rel 1 0 st (snd r) /\
  (fst r = true -> exists b t, data (snd r) = b :: t /\ is_ws b = false) /\
  (fst r = false -> pos (snd r) = pos st).
Proof.
  intros Hw. unfold skip_space. cbn zeta.
  pose proof (scan_cost_bound (ws_span (data st) 0) st Hw) as Hc.
  assert (Hb : forall i, ws_span (data st) 0 = Some i -> 0 <= i < blen (data st)).
  { intros i Hi. apply ws_span_bound in Hi. lia. }
  specialize (Hc Hb). set (st1 := tick (scan_cost plen (ws_span (data st) 0) st) st).
  assert (Hr1 : rel 1 0 st st1) by (apply rel_tick; exact Hc).
  assert (Hw1 : wf st1) by exact Hw.
  destruct (ws_span (data st) 0) as [i|] eqn:E.
  - specialize (Hb i eq_refl).
    destruct (forward_spec i st1 Hw1 ltac:(lia)) as [(H1 & H2 & H3 & H4 & H5 & H6)|[H1 H2]].
    + split; [exact H3|]. split; [change (pos st1) with (pos st) in H4; lia|].
      split; [eapply rel_weaken; [eapply rel_trans; [exact Hr1|apply rel_mt; exact H6]|lia|lia]|].
      split.
      * intros _. rewrite H5. change (data st1) with (data st).
        destruct (ws_span_head _ _ _ E) as (b & t & E1 & E2). rewrite Z.sub_0_r in E1.
        exists b, t. split; assumption.
      * intros Hf. rewrite H2 in Hf. discriminate.
    + change (data st1) with (data st) in H1. lia.
  - cbn [fst snd]. split; [exact Hw1|]. split; [change (pos st1) with (pos st); lia|].
    split; [exact Hr1|]. split; [intros H; discriminate|reflexivity].
Qed.

(** [adv k a st st']: a step that keeps the cursor invariant, never moves backwards, and costs
    at most k primitive calls and a allocations *)
Definition adv (k a : Z) (st st' : pst) : Prop := wf st' /\ pos st <= pos st' /\ rel k a st st'.

Ltac break_adv :=
  repeat match goal with
  | H : adv _ _ _ _ |- _ => destruct H as (? & ? & ?)
  | H : rel _ _ _ _ |- _ => destruct H as [? ? ? ?]
  end.
Ltac solve_rel := break_adv; constructor; [lia|lia|lia|intros; auto 30].
Ltac solve_adv := break_adv; split; [assumption|split; [lia|constructor; [lia|lia|lia|intros; auto 30]]].

Lemma adv_refl st : wf st -> adv 0 0 st st.
Proof. intros H. split; [exact H|split; [lia|apply rel_refl]]. Qed.

Lemma adv_tick c st : wf st -> 0 <= c <= cost_bound -> adv 1 0 st (tick c st).
Proof. intros Hw Hc. split; [exact Hw|split; [cbn; lia|apply rel_tick; exact Hc]]. Qed.

Lemma adv_fwd n st : wf st -> 0 <= n -> adv 0 0 st (fwd plen n st).
Proof.
  intros Hw Hn. destruct (fwd_spec n st Hw Hn) as (H1 & H2 & H3 & _).
  split; [exact H1|split; [lia|apply rel_mt; exact H3]].
Qed.

Lemma adv_skip_space st : wf st -> adv 1 0 st (snd (skip_space plen st)).
Proof. intros Hw. destruct (skip_space_spec st Hw) as (H1 & H2 & H3 & _). split; [exact H1|split; [exact H2|exact H3]]. Qed.

(** func skipComment *)
Lemma skip_comment_spec st : wf st -> adv 2 0 st (skip_comment plen st).
Proof.
  intros Hw. unfold skip_comment.
  pose proof (adv_skip_space st Hw) as Ha. destruct (skip_space plen st) as [ok st1]. cbn [snd] in Ha.
  assert (Hw1 : wf st1) by apply Ha.
  destruct (negb ok); [solve_adv|].
  assert (Hgen : forall r k, (forall i, r = Some i -> 0 <= i /\ i + k <= blen (data st1)) -> 0 < k ->
            adv 2 0 st (let st2 := tick (scan_cost plen r st1) st1 in match r with Some i => fwd plen (i + k) st2 | None => st2 end)).
  { intros r k Hr Hk. cbn zeta.
    assert (Hc : 0 <= scan_cost plen r st1 <= cost_bound).
    { apply scan_cost_bound; [exact Hw1|]. intros i Hi. specialize (Hr i Hi). lia. }
    pose proof (adv_tick _ st1 Hw1 Hc) as Ht.
    destruct r as [i|]; [|solve_adv].
    specialize (Hr i eq_refl).
    pose proof (adv_fwd (i + k) (tick (scan_cost plen (Some i) st1) st1) (proj1 Ht) ltac:(lia)) as Hf.
    solve_adv. }
  destruct (data st1) as [|c0 [|c1 t]] eqn:Ed; try solve [solve_adv].
  destruct ((c0 =? 47) && (c1 =? 47)).
  - rewrite <- Ed. apply (Hgen (index_byte 10 (data st1) 0) 1); [|lia].
    intros i Hi. apply index_byte_bound in Hi. rewrite ?Ed in *. lia.
  - destruct ((c0 =? 47) && (c1 =? 42)); [|solve_adv].
    rewrite <- Ed. apply (Hgen (index_pair 42 47 (data st1) 0) 2); [|lia].
    intros i Hi. apply index_pair_bound in Hi. rewrite ?Ed in *. lia.
Qed.

(** func peekNonSpaceRune *)
Lemma peek_nonspace_spec st : wf st ->
  let r := peek_nonspace plen st in
  adv 1 0 st (snd r) /\ (fst r = eof \/ exists t, data (snd r) = fst r :: t).
Proof.
  intros Hw. unfold peek_nonspace. cbn zeta.
  pose proof (adv_skip_space st Hw) as Ha. destruct (skip_space plen st) as [ok st1]. cbn [snd] in Ha.
  destruct ok; cbn [fst snd]; (split; [exact Ha|]); [|left; reflexivity].
  unfold peek_rune. destruct (data st1) as [|b t]; [left; reflexivity|right; exists t; reflexivity].
Qed.

(** func nextRune *)
Lemma next_rune_spec st : wf st ->
  post (next_rune plen st) (fun r st' => adv 0 0 st st' /\ (r = eof \/ pos st' = pos st + 1)) (fun _ => False).
Proof.
  intros Hw. pose proof (wf_pos _ Hw) as [Hp Hl]. unfold next_rune.
  destruct (pos st >=? plen) eqn:E.
  - cbn. split; [apply adv_refl; exact Hw|left; reflexivity].
  - rewrite Z.geb_leb in E. apply Z.leb_gt in E.
    destruct (data st) as [|b t] eqn:Ed; [rewrite blen_nil in Hl; lia|].
    destruct (forward_spec 1 st Hw ltac:(lia)) as [(H1 & H2 & H3 & H4 & H5 & H6)|[H1 H2]].
    + destruct (forward plen 1 st) as [ok st1]. cbn [fst snd] in *. subst ok. cbn.
      split; [|right; exact H4]. split; [exact H3|split; [lia|apply rel_mt; exact H6]].
    + rewrite Ed, blen_cons in H1. pose proof (blen_nonneg t). lia.
Qed.

(** func nextNonSpaceRune *)
Lemma next_nonspace_spec st : wf st ->
  post (next_nonspace plen st) (fun r st' => adv 1 0 st st' /\ (r = eof \/ pos st + 1 <= pos st')) (fun _ => False).
Proof.
  intros Hw. unfold next_nonspace.
  pose proof (adv_skip_space st Hw) as Ha. destruct (skip_space plen st) as [ok st1]. cbn [snd] in Ha.
  destruct ok.
  - pose proof (next_rune_spec st1 (proj1 Ha)) as Hn.
    destruct (next_rune plen st1) as [r st2|e st2|st2|st2]; cbn in *; try tauto.
    destruct Hn as [Hn Hr]. split; [solve_adv|]. destruct Hr as [Hr|Hr]; [left; exact Hr|right].
    destruct Ha as (_ & Hp & _). lia.
  - cbn. split; [exact Ha|left; reflexivity].
Qed.

(** nextCode / nextItemSize up to the conversion *)
Lemma next_number_spec bits t st : wf st ->
  post (next_number input plen bits t st)
       (fun vi st' => adv 1 0 st st' /\ 0 <= snd vi)
       (fun st' => rel 1 0 st st').
Proof.
  intros Hw. unfold next_number.
  destruct (pos st >=? plen); [apply post_fail; [exact Hw|apply rel_weaken with (k := 0) (a := 0); [apply rel_refl|lia|lia]]|].
  assert (Hb : forall i, digit_span (data st) 0 = Some i -> 0 <= i < blen (data st)).
  { intros i Hi. apply digit_span_bound in Hi. lia. }
  pose proof (adv_tick _ st Hw (scan_cost_bound _ st Hw Hb)) as Ht.
  set (st1 := tick (scan_cost plen (digit_span (data st) 0) st) st) in *.
  destruct (digit_span (data st) 0) as [i|] eqn:E.
  - change (data st1) with (data st).
    destruct (parse_uint false bits (firstn (Z.to_nat i) (data st))).
    + cbn. split; [exact Ht|]. cbn [snd]. specialize (Hb i eq_refl). lia.
    + apply post_fail; [apply Ht|apply Ht].
    + apply post_fail; [apply Ht|apply Ht].
  - apply post_fail; [apply Ht|apply Ht].
Qed.

Lemma next_code_spec st : wf st ->
  post (next_code input plen st) (fun v st' => adv 1 0 st st') (fun st' => rel 1 0 st st').
Proof.
  intros Hw. unfold next_code. pose proof (next_number_spec 8 T_code st Hw) as Hn.
  destruct (next_number input plen 8 T_code st) as [vi st1|e st1|st1|st1]; cbn in *; try tauto.
  destruct Hn as [Ha Hi]. pose proof (adv_fwd (snd vi) st1 (proj1 Ha) Hi). solve_adv.
Qed.

Lemma next_item_size_spec st : wf st ->
  post (next_item_size input plen st) (fun v st' => adv 1 0 st st') (fun st' => rel 1 0 st st').
Proof.
  intros Hw. unfold next_item_size. pose proof (next_number_spec 32 T_item_size st Hw) as Hn.
  destruct (next_number input plen 32 T_item_size st) as [vi st1|e st1|st1|st1]; cbn in *; try tauto.
  destruct Hn as [Ha Hi]. destruct (fst vi >? 2147483647).
  - apply post_fail; [apply Ha|apply Ha].
  - cbn. pose proof (adv_fwd (snd vi) st1 (proj1 Ha) Hi). solve_adv.
Qed.

(** destruct the result a [post] hypothesis speaks about: leaves the Ok and the Err case *)
Ltac dpost H :=
  match type of H with
  | post ?r _ _ =>
      let v := fresh "v" in let s := fresh "s" in let e := fresh "e" in
      destruct r as [v s|e s|s|s]; cbn [post] in H |- *; [ | | exact H | contradiction H]
  end.
Ltac err_case H := let He := fresh in let Hq := fresh in destruct H as [He Hq]; split; [exact He|try solve_rel].

(** func parseHSMSHeader: on success at least the 'S' was consumed *)
Lemma parse_header_spec st : wf st ->
  post (parse_header input plen st)
       (fun h st' => adv 10 0 st st' /\ pos st + 1 <= pos st')
       (fun st' => rel 10 0 st st').
Proof.
  intros Hw. unfold parse_header.
  assert (Hb1 : forall i, index_term (data st) 0 = Some i -> 0 <= i < blen (data st)).
  { intros i Hi. apply index_term_bound in Hi. lia. }
  pose proof (adv_tick _ st Hw (scan_cost_bound _ st Hw Hb1)) as Ht1.
  set (st1 := tick (scan_cost plen (index_term (data st) 0) st) st) in *.
  destruct (index_term (data st) 0) as [ft|] eqn:Eft; [|apply post_fail; [apply Ht1|solve_rel]].
  specialize (Hb1 ft eq_refl).
  assert (Hb2 : forall i, index_byte 60 (data st1) 0 = Some i -> 0 <= i < blen (data st1)).
  { intros i Hi. apply index_byte_bound in Hi. lia. }
  pose proof (adv_tick _ st1 (proj1 Ht1) (scan_cost_bound _ st1 (proj1 Ht1) Hb2)) as Ht2.
  set (st2 := tick (scan_cost plen (index_byte 60 (data st1) 0) st1) st1) in *.
  set (i := Z.max ft (match index_byte 60 (data st1) 0 with Some j => j | None => -1 end)).
  assert (Hi : 0 <= i < blen (data st)).
  { unfold i. destruct (index_byte 60 (data st1) 0) as [j|]; [specialize (Hb2 j eq_refl); change (data st1) with (data st) in Hb2|]; lia. }
  set (mi := index_byte_upto 58 (data st2) (Z.to_nat i) 0).
  assert (Hmi : forall m, mi = Some m -> 0 <= m < blen (data st) /\ m < i).
  { intros m Hm. apply index_byte_upto_bound in Hm. change (data st2) with (data st) in Hm. lia. }
  assert (Hc3 : 0 <= match mi with Some m => m + 1 | None => i + 1 end <= cost_bound).
  { pose proof (wf_pos _ Hw). unfold cost_bound. destruct mi as [m|]; [specialize (Hmi m eq_refl)|]; lia. }
  pose proof (adv_tick _ st2 (proj1 Ht2) Hc3) as Ht3.
  set (st3 := tick (match mi with Some m => m + 1 | None => i + 1 end) st2) in *.
  assert (Ha4 : adv 0 0 st3 (match mi with Some m => fwd plen (m + 1) st3 | None => st3 end)).
  { destruct mi as [m|]; [apply adv_fwd; [apply Ht3|specialize (Hmi m eq_refl); lia]|apply adv_refl; apply Ht3]. }
  set (st4 := match mi with Some m => fwd plen (m + 1) st3 | None => st3 end) in *.
  pose proof (peek_nonspace_spec st4 (proj1 Ha4)) as [Ha5 _].
  destruct (peek_nonspace plen st4) as [ch st5]. cbn [fst snd] in Ha5.
  assert (Ha6 : adv 0 0 st5 (if is_quote ch then fwd plen 1 st5 else st5)).
  { destruct (is_quote ch); [apply adv_fwd; [apply Ha5|lia]|apply adv_refl; apply Ha5]. }
  set (st6 := if is_quote ch then fwd plen 1 st5 else st5) in *.
  pose proof (next_rune_spec st6 (proj1 Ha6)) as H7. dpost H7; [|contradiction (proj2 H7)].
  destruct H7 as [Ha7 Hr7].
  destruct (negb (v =? 83)) eqn:E83; [apply post_fail; [apply Ha7|solve_rel]|].
  assert (Hp7 : pos s = pos st6 + 1).
  { destruct Hr7 as [Hr7|Hr7]; [|exact Hr7]. subst v. discriminate. }
  pose proof (next_code_spec s (proj1 Ha7)) as H8. dpost H8; [|err_case H8].
  destruct (v0 >? 127); [apply post_fail; [apply H8|solve_rel]|].
  pose proof (next_rune_spec s0 (proj1 H8)) as H9. dpost H9; [|contradiction (proj2 H9)].
  destruct H9 as [Ha9 _].
  destruct (negb (v1 =? 70)); [apply post_fail; [apply Ha9|solve_rel]|].
  pose proof (next_code_spec s1 (proj1 Ha9)) as H10. dpost H10; [|err_case H10].
  pose proof (peek_nonspace_spec s2 (proj1 H10)) as [Ha11 _].
  destruct (peek_nonspace plen s2) as [ch2 st11]. cbn [fst snd] in Ha11.
  assert (Ha12 : adv 0 0 st11 (if is_quote ch2 then fwd plen 1 st11 else st11)).
  { destruct (is_quote ch2); [apply adv_fwd; [apply Ha11|lia]|apply adv_refl; apply Ha11]. }
  set (st12 := if is_quote ch2 then fwd plen 1 st11 else st11) in *.
  pose proof (peek_nonspace_spec st12 (proj1 Ha12)) as [Ha13 _].
  destruct (peek_nonspace plen st12) as [ch3 st13]. cbn [fst snd] in Ha13.
  destruct (ch3 =? 87).
  - cbn. pose proof (adv_fwd 1 st13 (proj1 Ha13) ltac:(lia)) as Ha14. split; [solve_adv|break_adv; lia].
  - cbn. split; [solve_adv|break_adv; lia].
Qed.

Lemma zlist_eqb_length : forall a b, zlist_eqb a b = true -> length a = length b.
Proof.
  induction a as [|x a IH]; intros [|y b] H; cbn in *; try discriminate; [reflexivity|].
  apply andb_true_iff in H. destruct H as [_ H]. f_equal. apply IH. exact H.
Qed.

Lemma is_boolean7_len d : is_boolean7 d = true -> 7 <= blen d.
Proof.
  unfold is_boolean7. intros H. apply zlist_eqb_length in H. rewrite map_length in H.
  cbn [length] in H. unfold blen.
  destruct (Nat.le_gt_cases 7 (length d)) as [L|L]; [lia|].
  rewrite firstn_all2 in H by lia. lia.
Qed.

Definition two_char (ty : itype) : bool :=
  match ty with TFloat _ | TInt _ | TUint _ => true | _ => false end.
Definition is_value_type (ty : itype) : bool :=
  match ty with TBoolean | TBinary | TFloat _ | TInt _ | TUint _ => true | _ => false end.

(** func parseItemType: a recognised type consumes its one or two (or seven) letters *)
Lemma parse_item_type_spec st : wf st ->
  let r := parse_item_type plen st in
  adv 1 0 st (snd r) /\
  (forall ty, fst r = Some ty -> pos st + (if two_char ty then 2 else 1) <= pos (snd r)).
Proof.
  intros Hw. unfold parse_item_type. cbn zeta.
  pose proof (adv_skip_space st Hw) as Ha. set (st1 := snd (skip_space plen st)) in *.
  assert (Hw1 : wf st1) by apply Ha.
  assert (Hnone : adv 1 0 st st1 /\ (forall ty, @None itype = Some ty -> pos st + (if two_char ty then 2 else 1) <= pos st1)).
  { split; [exact Ha|intros ty H; discriminate]. }
  assert (Hsome : forall ty n, 0 < n -> n <= blen (data st1) -> (if two_char ty then 2 else 1) <= n ->
            adv 1 0 st (fwd plen n st1) /\
            (forall ty', Some ty = Some ty' -> pos st + (if two_char ty' then 2 else 1) <= pos (fwd plen n st1))).
  { intros ty n Hn Hl Ht. destruct (fwd_spec n st1 Hw1 ltac:(lia)) as (F1 & F2 & F3 & F4).
    destruct (F4 Hl) as [F5 _]. split.
    - pose proof (adv_fwd n st1 Hw1 ltac:(lia)). solve_adv.
    - intros ty' E. inversion E. subst ty'. destruct Ha as (_ & Hp & _). lia. }
  destruct (data st1) as [|c0 t] eqn:Ed; [exact Hnone|].
  assert (L1 : 1 <= blen (c0 :: t)) by (rewrite blen_cons; pose proof (blen_nonneg t); lia).
  assert (L2 : forall c1 t', t = c1 :: t' -> 2 <= blen (c0 :: t)).
  { intros c1 t' ->. rewrite !blen_cons. pose proof (blen_nonneg t'). lia. }
  cbn [fst snd].
  repeat match goal with
  | |- context [if ?c then _ else _] => destruct c eqn:?
  | |- context [match ?o with Some _ => _ | None => _ end] => destruct o eqn:?
  end; cbn [fst snd]; try exact Hnone;
  try (apply Hsome; cbn [two_char]; try lia; fail).
  all: apply Hsome; cbn [two_char]; try lia; try (apply is_boolean7_len; assumption).
  all: destruct t as [|c1 t']; [discriminate|eapply L2; reflexivity].
Qed.

Lemma size_finish_spec mn mx st : wf st ->
  post (size_finish input plen mn mx st) (fun _ st' => adv 1 0 st st') (fun st' => rel 1 0 st st').
Proof.
  intros Hw. unfold size_finish. pose proof (next_nonspace_spec st Hw) as H. dpost H; [|contradiction (proj2 H)].
  destruct H as [Ha _]. destruct (negb (v =? 93)); [apply post_fail; [apply Ha|solve_rel]|].
  destruct (mn >? mx); [apply post_fail; [apply Ha|solve_rel]|]. cbn. exact Ha.
Qed.

(** func parseItemSize: the only place the cursor may move backwards, by at most one byte *)
Lemma parse_item_size_spec st : wf st ->
  post (parse_item_size input plen st)
       (fun _ st' => wf st' /\ pos st - 1 <= pos st' /\ rel 8 0 st st')
       (fun st' => rel 8 0 st st').
Proof.
  intros Hw. unfold parse_item_size.
  pose proof (next_nonspace_spec st Hw) as H1. dpost H1; [|contradiction (proj2 H1)].
  destruct H1 as [Ha1 _].
  destruct (negb (v =? 91)).
  { cbn. destruct (backward_spec s (proj1 Ha1)) as (B1 & B2 & B3).
    split; [exact B1|]. split; [break_adv; lia|]. pose proof (rel_mt _ _ B3). solve_rel. }
  pose proof (peek_nonspace_spec s (proj1 Ha1)) as [Ha2 _].
  destruct (peek_nonspace plen s) as [ch st2]. cbn [fst snd] in Ha2.
  assert (Hfin : forall mn mx k stx, adv k 0 st stx -> k <= 7 ->
            post (size_finish input plen mn mx stx)
                 (fun _ st' => wf st' /\ pos st - 1 <= pos st' /\ rel 8 0 st st') (fun st' => rel 8 0 st st')).
  { intros mn mx k stx Hx Hk. pose proof (size_finish_spec mn mx stx (proj1 Hx)) as Hf.
    eapply post_weaken; [exact Hf| |]; cbn beta.
    - intros _ s' Hs. split; [apply Hs|]. split; [break_adv; lia|solve_rel].
    - intros s' Hs. solve_rel. }
  destruct (ch =? 46).
  - pose proof (adv_fwd 2 st2 (proj1 Ha2) ltac:(lia)) as Ha3.
    pose proof (next_item_size_spec _ (proj1 Ha3)) as H4. dpost H4; [|err_case H4].
    apply (Hfin 0 v0 4); [solve_adv|lia].
  - pose proof (next_item_size_spec _ (proj1 Ha2)) as H4. dpost H4; [|err_case H4].
    pose proof (peek_nonspace_spec s0 (proj1 H4)) as [Ha5 _].
    destruct (peek_nonspace plen s0) as [ch2 st5]. cbn [fst snd] in Ha5.
    destruct (ch2 =? 46).
    + pose proof (adv_fwd 2 st5 (proj1 Ha5) ltac:(lia)) as Ha6.
      destruct (peek_rune (fwd plen 2 st5) =? 93).
      * apply (Hfin v0 v0 4); [solve_adv|lia].
      * pose proof (next_item_size_spec _ (proj1 Ha6)) as H7. dpost H7; [|err_case H7].
        apply (Hfin v0 v1 5); [solve_adv|lia].
    + apply (Hfin v0 v0 4); [solve_adv|lia].
Qed.

(** func getItemValueStrings *)
Lemma value_strings_spec st : wf st ->
  let r := value_strings plen st in
  adv 1 0 st (snd r) /\ (fst r = [[]] \/ pos st + 1 <= pos (snd r)).
Proof.
  intros Hw. unfold value_strings. cbn zeta.
  assert (Hb : forall i, index_byte 62 (data st) 0 = Some i -> 0 <= i < blen (data st)).
  { intros i Hi. apply index_byte_bound in Hi. lia. }
  pose proof (adv_tick _ st Hw (scan_cost_bound _ st Hw Hb)) as Ht.
  set (st1 := tick (scan_cost plen (index_byte 62 (data st) 0) st) st) in *.
  destruct (index_byte 62 (data st) 0) as [i|]; cbn [fst snd].
  - specialize (Hb i eq_refl). destruct (fwd_spec (i + 1) st1 (proj1 Ht) ltac:(lia)) as (F1 & F2 & F3 & F4).
    change (data st1) with (data st) in F4. destruct (F4 ltac:(lia)) as [F5 _].
    split; [|right; change (pos st1) with (pos st) in F5; lia].
    pose proof (adv_fwd (i + 1) st1 (proj1 Ht) ltac:(lia)). solve_adv.
  - split; [exact Ht|left; reflexivity].
Qed.

Lemma parse_values_spec esz size conv st : wf st -> esz_ok esz ->
  post (parse_values cf input plen esz size conv st)
       (fun it st' => adv 1 1 st st' /\ (pos st + 1 <= pos st' \/ conv [[]] = Some it))
       (fun st' => rel 1 1 st st').
Proof.
  intros Hw He. unfold parse_values.
  pose proof (rel_alloc size esz st Hw He) as Hr. set (st1 := alloc cf plen size esz st) in *.
  assert (Hw1 : wf st1) by exact Hw.
  pose proof (value_strings_spec st1 Hw1) as [Hv Hc]. destruct (value_strings plen st1) as [vals st2].
  cbn [fst snd] in *. destruct (conv vals) as [it|] eqn:Ec.
  - cbn. split.
    + destruct Hv as (V1 & V2 & V3). split; [exact V1|]. split; [exact V2|]. solve_rel.
    + destruct Hc as [Hc|Hc]; [right; subst vals; exact Ec|left; exact Hc].
  - apply post_fail_at; [apply (wf_pos _ Hw1)|solve_rel].
Qed.

Lemma parse_value_item_spec ty size pf st : wf st -> is_value_type ty = true ->
  post (parse_value_item cf input plen pf ty size st)
       (fun it st' => adv 1 1 st st' /\ (two_char ty = true \/ pos st + 1 <= pos st'))
       (fun st' => rel 1 1 st st').
Proof.
  intros Hw Hv. destruct ty; try discriminate Hv; cbn [parse_value_item two_char].
  - eapply post_weaken; [apply parse_values_spec; [exact Hw|left; reflexivity]| |auto]; cbn beta.
    intros it s [Ha [Hp|Hc]]; (split; [exact Ha|]); [right; exact Hp|cbn in Hc; discriminate].
  - eapply post_weaken; [apply parse_values_spec; [exact Hw|left; reflexivity]| |auto]; cbn beta.
    intros it s [Ha [Hp|Hc]]; (split; [exact Ha|]); [right; exact Hp|vm_compute in Hc; discriminate].
  - eapply post_weaken; [apply parse_values_spec; [exact Hw|right; left; reflexivity]| |auto]; cbn beta.
    intros it s [Ha _]. split; [exact Ha|left; reflexivity].
  - eapply post_weaken; [apply parse_values_spec; [exact Hw|right; left; reflexivity]| |auto]; cbn beta.
    intros it s [Ha _]. split; [exact Ha|left; reflexivity].
  - eapply post_weaken; [apply parse_values_spec; [exact Hw|right; left; reflexivity]| |auto]; cbn beta.
    intros it s [Ha _]. split; [exact Ha|left; reflexivity].
Qed.

(** ---------- parseASCIIStrict ---------- *)
Lemma encode_rune_len r : 0 <= blen (encode_rune r) <= 4.
Proof.
  unfold encode_rune.
  repeat match goal with |- context [if ?c then _ else _] => destruct c end; cbn; lia.
Qed.

Definition num_len (m : amode) : Z := match m with ANum n => blen n | _ => 0 end.

(** the scanning loop of parseASCIIStrict: where it stops, how many rune iterations it makes
    (at most one per byte) and what they cost (at most 4 * len + 1 each, the numeric token being
    at most four times as long as the bytes it was read from) *)
Lemma ascii_loop_spec q : forall d skip i m sb it c,
  0 <= i -> num_len m <= 4 * i ->
  let M := 4 * (i + blen d) + 1 in
  match ascii_strict_loop q d skip i m sb it c with
  | ADone i' _ it' c' =>
      i <= i' < i + blen d /\ it <= it' <= it + (i' - i) + 1 /\ c <= c' /\ c' + it' <= c + it + (it' - it) * M
  | AFail _ it' c' | AEof it' c' =>
      it <= it' <= it + blen d /\ c <= c' /\ c' + it' <= c + it + (it' - it) * M
  end.
Proof.
  induction d as [|b t IH]; intros skip i m sb it c Hi Hm; cbn zeta.
  - cbn [ascii_strict_loop]. rewrite ?blen_nil. lia.
  - cbn [ascii_strict_loop]. rewrite blen_cons. pose proof (blen_nonneg t) as Ht.
    destruct skip as [|k].
    2:{ pose proof (IH k (i + 1) m sb it c ltac:(lia) ltac:(lia)) as IHx. cbn zeta in IHx.
        destruct (ascii_strict_loop q t k (i + 1) m sb it c); nia. }
    destruct (decode_rune (b :: t)) as [ch w].
    pose proof (encode_rune_len ch) as He. unfold blen in He. rewrite <- rev_length in He. fold (blen (rev (encode_rune ch))) in He.
    set (enc := rev (encode_rune ch)) in *.
    assert (Hn : forall n, m = ANum n -> blen n <= 4 * i) by (intros n ->; exact Hm).
    destruct m as [|esc|num]; [| |pose proof (blen_nonneg num) as Hnum];
    repeat match goal with
    | |- context [if ?c then _ else _] => destruct c
    | |- context [match ascii_num ?n with _ => _ end] => destruct (ascii_num n)
    end;
    try (specialize (Hn _ eq_refl));
    try match goal with
    | |- context [ascii_strict_loop q t ?k ?i1 ?m1 ?sb1 ?it1 ?c1] =>
        let IHx := fresh "IHx" in
        assert (IHx := IH k i1 m1 sb1 it1 c1 ltac:(lia)); cbn zeta in IHx;
        cbn [num_len] in IHx; try rewrite blen_app in IHx;
        specialize (IHx ltac:(lia));
        destruct (ascii_strict_loop q t k i1 m1 sb1 it1 c1)
    end; nia.
Qed.

Lemma parse_ascii_strict_spec size st : wf st ->
  post (parse_ascii_strict cf input plen size st)
       (fun _ st' => adv (3 + (pos st' - pos st)) 1 st st' /\ pos st + 1 <= pos st')
       (fun st' => rel (3 + (plen - pos st)) 1 st st').
Proof.
  intros Hw. unfold parse_ascii_strict. pose proof (wf_pos _ Hw) as [Hp Hl]. pose proof (blen_nonneg (data st)) as Hd.
  assert (Hc1 : 0 <= remaining plen st + 1 <= cost_bound) by (unfold remaining, cost_bound; lia).
  pose proof (adv_tick _ st Hw Hc1) as Ht. set (st1 := tick (remaining plen st + 1) st) in *.
  pose proof (rel_alloc size 1 st1 (proj1 Ht) ltac:(left; reflexivity)) as Hal.
  set (st2 := alloc cf plen size 1 st1) in *.
  assert (Hw2 : wf st2) by apply Ht.
  change (data st2) with (data st).
  pose proof (ascii_loop_spec (find_quote (data st)) (data st) O 0 APlain [] 0 0 ltac:(lia) ltac:(cbn; lia)) as HL.
  cbn zeta in HL.
  assert (Htk : forall it c, 0 <= it -> 0 <= c -> c + it <= it * (4 * (0 + blen (data st)) + 1) ->
             rel (it + 1) 0 st2 (tickn (it + 1) (it + c) st2)).
  { intros it c Hit Hc Hb. apply rel_tickn; [lia|]. unfold cost_bound. nia. }
  destruct (ascii_strict_loop (find_quote (data st)) (data st) 0 0 APlain [] 0 0) as [i s it c|t it c|it c].
  - destruct HL as (H1 & H2 & H3 & H4). assert (Hit : 0 <= it) by lia.
    assert (Hb4 : c + it <= it * (4 * (0 + blen (data st)) + 1)) by (rewrite Z.sub_0_r in *; lia). specialize (Htk it c Hit H3 Hb4).
    set (st3 := tickn (it + 1) (it + c) st2) in *.
    assert (Hw3 : wf st3) by exact Hw2.
    destruct (fwd_spec (i + 1) st3 Hw3 ltac:(lia)) as (F1 & F2 & F3 & F4).
    change (data st3) with (data st) in F4. destruct (F4 ltac:(lia)) as [F5 _].
    change (pos st3) with (pos st) in F5. cbn [post]. pose proof (rel_mt _ _ F3).
    split; [|lia]. split; [exact F1|]. split; [lia|]. solve_rel.
  - destruct HL as (H1 & H2 & H3). assert (Hit : 0 <= it) by lia.
    assert (Hb4 : c + it <= it * (4 * (0 + blen (data st)) + 1)) by (rewrite Z.sub_0_r in *; lia). specialize (Htk it c Hit H2 Hb4).
    apply post_fail; [exact Hw2|solve_rel].
  - destruct HL as (H1 & H2 & H3). assert (Hit : 0 <= it) by lia.
    assert (Hb4 : c + it <= it * (4 * (0 + blen (data st)) + 1)) by (rewrite Z.sub_0_r in *; lia). specialize (Htk it c Hit H2 Hb4).
    apply post_fail; [exact Hw2|solve_rel].
Qed.

(** ---------- parseASCIIFast ---------- *)
Lemma close_ws_scan_spec bound : forall d nidx,
  match close_ws_scan bound d nidx with
  | SFound n => nidx < n <= nidx + blen d
  | SNo => True
  | SPanicked => nidx + blen d < bound
  end.
Proof.
  induction d as [|b t IH]; intros nidx; cbn [close_ws_scan].
  - destruct (nidx <? bound) eqn:E; [apply Z.ltb_lt in E; rewrite blen_nil; lia|exact I].
  - rewrite blen_cons. pose proof (blen_nonneg t). destruct (nidx <? bound); [|exact I].
    destruct (is_ws b).
    + specialize (IH (nidx + 1)). destruct (close_ws_scan bound t (nidx + 1)); try lia; exact I.
    + destruct (b =? 62); [lia|exact I].
Qed.

Lemma close_quote_spec bound d idx q : 0 <= idx ->
  match close_quote bound d idx q with
  | SFound n => idx < n <= blen d
  | SNo => True
  | SPanicked => blen d < bound
  end.
Proof.
  intros Hi. unfold close_quote. destruct ((idx + 1 >=? bound) || (idx >=? bound)) eqn:E; [exact I|].
  apply orb_false_iff in E. destruct E as [E1 E2]. rewrite Z.geb_leb in E1, E2. apply Z.leb_gt in E1, E2.
  destruct (nth_error d (Z.to_nat idx)) as [b|] eqn:En.
  - destruct (b =? q); [|exact I].
    assert (Hlt : (Z.to_nat idx < length d)%nat) by (apply nth_error_Some; rewrite En; discriminate).
    pose proof (close_ws_scan_spec bound (skipn (Z.to_nat idx + 1) d) (idx + 1)) as Hs.
    rewrite blen_skipn in Hs by lia. unfold blen in *.
    destruct (close_ws_scan bound (skipn (Z.to_nat idx + 1) d) (idx + 1)); try exact I; lia.
  - apply nth_error_None in En. unfold blen. lia.
Qed.

Lemma fast_loop_spec bound q : forall d i cost, 0 <= i ->
  match fast_loop bound q d i cost with
  | FFound i' n c' => i <= i' < n /\ n <= i + blen d /\ cost <= c' <= cost + blen d + 1
  | FNone c' => c' = cost + blen d
  | FPanicked => i + blen d < bound
  end.
Proof.
  induction d as [|b t IH]; intros i cost Hi; cbn [fast_loop].
  - rewrite blen_nil. lia.
  - rewrite blen_cons. pose proof (blen_nonneg t) as Ht.
    assert (Hrec : match fast_loop bound q t (i + 1) (cost + 1) with
                   | FFound i' n c' => i <= i' < n /\ n <= i + (blen t + 1) /\ cost <= c' <= cost + (blen t + 1) + 1
                   | FNone c' => c' = cost + (blen t + 1)
                   | FPanicked => i + (blen t + 1) < bound
                   end).
    { specialize (IH (i + 1) (cost + 1) ltac:(lia)). destruct (fast_loop bound q t (i + 1) (cost + 1)); lia. }
    destruct ((i + 1 >=? bound) || (i >=? bound)); [exact Hrec|].
    destruct (b =? q); [|exact Hrec].
    pose proof (close_ws_scan_spec bound t (i + 1)) as Hs.
    destruct (close_ws_scan bound t (i + 1)); [lia|exact Hrec|lia].
Qed.

Lemma parse_ascii_fast_spec size st : wf st ->
  post (parse_ascii_fast cf input plen size st)
       (fun _ st' => adv 4 0 st st' /\ pos st + 1 <= pos st')
       (fun st' => rel 4 0 st st').
Proof.
  intros Hw. unfold parse_ascii_fast.
  pose proof (next_nonspace_spec st Hw) as H1. dpost H1; [|contradiction (proj2 H1)].
  destruct H1 as [Ha1 Hr1].
  destruct (v =? 62) eqn:E62.
  { cbn. split; [solve_adv|]. destruct Hr1 as [Hr1|Hr1]; [|exact Hr1]. subst v. discriminate. }
  destruct (negb (is_quote v)) eqn:Eq; [apply post_fail; [apply Ha1|solve_rel]|].
  assert (Hp1 : pos st + 1 <= pos s).
  { destruct Hr1 as [Hr1|Hr1]; [|exact Hr1]. subst v. discriminate. }
  assert (Hqb : forall sx, wf sx -> blen (data sx) < quote_bound cf plen sx -> c_quote_fix cf = false).
  { intros sx Hx Hlt. unfold quote_bound in Hlt. destruct (c_quote_fix cf); [|reflexivity].
    rewrite (wf_remaining _ Hx) in Hlt. lia. }
  assert (Hfb : forall sx k, adv k 0 st sx -> k <= 2 -> pos st + 1 <= pos sx ->
     post (match fast_loop (quote_bound cf plen sx) v (data sx) 0 0 with
           | FFound i n cost => ROk (IAscii (firstn (Z.to_nat i) (data sx))) (fwd plen n (tick (cost + 1) sx))
           | FNone cost => fail input T_ascii_unclosed (tick (cost + 1) sx)
           | FPanicked => RPanic sx
           end)
          (fun _ st' => adv 4 0 st st' /\ pos st + 1 <= pos st') (fun st' => rel 4 0 st st')).
  { intros sx k Hx Hk Hpx. assert (Hwx : wf sx) by apply Hx.
    pose proof (wf_pos _ Hwx) as [Hpp Hll]. pose proof (blen_nonneg (data sx)) as Hdd.
    pose proof (fast_loop_spec (quote_bound cf plen sx) v (data sx) 0 0 ltac:(lia)) as HF.
    destruct (fast_loop (quote_bound cf plen sx) v (data sx) 0 0) as [i n c|c|].
    - destruct HF as (F1 & F2 & F3).
      assert (Hc : 0 <= c + 1 <= cost_bound) by (unfold cost_bound; lia).
      pose proof (adv_tick _ sx Hwx Hc) as Ht. pose proof (adv_fwd n _ (proj1 Ht) ltac:(lia)) as Hf.
      cbn. split; [solve_adv|break_adv; lia].
    - assert (Hc : 0 <= c + 1 <= cost_bound) by (unfold cost_bound; lia).
      pose proof (adv_tick _ sx Hwx Hc) as Ht. apply post_fail; [apply Ht|solve_rel].
    - cbn. apply (Hqb sx Hwx). lia. }
  cbn zeta.
  destruct (size >? 0) eqn:Esz; [|apply (Hfb s 1); [exact Ha1|lia|exact Hp1]].
  destruct (remaining plen s <? size + 2) eqn:Erem; [apply post_fail; [apply Ha1|solve_rel]|].
  apply Z.gtb_lt in Esz. apply Z.ltb_ge in Erem. rewrite (wf_remaining _ (proj1 Ha1)) in Erem.
  pose proof (close_quote_spec (quote_bound cf plen s) (data s) size v ltac:(lia)) as HC.
  destruct (close_quote (quote_bound cf plen s) (data s) size v) as [n| |].
  - pose proof (wf_pos _ (proj1 Ha1)) as [Hpp Hll].
    assert (Hc : 0 <= n - size + 1 <= cost_bound) by (unfold cost_bound; lia).
    pose proof (adv_tick _ s (proj1 Ha1) Hc) as Ht. pose proof (adv_fwd n _ (proj1 Ht) ltac:(lia)) as Hf.
    cbn. split; [solve_adv|break_adv; lia].
  - assert (Hc : 0 <= 1 <= cost_bound).
    { pose proof (wf_pos _ Hw). pose proof (blen_nonneg (data st)). unfold cost_bound. lia. }
    pose proof (adv_tick _ s (proj1 Ha1) Hc) as Ht.
    apply (Hfb (tick 1 s) 2); [solve_adv|lia|break_adv; cbn; lia].
  - cbn. apply (Hqb s (proj1 Ha1)). exact HC.
Qed.

(** parseJIS8 / parseLocalizedStr *)
Lemma parse_quoted_spec mk tq tu st : wf st ->
  post (parse_quoted input plen mk tq tu st)
       (fun _ st' => adv 2 0 st st' /\ pos st + 1 <= pos st')
       (fun st' => rel 2 0 st st').
Proof.
  intros Hw. unfold parse_quoted.
  pose proof (next_nonspace_spec st Hw) as H1. dpost H1; [|contradiction (proj2 H1)].
  destruct H1 as [Ha1 Hr1].
  destruct (v =? 62) eqn:E62.
  { cbn. split; [solve_adv|]. destruct Hr1 as [Hr1|Hr1]; [|exact Hr1]. subst v. discriminate. }
  destruct (negb (is_quote v)) eqn:Eq; [apply post_fail; [apply Ha1|solve_rel]|].
  assert (Hp1 : pos st + 1 <= pos s).
  { destruct Hr1 as [Hr1|Hr1]; [|exact Hr1]. subst v. discriminate. }
  cbn zeta. pose proof (wf_pos _ (proj1 Ha1)) as [Hpp Hll]. pose proof (blen_nonneg (data s)) as Hdd.
  pose proof (quoted_scan_bound v (data s) 0 0) as HQ.
  destruct (quoted_scan v (data s) 0 0) as [[lastq i]|].
  - specialize (HQ _ eq_refl ltac:(lia)). cbn [fst snd] in HQ.
    assert (Hc : 0 <= i + 1 <= cost_bound) by (unfold cost_bound; lia).
    pose proof (adv_tick _ s (proj1 Ha1) Hc) as Ht. pose proof (adv_fwd (i + 1) _ (proj1 Ht) ltac:(lia)) as Hf.
    cbn. split; [solve_adv|break_adv; lia].
  - assert (Hc : 0 <= remaining plen s + 1 <= cost_bound) by (unfold cost_bound, remaining; lia).
    pose proof (adv_tick _ s (proj1 Ha1) Hc) as Ht. apply post_fail; [apply Ht|solve_rel].
Qed.

(** ---------- the recursive part: parseItem / parseList ---------- *)

(** depth precondition: below the cap (when there is one) *)
Definition dpre (st : pst) : Prop := 0 <= depth st /\ forall d, c_depth_cap cf = Some d -> depth st <= d.

(** a successful recursive step: at least one byte consumed; at most 20 primitive calls (minus
    [slack]) and one allocation per byte consumed; depth changed by [dd] *)
Record good (slack dd : Z) (st st' : pst) : Prop := mkgood {
  g_wf : wf st';
  g_pos : pos st + 1 <= pos st';
  g_calls : calls st' + slack <= calls st + 20 * (pos st' - pos st);
  g_allocs : allocs st' <= allocs st + (pos st' - pos st);
  g_depth : depth st' = depth st + dd;
  g_minv : minv (mt st) -> minv (mt st') }.

(** a failed recursive step, in terms of the bytes that were left when it started *)
Record bad (e : Z) (st st' : pst) : Prop := mkbad {
  b_calls : calls st' <= calls st + 20 * (plen - pos st) + e;
  b_allocs : allocs st' <= allocs st + (plen - pos st) + 1;
  b_minv : minv (mt st) -> minv (mt st') }.

Lemma wf_le st : wf st -> pos st <= plen.
Proof. intros H. pose proof (wf_pos _ H). pose proof (blen_nonneg (data st)). lia. Qed.

(** every leaf body in one shape *)
Lemma leaf_body_spec (strict : bool) pf ty size st : wf st -> ty <> TList ->
  post (match ty with
        | TList => @RPanic item st
        | TAscii => if strict then parse_ascii_strict cf input plen size st else parse_ascii_fast cf input plen size st
        | TJis8 => parse_quoted input plen IJis8 T_jis8_quote T_jis8_unclosed st
        | TLocal => parse_quoted input plen ILocal T_local_quote T_local_unclosed st
        | _ => parse_value_item cf input plen pf ty size st
        end)
       (fun _ st' => adv (4 + (pos st' - pos st)) 1 st st')
       (fun st' => rel (4 + (plen - pos st)) 1 st st').
Proof.
  intros Hw Hty. pose proof (wf_le _ Hw) as Hle.
  assert (Hv : is_value_type ty = true ->
    post (parse_value_item cf input plen pf ty size st)
       (fun _ st' => adv (4 + (pos st' - pos st)) 1 st st') (fun st' => rel (4 + (plen - pos st)) 1 st st')).
  { intros Hvt. eapply post_weaken; [apply parse_value_item_spec; [exact Hw|exact Hvt]| |]; cbn beta.
    - intros _ s [Ha _]. destruct Ha as (A1 & A2 & A3). split; [exact A1|split; [exact A2|]].
      eapply rel_weaken; [exact A3|lia|lia].
    - intros s Hr. eapply rel_weaken; [exact Hr|lia|lia]. }
  assert (Hq : forall mk tq tu,
    post (parse_quoted input plen mk tq tu st)
       (fun _ st' => adv (4 + (pos st' - pos st)) 1 st st') (fun st' => rel (4 + (plen - pos st)) 1 st st')).
  { intros mk tq tu. eapply post_weaken; [apply parse_quoted_spec; exact Hw| |]; cbn beta.
    - intros _ s [Ha _]. destruct Ha as (A1 & A2 & A3). split; [exact A1|split; [exact A2|]].
      eapply rel_weaken; [exact A3|lia|lia].
    - intros s Hr. eapply rel_weaken; [exact Hr|lia|lia]. }
  destruct ty; try (apply Hv; reflexivity); try apply Hq; [contradiction|].
  destruct strict.
  - eapply post_weaken; [apply parse_ascii_strict_spec; exact Hw| |]; cbn beta.
    + intros _ s [Ha _]. destruct Ha as (A1 & A2 & A3). split; [exact A1|split; [exact A2|]].
      eapply rel_weaken; [exact A3|lia|lia].
    + intros s Hr. eapply rel_weaken; [exact Hr|lia|lia].
  - eapply post_weaken; [apply parse_ascii_fast_spec; exact Hw| |]; cbn beta.
    + intros _ s [Ha _]. destruct Ha as (A1 & A2 & A3). split; [exact A1|split; [exact A2|]].
      eapply rel_weaken; [exact A3|lia|lia].
    + intros s Hr. eapply rel_weaken; [exact Hr|lia|lia].
Qed.

Lemma enter_facts st :
  wf st -> wf (enter st) /\ pos (enter st) = pos st /\ calls (enter st) = calls st /\
  allocs (enter st) = allocs st /\ depth (enter st) = depth st + 1 /\
  (minv (mt st) -> dpre st -> minv (mt (enter st))).
Proof.
  intros Hw. repeat (split; [first [exact Hw|reflexivity]|]).
  unfold minv, dpre, depth, enter, with_mt. cbn [mt m_calls m_steps m_allocs m_alloc_sum m_alloc_max m_depth m_depth_max].
  intros (H1 & H2 & H3 & H4 & H5 & H6) [D1 D2].
  split; [exact H1|]. split; [exact H2|]. split; [exact H3|]. split; [exact H4|]. split; [lia|].
  intros d Hd. specialize (H6 d Hd). specialize (D2 d Hd). lia.
Qed.

Lemma leave_facts st :
  wf st -> wf (leave st) /\ pos (leave st) = pos st /\ calls (leave st) = calls st /\
  allocs (leave st) = allocs st /\ depth (leave st) = depth st - 1 /\
  (minv (mt st) -> 1 <= depth st -> minv (mt (leave st))).
Proof.
  intros Hw. repeat (split; [first [exact Hw|reflexivity]|]).
  unfold minv, depth, leave, with_mt. cbn [mt m_calls m_steps m_allocs m_alloc_sum m_alloc_max m_depth m_depth_max].
  intros (H1 & H2 & H3 & H4 & H5 & H6) D1.
  split; [exact H1|]. split; [exact H2|]. split; [exact H3|]. split; [exact H4|]. split; [lia|exact H6].
Qed.

Section Recursive.
Variable strict : bool.
Variable pf : Z -> bytes -> numres.

Ltac break_all :=
  repeat match goal with
  | H : adv _ _ _ _ |- _ => destruct H as (? & ? & ?)
  | H : rel _ _ _ _ |- _ => destruct H as [? ? ? ?]
  | H : good _ _ _ _ |- _ => destruct H as [? ? ? ? ? ?]
  | H : bad _ _ _ |- _ => destruct H as [? ? ?]
  | H : dpre _ |- _ => destruct H as [? ?]
  end.

Lemma parse_item_list_spec : forall fuel : nat,
  (forall st, wf st -> dpre st -> 2 * (plen - pos st) + 1 <= Z.of_nat fuel ->
     post (parse_item cf strict input plen pf fuel st)
          (fun _ st' => good 1 0 st st') (fun st' => bad 20 st st')) /\
  (forall acc st, wf st -> dpre st -> 1 <= depth st -> 2 * (plen - pos st) + 2 <= Z.of_nat fuel ->
     post (parse_list cf strict input plen pf fuel acc st)
          (fun _ st' => good 0 (-1) st st') (fun st' => bad 21 st st')).
Proof.
  induction fuel as [|f [IHi IHl]].
  { split.
    - intros st Hw _ Hf. pose proof (wf_le _ Hw). lia.
    - intros acc st Hw _ _ Hf. pose proof (wf_le _ Hw). lia. }
  split.
  - (* parseItem *)
    intros st Hw Hd Hf. pose proof (wf_le _ Hw) as Hle. cbn [parse_item].
    fold (parse_list cf strict input plen pf).
    pose proof (next_nonspace_spec st Hw) as H1. dpost H1; [|contradiction (proj2 H1)].
    destruct H1 as [Ha1 Hr1].
    destruct (negb (v =? 60)) eqn:E60.
    { apply post_fail; [apply Ha1|]. break_all. constructor; [lia|lia|intros; auto 30]. }
    assert (Hp1 : pos st + 1 <= pos s).
    { destruct Hr1 as [Hr1|Hr1]; [subst v; discriminate|exact Hr1]. }
    pose proof (parse_item_type_spec s (proj1 Ha1)) as [Ha2 Hty].
    destruct (parse_item_type plen s) as [o s2]. cbn [fst snd] in Ha2, Hty.
    destruct o as [ty|].
    2:{ apply post_fail; [apply Ha2|]. break_all. constructor; [lia|lia|intros; auto 30]. }
    specialize (Hty ty eq_refl).
    assert (Hp2 : pos s + 1 <= pos s2) by (destruct (two_char ty); lia).
    pose proof (parse_item_size_spec s2 (proj1 Ha2)) as H3. dpost H3.
    2:{ destruct H3 as [He Hq]. split; [exact He|]. break_all. constructor; [lia|lia|intros; auto 30]. }
    destruct H3 as (Hw3 & Hp3 & Hr3).
    pose proof (skip_comment_spec s0 Hw3) as Ha4. set (s4 := skip_comment plen s0) in *.
    assert (Hw4 : wf s4) by apply Ha4.
    pose proof (wf_le _ Hw4) as Hle4.
    (* every leaf: body, then the trailing skipComment *)
    assert (Hleaf : forall body : res item,
      post body (fun _ st' => adv (4 + (pos st' - pos s4)) 1 s4 st') (fun st' => rel (4 + (plen - pos s4)) 1 s4 st') ->
      post (do (it, st5) <- body; ROk it (skip_comment plen st5))
           (fun _ st' => good 1 0 st st') (fun st' => bad 20 st st')).
    { intros body Hb. dpost Hb.
      - pose proof (skip_comment_spec s1 (proj1 Hb)) as Ha6. break_all.
        constructor; [assumption|lia|lia|lia|lia|intros; auto 30].
      - destruct Hb as [He Hq]. split; [exact He|]. break_all. constructor; [lia|lia|intros; auto 30]. }
    destruct ty; try (apply Hleaf;
      match goal with |- post ?b _ _ =>
        first [ exact (leaf_body_spec strict pf TAscii v0 s4 Hw4 ltac:(discriminate))
              | exact (leaf_body_spec strict pf TJis8 v0 s4 Hw4 ltac:(discriminate))
              | exact (leaf_body_spec strict pf TLocal v0 s4 Hw4 ltac:(discriminate))
              | exact (leaf_body_spec strict pf TBoolean v0 s4 Hw4 ltac:(discriminate))
              | exact (leaf_body_spec strict pf TBinary v0 s4 Hw4 ltac:(discriminate))
              | exact (leaf_body_spec strict pf (TFloat w) v0 s4 Hw4 ltac:(discriminate))
              | exact (leaf_body_spec strict pf (TInt w) v0 s4 Hw4 ltac:(discriminate))
              | exact (leaf_body_spec strict pf (TUint w) v0 s4 Hw4 ltac:(discriminate)) ] end).
    (* the list *)
    destruct (enter_facts s4 Hw4) as (E1 & E2 & E3 & E4 & E5 & E6). set (s5 := enter s4) in *.
    assert (Hd4 : dpre s4). { break_all. split; [lia|]. intros d Hc. match goal with H : forall d, c_depth_cap cf = Some d -> _ |- _ => specialize (H d Hc) end. lia. }
    assert (E6' : minv (mt s4) -> minv (mt s5)) by (intros Hm; apply E6; [exact Hm|exact Hd4]).
    pose proof (rel_alloc v0 16 s5 E1 ltac:(right; right; reflexivity)) as Hal.
    set (s6 := alloc cf plen v0 16 s5) in *.
    assert (Hw6 : wf s6) by exact E1.
    assert (Hp6 : pos s6 = pos s4) by exact E2.
    assert (Hlist : dpre s6 ->
      post (do (it, st7) <- parse_list cf strict input plen pf f [] s6; ROk it (skip_comment plen st7))
           (fun _ st' => good 1 0 st st') (fun st' => bad 20 st st')).
    { intros Hd6.
      assert (Hdep6 : 1 <= depth s6). { break_all. change (depth s6) with (depth s5). lia. }
      assert (Hf6 : 2 * (plen - pos s6) + 2 <= Z.of_nat f).
      { break_all. lia. }
      pose proof (IHl [] s6 Hw6 Hd6 Hdep6 Hf6) as HL. dpost HL.
      - pose proof (skip_comment_spec s1 (g_wf _ _ _ _ HL)) as Ha8.
        break_all. constructor; [assumption|lia|lia|lia|lia|intros; auto 30].
      - destruct HL as [He Hq]. split; [exact He|].
        break_all. constructor; [lia|lia|intros; auto 30]. }
    change (m_depth (mt s5)) with (depth s5).
    destruct (c_depth_cap cf) as [dmax|] eqn:Ecap.
    + destruct (depth s5 >? dmax) eqn:Egt.
      * apply post_fail; [exact E1|]. break_all. constructor; [lia|lia|intros; auto 30].
      * apply Hlist. rewrite Z.gtb_ltb in Egt. apply Z.ltb_ge in Egt.
        split; [change (depth s6) with (depth s5); break_all; lia|].
        intros d Hc. rewrite Ecap in Hc. inversion Hc. subst d. exact Egt.
    + apply Hlist. split; [change (depth s6) with (depth s5); break_all; lia|]. intros d Hc. rewrite Ecap in Hc. discriminate.
  - (* parseList *)
    intros acc st Hw Hd Hdep Hf. pose proof (wf_le _ Hw) as Hle. cbn [parse_list].
    fold (parse_item cf strict input plen pf). fold (parse_list cf strict input plen pf).
    pose proof (peek_nonspace_spec st Hw) as [Ha1 Hch].
    destruct (peek_nonspace plen st) as [ch s1]. cbn [fst snd] in Ha1, Hch.
    destruct (ch =? 60).
    + assert (Hd1 : dpre s1). { break_all. split; [lia|]. intros d Hc. match goal with H : forall d, c_depth_cap cf = Some d -> _ |- _ => specialize (H d Hc) end. lia. }
      assert (Hf1 : 2 * (plen - pos s1) + 1 <= Z.of_nat f) by (break_all; lia).
      pose proof (IHi s1 (proj1 Ha1) Hd1 Hf1) as HI. dpost HI.
      * assert (Hd2 : dpre s). { break_all. split; [lia|]. intros d Hc. match goal with H : forall d, c_depth_cap cf = Some d -> _ |- _ => specialize (H d Hc) end. lia. }
        assert (Hdep2 : 1 <= depth s) by (break_all; lia).
        assert (Hf2 : 2 * (plen - pos s) + 2 <= Z.of_nat f) by (break_all; lia).
        pose proof (IHl (v :: acc) s (g_wf _ _ _ _ HI) Hd2 Hdep2 Hf2) as HL. dpost HL.
        -- break_all. constructor; [assumption|lia|lia|lia|lia|intros; auto 30].
        -- destruct HL as [He Hq]. split; [exact He|]. break_all. constructor; [lia|lia|intros; auto 30].
      * destruct HI as [He Hq]. split; [exact He|]. break_all. constructor; [lia|lia|intros; auto 30].
    + destruct (ch =? 62) eqn:E62.
      * apply Z.eqb_eq in E62. subst ch. destruct Hch as [Hch|[t Hch]]; [discriminate|].
        destruct (fwd_spec 1 s1 (proj1 Ha1) ltac:(lia)) as (F1 & F2 & F3 & F4).
        assert (Hl1 : 1 <= blen (data s1)) by (rewrite Hch, blen_cons; pose proof (blen_nonneg t); lia).
        destruct (F4 Hl1) as [F5 _]. pose proof (rel_mt _ _ F3) as Hrm.
        destruct (leave_facts (fwd plen 1 s1) F1) as (L1 & L2 & L3 & L4 & L5 & L6).
        cbn [post]. break_all. constructor; [assumption|lia|lia|lia|lia|].
        intros Hm. apply L6; [auto 30|lia].
      * destruct (ch =? eof); (apply post_fail; [apply Ha1|]); break_all; (constructor; [lia|lia|intros; auto 30]).
Qed.

End Recursive.

(** ---------- messages ---------- *)

(** what hsms.NewDataMessage checks: every message the parser returns went through it *)
Definition msg_valid (m : msg) : Prop :=
  m_stream m <= 127 /\ item_err (m_item m) = false /\ (m_wbit m = true -> m_function m mod 2 <> 0).

Lemma new_data_message_valid sv fv w it m : new_data_message sv fv w it = Some m -> msg_valid m.
Proof.
  unfold new_data_message, msg_valid. destruct (127 <? sv) eqn:E1; [discriminate|].
  destruct (item_err it) eqn:E2; [discriminate|]. destruct (w && (fv mod 2 =? 0)) eqn:E3; [discriminate|].
  intros H. inversion H. subst m. cbn [m_stream m_item m_wbit m_function].
  apply Z.ltb_ge in E1. split; [exact E1|]. split; [exact E2|].
  intros ->. cbn in E3. apply Z.eqb_neq in E3. exact E3.
Qed.

Section Top.
Variable strict : bool.
Variable pf : Z -> bytes -> numres.

Ltac break_all :=
  repeat match goal with
  | H : adv _ _ _ _ |- _ => destruct H as (? & ? & ?)
  | H : rel _ _ _ _ |- _ => destruct H as [? ? ? ?]
  | H : good _ _ _ _ |- _ => destruct H as [? ? ? ? ? ?]
  | H : bad _ _ _ |- _ => destruct H as [? ? ?]
  | H : dpre _ |- _ => destruct H as [? ?]
  end.

(** a step of the message level: never backwards; 20 calls and one allocation per byte consumed
    plus a constant [c]; depth unchanged *)
Record step (c : Z) (st st' : pst) : Prop := mkstep {
  s_wf : wf st';
  s_pos : pos st <= pos st';
  s_calls : calls st' <= calls st + 20 * (pos st' - pos st) + c;
  s_allocs : allocs st' <= allocs st + (pos st' - pos st);
  s_depth : depth st' = depth st;
  s_minv : minv (mt st) -> minv (mt st') }.

Lemma dpre_eq st st' : dpre st -> depth st' = depth st -> dpre st'.
Proof. intros [D1 D2] E. split; [lia|]. intros d Hc. specialize (D2 d Hc). lia. Qed.

Lemma parse_text_spec fuel st : wf st -> dpre st -> 2 * plen + 1 <= Z.of_nat fuel ->
  post (parse_text cf strict input plen pf fuel st)
       (fun _ st' => step 3 st st') (fun st' => bad 23 st st').
Proof.
  intros Hw Hd Hf. pose proof (wf_le _ Hw) as Hle. unfold parse_text.
  pose proof (skip_comment_spec st Hw) as Ha1. set (s1 := skip_comment plen st) in *.
  pose proof (peek_nonspace_spec s1 (proj1 Ha1)) as [Ha2 _].
  destruct (peek_nonspace plen s1) as [ch s2]. cbn [fst snd] in Ha2.
  destruct (ch =? 46).
  - cbn [post]. break_all. constructor; [assumption|lia|lia|lia|lia|intros; auto 30].
  - assert (Hd2 : dpre s2) by (apply (dpre_eq st); [exact Hd|break_all; lia]).
    assert (Hp2 : 0 <= pos s2) by (apply (wf_pos _ (proj1 Ha2))).
    pose proof (proj1 (parse_item_list_spec strict pf fuel) s2 (proj1 Ha2) Hd2 ltac:(lia)) as HI.
    dpost HI.
    + break_all. constructor; [assumption|lia|lia|lia|lia|intros; auto 30].
    + destruct HI as [He Hq]. split; [exact He|]. break_all. constructor; [lia|lia|intros; auto 30].
Qed.

Lemma parse_msg_spec fuel ho st : wf st -> dpre st -> 2 * plen + 1 <= Z.of_nat fuel ->
  post (parse_msg cf strict input plen pf fuel ho st)
       (fun m st' => step 17 st st' /\ (m <> None -> pos st + 1 <= pos st') /\
                     (forall m', m = Some m' -> msg_valid m'))
       (fun st' => bad 40 st st').
Proof.
  intros Hw Hd Hf. pose proof (wf_le _ Hw) as Hle. unfold parse_msg.
  pose proof (skip_comment_spec st Hw) as Ha1. set (s1 := skip_comment plen st) in *.
  pose proof (peek_nonspace_spec s1 (proj1 Ha1)) as [Ha2 _].
  destruct (peek_nonspace plen s1) as [ch s2]. cbn [fst snd] in Ha2.
  destruct (ch =? eof).
  { cbn [post]. split; [|split; [intros H; contradiction H; reflexivity|intros m' H; discriminate]].
    break_all. constructor; [assumption|lia|lia|lia|lia|intros; auto 30]. }
  pose proof (parse_header_spec s2 (proj1 Ha2)) as H3. dpost H3.
  2:{ destruct H3 as [He Hq]. split; [exact He|]. break_all. constructor; [lia|lia|intros; auto 30]. }
  destruct H3 as [Ha3 Hp3]. destruct v as [[sv fv] w].
  destruct ho.
  - destruct (new_data_message sv fv w IEmpty) eqn:En.
    + cbn [post]. split; [|split; [intros _; break_all; lia|intros m' Hm; inversion Hm; subst m'; eapply new_data_message_valid; exact En]].
      break_all. constructor; [assumption|lia|lia|lia|lia|intros; auto 30].
    + cbn [post]. split; [exact I|]. break_all. constructor; [lia|lia|intros; auto 30].
  - assert (Hd3 : dpre s) by (apply (dpre_eq st); [exact Hd|break_all; lia]).
    pose proof (parse_text_spec fuel s (proj1 Ha3) Hd3 Hf) as H4. dpost H4.
    2:{ destruct H4 as [He Hq]. split; [exact He|]. break_all. constructor; [lia|lia|intros; auto 30]. }
    pose proof (wf_le _ (s_wf _ _ _ H4)) as Hle0.
    pose proof (next_nonspace_spec s0 (s_wf _ _ _ H4)) as H5. dpost H5; [|contradiction (proj2 H5)].
    destruct H5 as [Ha5 _]. pose proof (wf_le _ (proj1 Ha5)) as Hle1.
    destruct (negb (v0 =? 46)).
    { apply post_fail; [apply Ha5|]. destruct H4. break_all. constructor; [lia|lia|intros; auto 30]. }
    destruct (new_data_message sv fv w v) eqn:En.
    + cbn [post]. split; [|split; [intros _; destruct H4; break_all; lia|intros m' Hm; inversion Hm; subst m'; eapply new_data_message_valid; exact En]].
      destruct H4. break_all. constructor; [assumption|lia|lia|lia|lia|intros; auto 30].
    + cbn [post]. split; [exact I|]. destruct H4. break_all. constructor; [lia|lia|intros; auto 30].
Qed.

(** what the whole run guarantees about the final state, whatever the outcome *)
Definition final_ok (st st' : pst) : Prop :=
  calls st' <= calls st + 40 * (plen - pos st) + 40 /\
  allocs st' <= allocs st + (plen - pos st) + 1 /\
  (minv (mt st) -> minv (mt st')).

Lemma parse_loop_spec ifuel : 2 * plen + 1 <= Z.of_nat ifuel ->
  forall fuel acc st, wf st -> dpre st -> (plen - pos st) + 1 <= Z.of_nat fuel -> Forall msg_valid acc ->
  post (parse_loop cf strict input plen pf fuel ifuel acc st)
       (fun ms st' => final_ok st st' /\ Forall msg_valid ms) (fun st' => final_ok st st').
Proof.
  intros Hif. induction fuel as [|f IH]; intros acc st Hw Hd Hf Hacc; pose proof (wf_le _ Hw) as Hle; [lia|].
  cbn [parse_loop].
  pose proof (parse_msg_spec ifuel false st Hw Hd Hif) as HM. dpost HM.
  2:{ destruct HM as [He Hq]. split; [exact He|]. destruct Hq. split; [lia|split; [lia|assumption]]. }
  destruct HM as (Hs & Hp & Hv). destruct v as [m|].
  - specialize (Hp ltac:(discriminate)). specialize (Hv m eq_refl).
    assert (Hd1 : dpre s) by (apply (dpre_eq st); [exact Hd|apply Hs]).
    pose proof (IH (m :: acc) s (s_wf _ _ _ Hs) Hd1 ltac:(lia) ltac:(constructor; assumption)) as HL.
    destruct Hs. eapply post_weaken; [exact HL| |]; cbn beta.
    + intros ms s' [(F1 & F2 & F3) F4]. split; [|exact F4]. split; [lia|split; [lia|auto]].
    + intros s' (F1 & F2 & F3). split; [lia|split; [lia|auto]].
  - cbn [post]. pose proof (wf_le _ (s_wf _ _ _ Hs)). destruct Hs.
    split; [split; [lia|split; [lia|assumption]]|]. apply Forall_rev. exact Hacc.
Qed.

End Top.

(** ---------- the initial state ---------- *)
Lemma wf_init : wf (init_state input).
Proof. split; reflexivity. Qed.

Definition cap_ok : Prop := forall d, c_depth_cap cf = Some d -> 0 <= d.

Lemma dpre_init : cap_ok -> dpre (init_state input).
Proof. intros H. split; [cbn; lia|]. intros d Hc. specialize (H d Hc). cbn. lia. Qed.

Lemma minv_init : cap_ok -> minv meters0.
Proof.
  intros H. unfold minv, meters0, alloc_bound, cost_bound.
  cbn [m_calls m_steps m_allocs m_alloc_sum m_alloc_max m_depth m_depth_max].
  pose proof (blen_nonneg input).
  split; [lia|]. split; [lia|]. split; [lia|]. split; [intros _; lia|]. split; [lia|].
  intros d Hc. specialize (H d Hc). lia.
Qed.

End Proofs.
