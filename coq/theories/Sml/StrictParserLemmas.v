(** Stepping lemmas for the strict parser model: what each primitive of Sml/StrictParser.v does on
    input of a known shape. A parser state is always [mkst pre d] with [input = pre ++ d]. *)
From Coq Require Import ZArith List Lia Bool ZifyBool.
From GoSecs Require Import Base.Decimal Base.DecimalProofs Base.Utf8 Sml.Syntax Sml.Encoder
  Sml.StrictAscii Sml.StrictAsciiProofs Sml.StrictParser.
Import ListNotations.
Open Scope Z_scope.

(** normalise nested appends/conses to right-nested form *)
Ltac lnorm := repeat (progress (cbn [app]; rewrite <- ?app_assoc)).
Ltac lsolve H := rewrite H; lnorm; reflexivity.

Definition mkst (pre d : bytes) : pst := {| pos := blen pre; data := d |}.

Definition is_ws (b : Z) : Prop := is_sml_space b = true.

Lemma skipn_blen_app (a b : bytes) : skipn (Z.to_nat (blen a)) (a ++ b) = b.
Proof.
  unfold blen. rewrite Nat2Z.id. rewrite skipn_app, skipn_all, Nat.sub_diag. reflexivity.
Qed.

Lemma firstn_blen_app (a b : bytes) : firstn (Z.to_nat (blen a)) (a ++ b) = a.
Proof.
  unfold blen. rewrite Nat2Z.id. rewrite firstn_app, firstn_all, Nat.sub_diag. cbn [firstn].
  apply app_nil_r.
Qed.

Section Steps.
  Variable input : bytes.

  Lemma forward_app pre a b : input = pre ++ a ++ b ->
    forward input (blen a) (mkst pre (a ++ b)) = mkst (pre ++ a) b.
  Proof.
    intros Hin. unfold forward, mkst. cbn [pos data].
    assert (blen pre + blen a <=? ilen input = true) as ->.
    { unfold ilen. rewrite Hin, !blen_app. pose proof (blen_nonneg b). lia. }
    f_equal; [rewrite blen_app; reflexivity|apply skipn_blen_app].
  Qed.

  Lemma forward_1 pre c t : input = pre ++ c :: t ->
    forward input 1 (mkst pre (c :: t)) = mkst (pre ++ [c]) t.
  Proof. intros Hin. apply (forward_app pre [c] t). exact Hin. Qed.

  Lemma forward_2 pre c1 c2 t : input = pre ++ c1 :: c2 :: t ->
    forward input 2 (mkst pre (c1 :: c2 :: t)) = mkst (pre ++ [c1; c2]) t.
  Proof. intros Hin. apply (forward_app pre [c1; c2] t). exact Hin. Qed.

  Lemma backward_1 pre c t : input = pre ++ c :: t ->
    backward input 1 (mkst (pre ++ [c]) t) = mkst pre (c :: t).
  Proof.
    intros Hin. unfold backward, mkst. cbn [pos data]. rewrite blen_app, blen_cons, blen_nil.
    pose proof (blen_nonneg pre).
    assert (blen pre + (1 + 0) - 1 >=? 0 = true) as -> by lia.
    replace (blen pre + (1 + 0) - 1) with (blen pre) by lia.
    f_equal. rewrite Hin. apply skipn_blen_app.
  Qed.

  (** ---------- whitespace ---------- *)
  Lemma drop_spaces_ws ws c t : Forall is_ws ws -> is_sml_space c = false ->
    forall n, drop_spaces (ws ++ c :: t) n = (n + blen ws, c :: t).
  Proof.
    intros F NC. induction F as [|b ws Hb _ IH]; intros n.
    - cbn [app drop_spaces]. rewrite NC. rewrite blen_nil. f_equal. lia.
    - cbn [app drop_spaces]. unfold is_ws in Hb. rewrite Hb. rewrite IH. rewrite blen_cons. f_equal. lia.
  Qed.

  Lemma skip_space_ws pre ws c t : input = pre ++ ws ++ c :: t ->
    Forall is_ws ws -> is_sml_space c = false ->
    skip_space input (mkst pre (ws ++ c :: t)) = (mkst (pre ++ ws) (c :: t), true).
  Proof.
    intros Hin F NC. unfold skip_space. cbn [data mkst].
    rewrite (drop_spaces_ws ws c t F NC 0). cbn [Z.add].
    rewrite forward_app by exact Hin. reflexivity.
  Qed.

  Lemma skip_space_here pre c t : input = pre ++ c :: t -> is_sml_space c = false ->
    skip_space input (mkst pre (c :: t)) = (mkst pre (c :: t), true).
  Proof.
    intros Hin NC. pose proof (skip_space_ws pre [] c t Hin (Forall_nil _) NC) as H.
    cbn [app] in H. rewrite app_nil_r in H. exact H.
  Qed.

  Lemma peek_ns_ws pre ws c t : input = pre ++ ws ++ c :: t ->
    Forall is_ws ws -> is_sml_space c = false ->
    peek_ns input (mkst pre (ws ++ c :: t)) = (mkst (pre ++ ws) (c :: t), c).
  Proof. intros Hin F NC. unfold peek_ns. rewrite skip_space_ws by assumption. reflexivity. Qed.

  Lemma next_rune_cons pre c t : input = pre ++ c :: t ->
    next_rune input (mkst pre (c :: t)) = (mkst (pre ++ [c]) t, c).
  Proof.
    intros Hin. unfold next_rune. cbn [pos data mkst].
    assert (blen pre >=? ilen input = false) as ->.
    { unfold ilen. rewrite Hin, blen_app, blen_cons. pose proof (blen_nonneg t). lia. }
    fold (mkst pre (c :: t)). rewrite forward_1 by exact Hin. reflexivity.
  Qed.

  Lemma next_ns_ws pre ws c t : input = pre ++ ws ++ c :: t ->
    Forall is_ws ws -> is_sml_space c = false ->
    next_ns input (mkst pre (ws ++ c :: t)) = (mkst (pre ++ ws ++ [c]) t, c).
  Proof.
    intros Hin F NC. unfold next_ns. rewrite skip_space_ws by assumption.
    rewrite next_rune_cons by (rewrite Hin, <- app_assoc; reflexivity).
    rewrite <- app_assoc. reflexivity.
  Qed.

  (** skipComment when what follows the spaces is not a slash *)
  Lemma skip_comment_ws pre ws c t : input = pre ++ ws ++ c :: t ->
    Forall is_ws ws -> is_sml_space c = false -> c <> 47 ->
    skip_comment input (mkst pre (ws ++ c :: t)) = mkst (pre ++ ws) (c :: t).
  Proof.
    intros Hin F NC N47. unfold skip_comment. rewrite skip_space_ws by assumption.
    cbn [negb data mkst]. destruct t as [|b t']; [reflexivity|].
    replace (c =? 47) with false by lia. reflexivity.
  Qed.

  (** ---------- numbers ---------- *)
  Lemma span_digits_app ds c t : Forall (fun d => is_digit d = true) ds -> is_digit c = false ->
    span_digits (ds ++ c :: t) = (ds, c :: t).
  Proof.
    intros F NC. induction F as [|d ds Hd _ IH]; cbn [app span_digits].
    - rewrite NC. reflexivity.
    - rewrite Hd, IH. reflexivity.
  Qed.

  Lemma format_uint_digits n : 0 <= n -> Forall (fun d => is_digit d = true) (format_uint n).
  Proof.
    intros Hn. destruct (format_uint_spec n Hn) as (ds & E & _ & F & _). rewrite E.
    eapply Forall_impl; [|exact F]. intros a Ha. apply (digit_lt_is_digit 10); [lia|exact Ha].
  Qed.

  Lemma format_int_nonneg n : 0 <= n -> format_int n = format_uint n.
  Proof. intros H. unfold format_int. replace (n <? 0) with false by lia. reflexivity. Qed.

  (** nextCode / nextItemSize on the decimal text of [n] followed by a non-digit *)
  Lemma next_number_format bits e pre n c t : input = pre ++ format_int n ++ c :: t ->
    0 <= n -> n <= 2 ^ bits - 1 -> 0 <= bits -> n <= 2147483647 -> is_digit c = false ->
    next_number input bits e (mkst pre (format_int n ++ c :: t)) = POk n (mkst (pre ++ format_int n) (c :: t)).
  Proof.
    intros Hin H0 H1 Hb H2 NC. unfold next_number. cbn [pos data mkst].
    assert (blen pre >=? ilen input = false) as ->.
    { unfold ilen. rewrite Hin, !blen_app, blen_cons. pose proof (blen_nonneg t). pose proof (blen_nonneg (format_int n)). lia. }
    rewrite format_int_nonneg in * by exact H0.
    rewrite span_digits_app by (try apply format_uint_digits; assumption).
    rewrite parse_uint_format by lia.
    replace ((bits =? 32) && (n >? 2147483647)) with false by lia.
    fold (mkst pre (format_uint n ++ c :: t)). rewrite forward_app by exact Hin. reflexivity.
  Qed.

  (** ---------- byte searches ---------- *)
  Lemma index_byte_from_app c a t : ~ In c a -> forall i,
    index_byte_from c (a ++ c :: t) i = Some (i + blen a).
  Proof.
    induction a as [|b a IH]; intros NI i; cbn [app index_byte_from].
    - rewrite Z.eqb_refl. rewrite blen_nil. f_equal. lia.
    - assert (b =? c = false) as -> by (apply Z.eqb_neq; intros E; apply NI; left; exact E).
      rewrite IH by (intros I; apply NI; right; exact I). rewrite blen_cons. f_equal. lia.
  Qed.

  Lemma index_byte_app c a t : ~ In c a -> index_byte c (a ++ c :: t) = Some (blen a).
  Proof. intros NI. unfold index_byte. rewrite index_byte_from_app by exact NI. reflexivity. Qed.

  Lemma index_byte_none c a : ~ In c a -> index_byte c a = None.
  Proof.
    unfold index_byte. generalize 0. induction a as [|b a IH]; intros i NI; cbn [index_byte_from].
    - reflexivity.
    - assert (b =? c = false) as -> by (apply Z.eqb_neq; intros E; apply NI; left; exact E).
      apply IH. intros I; apply NI; right; exact I.
  Qed.
End Steps.
