(** C13: the message-level statements for the encoder as it is and for the repaired encoder,
    the refutation witnesses, and the item-level readback used by C15. *)
From Coq Require Import ZArith List Lia Bool ZifyBool.
From GoSecs Require Import Base.Decimal Base.DecimalProofs Base.Utf8 Sml.Syntax Sml.Encoder Sml.ToSml
  Sml.ToSmlProofs Sml.StrictAscii Sml.StrictAsciiProofs Sml.StrictParser Sml.StrictParserLemmas
  Sml.StrictUtf8Proofs Sml.StrictRoundtripDefs Sml.StrictRoundtripLeaves Sml.StrictRoundtripItems
  Sml.StrictRoundtrip Sml.StrictRoundtripMsg.
Import ListNotations.
Open Scope Z_scope.

(** the tree walk depends on the strict writer only through its values *)
Lemma encode_item_w_ext wsa1 wsa2 ffmt quote o : (forall q s, wsa1 q s = wsa2 q s) ->
  forall x level, encode_item_w wsa1 ffmt quote o level x = encode_item_w wsa2 ffmt quote o level x.
Proof.
  intros E. induction x as [|cs IH|s|s|s|bs|vs|w vs|w vs|w vs] using item_ind'; intros level; try reflexivity.
  - cbn [encode_item_w]. destruct cs as [|c cs']; [reflexivity|].
    do 5 f_equal. apply flat_map_ext_Forall.
    eapply Forall_impl; [|exact IH]. cbv beta. intros a Ha. rewrite !Ha. reflexivity.
  - cbn [encode_item_w]. unfold encode_string. destruct (eo_strict o); [rewrite E|]; reflexivity.
Qed.

Lemma encode_msg_as_gen ffmt quote o m :
  encode_msg ffmt quote o m = encode_msg_w (write_strict_ascii_gen true) ffmt quote o m.
Proof.
  unfold encode_msg, encode_msg_w. do 2 f_equal. f_equal.
  apply encode_item_w_ext. intros q s. apply write_strict_gen_true.
Qed.

Section Final.
  Variable ffmt : fwidth -> Z -> bytes.
  Variable quote : bytes -> bytes.
  Variable fparse : fwidth -> bytes -> option Z.
  Variable quote_plain : bytes -> bool.
  Variable narrow32 : Z -> Z.
  Hypothesis ffmt_good : forall w v, fdom w v = true -> good_tok (ffmt w v) = true.
  Hypothesis float_roundtrip : forall w v, fdom w v = true ->
    exists v', fparse w (ffmt w v) = Some v' /\ feq narrow32 w v v'.
  Hypothesis quote_law : forall s, quote_plain s = true -> quote s = c_dq :: s ++ [c_dq].

  (** the encoder AS IT IS: every message of the grammar whose ASCII items hold no closing
      bracket ([dom_msg false]), every option combination *)
  Theorem encode_parse_current : forall o m,
    opts_ok o = true -> dom_msg true quote_plain m = true ->
    exists m' st, parse_strict fparse (encode_msg ffmt quote o m) = POk [m'] st /\ msg_eqv narrow32 m m'.
  Proof.
    intros o m Ho Dm. rewrite encode_msg_as_gen.
    exact (encode_parse_msg true ffmt quote fparse quote_plain narrow32 ffmt_good float_roundtrip quote_law o Ho m Dm).
  Qed.

  (** the REPAIRED encoder: ASCII items with all 256 byte values ([dom_msg true]) *)
  Theorem encode_parse_fixed : forall o m,
    opts_ok o = true -> dom_msg true quote_plain m = true ->
    exists m' st, parse_strict fparse (encode_msg_w write_strict_ascii_fixed ffmt quote o m) = POk [m'] st
                  /\ msg_eqv narrow32 m m'.
  Proof.
    intros o m Ho Dm.
    exact (encode_parse_msg true ffmt quote fparse quote_plain narrow32 ffmt_good float_roundtrip quote_law o Ho m Dm).
  Qed.

  (** item-level readback for C15: what either renderer writes for a numeric, boolean or binary
      item (default options) is read back by the parser as the same values, wherever the item
      stands (after any whitespace, before any whitespace and a character that starts no comment) *)
  Definition value_leaf_item (x : item) : bool :=
    match x with IBinary _ | IBoolean _ | IInt _ _ | IUint _ _ | IFloat _ _ => true | _ => false end.

  Definition strict_default : enc_opts :=
    {| eo_strict := true; eo_ascii_single := false; eo_sf_quote := 0; eo_binary_literal := false; eo_indent := [32; 32] |}.

  Theorem readback_default : forall x, value_leaf_item x = true -> dom_item false quote_plain x = true ->
    forall input dp pre ws ws' c rest',
      dp <= max_list_depth -> Forall is_ws ws -> Forall is_ws ws' -> follow c ->
      input = pre ++ ws ++ encode_default ffmt quote x ++ ws' ++ c :: rest' ->
      exists x' q,
        parse_item fparse input 1 dp (mkst pre (ws ++ encode_default ffmt quote x ++ ws' ++ c :: rest'))
        = POk x' (mkst q (c :: rest')) /\ input = q ++ c :: rest' /\ item_eqv narrow32 x x'.
  Proof.
    intros x VL D input dp pre ws ws' c rest' Hdp Fws Fws' Fc Hin.
    assert (Ho : opts_ok strict_default = true) by reflexivity.
    pose proof (reads_all false ffmt quote fparse quote_plain narrow32 ffmt_good float_roundtrip quote_law
                  strict_default Ho input x D) as RB.
    assert (E : enc_body (write_strict_ascii_gen false) ffmt quote strict_default O x = encode_default ffmt quote x).
    { destruct x; try discriminate; reflexivity. }
    unfold reads_back in RB. specialize (RB 1%nat dp O pre ws ws' c rest').
    rewrite E in RB. apply RB; try assumption.
    - destruct x; try discriminate; cbn [depth]; lia.
    - destruct x; try discriminate; cbn [depth]; lia.
  Qed.
End Final.

(** ---------- refutations (the faithful model exhibits the defects) ---------- *)

Definition strict_opts0 : enc_opts :=
  {| eo_strict := true; eo_ascii_single := false; eo_sf_quote := 0; eo_binary_literal := false; eo_indent := [32; 32] |}.

(** finding C13-localized-quote: a localized string that strconv.Quote escapes is read back with
    the escape spelled out. Witness U+00A0 (bytes C2 A0), which is no quote, backslash, angle
    bracket or control character; the premise is what strconv.Quote returns for it. *)
Definition msg_nbsp : msg := {| m_stream := 1; m_function := 1; m_wbit := false; m_body := ILocal [194; 160] |}.

Theorem encode_parse_localized_refuted :
  forall ffmt quote fparse,
    quote [194; 160] = [34; 92; 117; 48; 48; 97; 48; 34] ->
    exists st, parse_strict fparse (encode_msg ffmt quote strict_opts0 msg_nbsp)
               = POk [{| m_stream := 1; m_function := 1; m_wbit := false;
                         m_body := ILocal [92; 117; 48; 48; 97; 48] |}] st.
Proof.
  intros ffmt quote fparse Q. eexists.
  unfold encode_msg, encode_msg_w, msg_nbsp, m_body. cbn [encode_item_w]. rewrite Q.
  vm_compute. reflexivity.
Qed.

(** finding C13-depth-cap: since fix 95562b6 (C14) the parser refuses list nesting beyond
    secs2.MaxListDepth = 64, while the encoder renders any depth. Witness: 65 nested lists around
    an empty binary item — an item of the grammar in every other respect; the strict parser
    rejects its strict text with the nesting error. 64 levels are read back (Properties/C13.v). *)
Fixpoint nest (n : nat) (x : item) : item :=
  match n with O => x | S k => IList [nest k x] end.

Definition msg_deep (n : nat) : msg :=
  {| m_stream := 1; m_function := 1; m_wbit := false; m_body := nest n (IBinary []) |}.

Theorem encode_parse_depth_refuted :
  forall ffmt quote fparse quote_plain,
    opts_ok strict_opts0 = true /\
    dom_item true quote_plain (m_body (msg_deep 65)) = true /\ depth (m_body (msg_deep 65)) = 65%nat /\
    exists off, parse_strict fparse (encode_msg ffmt quote strict_opts0 (msg_deep 65)) = PErr PE_Depth off.
Proof.
  intros. split; [reflexivity|]. split; [vm_compute; reflexivity|]. split; [vm_compute; reflexivity|].
  eexists. vm_compute. reflexivity.
Qed.
