(** Tie theorems of translator v2 (family: hsms header packing, framing, decode entry points, system bytes — C03, C04, C06, C07, C08): each states that a function REGENERATED from the
    current Go source ([Gen/Gen2.v], byte-slice code with loops, panics explicit as [GPanic]) equals
    the hand-written model function the property theorems are about. Only [exact] + [Print Assumptions]. *)
From Coq Require Import String.
From Coq Require Import ZArith Bool List Lia.
From GoSecs Require Import Base.GoInt Base.BytesBE Base.GoSlice Gen.Gen2.
From GoSecs Require Hsms.Header Hsms.Frame Hsms.Responder Gen.Bridge2Frames Gen.Bridge2FramesDecode.
Import ListNotations.
Open Scope Z_scope.

(** * C03 / C06 (and the session models of C04/C05/C08) — hsms header packing and framing.
    Statements are those of Gen/Bridge2Frames.v: [cm_of] / [dm_of] read a model message as a non-nil
    Go pointer, [sbl] reads a System Bytes tuple as a [[4]byte]. *)
Module TieHsms.
Import Hsms.Header Hsms.Frame Gen.Bridge2Frames.

Theorem tie_hsms_IsValidSType : forall b,
  0 <= b < 256 -> Gen2.hsms.IsValidSType b = GOk (valid_stype b).
Proof. exact bridge_IsValidSType. Qed.
Print Assumptions tie_hsms_IsValidSType.

Theorem tie_hsms_ToSystemBytes : forall id,
  Gen2.hsms.ToSystemBytes id = GOk (sbl (to_system_bytes id)).
Proof. exact bridge_ToSystemBytes. Qed.
Print Assumptions tie_hsms_ToSystemBytes.

Theorem tie_hsms_FromSystemBytes : forall sb,
  Gen2.hsms.FromSystemBytes (sbl sb) = GOk (from_system_bytes sb).
Proof. exact bridge_FromSystemBytes. Qed.
Print Assumptions tie_hsms_FromSystemBytes.

Theorem tie_hsms_ControlMessage_Type : forall c,
  0 <= h5 (c_hdr c) < 256 ->
  Gen2.hsms.ControlMessage_Type (cm_of c) = GOk (ctrl_type c).
Proof. exact bridge_ControlMessage_Type. Qed.
Print Assumptions tie_hsms_ControlMessage_Type.

Theorem tie_hsms_ControlMessage_SessionID : forall c,
  Gen2.hsms.ControlMessage_SessionID (cm_of c) = GOk (session_id (c_hdr c)).
Proof. exact bridge_ControlMessage_SessionID. Qed.
Print Assumptions tie_hsms_ControlMessage_SessionID.

Theorem tie_hsms_ControlMessage_SystemBytes : forall c,
  Gen2.hsms.ControlMessage_SystemBytes (cm_of c) = GOk (sbl (system_bytes (c_hdr c))).
Proof. exact bridge_ControlMessage_SystemBytes. Qed.
Print Assumptions tie_hsms_ControlMessage_SystemBytes.

Theorem tie_hsms_ControlMessage_HeaderBytes : forall c,
  Gen2.hsms.ControlMessage_HeaderBytes (cm_of c) = GOk (hdr_bytes (c_hdr c)).
Proof. exact bridge_ControlMessage_HeaderBytes. Qed.
Print Assumptions tie_hsms_ControlMessage_HeaderBytes.

Theorem tie_hsms_ControlMessage_WaitBit : forall c,
  Gen2.hsms.ControlMessage_WaitBit (cm_of c) = GOk (c_reply c).
Proof. exact bridge_ControlMessage_WaitBit. Qed.
Print Assumptions tie_hsms_ControlMessage_WaitBit.

Theorem tie_hsms_ControlMessage_ID : forall c,
  Gen2.hsms.ControlMessage_ID (cm_of c) = GOk (msg_id (c_hdr c)).
Proof. exact bridge_ControlMessage_ID. Qed.
Print Assumptions tie_hsms_ControlMessage_ID.

Theorem tie_hsms_ControlMessage_ToBytes : forall c,
  Gen2.hsms.ControlMessage_ToBytes (cm_of c) = GOk (ctrl_to_bytes c).
Proof. exact bridge_ControlMessage_ToBytes. Qed.
Print Assumptions tie_hsms_ControlMessage_ToBytes.

Theorem tie_hsms_ControlMessage_WithSessionID : forall c id,
  Gen2.hsms.ControlMessage_WithSessionID (cm_of c) id = GOk (cm_of (c_with_session_id c id)).
Proof. exact bridge_ControlMessage_WithSessionID. Qed.
Print Assumptions tie_hsms_ControlMessage_WithSessionID.

Theorem tie_hsms_ControlMessage_WithSystemBytes : forall c sb,
  Gen2.hsms.ControlMessage_WithSystemBytes (cm_of c) (sbl sb) = GOk (cm_of (c_with_system_bytes c sb)).
Proof. exact bridge_ControlMessage_WithSystemBytes. Qed.
Print Assumptions tie_hsms_ControlMessage_WithSystemBytes.

Theorem tie_hsms_NewSelectReq : forall sid sb,
  Gen2.hsms.NewSelectReq sid (sbl sb) = GOk (cm_of (new_select_req sid sb)).
Proof. exact bridge_NewSelectReq. Qed.
Print Assumptions tie_hsms_NewSelectReq.

Theorem tie_hsms_NewDeselectReq : forall sid sb,
  Gen2.hsms.NewDeselectReq sid (sbl sb) = GOk (cm_of (new_deselect_req sid sb)).
Proof. exact bridge_NewDeselectReq. Qed.
Print Assumptions tie_hsms_NewDeselectReq.

Theorem tie_hsms_NewSeparateReq : forall sid sb,
  Gen2.hsms.NewSeparateReq sid (sbl sb) = GOk (cm_of (new_separate_req sid sb)).
Proof. exact bridge_NewSeparateReq. Qed.
Print Assumptions tie_hsms_NewSeparateReq.

Theorem tie_hsms_NewLinktestReq : forall sb,
  Gen2.hsms.NewLinktestReq (sbl sb) = GOk (cm_of (new_linktest_req sb)).
Proof. exact bridge_NewLinktestReq. Qed.
Print Assumptions tie_hsms_NewLinktestReq.

Theorem tie_hsms_NewRejectReqRaw : forall sid pt st sb reason,
  Gen2.hsms.NewRejectReqRaw sid pt st (sbl sb) reason = GOk (cm_of (new_reject_req_raw sid pt st sb reason)).
Proof. exact bridge_NewRejectReqRaw. Qed.
Print Assumptions tie_hsms_NewRejectReqRaw.

Theorem tie_hsms_NewSelectRsp : forall req status,
  0 <= h5 (c_hdr req) < 256 ->
  Gen2.hsms.NewSelectRsp (cm_of req) status =
  GOk (rsp_result (new_select_rsp req status) "expected select.req message").
Proof. exact bridge_NewSelectRsp. Qed.
Print Assumptions tie_hsms_NewSelectRsp.

Theorem tie_hsms_NewDeselectRsp : forall req status,
  0 <= h5 (c_hdr req) < 256 ->
  Gen2.hsms.NewDeselectRsp (cm_of req) status =
  GOk (rsp_result (new_deselect_rsp req status) "expected deselect.req message").
Proof. exact bridge_NewDeselectRsp. Qed.
Print Assumptions tie_hsms_NewDeselectRsp.

Theorem tie_hsms_NewLinktestRsp : forall req,
  0 <= h5 (c_hdr req) < 256 ->
  Gen2.hsms.NewLinktestRsp (cm_of req) =
  GOk (rsp_result (new_linktest_rsp req) "expected linktest.req message").
Proof. exact bridge_NewLinktestRsp. Qed.
Print Assumptions tie_hsms_NewLinktestRsp.

Theorem tie_hsms_DataMessage_SessionID : forall d dec,
  Gen2.hsms.DataMessage_SessionID (dm_of d dec) = GOk (session_id (d_hdr d)).
Proof. exact bridge_DataMessage_SessionID. Qed.
Print Assumptions tie_hsms_DataMessage_SessionID.

Theorem tie_hsms_DataMessage_SystemBytes : forall d dec,
  Gen2.hsms.DataMessage_SystemBytes (dm_of d dec) = GOk (sbl (system_bytes (d_hdr d))).
Proof. exact bridge_DataMessage_SystemBytes. Qed.
Print Assumptions tie_hsms_DataMessage_SystemBytes.

Theorem tie_hsms_DataMessage_HeaderBytes : forall d dec,
  Gen2.hsms.DataMessage_HeaderBytes (dm_of d dec) = GOk (hdr_bytes (d_hdr d)).
Proof. exact bridge_DataMessage_HeaderBytes. Qed.
Print Assumptions tie_hsms_DataMessage_HeaderBytes.

Theorem tie_hsms_DataMessage_Stream : forall d dec,
  Gen2.hsms.DataMessage_Stream (dm_of d dec) = GOk (stream_of (d_hdr d)).
Proof. exact bridge_DataMessage_Stream. Qed.
Print Assumptions tie_hsms_DataMessage_Stream.

Theorem tie_hsms_DataMessage_Function : forall d dec,
  Gen2.hsms.DataMessage_Function (dm_of d dec) = GOk (function_of (d_hdr d)).
Proof. exact bridge_DataMessage_Function. Qed.
Print Assumptions tie_hsms_DataMessage_Function.

Theorem tie_hsms_DataMessage_WaitBit : forall d dec,
  Gen2.hsms.DataMessage_WaitBit (dm_of d dec) = GOk (wait_bit (d_hdr d)).
Proof. exact bridge_DataMessage_WaitBit. Qed.
Print Assumptions tie_hsms_DataMessage_WaitBit.

Theorem tie_hsms_DataMessage_ID : forall d dec,
  Gen2.hsms.DataMessage_ID (dm_of d dec) = GOk (msg_id (d_hdr d)).
Proof. exact bridge_DataMessage_ID. Qed.
Print Assumptions tie_hsms_DataMessage_ID.

Theorem tie_hsms_DataMessage_ToBytes : forall d dec,
  len (d_body d) < 2 ^ 62 ->
  Gen2.hsms.DataMessage_ToBytes (dm_of d dec) = GOk (data_to_bytes d).
Proof. exact bridge_DataMessage_ToBytes. Qed.
Print Assumptions tie_hsms_DataMessage_ToBytes.

Theorem tie_hsms_DataMessage_WithSessionID : forall d dec id,
  Gen2.hsms.DataMessage_WithSessionID (dm_of d dec) id = GOk (dm_of (d_with_session_id d id) dec).
Proof. exact bridge_DataMessage_WithSessionID. Qed.
Print Assumptions tie_hsms_DataMessage_WithSessionID.

Theorem tie_hsms_DataMessage_WithSystemBytes : forall d dec sb,
  Gen2.hsms.DataMessage_WithSystemBytes (dm_of d dec) (sbl sb) = GOk (dm_of (d_with_system_bytes d sb) dec).
Proof. exact bridge_DataMessage_WithSystemBytes. Qed.
Print Assumptions tie_hsms_DataMessage_WithSystemBytes.

Theorem tie_hsms_DataMessage_WithID : forall d dec id,
  Gen2.hsms.DataMessage_WithID (dm_of d dec) id = GOk (dm_of (d_with_id d id) dec).
Proof. exact bridge_DataMessage_WithID. Qed.
Print Assumptions tie_hsms_DataMessage_WithID.

Theorem tie_hsms_isSecondaryReply : forall d dec,
  0 <= h3 (d_hdr d) < 256 ->
  Gen2.hsms.isSecondaryReply (dm_of d dec) =
  GOk (negb (wait_bit (d_hdr d)) && (function_of (d_hdr d) mod 2 =? 0)).
Proof. exact bridge_isSecondaryReply. Qed.
Print Assumptions tie_hsms_isSecondaryReply.

(** [sysBytesGen.next] (C06/C08): the counter advances by one modulo 2^32 ([Responder.next_sys]) and
    the System Bytes handed out are the new counter, big-endian. Sequential reading of the atomic. *)
Theorem tie_hsms_sysBytesGen_next : forall n, 0 <= n < 4294967296 ->
  Gen2.hsms.sysBytesGen_next (Some (Gen2.hsms.mk_sysBytesGen n)) =
  GOk (Some (Gen2.hsms.mk_sysBytesGen (Responder.next_sys n)), be32 (Responder.next_sys n)).
Proof. exact bridge_sysBytesGen_next. Qed.
Print Assumptions tie_hsms_sysBytesGen_next.

End TieHsms.

(** * C03 — hsms/decode.go (the three decode entry points never panic and agree with
    [decode_message] / [decode_payload] / [decode_owned] of Hsms/Frame.v on EVERY byte slice),
    [NewRejectReq] / [GetRejectReasonCode] on the [Message] interface. *)
Module TieHsmsDecode.
Import Hsms.Header Hsms.Frame Gen.Bridge2Frames Gen.Bridge2FramesDecode.

Theorem tie_hsms_rawFrameBody_Len : forall body,
  Gen2.wire.rawFrameBody_Len (Gen2.wire.mk_rawFrameBody body) = GOk (go_len body).
Proof. exact bridge_rawFrameBody_Len. Qed.
Print Assumptions tie_hsms_rawFrameBody_Len.

Theorem tie_hsms_rawFrameBody_AppendTo : forall body dst,
  Gen2.wire.rawFrameBody_AppendTo (Gen2.wire.mk_rawFrameBody body) dst = GOk (dst ++ body).
Proof. exact bridge_rawFrameBody_AppendTo. Qed.
Print Assumptions tie_hsms_rawFrameBody_AppendTo.

Theorem tie_hsms_decodeOwnedFrame : forall owned big,
  bytes_ok owned ->
  Gen2.hsms.decodeOwnedFrame owned = GOk (dres_of big (decode_owned owned)).
Proof. exact bridge_decodeOwnedFrame. Qed.
Print Assumptions tie_hsms_decodeOwnedFrame.

Theorem tie_hsms_DecodeOwnedHSMSPayload : forall p,
  bytes_ok p ->
  Gen2.hsms.DecodeOwnedHSMSPayload p = GOk (dres_of big_payload (decode_payload 16777215 p)).
Proof. exact bridge_DecodeOwnedHSMSPayload. Qed.
Print Assumptions tie_hsms_DecodeOwnedHSMSPayload.

Theorem tie_hsms_DecodeHSMSPayload : forall p,
  bytes_ok p ->
  Gen2.hsms.DecodeHSMSPayload p = GOk (dres_of big_payload (decode_payload 16777215 p)).
Proof. exact bridge_DecodeHSMSPayload. Qed.
Print Assumptions tie_hsms_DecodeHSMSPayload.

Theorem tie_hsms_DecodeHSMSMessage : forall data,
  bytes_ok data ->
  Gen2.hsms.DecodeHSMSMessage data = GOk (dres_of big_message (decode_message 16777215 data)).
Proof. exact bridge_DecodeHSMSMessage. Qed.
Print Assumptions tie_hsms_DecodeHSMSMessage.

Theorem tie_hsms_DataMessage_Type : forall d dec,
  Gen2.hsms.DataMessage_Type (dm_of d dec) = GOk ST_DATA.
Proof. exact bridge_DataMessage_Type. Qed.
Print Assumptions tie_hsms_DataMessage_Type.

Theorem tie_hsms_NewRejectReq : forall m dec reason,
  msg_h5_ok m ->
  Gen2.hsms.NewRejectReq (msg_of dec m) reason = GOk (cm_of (new_reject_req m reason)).
Proof. exact bridge_NewRejectReq. Qed.
Print Assumptions tie_hsms_NewRejectReq.

Theorem tie_hsms_GetRejectReasonCode : forall m dec,
  msg_h5_ok m ->
  Gen2.hsms.GetRejectReasonCode (msg_of dec m) = GOk (reject_result_of (get_reject_reason m)).
Proof. exact bridge_GetRejectReasonCode. Qed.
Print Assumptions tie_hsms_GetRejectReasonCode.

Theorem tie_hsms_ControlMessage_RejectReasonCode : forall c,
  0 <= h5 (c_hdr c) < 256 ->
  Gen2.hsms.ControlMessage_RejectReasonCode (cm_of c) = GOk (reject_result_of (get_reject_reason (MCtrl c))).
Proof. exact bridge_ControlMessage_RejectReasonCode. Qed.
Print Assumptions tie_hsms_ControlMessage_RejectReasonCode.

End TieHsmsDecode.
