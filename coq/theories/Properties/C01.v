(** C01 — SECS-II items encode to exact SEMI E5 bytes and decode back to an equal item.
    Only property theorems (closed by [exact]), their assumptions, and non-vacuity examples.
    Model: Secs2/Item.v, Encode.v, Decode.v; grammar: Secs2/Grammar.v; proofs: EncodeProofs.v,
    DecodeProofs.v; tie: Gen/BridgeSecs2.v (translator) + constructor-level differential. *)
From Coq Require Import ZArith Bool List Lia.
From GoSecs Require Import Base.BytesBE Gen.Gen Gen.BridgeSecs2.
From GoSecs Require Import Secs2.Item Secs2.Encode Secs2.Decode Secs2.Grammar Secs2.EncodeProofs Secs2.DecodeProofs.
Import ListNotations.
Open Scope Z_scope.

(** The bytes are exactly the canonical SEMI E5 encoding of the item's logical value: format
    code, MINIMAL number of length bytes, big-endian length (child count for lists), big-endian
    two's-complement payload. [E5 true] is the grammar written from the standard. *)
Theorem C01_exact : forall x, wf x = true -> E5 true (encode x) x.
Proof. exact encode_E5. Qed.
Print Assumptions C01_exact.

(** The header uses the least number of length bytes for EVERY length in range (all of
    0..2^24-1, so the 255/256 and 65535/65536 boundaries are covered by proof). *)
Theorem C01_minimal_length_bytes : forall fc n, 0 <= n <= max_size ->
  exists k, nlen_ok true k n /\ header fc n = (fc * 4 + Z.of_nat k) :: be_enc k n.
Proof. exact header_spec. Qed.
Print Assumptions C01_minimal_length_bytes.

(** The encoding's length equals the reported EncodedLen. *)
Theorem C01_len : forall x, wf x = true -> zlen (encode x) = encoded_len x.
Proof. exact encode_length. Qed.
Print Assumptions C01_len.

(** Decoding the encoding (followed by anything) returns the original item: same constructor
    (type and width), same element list (hence size and every value), and the trailing bytes. *)
Theorem C01_roundtrip : forall x rest, wf x = true -> depth x <= max_depth ->
  decode (encode x ++ rest) = Ok (x, rest).
Proof. exact roundtrip. Qed.
Print Assumptions C01_roundtrip.

Theorem C01_equal_refl : forall x, equal x x = true.
Proof. exact equal_refl. Qed.
Print Assumptions C01_equal_refl.

(** ToBytes is a function of the logical value alone (deterministic), and AppendTo(dst) is dst
    followed by that encoding: the caller's prefix is untouched. *)
Theorem C01_deterministic : forall x, to_bytes x = encode x.
Proof. exact to_bytes_encode. Qed.
Theorem C01_append : forall x dst, append_to x dst = dst ++ encode x.
Proof. exact append_to_spec. Qed.
Theorem C01_append_prefix : forall x dst, firstn (length dst) (append_to x dst) = dst.
Proof. exact append_to_prefix. Qed.
Print Assumptions C01_append.
Print Assumptions C01_append_prefix.

(** The model's constants and headerLen are the current source's. *)
Theorem C01_bridge_headerLen : forall n, Gen.secs2.headerLen n = header_len n.
Proof. exact bridge_headerLen. Qed.
Theorem C01_bridge_limits :
  Gen.secs2.MaxByteSize = max_size /\ Gen.secs2.MaxListDepth = max_depth.
Proof. exact bridge_limits. Qed.
Print Assumptions C01_bridge_headerLen.

(** Refuted corner (finding): an EmptyItem child is error-free for the constructors, yet the
    list encodes to [01 01], which the decoder rejects. [wf] excludes exactly this class
    (EmptyItem below the root); every theorem above holds for all other error-free trees. *)
Theorem C01_empty_child_refuted :
  exists x, encode x = [1; 1] /\ decode (encode x) = Err ErrListCount.
Proof. exists (IList [IEmpty]). split; reflexivity. Qed.
Print Assumptions C01_empty_child_refuted.

(** Non-vacuity: a depth-64 tree whose innermost leaf has 65536 bytes is well-formed, within
    the depth limit, and round-trips. *)
Fixpoint nest (n : nat) (x : item) : item :=
  match n with O => x | S k => IList [nest k x] end.
Definition big_tree : item := nest 64 (IList [IBinary (repeat 7 (Z.to_nat 65536)); IInt W2 [-32768; 32767]]).

Example C01_nonvacuous_wf : wf big_tree = true /\ depth big_tree = 65.
Proof. split; [vm_cast_no_check (eq_refl true)|vm_cast_no_check (eq_refl 65)]. Qed.
Definition ok_tree : item := nest 63 (IList [IBinary (repeat 7 (Z.to_nat 65536)); IInt W2 [-32768; 32767]; IFloat W4 [2143289344]]).
Example C01_roundtrip_nonvacuous :
  wf ok_tree = true /\ depth ok_tree = max_depth /\ decode (encode ok_tree ++ [9]) = Ok (ok_tree, [9]).
Proof.
  split; [vm_cast_no_check (eq_refl true)|split; [vm_cast_no_check (eq_refl 64)|]].
  vm_cast_no_check (eq_refl (Ok (ok_tree, [9]))).
Qed.
Example C01_exact_nonvacuous : encode (IInt W2 [-2; 255]) = [105; 4; 255; 254; 0; 255].
Proof. reflexivity. Qed.
Example C01_len_boundaries :
  map (fun n => header fc_binary n) [255; 256; 65535; 65536] =
  [[33; 255]; [34; 1; 0]; [34; 255; 255]; [35; 1; 0; 0]].
Proof. reflexivity. Qed.

(** Trees that mix constructed items with items returned by Decode (which re-emit their retained
    wire bytes, canonical or not): the bytes are a receiver-side E5 encoding of the logical value,
    their length is the reported length, decoding returns the logical value; and whatever Decode
    returns is such a tree, so the statement nests. *)
From GoSecs Require Import Secs2.Raw Secs2.RawProofs.
Theorem C01_mixed_exact : forall c, wf_c c = true -> E5 false (encode_c c) (erase c).
Proof. exact encode_c_E5. Qed.
Theorem C01_mixed_len : forall c, wf_c c = true -> zlen (encode_c c) = encoded_len_c c.
Proof. exact encode_c_length. Qed.
Theorem C01_mixed_roundtrip : forall c rest, wf_c c = true -> depth (erase c) <= max_depth ->
  decode (encode_c c ++ rest) = Ok (erase c, rest).
Proof. exact roundtrip_c. Qed.
Theorem C01_decoded_wf : forall bs c, bytes_ok bs -> bs <> [] -> decode_c bs = Some c -> wf_c c = true.
Proof. exact decode_c_wf. Qed.
Print Assumptions C01_mixed_roundtrip.
Print Assumptions C01_decoded_wf.
Example C01_mixed_nonvacuous :   (* a decoded non-canonical U1 next to a constructed one *)
  let c := CList [CDecoded [167; 0; 0; 1; 5] (IUint W1 [5]); CPlain (IUint W1 [5])] in
  wf_c c = true /\ encode_c c = [1; 2; 167; 0; 0; 1; 5; 165; 1; 5] /\
  decode (encode_c c) = Ok (IList [IUint W1 [5]; IUint W1 [5]], []).
Proof. vm_compute. repeat split. Qed.
