(** C03 — HSMS messages serialize to exact SEMI E37 frames and decode back unchanged.
    Only property theorems (each closed by [exact]), their assumptions and non-vacuity examples.
    Model: Hsms/Header.v, Hsms/Frame.v; proofs: Hsms/HeaderProofs.v, Hsms/FrameProofs.v;
    tie: Gen/BridgeFrames.v (translator) + harness differential (cmd/c03) incl. bytes read by a
    raw peer from a real hsmsss connection.

    The SECS-II body is abstract here (its encoded bytes; "equal body" = equal bytes; an item
    with a deferred error is the constructor input [ItemErr]); the body encoding itself is C01. *)
From Coq Require Import ZArith Bool List Lia.
From GoSecs Require Import Base.GoInt Gen.Gen Gen.BridgeFrames Hsms.Header Hsms.HeaderProofs Hsms.Frame Hsms.FrameProofs.
Import ListNotations.
Open Scope Z_scope.

(** *** Layout: every header field of a constructed data message at its E37 offset; W-bit is
    bit 7 of byte 2 over the 7-bit stream, session id big-endian in bytes 0-1, function in byte 3,
    PType = SType = 0, system bytes verbatim in bytes 6-9; the body is the item's encoding. *)
Theorem C03_layout_data : forall stream fn w sid a b c d it m,
  data_args_ok stream fn sid (a, b, c, d) ->
  new_data_message stream fn w sid (a, b, c, d) it = Ok m ->
  hdr_bytes (d_hdr m) = [sid / 256; sid mod 256; (if w then 128 else 0) + stream; fn; 0; 0; a; b; c; d] /\
  d_body m = item_body it /\ stream <= 127.
Proof. exact new_data_message_layout. Qed.
Print Assumptions C03_layout_data.

(** the accessors invert the packing (for every byte-2 value: a unique (W, stream) split) *)
Theorem C03_accessors : forall stream fn w sid a b c d it m,
  data_args_ok stream fn sid (a, b, c, d) ->
  new_data_message stream fn w sid (a, b, c, d) it = Ok m ->
  session_id (d_hdr m) = sid /\ stream_of (d_hdr m) = stream /\ wait_bit (d_hdr m) = w /\
  function_of (d_hdr m) = fn /\ ptype_of (d_hdr m) = 0 /\ stype_of (d_hdr m) = 0 /\
  system_bytes (d_hdr m) = (a, b, c, d).
Proof. exact new_data_message_accessors. Qed.
Print Assumptions C03_accessors.

Theorem C03_byte2_split : forall b, byte_ok b ->
  stream_of (put_b2 hdr_zero b) = b mod 128 /\
  wait_bit (put_b2 hdr_zero b) = (128 <=? b) /\
  b = (if wait_bit (put_b2 hdr_zero b) then 128 else 0) + stream_of (put_b2 hdr_zero b).
Proof. exact byte2_split. Qed.
Print Assumptions C03_byte2_split.

(** *** Layout of the nine control factories *)
Theorem C03_layout_ctrl_req : forall st sid a b c d reply, 0 <= sid < 65536 ->
  hdr_bytes (c_hdr (ctrl_req st sid (a, b, c, d) reply)) = [sid / 256; sid mod 256; 0; 0; 0; st; a; b; c; d].
Proof. exact ctrl_req_layout. Qed.
Theorem C03_layout_linktest_req : forall a b c d,
  hdr_bytes (c_hdr (new_linktest_req (a, b, c, d))) = [255; 255; 0; 0; 0; 5; a; b; c; d].
Proof. exact linktest_req_layout. Qed.
Theorem C03_layout_rsp : forall req st status,
  hdr_bytes (c_hdr (rsp_of req st status)) =
  [h0 (c_hdr req); h1 (c_hdr req); 0; status; 0; st; h6 (c_hdr req); h7 (c_hdr req); h8 (c_hdr req); h9 (c_hdr req)].
Proof. exact rsp_of_layout. Qed.
Theorem C03_select_rsp_iff : forall req status,
  (exists r, new_select_rsp req status = Some r) <-> h5 (c_hdr req) = 1.
Proof. exact select_rsp_iff. Qed.
Theorem C03_deselect_rsp_iff : forall req status,
  (exists r, new_deselect_rsp req status = Some r) <-> h5 (c_hdr req) = 3.
Proof. exact deselect_rsp_iff. Qed.
Theorem C03_linktest_rsp_iff : forall req,
  (exists r, new_linktest_rsp req = Some r) <-> h5 (c_hdr req) = 5.
Proof. exact linktest_rsp_iff. Qed.
Theorem C03_layout_reject_raw : forall sid pt st a b c d reason, 0 <= sid < 65536 ->
  hdr_bytes (c_hdr (new_reject_req_raw sid pt st (a, b, c, d) reason)) =
  [sid / 256; sid mod 256; (if reason =? 2 then pt else st); reason; 0; 7; a; b; c; d].
Proof. exact reject_raw_layout. Qed.
Theorem C03_layout_reject : forall m reason, hdr_ok (msg_hdr m) ->
  hdr_bytes (c_hdr (new_reject_req m reason)) =
  [h0 (msg_hdr m); h1 (msg_hdr m);
   (if msg_type m =? 0 then 0 else if reason =? 2 then h4 (msg_hdr m) else h5 (msg_hdr m));
   reason; 0; 7; h6 (msg_hdr m); h7 (msg_hdr m); h8 (msg_hdr m); h9 (msg_hdr m)].
Proof. exact reject_req_layout. Qed.
Print Assumptions C03_layout_reject.

(** *** Frame = 4-byte big-endian length (10 + body length), 10-byte header, body *)
Theorem C03_frame : forall m,
  to_bytes m = be32 (10 + len (msg_body m)) ++ hdr_bytes (msg_hdr m) ++ msg_body m.
Proof. exact to_bytes_layout. Qed.
Theorem C03_length : forall m, 10 + len (msg_body m) < 4294967296 ->
  de32 (nth 0 (to_bytes m) 0) (nth 1 (to_bytes m) 0) (nth 2 (to_bytes m) 0) (nth 3 (to_bytes m) 0)
  = 10 + len (msg_body m).
Proof. exact to_bytes_length_field. Qed.
Print Assumptions C03_length.

(** *** what the connection hands to the socket is [ToBytes], byte for byte *)
Theorem C03_wire : forall m, concat (frame_buffers m) = to_bytes m.
Proof. exact frame_buffers_concat. Qed.
Print Assumptions C03_wire.

(** *** Round trip (frame within the cap): same header fields, equal body, identical
    re-serialisation. [forget_reply] drops only the local reply-expected flag of a control
    message, which is not on the wire. Instantiated at the cap regenerated from the source. *)
Theorem C03_roundtrip : forall m, wf_msg frame_cap m ->
  decode_message frame_cap (to_bytes m) = Ok (forget_reply m) /\
  to_bytes (forget_reply m) = to_bytes m.
Proof. exact roundtrip_at_cap. Qed.
Print Assumptions C03_roundtrip.

(** and the other way round: an accepted data frame re-serialises to itself *)
Theorem C03_reserialize : forall cap bs d,
  bytes_ok bs -> decode_message cap bs = Ok (MData d) -> to_bytes (MData d) = bs.
Proof. exact to_bytes_decode_data. Qed.
Print Assumptions C03_reserialize.

(** *** the size edge — REFUTES the unrestricted round trip: a body longer than cap-10 (a single
    legal item can be up to MaxByteSize+4 bytes) is accepted by the constructor, and the frame
    it serialises to is refused by its own decoder. [C03_roundtrip] is the positive theorem under
    the hypothesis [10 + len body <= cap] that excludes exactly this class. *)
Theorem C03_roundtrip_unbounded_refuted : exists stream fn w sid sb it m,
  new_data_message stream fn w sid sb it = Ok m /\
  len (d_body m) <= Gen.secs2.MaxByteSize + 4 /\
  decode_message frame_cap (to_bytes (MData m)) = Err ELenBig.
Proof. exact roundtrip_unbounded_refuted. Qed.
Print Assumptions C03_roundtrip_unbounded_refuted.

(** *** Construction rejects exactly the invalid combinations *)
Theorem C03_validation : forall stream fn w sid sb it,
  (exists e, new_data_message stream fn w sid sb it = Err e) <->
  stream > 127 \/ it = ItemErr \/ (w = true /\ fn mod 2 = 0).
Proof. exact new_data_message_rejects_iff. Qed.
Theorem C03_validation_class : forall stream fn w sid sb it e,
  new_data_message stream fn w sid sb it = Err e <->
  (e = EStream /\ stream > 127) \/
  (e = EItem /\ stream <= 127 /\ it = ItemErr) \/
  (e = ERspW /\ stream <= 127 /\ it <> ItemErr /\ w = true /\ fn mod 2 = 0).
Proof. exact new_data_message_err. Qed.
Print Assumptions C03_validation_class.

(** *** Re-stamping: for every chain of WithSessionID / WithSystemBytes / WithID, bytes 0-1 are
    those of the last session-id stamp (else unchanged), bytes 6-9 those of the last system-bytes
    stamp (else unchanged), bytes 2-5 and the body never move. *)
Theorem C03_restamp : forall ss m,
  let h := msg_hdr m in
  let h' := msg_hdr (stamp_chain m ss) in
  (h0 h', h1 h') = chain_sid ss (h0 h, h1 h) /\
  h2 h' = h2 h /\ h3 h' = h3 h /\ h4 h' = h4 h /\ h5 h' = h5 h /\
  (h6 h', h7 h', h8 h', h9 h') = chain_sys ss (h6 h, h7 h, h8 h, h9 h) /\
  msg_body (stamp_chain m ss) = msg_body m.
Proof. exact stamp_chain_hdr. Qed.
Theorem C03_restamp_sid_only : forall ss cur,
  Forall (fun s => match s with SetSid _ => True | _ => False end) ss -> chain_sys ss cur = cur.
Proof. exact chain_sys_only_sid. Qed.
Theorem C03_restamp_sys_only : forall ss cur,
  Forall (fun s => match s with SetSid _ => False | _ => True end) ss -> chain_sid ss cur = cur.
Proof. exact chain_sid_only_sys. Qed.
Print Assumptions C03_restamp.

(** Derive().Build() re-runs the same validation on the overridden fields *)
Theorem C03_derive_validation : forall d ok ops,
  let b := fold_left bstep ops (derive d ok) in
  (exists e, derive_build d ok ops = Err e) <->
  b_stream b > 127 \/ b_item b = ItemErr \/ (b_w b = true /\ b_fn b mod 2 = 0).
Proof. exact derive_build_rejects_iff. Qed.

(** ... and with only session-id / system-bytes overrides it IS the re-stamp chain (for every
    chain): bytes 2-5 and the body are those of the source message *)
Theorem C03_derive_restamp : forall ops d,
  hdr_ok (d_hdr d) -> h4 (d_hdr d) = 0 -> h5 (d_hdr d) = 0 ->
  (wait_bit (d_hdr d) = true -> function_of (d_hdr d) mod 2 <> 0) ->
  Forall bop_ok ops ->
  derive_build d true ops = Ok (fold_left stamp_d (map stamp_of_bop ops) d).
Proof. exact derive_build_stamps. Qed.
Print Assumptions C03_derive_restamp.

(** NewDataMessageFromHeader takes a valid data header over unchanged *)
Theorem C03_from_header : forall h body,
  hdr_ok h -> h4 h = 0 -> h5 h = 0 -> (wait_bit h = true -> function_of h mod 2 <> 0) ->
  new_data_message_from_header h (ItemOk body) = Ok (mkD h body).
Proof. exact from_header_ok. Qed.
Theorem C03_from_header_rejects : forall h it,
  (h4 h <> 0 -> new_data_message_from_header h it = Err HPType) /\
  (h4 h = 0 -> h5 h <> 0 -> new_data_message_from_header h it = Err HSType).
Proof. exact from_header_rejects. Qed.

(** system bytes <-> message id *)
Theorem C03_system_bytes_id : forall id, 0 <= id < 4294967296 -> from_system_bytes (to_system_bytes id) = id.
Proof. exact system_bytes_roundtrip. Qed.

(** *** the tie to the regenerated source *)
Theorem C03_bridge_stypes :
  Gen.hsms.DataMsgType = ST_DATA /\ Gen.hsms.SelectReqType = ST_SELECT_REQ /\
  Gen.hsms.SelectRspType = ST_SELECT_RSP /\ Gen.hsms.DeselectReqType = ST_DESELECT_REQ /\
  Gen.hsms.DeselectRspType = ST_DESELECT_RSP /\ Gen.hsms.LinktestReqType = ST_LINKTEST_REQ /\
  Gen.hsms.LinktestRspType = ST_LINKTEST_RSP /\ Gen.hsms.RejectReqType = ST_REJECT_REQ /\
  Gen.hsms.SeparateReqType = ST_SEPARATE_REQ /\ Gen.hsms.UndefinedMsgType = ST_UNDEFINED.
Proof. exact bridge_stypes. Qed.
Theorem C03_bridge_IsValidSType : forall b, 0 <= b < 256 -> Gen.hsms.IsValidSType b = valid_stype b.
Proof. exact bridge_IsValidSType. Qed.
Theorem C03_bridge_misc :
  Gen.hsms.MaxStreamCode = MAX_STREAM /\
  Gen.hsms.RejectPTypeNotSupported = REJECT_PTYPE_NOT_SUPPORTED /\
  Gen.hsms.RejectSTypeNotSupported = 1 /\ Gen.hsms.RejectNotSelected = 4.
Proof. exact bridge_misc. Qed.
Print Assumptions C03_bridge_IsValidSType.

(** *** Non-vacuity *)
Example C03_layout_nonvacuous :
  exists m, new_data_message 127 255 true 65535 (1, 2, 3, 4) (ItemOk [65; 1; 66]) = Ok m /\
            to_bytes (MData m) = [0; 0; 0; 13; 255; 255; 255; 255; 0; 0; 1; 2; 3; 4; 65; 1; 66].
Proof. eexists. split; reflexivity. Qed.
Example C03_roundtrip_nonvacuous :
  let m := MCtrl (rsp_of (new_select_req 258 (9, 8, 7, 6)) ST_SELECT_RSP 3) in
  wf_msg frame_cap m /\ to_bytes m = [0; 0; 0; 10; 1; 2; 0; 3; 0; 2; 9; 8; 7; 6].
Proof. split; [repeat split; vm_compute; congruence|reflexivity]. Qed.
Example C03_validation_nonvacuous :
  new_data_message 128 1 false 0 (0, 0, 0, 0) ItemNil = Err EStream /\
  new_data_message 1 2 true 0 (0, 0, 0, 0) ItemNil = Err ERspW /\
  new_data_message 1 1 true 0 (0, 0, 0, 0) ItemErr = Err EItem.
Proof. repeat split; reflexivity. Qed.
Example C03_restamp_nonvacuous :
  exists m, new_data_message 1 3 true 7 (0, 0, 0, 1) (ItemOk [33; 0]) = Ok m /\
  to_bytes (stamp_chain (MData m) [SetSid 513; SetId 16909060; SetSid 1027]) =
  [0; 0; 0; 12; 4; 3; 129; 3; 0; 0; 1; 2; 3; 4; 33; 0].
Proof. eexists. split; reflexivity. Qed.
