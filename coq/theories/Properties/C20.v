(** C20 — Connection metrics conserve: gauges return to zero and counters match the wire.
    Only the property theorems (closed by [exact]), [Print Assumptions], non-vacuity examples.
    Model: Hsms/Generations.v (the counters are part of the LTS state and are updated at exactly
    the inc/dec call sites of the code), Hsms/Metrics.v (the conservation monitor, the per-outcome
    table, counting functions).  Proofs: Hsms/MetricsProofs.v.  Tie: e2e histories on real
    connections with independent counts kept by the scripted peers and by the harness, judged by
    the extracted [ok_C20] and by direct equality with the getters at quiescent points. *)
From Coq Require Import ZArith Bool List Lia Arith.
From GoSecs Require Import Hsms.Generations Hsms.GenerationsProofs Hsms.Metrics Hsms.MetricsProofs.
Import ListNotations.
Open Scope Z_scope.

(** For EVERY sequence of atomic steps (any number of concurrent sends of every kind ending in
    every outcome, interleaved with drops, teardowns, reconnect loops, Close and reopen), every
    snapshot of the getters satisfies: dataSent / dataRecv / errors / drops / asyncErrors equal the
    sums the per-outcome table (Hsms/Metrics.v) assigns to the observable log so far; 0 <= inflight
    <= number of W-bit data calls whose frame is on the wire and which have not returned; the
    reconnecting gauge is >= 0 and is 0 whenever no reconnect loop exists. *)
Theorem C20_all_runs : forall acts, ok_C20 (snd (run init acts)) = true.
Proof. exact all_runs_ok20. Qed.
Print Assumptions C20_all_runs.

(** inflight = number of W-bit data calls in the waiting phase; hence never negative … *)
Theorem C20_inflight : forall acts,
  let s := fst (run init acts) in
  m_inflight (mx s) = cnt waiting_w (calls s) (ids s) /\ 0 <= m_inflight (mx s).
Proof. exact inflight_is_waiting. Qed.
Print Assumptions C20_inflight.

(** … and zero at every point where no call is in the waiting phase (quiescence). *)
Theorem C20_inflight_quiescent : forall acts,
  let s := fst (run init acts) in
  (forall c, c_phase (calls s c) <> PWait) -> m_inflight (mx s) = 0.
Proof. exact inflight_zero_at_quiescence. Qed.
Print Assumptions C20_inflight_quiescent.

(** dataSent = number of data frames appended to sockets (= frames the peers receive). *)
Theorem C20_send : forall acts,
  let s := fst (run init acts) in m_sent (mx s) = count_wire is_data (wire s).
Proof. exact sent_is_wire. Qed.
Print Assumptions C20_send.

(** dataRecv = number of dispatches the recv loops counted, and a dispatch is counted only for a
    data frame taken while the connection state is Selected. *)
Theorem C20_recv : forall acts,
  m_recv (mx (fst (run init acts))) = count_obs is_counted_dispatch (snd (run init acts)).
Proof. exact recv_is_selected_dispatches. Qed.
Print Assumptions C20_recv.

Theorem C20_recv_only_selected_data : forall s a s' o, exec s a = (s', o) ->
  m_recv (mx s') = m_recv (mx s) + count_obs is_counted_dispatch o /\
  (forall g f, In (ODispatch g f true) o -> pf_data f = true /\ is_sel (st s) = true).
Proof. exact recv_step. Qed.
Print Assumptions C20_recv_only_selected_data.

(** Per-outcome table, per step: from any reachable state, after any step the counters are the
    counters before plus exactly the table's deltas for the labels that step emitted (a call
    returning Reply/Reject/ConnClosed/ctx adds nothing to errors or drops; T3 and a write error
    add one error; a B1/B2 refusal adds one drop; a sender-goroutine failure adds one asyncError;
    the number of outstanding wired W-bit calls moves by the frames put on the wire minus the
    calls returning from the wait). *)
Theorem C20_outcome_table : forall acts a,
  let s := fst (run init acts) in
  exists x', mon20_run (view20 s) (snd (exec s a)) = Some x' /\ meq20 x' (view20 (fst (exec s a))).
Proof. exact step_table. Qed.
Print Assumptions C20_outcome_table.

(** The reconnecting gauge equals the number of running reconnect loops: never negative,
    positive while a loop runs, zero when none exists (quiescent Selected or closed). *)
Theorem C20_retry : forall acts,
  let s := fst (run init acts) in
  m_retry (mx s) = Z.of_nat (lrun s) /\ 0 <= m_retry (mx s) /\
  (lrun s <> 0%nat -> 0 < m_retry (mx s)) /\ (quiet s = true -> m_retry (mx s) = 0).
Proof. exact retry_is_running_loops. Qed.
Print Assumptions C20_retry.

(** Non-vacuity: a history with one send per outcome (reply, peer reject, T3, refused, write error,
    disconnect while waiting, async written, async failing after the drop) and a reconnect. *)
Example C20_nonvacuous :
  let acts := [Open; TCPUp; Enter 9 KSyncW; B1 9; Select;
               Enter 0 KSyncW; B1 0; Register 0; Capture 0; Check 0; WriteOk 0; Arm 0;
               PeerSend 0 (FReply 0); Read 0; Route 0; CompleteReply 0;
               Enter 1 KSyncW; B1 1; Register 1; Capture 1; Check 1; WriteOk 1; Arm 1;
               PeerSend 0 (FRejectK 1); Read 0; Route 0; CompleteReply 1;
               Enter 2 KSyncW; B1 2; Register 2; Capture 2; Check 2; WriteOk 2; Arm 2; CompleteTimer 2;
               Enter 3 KSyncNW; B1 3; Register 3; Capture 3; Check 3; WriteFail 3;
               Enter 4 KAsync; B1 4; Enqueue 4; Drain 4; Capture 4; Check 4; WriteOk 4;
               Enter 5 KAsync; B1 5; Enqueue 5;
               Enter 6 KSyncW; B1 6; Register 6; Capture 6; Check 6; WriteOk 6; Arm 6; Snap;
               Drop; LoopSpawn; Teardown; LoopBegin; Snap; CompleteClosed 6;
               Drain 5; Capture 5; Check 5; Join 0; Publish; TCPUp; Select; LoopEnd true; Snap] in
  mx (fst (run init acts)) = mkM 5 1 0 2 1 1 0 1 /\ ok_C20 (snd (run init acts)) = true.
Proof. vm_compute. split; reflexivity. Qed.

(** The monitor is not trivially accepting: a leaked in-flight unit, a send counted that never
    reached a wire, a T3 not counted as an error, a negative reconnecting gauge and a non-zero
    gauge at a quiescent point are each rejected. *)
Example C20_monitor_rejects :
  ok_C20 [OWire 0 0 KSyncW; OCompleted 0 KSyncW (RReply 0); OSnap (mkM 1 0 1 0 0 0 0 0) true] = false /\
  ok_C20 [OCompleted 0 KSyncW RNotSel; OSnap (mkM 1 0 0 0 1 0 0 0) true] = false /\
  ok_C20 [OWire 0 0 KSyncW; OCompleted 0 KSyncW RTimer; OSnap (mkM 1 0 0 0 0 0 0 0) true] = false /\
  ok_C20 [OSnap (mkM 0 0 0 0 0 0 (-1) 0) false] = false /\
  ok_C20 [OSnap (mkM 0 0 0 0 0 0 1 0) true] = false /\
  ok_C20 [OWire 0 0 KSyncW; OCompleted 0 KSyncW RTimer; OSnap (mkM 1 0 0 1 0 0 0 0) true] = true.
Proof. vm_compute. repeat split. Qed.

(** Overlapping reconnect loops (loop A still inside tr.Start of generation 1 when generation 1
    drops and loop B starts): the gauge counts both, stays positive when A exits while B runs,
    and is zero once B has exited — a gauge kept as a flag would read 0 after A's exit. *)
Example C20_overlapping_loops :
  let pre := [Open; TCPUp; Select; Drop; LoopSpawn; Teardown; Join 0; LoopBegin; Publish; TCPUp; Select;
              Drop; LoopSpawn; Teardown; LoopBegin] in
  m_retry (mx (fst (run init pre))) = 2 /\
  m_retry (mx (fst (run init (pre ++ [LoopEnd true])))) = 1 /\
  lrun (fst (run init (pre ++ [LoopEnd true]))) = 1%nat /\
  m_retry (mx (fst (run init (pre ++ [LoopEnd true; Join 1; Publish; TCPUp; Select; LoopEnd true])))) = 0 /\
  m_reconn (mx (fst (run init (pre ++ [LoopEnd true; Join 1; Publish; TCPUp; Select; LoopEnd true])))) = 2.
Proof. vm_compute. repeat split. Qed.

(** The gauge is incremented by the loop-start action [LoopBegin], which precedes the wait for the
    dropped generation's teardown: here the loop has begun while generation 0 is torn down but NOT
    yet joined — [Publish] is not enabled (it is a no-op), and the gauge reads 1 all along. *)
Example C20_gauge_positive_during_slow_teardown :
  let acts := [Open; TCPUp; Select; Drop; LoopSpawn; LoopBegin; Teardown] in
  let s := fst (run init acts) in
  m_retry (mx s) = 1 /\ g_joined (gens s 0) = false /\ lrun s = 1%nat /\
  fst (exec s Publish) = s /\
  m_retry (mx (fst (run s [Join 0; Publish; TCPUp; Select]))) = 1 /\
  m_retry (mx (fst (run s [Join 0; Publish; TCPUp; Select; LoopEnd true]))) = 0.
Proof. vm_compute. repeat split. Qed.
