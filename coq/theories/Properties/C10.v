(** C10 — Open/Close are safe from any state: bounded, idempotent, leak-free, reopenable.
    This file contains only the property theorems (each closed by [exact]), their assumptions,
    and non-vacuity examples. Model: Hsms/Lifecycle.v; invariant: Hsms/LifecycleInv.v (proved by
    the verified propositional procedure of Hsms/LifecycleSat.v); proofs: Hsms/LifecycleProofs.v.

    What the theorems cover is the BOOKKEEPING: who spawns, who joins, which fences forbid a late
    publish, what is left when Close returns. Goroutine leaks, blocking bounds and panics of the
    running library are runtime facts: the e2e harness observes them after every history and
    passes its log through the extracted monitor [ok_C10]. Hence the level is "proof (partial)".
    Assumptions of the model: handlers return, so the bounded joins complete (the ErrCloseTimeout
    path deliberately abandons goroutines and is not modelled). *)
From Coq Require Import ZArith Bool List Arith Lia.
From GoSecs Require Import Gen.Gen Gen.BridgeBackoff Hsms.Lifecycle Hsms.LifecycleInv Hsms.LifecycleProofs.
Import ListNotations.
Close Scope Z_scope.

(** The model never leaves its shape: generations never overlap (a generation is fully joined
    and owns nothing before the next is published), there are never two reconnect loops before
    the end of their Start, the NotConnected reaction always acts on the current generation, and
    evClose is never processed without the shutdown fence. *)
Theorem C10_model_faithful : forall s, Lifecycle_reachable s -> lc_err s = false.
Proof. exact Lifecycle_no_err. Qed.
Print Assumptions C10_model_faithful.

(** Open on an already-open connection fails with ErrAlreadyOpen and has no side effect: the
    state is unchanged (in ANY state with lifeMu free, a supervisor installed and shutdown clear —
    including the reconnect inter-generation window). *)
Theorem C10_already_open : forall s m,
  lc_api s = LcIdle -> lc_is_none (lc_sup s) = false -> lc_shutdown s = false ->
  Lifecycle_exec s (LcOpen m) = Some s /\
  Lifecycle_observe1 s (LcOpen m) s = [LcObsOpenCall; LcObsOpenRet LcOpenAlready true].
Proof. exact Lifecycle_already_open. Qed.
Print Assumptions C10_already_open.

(** ... and only then: a never-opened or closed connection accepts the Open. *)
Theorem C10_open_proceeds : forall s m,
  lc_api s = LcIdle -> (lc_is_none (lc_sup s) = true \/ lc_shutdown s = true) ->
  exists s', Lifecycle_exec s (LcOpen m) = Some s' /\ lc_api s' = LcO1 m.
Proof. exact Lifecycle_open_proceeds. Qed.

(** Close is idempotent: in every reachable state in which a Close has returned, another Close
    returns the retained result immediately and changes nothing. *)
Theorem C10_close_idempotent : forall s, Lifecycle_reachable s -> lc_closed s ->
  Lifecycle_exec s LcClose = Some s /\
  Lifecycle_observe1 s LcClose s = [lc_close_snapshot LcCloseRetained s] /\
  lc_close_snapshot LcCloseRetained s = LcObsCloseRet LcCloseRetained true 0 0 0 false.
Proof. intros s Hr. exact (Lifecycle_close_idempotent s (proj1 (Lifecycle_reachable_inv s Hr))). Qed.
Print Assumptions C10_close_idempotent.

(** In every reachable state in which Close has returned (lifeMu free, shutdown set): no library
    goroutine is alive, no socket or listener is open, no reconnect loop is pending, the state is
    NotConnected, the supervisor is stopped and the last generation fully joined ... *)
Theorem C10_close_clean : forall s, Lifecycle_reachable s -> lc_closed s ->
  Lifecycle_goroutines s = 0 /\ Lifecycle_sockets s = 0 /\ lc_no_loops s = true /\
  lc_is_nc (lc_st s) = true /\ lc_is_stopped (lc_sup s) = true /\ lc_edone s = true.
Proof. intros s Hr. exact (Lifecycle_close_clean_state s (proj1 (Lifecycle_reachable_inv s Hr))). Qed.
Print Assumptions C10_close_clean.

(** ... and NO later action is enabled except a new Open call (and no-ops: a repeated Close, a
    failing send) — in particular no dial, listen or publish: the publish fence under publishMu,
    the F3 fence, the cancel channel and the three joins leave nothing that could act. *)
Theorem C10_close_quiescent : forall s a s', Lifecycle_reachable s -> lc_closed s ->
  Lifecycle_exec s a = Some s' ->
  (exists m, a = LcOpen m) \/ (s' = s /\ (a = LcClose \/ a = LcSpuriousDown)).
Proof. intros s a s' Hr. exact (Lifecycle_closed_quiescent s a s' (proj1 (Lifecycle_reachable_inv s Hr))). Qed.
Print Assumptions C10_close_quiescent.

(** A closed connection can be opened again and is then a fresh one: after the four setup steps
    of Open the state equals that of a first Open on every field the step function can still
    read; only counters (reconnectGen, epoch ids, metrics) and dead fields differ. 3 goroutines
    (supervisor run + notifier, sender), nothing else. *)
Theorem C10_reopen : forall s m, Lifecycle_reachable s -> lc_closed s ->
  exists s1 s0,
    Lifecycle_run s (lc_open_prefix m) = Some s1 /\
    Lifecycle_run (Lifecycle_init (lc_active s)) (lc_open_prefix m) = Some s0 /\
    lc_same_live s1 s0 /\ lc_api s1 = LcOStart m LcSP0 /\
    Lifecycle_goroutines s1 = 3 /\ Lifecycle_sockets s1 = 0.
Proof. intros s m Hr. exact (Lifecycle_reopen s m (proj1 (Lifecycle_reachable_inv s Hr))). Qed.
Print Assumptions C10_reopen.

(** The extracted monitor accepts every run of the model (the same monitor judges the logs
    recorded from the real library). *)
Theorem C10_all_runs : forall active acts s,
  Lifecycle_run (Lifecycle_init active) acts = Some s ->
  ok_C10 (Lifecycle_observe (Lifecycle_init active) acts) = true.
Proof. intros active acts s H. exact (proj1 (Lifecycle_monitor_all_runs active acts s H)). Qed.
Print Assumptions C10_all_runs.

(** REFUTED part of the statement ("Close returns within the close timeout"): DESIGN §5 #9.
    While an Open(OpenWaitSelected) waits for Selected it holds lifeMu; Close is not enabled, and
    the only way the API becomes idle again is the end of that wait (Selected, the caller's ctx, or
    the generation's teardown by T6/T7). Known finding C10-close-blocked-by-open. *)
Theorem C10_close_bounded_refuted :
  exists s, Lifecycle_run (Lifecycle_init true) lc_blocked_trace = Some s /\
            lc_api s = LcOWait /\ lc_is_ns (lc_st s) = true /\ Lifecycle_exec s LcClose = None /\
            (forall a s', Lifecycle_exec s a = Some s' -> lc_api s' = LcIdle -> exists r, a = LcOWaitRet r).
Proof. exact Lifecycle_close_blocked_witness. Qed.
Print Assumptions C10_close_bounded_refuted.

(** Non-vacuity: a passive connection opens, a peer connects and is selected, Close runs through
    its seven steps; the result is a reachable closed state; a second Close and a second Open
    behave as stated. *)
Definition C10_trace : list Lifecycle_action :=
  [LcOpen LcBackground; LcOpen1; LcOpen2; LcOpen3; LcOListen true; LcOGate; LcAccept; LcAcceptUp; LcSupUpEcho;
   LcSelected true; LcClose; LcClose1; LcClose2; LcClose3; LcSupClose; LcJoinStop1; LcAcceptExit; LcJoinStop2;
   LcRecvExit false; LcLtExit false; LcSenderExit; LcJoinFinish; LcClose4; LcClose5; LcSupRunExit; LcSupNotifExit;
   LcClose6; LcClose7].
Example C10_closed_reachable_nonvacuous :
  exists s, Lifecycle_run (Lifecycle_init false) C10_trace = Some s /\ lc_closed s /\
            Lifecycle_observe (Lifecycle_init false) C10_trace =
              [LcObsOpenCall; LcObsDial true; LcObsOpenRet LcOpenOk true; LcObsCloseRet LcCloseOk true 0 0 0 false].
Proof. eexists. split; [vm_compute; reflexivity|]. split; [split; reflexivity|]. vm_compute. reflexivity. Qed.
Example C10_already_open_nonvacuous :
  exists s, Lifecycle_run (Lifecycle_init false) (firstn 10 C10_trace) = Some s /\
            lc_api s = LcIdle /\ lc_is_none (lc_sup s) = false /\ lc_shutdown s = false /\ lc_is_sel (lc_st s) = true.
Proof. eexists. split; [vm_compute; reflexivity|]. repeat split. Qed.

(** The constants the model and the harness logs name ARE the current source (regenerated on every check). *)
Theorem C10_bridge_constants :
  Gen.hsms.NotConnectedState = 0%Z /\ Gen.hsms.NotSelectedState = 1%Z /\ Gen.hsms.SelectedState = 2%Z /\
  Gen.hsms.OpenWaitSelected = 0%Z /\ Gen.hsms.OpenBackground = 1%Z /\ Gen.hsms.stateClosedBit = 256%Z.
Proof. exact bridge_lifecycle_constants. Qed.
