(** C07 — Data messages flow only while Selected; pipelined data after select is accepted.
    This file contains only the property theorems (each closed by [exact]), their assumptions,
    and non-vacuity examples. Model: Hsms/SendCore.v; proofs: Hsms/SendCoreGate.v (+ the invariant
    of SendCoreInv*.v); monitors: Hsms/SendCoreMon.v (ok_C07); tie to the code: harness/cmd/c07
    (e2e matrix of not-selected conditions x entry points x roles, inbound data while not selected,
    pipelining at every cut point, gate scenarios compared for equality with the model). *)
From Coq Require Import ZArith Bool List Lia.
From GoSecs Require Import Base.GoInt Gen.Gen Gen.BridgeSendCore Hsms.SendCore Hsms.SendCoreMon Hsms.SendCoreGate Hsms.SendCoreInvSteps Hsms.SendCoreGateMon Hsms.SendCoreDeclared Hsms.SendCoreWire.
Import ListNotations.
Open Scope Z_scope.

(** ** The send gate.  A "data send whose B1 (or B2) read saw st <> Selected" is a call standing at
    [PGate] (resp. [PCheck], under the write lock with a live socket) in a state with
    [selected s = false]; the theorems give EVERYTHING such a call can do next. *)

(* never opened: ErrNotOpen, no counter change *)
Theorem C07_gate_not_open : forall fx p s c, c_pc c = PEnter -> opened s = false ->
  forall ch s' os, step_call fx p s c ch = Some (s', os) ->
    ch = CGo /\ s' = upd s (set_pc c (PDone RNotOpen)) /\ os = [ORet (c_id c) RNotOpen 0] /\ drops s' = drops s.
Proof. exact gate_not_open. Qed.
Print Assumptions C07_gate_not_open.

(* B1 read saw not-Selected: result NotSelected, the drop counter grows by exactly 1, nothing is
   registered, written or queued; the call is finished (C07_done_terminal) *)
Theorem C07_gate_B1 : forall fx p s c, c_pc c = PGate -> isdata c = true -> selected s = false ->
  forall ch s' os, step_call fx p s c ch = Some (s', os) ->
    ch = CGo /\ s' = upd (w_drops s (drops s + 1)) (set_pc c (PDone RNotSelected)) /\
    os = [ORet (c_id c) RNotSelected 0] /\ drops s' = drops s + 1.
Proof. exact gate_B1. Qed.
Print Assumptions C07_gate_B1.

(* B2 read (under the write lock) saw not-Selected: counter +1 exactly, nothing written; the only
   thing the call can still do is deregister and return NotSelected (C07_gate_exit) *)
Theorem C07_gate_B2 : forall fx p s c, c_pc c = PCheck -> wr_ok s (c_gen c) = true -> isdata c = true -> selected s = false ->
  forall ch s' os, step_call fx p s c ch = Some (s', os) ->
    ch = CGo /\ s' = upd (w_drops s (drops s + 1)) (set_pc c (PExit RNotSelected)) /\ os = [] /\ drops s' = drops s + 1.
Proof. exact gate_B2. Qed.
Print Assumptions C07_gate_B2.

Theorem C07_gate_exit : forall fx p s c r, c_pc c = PExit r ->
  forall ch s' os, step_call fx p s c ch = Some (s', os) ->
    ch = CGo /\ (exists el, os = [ORet (c_id c) r el]) /\ drops s' = drops s /\
    exists c', calls s' = put c' (calls s) /\ c_pc c' = PDone r.
Proof. exact exit_only_returns. Qed.

Theorem C07_done_terminal : forall fx p s c r ch, c_pc c = PDone r -> step_call fx p s c ch = None.
Proof. exact done_terminal. Qed.

(* no byte of any send reaches a socket except from the write step, which lies behind both gates *)
Theorem C07_write_only_behind_gates : forall fx p s c ch s' os g o f, step_call fx p s c ch = Some (s', os) ->
  In (OPeerRecv g o f) os -> c_pc c = PWrite /\ ch = CWriteOk /\ o = c_id c /\ f = c_msg c /\ g = c_gen c /\ wr_ok s g = true.
Proof. exact write_only_at_PWrite. Qed.
Print Assumptions C07_write_only_behind_gates.

(* the drop counter moves only at the two gates, by exactly one, only for data seen not-Selected,
   and such a step writes nothing *)
Theorem C07_drop_counter : forall fx p s c ch s' os, step_call fx p s c ch = Some (s', os) ->
  drops s' = drops s \/
  (drops s' = drops s + 1 /\ isdata c = true /\ selected s = false /\ (c_pc c = PGate \/ c_pc c = PCheck) /\
   forall g o f, ~ In (OPeerRecv g o f) os).
Proof. exact drops_step. Qed.
Print Assumptions C07_drop_counter.

(* control traffic is unaffected by the connection state *)
Theorem C07_control_not_gated_B1 : forall fx p s c, c_pc c = PGate -> isdata c = false ->
  step_call fx p s c CGo = Some (upd s (set_pc c (after_gate c)), []).
Proof. exact control_not_gated_B1. Qed.
Theorem C07_control_not_gated_B2 : forall fx p s c, c_pc c = PCheck -> isdata c = false -> wr_ok s (c_gen c) = true ->
  step_call fx p s c CGo = Some (upd s (set_pc c PWrite), []).
Proof. exact control_not_gated_B2. Qed.
Print Assumptions C07_control_not_gated_B2.

(** The gate over whole runs.  For ALL action sequences (all interleavings of any number of senders
    on every entry point with the dispatcher, the async sender, lifecycle events and any peer) the
    gate clause of ok_C07 accepts the log: no frame attributed to a call that returned NotSelected or
    NotOpen was ever seen on any socket — before or after the return —, and at every quiescent
    snapshot the drop counter has grown by exactly the number of NotSelected refusals (synchronous
    returns plus async-sender B2 drops) since the previous snapshot; NotOpen leaves it unchanged.
    Holds for both step functions ([all_benign] is trivially true for the repaired one). *)
Theorem C07_gate_all_runs : forall fx p acts c0 s os,
  all_benign fx p (init c0) acts = true ->
  run fx p (init c0) acts = Some (s, os) -> mon_run chk_gate mon0 os = true.
Proof. exact gate_all_runs. Qed.
Print Assumptions C07_gate_all_runs.

(** "Fails with the not-selected error" over whole runs: for ALL action sequences, a data-sending call
    on any entry point (sync, async, reply, forward, forward-async) that starts after a quiescent
    point at which the connection was not Selected (never opened, closed, connecting, connected
    not-selected, deselected, between generations) and returns before any lifecycle event or peer
    Select/Deselect frame, returns NotSelected — NotOpen exactly when the connection was never
    opened (declared-condition clause of ok_C07; the e2e matrix declares the condition the same way). *)
Theorem C07_refused_while_not_selected : forall fx p acts c0 s os,
  all_benign fx p (init c0) acts = true ->
  run fx p (init c0) acts = Some (s, os) -> mon_run chk_declared mon0 os = true.
Proof. exact declared_all_runs. Qed.
Print Assumptions C07_refused_while_not_selected.

(** ** Inbound data while not Selected: exactly one Reject.req, reason 4, echoing session id and
    system bytes, queued; no handler call (the observation list is empty), no waiter is offered
    anything (calls unchanged), the link stays up (socket, generation ctx, state unchanged). *)
Theorem C07_inbound : forall p s n f, f_pt f = 0 -> f_st f = 0 -> selected s = false ->
  dispatch p s n f = (enq_int s (reject_not_selected f), []) /\
  f_st (reject_not_selected f) = 7 /\ f_b3 (reject_not_selected f) = 4 /\ f_pt (reject_not_selected f) = 0 /\
  f_sid (reject_not_selected f) = f_sid f /\ f_sys (reject_not_selected f) = f_sys f /\
  f_body (reject_not_selected f) = [] /\
  calls (enq_int s (reject_not_selected f)) = calls s /\ st (enq_int s (reject_not_selected f)) = st s /\
  sock (enq_int s (reject_not_selected f)) = sock s /\ gcancel (enq_int s (reject_not_selected f)) = gcancel s /\
  sendq (enq_int s (reject_not_selected f)) = sendq s ++ [(-1, reject_not_selected f)].
Proof. exact inbound_not_selected. Qed.
Print Assumptions C07_inbound.

(** An orphan Select.rsp(0) — system bytes of no open Select transaction — is answered Reject(3) and
    does NOT select the session (the commit happens only on a registry hit), so the connection stays
    not-selected for the gate and for inbound data. *)
Theorem C07_orphan_select_rsp_no_commit : forall p s n f, f_pt f = 0 -> f_body f = [] ->
  (f_st f = 2 \/ f_st f = 4 \/ f_st f = 6) -> route_ctl p s f = None ->
  dispatch p s n f = (enq_int s (reject_not_open f), []) /\
  st (enq_int s (reject_not_open f)) = st s /\ calls (enq_int s (reject_not_open f)) = calls s /\
  f_st (reject_not_open f) = 7 /\ f_b3 (reject_not_open f) = 3 /\ f_b2 (reject_not_open f) = f_st f /\
  f_sys (reject_not_open f) = f_sys f.
Proof. exact orphan_rsp_no_commit. Qed.

(** The log-level inbound/pipeline clause of ok_C07 ([chk_inbound]: which Reject(4) answers which
    frame, matched greedily by session id and system bytes) judges the logs of the real
    implementation and the model runs of the examples; its acceptance of ALL model runs is not proved
    (the greedy matching is exact only when the peer's unsettled data frames carry pairwise distinct
    session id / system bytes, which the e2e peers ensure). The exact statements are C07_inbound
    (per dispatch step) and C07_pipeline (over whole runs). *)

(** ** Pipelining. The establishing select leaves st = Selected in the same dispatch step ... *)
Theorem C07_select_req_commits : forall p s n f, is_select_req f = true -> st s <> NC ->
  st (fst (dispatch p s n f)) = SEL /\
  exists status, sendq (fst (dispatch p s n f)) = sendq s ++ [(-1, select_rsp f status)] /\
                 (st s = NS -> status = 0).
Proof. exact select_req_commits. Qed.

Theorem C07_select_rsp_commits : forall p s n f id, f_pt f = 0 -> f_st f = 2 -> f_b3 f = 0 -> f_body f = [] ->
  route_ctl p s f = Some id -> st s = NS ->
  st (fst (dispatch p s n f)) = SEL.
Proof. exact select_rsp_commits. Qed.

(* [route_ctl]: the registry hit of a control response = an entry under its system bytes in the
   current generation which, with the data-only registry (DW), is not a data transaction's *)
Theorem C07_route_ctl_spec : forall p s f id, route_ctl p s f = Some id <->
  reg_get (gen s) (f_sys f) (reg s) = Some id /\ DW p && data_waiter s id = false.
Proof. exact route_ctl_spec. Qed.

(** ... and from then on, for EVERY interleaving of senders, async sender, timers, observation
    points and further peer data frames (no lifecycle action, no further control frame), every
    dispatch finds a data frame with st = Selected, queues no reject for it and leaves st = Selected.
    (Regrouping of the peer's bytes into reads does not reach the dispatcher: C04_segmentation; the
    e2e check cuts Select.req ++ data* / Select.rsp ++ data* at every byte offset.) *)
Theorem C07_pipeline : forall fx p pre post s s' os,
  st s = SEL -> all_data (inq s) ->
  run fx p s (pre ++ ADispatch :: post) = Some (s', os) -> forallb quiet (pre ++ ADispatch :: post) = true ->
  exists s1 o1 n f q, run fx p s pre = Some (s1, o1) /\ inq s1 = (n, f) :: q /\
    f_pt f = 0 /\ f_st f = 0 /\ selected s1 = true /\
    sendq (fst (dispatch p (w_inq s1 q) n f)) = sendq s1 /\ st (fst (dispatch p (w_inq s1 q) n f)) = SEL.
Proof. exact pipeline_dispatch_selected. Qed.
Print Assumptions C07_pipeline.

(** Every split of the peer's byte stream into reads: a length-prefixed reader fed the stream
    enc(Select.req) ++ enc(d1) ++ ... (or Select.rsp followed by data frames) in ARBITRARY chunks — cut inside the
    length prefix, the header, a body, or across frames — hands the dispatcher exactly those frames in
    that order; together with C07_select_req_commits / C07_select_rsp_commits / C07_pipeline every data
    frame is dispatched with st = Selected for every write/read grouping. (The real reader, readFrame
    with T8, is C04's subject; the e2e check cuts the real byte string at every offset.) *)
Theorem C07_any_split : forall chunks fs, Forall wf_frame fs -> concat chunks = stream fs ->
  read_all chunks = (fs, []).
Proof. exact any_split_same_frames. Qed.
Print Assumptions C07_any_split.

Definition c07_sel : frame := mkF 1 0 0 0 1 7 [].
Definition c07_d : frame := mkF 1 133 7 0 0 51 [177; 4; 0; 0; 0; 9].
Example C07_any_split_nonvacuous :
  read_all [firstn 3 (stream [c07_sel; c07_d]); firstn 13 (skipn 3 (stream [c07_sel; c07_d])); skipn 16 (stream [c07_sel; c07_d])]
  = ([c07_sel; c07_d], []) /\
  firstn 3 (stream [c07_sel; c07_d]) ++ firstn 13 (skipn 3 (stream [c07_sel; c07_d])) ++ skipn 16 (stream [c07_sel; c07_d])
  = stream [c07_sel; c07_d].
Proof. split; vm_compute; reflexivity. Qed.

(** Non-vacuity. Connected, not selected: a synchronous W-bit send is refused at B1 with one drop and
    nothing on the wire; an inbound data frame gets Reject(4); then Select.req ++ two data frames are
    dispatched and both data frames reach the handler. *)
Definition c07_cfg : cfg := mkCfg 45000 5000 1 true.
Definition c07_prim : frame := mkF 1 129 1 0 0 0 [177; 4; 0; 0; 0; 1].
Definition c07_in (sys : Z) : frame := mkF 1 133 7 0 0 sys [177; 4; 0; 0; 0; 9].
Definition c07_acts : list action :=
  [ANewGen; AConnUp; AStart 1 KSync c07_prim; AStep 1 CGo; AStep 1 CGo; AMetric;
   APeer (c07_in 50); ADispatch; ADrain true;
   APeer (mkF 1 0 0 0 1 7 []); APeer (c07_in 51); APeer (c07_in 52); ADispatch; ADispatch; ADispatch; ADrain true].
Example C07_nonvacuous : exists s os,
  run false c07_cfg (init 0) c07_acts = Some (s, os) /\
  In (ORet 1 RNotSelected 0) os /\ In (OMetric 1) os /\
  In (OPeerRecv 1 (-1) (mkF 1 0 4 0 7 50 [])) os /\
  In (OHandler 0 3) os /\ In (OHandler 0 4) os /\ ok_C07 os = true.
Proof. eexists. eexists. split; [vm_compute; reflexivity|]. vm_compute. tauto. Qed.

(** The constants and the SType validity table the model uses ARE the current source (Gen.v is
    regenerated from /repo on every check). *)
Theorem C07_bridge_valid_stype : forall b, 0 <= b < 256 -> Gen.hsms.IsValidSType b = valid_stype b.
Proof. exact bridge_valid_stype. Qed.
Theorem C07_bridge_builders : forall f,
  f_st (reject_not_selected f) = Gen.hsms.RejectReqType /\ f_b3 (reject_not_selected f) = Gen.hsms.RejectNotSelected /\
  f_b3 (reject_not_open f) = Gen.hsms.RejectTransactionNotOpen /\
  f_st (select_rsp f Gen.hsms.SelectStatusSuccess) = Gen.hsms.SelectRspType /\
  f_st (deselect_rsp f Gen.hsms.DeselectStatusSuccess) = Gen.hsms.DeselectRspType /\
  f_st (linktest_rsp f) = Gen.hsms.LinktestRspType.
Proof. exact bridge_builders. Qed.
