(** C15 — The configurable SML encoder with defaults is byte-identical to Item.ToSML.
    Only property theorems (closed by [exact]), their assumptions and non-vacuity examples.
    Models: Sml/ToSml.v (secs2 per-type ToSML + formatSML), Sml/Encoder.v (sml.Encoder),
    Sml/StrictParser.v (the parser, for the readback half); proofs: Sml/ToSmlProofs.v,
    Base/DecimalProofs.v, Sml/StrictRoundtrip.v, Sml/EncReadback.v.
    Oracles (Go's strconv): ffmt = FormatFloat 'G', quote = Quote / %q, fparse = ParseFloat,
    narrow32 = float32 conversion; laws appear as explicit premises where they are needed. *)
From Coq Require Import ZArith Bool List Lia.
From GoSecs Require Import Base.Decimal Base.DecimalProofs Sml.Syntax Sml.Encoder Sml.ToSml Sml.ToSmlProofs
  Sml.StrictParser Sml.StrictParserLemmas Sml.StrictRoundtripDefs Sml.StrictRoundtrip Sml.StrictRoundtripFinal
  Sml.EncReadback Sml.StrictToyOracle.
Import ListNotations.
Open Scope Z_scope.

(** For every item tree (every error-free item is one: all ten leaf kinds with empty / one / many
    values in the storage the constructors and the decoder establish, the empty item, lists of
    any nesting incl. EmptyItem children), whatever strconv prints for floats and %q:
    Item.ToSML() = sml.Encode(item), byte for byte. No law about the oracles is needed. *)
Theorem C15_identical : forall (ffmt : fwidth -> Z -> bytes) (quote : bytes -> bytes) (x : item),
  to_sml ffmt quote x = encode_default ffmt quote x.
Proof. exact to_sml_eq_encode_default. Qed.
Print Assumptions C15_identical.

(** Readback: the text EITHER renderer writes for a binary, boolean, signed, unsigned or float
    item whose elements are in range (no deferred error) is read back by the parser as an item
    with the same values (floats: same wire value, NaN payload aside) — wherever the item stands:
    at any list nesting [dp] the parser admits, after any whitespace, followed by any whitespace and a character that starts no comment. *)
Theorem C15_readback :
  forall (ffmt : fwidth -> Z -> bytes) (quote : bytes -> bytes) (fparse : fwidth -> bytes -> option Z) (narrow32 : Z -> Z),
    (forall w v, fdom w v = true -> good_tok (ffmt w v) = true) ->
    (forall w v, fdom w v = true -> exists v', fparse w (ffmt w v) = Some v' /\ feq narrow32 w v v') ->
    forall x, value_leaf_item x = true -> dom_item false no_plain x = true ->
    forall text, text = to_sml ffmt quote x \/ text = encode_default ffmt quote x ->
    forall input dp pre ws ws' c rest',
      dp <= max_list_depth -> Forall is_ws ws -> Forall is_ws ws' -> follow c ->
      input = pre ++ ws ++ text ++ ws' ++ c :: rest' ->
      exists x' q,
        parse_item fparse input 1 dp (mkst pre (ws ++ text ++ ws' ++ c :: rest')) = POk x' (mkst q (c :: rest'))
        /\ input = q ++ c :: rest' /\ item_eqv narrow32 x x'.
Proof. exact readback_both. Qed.
Print Assumptions C15_readback.

(** Token level, all integers of every width (no oracle involved): what FormatInt / FormatUint
    print, ParseInt / ParseUint with base 0 read back; every binary byte token too. *)
Theorem C15_readback_int_token : forall base0 bits v, 1 <= bits ->
  - 2 ^ (bits - 1) <= v < 2 ^ (bits - 1) -> parse_int base0 bits (format_int v) = NOk v.
Proof. exact parse_int_format. Qed.
Theorem C15_readback_uint_token : forall base0 bits v, 0 <= bits ->
  0 <= v <= 2 ^ bits - 1 -> parse_uint base0 bits (format_uint v) = NOk v.
Proof. exact parse_uint_format. Qed.
Theorem C15_readback_binary_token : forall b, 0 <= b < 256 -> parse_int true 64 (tok_hex b) = NOk b.
Proof. exact parse_int_tok_hex. Qed.
Print Assumptions C15_readback_int_token.
Print Assumptions C15_readback_uint_token.
Print Assumptions C15_readback_binary_token.

(** Non-vacuity: a tree with every storage case, nesting and an EmptyItem child; both sides
    compute to the same non-empty text. *)
Definition demo_ffmt (w : fwidth) (v : Z) : bytes := [49; 46; 53].
Definition demo_quote (s : bytes) : bytes := [34] ++ s ++ [34].
Definition demo_tree : item :=
  IList [IInt W4 []; IInt W2 [-7]; IUint W8 [1; 18446744073709551615]; IEmpty;
         IList [IList []; IAscii []; IAscii [104; 105]; IBoolean [true]; IBinary [0; 255]];
         IFloat F4 [0; 1]; ILocal [120]; IJis8 [121]].
Example C15_identical_nonvacuous :
  to_sml demo_ffmt demo_quote demo_tree = encode_default demo_ffmt demo_quote demo_tree /\
  (length (to_sml demo_ffmt demo_quote demo_tree) > 100)%nat.
Proof. split; [reflexivity|vm_compute; lia]. Qed.

(** the float laws are satisfiable (toy oracle), and an in-range item in a list context reads back *)
Example C15_readback_nonvacuous :
  (forall w v, fdom w v = true -> good_tok (toy_ffmt w v) = true) /\
  (forall w v, fdom w v = true -> exists v', toy_fparse w (toy_ffmt w v) = Some v' /\ feq toy_narrow w v v') /\
  let x := IInt W8 [-9223372036854775808; 9223372036854775807] in
  value_leaf_item x = true /\ dom_item false no_plain x = true /\
  let input := [10; 32] ++ to_sml toy_ffmt toy_quote x ++ [10] ++ [62] in
  exists st, parse_item toy_fparse input 1 64 (mkst [] input) = POk x st /\ data st = [62].
Proof.
  split; [exact toy_ffmt_good|]. split; [exact toy_roundtrip|].
  cbv zeta. split; [reflexivity|]. split; [vm_compute; reflexivity|].
  eexists. split; vm_compute; reflexivity.
Qed.
