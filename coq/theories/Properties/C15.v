(** C15 — The configurable SML encoder with defaults is byte-identical to Item.ToSML.
    Only property theorems (closed by [exact]), their assumptions and non-vacuity examples.
    Models: Sml/ToSml.v (secs2 per-type ToSML + formatSML), Sml/Encoder.v (sml.Encoder);
    proofs: Sml/ToSmlProofs.v, Base/DecimalProofs.v. Float and %q text come from Go's strconv
    (oracles [ffmt], [quote]: both renderers call the same functions on the same values, so the
    identity needs no law about them). *)
From Coq Require Import ZArith Bool List Lia.
From GoSecs Require Import Base.Decimal Base.DecimalProofs Sml.Syntax Sml.Encoder Sml.ToSml Sml.ToSmlProofs.
Import ListNotations.
Open Scope Z_scope.

(** For every item tree (every error-free item is one: all ten leaf kinds with empty / one / many
    values, the empty item, lists of any nesting incl. EmptyItem children), whatever strconv
    prints for floats and %q: Item.ToSML() = sml.Encode(item), byte for byte. *)
Theorem C15_identical : forall (ffmt : fwidth -> Z -> bytes) (quote : bytes -> bytes) (x : item),
  to_sml ffmt quote x = encode_default ffmt quote x.
Proof. exact to_sml_eq_encode_default. Qed.
Print Assumptions C15_identical.

(** Readback, token level (the parser reads values with ParseInt/ParseUint base 0): every signed
    and unsigned element of every width prints to a token that parses back to the same value, and
    every binary byte (0xHH) does. *)
Theorem C15_readback_int_token_partial : forall w v,
  - 2 ^ (wbits w - 1) <= v < 2 ^ (wbits w - 1) ->
  parse_int true (wbits w) (format_int v) = NOk v.
Proof. intros w v H. apply parse_int_format; [destruct w; cbv; discriminate|exact H]. Qed.
Print Assumptions C15_readback_int_token_partial.

Theorem C15_readback_uint_token_partial : forall w v,
  0 <= v <= 2 ^ (wbits w) - 1 ->
  parse_uint true (wbits w) (format_uint v) = NOk v.
Proof. intros w v H. apply parse_uint_format; [destruct w; cbv; discriminate|exact H]. Qed.
Print Assumptions C15_readback_uint_token_partial.

Theorem C15_readback_binary_token_partial : forall b, 0 <= b < 256 ->
  parse_int true 64 (tok_hex b) = NOk b.
Proof. exact parse_int_tok_hex. Qed.
Print Assumptions C15_readback_binary_token_partial.

(** Non-vacuity: a tree with every storage case, nesting and an EmptyItem child; both sides
    compute to the same non-empty text. *)
Definition demo_ffmt (w : fwidth) (v : Z) : bytes := [49; 46; 53].
Definition demo_quote (s : bytes) : bytes := [34] ++ s ++ [34].
Definition demo_tree : item :=
  IList [IInt W4 []; IInt W2 [-7]; IUint W8 [1; 18446744073709551615]; IEmpty;
         IList [IList []; IAscii []; IAscii [104; 105]; IBoolean [true]; IBinary [0; 255]];
         IFloat F4 [0; 1]; ILocal [120]; IJis8 [121]].
Example C15_identical_nonvacuous :
  to_sml demo_ffmt demo_quote demo_tree = encode_default demo_ffmt demo_quote demo_tree /\
  (length (to_sml demo_ffmt demo_quote demo_tree) > 100)%nat.
Proof. split; [reflexivity|vm_compute; lia]. Qed.
Example C15_readback_nonvacuous :
  parse_int true 64 (format_int (-9223372036854775808)) = NOk (-9223372036854775808) /\
  parse_uint true 8 (format_uint 255) = NOk 255.
Proof. split; reflexivity. Qed.
