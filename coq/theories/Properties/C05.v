(** C05 — Connection state follows the SEMI E37 state diagram under every interleaving.
    Only the property theorems (closed by [exact]), [Print Assumptions], and non-vacuity examples.
    Model: Hsms/Supervisor.v (LTS of the supervisor's atomic steps). Proofs: Hsms/SupervisorProofs.v,
    Hsms/SupervisorQuiescent.v. Tie: Gen/BridgeSupervisor.v (transition table regenerated from the
    source) + deterministic driver differential on the real supervisor + e2e monitor. *)
From Coq Require Import ZArith Bool List Lia.
From GoSecs Require Import Base.GoInt Gen.Gen Gen.BridgeSupervisor
  Hsms.Supervisor Hsms.SupervisorProofs Hsms.SupervisorQuiescent.
Import ListNotations.

(** For EVERY interleaving of commits, injected events, supervisor half-steps (so commits may land
    between the supervisor's read and write of the state) and notifier deliveries, the labels are
    accepted by the monitor [ok_C05]:
    - State() changes only along NC->NS, NS->SEL, SEL->NS, NS->NC, SEL->NC, each change starting
      from the value State() had;
    - a T7 expiry never moves State() out of Selected;
    - emitted notifications are chained from NotConnected and never a self-transition;
    - delivered notifications are in order, never a self-transition, and chained unless a coalesce
      (drop) was reported since the previous delivery;
    - after the close latch State() never changes again and nothing is emitted. *)
Theorem C05_all_interleavings : forall acts, ok_C05 (snd (run init acts)) = true.
Proof. exact all_runs_ok. Qed.
Print Assumptions C05_all_interleavings.

(** Once the supervisor is quiescent (nothing queued, no step in flight, not closed), the state
    last reported equals State(); and when the handlers have drained the buffer, the last
    DELIVERED notification's next state is that reported state. *)
Theorem C05_quiescent : forall acts,
  let s := fst (run init acts) in
  closed s = false -> queue s = [] -> pc s = None -> lastr s = st s.
Proof. exact quiescent_consistent. Qed.
Print Assumptions C05_quiescent.

Theorem C05_drained : forall acts,
  nbuf (fst (run init acts)) = [] ->
  last_delivered NC (snd (run init acts)) = lastr (fst (run init acts)).
Proof. exact drained_sees_last_reported. Qed.
Print Assumptions C05_drained.

(** "Never undone or replayed by later internal processing of an earlier event" is REFUTED by the
    faithful model of the current code: three commits made while the supervisor lags (TCP up,
    select, deselect — a peer that pipelines Select.req and Deselect.req), then the three echo
    events are processed: the stale select-accepted echo re-stores Selected over the committed
    NotSelected and the select-lost echo is then abandoned. State() ends Selected for a deselected
    session. Recorded as a known finding (known_findings.json), reproduced on the real supervisor
    by the harness on every run. *)
Definition replay_witness : list action :=
  [CommitConnected; CommitSelected; CommitSelectLost;
   StepLoad; StepFinish; StepLoad; StepFinish; StepLoad; StepFinish].

Theorem C05_no_replay_refuted :
  exists acts, ok_no_replay (snd (run init acts)) = false /\
               st (fst (run init acts)) = SEL /\ queue (fst (run init acts)) = [].
Proof. exists replay_witness. vm_compute. repeat split. Qed.
Print Assumptions C05_no_replay_refuted.

(** What does hold for echoes in every run: an echo processed while the state it announces is
    still current changes nothing (so without supervisor lag no replay happens). *)
Lemma echo_current_no_change s ev :
  is_echo ev = true -> st s = target ev ->
  st (fst (step_finish s ev (st s))) = st s /\ ok_no_replay (snd (step_finish s ev (st s))) = true.
Proof.
  intros He Hs. destruct s as [st0 cl q p l c nb d]. cbn [st] in *. subst st0.
  unfold step_finish. cbn [st clbit queue pc lastr closed nbuf dropped].
  destruct ev; try discriminate He; destruct l, cl; cbn; unfold fire, emit_buf; cbn [fst snd];
    try (destruct (Nat.ltb (length nb) notify_cap); [|destruct nb as [|[? ?] ?]]); cbn; split; reflexivity.
Qed.

Theorem C05_no_replay_partial : forall s ev,
  is_echo ev = true -> st s = target ev ->
  st (fst (step_finish s ev (st s))) = st s /\ ok_no_replay (snd (step_finish s ev (st s))) = true.
Proof. exact echo_current_no_change. Qed.
Print Assumptions C05_no_replay_partial.

(** The transition table used by the model IS the current source's table. *)
Theorem C05_bridge_transition : forall c e,
  Gen.hsms.transition (cstate_z c) (event_z e) = (cstate_z (fst (transition c e)), snd (transition c e)).
Proof. exact bridge_transition. Qed.
Print Assumptions C05_bridge_transition.

(** Non-vacuity: a run with a commit inside the supervisor's load/store window, a T7 tie, a
    disconnect, a close and deliveries is a run of the model and ends closed in NotConnected. *)
Example C05_nonvacuous :
  let acts := [CommitConnected; Inject IT7; StepLoad; StepFinish; StepLoad; CommitSelected; StepFinish;
               Deliver; StepLoad; StepFinish; Inject IDisconnect; StepLoad; StepFinish; Deliver; Deliver;
               CommitConnected; Inject IClose; StepLoad; CommitSelected; StepFinish; StepLoad; StepFinish;
               CommitConnected; Deliver; Deliver; Deliver] in
  st (fst (run init acts)) = NC /\ closed (fst (run init acts)) = true /\
  length (snd (run init acts)) = 22%nat.
Proof. vm_compute. repeat split. Qed.
