(** C05 — Connection state follows the SEMI E37 state diagram under every interleaving.
    Only the property theorems (closed by [exact]), [Print Assumptions], and non-vacuity examples.
    Model: Hsms/Supervisor.v (LTS of the supervisor's atomic steps). Proofs: Hsms/SupervisorProofs.v,
    Hsms/SupervisorQuiescent.v. Tie: Gen/BridgeSupervisor.v (transition table regenerated from the
    source) + deterministic driver differential on the real supervisor + e2e monitor. *)
From Coq Require Import ZArith Bool List Lia.
From GoSecs Require Import Base.GoInt Gen.Gen Gen.BridgeSupervisor
  Hsms.Supervisor Hsms.SupervisorProofs Hsms.SupervisorQuiescent Hsms.SupervisorNoReplay.
Import ListNotations.

(** For EVERY interleaving of commits, injected events, supervisor half-steps (so commits may land
    between the supervisor's read and write of the state) and notifier deliveries, the labels are
    accepted by the monitor [ok_C05]:
    - State() changes only along NC->NS, NS->SEL, SEL->NS, NS->NC, SEL->NC, each change starting
      from the value State() had;
    - a T7 expiry never moves State() out of Selected;
    - emitted notifications are chained from NotConnected and never a self-transition;
    - delivered notifications are in order, never a self-transition, and chained unless a coalesce
      (drop) was reported since the previous delivery;
    - after the close latch State() never changes again and nothing is emitted. *)
Theorem C05_all_interleavings : forall acts, ok_C05 (snd (run init acts)) = true.
Proof. exact all_runs_ok. Qed.
Print Assumptions C05_all_interleavings.

(** Once the supervisor is quiescent (nothing queued, no step in flight, not closed), the state
    last reported equals State(); and when the handlers have drained the buffer, the last
    DELIVERED notification's next state is that reported state. *)
Theorem C05_quiescent : forall acts,
  let s := fst (run init acts) in
  closed s = false -> queue s = [] -> pc s = None -> lastr s = st s.
Proof. exact quiescent_consistent. Qed.
Print Assumptions C05_quiescent.

Theorem C05_drained : forall acts,
  nbuf (fst (run init acts)) = [] ->
  last_delivered NC (snd (run init acts)) = lastr (fst (run init acts)).
Proof. exact drained_sees_last_reported. Qed.
Print Assumptions C05_drained.

(** "Never undone or replayed by the library's later internal processing of an earlier event":
    in EVERY run, processing a commit echo never changes State() — State() changes only at a commit
    (its cause: TCP up, select completed, select lost) or at the step of a disconnect / T7 expiry /
    close. (Before fix commit "supervisor: a lagging supervisor replayed or undid synchronous state
    commits" this statement was refuted by [replay_witness]; the witness is kept as a regression
    example and in the harness corpus.) *)
Theorem C05_no_replay : forall acts, ok_no_replay (snd (run init acts)) = true.
Proof. exact (fun acts => no_replay acts init). Qed.
Print Assumptions C05_no_replay.

(** A disconnect / T7 expiry injected before the current connection's TCP-up commit (its echo is
    still queued behind the event: FIFO) is ignored — it cannot undo the newer connection. *)
Theorem C05_stale_event_ignored : forall s ev cur,
  (ev = EvDisconnect \/ ev = EvT7) -> existsb is_upc (queue s) = true ->
  let s' := fst (step_finish s ev cur) in
  st s' = st s /\ lastr s' = lastr s /\ closed s' = closed s /\ nbuf s' = nbuf s /\ snd (step_finish s ev cur) = [].
Proof. exact stale_event_ignored. Qed.
Print Assumptions C05_stale_event_ignored.

Definition replay_witness : list action :=
  [CommitConnected; CommitSelected; CommitSelectLost;
   StepLoad; StepFinish; StepLoad; StepFinish; StepLoad; StepFinish].

(** The schedule that used to end Selected now ends NotSelected, reported as such. *)
Example C05_replay_witness_now_correct :
  st (fst (run init replay_witness)) = NS /\ lastr (fst (run init replay_witness)) = NS /\
  queue (fst (run init replay_witness)) = [].
Proof. vm_compute. repeat split. Qed.

(** The transition table used by the model IS the current source's table. *)
Theorem C05_bridge_transition : forall c e,
  Gen.hsms.transition (cstate_z c) (event_z e) = (cstate_z (fst (transition c e)), snd (transition c e)).
Proof. exact bridge_transition. Qed.
Print Assumptions C05_bridge_transition.

(** Non-vacuity: a run with a commit inside the supervisor's load/store window, a T7 tie, a
    disconnect, a close and deliveries is a run of the model and ends closed in NotConnected. *)
Example C05_nonvacuous :
  let acts := [CommitConnected; Inject IT7; StepLoad; StepFinish; StepLoad; CommitSelected; StepFinish;
               Deliver; StepLoad; StepFinish; Inject IDisconnect; StepLoad; StepFinish; Deliver; Deliver;
               CommitConnected; Inject IClose; StepLoad; CommitSelected; StepFinish; StepLoad; StepFinish;
               CommitConnected; Deliver; Deliver; Deliver] in
  st (fst (run init acts)) = NC /\ closed (fst (run init acts)) = true /\
  length (snd (run init acts)) = 22%nat.
Proof. vm_compute. repeat split. Qed.
