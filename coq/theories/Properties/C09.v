(** C09 — Nothing crosses TCP connection generations: no stale frame, no stale reply.
    Only the property theorems (closed by [exact]), [Print Assumptions], non-vacuity examples.
    Model: Hsms/Generations.v (LTS of the per-generation send/receive machinery; one action = one
    atomic step of the code).  Proofs: Hsms/GenerationsProofs.v.  Tie: e2e on real connections over
    net.Pipe with generation-tagged payloads, judged by the extracted [ok_C09]; deterministic
    scenarios compared for equality with the model run (checks/C09.py). *)
From Coq Require Import ZArith Bool List Lia Arith.
From GoSecs Require Import Hsms.Generations Hsms.GenerationsProofs.
Import ListNotations.

(** In every reachable state, every frame ever appended to the socket of generation [g] belongs
    to a call that was accepted in (pinned to) generation [g]. *)
Theorem C09_no_stale_frame : forall acts g c k,
  In (g, c, k) (wire (fst (run init acts))) ->
  c_gen (calls (fst (run init acts)) c) = g /\ c_phase (calls (fst (run init acts)) c) <> PNone.
Proof. exact wire_ok_reachable. Qed.
Print Assumptions C09_no_stale_frame.

(** Generation discipline in every reachable state: an open socket belongs to the current,
    un-cancelled generation (so at most one socket is open); a recv loop holding an un-routed
    frame is the current generation's; a joined generation is cancelled and holds nothing. *)
Theorem C09_generation_discipline : forall acts g,
  genok (cur_is (fst (run init acts)) g) (gens (fst (run init acts)) g) = true.
Proof. exact GI_reachable. Qed.
Print Assumptions C09_generation_discipline.
