(** C09 — Nothing crosses TCP connection generations: no stale frame, no stale reply.
    Only the property theorems (closed by [exact]), [Print Assumptions], non-vacuity examples.
    Model: Hsms/Generations.v (LTS of the per-generation send/receive machinery; one action = one
    atomic step of the code).  Proofs: Hsms/GenerationsProofs.v.  Tie: e2e on real connections over
    net.Pipe with generation-tagged payloads, judged by the extracted [ok_C09]; deterministic
    scenarios compared for equality with the model run (checks/C09.py). *)
From Coq Require Import ZArith Bool List Lia Arith.
From GoSecs Require Import Hsms.Generations Hsms.GenerationsProofs Hsms.GenerationsMore.
Import ListNotations.

(** For EVERY sequence of atomic steps — any interleaving of any number of senders of every kind,
    the per-generation sender goroutines, the recv loops, peers, timers, caller cancellations,
    drops, teardowns, joins, reconnect loops, Close and reopen — the observable log is accepted by
    the monitor [ok_C09]:
    - [OWire g c]: the frame of call [c] is appended to the socket of generation [g] only if [c]
      was accepted in (pinned to) [g], only while [g] has not been torn down, and at most once —
      hence no frame accepted on one generation is ever transmitted on another, and frames still
      queued on [g] at its teardown never appear on any wire;
    - [OCompleted c (RReply f | RReject f)]: only with [f] = the generation [c] was accepted in —
      no reply received on one generation completes a send started on another;
    - a W-bit/control call whose frame is on the wire returns only Reply-from-its-generation,
      Reject-from-its-generation, its timer, its caller's ctx, or ConnClosed; a call whose frame is
      not on the wire returns only NotSelected / ConnClosed / write error (sync) or queued /
      ConnClosed / ctx / NotSelected (async), and an async call returns before its frame is written;
    - each call returns at most once; [OTeardown g] at most once per generation. *)
Theorem C09_all_runs : forall acts, ok_C09 (snd (run init acts)) = true.
Proof. exact all_runs_ok9. Qed.
Print Assumptions C09_all_runs.

(** In every reachable state, every frame ever appended to the socket of generation [g] belongs
    to a call that was accepted in (pinned to) generation [g]. *)
Theorem C09_no_stale_frame : forall acts g c k,
  In (g, c, k) (wire (fst (run init acts))) ->
  c_gen (calls (fst (run init acts)) c) = g /\ c_phase (calls (fst (run init acts)) c) <> PNone.
Proof. exact wire_ok_reachable. Qed.
Print Assumptions C09_no_stale_frame.

(** Generation discipline in every reachable state: an open socket belongs to the current,
    un-cancelled generation (so at most one socket is open); a recv loop holding an un-routed
    frame is the current generation's; a joined generation is cancelled and holds nothing. *)
Theorem C09_generation_discipline : forall acts g,
  genok (cur_is (fst (run init acts)) g) (gens (fst (run init acts)) g) = true.
Proof. exact GI_reachable. Qed.
Print Assumptions C09_generation_discipline.

(** No stale reply, on steps: from any reachable state, a step that returns Reply-from-[f] or
    Reject-from-[f] to call [c] has [f] = the generation [c] is pinned to ([f] is the generation of
    the recv loop that routed the frame). *)
Theorem C09_no_stale_reply : forall acts a c k f,
  let s := fst (run init acts) in
  In (OCompleted c k (RReply f)) (snd (exec s a)) \/ In (OCompleted c k (RReject f)) (snd (exec s a)) ->
  f = c_gen (calls s c).
Proof. exact no_stale_reply. Qed.
Print Assumptions C09_no_stale_reply.

(** Waiters are released: a call awaiting its reply can, in any step, only stay waiting or
    return Reply/Reject-from-its-own-generation | timer | caller ctx | ConnClosed; and once the
    teardown of its generation began, the ConnClosed completion is enabled (the model's part of
    "completes promptly"; the time bound itself is asserted at run time with slack). *)
Theorem C09_waiters_released : forall acts c,
  let s := fst (run init acts) in
  c_phase (calls s c) = PWait ->
  (forall a, c_phase (calls (fst (exec s a)) c) = PWait \/
             exists r, c_phase (calls (fst (exec s a)) c) = PDone r /\ waiter_result (c_gen (calls s c)) r = true) /\
  (g_cancel (gens s (c_gen (calls s c))) = true ->
   c_phase (calls (fst (exec s (CompleteClosed c))) c) = PDone RClosed /\
   snd (exec s (CompleteClosed c)) = [OCompleted c (c_kind (calls s c)) RClosed]).
Proof. exact waiters_released. Qed.
Print Assumptions C09_waiters_released.

(** Discarded, not flushed later: once the teardown of its generation began, a live call whose
    frame is not yet on a wire (queued fire-and-forget frame, popped by the sender goroutine, or
    parked anywhere inside writeFrame) never gets its frame onto ANY wire in ANY continuation. *)
Theorem C09_queue_discarded : forall acts1 acts2 c,
  let s1 := fst (run init acts1) in
  live (c_phase (calls s1 c)) = true ->
  wired s1 c = false ->
  g_cancel (gens s1 (c_gen (calls s1 c))) = true ->
  wired (fst (run s1 acts2)) c = false.
Proof. exact queue_discarded_live. Qed.
Print Assumptions C09_queue_discarded.

(** Parked fire-and-forget sends: a send waiting for room in its generation's async queue is
    released with ConnClosed as soon as the teardown of that generation STARTS (generation ctx
    cancelled) — not only once the bounded join has finished — and never before. *)
Theorem C09_parked_send_released : forall s c,
  c_phase (calls s c) = PGated -> is_async (c_kind (calls s c)) = true ->
  g_cancel (gens s (c_gen (calls s c))) = true ->
  c_phase (calls (fst (exec s (EnqueueClosed c))) c) = PDone RClosed /\
  snd (exec s (EnqueueClosed c)) = [OCompleted c (c_kind (calls s c)) RClosed].
Proof. exact parked_send_released. Qed.
Print Assumptions C09_parked_send_released.

Theorem C09_parked_send_not_released_early : forall s c,
  g_cancel (gens s (c_gen (calls s c))) = false -> exec s (EnqueueClosed c) = (s, []).
Proof. exact parked_send_not_released_early. Qed.
Print Assumptions C09_parked_send_not_released_early.

(** Non-vacuity: a run in which a W-bit send is parked between its socket capture and its write
    across a drop, the teardown, the join, a reconnect and the next generation's Select, while a
    second call round-trips on generation 1 and an async frame is stranded in generation 0's queue,
    is a run of the model; it produces 9 observable labels, one frame on wire 1 and none on wire 0. *)
Example C09_nonvacuous :
  let acts := [Open; TCPUp; Select;
               Enter 0 KSyncW; B1 0; Register 0; Capture 0;
               Enter 2 KAsync; B1 2; Enqueue 2;
               Drop; LoopSpawn; Teardown; Join 0; LoopBegin; Publish; TCPUp; Select; LoopEnd true;
               Check 0; Drain 2; Capture 2; Check 2;
               Enter 1 KSyncW; B1 1; Register 1; Capture 1; Check 1; WriteOk 1; Arm 1;
               PeerSend 1 (FReply 1); Read 1; Route 1; CompleteReply 1] in
  snd (run init acts) =
    [OGenUp 0; OAccepted 0 KSyncW 0; OAccepted 2 KAsync 0; OCompleted 2 KAsync RQueued; OTeardown 0; OGenUp 1;
     OCompleted 0 KSyncW RClosed; OAsyncErr 2 KAsync RClosed; OAccepted 1 KSyncW 1; OWire 1 1 KSyncW;
     OPeerSent 1 (FReply 1); ODispatch 1 (FReply 1) true; OCompleted 1 KSyncW (RReply 1)]
  /\ wire (fst (run init acts)) = [(1, 1, KSyncW)].
Proof. vm_compute. split; reflexivity. Qed.

(** The monitor is not trivially accepting: a frame on the wrong generation's socket, a reply
    from another generation, and a frame after its generation's teardown are each rejected. *)
Example C09_monitor_rejects :
  ok_C09 [OAccepted 0 KSyncW 0; OWire 1 0 KSyncW] = false /\
  ok_C09 [OAccepted 0 KSyncW 0; OWire 0 0 KSyncW; OCompleted 0 KSyncW (RReply 1)] = false /\
  ok_C09 [OAccepted 0 KAsync 0; OCompleted 0 KAsync RQueued; OTeardown 0; OWire 0 0 KAsync] = false.
Proof. vm_compute. repeat split. Qed.

(** Non-vacuity of the three statements above: a waiter of a torn-down generation, and a queued
    frame of a torn-down generation, exist in reachable states. *)
Example C09_waiter_exists :
  let acts := [Open; TCPUp; Select; Enter 0 KSyncW; B1 0; Register 0; Capture 0; Check 0; WriteOk 0; Arm 0;
               Enter 1 KAsync; B1 1; Enqueue 1; Drop; Teardown] in
  let s := fst (run init acts) in
  c_phase (calls s 0) = PWait /\ g_cancel (gens s (c_gen (calls s 0))) = true /\
  live (c_phase (calls s 1)) = true /\ wired s 1 = false /\ g_cancel (gens s (c_gen (calls s 1))) = true.
Proof. vm_compute. repeat split. Qed.

(** Non-vacuity for the parked-send theorems: a reachable state with a send waiting for queue
    space whose generation's teardown has started but whose join has NOT completed. *)
Example C09_parked_exists :
  let acts := [Open; TCPUp; Select; Enter 0 KAsync; B1 0; Drop; Teardown] in
  let s := fst (run init acts) in
  c_phase (calls s 0) = PGated /\ is_async (c_kind (calls s 0)) = true /\
  g_cancel (gens s (c_gen (calls s 0))) = true /\ g_joined (gens s (c_gen (calls s 0))) = false.
Proof. vm_compute. repeat split. Qed.
