(** C17 — SECS-I sends well-formed SEMI E4 blocks and delivers only complete messages.
    This file contains only the property theorems (each closed by [exact]), their assumptions,
    and non-vacuity examples. Models: Secs1/Block.v, Secs1/Assembler.v; proofs:
    Secs1/BlockProofs.v, Secs1/AssemblerProofs.v; tie to the code: Gen/BridgeSecs1.v (constants,
    translator) + hook differential and e2e against an independent E4 peer (checks/C17.py). *)
From Coq Require Import ZArith Bool List Lia.
From GoSecs Require Import Gen.Gen Gen.BridgeSecs1 Secs1.Block Secs1.BlockProofs.
Import ListNotations.
Open Scope Z_scope.

(** ** Transmit side.  For EVERY body of at most 244*32767 bytes and every header: at least one
    and at most 32767 blocks; bodies concatenate to the message body; an empty body gives exactly
    one header-only block; block k (from 0) has at most 244 body bytes, number k+1, the E-bit iff
    it is the last, and the message's device id / R-bit / stream / function / W-bit / system
    bytes; on the line it is [10+len][header][body][sum hi][sum lo] with sum = (Σ header+body)
    mod 2^16, which [parse_block] maps back to the block; and [assemble_frame] of the blocks is
    the HSMS header of the message followed by the body, byte-identical. *)
Theorem C17_split : forall body h,
  wf_mheader h -> bytes_ok body -> zlen body <= max_block_body * max_block_number ->
  exists bs, split_body body h = Ok bs /\
    1 <= zlen bs <= max_block_number /\
    concat (map b_body bs) = body /\
    (body = [] -> bs = [ {| b_hdr := build_header h 1 true; b_body := [] |} ]) /\
    (forall k, (k < length bs)%nat ->
       let b := nth k bs dflt_block in
       length (b_hdr b) = 10%nat /\ zlen (b_body b) <= 244 /\
       hdr_num (b_hdr b) = 1 + Z.of_nat k /\
       hdr_ebit (b_hdr b) = Nat.eqb (S k) (length bs) /\
       msg_header (b_hdr b) = h /\
       block_on_line_ok b) /\
    assemble_frame bs = Ok (hsms_header_of h ++ body).
Proof. exact split_spec. Qed.
Print Assumptions C17_split.

(** What a connection configured with device id [dev] and role [equip] puts on the line for the
    core-framed data message [hh ++ body]: the header fields come from the configuration
    (device id, direction bit = role) and from the HSMS header (stream, function, W, system
    bytes); the peer's reassembly is [session id = dev][same S/F/W][0 0][system bytes] ++ body. *)
Theorem C17_split_frame : forall dev equip hh body,
  0 <= dev <= 32767 -> length hh = 10%nat -> bytes_ok hh -> bytes_ok body ->
  zlen body <= max_block_body * max_block_number ->
  let h := mheader_of_hsms dev equip hh in
  h_dev h = dev /\ h_rbit h = equip /\ h_stream h = hb hh 2 mod 128 /\ h_func h = hb hh 3 /\
  h_wbit h = (128 <=? hb hh 2) /\ h_sys h = firstn 4 (skipn 6 hh) /\
  exists bs, split_frame dev equip hh body = Ok bs /\
    1 <= zlen bs <= max_block_number /\
    concat (map b_body bs) = body /\
    (forall k, (k < length bs)%nat ->
       let b := nth k bs dflt_block in
       zlen (b_body b) <= 244 /\ hdr_num (b_hdr b) = 1 + Z.of_nat k /\
       hdr_ebit (b_hdr b) = Nat.eqb (S k) (length bs) /\ msg_header (b_hdr b) = h /\
       block_on_line_ok b) /\
    assemble_frame bs =
      Ok ([dev / 256; dev mod 256; hb hh 2; hb hh 3; 0; 0] ++ firstn 4 (skipn 6 hh) ++ body).
Proof. exact split_frame_spec. Qed.
Print Assumptions C17_split_frame.

(** Out-of-range header fields and oversize bodies are refused before anything is sent. *)
Theorem C17_split_refuses : forall body h,
  (h_dev h > 32767 \/ h_stream h > 127 -> split_body body h = Err EInvalidHeader) /\
  (h_dev h <= 32767 -> h_stream h <= 127 -> zlen body > max_block_body * max_block_number ->
   split_body body h = Err ETooLarge).
Proof. exact split_body_errors. Qed.
Print Assumptions C17_split_refuses.

(** ** Wire form and corruption *)
Theorem C17_parse_append : forall b,
  wf_block b ->
  exists lb rest, append_block b = lb :: rest /\ parse_block lb rest = Ok b.
Proof. exact parse_append_wire. Qed.
Print Assumptions C17_parse_append.

(** Any single replaced character of header, body or checksum is rejected (the sum of at most
    254 bytes is below 2^16, so one changed byte always changes it). *)
Theorem C17_corrupt_rejected : forall b i v,
  wf_block b -> (i < length (wire_rest b))%nat -> byte_ok v -> v <> nth i (wire_rest b) 0 ->
  parse_block (wire_len b) (replace_nth i v (wire_rest b)) = Err EChecksum.
Proof. exact corrupt_rejected. Qed.
Print Assumptions C17_corrupt_rejected.

(** A replaced length character is rejected as long as the whole transmission reaches
    [parse_block]. What the checksum CANNOT exclude is a length character replaced by a smaller
    one on the line (the receiver then reads a prefix and compares its sum with two data bytes):
    [C17_short_length_undetected] is such a transmission. The line protocol's exposure to it is
    C18's fault model, which excludes it explicitly. *)
Theorem C17_corrupt_length_rejected : forall b lb',
  wf_block b -> lb' <> wire_len b -> parse_block lb' (wire_rest b) = Err EInvalidLength.
Proof. exact corrupt_length_rejected. Qed.
Print Assumptions C17_corrupt_length_rejected.

Theorem C17_short_length_undetected :
  wf_block undetected_block /\ wire_len undetected_block = 14 /\
  parse_block 10 (firstn 12 (wire_rest undetected_block)) =
    Ok {| b_hdr := b_hdr undetected_block; b_body := [] |}.
Proof. exact short_length_undetected. Qed.
Print Assumptions C17_short_length_undetected.

(** ** The constants are the ones in the current source. *)
Theorem C17_bridge_constants :
  Gen.secs1.maxBlockBodySize = max_block_body /\ Gen.secs1.blockHeaderSize = block_header_size /\
  Gen.secs1.checksumSize = checksum_size /\ Gen.secs1.minBlockLength = min_block_length /\
  Gen.secs1.maxBlockLength = max_block_length /\ Gen.secs1.maxBlockNumber = max_block_number /\
  Gen.secs1.hsmsHeaderLen = hsms_header_len.
Proof. exact bridge_block_constants. Qed.
Print Assumptions C17_bridge_constants.

(** ** Non-vacuity *)
Definition ex_header : mheader :=
  {| h_dev := 1; h_rbit := true; h_stream := 6; h_func := 11; h_wbit := true; h_sys := [0; 0; 0; 7] |}.
Example C17_split_nonvacuous :
  wf_mheader ex_header /\
  (exists bs, split_body (repeat 170 245) ex_header = Ok bs /\ length bs = 2%nat /\
     map (fun b => hdr_num (b_hdr b)) bs = [1; 2] /\ map (fun b => hdr_ebit (b_hdr b)) bs = [false; true] /\
     map (fun b => zlen (b_body b)) bs = [244; 1]) /\
  (exists bs, split_body (repeat 1 488) ex_header = Ok bs /\ length bs = 2%nat) /\
  (exists bs, split_body (repeat 1 489) ex_header = Ok bs /\ length bs = 3%nat).
Proof.
  split; [unfold wf_mheader, ex_header, bytes_ok; cbn; repeat split; try lia; repeat constructor; unfold byte_ok; lia|].
  split; [|split]; eexists; (split; [vm_compute; reflexivity|]); repeat split; reflexivity.
Qed.
Example C17_corrupt_nonvacuous :
  let b := {| b_hdr := build_header ex_header 1 true; b_body := [1; 2; 3] |} in
  wf_block b /\ parse_block (wire_len b) (replace_nth 11 9 (wire_rest b)) = Err EChecksum.
Proof.
  cbn zeta. split; [|vm_compute; reflexivity].
  unfold wf_block, bytes_ok, zlen, max_block_body; cbn.
  repeat split; try lia; repeat (constructor; [unfold byte_ok; lia|]); constructor.
Qed.
