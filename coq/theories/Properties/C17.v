(** C17 — SECS-I sends well-formed SEMI E4 blocks and delivers only complete messages.
    This file contains only the property theorems (each closed by [exact]), their assumptions,
    and non-vacuity examples. Models: Secs1/Block.v, Secs1/Assembler.v; proofs:
    Secs1/BlockProofs.v, Secs1/AssemblerProofs.v; tie to the code: Gen/BridgeSecs1.v (constants,
    translator) + hook differential and e2e against an independent E4 peer (checks/C17.py). *)
From Coq Require Import ZArith Bool List Lia.
From GoSecs Require Import Gen.Gen Gen.BridgeSecs1 Secs1.Block Secs1.BlockProofs
  Secs1.Assembler Secs1.AssemblerProofs Secs1.LineBytes Secs1.RecvStream.
Import ListNotations.
Open Scope Z_scope.

(** ** Transmit side.  For EVERY body of at most 244*32767 bytes and every header: at least one
    and at most 32767 blocks; bodies concatenate to the message body; an empty body gives exactly
    one header-only block; block k (from 0) has at most 244 body bytes, number k+1, the E-bit iff
    it is the last, and the message's device id / R-bit / stream / function / W-bit / system
    bytes; on the line it is [10+len][header][body][sum hi][sum lo] with sum = (Σ header+body)
    mod 2^16, which [parse_block] maps back to the block; and [assemble_frame] of the blocks is
    the HSMS header of the message followed by the body, byte-identical. *)
Theorem C17_split : forall body h,
  wf_mheader h -> bytes_ok body -> zlen body <= max_block_body * max_block_number ->
  exists bs, split_body body h = Ok bs /\
    1 <= zlen bs <= max_block_number /\
    concat (map b_body bs) = body /\
    (body = [] -> bs = [ {| b_hdr := build_header h 1 true; b_body := [] |} ]) /\
    (forall k, (k < length bs)%nat ->
       let b := nth k bs dflt_block in
       length (b_hdr b) = 10%nat /\ zlen (b_body b) <= 244 /\
       hdr_num (b_hdr b) = 1 + Z.of_nat k /\
       hdr_ebit (b_hdr b) = Nat.eqb (S k) (length bs) /\
       msg_header (b_hdr b) = h /\
       block_on_line_ok b) /\
    assemble_frame bs = Ok (hsms_header_of h ++ body).
Proof. exact split_spec. Qed.
Print Assumptions C17_split.

(** What a connection configured with device id [dev] and role [equip] puts on the line for the
    core-framed data message [hh ++ body]: the header fields come from the configuration
    (device id, direction bit = role) and from the HSMS header (stream, function, W, system
    bytes); the peer's reassembly is [session id = dev][same S/F/W][0 0][system bytes] ++ body. *)
Theorem C17_split_frame : forall dev equip hh body,
  0 <= dev <= 32767 -> length hh = 10%nat -> bytes_ok hh -> bytes_ok body ->
  zlen body <= max_block_body * max_block_number ->
  let h := mheader_of_hsms dev equip hh in
  h_dev h = dev /\ h_rbit h = equip /\ h_stream h = hb hh 2 mod 128 /\ h_func h = hb hh 3 /\
  h_wbit h = (128 <=? hb hh 2) /\ h_sys h = firstn 4 (skipn 6 hh) /\
  exists bs, split_frame dev equip hh body = Ok bs /\
    1 <= zlen bs <= max_block_number /\
    concat (map b_body bs) = body /\
    (forall k, (k < length bs)%nat ->
       let b := nth k bs dflt_block in
       zlen (b_body b) <= 244 /\ hdr_num (b_hdr b) = 1 + Z.of_nat k /\
       hdr_ebit (b_hdr b) = Nat.eqb (S k) (length bs) /\ msg_header (b_hdr b) = h /\
       block_on_line_ok b) /\
    assemble_frame bs =
      Ok ([dev / 256; dev mod 256; hb hh 2; hb hh 3; 0; 0] ++ firstn 4 (skipn 6 hh) ++ body).
Proof. exact split_frame_spec. Qed.
Print Assumptions C17_split_frame.

(** Out-of-range header fields and oversize bodies are refused before anything is sent. *)
Theorem C17_split_refuses : forall body h,
  (h_dev h > 32767 \/ h_stream h > 127 -> split_body body h = Err EInvalidHeader) /\
  (h_dev h <= 32767 -> h_stream h <= 127 -> zlen body > max_block_body * max_block_number ->
   split_body body h = Err ETooLarge).
Proof. exact split_body_errors. Qed.
Print Assumptions C17_split_refuses.

(** ** Wire form and corruption *)
Theorem C17_parse_append : forall b,
  wf_block b ->
  exists lb rest, append_block b = lb :: rest /\ parse_block lb rest = Ok b.
Proof. exact parse_append_wire. Qed.
Print Assumptions C17_parse_append.

(** Any single replaced character of header, body or checksum is rejected (the sum of at most
    254 bytes is below 2^16, so one changed byte always changes it). *)
Theorem C17_corrupt_rejected : forall b i v,
  wf_block b -> (i < length (wire_rest b))%nat -> byte_ok v -> v <> nth i (wire_rest b) 0 ->
  parse_block (wire_len b) (replace_nth i v (wire_rest b)) = Err EChecksum.
Proof. exact corrupt_rejected. Qed.
Print Assumptions C17_corrupt_rejected.

(** A replaced length character is rejected as long as the whole transmission reaches
    [parse_block]. What the checksum CANNOT exclude is a length character replaced by a smaller
    one on the line (the receiver then reads a prefix and compares its sum with two data bytes):
    [C17_short_length_undetected] is such a transmission. The line protocol's exposure to it is
    C18's fault model, which excludes it explicitly. *)
Theorem C17_corrupt_length_rejected : forall b lb',
  wf_block b -> lb' <> wire_len b -> parse_block lb' (wire_rest b) = Err EInvalidLength.
Proof. exact corrupt_length_rejected. Qed.
Print Assumptions C17_corrupt_length_rejected.

Theorem C17_short_length_undetected :
  wf_block undetected_block /\ wire_len undetected_block = 14 /\
  parse_block 10 (firstn 12 (wire_rest undetected_block)) =
    Ok {| b_hdr := b_hdr undetected_block; b_body := [] |}.
Proof. exact short_length_undetected. Qed.
Print Assumptions C17_short_length_undetected.

(** ** Receive side.  For EVERY inbound sequence of checksum-valid blocks (each with the clock
    reading and the live T4 of its [accept] call), the frames the assembler delivers are exactly
    those of [spec_deliveries], the reading of SEMI E4 §9.4 in Secs1/Assembler.v: a block counts
    only if it carries our device id and is directed to us; a block with the header of the block
    accepted last is a retransmission; the candidate run is abandoned once T4 has elapsed since its
    last block; a block is accepted iff the run extended by it — else the block alone — passes the
    stateless well-formedness predicate [e4_prefix]; a frame = HSMS header from the first block's
    fields ++ concatenated bodies is delivered iff the accepted block carries the E-bit. *)
Theorem C17_assembler : forall cfg seq, deliveries cfg seq = spec_deliveries cfg seq.
Proof. exact assembler_refines_spec. Qed.
Print Assumptions C17_assembler.

(** [accept] never returns an error (its only error source, assembleFrame on the accumulated
    blocks, cannot fail), and its effect vocabulary ([aout]) contains nothing that touches the
    link: malformed, misaddressed, duplicate and out-of-sequence blocks never take the link down. *)
Theorem C17_assembler_never_errors : forall cfg seq,
  Forall (fun o => forallb (fun x => negb (is_error x)) o = true) (run_from cfg astate0 seq).
Proof. exact assembler_never_errors. Qed.
Print Assumptions C17_assembler_never_errors.

(** Only complete messages are delivered: every delivered frame is [frame_of run] for blocks
    [run] taken in order from the input, all addressed to us, forming a complete E4 message in the
    global sense of the property text ([e4_message]: numbered 1..N or a lone block 0, E-bit on
    exactly the last, one invariant header, every inter-block gap within T4). *)
Theorem C17_only_complete_messages : forall cfg seq f,
  In f (deliveries cfg seq) ->
  exists run, subseq run seq /\ Forall (fun x => addressed cfg x = true) run /\
              e4_message run /\ f = frame_of run.
Proof. exact deliveries_sound. Qed.
Print Assumptions C17_only_complete_messages.

(** Every complete message is delivered, exactly once and byte-identical, whatever preceded it:
    if after an arbitrary prefix [pre] the segment [seg] carries the blocks of [run] in order —
    interleaved with any blocks not addressed to us and with retransmissions of the block sent
    last (arriving within T4 of it) — and [run] is a complete message whose first block is not
    itself a retransmission of the block accepted last in [pre], then processing [seg] adds
    exactly the one delivery [frame_of run]. *)
Theorem C17_complete_message_delivered : forall cfg pre seg run,
  interleave cfg None seg run -> e4_prefix run = true -> hdr_ebit (e_hdr (last_ev run)) = true ->
  Forall (fun e => addressed cfg e = true) run ->
  is_retransmission (last_accepted cfg pre) (hd dflt_ev run) = false ->
  deliveries cfg (pre ++ seg) = deliveries cfg pre ++ [frame_of run].
Proof. exact clean_transmission_delivered. Qed.
Print Assumptions C17_complete_message_delivered.

Theorem C17_e4_message_form : forall run,
  e4_prefix run = true -> hdr_ebit (e_hdr (last_ev run)) = true -> e4_message run.
Proof. exact e4_prefix_global. Qed.
Print Assumptions C17_e4_message_form.

(** Wrong-device and wrong-direction blocks change nothing and deliver nothing; a retransmitted
    block (header of the block accepted last) delivers nothing. *)
Theorem C17_not_addressed_ignored : forall cfg st e,
  addressed cfg e = false ->
  fst (accept cfg st e) = st /\ deliveries_of (snd (accept cfg st e)) = [] /\
  forallb (fun x => negb (is_error x)) (snd (accept cfg st e)) = true.
Proof. exact not_addressed_ignored. Qed.
Print Assumptions C17_not_addressed_ignored.
Theorem C17_retransmission_dropped : forall cfg st e,
  a_have_last st = true -> e_hdr e = a_last_hdr st ->
  deliveries_of (snd (accept cfg st e)) = [] /\
  a_last_hdr (fst (accept cfg st e)) = a_last_hdr st /\ a_have_last (fst (accept cfg st e)) = true /\
  (a_open (fst (accept cfg st e)) = true -> fst (accept cfg st e) = st).
Proof. exact retransmission_dropped. Qed.
Print Assumptions C17_retransmission_dropped.

(** ** Nothing out of a corrupt, NAK'd transmission.  Character-level model of the receiving side
    (idle loop + receiveBlock + drainUntilSilence, Secs1/RecvStream.v): a transmission the receive
    procedure does not accept — nothing, a length out of range, fewer characters than announced, or
    a failing checksum over the ANNOUNCED extent, e.g. a length character corrupted downward or
    upward while the sender transmits the original extent — is answered by exactly one NAK after
    the line fell silent (E4 7.8.5), and nothing it contains is answered or delivered, whatever
    follows the failed frame inside it (ENQ + a well-formed block image, EOT/ACK/NAK, ...). With the
    length lowered the decision depends on the announced prefix only, never on the tail. *)
Theorem C17_nakd_transmission : forall l,
  recv_bytes l = None -> rrun RLen (chars l ++ [Silence]) = (RIdle, [Emit c_nak]).
Proof. exact nakd_transmission. Qed.
Print Assumptions C17_nakd_transmission.

Theorem C17_nakd_transmission_after_enq : forall l,
  recv_bytes l = None ->
  rrun RIdle (Ch c_enq :: chars l ++ [Silence]) = (RIdle, [Emit c_eot; Emit c_nak]).
Proof. exact nakd_transmission_after_enq. Qed.
Print Assumptions C17_nakd_transmission_after_enq.

Theorem C17_intact_transmission : forall b,
  wf_block b -> rrun RLen (chars (append_block b) ++ [Silence]) = (RIdle, [Emit c_ack; Deliver b]).
Proof. exact intact_transmission. Qed.
Print Assumptions C17_intact_transmission.

Theorem C17_length_down_tail_irrelevant : forall b lb' tail,
  wf_block b -> lb' < wire_len b ->
  recv_bytes (lb' :: wire_rest b ++ tail) = recv_bytes (lb' :: wire_rest b).
Proof. exact length_down_tail_irrelevant. Qed.
Print Assumptions C17_length_down_tail_irrelevant.

Theorem C17_bridge_recv_chars :
  c_enq = Gen.secs1.enq /\ c_eot = Gen.secs1.eot /\ c_ack = Gen.secs1.ack /\ c_nak = Gen.secs1.nak.
Proof. exact bridge_recv_chars. Qed.
Print Assumptions C17_bridge_recv_chars.

(** ** The constants are the ones in the current source. *)
Theorem C17_bridge_constants :
  Gen.secs1.maxBlockBodySize = max_block_body /\ Gen.secs1.blockHeaderSize = block_header_size /\
  Gen.secs1.checksumSize = checksum_size /\ Gen.secs1.minBlockLength = min_block_length /\
  Gen.secs1.maxBlockLength = max_block_length /\ Gen.secs1.maxBlockNumber = max_block_number /\
  Gen.secs1.hsmsHeaderLen = hsms_header_len.
Proof. exact bridge_block_constants. Qed.
Print Assumptions C17_bridge_constants.

(** ** Non-vacuity *)
Definition ex_header : mheader :=
  {| h_dev := 1; h_rbit := true; h_stream := 6; h_func := 11; h_wbit := true; h_sys := [0; 0; 0; 7] |}.
Example C17_split_nonvacuous :
  wf_mheader ex_header /\
  (exists bs, split_body (repeat 170 245) ex_header = Ok bs /\ length bs = 2%nat /\
     map (fun b => hdr_num (b_hdr b)) bs = [1; 2] /\ map (fun b => hdr_ebit (b_hdr b)) bs = [false; true] /\
     map (fun b => zlen (b_body b)) bs = [244; 1]) /\
  (exists bs, split_body (repeat 1 488) ex_header = Ok bs /\ length bs = 2%nat) /\
  (exists bs, split_body (repeat 1 489) ex_header = Ok bs /\ length bs = 3%nat).
Proof.
  split; [unfold wf_mheader, ex_header, bytes_ok; cbn; repeat split; try lia; repeat constructor; unfold byte_ok; lia|].
  split; [|split]; eexists; (split; [vm_compute; reflexivity|]); repeat split; reflexivity.
Qed.
Example C17_corrupt_nonvacuous :
  let b := {| b_hdr := build_header ex_header 1 true; b_body := [1; 2; 3] |} in
  wf_block b /\ parse_block (wire_len b) (replace_nth 11 9 (wire_rest b)) = Err EChecksum.
Proof.
  cbn zeta. split; [|vm_compute; reflexivity].
  unfold wf_block, bytes_ok, zlen, max_block_body; cbn.
  repeat split; try lia; repeat (constructor; [unfold byte_ok; lia|]); constructor.
Qed.

(** Receive side: a garbage prefix (a stray block 2), then a two-block message to an equipment
    with device id 1, with a foreign block and a retransmission in between — delivered once. *)
Definition ex_cfg : acfg := {| c_equip := true; c_dev := 1 |}.
Definition ex_in : mheader :=
  {| h_dev := 1; h_rbit := false; h_stream := 1; h_func := 3; h_wbit := true; h_sys := [0; 0; 0; 9] |}.
Definition ex_ev (t : Z) (h : mheader) (num : Z) (last : bool) (body : list Z) : ev :=
  {| e_time := t; e_t4 := 100; e_blk := {| b_hdr := build_header h num last; b_body := body |} |}.
Definition ex_b1 := ex_ev 10 ex_in 1 false (repeat 7 244).
Definition ex_b2 := ex_ev 50 ex_in 2 true [8; 9].
Definition ex_foreign := ex_ev 20 ex_header 1 true [1].
Definition ex_dup := ex_ev 30 ex_in 1 false (repeat 7 244).
Definition ex_stray := ex_ev 0 ex_in 2 true [5].
Example C17_assembler_nonvacuous :
  interleave ex_cfg None [ex_b1; ex_foreign; ex_dup; ex_b2] [ex_b1; ex_b2] /\
  e4_prefix [ex_b1; ex_b2] = true /\
  is_retransmission (last_accepted ex_cfg [ex_stray]) ex_b1 = false /\
  deliveries ex_cfg ([ex_stray] ++ [ex_b1; ex_foreign; ex_dup; ex_b2]) =
    [hsms_header_of ex_in ++ repeat 7 244 ++ [8; 9]] /\
  deliveries ex_cfg [ex_b1; ex_ev 150 ex_in 2 true [8; 9]] = [] (* T4 = 100 exceeded *).
Proof.
  split; [|split; [|split; [|split]]]; try (vm_compute; reflexivity).
  apply il_run. apply il_foreign; [vm_compute; reflexivity|].
  apply il_dup; [vm_compute; reflexivity|reflexivity|vm_compute; discriminate|].
  apply il_run. apply il_nil.
Qed.

(** A block whose body carries "ENQ + a complete block image": with the length character lowered to
    10 the receiver sees a header-only frame with a wrong checksum, listens the line silent and
    NAKs; the image is neither granted nor delivered. *)
Example C17_nakd_nonvacuous :
  let image := {| b_hdr := build_header ex_in 1 true; b_body := [7] |} in
  let carrier := {| b_hdr := build_header ex_in 1 true; b_body := [255; 255; 5] ++ append_block image |} in
  recv_bytes (10 :: wire_rest carrier) = None /\
  rrun RIdle (Ch c_enq :: chars (10 :: wire_rest carrier) ++ [Silence]) = (RIdle, [Emit c_eot; Emit c_nak]) /\
  rrun RIdle (Ch c_enq :: chars (append_block image) ++ [Silence]) = (RIdle, [Emit c_eot; Emit c_ack; Deliver image]).
Proof. cbn zeta. repeat split; vm_compute; reflexivity. Qed.
