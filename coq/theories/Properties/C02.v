(** C02 — the SECS-II decoder is total, memory-bounded and faithful on arbitrary bytes.
    Only property theorems (closed by [exact]), their assumptions, and non-vacuity examples.
    Model: Secs2/Decode.v (decoder), DecodeChk.v (instrumented twin: Panic wherever decode.go
    indexes/slices out of range), DecodeCost.v (allocation accounting); grammar: Grammar.v;
    proofs: DecodeProofs.v, DecodeSound.v, DecodeRejects.v, DecodeChkProofs.v,
    DecodeCostProofs.v; tie: Gen/BridgeSecs2.v + differential on mutated byte strings. *)
From Coq Require Import ZArith Bool List Lia.
From GoSecs Require Import Base.BytesBE Gen.Gen Gen.BridgeSecs2.
From GoSecs Require Import Secs2.Item Secs2.Encode Secs2.Decode Secs2.Grammar Secs2.DecodeChk Secs2.DecodeCost Secs2.Slab.
From GoSecs Require Import Secs2.EncodeProofs Secs2.DecodeProofs Secs2.DecodeSound Secs2.DecodeRejects
  Secs2.DecodeChkProofs Secs2.DecodeCostProofs.
Import ListNotations.
Open Scope Z_scope.

(** Total, no panic: on EVERY byte string the decoder written with Go's index/slice
    operations never reaches outside the buffer, and the recursion fuel [S (length input)]
    is never exhausted (termination). *)
Theorem C02_no_panic : forall bs, bytes_ok bs -> chk_decode bs <> OPanic.
Proof. exact chk_no_panic. Qed.
Print Assumptions C02_no_panic.
Theorem C02_total : forall bs, decode bs <> Err ErrFuel.
Proof. exact decode_total. Qed.
Print Assumptions C02_total.
Theorem C02_twin_agrees : forall bs, bytes_ok bs ->
  chk_decode bs = match decode bs with
                  | Ok (y, rest) => OOk y (zlen bs - zlen rest)
                  | Err e => OErr e
                  end.
Proof. exact chk_agrees. Qed.
Print Assumptions C02_twin_agrees.

(** Faithful (soundness): whatever is accepted is an E5 encoding — [E5 false]: length field
    possibly non-canonical — of exactly the returned value, within the nesting limit; the
    consumed bytes (what the decoded item re-emits) followed by the unread rest are the input. *)
Theorem C02_sound : forall bs y rest, bytes_ok bs -> decode bs = Ok (y, rest) ->
  (bs = [] /\ y = IEmpty /\ rest = []) \/
  (exists p, bs = p ++ rest /\ E5 false p y /\ depth y <= max_depth).
Proof. exact decode_sound. Qed.
Print Assumptions C02_sound.
Theorem C02_reencode : forall (bs rest p : list Z), bs = p ++ rest -> consumed bs rest = p.
Proof. exact decode_consumed. Qed.
Print Assumptions C02_reencode.

(** Faithful (completeness): every E5 encoding, canonical or not, within the nesting limit is
    accepted with exactly the value the grammar assigns, whatever follows it. *)
Theorem C02_complete : forall canon p y rest, E5 canon p y -> depth y <= max_depth ->
  decode (p ++ rest) = Ok (y, rest).
Proof. exact decode_E5. Qed.
Print Assumptions C02_complete.

(** Everything the grammar rejects is rejected (generic), and each class named in the
    property statement. *)
Theorem C02_rejects : forall bs, bytes_ok bs -> bs <> [] ->
  (forall p rest y, bs = p ++ rest -> E5 false p y -> depth y <= max_depth -> False) ->
  is_err (decode bs).
Proof. exact reject_not_E5. Qed.
Print Assumptions C02_rejects.
Theorem C02_rejects_zero_length_bytes : forall fb r, fb mod 4 = 0 -> decode (fb :: r) = Err ErrZeroLen.
Proof. exact reject_zero_length_bytes. Qed.
Theorem C02_rejects_truncated_header : forall fb r, fb mod 4 <> 0 -> zlen r < fb mod 4 ->
  decode (fb :: r) = Err ErrEndLength.
Proof. exact reject_truncated_header. Qed.
Theorem C02_rejects_unknown_format_code : forall canon fc n h body, hdr canon fc n h -> 0 <= fc < 64 ->
  known_fc fc = false -> decode (h ++ body) = Err ErrUnknownFc.
Proof. exact reject_unknown_format_code. Qed.
Theorem C02_rejects_truncated_payload : forall canon fc n h body, hdr canon fc n h ->
  In fc [fc_binary; fc_boolean; fc_ascii; fc_jis8] -> zlen body < n ->
  decode (h ++ body) = Err ErrEndPayload.
Proof. exact reject_truncated_payload. Qed.
Theorem C02_rejects_numeric : forall canon k w n h body, hdr canon (fc_num k w) n h ->
  (k = KFloat -> float_width w = true) ->
  (n mod wz w <> 0 -> decode (h ++ body) = Err ErrMultiple) /\
  (n mod wz w = 0 -> zlen body < n -> decode (h ++ body) = Err ErrEndPayload).
Proof. exact reject_numeric. Qed.
Theorem C02_rejects_localized : forall canon n h body, hdr canon fc_localized n h ->
  (n < 2 -> decode (h ++ body) = Err ErrLocShort) /\
  (2 <= n -> zlen body < n -> decode (h ++ body) = Err ErrEndPayload).
Proof. exact reject_localized. Qed.
Theorem C02_rejects_list_count : forall canon n h body, hdr canon fc_list n h -> zlen body < n * 2 ->
  decode (h ++ body) = Err ErrListCount.
Proof. exact reject_list_count. Qed.
Theorem C02_rejects_too_deep : forall canon p y rest, E5 canon p y -> depth y > max_depth ->
  decode (p ++ rest) = Err ErrDepth.
Proof. exact reject_too_deep. Qed.
Print Assumptions C02_rejects_unknown_format_code.
Print Assumptions C02_rejects_numeric.
Print Assumptions C02_rejects_too_deep.

(** Memory: the sizes requested while decoding are bounded by a constant multiple of the input
    length plus a constant, whatever lengths the input claims:
    [cost_factor] = 1 (clone) + 52 (completed items) + 8 * MaxListDepth (one child slice per
    in-progress list, each sized only after [count * 2 <= remaining]) = 565. *)
Theorem C02_memory : forall bs, bytes_ok bs ->
  0 <= decode_cost bs <= cost_factor * zlen bs + cost_offset.
Proof. exact decode_cost_bound. Qed.
Print Assumptions C02_memory.
Theorem C02_memory_accepted : forall bs y rest, bytes_ok bs -> bs <> [] -> decode bs = Ok (y, rest) ->
  decode_cost bs <= (1 + cost_per_byte) * zlen bs + sz_slab_header + slab_tail.
Proof. exact decode_cost_accepted. Qed.
Print Assumptions C02_memory_accepted.

(** The constants the bound depends on are the current source's. *)
Theorem C02_bridge_limits :
  Gen.secs2.MaxByteSize = max_size /\ Gen.secs2.MaxListDepth = max_depth.
Proof. exact bridge_limits. Qed.
Theorem C02_bridge_slab : Gen.secs2.slabChunkSizes = [1; 4; 16; 64; 128].
Proof. exact bridge_slabChunkSizes. Qed.
Print Assumptions C02_bridge_limits.

(** The per-type item slabs: for any number of carved leaves the chunk schedule of the current
    source is never indexed out of range, and structs allocated minus structs handed out stays
    below its largest chunk (128): with 8 slabs of structs of at most 72 bytes that is the
    constant [slab_tail] inside [decode_cost]. *)
Theorem C02_slab_tail : forall m, exists t,
  iter_next Gen.secs2.slabChunkSizes m slab0 = Some t /\ handed_out t = Z.of_nat m /\
  allocated t - handed_out t <= max_chunk Gen.secs2.slabChunkSizes - (if (m =? 0)%nat then 0 else 1).
Proof.
  exact (slab_tail_bound Gen.secs2.slabChunkSizes (proj1 bridge_slab_schedule)
           (proj1 (proj2 bridge_slab_schedule))).
Qed.
Theorem C02_bridge_slab_tail : 8 * max_chunk Gen.secs2.slabChunkSizes * 72 = slab_tail.
Proof. exact (proj2 (proj2 bridge_slab_schedule)). Qed.
Print Assumptions C02_slab_tail.

(** Non-vacuity. *)
Example C02_noncanonical_accepted :   (* U1[1]=5 with a 3-byte length field *)
  E5 false [167; 0; 0; 1; 5] (IUint W1 [5]) /\ decode [167; 0; 0; 1; 5; 9] = Ok (IUint W1 [5], [9]).
Proof.
  split; [|vm_compute; reflexivity].
  apply (E5_uint false [167; 0; 0; 1] W1 [5]).
  - exists 3%nat. split; [|reflexivity]. split; [lia|]. split; [unfold pow256; cbn; lia|discriminate].
  - repeat constructor; cbn; lia.
Qed.
Example C02_rejections_nonvacuous :
  decode [165] = Err ErrEndLength /\ decode [164; 0] = Err ErrZeroLen /\
  decode [255; 0; 0; 0] = Err ErrUnknownFc /\ decode [105; 3; 1; 2; 3] = Err ErrMultiple /\
  decode [73; 1] = Err ErrLocShort /\ decode [65; 5; 1] = Err ErrEndPayload /\
  decode [1; 2; 1; 0] = Err ErrListCount.
Proof. vm_compute. repeat split. Qed.
Fixpoint nest (n : nat) (x : item) : item :=
  match n with O => x | S k => IList [nest k x] end.
Fixpoint nest_bytes (n : nat) (inner : list Z) : list Z :=
  match n with O => inner | S k => 1 :: 1 :: nest_bytes k inner end.
Example C02_depth_boundary :
  (exists y, decode (nest_bytes 64 [165; 1; 7]) = Ok (y, []) /\ depth y = 64) /\
  decode (nest_bytes 65 [165; 1; 7]) = Err ErrDepth.
Proof.
  split; [|vm_compute; reflexivity].
  exists (nest 64 (IUint W1 [7])). split; vm_compute; reflexivity.
Qed.
(** The multiple is not small: 16 nested lists each claiming the most children their remaining
    bytes allow already cost more than 100 bytes per input byte. *)
Definition amp_input : list Z :=
  (fix go (k : nat) (remaining : Z) : list Z :=
     match k with
     | O => repeat 1 (Z.to_nat remaining)
     | S k' => let n := (remaining - 3) / 2 in
               2 :: n / 256 :: n mod 256 :: go k' (remaining - 3)
     end) 16%nat 1000.
Example C02_memory_nonvacuous :
  bytes_okb amp_input = true /\ zlen amp_input = 1000 /\ 100 * zlen amp_input <= decode_cost amp_input.
Proof. split; [vm_compute; reflexivity|split; [vm_compute; reflexivity|vm_compute; discriminate]]. Qed.
