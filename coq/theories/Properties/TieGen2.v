(** Tie theorems of translator v2: each states that a function REGENERATED from the current Go
    source ([Gen/Gen2.v], byte-slice code with loops, panics explicit as [GPanic]) equals the
    hand-written model function the property theorems are about. Only [exact] + [Print Assumptions].
    Checked by [bin/vtie2]; meant to be listed as obligations of the properties that rely on the
    model (C17: Secs1/Block.v; C01/C03: Secs2/Encode.v; C03/C06: Hsms/Header.v, Frame.v). *)
From Coq Require Import String.
From Coq Require Import ZArith Bool List Lia.
From GoSecs Require Import Base.GoInt Base.BytesBE Base.GoSlice Gen.Gen2.
From GoSecs Require Import Secs1.Block Gen.Bridge2Secs1.
From GoSecs Require Secs2.Encode Gen.Bridge2Secs2.
Import ListNotations.
Open Scope Z_scope.

(** * C17 — secs1/block.go *)

(** [buildHeader]: for every header whose [function] is a [uint8] and whose system bytes are a
    [[4]byte] (the Go types), every block number and E-bit: no panic, the ten bytes of [build_header]. *)
Theorem tie_secs1_buildHeader : forall h num last,
  0 <= h_func h < 256 -> length (h_sys h) = 4%nat ->
  Gen2.secs1.buildHeader (mh_of h) num last = GOk (build_header h num last).
Proof. exact bridge_buildHeader. Qed.
Print Assumptions tie_secs1_buildHeader.

(** [block.appendTo] (length byte, header, body, 16-bit checksum computed by the loop over the
    bytes just written): for EVERY block and destination, no panic, appends [append_block]. *)
Theorem tie_secs1_appendTo : forall b dst,
  Gen2.secs1.block_appendTo (blk_of b) dst = GOk (dst ++ append_block b).
Proof. exact bridge_appendTo. Qed.
Print Assumptions tie_secs1_appendTo.

(** [parseBlock]: for every length byte and EVERY slice, no panic, the block / error class of
    [parse_block]. *)
Theorem tie_secs1_parseBlock : forall lb rest,
  0 <= lb < 256 ->
  Gen2.secs1.parseBlock lb rest = GOk (parse_result_of (parse_block lb rest)).
Proof. exact bridge_parseBlock. Qed.
Print Assumptions tie_secs1_parseBlock.

(** * C01 / C03 — secs2/item.go *)

(** [appendHeaderBytesFC]: for every destination, every 6-bit format code and EVERY length field:
    no panic; a length field above MaxByteSize (2^24-1) is refused with [dst] untouched, otherwise
    the bytes appended are [header fc n] (format byte + minimal big-endian length bytes). *)
Theorem tie_secs2_appendHeaderBytesFC : forall dst fc n,
  0 <= fc < 64 ->
  Gen2.secs2.appendHeaderBytesFC dst fc n =
  GOk (if n >? 16777215 then (dst, ErrNew "size limit exceeded"%string)
       else (dst ++ Secs2.Encode.header fc n, ErrNil)).
Proof. exact Bridge2Secs2.bridge_appendHeaderBytesFC. Qed.
Print Assumptions tie_secs2_appendHeaderBytesFC.
