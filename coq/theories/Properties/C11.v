(** C11 — After any link failure an open connection recovers to a working Selected session.
    This file contains only the property theorems (each closed by [exact]), their assumptions,
    and non-vacuity examples.

    Backoff arithmetic: model Hsms/Backoff.v (Flocq binary64), proofs Hsms/BackoffProofs.v, tie =
    hook differential on the real nextBackoffDelay (bit-exact) + source-shape guard + e2e dial
    timestamps. Lifecycle (a loop always exists, reconnect counter, no dial after Close): model
    Hsms/Lifecycle.v, invariant Hsms/LifecycleInv.v, proofs Hsms/LifecycleProofs.v, tie = e2e
    histories judged by the extracted monitor. "Eventually re-establishes a Selected session" is
    liveness (fair scheduling, reachable peer): observed by the harness in every run, not proved. *)
From Coq Require Import ZArith Bool List Lia.
From GoSecs Require Import Gen.Gen Gen.BridgeBackoff Hsms.Backoff Hsms.BackoffProofs Hsms.Lifecycle Hsms.LifecycleInv Hsms.LifecycleProofs Hsms.LifecycleRecovery.
Import ListNotations.
Close Scope Z_scope.

(** * Backoff *)
Section Backoff.
Open Scope Z_scope.

(** Backoff delays start at the configured initial value (capped by T5), never decrease and never
    exceed T5 — for EVERY positive int64 initial delay and T5 and EVERY multiplier (finite, +-Inf,
    NaN), for the function as it reads since /repo commit 67dfa20. *)
Theorem C11_backoff : forall init mult t5, 0 < init -> 0 < t5 ->
  Backoff_sleep init mult t5 0 = Z.min init t5 /\
  forall k, Backoff_sleep init mult t5 k <= Backoff_sleep init mult t5 (S k) <= t5.
Proof. exact Backoff_sleeps_ok. Qed.
Print Assumptions C11_backoff.

Theorem C11_backoff_step : forall cur mult ceil, 0 < cur -> 0 < ceil ->
  Z.min cur ceil <= Backoff_next_delay cur mult ceil <= ceil.
Proof. exact Backoff_next_delay_bounds. Qed.
Print Assumptions C11_backoff_step.

(** Regression material about the function BEFORE the fix (DESIGN §5 #7). It satisfied the same
    statement only up to 2^53 ns (about 104 days) and only for validated multipliers ... *)
Theorem C11_backoff_old_upto_2p53 : forall init mult t5,
  0 < init -> Backoff_mult_ok mult = true -> 0 < t5 ->
  init <= Backoff_two53 -> t5 <= Backoff_two53 ->
  Backoff_sleep_old init mult t5 0 = Z.min init t5 /\
  forall k, Backoff_sleep_old init mult t5 k <= Backoff_sleep_old init mult t5 (S k) <= t5.
Proof. exact Backoff_sleeps_old_ok. Qed.
Print Assumptions C11_backoff_old_upto_2p53.

(** ... beyond that bound it was refuted: with initial = 2^53+1 ns, multiplier 1.0 and
    T5 = 2^62 ns the second sleep was 1 ns SHORTER than the first ... *)
Theorem C11_backoff_old_refuted_beyond_2p53 :
  exists init mult t5, 0 < init /\ Backoff_mult_ok mult = true /\ 0 < t5 /\
    Backoff_sleep_old init mult t5 1 < Backoff_sleep_old init mult t5 0.
Proof. exact Backoff_old_refuted_beyond_2p53. Qed.

Theorem C11_backoff_old_refuted_witness :
  Backoff_next_delay_old_bits (Backoff_two53 + 1) Backoff_one_bits (2 ^ 62) = Backoff_two53.
Proof. exact Backoff_old_refuted_witness. Qed.

(** ... and on the range of [C11_backoff_old_upto_2p53] the fix changes no result. *)
Theorem C11_backoff_fix_conservative : forall cur mult ceil,
  0 < cur <= Backoff_two53 -> Backoff_mult_ok mult = true -> 0 < ceil ->
  Backoff_next_delay cur mult ceil = Backoff_next_delay_old cur mult ceil.
Proof. exact Backoff_same_as_old_in_range. Qed.

(** Non-vacuity: the default configuration (100 ms, x2.0, T5 = 10 s) produces the expected ramp;
    the old failing input no longer decreases; NaN / +Inf multipliers go straight to T5. *)
Definition C11_two_bits : Z := 4611686018427387904. (* 0x4000000000000000 = 2.0 *)
Example C11_backoff_nonvacuous :
  Backoff_sleeps_from 100000000 (Backoff_f64_of_bits C11_two_bits) 10000000000 9 =
  [100000000; 200000000; 400000000; 800000000; 1600000000; 3200000000; 6400000000; 10000000000; 10000000000].
Proof. vm_compute. reflexivity. Qed.
(** The FIRST wait of every loop is already capped: with initial above T5 (nothing validates
    initial <= T5) every separation is T5 — never the raw initial followed by a smaller one. *)
Example C11_backoff_first_wait_capped :
  (forall init mult t5, Backoff_sleep init mult t5 0 = Backoff_cap init t5) /\
  Backoff_sleeps_from 4000000000 (Backoff_f64_of_bits C11_two_bits) 20000000 4 = [20000000; 20000000; 20000000; 20000000] /\
  Backoff_sleeps_from 100000000 (Backoff_f64_of_bits C11_two_bits) 5000000 3 = [5000000; 5000000; 5000000].
Proof. split; [reflexivity|]. vm_compute. split; reflexivity. Qed.
Example C11_backoff_regression_2p53 :
  Backoff_next_delay_bits (Backoff_two53 + 1) Backoff_one_bits (2 ^ 62) = Backoff_two53 + 1.
Proof. exact Backoff_regression_2p53. Qed.
Example C11_backoff_nan_inf_nonvacuous :
  Backoff_mult_ok (Backoff_f64_of_bits 9221120237041090560) = true /\   (* NaN passes the validation *)
  Backoff_mult_ok (Backoff_f64_of_bits 9218868437227405312) = true /\   (* +Inf *)
  Backoff_mult_ok (Backoff_f64_of_bits 4602678819172646912) = false /\  (* 0.5 *)
  Backoff_next_delay_bits 1000 9221120237041090560 5000 = 5000 /\
  Backoff_next_delay_bits 1000 9218868437227405312 5000 = 5000.
Proof. vm_compute. repeat split; reflexivity. Qed.
End Backoff.
Close Scope Z_scope.

(** * Lifecycle (safety half of "keeps dialing / resumes listening") *)

(** In every reachable state in which the connection is open (supervisor alive, no Close / failed
    Open in progress) and NotConnected, something is driving it towards a connection: an Open is
    inside its Start or its cold-start path, the supervisor is inside the NotConnected reaction
    (about to start the loop), a reconnect loop is alive before the end of its Start, a passive
    generation is listening with its accept goroutine alive, or an accepted peer is about to be
    committed. *)
Theorem C11_loop_exists : forall s, Lifecycle_reachable s ->
  lc_is_alive (lc_sup s) = true -> lc_shutdown s = false -> lc_is_nc (lc_st s) = true ->
  lc_covered s = true.
Proof.
  intros s Hr. exact (Lifecycle_loop_exists s (proj1 (Lifecycle_reachable_inv s Hr))).
Qed.
Print Assumptions C11_loop_exists.

(** The reconnect counter grows by exactly one per successful re-dial of a loop started with
    countReconnect: at every moment, Reconnects() plus the loops that have completed their Start
    but not yet executed the increment equals the number of such successful re-dials. *)
Theorem C11_reconnect_count : forall s, Lifecycle_reachable s ->
  lc_reconnects s + lc_tailc s = lc_redials s.
Proof. exact Lifecycle_reconnect_count. Qed.
Print Assumptions C11_reconnect_count.

(** No reconnect is attempted after Close: from a state in which Close has returned, as long as
    no Open call is made, nothing changes and the log shows no dial, listen or publish. *)
Theorem C11_no_dial_after_close : forall s acts s', Lifecycle_reachable s -> lc_closed s ->
  forallb (fun a => negb (lc_is_open_call a)) acts = true ->
  Lifecycle_run s acts = Some s' ->
  s' = s /\ existsb lc_obs_is_dial (Lifecycle_observe s acts) = false.
Proof.
  intros s acts s' Hr. exact (Lifecycle_no_dial_after_close acts s s' (proj1 (Lifecycle_reachable_inv s Hr))).
Qed.
Print Assumptions C11_no_dial_after_close.

(** The extracted monitor accepts every run of the model. *)
Theorem C11_all_runs : forall active acts s,
  Lifecycle_run (Lifecycle_init active) acts = Some s ->
  ok_C11 (Lifecycle_observe (Lifecycle_init active) acts) = true.
Proof. intros active acts s H. exact (proj2 (Lifecycle_monitor_all_runs active acts s H)). Qed.
Print Assumptions C11_all_runs.

(** Non-vacuity: an active connection opens, is selected, loses the link; the reaction starts a
    loop, which waits for the old generation, sleeps, passes both fences, publishes, re-dials and
    counts one reconnect. *)
Definition C11_trace : list Lifecycle_action :=
  [LcOpen LcBackground; LcOpen1; LcOpen2; LcOpen3; LcODial true; LcOGate; LcSupUpEcho; LcSelected true;
   LcRecvExit true; LcSupDisc; LcSupReact1; LcSupReact2; LcSupReact3; LcJoinStop1; LcJoinStop2; LcProcExit false;
   LcLtExit false; LcSenderExit; LcJoinFinish; LcLWait; LcLSleepDone; LcLFenceStep; LcLPublish; LcLSender;
   LcLDial false; LcJoinStop1; LcJoinStop2; LcSenderExit; LcJoinFinish; LcLFailWaited; LcLSleepDone; LcLFenceStep;
   LcLPublish; LcLSender; LcLDial true; LcLGate; LcTailInc; LcTailExit].
Example C11_lifecycle_nonvacuous :
  exists s, Lifecycle_run (Lifecycle_init true) C11_trace = Some s /\
            lc_reconnects s = 1 /\ lc_redials s = 1 /\ lc_ndials s = 3 /\ lc_is_ns (lc_st s) = true /\ lc_err s = false.
Proof. eexists. split; [vm_compute; reflexivity|]. repeat split. Qed.
Example C11_loop_exists_nonvacuous :
  exists s, Lifecycle_run (Lifecycle_init true) (firstn 13 C11_trace) = Some s /\
            lc_is_alive (lc_sup s) = true /\ lc_shutdown s = false /\ lc_is_nc (lc_st s) = true /\ lc_hasloop s = true.
Proof. eexists. split; [vm_compute; reflexivity|]. repeat split. Qed.

(** * Recoverability (possibility liveness, the AG EF form of "an open connection recovers")

    From EVERY reachable state in which Open has been called and Close has not (supervisor alive,
    shutdown clear, no Close or rollback in progress — including an Open still inside its Start),
    there is a trace that uses only COOPERATIVE actions — the library's own internal steps and a
    friendly environment: dials / listens succeed, a peer connects, Select is answered with status 0;
    no API call, no new fault, no silent goroutine death — of length at most
    22 + (queued disconnect events) + (linktest and T7 goroutines still to be joined), after which the
    connection is a live Selected session (state Selected, receive goroutine alive, generation not
    being torn down). No reachable state of the model is wedged. The seeded change
    C11-secs1-eot-write-failure-not-reported produced exactly such a wedged state in the code: in the
    model it is the receive goroutine ending silently on a live generation, which [Lifecycle_exec]
    does not allow ([LcRecvExit false] requires the teardown to have begun) and which the e2e cut
    matrix checks on the real transports.

    NOT proved: liveness proper — that under fair scheduling and an eventually reachable peer the real
    connection recovers in real time (the sleeps between attempts are finite and bounded by T5:
    [C11_backoff]). The e2e passes observe it in every run. *)
Theorem C11_recovery_possible : forall s, Lifecycle_reachable s -> lc_intent s = true ->
  exists tr s', Lifecycle_run s tr = Some s' /\ lc_up s' = true /\
                forallb lc_cooperative tr = true /\ length tr <= lc_recover_bound s.
Proof.
  intros s Hr Hn.
  destruct (lc_recover_by_rank (lc_rank s) s (le_n _) (proj1 (Lifecycle_reachable_inv s Hr)) Hn)
    as (tr & s' & H1 & H2 & H3 & H4 & _).
  exists tr, s'. repeat split; try assumption. exact (Nat.le_trans _ _ _ H4 (lc_rank_bound s)).
Qed.
Print Assumptions C11_recovery_possible.

(** Every step of the fixed strategy is enabled, cooperative, keeps the intent and strictly decreases
    the ranking function (the lemma the theorem is an induction over). *)
Theorem C11_recovery_step : forall s, lc_inv s = true -> lc_intent s = true -> lc_up s = false ->
  exists s', Lifecycle_exec s (lc_next s) = Some s' /\ lc_rank s' < lc_rank s /\ lc_intent s' = true /\
             lc_cooperative (lc_next s) = true.
Proof. exact lc_next_step. Qed.
Print Assumptions C11_recovery_step.

(** Non-vacuity: a wedge-looking reachable state — the link was lost, the reconnect loop's first
    re-dial has just failed, the failed generation is still draining (torn down, not joined), the
    loop is waiting for it. Intent holds, the session is down; following the strategy for 12 steps (the ranking function says at most 14)
    (join the generation, sleep, fences, publish, dial, select) reaches a live Selected session. *)
Example C11_recovery_nonvacuous :
  match Lifecycle_run (Lifecycle_init true) (firstn 25 C11_trace) with
  | Some s =>
    lc_intent s && negb (lc_up s) && lc_hasloop s && lc_etd s && negb (lc_edone s) && (lc_rank s =? 14) &&
    forallb lc_cooperative (lc_follow 40 s) && (length (lc_follow 40 s) =? 12) &&
    match Lifecycle_run s (lc_follow 40 s) with Some s' => lc_up s' | None => false end
  | None => false
  end = true.
Proof. vm_compute. reflexivity. Qed.

(** The constants the model and the harness logs name ARE the current source (regenerated on every check). *)
Theorem C11_bridge_constants :
  Gen.hsms.NotConnectedState = 0%Z /\ Gen.hsms.NotSelectedState = 1%Z /\ Gen.hsms.SelectedState = 2%Z /\
  Gen.hsms.OpenWaitSelected = 0%Z /\ Gen.hsms.OpenBackground = 1%Z /\ Gen.hsms.stateClosedBit = 256%Z.
Proof. exact bridge_lifecycle_constants. Qed.
