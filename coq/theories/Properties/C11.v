(** C11 — After any link failure an open connection recovers to a working Selected session.
    This file contains only the property theorems (each closed by [exact]), their assumptions,
    and non-vacuity examples.

    Backoff arithmetic: model Hsms/Backoff.v (Flocq binary64), proofs Hsms/BackoffProofs.v, tie =
    hook differential on the real nextBackoffDelay (bit-exact) + e2e dial timestamps.
    Lifecycle (a loop always exists, reconnect counter, no dial after Close): model
    Hsms/Lifecycle.v, proofs Hsms/LifecycleProofs.v, tie = e2e histories through the extracted
    monitors. "Eventually re-establishes" is liveness: observed by the harness, not proved. *)
From Coq Require Import ZArith Bool List Lia.
From GoSecs Require Import Hsms.Backoff Hsms.BackoffProofs.
Import ListNotations.
Open Scope Z_scope.

(** Backoff delays start at the configured initial value (capped by T5), never decrease and never
    exceed T5 — for every initial delay and T5 up to 2^53 ns (about 104 days) and EVERY multiplier
    the option validation accepts (not < 1.0: this includes +Inf and NaN). *)
Theorem C11_backoff : forall init mult t5,
  0 < init -> Backoff_mult_ok mult = true -> 0 < t5 ->
  init <= Backoff_two53 -> t5 <= Backoff_two53 ->
  Backoff_sleep init mult t5 0 = Z.min init t5 /\
  forall k, Backoff_sleep init mult t5 k <= Backoff_sleep init mult t5 (S k) <= t5.
Proof. exact Backoff_sleeps_ok. Qed.
Print Assumptions C11_backoff.

(** The 2^53 bound is necessary for the code as written (DESIGN §5 #7): with initial = 2^53+1 ns,
    multiplier 1.0 and T5 = 2^62 ns the second sleep is 1 ns SHORTER than the first. *)
Theorem C11_backoff_refuted_beyond_2p53 :
  exists init mult t5, 0 < init /\ Backoff_mult_ok mult = true /\ 0 < t5 /\
    Backoff_sleep init mult t5 1 < Backoff_sleep init mult t5 0.
Proof. exact Backoff_refuted_beyond_2p53. Qed.
Print Assumptions C11_backoff_refuted_beyond_2p53.

Theorem C11_backoff_refuted_witness :
  Backoff_next_delay_bits (Backoff_two53 + 1) Backoff_one_bits (2 ^ 62) = Backoff_two53.
Proof. exact Backoff_refuted_witness. Qed.

(** With the repair of fixes/C11-backoff-monotone.diff the statement holds for every positive
    int64 initial delay and T5 and for every multiplier whatsoever; on the range of [C11_backoff]
    the repaired function equals the current one. *)
Theorem C11_backoff_repaired : forall init mult t5, 0 < init -> 0 < t5 ->
  Backoff_sleep_repaired init mult t5 0 = Z.min init t5 /\
  forall k, Backoff_sleep_repaired init mult t5 k <= Backoff_sleep_repaired init mult t5 (S k) <= t5.
Proof. exact Backoff_sleeps_repaired_ok. Qed.
Print Assumptions C11_backoff_repaired.

Theorem C11_backoff_repair_conservative : forall cur mult ceil,
  0 < cur <= Backoff_two53 -> Backoff_mult_ok mult = true -> 0 < ceil ->
  Backoff_next_delay_repaired cur mult ceil = Backoff_next_delay cur mult ceil.
Proof. exact Backoff_repaired_same_in_range. Qed.

(** Non-vacuity: the default configuration (100 ms, x2.0, T5 = 10 s) satisfies the hypotheses and
    produces the expected ramp. *)
Definition C11_two_bits : Z := 4611686018427387904. (* 0x4000000000000000 = 2.0 *)
Example C11_backoff_nonvacuous :
  Backoff_mult_ok (Backoff_f64_of_bits C11_two_bits) = true /\
  Backoff_sleeps_from 100000000 (Backoff_f64_of_bits C11_two_bits) 10000000000 9 =
  [100000000; 200000000; 400000000; 800000000; 1600000000; 3200000000; 6400000000; 10000000000; 10000000000].
Proof. vm_compute. split; reflexivity. Qed.
Example C11_backoff_nan_inf_nonvacuous :
  Backoff_mult_ok (Backoff_f64_of_bits 9221120237041090560) = true /\   (* NaN *)
  Backoff_mult_ok (Backoff_f64_of_bits 9218868437227405312) = true /\   (* +Inf *)
  Backoff_mult_ok (Backoff_f64_of_bits 4602678819172646912) = false /\  (* 0.5 *)
  Backoff_next_delay_bits 1000 9221120237041090560 5000 = 5000 /\
  Backoff_next_delay_bits 1000 9218868437227405312 5000 = 5000.
Proof. vm_compute. repeat split; reflexivity. Qed.
