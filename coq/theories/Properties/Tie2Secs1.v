(** Tie theorems of translator v2 (family: secs1 blocks — C17, C18): each states that a function REGENERATED from the
    current Go source ([Gen/Gen2.v], byte-slice code with loops, panics explicit as [GPanic]) equals
    the hand-written model function the property theorems are about. Only [exact] + [Print Assumptions]. *)
From Coq Require Import String.
From Coq Require Import ZArith Bool List Lia.
From GoSecs Require Import Base.GoInt Base.BytesBE Base.GoSlice Gen.Gen2.
From GoSecs Require Import Secs1.Block Gen.Bridge2Secs1 Gen.Bridge2Secs1Split.
Import ListNotations.
Open Scope Z_scope.

(** * C17 — secs1/block.go *)

(** [buildHeader]: for every header whose [function] is a [uint8] and whose system bytes are a
    [[4]byte] (the Go types), every block number and E-bit: no panic, the ten bytes of [build_header]. *)
Theorem tie_secs1_buildHeader : forall h num last,
  0 <= h_func h < 256 -> length (h_sys h) = 4%nat ->
  Gen2.secs1.buildHeader (mh_of h) num last = GOk (build_header h num last).
Proof. exact bridge_buildHeader. Qed.
Print Assumptions tie_secs1_buildHeader.

(** [block.appendTo] (length byte, header, body, 16-bit checksum computed by the loop over the
    bytes just written): for EVERY block and destination, no panic, appends [append_block]. *)
Theorem tie_secs1_appendTo : forall b dst,
  Gen2.secs1.block_appendTo (blk_of b) dst = GOk (dst ++ append_block b).
Proof. exact bridge_appendTo. Qed.
Print Assumptions tie_secs1_appendTo.

(** [parseBlock]: for every length byte and EVERY slice, no panic, the block / error class of
    [parse_block]. *)
Theorem tie_secs1_parseBlock : forall lb rest,
  0 <= lb < 256 ->
  Gen2.secs1.parseBlock lb rest = GOk (parse_result_of (parse_block lb rest)).
Proof. exact bridge_parseBlock. Qed.
Print Assumptions tie_secs1_parseBlock.


(** * C17 / C18 — secs1/message.go: splitBody *)

(** [wire.chunkView] (the body of both implementations of [wire.Body.Chunk]): inside the body, no
    panic, the sub-slice [body[off : off+n]]. *)
Theorem tie_wire_chunkView : forall body off n,
  0 <= off -> 0 <= n -> off + n <= go_len body -> go_len body < 2 ^ 62 ->
  Gen2.wire.chunkView body off n = GOk (Gen2.wire.mk_Chunk (firstn (Z.to_nat n) (skipn (Z.to_nat off) body))).
Proof. exact chunkView_ok. Qed.
Print Assumptions tie_wire_chunkView.

(** [splitBody] returns an iterator; its translation is the list of blocks the iterator yields to a
    consumer that drains it. For EVERY header (function a [uint8], system bytes a [[4]byte]) and
    EVERY body: no panic, and exactly [split_body]: the two header guards and the size guard
    ([ErrInvalidHeader] / [ErrMessageTooLarge], no block), otherwise the model's block list - block
    numbers from 1, the E-bit on the last block only, bodies of 244 bytes except the last, one
    header-only block for an empty body. *)
Theorem tie_secs1_splitBody : forall body h,
  0 <= h_func h < 256 -> length (h_sys h) = 4%nat ->
  Gen2.secs1.splitBody body (mh_of h) = GOk (split_result_of (split_body body h)).
Proof. exact bridge_splitBody. Qed.
Print Assumptions tie_secs1_splitBody.
