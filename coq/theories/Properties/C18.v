(** C18 — SECS-I delivers each successfully sent message exactly once over a faulty line.
    This file contains only the property theorems (each closed by [exact]), their assumptions,
    and non-vacuity examples. Model: Secs1/Line.v (two line engines as an LTS over a synchronous
    lossy line; the modelling assumptions are stated at the top of that file); proofs:
    Secs1/LineProofs.v (skeleton table + invariants), Secs1/LineBytes.v (byte-level fault
    classes); tie to the code: checks/C18.py (lineIO.sendBlock/receiveBlock in virtual time
    against the model's peer; two real endpoints through a fault-injecting middlebox judged by
    the extracted monitor [ok_dir]). *)
From Coq Require Import Arith ZArith Bool List Lia.
From GoSecs Require Import Gen.Gen Gen.BridgeSecs1 Secs1.Block Secs1.BlockProofs
  Secs1.Assembler Secs1.AssemblerProofs Secs1.Line Secs1.LineProofs Secs1.LineBytes Secs1.LineAssembler Secs1.LineProgress.
Import ListNotations.
Open Scope nat_scope.

(** ** Exactly once, intact, in order — for ALL runs of the model: every interleaving of the two
    engines, every pattern of dropped / garbled handshake characters, of lost / rejected block
    transmissions and of T2 expiries, every retry limit, every queue of messages with pairwise
    distinct tokens and >= 1 block each, simultaneous sends included.  In every reachable state,
    per direction: the tokens delivered at the receiver = the tokens whose send returned nil,
    plus at most the one message still in progress (accepted, its ACK lost or on the way), and
    this is a duplicate-free prefix of the tokens in the order they were queued. Hence a message
    whose send succeeded is delivered exactly once, messages are delivered in the order sent,
    and nothing is delivered twice or that was not sent. ("Intact": a block is handed to the
    assembler only through [ABlk], an intact transmission — see C18_recv_* below and C17.) *)
Theorem C18_exactly_once : forall la lb ta tb s,
  wf_todo ta -> wf_todo tb -> reachable (sys0 la lb ta tb) s ->
  dir_once (sa s) (sb s) (map fst ta) /\ dir_once (sb s) (sa s) (map fst tb).
Proof. exact exactly_once. Qed.
Print Assumptions C18_exactly_once.

(** The monitor run by the e2e check over real endpoints accepts every reachable model state. *)
Theorem C18_monitor_accepts : forall la lb ta tb s,
  wf_todo ta -> wf_todo tb -> reachable (sys0 la lb ta tb) s ->
  ok_dir (send_log (sa s)) (e_deliv (sb s)) = true /\
  ok_dir (send_log (sb s)) (e_deliv (sa s)) = true.
Proof. exact monitor_accepts. Qed.
Print Assumptions C18_monitor_accepts.

(** ** Retry bound: a block is attempted at most RetryLimit+1 times (counter reset only by a new
    block or a successful contention yield). *)
Theorem C18_retry_bound : forall la lb ta tb s,
  reachable (sys0 la lb ta tb) s ->
  e_attempts (sa s) <= S la /\ e_attempts (sb s) <= S lb /\
  (forall x r, (e_ph (get s x) = WaitEOT r \/ e_ph (get s x) = WaitACK r \/
                e_ph (get s x) = RecvWait (CtxYield r)) ->
     r <= e_limit (get s x) /\ e_attempts (get s x) = S r).
Proof. exact retry_bound. Qed.
Print Assumptions C18_retry_bound.

(** ** Contention resolves with the master (equipment) first. *)
Theorem C18_master_never_yields : forall la lb ta tb s,
  reachable (sys0 la lb ta tb) s ->
  e_yields (sa s) = 0 /\ forall r, e_ph (sa s) <> RecvWait (CtxYield r).
Proof. exact master_never_yields. Qed.
Print Assumptions C18_master_never_yields.

Theorem C18_slave_yields : forall e r,
  e_master e = false -> e_ph e = WaitEOT r ->
  react e (AChar ENQ) = push (count_yield (set_ph e (RecvWait (CtxYield r)))) (OCh EOT).
Proof. exact slave_yields. Qed.
Print Assumptions C18_slave_yields.

Theorem C18_master_ignores_enq : forall e r,
  e_master e = true -> e_ph e = WaitEOT r -> react e (AChar ENQ) = e.
Proof. exact master_ignores_enq. Qed.
Print Assumptions C18_master_ignores_enq.

(** After taking the master's block the slave's postponed send restarts as a new request (retry
    counter 0), with its own block and queue untouched. *)
Theorem C18_postponed_send_follows : forall e r b,
  e_ph e = RecvWait (CtxYield r) ->
  let e' := react e (ABlk b) in
  e_ph e' = WaitEOT 0 /\ e_attempts e' = 1 /\ sender_view e' = sender_view e /\
  e_out e' = e_out e ++ [OCh ACK; OCh ENQ].
Proof. exact yield_success_restarts. Qed.
Print Assumptions C18_postponed_send_follows.

(** ** No deadlock: every live state is final or has an enabled step. *)
Theorem C18_no_deadlock : forall s,
  alive s = true -> final s \/ exists l s', step s l = Some s'.
Proof. exact no_deadlock. Qed.
Print Assumptions C18_no_deadlock.

(** ** Progress once the line behaves (the liveness half, for every fault history of finite
    length).  From EVERY reachable state [s] — reached through arbitrary drops, garbles,
    contention, retransmissions, NAKs, timeouts — consider the runs that take only non-fault steps
    (a start, a T2 expiry, the oldest written item passing the line intact), under ANY scheduling of
    the two engines and their timers:
    (1) such a run has at most [mu s] steps: the explicit measure
        [mu s = (blocks not yet ACK'd) * bigK s + potential A + potential B] (Secs1/LineProgress.v:
        remaining retry budget of the current block times a per-role constant, plus a weight per
        item in flight) strictly decreases on every enabled non-fault step — no livelock;
    (2) wherever it stands it is settled or has an enabled non-fault step — no deadlock;
    (3) after [mu s] steps it is settled: either the link is down (an end gave up after
        RetryLimit+1 attempts: the definite failure reported to the sender), or both ends are idle
        with nothing in flight and EVERY queued message of both directions has been delivered
        exactly once, in order, and its send has returned nil. *)
Theorem C18_progress : forall la lb ta tb s,
  wf_todo ta -> wf_todo tb -> reachable (sys0 la lb ta tb) s ->
  (forall ls s', nofaults ls -> run s ls = Some s' -> length ls + mu s' <= mu s) /\
  (forall ls s', nofaults ls -> run s ls = Some s' ->
     settled ta tb s' \/ exists l s'', nofault l = true /\ step s' l = Some s'') /\
  (forall ls s', nofaults ls -> run s ls = Some s' -> mu s <= length ls -> settled ta tb s').
Proof. exact progress. Qed.
Print Assumptions C18_progress.

(** The measure decreases at every single non-fault step (and the invariants are kept). *)
Theorem C18_measure_decreases : forall la lb ta tb s l s',
  pinv la lb ta tb s -> nofault l = true -> step s l = Some s' ->
  mu s' < mu s /\ pinv la lb ta tb s'.
Proof. exact step_mu. Qed.
Print Assumptions C18_measure_decreases.

(** The failure branch of "settled" cannot be tied to the budget left when the faults stop: the
    model leaves the order of the two T2 expiries open, and a slave whose timer keeps firing first
    against a master that is itself waiting spends its retries although no fault occurs any more
    (with the master's timer first, everything is delivered). Bounding that is a real-time
    statement. *)
Theorem C18_failure_by_timer_order :
  exists s, run (sys0 3 1 [(7, 1)] [(9, 1)]) [LStart A; LStart B; LLine A Drop; LLine B Deliver] = Some s /\
    quiet s = true /\ e_ph (sb s) = WaitEOT 0 /\
    (exists s1, run s [LTimeout B; LLine B Deliver; LTimeout B] = Some s1 /\ alive s1 = false /\ e_deliv (sa s1) = []) /\
    (let '(s2, n) := drive 100 s in final s2 /\ e_deliv (sb s2) = [7] /\ e_deliv (sa s2) = [9]).
Proof. exact failure_by_timer_order. Qed.
Print Assumptions C18_failure_by_timer_order.

(** ** The synchronisation facts behind the proof: the control skeleton of every reachable state
    lies in a 56-entry table closed under the abstract transition relation. *)
Theorem C18_skeleton : forall la lb ta tb s,
  wf_todo ta -> wf_todo tb -> reachable (sys0 la lb ta tb) s ->
  In (sk_sys s) table /\ sync_ok (sk_sys s) = true.
Proof.
  intros la lb ta tb s Wa Wb Hr.
  exact (let I := reachable_inv la lb ta tb s Wa Wb Hr in
         conj (proj1 (proj2 I)) (sync_of_table s (proj1 (proj2 I)))).
Qed.
Print Assumptions C18_skeleton.

(** ** Byte level: which transmissions the receive procedure ACKs and which it NAKs. *)
Theorem C18_recv_intact : forall b, wf_block b -> recv_bytes (append_block b) = Some b.
Proof. exact recv_intact. Qed.
Print Assumptions C18_recv_intact.
Theorem C18_recv_corrupt : forall b i v,
  wf_block b -> (i < length (wire_rest b))%nat -> byte_ok v -> v <> nth i (wire_rest b) 0%Z ->
  recv_bytes (wire_len b :: replace_nth i v (wire_rest b)) = None.
Proof. exact recv_corrupt. Qed.
Print Assumptions C18_recv_corrupt.
Theorem C18_recv_truncated : forall b n,
  wf_block b -> (n < length (append_block b))%nat -> recv_bytes (firstn n (append_block b)) = None.
Proof. exact recv_truncated. Qed.
Print Assumptions C18_recv_truncated.
Theorem C18_recv_length_up : forall b lb',
  wf_block b -> (lb' > wire_len b \/ lb' < 10)%Z -> recv_bytes (lb' :: wire_rest b) = None.
Proof. exact recv_length_up. Qed.
Print Assumptions C18_recv_length_up.

(** ** The receiver of the line model IS the C17 assembler, abstracted: for every encoding of
    abstract blocks as real blocks whose message header is well-formed, addressed to us and
    determined injectively by the token (distinct system bytes), [hand] and the E4 reading of the
    assembler ([spec_step]; equal to the assembler model on deliveries by C17_assembler) stay in
    the abstraction relation, take the same duplicate decision, and a frame is delivered exactly
    when a token is. *)
Theorem C18_receiver_is_C17_assembler :
  forall (cfg : acfg) (hdr_of_tok : nat -> mheader) (body_of : bid -> list Z),
  (forall t, wf_mheader (hdr_of_tok t)) ->
  (forall t, h_dev (hdr_of_tok t) = c_dev cfg /\ h_rbit (hdr_of_tok t) = negb (c_equip cfg)) ->
  (forall t t', hdr_of_tok t = hdr_of_tok t' -> t = t') ->
  forall e s b,
  abs_rel hdr_of_tok body_of e s -> small b ->
  let e' := hand e b in
  let '(s', d) := spec_step cfg s (enc hdr_of_tok body_of b) in
  abs_rel hdr_of_tok body_of e' s' /\
  ((d = [] /\ e_deliv e' = e_deliv e) \/
   (exists run, d = [frame_of run] /\ last_ev run = enc hdr_of_tok body_of b /\
                e_deliv e' = e_deliv e ++ [b_tok b])).
Proof. exact hand_is_assembler. Qed.
Print Assumptions C18_receiver_is_C17_assembler.

(** ** Outside the fault model (not detectable by E4): NAK replaced by ACK makes a send succeed
    with nothing delivered. *)
Theorem C18_nak_to_ack_refuted :
  exists s, run (sys0 3 3 [(7, 1)] []) [LStart A; LLine A Deliver; LLine B Deliver; LLine A Garble] = Some s /\
    e_out (sb s) = [OCh NAK] /\
    let a' := react (sa s) (AChar ACK) in
    e_done a' = [7] /\ e_deliv (sb s) = [].
Proof. exact nak_to_ack_refuted. Qed.
Print Assumptions C18_nak_to_ack_refuted.

(** ** Why [Down] is terminal in the model — and, since fix 2852a07, in the code (the line engine
    returns right after reporting ErrSendFailed). An engine that keeps answering the line after
    its own send failed, while the closing generation no longer delivers, lets a peer message be
    ACK'd (its send returns nil) and lost: this was finding C18-ack-into-closing-generation
    (fixed); the check's race probe reproduces the schedule on every run. *)
Theorem C18_served_after_failure_refuted :
  exists s, run (sys0 0 0 [(7, 1)] [(9, 1)]) [LStart B; LLine B Drop; LTimeout B] = Some s /\
    e_ph (sb s) = Down /\
    let a1 := start (sa s) in
    let b1 := closing_react (sb s) (AChar ENQ) in
    let a2 := react (set_out a1 []) (AChar EOT) in
    let b2 := closing_react (set_out b1 []) (ABlk (blk 7 0 1)) in
    let a3 := react (set_out a2 []) (AChar ACK) in
    e_out a1 = [OCh ENQ] /\ e_out b1 = [OCh EOT] /\ e_out a2 = [OBlk (blk 7 0 1)] /\
    e_out b2 = [OCh ACK] /\ e_done a3 = [7] /\ e_deliv b2 = [].
Proof. exact served_after_failure_refuted. Qed.
Print Assumptions C18_served_after_failure_refuted.

Theorem C18_bridge_line_chars :
  ch_code ENQ = Some Gen.secs1.enq /\ ch_code EOT = Some Gen.secs1.eot /\
  ch_code ACK = Some Gen.secs1.ack /\ ch_code NAK = Some Gen.secs1.nak.
Proof. exact bridge_line_chars. Qed.
Print Assumptions C18_bridge_line_chars.

(** ** Non-vacuity *)
Example C18_contention_nonvacuous :
  (exists s, run (sys0 3 3 [(7, 1)] [(9, 1)]) (firstn 6 contention_run) = Some s /\
             e_deliv (sb s) = [7] /\ e_deliv (sa s) = [] /\ e_done (sa s) = []) /\
  (exists s, run (sys0 3 3 [(7, 1)] [(9, 1)]) contention_run = Some s /\
             e_deliv (sb s) = [7] /\ e_deliv (sa s) = [9] /\ e_done (sa s) = [7] /\ e_done (sb s) = [9] /\
             e_yields (sb s) = 1 /\ e_yields (sa s) = 0 /\ final s).
Proof. exact contention_example. Qed.

(** A faulty run: ACK lost, block retransmitted and dropped as a duplicate, two-block message
    delivered once; and retries exhausted with limit 0 takes the link down. *)
Example C18_faulty_run_nonvacuous :
  wf_todo [(7, 2)] /\
  (exists s, run (sys0 1 1 [(7, 2)] [])
       [LStart A; LLine A Deliver; LLine B Deliver; LLine A Deliver; LLine B Drop; LTimeout A;
        LLine A Deliver; LLine B Deliver; LLine A Deliver; LLine B Deliver;
        LLine A Deliver; LLine B Deliver; LLine A Deliver; LLine B Deliver] = Some s /\
     e_done (sa s) = [7] /\ e_deliv (sb s) = [7] /\ e_handed (sb s) = 3 /\ final s) /\
  (exists s, run (sys0 0 0 [(7, 1)] []) [LStart A; LLine A Drop; LTimeout A] = Some s /\
     alive s = false /\ e_done (sa s) = [] /\ e_deliv (sb s) = []).
Proof.
  split; [split; [repeat constructor; cbn; tauto|repeat constructor]|].
  split; eexists; (split; [vm_compute; reflexivity|]); cbn; repeat split; reflexivity.
Qed.

(** Progress, non-vacuity: a state reached through loss (the master's ENQ, then the slave's ACK),
    contention (simultaneous ENQs, the slave yields) and a duplicate in flight (block 0 of the
    master's two-block message being retransmitted), with the master's second block and the slave's
    message pending. [mu] bounds every fault-free scheduling by 486 steps; the scheduler [drive]
    settles it in 11: both messages delivered exactly once, the duplicate dropped. *)
Example C18_progress_nonvacuous :
  exists s, run (sys0 2 2 [(7, 2)] [(9, 1)]) faulty_prefix = Some s /\
    e_out (sa s) = [OBlk {| b_tok := 7; b_idx := 0; b_last := false |}] /\
    e_handed (sb s) = 1 /\ e_done (sa s) = [] /\ e_todo (sb s) = [(9, 1)] /\
    mu s = 486 /\
    let '(s', n) := drive 100 s in
    n = 11 /\ final s' /\ e_deliv (sb s') = [7] /\ e_deliv (sa s') = [9] /\
    e_done (sa s') = [7] /\ e_done (sb s') = [9] /\ e_handed (sb s') = 3.
Proof. exact progress_example. Qed.
