(** C14 — the SML parser is total on any text, resource-bounded, with accurate error positions;
    distinct parser instances share no mutable state.

    This file contains only the property theorems (each closed by [exact]), their assumptions and
    non-vacuity examples.

    Model: Sml/Parser.v — sml/parser.go function by function, both modes, all entry points,
    instrumented (RPanic where Go's bounds check fires; allocation / recursion-depth / cost
    meters) with three switches [cfg] = the current code ([cfg_current]) and the three proposed
    one-to-few-line repairs; Sml/ErrPos.v — newParseError.
    Proofs: Sml/ErrPosProofs.v, Sml/ParserProofs.v (invariants, every function), Sml/ParserMain.v
    (whole runs), Sml/ParserInstance.v, Sml/ParserWitness.v (the refuting inputs, vm_compute).

    Every theorem quantifies over ALL inputs [s : list Z], both modes, and EVERY total function
    [pf] standing for strconv.ParseFloat (code outside go-secs).

    Tie: the correspondence driver runs this very model on every input the Go harness ran through
    the real parser in a resource-limited child process, and accepts only if ONE assignment of
    the three switches explains every observation (on the pinned code: all three off). *)
From Coq Require Import ZArith Bool List Lia.
From GoSecs Require Import Base.Decimal Sml.ErrPos Sml.ErrPosProofs Sml.Parser Sml.ParserProofs
  Sml.ParserMain Sml.ParserInstance Sml.ParserWitness.
Import ListNotations.
Open Scope Z_scope.

(** ** Totality *)

(** The model never runs out of fuel with [fuel_for_input s] = 2 len + 2 — for the CURRENT code
    and for every repair combination: all loops and the recursion terminate. *)
Theorem C14_terminates : forall pf cf strict s, cap_ok cf ->
  outcome_of (parse_with cf pf (fuel_for_input s) strict s) <> OutOfFuel.
Proof. exact (fun pf cf strict s H => proj1 (run_total pf cf strict s H)). Qed.
Print Assumptions C14_terminates.

(** REFUTED on the current code (finding C14-closequote-panic): the instrumented model reaches
    Go's index-out-of-range panic on "S1F1\n<A \"\" " in non-strict mode. *)
Theorem C14_total_refuted :
  exists s, outcome_of (parse_with cfg_current no_float (fuel_for_input s) false s) = Panic.
Proof. exact total_refuted. Qed.
Print Assumptions C14_total_refuted.

(** POSITIVE theorem for the REPAIRED bound (model of the repaired function: [quote_bound] =
    len(p.data) instead of p.len, the only difference): with [c_quote_fix] on — whatever the other
    two switches — parsing neither runs out of fuel nor panics, for every input, both modes. *)
Theorem C14_total : forall pf cf strict s, cap_ok cf -> c_quote_fix cf = true ->
  outcome_of (parse_with cf pf (fuel_for_input s) strict s) <> OutOfFuel /\
  outcome_of (parse_with cf pf (fuel_for_input s) strict s) <> Panic.
Proof.
  exact (fun pf cf strict s H Hq =>
           conj (proj1 (run_total pf cf strict s H)) (proj2 (run_total pf cf strict s H) Hq)).
Qed.
Print Assumptions C14_total.

(** the same for ParseMessage ([ho] = false) and ParseHeader ([ho] = true) *)
Theorem C14_total_one : forall pf cf strict ho s, cap_ok cf -> c_quote_fix cf = true ->
  outcome_of (parse_one_with cf pf (fuel_for_input s) strict ho s) <> OutOfFuel /\
  outcome_of (parse_one_with cf pf (fuel_for_input s) strict ho s) <> Panic.
Proof.
  exact (fun pf cf strict ho s H Hq =>
           conj (proj1 (one_total pf cf strict ho s H)) (proj2 (one_total pf cf strict ho s H) Hq)).
Qed.
Print Assumptions C14_total_one.

(** ** Result: valid messages or an error *)
Theorem C14_result : forall pf cf strict s ms, cap_ok cf ->
  outcome_of (parse_with cf pf (fuel_for_input s) strict s) = Ok ms -> Forall msg_valid ms.
Proof. exact (fun pf cf strict s ms => run_valid pf cf strict s ms). Qed.
Print Assumptions C14_result.

Theorem C14_result_one : forall pf cf strict ho s m, cap_ok cf ->
  outcome_of (parse_one_with cf pf (fuel_for_input s) strict ho s) = Ok m -> msg_valid m.
Proof. exact (fun pf cf strict ho s m => one_valid pf cf strict ho s m). Qed.
Print Assumptions C14_result_one.

(** ** Error positions (holds for the CURRENT code): every syntax error has
    0 <= Offset <= len, Line = 1 + newlines before Offset, Col = 1 + Offset - start of that line
    ([pos_ok], Sml/ErrPos.v). *)
Theorem C14_position : forall pf cf strict s t off line col, cap_ok cf ->
  outcome_of (parse_with cf pf (fuel_for_input s) strict s) = Err (ESyntax t off line col) ->
  0 <= off <= blen s /\
  line = 1 + count_nl (firstn (Z.to_nat off) s) /\
  exists sol, line_start s off sol /\ col = 1 + off - sol.
Proof. exact (fun pf cf strict s t off line col => run_position pf cf strict s t off line col). Qed.
Print Assumptions C14_position.

Theorem C14_position_one : forall pf cf strict ho s t off line col, cap_ok cf ->
  outcome_of (parse_one_with cf pf (fuel_for_input s) strict ho s) = Err (ESyntax t off line col) ->
  pos_ok s off line col.
Proof. exact (fun pf cf strict ho s t off line col => one_position pf cf strict ho s t off line col). Qed.
Print Assumptions C14_position_one.

(** newParseError itself, for every input and non-negative offset *)
Theorem C14_position_new_parse_error : forall input offset,
  0 <= offset ->
  let '(off, line, col) := new_parse_error input offset in pos_ok input off line col.
Proof. exact new_parse_error_ok. Qed.
Print Assumptions C14_position_new_parse_error.

(** ** Resources *)

(** REFUTED on the current code (finding C14-size-hint-alloc): a 19-byte input makes the parser
    request 16,000,000 bytes: no bound c1 * len + c0 with c1 * 19 + c0 < 16000000 holds. *)
Theorem C14_resources_refuted :
  exists s, blen s = 19 /\
    m_alloc_max (final_meters (parse_with cfg_current no_float (fuel_for_input s) false s)) = 16000000.
Proof. exact resources_refuted. Qed.
Print Assumptions C14_resources_refuted.

(** REFUTED on the current code (finding C14-nesting-stack-overflow): the recursion depth is not
    bounded by secs2.MaxListDepth. *)
Theorem C14_depth_refuted :
  exists s, m_depth_max (final_meters (parse_with cfg_current no_float (fuel_for_input s) false s)) = 65 /\ 65 > max_list_depth.
Proof. exact depth_refuted. Qed.
Print Assumptions C14_depth_refuted.

(** POSITIVE theorem for the repaired variants ([meters_ok], Sml/ParserMain.v), for every input:
    - time: at most 40 len + 40 scanning primitives, each looking at no more than 4 (len + 1)
      bytes: steps <= 160 (len + 1)^2 — this part holds for the CURRENT code as well;
    - at most len + 1 capacities are requested; with [c_cap_hint] each is <= 16 len bytes and
      their sum <= 16 len (len + 1);
    - with [c_depth_cap = Some d] the recursion depth never exceeds d + 1. *)
Theorem C14_resources : forall pf cf strict s, cap_ok cf ->
  outcome_of (parse_with cf pf (fuel_for_input s) strict s) <> Panic ->
  let m := final_meters (parse_with cf pf (fuel_for_input s) strict s) in
  m_calls m <= 40 * blen s + 40 /\
  0 <= m_steps m <= 160 * (blen s + 1) * (blen s + 1) /\
  m_allocs m <= blen s + 1 /\
  (c_cap_hint cf = true -> m_alloc_max m <= 16 * blen s /\ m_alloc_sum m <= 16 * blen s * (blen s + 1)) /\
  (forall d, c_depth_cap cf = Some d -> m_depth_max m <= d + 1).
Proof. exact (fun pf cf strict s => run_resources pf cf strict s). Qed.
Print Assumptions C14_resources.

Theorem C14_resources_one : forall pf cf strict ho s, cap_ok cf ->
  outcome_of (parse_one_with cf pf (fuel_for_input s) strict ho s) <> Panic ->
  meters_ok cf (blen s) (final_meters (parse_one_with cf pf (fuel_for_input s) strict ho s)).
Proof. exact (fun pf cf strict ho s => one_resources pf cf strict ho s). Qed.
Print Assumptions C14_resources_one.

(** ** Instances: the outcome of Parse on ANY parser object (whatever it was used for before)
    is that of a fresh parser with the same options, the options are never changed, and a
    sequence of calls on one reused object equals, call by call, calls on fresh objects. *)
Theorem C14_instances_independent : forall cf pf o input,
  fst (obj_parse cf pf o input) = fst (obj_parse cf pf (new_parser (o_strict o)) input) /\
  o_strict (snd (obj_parse cf pf o input)) = o_strict o.
Proof. exact obj_parse_independent. Qed.
Print Assumptions C14_instances_independent.

Theorem C14_instances_sequence : forall cf pf inputs o,
  obj_parse_all cf pf o inputs = map (fun i => fst (obj_parse cf pf (new_parser (o_strict o)) i)) inputs.
Proof. exact obj_parse_all_fresh. Qed.
Print Assumptions C14_instances_sequence.

(** ** Non-vacuity *)

(** the hypotheses are satisfiable: both configurations of interest have a sane depth cap *)
Example C14_cap_ok_nonvacuous : cap_ok cfg_current /\ cap_ok cfg_repaired /\ c_quote_fix cfg_repaired = true.
Proof. exact (conj cap_ok_current (conj cap_ok_repaired eq_refl)). Qed.

(** the model accepts well-formed text in both modes (so C14_result / C14_resources speak about
    non-trivial runs) and reports positions (C14_position) *)
Example C14_model_accepts :
  outcome_of (parse_with cfg_current no_float (fuel_for_input w_valid) false w_valid) = Ok w_valid_msgs /\
  outcome_of (parse_with cfg_current no_float (fuel_for_input w_valid) true w_valid) = Ok w_valid_msgs.
Proof. exact model_accepts. Qed.
Example C14_model_position :
  outcome_of (parse_with cfg_current no_float (fuel_for_input w_err) false w_err) = Err (ESyntax T_ascii_quote 14 3 7).
Proof. exact model_position. Qed.

(** the three refuting inputs behave under the repairs as the positive theorems say *)
Example C14_repairs_on_witnesses :
  outcome_of (run with_quote_fix false w_panic) = Err (ESyntax T_ascii_unclosed 9 2 5) /\
  m_alloc_max (final_meters (run with_cap_hint false w_hint)) = 48 /\
  m_depth_max (final_meters (run with_depth_cap false (w_deep 1000))) = 65.
Proof. exact (conj w_panic_fixed (conj (proj2 w_hint_capped) (proj2 w_deep_capped))). Qed.
