(** C14 — the SML parser is total on any text, resource-bounded, with accurate error positions;
    distinct parser instances share no mutable state.

    This file contains only the property theorems (each closed by [exact]), their assumptions and
    non-vacuity examples. Model: Sml/Parser.v (instrumented: panic sites, allocation / depth /
    cost meters; switches for the current code and the three proposed repairs) and Sml/ErrPos.v
    (newParseError). Proofs: Sml/ErrPosProofs.v, Sml/ParserWitness.v (concrete runs). Tie: the
    correspondence driver runs this very model on every input the Go harness ran through the real
    parser (both modes, all entry points) and accepts only if one assignment of the repair
    switches explains every observation. *)
From Coq Require Import ZArith Bool List Lia.
From GoSecs Require Import Base.Decimal Sml.ErrPos Sml.ErrPosProofs Sml.Parser Sml.ParserWitness.
Import ListNotations.
Open Scope Z_scope.

(** Every position newParseError builds from a non-negative offset is consistent: the offset is
    clamped into [0, len], Line = 1 + newlines before it, Col = 1 + distance to the line start. *)
Theorem C14_position_new_parse_error : forall input offset,
  0 <= offset ->
  let '(off, line, col) := new_parse_error input offset in pos_ok input off line col.
Proof. exact new_parse_error_ok. Qed.
Print Assumptions C14_position_new_parse_error.

(** REFUTED on the current code (finding C14-closequote-panic): the instrumented model panics on
    "S1F1\n<A \"\" " in non-strict mode; with the repaired bound the same input is a syntax error. *)
Theorem C14_total_refuted :
  exists s, outcome_of (parse_with cfg_current no_float (fuel_for_input s) false s) = Panic.
Proof. exact total_refuted. Qed.
Print Assumptions C14_total_refuted.

(** REFUTED on the current code (finding C14-size-hint-alloc): a 19-byte input makes the parser
    request 16,000,000 bytes; no bound c1 * len + c0 with c1 * 19 + c0 < 16000000 holds. *)
Theorem C14_resources_refuted :
  exists s, blen s = 19 /\ m_alloc_max (final_meters (parse_with cfg_current no_float (fuel_for_input s) false s)) = 16000000.
Proof. exact resources_refuted. Qed.
Print Assumptions C14_resources_refuted.

(** REFUTED on the current code (finding C14-nesting-stack-overflow): recursion depth is not
    bounded by secs2.MaxListDepth (nor by any constant: depth 1000 on 3005 bytes). *)
Theorem C14_depth_refuted :
  exists s, m_depth_max (final_meters (parse_with cfg_current no_float (fuel_for_input s) false s)) = 65 /\ 65 > max_list_depth.
Proof. exact depth_refuted. Qed.
Print Assumptions C14_depth_refuted.

(** Non-vacuity: the model accepts well-formed text in both modes, and reports positions. *)
Example C14_model_accepts :
  outcome_of (parse_with cfg_current no_float (fuel_for_input w_valid) false w_valid) = Ok w_valid_msgs /\
  outcome_of (parse_with cfg_current no_float (fuel_for_input w_valid) true w_valid) = Ok w_valid_msgs.
Proof. exact model_accepts. Qed.
Example C14_model_position :
  outcome_of (parse_with cfg_current no_float (fuel_for_input w_err) false w_err) = Err (ESyntax T_ascii_quote 14 3 7).
Proof. exact model_position. Qed.
