(** Tie theorems of translator v2 (family: secs2 item header — C01, C02): each states that a function REGENERATED from the
    current Go source ([Gen/Gen2.v], byte-slice code with loops, panics explicit as [GPanic]) equals
    the hand-written model function the property theorems are about. Only [exact] + [Print Assumptions]. *)
From Coq Require Import String.
From Coq Require Import ZArith Bool List Lia.
From GoSecs Require Import Base.GoInt Base.BytesBE Base.GoSlice Gen.Gen2.
From GoSecs Require Secs2.Encode Gen.Bridge2Secs2.
Import ListNotations.
Open Scope Z_scope.

(** * C01 / C03 — secs2/item.go *)

(** [appendHeaderBytesFC]: for every destination, every 6-bit format code and EVERY length field:
    no panic; a length field above MaxByteSize (2^24-1) is refused with [dst] untouched, otherwise
    the bytes appended are [header fc n] (format byte + minimal big-endian length bytes). *)
Theorem tie_secs2_appendHeaderBytesFC : forall dst fc n,
  0 <= fc < 64 ->
  Gen2.secs2.appendHeaderBytesFC dst fc n =
  GOk (if n >? 16777215 then (dst, ErrNew "size limit exceeded"%string)
       else (dst ++ Secs2.Encode.header fc n, ErrNil)).
Proof. exact Bridge2Secs2.bridge_appendHeaderBytesFC. Qed.
Print Assumptions tie_secs2_appendHeaderBytesFC.

