(** Tie theorem of translator v2 (family: sml error positions — C14): [newParseError] REGENERATED
    from sml/errors.go ([Gen/Gen2.v]) equals [new_parse_error] of Sml/ErrPos.v on every input,
    offset and message, and never panics. Only [exact] + [Print Assumptions]. *)
From Coq Require Import String.
From Coq Require Import ZArith Bool List Lia.
From GoSecs Require Import Base.GoInt Base.BytesBE Base.GoSlice Base.Decimal Gen.Gen2 Sml.ErrPos Gen.Bridge2SmlErrPos.
Import ListNotations.
Open Scope Z_scope.

Theorem tie_sml_newParseError : forall input offset msg, blen input < 2 ^ 62 ->
  Gen2.sml.newParseError input offset msg =
  GOk (let '(off, line, col) := new_parse_error input offset in
       Some (Gen2.sml.mk_ParseError off line col msg)).
Proof. exact bridge_newParseError. Qed.
Print Assumptions tie_sml_newParseError.
