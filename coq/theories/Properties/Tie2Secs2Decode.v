(** Tie theorems of translator v2 (family: secs2 numeric leaf decoders — C02, C01): [decodeUintItem]
    and [decodeIntItem] REGENERATED from secs2/decode.go ([Gen/Gen2.v]) equal [decode_num] of
    Secs2/Decode.v on EVERY owned buffer, start position, position, element width and length field:
    same error class, same values (scalar and slice representation, [uint_item_of] / [int_item_of]),
    position advanced by the length, raw bytes [owned[startPos:pos+length]] retained — and no
    panic on any byte slice.

    [decodeFloatItem] likewise (floats are IEEE bit patterns on both sides; the float32 -> float64
    widening is [go_f32_widen] = the model's [f32_widen]).

    [decodeItem] — the recursive decoder, regenerated as a [Fixpoint] on an explicit fuel (out of
    fuel = panic) over the generated mutual item type ([Item] with [Item_ListItem] holding a
    [list Item]) — against [Secs2/Decode.decode_item] / [decode]: for EVERY buffer shorter than
    2^31, every start position and every Go fuel >= 65, no panic; when the model decodes a tree the
    Go code returns nil error, the same end position (= same consumed prefix / same rest) and an
    item in relation [repr] with the model tree (same shape, same leaf values, same widths); when
    the model refuses, the Go code returns a nil item and a non-nil error.
    Only [exact] + [Print Assumptions]. *)
From Coq Require Import String.
From Coq Require Import ZArith Bool List Lia.
From GoSecs Require Import Base.GoInt Base.BytesBE Base.GoSlice Gen.Gen2 Secs2.Item Secs2.Decode Secs2.DecodeChkProofs
  Gen.Bridge2Secs2Decode Gen.Bridge2Secs2DecodeItem.
Import ListNotations.
Open Scope Z_scope.
Import Gen2.secs2.

Theorem tie_secs2_setRaw : forall raw,
  baseItem_setRaw (Some (mk_baseItem ErrNil None 0)) raw = GOk (Some (raw_base raw), tt).
Proof. exact setRaw_spec. Qed.
Print Assumptions tie_secs2_setRaw.

Theorem tie_secs2_decodeUintItem : forall owned sp pos w len slab,
  bytes_ok owned -> go_len owned < 2 ^ 62 -> 0 <= sp <= pos -> pos <= go_len owned -> 0 <= len < 2 ^ 31 ->
  decodeUintItem owned sp pos (wz w) len slab =
  GOk (uint_result owned sp pos len w (decode_num KUint w len (skipn (Z.to_nat pos) owned))).
Proof. exact bridge_decodeUintItem. Qed.
Print Assumptions tie_secs2_decodeUintItem.

Theorem tie_secs2_decodeIntItem : forall owned sp pos w len slab,
  bytes_ok owned -> go_len owned < 2 ^ 62 -> 0 <= sp <= pos -> pos <= go_len owned -> 0 <= len < 2 ^ 31 ->
  decodeIntItem owned sp pos (wz w) len slab =
  GOk (int_result owned sp pos len w (decode_num KInt w len (skipn (Z.to_nat pos) owned))).
Proof. exact bridge_decodeIntItem. Qed.
Print Assumptions tie_secs2_decodeIntItem.

Theorem tie_secs2_decodeFloatItem : forall owned sp pos w len slab,
  float_width w = true ->
  bytes_ok owned -> go_len owned < 2 ^ 62 -> 0 <= sp <= pos -> pos <= go_len owned -> 0 <= len < 2 ^ 31 ->
  decodeFloatItem owned sp pos (wz w) len slab =
  GOk (float_result owned sp pos len w (decode_num KFloat w len (skipn (Z.to_nat pos) owned))).
Proof. exact bridge_decodeFloatItem. Qed.
Print Assumptions tie_secs2_decodeFloatItem.

Theorem tie_secs2_decodeItem_at : forall owned slab pos gf,
  bytes_ok owned -> zlen owned < 2 ^ 31 -> 0 <= pos <= zlen owned -> (65 <= gf)%nat ->
  match decode_item (S (length (sfx owned pos))) 0 (sfx owned pos) with
  | Ok (y, rest) => exists pos' it, pos <= pos' <= zlen owned /\ rest = sfx owned pos' /\
                                    decodeItem gf owned pos 0 slab = GOk (it, pos', ErrNil) /\ repr y it
  | Err e => exists p e', decodeItem gf owned pos 0 slab = GOk (Item_nil, p, e') /\ e' <> ErrNil
  end.
Proof. exact bridge_decodeItem_at. Qed.
Print Assumptions tie_secs2_decodeItem_at.

Theorem tie_secs2_decodeItem : forall owned slab gf,
  bytes_ok owned -> zlen owned < 2 ^ 31 -> owned <> [] -> (65 <= gf)%nat ->
  match decode owned with
  | Ok (y, rest) => exists pos' it, 0 <= pos' <= zlen owned /\ rest = skipn (Z.to_nat pos') owned /\
                                    decodeItem gf owned 0 0 slab = GOk (it, pos', ErrNil) /\ repr y it
  | Err e => exists p e', decodeItem gf owned 0 0 slab = GOk (Item_nil, p, e') /\ e' <> ErrNil
  end.
Proof. exact bridge_decodeItem. Qed.
Print Assumptions tie_secs2_decodeItem.

Theorem tie_secs2_decodeItem_no_panic : forall owned slab gf,
  bytes_ok owned -> zlen owned < 2 ^ 31 -> owned <> [] -> (65 <= gf)%nat ->
  decodeItem gf owned 0 0 slab <> GPanic.
Proof. exact decodeItem_no_panic. Qed.
Print Assumptions tie_secs2_decodeItem_no_panic.
