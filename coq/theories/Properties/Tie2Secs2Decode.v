(** Tie theorems of translator v2 (family: secs2 numeric leaf decoders — C02, C01): [decodeUintItem]
    and [decodeIntItem] REGENERATED from secs2/decode.go ([Gen/Gen2.v]) equal [decode_num] of
    Secs2/Decode.v on EVERY owned buffer, start position, position, element width and length field:
    same error class, same values (scalar and slice representation, [uint_item_of] / [int_item_of]),
    position advanced by the length, raw bytes [owned[startPos:pos+length]] retained — and no
    panic on any byte slice. Only [exact] + [Print Assumptions]. *)
From Coq Require Import String.
From Coq Require Import ZArith Bool List Lia.
From GoSecs Require Import Base.GoInt Base.BytesBE Base.GoSlice Gen.Gen2 Secs2.Item Secs2.Decode Gen.Bridge2Secs2Decode.
Import ListNotations.
Open Scope Z_scope.
Import Gen2.secs2.

Theorem tie_secs2_setRaw : forall raw,
  baseItem_setRaw (Some (mk_baseItem ErrNil None 0)) raw = GOk (Some (raw_base raw), tt).
Proof. exact setRaw_spec. Qed.
Print Assumptions tie_secs2_setRaw.

Theorem tie_secs2_decodeUintItem : forall owned sp pos w len slab,
  bytes_ok owned -> go_len owned < 2 ^ 62 -> 0 <= sp <= pos -> pos <= go_len owned -> 0 <= len < 2 ^ 31 ->
  decodeUintItem owned sp pos (wz w) len slab =
  GOk (uint_result owned sp pos len w (decode_num KUint w len (skipn (Z.to_nat pos) owned))).
Proof. exact bridge_decodeUintItem. Qed.
Print Assumptions tie_secs2_decodeUintItem.

Theorem tie_secs2_decodeIntItem : forall owned sp pos w len slab,
  bytes_ok owned -> go_len owned < 2 ^ 62 -> 0 <= sp <= pos -> pos <= go_len owned -> 0 <= len < 2 ^ 31 ->
  decodeIntItem owned sp pos (wz w) len slab =
  GOk (int_result owned sp pos len w (decode_num KInt w len (skipn (Z.to_nat pos) owned))).
Proof. exact bridge_decodeIntItem. Qed.
Print Assumptions tie_secs2_decodeIntItem.
