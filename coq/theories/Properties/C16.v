(** C16 — Constructors never panic, clamp not wrap; errored items never reach the wire.
    Only property theorems (closed by [exact]), their assumptions and non-vacuity examples.
    Model: Secs2/Construct.v (+ ConstructParse.v); proofs: Secs2/ConstructProofs.v;
    tie: Gen/BridgeConstruct.v (translator) + differential through the public constructors. *)
From Coq Require Import ZArith Bool List Lia.
From GoSecs Require Import Base.GoInt Gen.Gen Gen.BridgeConstruct
  Secs2.ConstructParse Secs2.Construct Secs2.ConstructProofs.
Import ListNotations.
Open Scope Z_scope.

Theorem C16_bridge_clampInt64 : forall v lo hi, Gen.secs2.clampInt64 v lo hi = clamp lo hi v.
Proof. exact bridge_clampInt64. Qed.
Print Assumptions C16_bridge_clampInt64.

Theorem C16_clamp_nearest : forall lo hi v x, lo <= hi -> lo <= x <= hi ->
  Z.abs (clamp lo hi v - v) <= Z.abs (x - v).
Proof. exact clamp_nearest. Qed.
Print Assumptions C16_clamp_nearest.

Example C16_clamp_nonvacuous : new_int 1 [AInt TInt 200] = IInt 1 1 [127] None.
Proof. reflexivity. Qed.
