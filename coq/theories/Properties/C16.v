(** C16 — Constructors never panic, clamp not wrap; errored items never reach the wire.
    Only property theorems (closed by [exact]), their assumptions and non-vacuity examples.
    Model: Secs2/Construct.v (+ ConstructParse.v); proofs: Secs2/ConstructProofs.v;
    tie: Gen/BridgeConstruct.v (translator: clampInt64, clampUint64, MaxByteSize) + differential
    through the PUBLIC constructors (harness/cmd/c16, ocaml/c16_driver.ml).

    "Never panic" is totality of the model functions plus the harness's recover around every real
    call; the only indexing in the constructors ([values[0]] when the int32 size is 1) is
    [C16_scalar_index_safe]. *)
From Coq Require Import ZArith Bool List Lia.
From GoSecs Require Import Base.GoInt Gen.Gen Gen.BridgeConstruct
  Secs2.ConstructParse Secs2.Construct Secs2.ConstructProofs Secs2.ConstructFloat.
Import ListNotations.
Open Scope Z_scope.

(** ** The clamp of the model IS the clamp of the current source *)

Theorem C16_bridge_clampInt64 : forall v lo hi, Gen.secs2.clampInt64 v lo hi = clamp lo hi v.
Proof. exact bridge_clampInt64. Qed.
Print Assumptions C16_bridge_clampInt64.

Theorem C16_bridge_clampUint64 : forall v hi, 0 <= v -> Gen.secs2.clampUint64 v hi = clamp 0 hi v.
Proof. exact bridge_clampUint64_clamp. Qed.
Print Assumptions C16_bridge_clampUint64.

(** [clamp lo hi v] is within bounds, the input when in range, and a NEAREST point of the range
    otherwise — hence never [v mod 2^k] unless that is the same number. *)
Theorem C16_clamp_nearest : forall lo hi v x, lo <= hi -> lo <= x <= hi ->
  Z.abs (clamp lo hi v - v) <= Z.abs (x - v).
Proof. exact clamp_nearest. Qed.
Print Assumptions C16_clamp_nearest.

Theorem C16_clamp_in_range : forall lo hi v, lo <= v <= hi -> clamp lo hi v = v.
Proof. exact clamp_id. Qed.

Theorem C16_clamp_bounds : forall lo hi v, lo <= hi -> lo <= clamp lo hi v <= hi.
Proof. exact clamp_bounds. Qed.

(** ** Signed: every presentation (scalars of any integer type, slices, canonical decimal strings of
    ANY magnitude, mixed) of the numbers [zs] yields an error-free item (up to the size cap) whose
    values are [clamp (-2^(8w-1)) (2^(8w-1)-1)] of each number, in order. *)
Theorem C16_clamp_int : forall w args zs, valid_w w -> denotes_all canon_dec args zs ->
  Z.of_nat (length zs) < 2 ^ 31 ->
  let it := new_int w args in
  (error it = None <-> Z.of_nat (length zs) * w <= MaxByteSize) /\
  type_code it = 10 + w /\ size_of it = Z.of_nat (length zs) /\
  num_values it = map (clamp (int_lo w) (int_hi w)) zs.
Proof. exact clamp_int_values. Qed.
Print Assumptions C16_clamp_int.

(** ** Unsigned: the same for non-negative numbers, bounds [0, 2^(8w)-1]. *)
Theorem C16_clamp_uint : forall w args zs, valid_w w -> denotes_all canon_udec args zs ->
  Forall (fun z => 0 <= z) zs -> Z.of_nat (length zs) < 2 ^ 31 ->
  let it := new_uint w args in
  (error it = None <-> Z.of_nat (length zs) * w <= MaxByteSize) /\
  type_code it = 20 + w /\ size_of it = Z.of_nat (length zs) /\
  num_values it = map (clamp 0 (uint_hi w)) zs.
Proof. exact clamp_uint_values. Qed.
Print Assumptions C16_clamp_uint.

(** ** Floats: clampF4 keeps NaN/Inf and every finite value inside +-MaxFloat32, and maps a finite
    value outside to the bound of the same sign. *)
Theorem C16_clamp_f4 : forall b, 0 <= b < 2 ^ 64 ->
  (f64_special b = true -> clamp_f4 b = b) /\
  (f64_special b = false -> f64_mag b <= maxf32_mag -> clamp_f4 b = b) /\
  (f64_special b = false -> maxf32_mag < f64_mag b ->
     clamp_f4 b = f64_sign b * 2 ^ 63 + maxf32_mag /\
     f64_sign (clamp_f4 b) = f64_sign b /\ f64_mag (clamp_f4 b) = maxf32_mag /\
     f64_special (clamp_f4 b) = false).
Proof. exact clamp_f4_spec. Qed.
Print Assumptions C16_clamp_f4.

Theorem C16_float_values : forall pf w args xs, w = 4 \/ w = 8 -> fdenotes_all pf w args xs ->
  Z.of_nat (length xs) < 2 ^ 31 ->
  let it := new_float pf w args in
  (error it = None <-> Z.of_nat (length xs) * w <= MaxByteSize) /\
  type_code it = 30 + w /\ size_of it = Z.of_nat (length xs) /\ num_values it = xs.
Proof. exact float_values. Qed.
Print Assumptions C16_float_values.

(** Uniform float statement: whatever the presentation (float32, float64, integer with |v| <= 2^53,
    parsed string), the item stores [f4 w] (clampF4 for F4, identity for F8) of the exact binary64
    image of each input, in order; clampF4 is the identity on widened float32 and integer images. *)
Theorem C16_clamp_float : forall pf w args xs, w = 4 \/ w = 8 -> fin_denotes_all pf args xs ->
  Z.of_nat (length xs) < 2 ^ 31 ->
  let it := new_float pf w args in
  (error it = None <-> Z.of_nat (length xs) * w <= MaxByteSize) /\
  type_code it = 30 + w /\ size_of it = Z.of_nat (length xs) /\
  num_values it = map (f4 w) xs.
Proof. exact float_clamp_values. Qed.
Print Assumptions C16_clamp_float.

Theorem C16_order_and_shape_float_inputs : forall pf w a1 a2 xs,
  fin_denotes_all pf a1 xs -> fin_denotes_all pf a2 xs -> new_float pf w a1 = new_float pf w a2.
Proof. exact shape_float_inputs. Qed.
Print Assumptions C16_order_and_shape_float_inputs.

(** ** Order and shape: two argument lists presenting the same numbers give THE SAME item (for every
    byte size, valid or not), hence Equal items when error-free. *)
Theorem C16_order_and_shape_int : forall w a1 a2 zs,
  denotes_all canon_dec a1 zs -> denotes_all canon_dec a2 zs ->
  new_int w a1 = new_int w a2 /\
  (error (new_int w a1) = None -> equal (new_int w a1) (new_int w a2) = true).
Proof. intros; split; [eapply shape_int|eapply shape_int_equal]; eassumption. Qed.
Print Assumptions C16_order_and_shape_int.

Theorem C16_order_and_shape_uint : forall w a1 a2 zs,
  denotes_all canon_udec a1 zs -> denotes_all canon_udec a2 zs -> Forall (fun z => 0 <= z) zs ->
  new_uint w a1 = new_uint w a2 /\
  (error (new_uint w a1) = None -> equal (new_uint w a1) (new_uint w a2) = true).
Proof. intros; split; [eapply shape_uint|eapply shape_uint_equal]; eassumption. Qed.
Print Assumptions C16_order_and_shape_uint.

Theorem C16_order_and_shape_float : forall pf w a1 a2 xs,
  fdenotes_all pf w a1 xs -> fdenotes_all pf w a2 xs ->
  new_float pf w a1 = new_float pf w a2 /\
  (error (new_float pf w a1) = None -> equal (new_float pf w a1) (new_float pf w a2) = true).
Proof. intros; split; [eapply shape_float|eapply shape_float_equal]; eassumption. Qed.
Print Assumptions C16_order_and_shape_float.

(** the strconv model on canonical decimals of any magnitude: the value, or the bound with ErrRange *)
Theorem C16_parse_canon : forall s z, canon_dec s z ->
  parse_int64 s = if z >? i64max then PRange i64max
                  else if z <? i64min then PRange i64min else POk z.
Proof. exact parse_int64_canon. Qed.
Print Assumptions C16_parse_canon.

(** ** The documented refusals give Error() <> nil *)
Theorem C16_errors : forall pf w args a, In a args ->
  (refused_int a -> error (new_int w args) <> None) /\
  (refused_uint a -> error (new_uint w args) <> None) /\
  (refused_float pf a -> error (new_float pf w args) <> None) /\
  (refused_bin a -> error (new_binary args) <> None) /\
  (refused_bool a -> error (new_boolean args) <> None).
Proof. exact refusals. Qed.
Print Assumptions C16_errors.

(** The constructor fold's error is STICKY: an invalid argument at any position — whatever precedes
    and whatever follows it, fast-path or slow-path types — leaves the item errored; it is then
    neither Equal to the item of the remaining arguments nor accepted by the message gate. *)
Theorem C16_errors_any_position : forall pf w pre a post,
  (refused_int a -> error (new_int w (pre ++ a :: post)) <> None) /\
  (refused_uint a -> error (new_uint w (pre ++ a :: post)) <> None) /\
  (refused_float pf a -> error (new_float pf w (pre ++ a :: post)) <> None) /\
  (refused_bin a -> error (new_binary (pre ++ a :: post)) <> None) /\
  (refused_bool a -> error (new_boolean (pre ++ a :: post)) <> None).
Proof. exact refusals_any_position. Qed.
Print Assumptions C16_errors_any_position.

Theorem C16_forgotten_argument_impossible : forall w pre a post stream function wb session sysbytes,
  refused_int a ->
  let it := new_int w (pre ++ a :: post) in
  equal it (new_int w (pre ++ post)) = false /\ equal (new_int w (pre ++ post)) it = false /\
  exists e, new_data_message stream function wb session sysbytes (Some it) = inl e.
Proof. exact forgotten_argument_impossible. Qed.
Print Assumptions C16_forgotten_argument_impossible.

Theorem C16_errors_byte_size : forall pf w args,
  (~ valid_w w -> error (new_int w args) <> None /\ error (new_uint w args) <> None) /\
  (~ (w = 4 \/ w = 8) -> error (new_float pf w args) <> None).
Proof. exact invalid_byte_size. Qed.
Print Assumptions C16_errors_byte_size.

Theorem C16_errors_too_long : forall s lsh cs,
  (MaxByteSize < Z.of_nat (length s) ->
   error (new_ascii s) <> None /\ error (new_jis8 s) <> None /\ error (new_localized lsh s) <> None) /\
  (MaxByteSize < Z.of_nat (length cs) -> error (new_list cs) <> None).
Proof. intros; split; [apply strings_too_long|apply list_too_long]. Qed.
Print Assumptions C16_errors_too_long.

(** ** The cached clean flag is the recursive answer, at every nesting depth *)
Theorem C16_clean_flag : forall cs, Forall wf_opt cs -> Z.of_nat (length cs) <= MaxByteSize ->
  (error (new_list cs) = None <-> Forall (fun c => error c = None) (somes cs)).
Proof. exact clean_flag. Qed.
Print Assumptions C16_clean_flag.

Theorem C16_constructors_wf : forall pf w args s lsh cs,
  wf_item (new_int w args) /\ wf_item (new_uint w args) /\ wf_item (new_float pf w args) /\
  wf_item (new_binary args) /\ wf_item (new_boolean args) /\ wf_item (new_ascii s) /\
  wf_item (new_jis8 s) /\ wf_item (new_localized lsh s) /\ wf_item IEmpty /\
  (Forall wf_opt cs -> wf_item (new_list cs)).
Proof.
  intros. destruct (leaf_constructors_wf pf w args s lsh) as (A & B & C & D & E & F & G & H & I).
  repeat split; try assumption. apply new_list_wf.
Qed.
Print Assumptions C16_constructors_wf.

(** ** An errored item is never Equal to anything, in either position, nil included *)
Theorem C16_never_equal : forall x y, error x <> None ->
  equal_opt (Some x) y = false /\ equal_opt y (Some x) = false.
Proof. exact never_equal_opt. Qed.
Print Assumptions C16_never_equal.

(** ** ... and is refused by the message gate and by every send entry point: nothing reaches the wire *)
Theorem C16_refused : forall stream function w session sysbytes x, error x <> None ->
  exists e, new_data_message stream function w session sysbytes (Some x) = inl e.
Proof. exact refused. Qed.
Print Assumptions C16_refused.

Theorem C16_refused_send : forall session sysbytes c x, call_item c = Some x -> error x <> None ->
  exists e, send session sysbytes c = (Some e, []).
Proof. exact refused_send. Qed.
Print Assumptions C16_refused_send.

Theorem C16_wire_clean : forall session sysbytes c m,
  In m (snd (send session sysbytes c)) -> error (m_item m) = None.
Proof. exact wire_clean. Qed.
Print Assumptions C16_wire_clean.

Theorem C16_gate_accepts : forall stream function w session sysbytes x,
  (exists m, new_data_message stream function w session sysbytes (Some x) = inr m) <->
  stream <= 127 /\ error x = None /\ ~ (w = true /\ function mod 2 = 0).
Proof. exact gate_accepts. Qed.
Print Assumptions C16_gate_accepts.

(** ** The int32 element count: the only index expression is safe, but the count wraps *)
Theorem C16_scalar_index_safe : forall (vs : list Z), size32 vs = 1 -> vs <> [].
Proof. exact (@size32_one_nonempty Z). Qed.

(** The premise [length < 2^31] of C16_clamp_int/uint/float_values is necessary: the faithful model
    REFUTES "valid arguments yield exactly the supplied values" beyond it (2^32+1 booleans give an
    error-free one-element item). Reproduced on the real code: known finding C16-count-int32. *)
Theorem C16_count_refuted : exists vs : list bool,
  let it := new_boolean [ABools vs] in
  error it = None /\ length (bool_values it) <> length vs.
Proof. exact count_wrap_refuted. Qed.
Print Assumptions C16_count_refuted.

(** ** Non-vacuity *)

(* "300" "5" | int(300) uint8(5) | []int16{300,5} all denote [300; 5]; I1 stores [127; 5] *)
Definition s300 : list Z := [51; 48; 48].
Definition s5 : list Z := [53].
Lemma canon_300 : canon_dec s300 300.
Proof. apply CD_pos. apply (CU s300); [discriminate|repeat constructor; unfold is_dig; lia|left; cbn; lia]. Qed.
Lemma canon_5 : canon_dec s5 5.
Proof. apply CD_pos. apply (CU s5); [discriminate|repeat constructor; unfold is_dig; lia|left; cbn; lia]. Qed.

Example C16_clamp_int_nonvacuous :
  denotes_all canon_dec [AInt TInt 300; AInt TUint8 5] [300; 5] /\
  denotes_all canon_dec [AInts TInt16 [300; 5]] [300; 5] /\
  denotes_all canon_dec [AStr s300; AStrs [s5]] [300; 5] /\
  num_values (new_int 1 [AStr s300; AStrs [s5]]) = [127; 5] /\
  error (new_int 1 [AStr s300; AStrs [s5]]) = None /\
  300 mod 256 = 44.
Proof.
  repeat split.
  - apply (DA_cons _ _ [300] _ [5]); [apply D_int; unfold in_gty; cbn; lia|].
    apply (DA_cons _ _ [5] _ []); [apply D_int; unfold in_gty; cbn; lia|constructor].
  - apply (DA_cons _ _ [300; 5] _ []); [apply D_ints; repeat constructor; unfold in_gty; cbn; lia|constructor].
  - apply (DA_cons _ _ [300] _ [5]); [apply D_str; exact canon_300|].
    apply (DA_cons _ _ [5] _ []); [apply D_strs; apply Forall2_cons; [exact canon_5|apply Forall2_nil]|constructor].
Qed.

Example C16_clamp_uint_nonvacuous :
  num_values (new_uint 2 [AInt TInt 70000; AInts TUint64 [18446744073709551615; 7]]) = [65535; 65535; 7] /\
  error (new_uint 2 [AInt TInt (-1)]) = Some ENegative.
Proof. split; reflexivity. Qed.

Example C16_clamp_f4_nonvacuous :
  (* 1e39 (0x48078287F49C4A1D) into F4 becomes MaxFloat32; -1e39 becomes -MaxFloat32; +Inf passes *)
  clamp_f4 5190213388591581725 = maxf32_mag /\
  clamp_f4 (2 ^ 63 + 5190213388591581725) = 2 ^ 63 + maxf32_mag /\
  clamp_f4 9218868437227405312 = 9218868437227405312 /\
  num_values (new_float (fun _ => None) 4 [AF64 5190213388591581725; AInt TInt8 (-2)]) =
    [maxf32_mag; 13835058055282163712].
Proof. repeat split; reflexivity. Qed.

Example C16_clamp_float_nonvacuous :
  (* float32(1.5) = 0x3FC00000, int8(-2), float64 1e39 and the string "x" parsed as 1e39, into F4 *)
  let pf := fun s => match s with [120] => Some 5190213388591581725 | _ => None end in
  fin_denotes_all pf [AF32 1069547520; AInt TInt8 (-2); AF64s [5190213388591581725]; AStr [120]]
                  ([4609434218613702656] ++ [13835058055282163712] ++ [5190213388591581725] ++ [5190213388591581725] ++ []) /\
  num_values (new_float pf 4 [AF32 1069547520; AInt TInt8 (-2); AF64s [5190213388591581725]; AStr [120]]) =
    [4609434218613702656; 13835058055282163712; maxf32_mag; maxf32_mag].
Proof.
  cbv zeta. split; [|reflexivity].
  apply (FIA_cons _ _ [4609434218613702656]); [apply (FI_f32 _ 1069547520); lia|].
  apply (FIA_cons _ _ [13835058055282163712]); [apply (FI_int _ TInt8 (-2)); unfold two53; lia|].
  apply (FIA_cons _ _ [5190213388591581725]); [apply FI_f64s|].
  apply (FIA_cons _ _ [5190213388591581725]); [apply FI_str; reflexivity|constructor].
Qed.

Example C16_errors_nonvacuous :
  refused_int (AStr [120]) /\ refused_uint (AInts TInt8 [1; -1]) /\
  refused_float (fun _ => None) (AInt TInt64 9007199254740993) /\ refused_bin (AInt TInt 256) /\
  refused_bool ANil /\
  error (new_int 4 [AInt TInt 1; AStr [120]]) = Some ESyntax /\
  error (new_int 3 [AInt TInt 1]) = Some EByteSize.
Proof.
  repeat split; try reflexivity.
  - exists (-1). split; [right; left; reflexivity|lia].
  - left. reflexivity.
  - right. reflexivity.
Qed.

(* "12x" first, a slow-path argument ("34", int8) behind it: still errored *)
Example C16_errors_any_position_nonvacuous :
  refused_int (AStr [49; 50; 120]) /\
  error (new_int 2 [AStr [49; 50; 120]; AStr [51; 52]]) = Some ESyntax /\
  error (new_int 2 [AInt TInt 1; ANil; AInts TInt32 [1; 2]; AInt TInt8 5]) = Some EType /\
  error (new_int 2 [AStr [51; 52]; AInt TInt8 5]) = None.
Proof. repeat split; reflexivity. Qed.

Example C16_clean_flag_nonvacuous :
  let bad := new_int 1 [ANil] in
  let inner := new_list [Some (new_ascii [65]); Some bad] in
  let outer := new_list [Some (new_ascii [66]); None; Some inner] in
  error bad = Some EType /\ error inner = Some EType /\ error outer = Some EType /\
  error (new_list [Some (new_list [Some IEmpty]); None]) = None /\
  (exists e, new_data_message 1 1 true 0 0 (Some outer) = inl e) /\
  equal outer outer = false.
Proof. cbv zeta. repeat split; try reflexivity. eexists; reflexivity. Qed.

Example C16_gate_nonvacuous :
  exists m, new_data_message 1 1 true 7 9 (Some (new_int 2 [AInt TInt 5])) = inr m /\
            send 7 9 (SendData 1 1 true (Some (new_int 2 [AInt TInt 5]))) = (None, [m]).
Proof. eexists; split; reflexivity. Qed.
