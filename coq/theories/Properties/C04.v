(** C04 — Frame decoding and stream framing are robust to arbitrary bytes and segmentation.
    Only property theorems (each closed by [exact]), their assumptions and non-vacuity examples.
    Models: Hsms/Frame.v (decode entry points, instrumented twins, shared decode cell),
    Hsms/Reader.v (receive loop over timed segments); proofs: Hsms/FrameProofs.v,
    Hsms/ReaderProofs.v; tie: Gen/BridgeFrames.v + harness differential (cmd/c04): decode entry
    points on arbitrary bytes, the real readFrame over a simulated conn in virtual time, and a
    real connection fed by a scripted peer. *)
From Coq Require Import ZArith Bool List Lia.
From GoSecs Require Import Base.GoInt Gen.Gen Gen.BridgeFrames Hsms.Header Hsms.HeaderProofs Hsms.Frame Hsms.FrameProofs
  Hsms.Reader Hsms.ReaderProofs.
Import ListNotations.
Open Scope Z_scope.

(** *** (a) decoding: total (no index or slice out of range, for every byte string and cap) *)
Theorem C04_decode_total_message : forall cap data,
  decode_message_chk cap data = Val (decode_message cap data).
Proof. exact decode_message_chk_eq. Qed.
Theorem C04_decode_total_payload : forall cap p,
  decode_payload_chk cap p = Val (decode_payload cap p).
Proof. exact decode_payload_chk_eq. Qed.
Theorem C04_decode_total_owned : forall owned, decode_owned_chk owned = Val (decode_owned owned).
Proof. exact decode_owned_chk_eq. Qed.
Print Assumptions C04_decode_total_message.

(** ... and exact: accepted iff well-formed (length field = remaining bytes, 10 <= length <= cap,
    PType 0, SType in the defined set) *)
Theorem C04_decode_exact : forall cap bs, (exists m, decode_message cap bs = Ok m) <-> wf_frame cap bs.
Proof. exact decode_message_ok_iff. Qed.
Theorem C04_decode_exact_payload : forall cap p, (exists m, decode_payload cap p = Ok m) <-> wf_payload cap p.
Proof. exact decode_payload_ok_iff. Qed.
Theorem C04_decode_entry_points_agree : forall cap bs,
  wf_frame cap bs -> decode_message cap bs = decode_payload cap (skipn 4 bs).
Proof. exact decode_message_payload. Qed.
Print Assumptions C04_decode_exact.

(** every rejection happens for the stated reason *)
Theorem C04_decode_reasons : forall cap bs e,
  decode_message cap bs = Err e ->
  let n := de32 (nth 0 bs 0) (nth 1 bs 0) (nth 2 bs 0) (nth 3 bs 0) in
  match e with
  | ETooShort => len bs < 14
  | ELenSmall => 14 <= len bs /\ n < 10
  | ELenBig => 14 <= len bs /\ cap < n
  | ELenMismatch => 14 <= len bs /\ 10 <= n <= cap /\ len bs <> 4 + n
  | EPType => len bs = 4 + n /\ 10 <= n <= cap /\ nth 8 bs 0 <> 0
  | ESType => len bs = 4 + n /\ 10 <= n <= cap /\ nth 8 bs 0 = 0 /\ valid_stype (nth 9 bs 0) = false
  end.
Proof. exact decode_message_err. Qed.

(** the accepted SType set is the one regenerated from the source *)
Theorem C04_bridge_stype_set : forall st, 0 <= st < 256 ->
  ((st =? 0) || ((st =? 1) || (st =? 2) || (st =? 3) || (st =? 4) || (st =? 5) || (st =? 6) || (st =? 7) || (st =? 9)))
  = Gen.hsms.IsValidSType st.
Proof. exact bridge_decode_stypes. Qed.
Theorem C04_bridge_cap :
  Gen.hsms.maxHSMSMsgLen = Gen.secs2.MaxByteSize /\ 10 <= frame_cap /\ frame_cap < 2147483648.
Proof. exact bridge_cap. Qed.
Print Assumptions C04_bridge_stype_set.

(** *** (c) a data frame is accepted at the frame level whatever its body bytes are ... *)
Theorem C04_frame_level_ignores_body : forall cap m, cap < 4294967296 -> wf_msg cap m ->
  decode_message cap (to_bytes m) = Ok (forget_reply m) /\ to_bytes (forget_reply m) = to_bytes m.
Proof. exact decode_to_bytes. Qed.

(** ... and its body outcome — for ANY body decoder [dec], in particular one that fails — is the
    same for every holder (the decoded message and every re-stamped copy), on every call, in
    every order; the decoder runs at most once. *)
Theorem C04_body_error_stable : forall (R : Type) (dec : list Z -> R) os body f,
  cell_inv R dec body f ->
  let '(f', rs) := crun dec f os in
  cell_inv R dec body f' /\ Forall (fun r => forall x, r = Some x -> x = dec body) rs /\ f_decodes f' <= 1.
Proof. exact crun_stable. Qed.
Theorem C04_body_cell_init : forall (R : Type) (dec : list Z -> R) d, cell_inv R dec (d_body d) (family_of R d).
Proof. exact family_of_inv. Qed.
Print Assumptions C04_body_error_stable.

(** *** (b) the receive loop *)
(** Segmentation independence: two timed segmentations of the same byte stream, ending the same
    way, neither suffering a T8 drop, produce the same events — the same frames in the same
    order (and the same allocations and terminal event). Cut points are arbitrary, including
    inside the 4-byte length. *)
Theorem C04_segmentation : forall t8 cap segs segs' f f',
  stream_of_segs segs = stream_of_segs segs' -> is_eof f = is_eof f' ->
  has_t8_drop (run t8 cap segs f) = false -> has_t8_drop (run t8 cap segs' f') = false ->
  run t8 cap segs f = run t8 cap segs' f'.
Proof. exact run_independent. Qed.
Print Assumptions C04_segmentation.

(** ... namely the events of the reference frame parser, which knows nothing of segments or time *)
Theorem C04_segmentation_reference : forall t8 cap segs f,
  has_t8_drop (run t8 cap segs f) = false ->
  run t8 cap segs f = spec_events cap (stream_of_segs segs) (is_eof f).
Proof. exact run_spec. Qed.

(** gaps of at most T8 between consecutive Read returns never cause a T8 drop (a Read that
    returns no byte re-arms the deadline like any other: exactly what readN's loop does) *)
Theorem C04_small_gaps_no_drop : forall t8 cap segs,
  Forall (fun seg => fst seg <= t8) segs ->
  has_t8_drop (snd (run_segs t8 cap rinit segs)) = false.
Proof. exact small_gaps_quiet_init. Qed.

(** a stream of valid frames, cut anyhow: exactly those frames are delivered, in order; exactly
    their lengths are allocated; the link stays up and idle *)
Theorem C04_delivers_all : forall t8 cap fs segs,
  cap < 4294967296 -> Forall (frame_len_ok cap) fs ->
  stream_of_segs segs = encode_frames fs ->
  has_t8_drop (snd (run_segs t8 cap rinit segs)) = false ->
  snd (run_segs t8 cap rinit segs) = frame_events fs /\
  alive (fst (run_segs t8 cap rinit segs)) = true /\ started (fst (run_segs t8 cap rinit segs)) = false.
Proof. exact delivers_all. Qed.
Print Assumptions C04_delivers_all.

(** An idle gap never times out: between frames, the duration of a wait — however long — changes
    nothing that follows; a script ending in silence at a frame boundary leaves the link up. *)
Theorem C04_idle : forall t8 cap pre g g' bs rest f,
  let s := fst (run_segs t8 cap rinit pre) in
  alive s = true -> started s = false ->
  run t8 cap (pre ++ (g, bs) :: rest) f = run t8 cap (pre ++ (g', bs) :: rest) f.
Proof. exact idle_gap_irrelevant. Qed.
(** A Read that returns no byte ((0, nil): in-memory / wrapped conns) while the link is idle does
    not start a frame: the run continues exactly as if it had not happened, so an idle gap of any
    length after it still never times out. *)
Theorem C04_empty_read_idle : forall t8 cap pre g rest f,
  let s := fst (run_segs t8 cap rinit pre) in
  alive s = true -> started s = false ->
  run t8 cap (pre ++ (g, []) :: rest) f = run t8 cap (pre ++ rest) f.
Proof. exact empty_read_idle. Qed.
Theorem C04_idle_wait : forall t8 s g,
  alive s = true -> started s = false -> wait t8 s g = (mkR true (ph s) (since s + g), []).
Proof. exact idle_wait. Qed.
Print Assumptions C04_idle.

(** A gap longer than T8 inside a frame drops the link exactly there: what was delivered before,
    then the drop, then nothing. *)
Theorem C04_t8 : forall t8 cap pre g bs rest f,
  let s := fst (run_segs t8 cap rinit pre) in
  alive s = true -> started s = true -> since s + g > t8 ->
  run t8 cap (pre ++ (g, bs) :: rest) f = snd (run_segs t8 cap rinit pre) ++ [EvDrop DT8].
Proof. exact stall_drops. Qed.
Theorem C04_t8_silence : forall t8 cap segs,
  has_t8_drop (snd (run_segs t8 cap rinit segs)) = false ->
  run t8 cap segs FinSilent = spec_events cap (stream_of_segs segs) false.
Proof. exact run_spec_silent. Qed.
Print Assumptions C04_t8.

(** The length guard: in every run, over every byte stream and every timing, every allocation
    request lies in [10, cap] ... *)
Theorem C04_len_guard : forall t8 cap segs f, Forall (alloc_ok cap) (run t8 cap segs f).
Proof. exact run_alloc_ok. Qed.
(** ... and a length field outside [10, cap] drops the link after delivering the frames before
    it, without ever allocating the claimed size *)
Theorem C04_len_guard_drop : forall t8 cap fs b0 b1 b2 b3 junk segs,
  cap < 4294967296 -> Forall (frame_len_ok cap) fs ->
  (de32 b0 b1 b2 b3 < 10 \/ cap < de32 b0 b1 b2 b3) ->
  stream_of_segs segs = encode_frames fs ++ b0 :: b1 :: b2 :: b3 :: junk ->
  has_t8_drop (snd (run_segs t8 cap rinit segs)) = false ->
  snd (run_segs t8 cap rinit segs) =
    frame_events fs ++ [EvDrop (if de32 b0 b1 b2 b3 <? 10 then DLenSmall else DLenBig)] /\
  alive (fst (run_segs t8 cap rinit segs)) = false /\
  allocs_of (snd (run_segs t8 cap rinit segs)) = map len fs.
Proof. exact bad_length_drops. Qed.
Print Assumptions C04_len_guard_drop.

(** *** Non-vacuity *)
Definition f1 : list Z := [0; 1; 129; 1; 0; 0; 0; 0; 0; 7].               (* S1F1 W, no body *)
Definition f2 : list Z := [0; 1; 1; 2; 0; 0; 0; 0; 0; 7; 65; 2; 79; 75].  (* S1F2 <A "OK"> *)
Example C04_decode_exact_nonvacuous :
  wf_frame frame_cap (be32 14 ++ f2) /\
  decode_message frame_cap (be32 14 ++ f2) = Ok (MData (mkD (mkHdr 0 1 1 2 0 0 0 0 0 7) [65; 2; 79; 75])) /\
  decode_message frame_cap (be32 15 ++ f2) = Err ELenMismatch /\
  decode_message frame_cap ([0; 0; 0; 10; 0; 0; 0; 0; 1; 0; 0; 0; 0; 0]) = Err EPType /\
  decode_message frame_cap ([0; 0; 0; 10; 0; 0; 0; 0; 0; 8; 0; 0; 0; 0]) = Err ESType.
Proof. split; [apply wf_frameb_spec; vm_compute; reflexivity|repeat split; vm_compute; reflexivity]. Qed.

(** the same two frames, cut inside the length prefix and inside the header, with a one-hour idle
    gap between the frames and in-frame gaps below T8 = 5 *)
Definition segsA : list (Z * list Z) := [(0, be32 10 ++ f1 ++ be32 14 ++ f2)].
Definition segsB : list (Z * list Z) :=
  [(0, [0; 0]); (5, [0; 10; 0; 1]); (3, [129; 1; 0; 0; 0; 0; 0; 7]); (3600000, [0]); (4, [0; 0; 14; 0; 1; 1]);
   (5, [2; 0; 0; 0; 0; 0; 7; 65; 2; 79]); (1, [75])].
Example C04_segmentation_nonvacuous :
  stream_of_segs segsA = stream_of_segs segsB /\
  has_t8_drop (run 5 frame_cap segsA FinSilent) = false /\
  has_t8_drop (run 5 frame_cap segsB FinSilent) = false /\
  run 5 frame_cap segsB FinSilent = [EvAlloc 10; EvFrame f1; EvAlloc 14; EvFrame f2; EvIdle].
Proof. repeat split; vm_compute; reflexivity. Qed.
Example C04_empty_read_nonvacuous :
  run 5 frame_cap [(0, be32 10 ++ f1); (1, []); (2, []); (3600000, be32 14 ++ f2)] FinSilent =
  [EvAlloc 10; EvFrame f1; EvAlloc 14; EvFrame f2; EvIdle] /\
  run 5 frame_cap [(0, be32 10); (4, []); (4, []); (5, f1)] FinSilent = [EvAlloc 10; EvFrame f1; EvIdle] /\
  run 5 frame_cap [(0, be32 10); (6, []); (1, f1)] FinSilent = [EvAlloc 10; EvDrop DT8].
Proof. repeat split; vm_compute; reflexivity. Qed.
Example C04_t8_nonvacuous :
  run 5 frame_cap [(0, be32 10 ++ f1); (100, [0; 0; 0]); (6, [14] ++ f2)] (FinEof 0) =
  [EvAlloc 10; EvFrame f1; EvDrop DT8].
Proof. vm_compute. reflexivity. Qed.
Example C04_len_guard_nonvacuous :
  run 5 frame_cap [(0, be32 10 ++ f1 ++ [255; 255]); (2, [255; 255; 1; 2; 3])] (FinEof 0) =
  [EvAlloc 10; EvFrame f1; EvDrop DLenBig] /\
  run 5 frame_cap [(0, [0; 0; 0; 9; 1; 2; 3])] FinSilent = [EvDrop DLenSmall].
Proof. split; vm_compute; reflexivity. Qed.
Example C04_body_error_stable_nonvacuous :
  let dec := fun body : list Z => match body with [] => true | _ => false end in
  let d := mkD (mkHdr 0 1 1 2 0 0 0 0 0 7) [255; 255] in
  snd (crun dec (family_of bool d) [CStamp 0 (SetSid 9); CDecodeErr 1; CItem 0; CStamp 1 (SetId 5); CItem 2; CDecodeErr 0])
  = [None; Some false; Some false; None; Some false; Some false] /\
  f_decodes (fst (crun dec (family_of bool d) [CStamp 0 (SetSid 9); CDecodeErr 1; CItem 0; CItem 1])) = 1.
Proof. split; vm_compute; reflexivity. Qed.
