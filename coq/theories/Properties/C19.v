(** C19 — Linktest drops dead links in bounded probes and never drops a link showing life.
    This file contains only the property theorems (each closed by [exact]), their assumptions,
    and non-vacuity examples. Model: Hsms/Linktest.v; proofs: Hsms/LinktestProofs.v;
    tie to the code: Gen/BridgeLinktest.v (translator) + harness differential on runLinktest. *)
From Coq Require Import ZArith Bool List Lia.
From GoSecs Require Import Base.GoInt Gen.Gen Gen.BridgeLinktest Hsms.Linktest Hsms.LinktestProofs.
Import ListNotations.
Open Scope Z_scope.

(** A peer that stops answering while nothing else is received and no reply is outstanding is
    disconnected after exactly [threshold] consecutive probe timeouts — not before, not later —
    for every threshold >= 1, suppression on or off. *)
Theorem C19_dead_exact : forall suppress (n : nat) s r os,
  fails s = 0 -> Forall (dead_obs r) os -> length os = S n ->
  run suppress (Z.of_nat (S n)) s os = repeat err_out n ++ [down_out].
Proof. exact dead_exact. Qed.
Print Assumptions C19_dead_exact.

(** Every linktest disconnect is justified: the last [threshold] probes all timed out with no
    frame received after they were sent, no reply outstanding, no receive stamp moving between
    consecutive ones, and the final re-check saw no life either. Hence a peer showing life in any
    of those ways within any [threshold] consecutive probes is never disconnected. *)
Theorem C19_alive_never : forall suppress threshold, 1 <= threshold ->
  forall os s h pre o post outs_pre out,
  Inv suppress s h -> os = pre ++ o :: post ->
  run suppress threshold s os = outs_pre ++ [out] -> length outs_pre = length pre ->
  io_down out = true ->
  probes suppress o = true /\ dead_final suppress o /\
  exists l, is_prefix l (o :: hist suppress pre h) /\ threshold <= Z.of_nat (length l) /\
            Forall (dead suppress) l /\ (suppress = true -> quiet l).
Proof. exact down_justified. Qed.
Print Assumptions C19_alive_never.

Theorem C19_answering_never_down : forall suppress threshold, 1 <= threshold ->
  forall os s, Forall (fun o => o_fail o = false) os ->
  disconnected (run suppress threshold s os) = false.
Proof. exact answering_never_down. Qed.
Print Assumptions C19_answering_never_down.

(** Probe rule: with suppression, no probe while traffic flowed within the interval or a reply is
    outstanding; without it every interval is probed and every timeout counts. *)
Theorem C19_probe_rule : forall suppress threshold s o,
  io_sent (snd (iter suppress threshold s o)) = probes suppress o /\
  io_suppressed (snd (iter suppress threshold s o)) = negb (probes suppress o).
Proof. exact probe_rule. Qed.
Print Assumptions C19_probe_rule.

Theorem C19_suppress_off : forall threshold s o,
  o_fail o = true ->
  let '(s', out) := iter false threshold s o in
  fails s' = fails s + 1 /\ io_credited out = 0 /\ io_down out = (fails s + 1 >=? threshold).
Proof. exact suppress_off_every_timeout_counts. Qed.
Print Assumptions C19_suppress_off.

(** The model functions ARE the current source (regenerated on every check). *)
Theorem C19_bridge_failure_step : forall suppress recvNow sentAt inflight fails recvAtLastFail,
  inS 64 (fails + 1) ->
  Gen.hsmsss.linktestFailureStep suppress recvNow sentAt inflight fails recvAtLastFail =
  failure_step suppress recvNow sentAt inflight fails recvAtLastFail.
Proof. exact bridge_linktestFailureStep. Qed.
Theorem C19_bridge_recheck : forall suppress inflight recvNow sentAt,
  Gen.hsmsss.linktestDisconnectRecheck suppress inflight recvNow sentAt =
  disconnect_recheck suppress inflight recvNow sentAt.
Proof. exact bridge_linktestDisconnectRecheck. Qed.
Print Assumptions C19_bridge_failure_step.

(** Non-vacuity. *)
Definition silent (t : Z) : obs :=
  {| o_active := false; o_pre_inflight := 0; o_fail := true; o_sent_at := t; o_recv_now := 5;
     o_inflight := 0; o_recv_final := 5; o_inflight_final := 0 |}.
Example C19_dead_exact_nonvacuous :
  Forall (dead_obs 5) [silent 10; silent 20; silent 30] /\
  run true 3 lstate0 [silent 10; silent 20; silent 30] = [err_out; err_out; down_out].
Proof. split; [repeat constructor; cbn; lia|reflexivity]. Qed.
Example C19_alive_never_nonvacuous :
  Inv true lstate0 [] /\ io_down (snd (iter true 1 lstate0 (silent 10))) = true.
Proof. split; [apply Inv_init; reflexivity|reflexivity]. Qed.
