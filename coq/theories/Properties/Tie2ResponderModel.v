(** C08 — the regenerated HSMS-SS dispatcher IS the responder model (closing the chain
    source -> translator v2 -> [expect_dispatch] -> [Responder.respond] -> E37 table).

    Kept in its own Properties file (a `tie2` family of checks/C08.py) because it depends on
    Gen/Gen2.v, which the engine regenerates from the source right before checking the tie2
    families; Properties/C08.v itself stays independent of the regenerated code. Only [exact] +
    [Print Assumptions]. Proofs: Hsms/ResponderTie.v (on top of Gen/Bridge2Responder.v). *)
From Coq Require Import String.
From Coq Require Import ZArith Bool List Lia.
From GoSecs Require Import Base.GoInt Base.BytesBE Base.GoSlice Gen.Gen2 Hsms.Header Hsms.Frame
  Gen.Bridge2Frames Gen.Bridge2Responder Hsms.ResponderTie.
From GoSecs Require Hsms.Responder.
Import ListNotations.
Open Scope Z_scope.
Import Gen2.hsmsss.
Module R := Responder.

(** For every configuration, every model state, every well-formed frame of a class the hsmsss code
    decides by itself, and every environment that answers what the model state says (State() =
    Selected iff selected; CommitSelected's CAS wins iff not selected; RouteReply hits iff the system
    bytes are open): the code-shaped step's call log — frames handed to SendAsync in order, the
    state after CommitSelected / SelectLost, keep-reading vs TCPDown — is exactly [respond]. *)
Theorem C08_dispatch_is_respond : forall c s f tr g,
  R.frame_ok f -> answers s f tr -> engine_class s f = false ->
  project s (expect_dispatch tr g (hdr_of_frame f) (R.f_body f)) = R.respond c s f.
Proof. exact dispatch_is_respond. Qed.
Print Assumptions C08_dispatch_is_respond.

(** ... and with the translator's theorem in front: the REGENERATED [dispatchFrame] itself, on the
    bytes of the frame, does not panic and projects to [respond]. *)
Theorem C08_source_dispatch_is_respond : forall c s f tr m g,
  R.frame_ok f -> answers s f tr -> transport_metrics tr = Some m -> engine_class s f = false ->
  exists tr' keep,
    transport_dispatchFrame (Some tr) g (R.wire f) = GOk (Some tr', keep) /\
    project s (tr', keep) = R.respond c s f.
Proof. exact source_dispatch_is_respond. Qed.
Print Assumptions C08_source_dispatch_is_respond.

(** H2: the Selected commit is made before the Select.rsp is handed to the sender; the T7 / linktest
    helpers run iff the CAS won. *)
Theorem C08_dispatch_select_commit_first : forall s f tr g,
  answers s f tr -> R.f_pt f = 0 -> R.f_st f = 1 -> R.f_body f = [] ->
  rt_calls (fst (expect_dispatch tr g (hdr_of_frame f) (R.f_body f))) =
  [CommitSelected;
   SendAsync (CtlMsg (rsp_of (mkC (hdr_of_frame f) false) ST_SELECT_RSP (if R.selected s then 1 else 0)))] /\
  transport_calls (fst (expect_dispatch tr g (hdr_of_frame f) (R.f_body f))) =
  transport_calls tr ++ (if R.selected s then [] else [transport_call_cancelT7; transport_call_startLinktest g]).
Proof. exact dispatch_select_commit_first. Qed.
Print Assumptions C08_dispatch_select_commit_first.

(** The recv loop stops reading exactly when the dispatcher itself drove TCPDown. *)
Theorem C08_dispatch_keep_iff_no_tcpdown : forall tr g h body, rt_calls tr = [] ->
  snd (expect_dispatch tr g h body) = negb (has_tcpdown (rt_calls (fst (expect_dispatch tr g h body)))).
Proof. exact dispatch_keep_iff_no_tcpdown. Qed.
Print Assumptions C08_dispatch_keep_iff_no_tcpdown.

(** The two classes decided inside the engine: exactly what the dispatcher logs. [respond]'s outcome
    for them ([deliver_owned]; the waiter's reaction in [on_response]) models
    hsms/connection_runtime.go and hsmsss/transport_active.go runSelectProcedure BY HAND — that half
    of the chain is tied by the e2e differential only. *)
Theorem C08_dispatch_engine_data : forall c s f tr g,
  answers s f tr -> R.f_pt f = 0 -> R.f_st f = 0 -> R.selected s = true ->
  expect_dispatch tr g (hdr_of_frame f) (R.f_body f) = (rt_log tr (DeliverOwned (R.wire f)), true) /\
  rt_calls (rt_log tr (DeliverOwned (R.wire f))) = [DeliverOwned (R.wire f)] /\
  R.respond c s f = R.deliver_owned c s f.
Proof. exact dispatch_engine_data. Qed.
Print Assumptions C08_dispatch_engine_data.

Theorem C08_dispatch_engine_response_hit : forall c s f tr g,
  answers s f tr -> R.f_pt f = 0 -> is_response (R.f_st f) = true -> R.f_body f = [] ->
  R.mem (R.f_sys f) (R.opens s) = true ->
  let r := expect_dispatch tr g (hdr_of_frame f) (R.f_body f) in
  rt_calls (fst r) = RouteReply (CtlMsg (mkC (hdr_of_frame f) false)) :: (if accepts f then [CommitSelected] else []) /\
  transport_calls (fst r) = transport_calls tr ++
     (if accepts f && negb (R.selected s) then [transport_call_cancelT7; transport_call_startLinktest g] else []) /\
  snd r = true /\
  R.respond c s f = R.on_response s f /\
  let '(s', o, e) := R.respond c s f in
  o = [] /\ R.selected s' = sel_after (R.selected s) (rt_calls (fst r)) /\
  R.opens s' = R.remove (R.f_sys f) (R.opens s) /\ R.ctr s' = R.ctr s /\
  (e = R.Keep <-> R.f_st f = 2 /\ (R.f_b3 f = 0 \/ R.f_b3 f = 1)).
Proof. exact dispatch_engine_response_hit. Qed.
Print Assumptions C08_dispatch_engine_response_hit.

(** Non-vacuity: an environment that answers for a not-selected state with one open transaction,
    and a Select.req run through the code-shaped step. *)
Definition rt0 : Gen2.hsms.TransportRuntime :=
  Gen2.hsms.mk_TransportRuntime true ErrNil false ErrNil 1 [].
Example C08_dispatch_is_respond_nonvacuous : forall cfg0 m0,
  let tr := mk_transport cfg0 rt0 (Some m0) false None 0 0 0 [] in
  let s := {| R.selected := false; R.opens := [7]; R.ctr := 7 |} in
  let f := {| R.f_sid := 258; R.f_b2 := 0; R.f_b3 := 0; R.f_pt := 0; R.f_st := 1; R.f_sys := 99; R.f_body := [] |} in
  answers s f tr /\ R.frame_ok f /\ engine_class s f = false /\
  snd (fst (project s (expect_dispatch tr None (hdr_of_frame f) []))) =
    [R.Send {| R.f_sid := 258; R.f_b2 := 0; R.f_b3 := 0; R.f_pt := 0; R.f_st := 2; R.f_sys := 99; R.f_body := [] |}].
Proof.
  intros cfg0 m0. cbv zeta. repeat split; cbn; try lia; try constructor; try discriminate.
Qed.
