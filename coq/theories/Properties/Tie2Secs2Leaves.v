(** Tie theorems of translator v2 (family: secs2 leaf encoders — C01, C16): [AppendTo] of the
    Binary / Boolean / ASCII / JIS8 / LocalizedStr / Int / Uint items REGENERATED from the current Go
    source ([Gen/Gen2.v]) equals [append_to] of Secs2/Encode.v; a decoded item appends its raw
    bytes; an item with a deferred error appends nothing. Only [exact] + [Print Assumptions].
    [num_repr] / [bool_repr] (Gen/Bridge2Secs2Leaves.v) relate the Go item (count in [size], one
    value in [scalar], two or more in [values]) to the model's value list. *)
From Coq Require Import String.
From Coq Require Import ZArith Bool List Lia.
From GoSecs Require Import Base.GoInt Base.BytesBE Base.GoSlice Gen.Gen2 Secs2.Item Secs2.Encode Gen.Bridge2Secs2Leaves.
Import ListNotations.
Open Scope Z_scope.
Import Gen2.secs2.

Theorem tie_secs2_BinaryItem_AppendTo : forall bs rl dst, zlen bs <= 16777215 ->
  BinaryItem_AppendTo (Some (mk_BinaryItem (base_ok rl) bs)) dst = GOk (append_to (IBinary bs) dst).
Proof. exact bridge_BinaryItem_AppendTo. Qed.
Print Assumptions tie_secs2_BinaryItem_AppendTo.

Theorem tie_secs2_ASCIIItem_AppendTo : forall bs rl dst, zlen bs <= 16777215 ->
  ASCIIItem_AppendTo (Some (mk_ASCIIItem (base_ok rl) bs)) dst = GOk (append_to (IAscii bs) dst).
Proof. exact bridge_ASCIIItem_AppendTo. Qed.
Print Assumptions tie_secs2_ASCIIItem_AppendTo.

Theorem tie_secs2_JIS8Item_AppendTo : forall bs rl dst, zlen bs <= 16777215 ->
  JIS8Item_AppendTo (Some (mk_JIS8Item (base_ok rl) bs)) dst = GOk (append_to (IJis8 bs) dst).
Proof. exact bridge_JIS8Item_AppendTo. Qed.
Print Assumptions tie_secs2_JIS8Item_AppendTo.

Theorem tie_secs2_LocalizedStrItem_AppendTo : forall lsh bs rl dst, zlen bs + 2 <= 16777215 ->
  LocalizedStrItem_AppendTo (Some (mk_LocalizedStrItem (base_ok rl) lsh bs)) dst =
  GOk (append_to (ILocalized lsh bs) dst).
Proof. exact bridge_LocalizedStrItem_AppendTo. Qed.
Print Assumptions tie_secs2_LocalizedStrItem_AppendTo.

Theorem tie_secs2_BooleanItem_AppendTo : forall size scalar values vs rl dst,
  bool_repr size scalar values vs -> zlen vs <= 16777215 ->
  BooleanItem_AppendTo (Some (mk_BooleanItem size scalar (base_ok rl) values)) dst =
  GOk (append_to (IBoolean vs) dst).
Proof. exact bridge_BooleanItem_AppendTo. Qed.
Print Assumptions tie_secs2_BooleanItem_AppendTo.

(** every value of EVERY magnitude: the truncation to the item's byte width is [to_unsigned] *)
Theorem tie_secs2_IntItem_AppendTo : forall size byteSize scalar values w vs rl dst,
  num_repr size byteSize scalar values w vs -> zlen vs * wz w <= 16777215 ->
  IntItem_AppendTo (Some (mk_IntItem size byteSize scalar (base_ok rl) values)) dst =
  GOk (append_to (IInt w vs) dst).
Proof. exact bridge_IntItem_AppendTo. Qed.
Print Assumptions tie_secs2_IntItem_AppendTo.

Theorem tie_secs2_UintItem_AppendTo : forall size byteSize scalar values w vs rl dst,
  num_repr size byteSize scalar values w vs -> zlen vs * wz w <= 16777215 ->
  UintItem_AppendTo (Some (mk_UintItem size byteSize scalar (base_ok rl) values)) dst =
  GOk (append_to (IUint w vs) dst).
Proof. exact bridge_UintItem_AppendTo. Qed.
Print Assumptions tie_secs2_UintItem_AppendTo.

Theorem tie_secs2_raw_paths : forall mem n dst, 0 <= n <= go_len mem ->
  let b := base_raw mem n in let r := GOk (dst ++ firstn (Z.to_nat n) mem) in
  (forall x, BinaryItem_AppendTo (Some (mk_BinaryItem b x)) dst = r) /\
  (forall s c x, BooleanItem_AppendTo (Some (mk_BooleanItem s c b x)) dst = r) /\
  (forall x, ASCIIItem_AppendTo (Some (mk_ASCIIItem b x)) dst = r) /\
  (forall x, JIS8Item_AppendTo (Some (mk_JIS8Item b x)) dst = r) /\
  (forall l x, LocalizedStrItem_AppendTo (Some (mk_LocalizedStrItem b l x)) dst = r) /\
  (forall s z c x, IntItem_AppendTo (Some (mk_IntItem s z c b x)) dst = r) /\
  (forall s z c x, UintItem_AppendTo (Some (mk_UintItem s z c b x)) dst = r).
Proof. exact bridge_raw_paths. Qed.
Print Assumptions tie_secs2_raw_paths.

Theorem tie_secs2_error_paths : forall e p n dst, e <> ErrNil ->
  let b := mk_baseItem e p n in let r := GOk dst in
  (forall x, BinaryItem_AppendTo (Some (mk_BinaryItem b x)) dst = r) /\
  (forall s c x, BooleanItem_AppendTo (Some (mk_BooleanItem s c b x)) dst = r) /\
  (forall x, ASCIIItem_AppendTo (Some (mk_ASCIIItem b x)) dst = r) /\
  (forall x, JIS8Item_AppendTo (Some (mk_JIS8Item b x)) dst = r) /\
  (forall l x, LocalizedStrItem_AppendTo (Some (mk_LocalizedStrItem b l x)) dst = r) /\
  (forall s z c x, IntItem_AppendTo (Some (mk_IntItem s z c b x)) dst = r) /\
  (forall s z c x, UintItem_AppendTo (Some (mk_UintItem s z c b x)) dst = r).
Proof. exact bridge_error_paths. Qed.
Print Assumptions tie_secs2_error_paths.
