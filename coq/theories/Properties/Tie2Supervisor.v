(** Tie theorems of translator v2 (family: the E37 supervisor, hsms/supervisor.go — C05; used by C07,
    C08, C10): the functions REGENERATED from the Go source ([Gen/Gen2.v], module hsms) equal the
    hand model Hsms/Supervisor.v, one ATOMIC STEP of the model per translated call:

    - [transition] = the model's table; [isCommitEcho] = [is_echo]; [State()] = the masked word;
    - [CommitConnected] / [CommitSelected] / [CommitSelectLost] = [exec _ Commit*] (CAS on the whole
      state word - so never once the closed bit is set -, then the ECHO event enqueued; pendingUps
      counted for the TCP-up echo), result = "this call committed";
    - [inject] / [requestClose] = the model's enqueue ([Inject IClose] for requestClose);
    - [emit] = [emit_buf] (non-blocking, drop-oldest, drop counted), [fireTransition] = [fire] (one
      reaction call logged with (prev, next)), and the ORDER inside fireTransition (notification
      first for a terminal NotConnected, reaction first otherwise);
    - [step] = [StepLoad] followed by [StepFinish] (nothing in between: the test hook, if
      installed, is only logged): same next state word, closed latch, lastReacted, notification
      buffer, drop count, pendingUps, and the same reaction calls in the same order.

    The Go record is [sup_of m pend env] (Gen/Bridge2Supervisor.v). Side conditions: room in the
    events channel where something is enqueued (a full channel would BLOCK the Go code: GPanic in
    the translation); events capacity < 2^31; at most 16 buffered notifications and
    [clbit = closed] (both hold in every reachable model state: [run_nbuf_le], [run_clbit_closed]);
    fewer than 2^64 - 1 dropped notifications. Only [exact] + [Print Assumptions]. *)
From Coq Require Import String.
From Coq Require Import ZArith Bool List Lia.
From GoSecs Require Import Base.GoInt Base.GoSlice Gen.Gen Gen.Gen2 Hsms.Supervisor Gen.BridgeSupervisor Gen.Bridge2Supervisor.
Import ListNotations.
Open Scope Z_scope.

Theorem tie_hsms_sup_transition : forall c e,
  G.transition (cstate_z c) (event_z e) = GOk (cstate_z (fst (transition c e)), snd (transition c e)).
Proof. exact bridge2_transition. Qed.
Print Assumptions tie_hsms_sup_transition.

Theorem tie_hsms_sup_isCommitEcho : forall e, G.isCommitEcho (event_z e) = GOk (is_echo e).
Proof. exact bridge2_isCommitEcho. Qed.
Print Assumptions tie_hsms_sup_isCommitEcho.

Theorem tie_hsms_sup_State : forall m p e, G.supervisor_State (Some (sup_of m p e)) = GOk (cstate_z (st m)).
Proof. exact bridge2_State. Qed.
Print Assumptions tie_hsms_sup_State.

Theorem tie_hsms_sup_inject : forall m p e ev, Z.of_nat (length (queue m)) < e_cap e ->
  G.supervisor_inject (Some (sup_of m p e)) (event_z ev) = GOk (Some (sup_of (enq m ev) p e), tt).
Proof. exact bridge_inject. Qed.
Print Assumptions tie_hsms_sup_inject.

Theorem tie_hsms_sup_requestClose : forall m p e ep, Z.of_nat (length (queue m)) < e_cap e ->
  G.supervisor_requestClose (Some (sup_of m p e)) ep =
  GOk (Some (sup_of (fst (exec m (Inject IClose))) p (with_epoch e ep)), tt).
Proof. exact bridge_requestClose. Qed.
Print Assumptions tie_hsms_sup_requestClose.

Theorem tie_hsms_sup_commitConnected : forall m e,
  Z.of_nat (length (queue m)) < e_cap e -> e_cap e < 2 ^ 31 ->
  G.supervisor_CommitConnected (Some (sup_of m (pend_of (queue m)) e)) =
  let '(m', o) := exec m CommitConnected in GOk (Some (sup_of m' (pend_of (queue m')) e), committed o).
Proof. exact bridge_CommitConnected. Qed.
Print Assumptions tie_hsms_sup_commitConnected.

Theorem tie_hsms_sup_commitSelected : forall m e,
  Z.of_nat (length (queue m)) < e_cap e ->
  G.supervisor_CommitSelected (Some (sup_of m (pend_of (queue m)) e)) =
  let '(m', o) := exec m CommitSelected in GOk (Some (sup_of m' (pend_of (queue m')) e), committed o).
Proof. exact bridge_CommitSelected. Qed.
Print Assumptions tie_hsms_sup_commitSelected.

Theorem tie_hsms_sup_commitSelectLost : forall m e,
  Z.of_nat (length (queue m)) < e_cap e ->
  G.supervisor_CommitSelectLost (Some (sup_of m (pend_of (queue m)) e)) =
  let '(m', o) := exec m CommitSelectLost in GOk (Some (sup_of m' (pend_of (queue m')) e), committed o).
Proof. exact bridge_CommitSelectLost. Qed.
Print Assumptions tie_hsms_sup_commitSelectLost.

Theorem tie_hsms_sup_emit : forall w p lr cl evs nb d ce ll h rl hl x,
  (length nb <= 16)%nat -> Z.of_nat d < 2 ^ 64 - 1 ->
  G.supervisor_emit (Some (G.mk_supervisor w p lr cl evs (mk_gchan (map sc_of nb) 16) (Z.of_nat d) true ce ll h rl hl)) (sc_of x) =
  let '(nb', _, dd) := emit_buf nb x in
  GOk (Some (G.mk_supervisor w p lr cl evs (mk_gchan (map sc_of nb') 16) (Z.of_nat (d + dd)) true ce ll h rl hl), tt).
Proof. exact bridge_emit. Qed.
Print Assumptions tie_hsms_sup_emit.

Theorem tie_hsms_sup_fireTransition : forall w p lr cl evs nb d ce ll h rl hl a b,
  (length nb <= 16)%nat -> Z.of_nat d < 2 ^ 64 - 1 ->
  G.supervisor_fireTransition (Some (G.mk_supervisor w p lr cl evs (mk_gchan (map sc_of nb) 16) (Z.of_nat d) true ce ll h rl hl))
                              (cstate_z a) (cstate_z b) =
  let '(nb', _, dd) := fire nb a b in
  GOk (Some (G.mk_supervisor w p lr cl evs (mk_gchan (map sc_of nb') 16) (Z.of_nat (d + dd)) true ce ll h
                             (rl ++ [(cstate_z a, cstate_z b)]) hl), tt).
Proof. exact bridge_fire. Qed.
Print Assumptions tie_hsms_sup_fireTransition.

Theorem tie_hsms_sup_fire_order_terminal : forall s p,
  G.supervisor_fireTransition s p 0 =
  gbind (G.supervisor_emit s (G.mk_stateChange p 0)) (fun r =>
    let '(t2, _) := r in
    gbind (go_deref t2) (fun t4 =>
      gbind (go_deref (Some t4)) (fun t5 =>
        gbind (if G.supervisor_react t5 then GOk tt else GPanic) (fun _ =>
          GOk (Some (G.set_supervisor_react_log t5 (G.supervisor_react_log t5 ++ [(p, 0)])), tt))))).
Proof. exact fire_order_terminal. Qed.
Print Assumptions tie_hsms_sup_fire_order_terminal.

Theorem tie_hsms_sup_fire_order_other : forall s p n, (n =? 0) = false ->
  G.supervisor_fireTransition s p n =
  gbind (go_deref s) (fun t7 =>
    gbind (if G.supervisor_react t7 then GOk tt else GPanic) (fun _ =>
      gbind (G.supervisor_emit (Some (G.set_supervisor_react_log t7 (G.supervisor_react_log t7 ++ [(p, n)])))
                               (G.mk_stateChange p n)) (fun r =>
        let '(t10, _) := r in gbind (go_deref t10) (fun t12 => GOk (Some t12, tt))))).
Proof. exact fire_order_other. Qed.
Print Assumptions tie_hsms_sup_fire_order_other.

Theorem tie_hsms_sup_step : forall m ev q e,
  pc m = None -> queue m = ev :: q -> clbit m = closed m ->
  Z.of_nat (length q) < 2 ^ 31 -> (length (nbuf m) <= 16)%nat -> Z.of_nat (dropped m) < 2 ^ 64 - 1 ->
  G.supervisor_step (Some (sup_of (deq m q) (pend_of (ev :: q)) e)) (event_z ev) =
  let '(m2, o) := step2 m in
  GOk (Some (sup_of m2 (pend_of q) (env_after e (closed m) ev o)), tt).
Proof. exact bridge_step. Qed.
Print Assumptions tie_hsms_sup_step.

(** the two side conditions of [tie_hsms_sup_step] about the model state hold after every action list *)
Theorem tie_hsms_sup_side_conditions : forall acts,
  let s := fst (run init acts) in clbit s = closed s /\ (length (nbuf s) <= 16)%nat.
Proof. exact run_side_conditions. Qed.
Print Assumptions tie_hsms_sup_side_conditions.
