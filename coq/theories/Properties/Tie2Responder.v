(** Tie theorems of translator v2 (family: HSMS-SS responder — C08, C07): what the recv loop does
    with one frame ([dispatchFrame], [decodeControlFrame], the per-SType handlers, the three Reject
    senders) REGENERATED from hsmsss/transport_recv.go and transport_control.go ([Gen/Gen2.v]) equals
    the code-shaped step [expect_dispatch] (Gen/Bridge2Responder.v): same calls into the connection
    engine in the same order (CommitSelected / SelectLost / TCPDown / SendAsync / RouteReply /
    DeliverOwnedFrame), same linktest / T7 helper calls, same counters, same keep-reading decision -
    for EVERY frame, and without a panic. Only [exact] + [Print Assumptions].

    The connection engine is the environment: [State()], [CommitSelected()], [RouteReply()] answer
    the scripted fields of the [TransportRuntime] record. *)
From Coq Require Import String.
From Coq Require Import ZArith Bool List Lia.
From GoSecs Require Import Base.GoInt Base.BytesBE Base.GoSlice Gen.Gen2 Hsms.Header Hsms.Frame
  Gen.Bridge2Frames Gen.Bridge2Responder.
Import ListNotations.
Open Scope Z_scope.
Import Gen2.hsmsss.

Theorem tie_hsmsss_responder_step : forall tr m g h body,
  transport_metrics tr = Some m -> 0 <= h5 h < 256 ->
  transport_dispatchFrame (Some tr) g (hdr_bytes h ++ body) =
  GOk (Some (fst (expect_dispatch tr g h body)), snd (expect_dispatch tr g h body)).
Proof. exact bridge_dispatchFrame. Qed.
Print Assumptions tie_hsmsss_responder_step.

Theorem tie_hsmsss_sendReject : forall tr m h body, transport_metrics tr = Some m ->
  transport_sendReject (Some tr) (hdr_bytes h ++ body) (h4 h) (h5 h) = GOk (Some (expect_sendReject tr h), tt).
Proof. exact bridge_sendReject. Qed.
Print Assumptions tie_hsmsss_sendReject.

Theorem tie_hsmsss_sendRejectNotSelected : forall tr m h body, transport_metrics tr = Some m ->
  transport_sendRejectNotSelected (Some tr) (hdr_bytes h ++ body) =
  GOk (Some (send_reject_to tr (session_id h) 0 0 (system_bytes h) 4), tt).
Proof. exact bridge_sendRejectNotSelected. Qed.
Print Assumptions tie_hsmsss_sendRejectNotSelected.

Theorem tie_hsmsss_sendRejectTransactionNotOpen : forall tr m h body, transport_metrics tr = Some m ->
  transport_sendRejectTransactionNotOpen (Some tr) (hdr_bytes h ++ body) =
  GOk (Some (send_reject_to tr (session_id h) 0 (h5 h) (system_bytes h) 3), tt).
Proof. exact bridge_sendRejectTransactionNotOpen. Qed.
Print Assumptions tie_hsmsss_sendRejectTransactionNotOpen.

Theorem tie_hsmsss_handleSeparateReq : forall tr m, transport_metrics tr = Some m ->
  transport_handleSeparateReq (Some tr) =
  GOk (if st_ret tr =? 2
       then (Some (rt_log (m_upd tr inc_separateRecv) (Gen2.hsms.TransportRuntime_call_TCPDown (ErrIs "errPeerSeparate"))), false)
       else (Some tr, true)).
Proof. exact bridge_handleSeparateReq. Qed.
Print Assumptions tie_hsmsss_handleSeparateReq.
