(** C08 — HSMS-SS control procedures answer every peer frame sequence per SEMI E37.
    Only the property theorems (each closed by [exact]), their assumptions and non-vacuity examples.
    Model: Hsms/Responder.v (follows dispatchFrame + transport_control.go + runSelectProcedure +
    DeliverOwnedFrame/checkSessionID/RouteReply branch by branch); E37 table: Hsms/ResponderSpec.v
    (written from the property statement); proofs: Hsms/ResponderRefine.v, Hsms/ResponderProofs.v;
    tie to the code: Gen/BridgeResponder.v (translator: IsValidSType, constants) + an exact e2e
    differential on a real connection (harness/cmd/c08, ocaml/c08_driver.ml); the REGENERATED
    dispatchFrame is linked to [respond] in Properties/Tie2ResponderModel.v (Hsms/ResponderTie.v). *)
From Coq Require Import ZArith Bool List Lia.
From GoSecs Require Import Base.GoInt Gen.Gen Gen.BridgeResponder
  Hsms.Responder Hsms.ResponderSpec Hsms.ResponderRefine Hsms.ResponderProofs.
Import ListNotations.
Open Scope Z_scope.

(** * The table, row by row (for every configuration, every state, every frame of the class) *)

(** Select.req: Select.rsp status 0 the first time, 1 when already selected; session id and system
    bytes echoed; Selected afterwards either way. *)
Theorem C08_table_select_first : forall c s f, ctrl_frame f 1 -> selected s = false ->
  respond c s f = (set_selected s true, [Send (ctrl (f_sid f) 0 0 2 (f_sys f))], Keep).
Proof. exact table_select_first. Qed.
Print Assumptions C08_table_select_first.

Theorem C08_table_select_again : forall c s f, ctrl_frame f 1 -> selected s = true ->
  respond c s f = (s, [Send (ctrl (f_sid f) 0 1 2 (f_sys f))], Keep).
Proof. exact table_select_again. Qed.
Print Assumptions C08_table_select_again.

(** Deselect.req: status 0 when selected (and NotSelected afterwards), 1 when not. *)
Theorem C08_table_deselect_selected : forall c s f, ctrl_frame f 3 -> selected s = true ->
  respond c s f = (set_selected s false, [Send (ctrl (f_sid f) 0 0 4 (f_sys f))], Keep).
Proof. exact table_deselect_selected. Qed.
Print Assumptions C08_table_deselect_selected.

Theorem C08_table_deselect_not_selected : forall c s f, ctrl_frame f 3 -> selected s = false ->
  respond c s f = (s, [Send (ctrl (f_sid f) 0 1 4 (f_sys f))], Keep).
Proof. exact table_deselect_not_selected. Qed.
Print Assumptions C08_table_deselect_not_selected.

(** Linktest.req: Linktest.rsp (session id 0xFFFF), same system bytes, in any state. *)
Theorem C08_table_linktest : forall c s f, ctrl_frame f 5 ->
  respond c s f = (s, [Send (ctrl 65535 0 0 6 (f_sys f))], Keep).
Proof. exact table_linktest. Qed.
Print Assumptions C08_table_linktest.

(** Unsupported PType: Reject.req reason 2 carrying the PType byte; link and state untouched. *)
Theorem C08_table_ptype : forall c s f, f_pt f <> 0 ->
  respond c s f = (s, [Send (ctrl (f_sid f) (f_pt f) 2 7 (f_sys f))], Keep).
Proof. exact table_ptype. Qed.
Print Assumptions C08_table_ptype.

(** Undefined SType: Reject.req reason 1 carrying the SType byte. *)
Theorem C08_table_stype : forall c s f, f_pt f = 0 -> valid_stype (f_st f) = false ->
  respond c s f = (s, [Send (ctrl (f_sid f) (f_st f) 1 7 (f_sys f))], Keep).
Proof. exact table_stype. Qed.
Print Assumptions C08_table_stype.

(** Control frame with a body: Reject.req reason 1 carrying the SType byte. *)
Theorem C08_table_ctrl_body : forall c s f,
  f_pt f = 0 -> valid_stype (f_st f) = true -> f_st f <> 0 -> f_body f <> [] ->
  respond c s f = (s, [Send (ctrl (f_sid f) (f_st f) 1 7 (f_sys f))], Keep).
Proof. exact table_ctrl_body. Qed.
Print Assumptions C08_table_ctrl_body.

(** Select.rsp / Deselect.rsp / Linktest.rsp with no open transaction: Reject.req reason 3
    carrying the SType byte. *)
Theorem C08_table_orphan_response : forall c s f st,
  ctrl_frame f st -> st = 2 \/ st = 4 \/ st = 6 -> mem (f_sys f) (opens s) = false ->
  respond c s f = (s, [Send (ctrl (f_sid f) st 3 7 (f_sys f))], Keep).
Proof. exact table_orphan_response. Qed.
Print Assumptions C08_table_orphan_response.

(** Orphan Reject.req: nothing. *)
Theorem C08_table_orphan_reject : forall c s f, ctrl_frame f 7 -> mem (f_sys f) (opens s) = false ->
  respond c s f = (s, [], Keep).
Proof. exact table_orphan_reject. Qed.
Print Assumptions C08_table_orphan_reject.

(** Separate.req while Selected: the connection ends and NO frame is sent back; otherwise ignored. *)
Theorem C08_table_separate_selected : forall c s f, ctrl_frame f 9 -> selected s = true ->
  respond c s f = (s, [], Down).
Proof. exact table_separate_selected. Qed.
Print Assumptions C08_table_separate_selected.

Theorem C08_table_separate_not_selected : forall c s f, ctrl_frame f 9 -> selected s = false ->
  respond c s f = (s, [], Keep).
Proof. exact table_separate_not_selected. Qed.
Print Assumptions C08_table_separate_not_selected.

(** Data while not selected: Reject.req reason 4 (C07's row; the fold stays total). *)
Theorem C08_table_data_not_selected : forall c s f, f_pt f = 0 -> f_st f = 0 -> selected s = false ->
  respond c s f = (s, [Send (ctrl (f_sid f) 0 4 7 (f_sys f))], Keep).
Proof. exact table_data_not_selected. Qed.
Print Assumptions C08_table_data_not_selected.

(** Session-id validation: data for another session while Selected is answered with S9F1 carrying
    MHEAD, this side's own session id and fresh system bytes; an S9F1 itself is exempt. *)
Theorem C08_table_data_foreign_session : forall c s f,
  f_pt f = 0 -> f_st f = 0 -> selected s = true ->
  c_validate c = true -> f_sid f <> c_sid c -> is_s9f1 f = false ->
  respond c s f =
  ({| selected := true; opens := opens s; ctr := next_sys (ctr s) |},
   [Send {| f_sid := c_sid c; f_b2 := 9; f_b3 := 1; f_pt := 0; f_st := 0; f_sys := next_sys (ctr s);
            f_body := 33 :: 10 :: header_bytes f |}], Keep).
Proof. exact table_data_foreign_session. Qed.
Print Assumptions C08_table_data_foreign_session.

Theorem C08_table_data_delivered : forall c s f, f_pt f = 0 -> f_st f = 0 -> selected s = true ->
  (c_validate c = false \/ f_sid f = c_sid c \/ is_s9f1 f = true) ->
  (is_secondary f = false \/ mem (f_sys f) (opens s) = false) ->
  respond c s f = (s, [Deliver f], Keep).
Proof. exact table_data_delivered. Qed.
Print Assumptions C08_table_data_delivered.

(** * All sequences *)

(** For every configuration (role, session id, validation, equipment/host), every counter value
    and EVERY finite frame sequence, what the responder sends and delivers on the link is exactly
    what the E37 table prescribes. *)
Theorem C08_all_sequences : forall c ctr0 fs, link_outputs c ctr0 fs = spec_outputs c ctr0 fs.
Proof. exact all_sequences. Qed.
Print Assumptions C08_all_sequences.

(** ... frame by frame: outputs, link effect and selected state agree at every position. *)
Theorem C08_all_sequences_stepwise : forall c ctr0 fs,
  spec_run c (fst (spec_start c ctr0)) fs = map obs_of (run c (fst (start c ctr0)) fs).
Proof. exact all_sequences_stepwise. Qed.
Print Assumptions C08_all_sequences_stepwise.

(** The link ends only on a Separate.req received while Selected (nothing sent back) or when the
    peer answers this side's OWN open Select.req with something that is not an acceptance. *)
Theorem C08_never_disconnects_except_separate : forall c ctr0 fs st,
  In st (run c (fst (start c ctr0)) fs) -> so_eff st = Down ->
  so_outs st = [] /\
  ((ctrl_frame (so_frame st) 9 /\ selected (so_state st) = true) \/
   (c_active c = true /\ f_sys (so_frame st) = next_sys ctr0 /\
    exists s0, own_transaction_failed s0 (so_frame st))).
Proof. exact never_disconnects_except_separate. Qed.
Print Assumptions C08_never_disconnects_except_separate.

Theorem C08_passive_never_disconnects_except_separate : forall c ctr0 fs st,
  c_active c = false -> In st (run c (fst (start c ctr0)) fs) -> so_eff st = Down ->
  so_outs st = [] /\ ctrl_frame (so_frame st) 9 /\ selected (so_state st) = true.
Proof. exact passive_never_disconnects_except_separate. Qed.
Print Assumptions C08_passive_never_disconnects_except_separate.

(** Unsupported PType, undefined SType, control frame with a body, response with no open
    transaction: exactly one Reject.req with reason 2, 1, 1, 3 echoing session id and system bytes,
    the link stays up and the state does not move — in every state. *)
Theorem C08_reject_classes_keep : forall c s f, reject_class s f ->
  exists reason tybyte, respond c s f = (s, [Send (ctrl (f_sid f) tybyte reason 7 (f_sys f))], Keep) /\
    (reason = 1 \/ reason = 2 \/ reason = 3) /\ (tybyte = f_pt f \/ tybyte = f_st f).
Proof. exact reject_classes_keep. Qed.
Print Assumptions C08_reject_classes_keep.

(** Select.req / Deselect.req / Linktest.req: exactly one frame back, the matching response type,
    on the request's system bytes, the link stays up, no transaction or counter is touched. *)
Theorem C08_requests_answered : forall c s f st, ctrl_frame f st -> st = 1 \/ st = 3 \/ st = 5 ->
  exists s' sid status,
    respond c s f = (s', [Send (ctrl sid 0 status (st + 1) (f_sys f))], Keep) /\
    opens s' = opens s /\ ctr s' = ctr s.
Proof. exact requests_answered. Qed.
Print Assumptions C08_requests_answered.

(** Every frame sent back echoes the system bytes of the frame it answers (S9F1 aside, a new
    primary with fresh system bytes), and is made of bytes. *)
Theorem C08_echo_sysbytes : forall c s f s' o e, respond c s f = (s', o, e) -> Forall (echoes s' f) o.
Proof. exact echo_sysbytes. Qed.
Print Assumptions C08_echo_sysbytes.

Theorem C08_outputs_ok : forall c s f s' o e, cfg_ok c -> state_ok s -> frame_ok f ->
  respond c s f = (s', o, e) -> Forall out_ok o /\ state_ok s'.
Proof. exact outputs_ok. Qed.
Print Assumptions C08_outputs_ok.

(** Equipment / host: read by no responder branch. *)
Theorem C08_equip_irrelevant : forall c b s f, respond (with_equip c b) s f = respond c s f.
Proof. exact equip_irrelevant. Qed.
Print Assumptions C08_equip_irrelevant.

(** A second TCP connection to a passive endpoint with a live session is refused — every one of
    them — and the live session's outputs are those of its own frames alone. *)
Theorem C08_second_connection : forall c ctr0 k0 es,
  let ps := prun c (pstart ctr0) (PAccept k0 :: es) in
  adoptions ps = [k0] /\
  refusals ps = accepts_of es /\
  live_outs ps = outputs c (fst (start (with_active c false) ctr0)) (frames_of k0 es).
Proof. exact second_connection. Qed.
Print Assumptions C08_second_connection.

(** * The model's constants and validity set ARE the current source (regenerated on every check) *)
Theorem C08_bridge_IsValidSType : forall b, 0 <= b < 256 -> Gen.hsms.IsValidSType b = valid_stype b.
Proof. exact bridge_IsValidSType. Qed.
Print Assumptions C08_bridge_IsValidSType.

Theorem C08_bridge_constants :
  (Gen.hsms.DataMsgType = st_data /\ Gen.hsms.SelectReqType = st_select_req /\
   Gen.hsms.SelectRspType = st_select_rsp /\ Gen.hsms.DeselectReqType = st_deselect_req /\
   Gen.hsms.DeselectRspType = st_deselect_rsp /\ Gen.hsms.LinktestReqType = st_linktest_req /\
   Gen.hsms.LinktestRspType = st_linktest_rsp /\ Gen.hsms.RejectReqType = st_reject_req /\
   Gen.hsms.SeparateReqType = st_separate_req) /\
  (Gen.hsms.SelectStatusSuccess = select_ok /\ Gen.hsms.SelectStatusAlreadyActive = select_already /\
   Gen.hsms.DeselectStatusSuccess = deselect_ok /\ Gen.hsms.DeselectStatusNotEstablished = deselect_not_established) /\
  (Gen.hsms.RejectSTypeNotSupported = reason_stype /\ Gen.hsms.RejectPTypeNotSupported = reason_ptype /\
   Gen.hsms.RejectTransactionNotOpen = reason_txn_not_open /\ Gen.hsms.RejectNotSelected = reason_not_selected).
Proof. exact (conj bridge_stypes (conj bridge_statuses bridge_reasons)). Qed.
Print Assumptions C08_bridge_constants.

(** * Non-vacuity *)

Definition cfgP : cfg := {| c_active := false; c_sid := 258; c_validate := true; c_equip := true |}.
Definition cfgA : cfg := {| c_active := true; c_sid := 258; c_validate := false; c_equip := false |}.
Definition fr (sid b2 b3 pt st sys : Z) (body : list Z) : frame :=
  {| f_sid := sid; f_b2 := b2; f_b3 := b3; f_pt := pt; f_st := st; f_sys := sys; f_body := body |}.

(** passive: select, select again, a PType storm, deselect, deselect again, select, foreign data,
    separate, (never reached) linktest *)
Example C08_all_sequences_nonvacuous :
  sent_frames (link_outputs cfgP 7
    [fr 258 0 0 0 1 10 []; fr 258 0 0 0 1 11 []; fr 1 2 3 200 77 12 [1]; fr 258 0 0 0 3 13 [];
     fr 258 0 0 0 3 14 []; fr 258 0 0 0 1 15 []; fr 999 1 1 0 0 16 []; fr 258 0 0 0 9 17 [];
     fr 258 0 0 0 5 18 []]) =
  [fr 258 0 0 0 2 10 []; fr 258 0 1 0 2 11 []; fr 1 200 2 0 7 12 []; fr 258 0 0 0 4 13 [];
   fr 258 0 1 0 4 14 []; fr 258 0 0 0 2 15 [];
   fr 258 9 1 0 0 8 [33; 10; 3; 231; 1; 1; 0; 0; 0; 0; 0; 16]].
Proof. vm_compute. reflexivity. Qed.

(** active: the own Select.req goes out first (system bytes ctr0+1); an orphan Linktest.rsp is
    rejected with reason 3; the peer refuses the Select (status 3) and the link ends *)
Example C08_never_disconnects_nonvacuous :
  map (fun st => (sent_frames (so_outs st), so_eff st))
      (run cfgA (fst (start cfgA 41)) [fr 258 0 0 0 6 5 []; fr 258 0 3 0 2 42 []; fr 258 0 0 0 5 6 []]) =
  [([fr 258 6 3 0 7 5 []], Keep); ([], Down)] /\
  sent_frames (snd (start cfgA 41)) = [fr 258 0 0 0 1 42 []].
Proof. vm_compute. split; reflexivity. Qed.

Example C08_reject_classes_nonvacuous :
  reject_class {| selected := true; opens := [42]; ctr := 42 |} (fr 258 0 0 0 4 43 []) /\
  reject_class {| selected := false; opens := []; ctr := 0 |} (fr 0 0 0 0 8 1 [1; 2]).
Proof.
  split.
  - right; right; right. repeat split; auto.
  - right; left. reflexivity.
Qed.

Example C08_second_connection_nonvacuous :
  prun cfgP (pstart 0)
    [PAccept 1; PFrame 1 (fr 258 0 0 0 1 10 []); PAccept 2; PFrame 2 (fr 258 0 0 0 1 11 []);
     PFrame 1 (fr 258 0 0 0 5 12 []); PAccept 3] =
  [PAdopted 1; POut 1 (Send (fr 258 0 0 0 2 10 [])); PRefused 2;
   POut 1 (Send (fr 65535 0 0 0 6 12 [])); PRefused 3].
Proof. vm_compute. reflexivity. Qed.
