(** C13 — Strict SML encoding and strict parsing are mutual inverses on messages.
    Only property theorems (closed by [exact]), assumptions, non-vacuity examples.
    Models: Sml/Encoder.v (sml.Encoder, all options), Sml/StrictAscii.v (parseASCIIStrict),
    Sml/StrictParser.v (the strict parser); proofs: Sml/StrictAsciiProofs.v. *)
From Coq Require Import ZArith Bool List Lia.
From GoSecs Require Import Base.Decimal Base.DecimalProofs Base.Utf8 Sml.Syntax Sml.Encoder
  Sml.StrictAscii Sml.StrictAsciiProofs.
Import ListNotations.
Open Scope Z_scope.

(** ASCII core. The statement "for ALL byte strings" is REFUTED for the encoder as it is
    (finding C13-ascii-gt): witness the one-byte string consisting of the closing bracket. *)
Theorem C13_strict_ascii_roundtrip_refuted :
  exists (s : bytes) q, is_q q /\ Forall is_byte s /\
    parse_ascii_strict (write_strict_ascii q s ++ [c_gt]) = AErr EUnclosedQuote.
Proof. exact strict_ascii_roundtrip_refuted. Qed.
Print Assumptions C13_strict_ascii_roundtrip_refuted.

(** ... it holds for the encoder as it is on every byte string WITHOUT the closing bracket:
    all other 255 byte values, runs, escapes, 0xHH tokens, the empty string, both quote styles,
    whatever text follows the item ... *)
Theorem C13_strict_ascii_roundtrip_no_gt : forall (s : bytes) q rest,
  is_q q -> Forall is_byte s -> ~ In c_gt s ->
  parse_ascii_strict (write_strict_ascii q s ++ c_gt :: rest)
  = AOk s (blen (write_strict_ascii q s) + 1) rest.
Proof. exact strict_ascii_roundtrip_no_gt. Qed.
Print Assumptions C13_strict_ascii_roundtrip_no_gt.

(** ... and for ALL 256 byte values with the proposed one-line repair (escape the closing bracket
    in writeStrictASCII; the parser already reads the escape). REPAIRED encoder, not the code. *)
Theorem C13_strict_ascii_roundtrip_fixed : forall (s : bytes) q rest,
  is_q q -> Forall is_byte s ->
  parse_ascii_strict (write_strict_ascii_fixed q s ++ c_gt :: rest)
  = AOk s (blen (write_strict_ascii_fixed q s) + 1) rest.
Proof. exact strict_ascii_roundtrip_fixed. Qed.
Print Assumptions C13_strict_ascii_roundtrip_fixed.

(** Non-vacuity: a string with every character class, both quote styles. *)
Example C13_ascii_nonvacuous :
  let s := [97; 34; 39; 92; 0; 255; 32; 10; 98] in
  parse_ascii_strict (write_strict_ascii c_sq s ++ [c_gt; 10; 46]) = AOk s (blen (write_strict_ascii c_sq s) + 1) [10; 46] /\
  parse_ascii_strict (write_strict_ascii_fixed c_dq (c_gt :: s) ++ [c_gt]) = AOk (c_gt :: s) (blen (write_strict_ascii_fixed c_dq (c_gt :: s)) + 1) [].
Proof. split; vm_compute; reflexivity. Qed.
