(** C13 — Strict SML encoding and strict parsing are mutual inverses on messages.
    Only property theorems (closed by [exact]), their assumptions, non-vacuity examples.

    Models: Sml/Encoder.v (sml.Encoder: tree walk, every option, header, writeStrictASCII),
    Sml/StrictAscii.v (parseASCIIStrict with Go's rune iteration), Sml/StrictParser.v (the strict
    parser: messages, header, comments, types, sizes, lists, JIS-8/localized scanners,
    strings.Fields, ParseInt/ParseUint base 0, booleans, construction checks, the list nesting
    cap secs2.MaxListDepth: bridge Gen/BridgeStrictParser.v to the regenerated constant).
    Proofs: Sml/StrictAsciiProofs.v, Sml/StrictRoundtrip*.v, Sml/StrictParserOutput.v,
    Sml/StrictReparse.v.

    Oracles (Go's strconv, code outside go-secs) appear as universally quantified functions with
    their laws as explicit premises:
      ffmt w v    = FormatFloat(v,'G',9|17,32|64) of the float64 with bit pattern v
      fparse w t  = ParseFloat(t, 32|64), None on any error
      quote s     = strconv.Quote(s);  quote_plain s = "Quote leaves s alone"
      narrow32 v  = bits of float32(v)     (only equality of its results is used)
    [fdom], [is_nan64], [feq], [dom_item], [dom_msg], [opts_ok], [item_eqv] are defined in
    Sml/StrictRoundtripDefs.v; [restricted] in Sml/StrictReparse.v. *)
From Coq Require Import ZArith Bool List Lia.
From GoSecs Require Import Base.Decimal Base.DecimalProofs Base.Utf8 Sml.Syntax Sml.Encoder
  Sml.StrictAscii Sml.StrictAsciiProofs Sml.StrictParser Sml.StrictRoundtripDefs
  Sml.StrictRoundtripFinal Sml.StrictParserOutput Sml.StrictReparse Sml.StrictToyOracle
  Gen.Gen Gen.BridgeStrictParser.
Import ListNotations.
Open Scope Z_scope.

(** ---------- ASCII core ---------- *)

(** parseASCIIStrict inverts writeStrictASCII for ALL 256 byte values: runs, escapes (quote,
    backslash, closing bracket), 0xHH tokens, the empty string, both quote styles, whatever
    follows the item. (The closing bracket is escaped since the repair of finding C13-ascii-gt.) *)
Theorem C13_strict_ascii_roundtrip : forall (s : bytes) q rest,
  is_q q -> Forall is_byte s ->
  parse_ascii_strict (write_strict_ascii q s ++ c_gt :: rest)
  = AOk s (blen (write_strict_ascii q s) + 1) rest.
Proof. exact strict_ascii_roundtrip. Qed.
Print Assumptions C13_strict_ascii_roundtrip.

(** ---------- first half: parse (encode m) = [m'] with m' equal to m ---------- *)

(** Every data message of the grammar ([dom_msg true]: lists, ASCII items of ALL byte values,
    binary, boolean, integers of every width, floats incl. NaN/Inf/-0,
    JIS-8 / localized text under the restriction, empty items, nesting up to
    secs2.MaxListDepth = 64 lists (hypothesis [depth body <= max_list_depth] inside [dom_msg]: the
    parser's cap since fix 95562b6, finding C13-depth-cap); stream 0..127, function 0..255, W only
    on odd functions) and every option combination with strict mode on
    (quote style x S/F quote style x binary style x whitespace indent): the strict parser returns
    exactly one message with the same S/F/W and an equal body (NaN payload and LSH aside). *)
Theorem C13_encode_parse :
  forall (ffmt : fwidth -> Z -> bytes) (quote : bytes -> bytes) (fparse : fwidth -> bytes -> option Z)
         (quote_plain : bytes -> bool) (narrow32 : Z -> Z),
    (forall w v, fdom w v = true -> good_tok (ffmt w v) = true) ->
    (forall w v, fdom w v = true -> exists v', fparse w (ffmt w v) = Some v' /\ feq narrow32 w v v') ->
    (forall s, quote_plain s = true -> quote s = c_dq :: s ++ [c_dq]) ->
    forall o m, opts_ok o = true -> dom_msg true quote_plain m = true ->
    exists m' st, parse_strict fparse (encode_msg ffmt quote o m) = POk [m'] st /\ msg_eqv narrow32 m m'.
Proof. exact encode_parse_current. Qed.
Print Assumptions C13_encode_parse.

(** "any nesting" is REFUTED for the code as it is (finding C13-depth-cap): 65 nested lists around
    an empty binary item are an item of the grammar in every other respect; the strict encoder
    renders them, the strict parser answers with its nesting error. (64 levels are read back:
    example [C13_depth_64_nonvacuous].) The cap was introduced for C14 (an unbounded recursive
    parser overflows the goroutine stack, which is fatal); the binary decoder has the same cap, so
    such a message cannot travel over HSMS or SECS-I either. *)
Theorem C13_encode_parse_depth_refuted :
  forall ffmt quote fparse quote_plain,
    opts_ok strict_opts0 = true /\
    dom_item true quote_plain (m_body (msg_deep 65)) = true /\ depth (m_body (msg_deep 65)) = 65%nat /\
    exists off, parse_strict fparse (encode_msg ffmt quote strict_opts0 (msg_deep 65)) = PErr PE_Depth off.
Proof. exact encode_parse_depth_refuted. Qed.
Print Assumptions C13_encode_parse_depth_refuted.

(** the cap of the model is the constant the current source declares *)
Theorem C13_bridge_max_list_depth : Gen.secs2.MaxListDepth = max_list_depth.
Proof. exact bridge_max_list_depth. Qed.
Print Assumptions C13_bridge_max_list_depth.

(** Refutation (finding C13-localized-quote): localized text that strconv.Quote escapes —
    witness U+00A0, which is no quote, backslash, angle bracket or control character — is read
    back with the escape spelled out (6 bytes instead of 2). Premise: what Quote returns for it. *)
Theorem C13_encode_parse_localized_refuted :
  forall ffmt quote fparse,
    quote [194; 160] = [34; 92; 117; 48; 48; 97; 48; 34] ->
    exists st, parse_strict fparse (encode_msg ffmt quote strict_opts0 msg_nbsp)
               = POk [{| m_stream := 1; m_function := 1; m_wbit := false;
                         m_body := ILocal [92; 117; 48; 48; 97; 48] |}] st.
Proof. exact encode_parse_localized_refuted. Qed.
Print Assumptions C13_encode_parse_localized_refuted.

(** ---------- second half: what the parser accepts re-encodes and re-parses equal ---------- *)

(** On ANY byte text, every message the strict parser returns has S/F in range, W only on odd
    functions, and a body that is empty or well formed within the secs2 size limits and nested no
    deeper than the cap. *)
Theorem C13_parser_output :
  forall (fparse : fwidth -> bytes -> option Z),
    (forall w tok v, fparse w tok = Some v -> fdom w v = true) ->
    forall input ms st, bytes_ok input = true -> parse_strict fparse input = POk ms st -> Forall msg_out_ok ms.
Proof. exact parse_strict_out. Qed.
Print Assumptions C13_parser_output.

(** Every accepted message whose JIS-8 / localized text obeys the restriction re-encodes (any
    options) and re-parses to an equal message. *)
Theorem C13_parse_encode_parse :
  forall (ffmt : fwidth -> Z -> bytes) (quote : bytes -> bytes) (fparse : fwidth -> bytes -> option Z)
         (quote_plain : bytes -> bool) (narrow32 : Z -> Z),
    (forall w v, fdom w v = true -> good_tok (ffmt w v) = true) ->
    (forall w v, fdom w v = true -> exists v', fparse w (ffmt w v) = Some v' /\ feq narrow32 w v v') ->
    (forall s, quote_plain s = true -> quote s = c_dq :: s ++ [c_dq]) ->
    (forall w tok v, fparse w tok = Some v -> fdom w v = true) ->
    forall o t ms st, opts_ok o = true -> bytes_ok t = true -> parse_strict fparse t = POk ms st ->
    forall m, In m ms -> restricted true quote_plain (m_body m) = true ->
    exists m' st', parse_strict fparse (encode_msg ffmt quote o m) = POk [m'] st' /\ msg_eqv narrow32 m m'.
Proof. exact parse_encode_parse_current. Qed.
Print Assumptions C13_parse_encode_parse.

(** ---------- non-vacuity ---------- *)

Example C13_ascii_nonvacuous :
  let s := [97; 34; 39; 92; 0; 255; 32; 10; 98] in
  parse_ascii_strict (write_strict_ascii c_sq s ++ [c_gt; 10; 46]) = AOk s (blen (write_strict_ascii c_sq s) + 1) [10; 46] /\
  parse_ascii_strict (write_strict_ascii c_dq (c_gt :: s) ++ [c_gt]) = AOk (c_gt :: s) (blen (write_strict_ascii c_dq (c_gt :: s)) + 1) [].
Proof. split; vm_compute; reflexivity. Qed.

(** the laws are jointly satisfiable (Sml/StrictToyOracle.v), and a message with every item kind,
    nesting and the non-default options is in the domain and computes to itself *)
Definition demo_opts : enc_opts :=
  {| eo_strict := true; eo_ascii_single := true; eo_sf_quote := 2; eo_binary_literal := true; eo_indent := [9] |}.
Definition demo_msg : msg :=
  {| m_stream := 127; m_function := 255; m_wbit := true;
     m_body := IList [IAscii [104; 39; 92; 0; 255; 62; 105]; IList []; IList [IBinary [0; 255]; IBoolean [true; false]];
                      IInt W1 [-128; 127]; IUint W8 [18446744073709551615]; IFloat F8 [0; 9218868437227405312];
                      IJis8 [97; 200]; ILocal [98]; IAscii []] |}.
Example C13_encode_parse_nonvacuous :
  (forall w v, fdom w v = true -> good_tok (toy_ffmt w v) = true) /\
  (forall w v, fdom w v = true -> exists v', toy_fparse w (toy_ffmt w v) = Some v' /\ feq toy_narrow w v v') /\
  (forall s, toy_quote_plain s = true -> toy_quote s = c_dq :: s ++ [c_dq]) /\
  (forall w tok v, toy_fparse w tok = Some v -> fdom w v = true) /\
  opts_ok demo_opts = true /\ dom_msg true toy_quote_plain demo_msg = true /\
  exists st, parse_strict toy_fparse (encode_msg toy_ffmt toy_quote demo_opts demo_msg) = POk [demo_msg] st.
Proof.
  split; [exact toy_ffmt_good|]. split; [exact toy_roundtrip|]. split; [exact toy_quote_law|].
  split; [exact toy_fparse_dom|]. split; [reflexivity|]. split; [vm_compute; reflexivity|].
  eexists. vm_compute. reflexivity.
Qed.

(** the nesting boundary: 64 levels satisfy the domain and are read back *)
Example C13_depth_64_nonvacuous :
  dom_msg true toy_quote_plain (msg_deep 64) = true /\
  exists st, parse_strict toy_fparse (encode_msg toy_ffmt toy_quote strict_opts0 (msg_deep 64)) = POk [msg_deep 64] st.
Proof. split; [vm_compute; reflexivity|]. eexists. vm_compute. reflexivity. Qed.
