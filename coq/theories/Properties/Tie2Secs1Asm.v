(** Tie theorems of translator v2 (family: secs1 inbound assembler — C17, C18, C20): the block header
    accessors, [assembleFrame] and the assembler ([report], [reset], [complete], [appendBlock],
    [startMessage], [accept], the six block-level counters) REGENERATED from secs1/block.go,
    message.go, metrics.go and assembler.go ([Gen/Gen2.v]) equal [hdr_*] / [assemble_frame] of
    Secs1/Block.v and the step function [accept] of Secs1/Assembler.v. Only [exact] + [Print Assumptions].

    [st_put g st] is the Go assembler whose environment part (role, device id, clock [assembler_now],
    timers, metrics pointer, notify / deliverFrame and their logs) is that of [g] and whose
    accumulation state is the model state [st]; [outs] applies the model's outputs (deliveries,
    violations, counter increments) to the environment part; [ret_of] is the error [accept] returns. *)
From Coq Require Import String.
From Coq Require Import ZArith Bool List Lia.
From GoSecs Require Import Base.GoInt Base.BytesBE Base.GoSlice Gen.Gen2 Secs1.Block Secs1.Assembler
  Gen.Bridge2Secs1 Gen.Bridge2Secs1Asm.
Import ListNotations.
Open Scope Z_scope.
Import Gen2.secs1.

Theorem tie_secs1_block_accessors : forall b, wf_hdr (b_hdr b) ->
  block_deviceID (gblk b) = GOk (hdr_dev (b_hdr b)) /\ block_rBit (gblk b) = GOk (hdr_rbit (b_hdr b)) /\
  block_stream (gblk b) = GOk (hdr_stream (b_hdr b)) /\ block_waitBit (gblk b) = GOk (hdr_wbit (b_hdr b)) /\
  block_function (gblk b) = GOk (hdr_func (b_hdr b)) /\ block_blockNumber (gblk b) = GOk (hdr_num (b_hdr b)) /\
  block_eBit (gblk b) = GOk (hdr_ebit (b_hdr b)) /\ block_systemBytes (gblk b) = GOk (hdr_sys (b_hdr b)) /\
  block_messageHeader (gblk b) = GOk (mh_of (msg_header (b_hdr b))).
Proof.
  intros b H. repeat split;
    first [exact (bridge_block_deviceID b H)|exact (bridge_block_rBit b H)|exact (bridge_block_stream b H)
          |exact (bridge_block_waitBit b H)|exact (bridge_block_function b H)|exact (bridge_block_blockNumber b H)
          |exact (bridge_block_eBit b H)|exact (bridge_block_systemBytes b H)|exact (bridge_block_messageHeader b H)].
Qed.
Print Assumptions tie_secs1_block_accessors.

(** [assembleFrame]: for every list of blocks with ten-byte headers: no panic; the error class of
    [assemble_frame] or the frame it builds (HSMS header of the first block ++ the bodies). *)
Theorem tie_secs1_assembleFrame : forall bs,
  Forall wf_blk bs -> zlen bs <= 2 ^ 60 -> body_total bs <= 2 ^ 60 ->
  assembleFrame (map gblk bs) = GOk (frame_result (assemble_frame bs)).
Proof. exact bridge_assembleFrame. Qed.
Print Assumptions tie_secs1_assembleFrame.

Theorem tie_secs1_asm_reset : forall g st,
  assembler_reset (Some (st_put g st)) = GOk (Some (st_put g (reset st)), tt).
Proof. exact bridge_reset. Qed.
Print Assumptions tie_secs1_asm_reset.

Theorem tie_secs1_asm_complete : forall g st, env_ok g -> blocks_ok (a_blocks st) ->
  assembler_complete (Some (st_put g st)) =
  GOk (Some (outs (st_put g (fst (complete st))) (snd (complete st))), ret_of g (snd (complete st))).
Proof. exact bridge_complete. Qed.
Print Assumptions tie_secs1_asm_complete.

Theorem tie_secs1_asm_appendBlock : forall g st b, env_ok g -> grows_ok st b ->
  let r := append_blk st (ev_of g b) in
  assembler_appendBlock (Some (st_put g st)) (gblk b) =
  GOk (Some (outs (st_put g (fst r)) (snd r)), ret_of g (snd r)).
Proof. exact bridge_appendBlock. Qed.
Print Assumptions tie_secs1_asm_appendBlock.

Theorem tie_secs1_asm_startMessage : forall g st b notify, env_ok g -> blocks_ok [b] ->
  let r := start_message st (ev_of g b) notify in
  assembler_startMessage (Some (st_put g st)) (gblk b) notify =
  GOk (Some (outs (st_put g (fst r)) (snd r)), ret_of g (snd r)).
Proof. exact bridge_startMessage. Qed.
Print Assumptions tie_secs1_asm_startMessage.

(** [accept]: for every environment with a metrics object and a deliverFrame callback, every model
    state whose accumulated blocks (plus the new one) have ten-byte headers and a total size that
    fits an [int], every clock reading within 2^62 ns of the T4 base, and EVERY block: no panic, the
    next state is the model's, the deliveries / violations / counter increments are the model's
    outputs, and the returned error is the reassembly error or what deliverFrame answered. *)
Theorem tie_secs1_asm_accept : forall g st b, env_ok g -> grows_ok st b -> time_ok g st ->
  let r := Assembler.accept (cfg_of g) st (ev_of g b) in
  assembler_accept (Some (st_put g st)) (gblk b) =
  GOk (Some (outs (st_put g (fst r)) (snd r)), ret_of g (snd r)).
Proof. exact bridge_accept. Qed.
Print Assumptions tie_secs1_asm_accept.
