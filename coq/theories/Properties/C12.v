(** C12 — Items and messages are immutable, alias-free and safe for concurrent readers.
    Only property theorems (closed by [exact]), their assumptions and non-vacuity examples.
    Models: Alias/Heap.v (ownership heap + API copying discipline), Alias/Once.v (sync.Once LTS);
    proofs: Alias/HeapProofs.v, Alias/OnceProofs.v; tie: operation-sequence differential on the real
    API incl. the ownership-transfer positive control (harness/cmd/c12, ocaml/c12_driver.ml) and
    concurrent readers under a -race build (checks/C12.py).

    PARTIAL in one named respect: "without data races" is a fact of the Go memory model that no
    Gallina model exhibits; the race-detector run is supporting evidence, not a theorem. *)
From Coq Require Import ZArith Bool List Lia PeanoNat.
From GoSecs Require Import Alias.Heap Alias.HeapProofs Alias.Codec Alias.Once Alias.OnceProofs.
Import ListNotations.

(** For every sequence of API calls and caller writes that avoids the ownership-transferring entry
    points (which the statement excludes), every observation (group [g]: values / serialisation) of
    every object [o] equals its observation right after the object was created — whatever the caller
    overwrites in buffers it passed in, got back, or appended into. *)
Theorem C12_noninterference : forall pre post o g,
  forallb (fun p => negb (is_owned p)) (pre ++ post) = true ->
  o < length (st_objs (run init pre)) ->
  obs (run init (pre ++ post)) o g = obs (run init pre) o g.
Proof. exact noninterference. Qed.
Print Assumptions C12_noninterference.

(** the invariant behind it: in every reachable state every cell an object retains is object-owned
    and every buffer the caller holds is caller-owned — the two sets are disjoint *)
Theorem C12_disjoint_ownership : forall ops,
  forallb (fun p => negb (is_owned p)) ops = true -> inv (run init ops).
Proof. exact disjoint_ownership. Qed.
Print Assumptions C12_disjoint_ownership.

(** The call that FIRES the lazy encode memo of a constructed message body hands the caller a FRESH
    caller-owned cell: afterwards the memo is an object-owned cell, the returned slice is a different,
    caller-owned cell, and both hold the encoding the object showed before. (The memo lives in the
    body, which re-stamped and derived copies share.) *)
Theorem C12_memo_firing_call_returns_fresh_cell : forall st o bi b, inv st ->
  nth_error (st_objs st) o = Some bi -> nth_error (st_bodies st) bi = Some b -> b_memo b = MUnfired ->
  let st' := step st (OGet o 1) in
  exists v m b',
    st_caller st' = st_caller st ++ [v] /\ caller_owned (st_heap st') v /\
    body_of st' o = Some b' /\ b_memo b' = MFired m /\ obj_owned (st_heap st') m /\
    v_cell v <> v_cell m /\
    read (st_heap st') v = read (st_heap st') m /\
    read (st_heap st') m = obs st o 1.
Proof. exact memo_firing_call_returns_fresh_cell. Qed.
Print Assumptions C12_memo_firing_call_returns_fresh_cell.

(** The mutator-looking public API (DataMessageCodec.UnmarshalBinary / the exported field
    DataMessageCodec.Message; DataMessageBuilder.With...) only writes caller-side HANDLES:
    UnmarshalBinary decodes (copying) into a fresh message and re-points the codec's slot, Build makes
    a fresh message. With these operations in the sequences too, every observation of every object —
    in particular of the message a codec wrapped before UnmarshalBinary, and of every copy derived
    from it before or after — equals its observation at creation. *)
Theorem C12_codec_noninterference : forall pre post o g,
  forallb (fun p => negb (c_owned p)) (pre ++ post) = true ->
  o < length (st_objs (cs_st (crun cinit pre))) ->
  obs (cs_st (crun cinit (pre ++ post))) o g = obs (cs_st (crun cinit pre)) o g.
Proof. exact codec_noninterference. Qed.
Print Assumptions C12_codec_noninterference.

Theorem C12_unmarshal_rebinds_to_fresh : forall cs k cv kd skip hl v,
  k < length (cs_codecs cs) -> caller_view (cs_st cs) cv = Some v ->
  let cs' := cstep cs (CUnmarshal k cv kd skip hl) in
  nth_error (cs_codecs cs') k = Some (Some (length (st_objs (cs_st cs)))) /\
  length (st_objs (cs_st cs')) = S (length (st_objs (cs_st cs))).
Proof. exact unmarshal_rebinds_to_fresh. Qed.
Print Assumptions C12_unmarshal_rebinds_to_fresh.

(** positive control: with DecodeOwned / DecodeOwnedHSMSPayload the same caller write DOES change an
    observation (so the exclusion is necessary and the model can see interference) *)
Theorem C12_owned_interferes : exists pre post o g,
  o < length (st_objs (run init pre)) /\
  obs (run init (pre ++ post)) o g <> obs (run init pre) o g.
Proof. exact owned_interferes. Qed.
Print Assumptions C12_owned_interferes.

(** Lazy encode/decode: in EVERY interleaving of ANY number of reader threads over the shared
    once-cell, the body has run at most once, exactly once if anyone read, and all readers saw the
    same value. Data-race freedom itself is NOT covered (see the header): hence _partial. *)
Theorem C12_once_partial : forall acts s reads,
  orun oinit acts [] = Some (s, reads) ->
  runs s <= 1 /\
  (reads <> [] -> runs s = 1) /\
  (exists v, Forall (fun r => r = v) reads) /\
  all_same reads = true.
Proof. exact once_all_schedules. Qed.
Print Assumptions C12_once_partial.

Theorem C12_no_early_read : forall acts s reads t,
  orun oinit acts [] = Some (s, reads) -> pcs s t = Returned -> done s = true /\ runs s = 1.
Proof. exact no_early_read. Qed.
Print Assumptions C12_no_early_read.

(** ** Non-vacuity *)

Example C12_noninterference_nonvacuous :
  let pre := [ONew [1; 2; 3]%Z; OConstruct [0] true] in
  let post := [OWrite 0 1 9%Z;            (* mutate the slice passed to the constructor *)
               OGet 0 0; OWrite 1 0 7%Z;  (* mutate the slice an accessor returned *)
               ONew [5; 5]%Z; OAppend 0 1 2; OWrite 3 3 8%Z;   (* append, then scribble on the result *)
               OShare 0; ODecode 1 KAlias 0 1] in
  forallb (fun p => negb (is_owned p)) (pre ++ post) = true /\
  obs (run init pre) 0 0 = [1; 2; 3]%Z /\
  obs (run init (pre ++ post)) 0 0 = [1; 2; 3]%Z /\
  obs (run init (pre ++ post)) 1 1 = [1; 2; 3]%Z /\
  cell_data (st_heap (run init (pre ++ post))) 0 = [1; 9; 3]%Z.
Proof. cbv zeta. repeat split; reflexivity. Qed.

(* the first serialisation of a constructed message fires the memo; overwriting that very result
   (caller buffer 1) leaves the message and a re-stamped copy made BEFORE it unchanged *)
Example C12_memo_nonvacuous :
  let pre := [ONew [4; 5]%Z; OConstruct [0] true; OShare 0] in
  let post := [OGet 0 1; OWrite 1 0 99%Z; OWrite 1 1 98%Z; OShare 0] in
  b_memo (nth 0 (st_bodies (run init pre)) {| b_groups := []; b_memo := MNone |}) = MUnfired /\
  b_memo (nth 0 (st_bodies (run init (pre ++ post))) {| b_groups := []; b_memo := MNone |})
    = MFired {| v_cell := 2; v_off := 0; v_len := 2 |} /\
  cell_data (st_heap (run init (pre ++ post))) 3 = [99; 98]%Z /\
  obs (run init (pre ++ post)) 0 1 = [4; 5]%Z /\ obs (run init (pre ++ post)) 1 1 = [4; 5]%Z /\
  obs (run init (pre ++ post)) 2 1 = [4; 5]%Z.
Proof. cbv zeta. repeat split; reflexivity. Qed.

(* a codec wraps message 0; UnmarshalBinary of another frame re-points it at fresh object 1;
   message 0 and a copy of it are unchanged, and scribbling on the frame afterwards changes nothing *)
Example C12_codec_nonvacuous :
  let pre := [CBase (ONew [4; 5]%Z); CBase (OConstruct [0] true); CCodec (Some 0); CBase (OShare 0)] in
  let post := [CBase (ONew [9; 9; 7]%Z); CUnmarshal 0 1 KTyped 1 0; CBase (OWrite 1 2 0%Z); CBuild 0] in
  cs_codecs (crun cinit pre) = [Some 0] /\ cs_codecs (crun cinit (pre ++ post)) = [Some 2] /\
  obs (cs_st (crun cinit (pre ++ post))) 0 1 = [4; 5]%Z /\ obs (cs_st (crun cinit (pre ++ post))) 1 1 = [4; 5]%Z /\
  obs (cs_st (crun cinit (pre ++ post))) 2 1 = [9; 7]%Z /\ obs (cs_st (crun cinit (pre ++ post))) 3 1 = [4; 5]%Z.
Proof. cbv zeta. repeat split; reflexivity. Qed.

Example C12_once_nonvacuous :
  let A k := {| a_tid := 0; a_kind := k; a_val := 41 |} in
  let B k := {| a_tid := 1; a_kind := k; a_val := 42 |} in
  exists s, orun oinit [A AFast; B AFast; B ALock; B ACheck; B AStore; B AUnlock; A ALock; A ACheck;
                        A AUnlock; A ARead; B ARead] [] = Some (s, [42%Z; 42%Z]) /\ runs s = 1.
Proof. exact once_two_threads. Qed.
