(** Model of the SECS-I block layer (secs1/block.go, message.go, adapter.go): header packing,
    message splitting, wire form with 16-bit checksum, block parsing and frame reassembly.

    Bytes are [Z] with the well-formedness predicate [byte_ok]; a 10-byte header is a [list Z]
    of length 10. Bit operations of the Go code are written arithmetically ([x land 0x7F] is
    [x mod 128], [x lor 0x80] on a byte is [x mod 128 + 128], [x >> 8] is [x / 256]); the Go
    functions are tied to these definitions by the hook differential of the C17 check. No proofs
    in this file. *)
From Coq Require Import ZArith Bool List Lia.
Import ListNotations.
Open Scope Z_scope.

(** ** Constants (bridged to the translator output in Gen/BridgeSecs1.v) *)
Definition max_block_body : Z := 244.
Definition block_header_size : Z := 10.
Definition checksum_size : Z := 2.
Definition min_block_length : Z := 10.
Definition max_block_length : Z := 254.
Definition max_block_number : Z := 32767.
Definition hsms_header_len : Z := 10.
Definition max_body_nat : nat := Z.to_nat max_block_body.

Definition byte_ok (b : Z) : Prop := 0 <= b < 256.
Definition bytes_ok (l : list Z) : Prop := Forall byte_ok l.

Definition zlen {A} (l : list A) : Z := Z.of_nat (length l).

Fixpoint list_eqb (a b : list Z) : bool :=
  match a, b with
  | [], [] => true
  | x :: a', y :: b' => (x =? y) && list_eqb a' b'
  | _, _ => false
  end.

(** ** Results and error classes (the Go sentinel errors) *)
Inductive err :=
| EInvalidLength | EChecksum | EInvalidHeader | ETooLarge
| EEmptyBlocks | EBlockNumber | EEBit | EHeaderMismatch.

Inductive result (A : Type) :=
| Ok (a : A)
| Err (e : err).
Arguments Ok {A} a.
Arguments Err {A} e.

(** ** The block-invariant message header (messageHeader) *)
Record mheader := {
  h_dev : Z;          (* 15-bit device id *)
  h_rbit : bool;      (* direction: false = to equipment, true = to host *)
  h_stream : Z;       (* 7-bit *)
  h_func : Z;         (* 8-bit *)
  h_wbit : bool;
  h_sys : list Z      (* 4 system bytes *)
}.

Definition zero_mheader : mheader :=
  {| h_dev := 0; h_rbit := false; h_stream := 0; h_func := 0; h_wbit := false; h_sys := [0; 0; 0; 0] |}.

Definition mheader_eqb (a b : mheader) : bool :=
  (h_dev a =? h_dev b) && Bool.eqb (h_rbit a) (h_rbit b) && (h_stream a =? h_stream b) &&
  (h_func a =? h_func b) && Bool.eqb (h_wbit a) (h_wbit b) && list_eqb (h_sys a) (h_sys b).

Definition wf_mheader (h : mheader) : Prop :=
  0 <= h_dev h <= 32767 /\ 0 <= h_stream h <= 127 /\ 0 <= h_func h <= 255 /\
  length (h_sys h) = 4%nat /\ bytes_ok (h_sys h).

(** buildHeader: [deviceID] and [blockNumber] are uint16, [stream]/[function] uint8. *)
Definition hi_flag (v : Z) (flag : bool) : Z :=
  if flag then (v / 256) mod 128 + 128 else (v / 256) mod 256.

Definition build_header (h : mheader) (num : Z) (last : bool) : list Z :=
  [ hi_flag (h_dev h) (h_rbit h);
    h_dev h mod 256;
    h_stream h mod 128 + (if h_wbit h then 128 else 0);
    h_func h mod 256;
    hi_flag num last;
    num mod 256 ] ++ h_sys h.

(** ** Blocks and their header accessors *)
Record block := { b_hdr : list Z; b_body : list Z }.

Definition hb (hdr : list Z) (i : nat) : Z := nth i hdr 0.

Definition hdr_dev (hdr : list Z) : Z := (hb hdr 0 mod 128) * 256 + hb hdr 1.
Definition hdr_rbit (hdr : list Z) : bool := 128 <=? hb hdr 0.
Definition hdr_stream (hdr : list Z) : Z := hb hdr 2 mod 128.
Definition hdr_wbit (hdr : list Z) : bool := 128 <=? hb hdr 2.
Definition hdr_func (hdr : list Z) : Z := hb hdr 3.
Definition hdr_num (hdr : list Z) : Z := (hb hdr 4 mod 128) * 256 + hb hdr 5.
Definition hdr_ebit (hdr : list Z) : bool := 128 <=? hb hdr 4.
Definition hdr_sys (hdr : list Z) : list Z := firstn 4 (skipn 6 hdr).

Definition msg_header (hdr : list Z) : mheader :=
  {| h_dev := hdr_dev hdr; h_rbit := hdr_rbit hdr; h_stream := hdr_stream hdr;
     h_func := hdr_func hdr; h_wbit := hdr_wbit hdr; h_sys := hdr_sys hdr |}.

Definition wf_block (b : block) : Prop :=
  length (b_hdr b) = 10%nat /\ bytes_ok (b_hdr b) /\ bytes_ok (b_body b) /\
  zlen (b_body b) <= max_block_body.

(** ** Wire form: [len][header][body][checksum hi][checksum lo] *)
Definition sum_bytes (l : list Z) : Z := fold_right Z.add 0 l.
Definition checksum (l : list Z) : Z := sum_bytes l mod 65536.

Definition append_block (b : block) : list Z :=
  let cs := checksum (b_hdr b ++ b_body b) in
  ((block_header_size + zlen (b_body b)) mod 256)
    :: b_hdr b ++ b_body b ++ [(cs / 256) mod 256; cs mod 256].

(** parseBlock(lengthByte, rest): rest = header + body + checksum. *)
Definition parse_block (lb : Z) (rest : list Z) : result block :=
  if (lb <? min_block_length) || (lb >? max_block_length) then Err EInvalidLength
  else if negb (zlen rest =? lb + checksum_size) then Err EInvalidLength
  else
    let n := Z.to_nat lb in
    let data := firstn n rest in
    let cs := nth n rest 0 * 256 + nth (S n) rest 0 in
    if negb (checksum data =? cs) then Err EChecksum
    else Ok {| b_hdr := firstn 10 rest; b_body := skipn 10 data |}.

(** ** splitBody *)
Fixpoint split_go (h : mheader) (fuel : nat) (num : Z) (rest : list Z) : list block :=
  match fuel with
  | O => []
  | S f =>
      let chunk := firstn max_body_nat rest in
      match skipn max_body_nat rest with
      | [] => [ {| b_hdr := build_header h num true; b_body := chunk |} ]
      | rest' => {| b_hdr := build_header h num false; b_body := chunk |} :: split_go h f (num + 1) rest'
      end
  end.

Definition split_body (body : list Z) (h : mheader) : result (list block) :=
  if h_dev h >? 32767 then Err EInvalidHeader
  else if h_stream h >? 127 then Err EInvalidHeader
  else if zlen body >? max_block_body * max_block_number then Err ETooLarge
  else Ok (split_go h (S (length body)) 1 body).

(** splitFrame (adapter.go): the SECS-I message header comes from the connection's configuration
    (device id, role) and the 10-byte HSMS header of the frame being sent. *)
Definition mheader_of_hsms (dev : Z) (is_equip : bool) (hh : list Z) : mheader :=
  {| h_dev := dev; h_rbit := is_equip; h_stream := hb hh 2 mod 128; h_func := hb hh 3;
     h_wbit := 128 <=? hb hh 2; h_sys := firstn 4 (skipn 6 hh) |}.

Definition split_frame (dev : Z) (is_equip : bool) (hh body : list Z) : result (list block) :=
  split_body body (mheader_of_hsms dev is_equip hh).

(** What a fault-free transmission of the blocks puts on the line (handshake characters aside). *)
Definition wire_of_blocks (bs : list block) : list Z := concat (map append_block bs).

(** ** assembleFrame: validate and build [10-byte HSMS header ++ body] *)
Definition hsms_header_of (m : mheader) : list Z :=
  [ (h_dev m / 256) mod 256; h_dev m mod 256;
    h_stream m mod 128 + (if h_wbit m then 128 else 0); h_func m; 0; 0 ] ++ h_sys m.

(** One pass over the blocks at positions [i], [i+1], ... of [total]. *)
Fixpoint check_blocks (first : mheader) (single0 : bool) (total : Z) (i : Z) (bs : list block) : option err :=
  match bs with
  | [] => None
  | b :: tl =>
      let want := if single0 then 0 else i + 1 in
      if negb (hdr_num (b_hdr b) =? want) then Some EBlockNumber
      else if negb (Bool.eqb (hdr_ebit (b_hdr b)) (i =? total - 1)) then Some EEBit
      else if negb (mheader_eqb (msg_header (b_hdr b)) first) then Some EHeaderMismatch
      else check_blocks first single0 total (i + 1) tl
  end.

Definition assemble_frame (bs : list block) : result (list Z) :=
  match bs with
  | [] => Err EEmptyBlocks
  | b0 :: _ =>
      let first := msg_header (b_hdr b0) in
      let single0 := (zlen bs =? 1) && (hdr_num (b_hdr b0) =? 0) in
      match check_blocks first single0 (zlen bs) 0 bs with
      | Some e => Err e
      | None => Ok (hsms_header_of first ++ concat (map b_body bs))
      end
  end.
