(** Model of the SECS-I line-control protocol (secs1/line.go sendBlock / sendBlockOnce /
    sendBlockData / receiveBlock, and the idle loop and runSend of transport.go lineEngine):
    two line engines, one per end, as a labelled transition system over a SYNCHRONOUS LOSSY LINE.

    Modelling assumptions (also listed in checks/C18.py):
    - Synchronous line: what an end has written ([e_out], FIFO) passes the line — delivered,
      dropped, or garbled — before any timer of either end can expire; a timeout step is enabled
      only when nothing is in flight on either direction (no stale characters: T1, T2 far above the
      transit time).
    - T1 < T2: after a bad or unexpected arrival in the receive procedure the receiver's NAK
      (sent after at most T1 of silence / drain) is emitted before the peer's T2 can expire; the
      model emits it immediately.
    - Fault model = what the E4 checksum/handshake is guaranteed to detect: a handshake character
      is delivered, dropped, or replaced by a NON-control character; a block transmission arrives
      intact, not at all, or in a form the receive procedure rejects (one replaced character of
      header/body/checksum: C17_corrupt_rejected; truncation or a longer length: T1; an invalid
      length: drain). Replacing a character BY ANOTHER CONTROL CHARACTER (NAK->ACK, x->EOT ...) and a
      shortened length whose prefix happens to sum up are outside E4's detection and outside the
      model ([C18_nak_to_ack_refuted] shows why).
    - A retries-exhausted send takes the link down: [Down] is terminal, the end takes no further
      line step; re-establishment is not modelled. This MATCHES THE CODE since fix 2852a07
      (transport.lineEngine returns right after reporting ErrSendFailed). Before that fix the
      engine went on answering the line until the core's teardown reached it and lost what it
      ACK'd in that window (finding C18-ack-into-closing-generation, now fixed; the behaviour of
      the old engine is kept as LineProofs.served_after_failure_refuted, and the check's race
      probe keeps watching for it).
    Blocks are abstract: (message token, index within the message, last flag); the receiver's
    assembler is the abstract image of the C17 assembler on in-sequence blocks of ours (duplicate
    record, expected index, first-block restart), without T4 and addressing, which C17 covers. *)
From Coq Require Import Arith Bool List Lia.
Import ListNotations.

Inductive ch := ENQ | EOT | ACK | NAK | Noise.

Record bid := { b_tok : nat; b_idx : nat; b_last : bool }.

Definition bid_eqb (a b : bid) : bool :=
  Nat.eqb (b_tok a) (b_tok b) && Nat.eqb (b_idx a) (b_idx b) && Bool.eqb (b_last a) (b_last b).

Inductive out := OCh (c : ch) | OBlk (b : bid).
Inductive arrival := AChar (c : ch) | ABlk (b : bid) | ABad.
Inductive fault := Deliver | Drop | Garble.

Definition through (o : out) (f : fault) : option arrival :=
  match f, o with
  | Drop, _ => None
  | Deliver, OCh c => Some (AChar c)
  | Deliver, OBlk b => Some (ABlk b)
  | Garble, OCh _ => Some (AChar Noise)
  | Garble, OBlk _ => Some ABad
  end.

(** Where a receive procedure returns to: the idle loop, or a slave's contention yield inside
    sendBlock (with the retry counter at the time of the yield). *)
Inductive rctx := CtxIdle | CtxYield (retry : nat).

Inductive phase :=
| Idle
| WaitEOT (retry : nat)     (* sendBlockOnce: ENQ written, reading for EOT within T2 *)
| WaitACK (retry : nat)     (* sendBlockData: block written, reading for ACK within T2 *)
| RecvWait (c : rctx)       (* receiveBlock: EOT written, reading the block *)
| Down.                     (* ErrSendFailed: the link is torn down *)

Record endst := {
  e_master : bool;                 (* equipment = master *)
  e_limit : nat;                   (* RetryLimit *)
  e_ph : phase;
  e_out : list out;                (* written, not yet through the line *)
  (* sender data *)
  e_done : list nat;               (* tokens of messages whose send returned nil *)
  e_todo : list (nat * nat);       (* pending messages (token, number of blocks >= 1); head = in progress *)
  e_k : nat;                       (* blocks of the head message already ACK'd *)
  e_attempts : nat;                (* sendBlockOnce calls for the current block since the counter was last reset *)
  (* receiver data: the assembler *)
  e_open : option (nat * nat);     (* message in progress: (token, next expected index) *)
  e_last : option bid;             (* last accepted block: the duplicate record *)
  e_deliv : list nat;              (* tokens delivered to the handlers *)
  e_handed : nat;                  (* checksum-valid blocks ACK'd and handed to the assembler *)
  e_yields : nat                   (* contention yields performed *)
}.

Definition cur (e : endst) : option bid :=
  match e_todo e with
  | (t, n) :: _ => Some {| b_tok := t; b_idx := e_k e; b_last := Nat.eqb (S (e_k e)) n |}
  | [] => None
  end.

Definition set_ph (e : endst) (p : phase) : endst :=
  {| e_master := e_master e; e_limit := e_limit e; e_ph := p; e_out := e_out e; e_done := e_done e;
     e_todo := e_todo e; e_k := e_k e; e_attempts := e_attempts e; e_open := e_open e;
     e_last := e_last e; e_deliv := e_deliv e; e_handed := e_handed e; e_yields := e_yields e |}.

Definition push (e : endst) (o : out) : endst :=
  {| e_master := e_master e; e_limit := e_limit e; e_ph := e_ph e; e_out := e_out e ++ [o]; e_done := e_done e;
     e_todo := e_todo e; e_k := e_k e; e_attempts := e_attempts e; e_open := e_open e;
     e_last := e_last e; e_deliv := e_deliv e; e_handed := e_handed e; e_yields := e_yields e |}.

Definition set_out (e : endst) (l : list out) : endst :=
  {| e_master := e_master e; e_limit := e_limit e; e_ph := e_ph e; e_out := l; e_done := e_done e;
     e_todo := e_todo e; e_k := e_k e; e_attempts := e_attempts e; e_open := e_open e;
     e_last := e_last e; e_deliv := e_deliv e; e_handed := e_handed e; e_yields := e_yields e |}.

Definition set_attempts (e : endst) (a : nat) : endst :=
  {| e_master := e_master e; e_limit := e_limit e; e_ph := e_ph e; e_out := e_out e; e_done := e_done e;
     e_todo := e_todo e; e_k := e_k e; e_attempts := a; e_open := e_open e;
     e_last := e_last e; e_deliv := e_deliv e; e_handed := e_handed e; e_yields := e_yields e |}.

Definition count_yield (e : endst) : endst :=
  {| e_master := e_master e; e_limit := e_limit e; e_ph := e_ph e; e_out := e_out e; e_done := e_done e;
     e_todo := e_todo e; e_k := e_k e; e_attempts := e_attempts e; e_open := e_open e;
     e_last := e_last e; e_deliv := e_deliv e; e_handed := e_handed e; e_yields := S (e_yields e) |}.

(** One more sendBlockOnce for the same block ([retry++], loop test [retry <= retryLimit]), or
    ErrSendFailed. *)
Definition retry_step (e : endst) (r : nat) : endst :=
  if S r <=? e_limit e
  then push (set_attempts (set_ph e (WaitEOT (S r))) (S (e_attempts e))) (OCh ENQ)
  else set_ph e Down.

(** sendBlock returned nil for the current block: next block of the message (a new sendBlock,
    retry counter 0), or the message is complete and the engine returns to its idle loop. *)
Definition advance (e : endst) : endst :=
  match e_todo e with
  | [] => e
  | (t, n) :: rest =>
      if S (e_k e) <? n
      then push {| e_master := e_master e; e_limit := e_limit e; e_ph := WaitEOT 0; e_out := e_out e;
                   e_done := e_done e; e_todo := e_todo e; e_k := S (e_k e); e_attempts := 1;
                   e_open := e_open e; e_last := e_last e; e_deliv := e_deliv e;
                   e_handed := e_handed e; e_yields := e_yields e |} (OCh ENQ)
      else {| e_master := e_master e; e_limit := e_limit e; e_ph := Idle; e_out := e_out e;
              e_done := e_done e ++ [t]; e_todo := rest; e_k := 0; e_attempts := 0;
              e_open := e_open e; e_last := e_last e; e_deliv := e_deliv e;
              e_handed := e_handed e; e_yields := e_yields e |}
  end.

(** The assembler on a block of ours (abstract image of assembler.accept). *)
Definition hand (e : endst) (b : bid) : endst :=
  let e1 := {| e_master := e_master e; e_limit := e_limit e; e_ph := e_ph e; e_out := e_out e;
               e_done := e_done e; e_todo := e_todo e; e_k := e_k e; e_attempts := e_attempts e;
               e_open := e_open e; e_last := e_last e; e_deliv := e_deliv e;
               e_handed := S (e_handed e); e_yields := e_yields e |} in
  let is_dup := match e_last e with Some l => bid_eqb b l | None => false end in
  if is_dup then e1
  else
    let continues := match e_open e with
                     | Some (t, n) => Nat.eqb (b_tok b) t && Nat.eqb (b_idx b) n
                     | None => false
                     end in
    let accepted := continues || Nat.eqb (b_idx b) 0 in
    let open' := if accepted
                 then (if b_last b then None else Some (b_tok b, S (b_idx b)))
                 else None in
    let deliv' := if accepted && b_last b then e_deliv e ++ [b_tok b] else e_deliv e in
    let last' := if accepted then Some b else e_last e in
    {| e_master := e_master e; e_limit := e_limit e; e_ph := e_ph e; e_out := e_out e;
       e_done := e_done e; e_todo := e_todo e; e_k := e_k e; e_attempts := e_attempts e;
       e_open := open'; e_last := last'; e_deliv := deliv';
       e_handed := S (e_handed e); e_yields := e_yields e |}.

(** receiveBlock returned ([ok] = a block was ACK'd); control goes back to the caller. *)
Definition finish_recv (e : endst) (c : rctx) (ok : bool) : endst :=
  match c with
  | CtxIdle => set_ph e Idle
  | CtxYield r =>
      if ok then push (set_attempts (set_ph e (WaitEOT 0)) 1) (OCh ENQ)   (* retry := 0: a new send request *)
      else retry_step e r
  end.

(** What an end does when something arrives while it is reading. *)
Definition react (e : endst) (a : arrival) : endst :=
  match e_ph e, a with
  | Idle, AChar ENQ => push (set_ph e (RecvWait CtxIdle)) (OCh EOT)
  | Idle, _ => e                                     (* a non-ENQ byte on an idle line is ignored *)
  | WaitEOT r, AChar EOT =>
      match cur e with
      | Some b => push (set_ph e (WaitACK r)) (OBlk b)
      | None => e
      end
  | WaitEOT r, AChar ENQ =>
      if e_master e then e                           (* master ignores the contending ENQ *)
      else push (count_yield (set_ph e (RecvWait (CtxYield r)))) (OCh EOT)
  | WaitEOT _, _ => e
  | WaitACK r, AChar ACK => advance e
  | WaitACK r, _ => retry_step e r                   (* NAK or any non-ACK byte within T2 *)
  | RecvWait c, ABlk b => finish_recv (push (hand e b) (OCh ACK)) c true
  | RecvWait c, _ => finish_recv (push e (OCh NAK)) c false   (* bad length / short / checksum: NAK *)
  | Down, _ => e
  end.

(** T2 expiry of the read an end is blocked in. *)
Definition timeout (e : endst) : endst :=
  match e_ph e with
  | WaitEOT r | WaitACK r => retry_step e r
  | RecvWait c => finish_recv (push e (OCh NAK)) c false
  | _ => e
  end.

Definition waits (e : endst) : bool :=
  match e_ph e with WaitEOT _ | WaitACK _ | RecvWait _ => true | _ => false end.

(** The engine takes the next queued message (runSend -> sendBlock -> sendBlockOnce: ENQ). *)
Definition start (e : endst) : endst :=
  push (set_attempts (set_ph e (WaitEOT 0)) 1) (OCh ENQ).

Definition can_start (e : endst) : bool :=
  match e_ph e, e_todo e with Idle, _ :: _ => true | _, _ => false end.

Definition is_down (e : endst) : bool := match e_ph e with Down => true | _ => false end.

(** ** The two-ended system *)
Inductive side := A | B.
Record sys := { sa : endst; sb : endst }.

Definition get (s : sys) (x : side) : endst := match x with A => sa s | B => sb s end.
Definition other (x : side) : side := match x with A => B | B => A end.
Definition put (s : sys) (x : side) (e : endst) : sys :=
  match x with A => {| sa := e; sb := sb s |} | B => {| sa := sa s; sb := e |} end.

Inductive label :=
| LStart (x : side)
| LLine (x : side) (f : fault)     (* the oldest character/block written by x passes the line *)
| LTimeout (x : side).

Definition quiet (s : sys) : bool :=
  match e_out (sa s), e_out (sb s) with [], [] => true | _, _ => false end.

Definition alive (s : sys) : bool := negb (is_down (sa s)) && negb (is_down (sb s)).

Definition step (s : sys) (l : label) : option sys :=
  if negb (alive s) then None else
  match l with
  | LStart x => if can_start (get s x) then Some (put s x (start (get s x))) else None
  | LLine x f =>
      match e_out (get s x) with
      | [] => None
      | o :: rest =>
          let s1 := put s x (set_out (get s x) rest) in
          match through o f with
          | None => Some s1
          | Some a => Some (put s1 (other x) (react (get s1 (other x)) a))
          end
      end
  | LTimeout x => if quiet s && waits (get s x) then Some (put s x (timeout (get s x))) else None
  end.

Fixpoint run (s : sys) (ls : list label) : option sys :=
  match ls with
  | [] => Some s
  | l :: tl => match step s l with Some s' => run s' tl | None => None end
  end.

Definition reachable (s0 s : sys) : Prop := exists ls, run s0 ls = Some s.

(** Initial state: both ends idle with their queues of messages to send. *)
Definition end0 (master : bool) (limit : nat) (todo : list (nat * nat)) : endst :=
  {| e_master := master; e_limit := limit; e_ph := Idle; e_out := []; e_done := []; e_todo := todo;
     e_k := 0; e_attempts := 0; e_open := None; e_last := None; e_deliv := []; e_handed := 0; e_yields := 0 |}.

Definition sys0 (limit_a limit_b : nat) (todo_a todo_b : list (nat * nat)) : sys :=
  {| sa := end0 true limit_a todo_a; sb := end0 false limit_b todo_b |}.

Definition wf_todo (todo : list (nat * nat)) : Prop :=
  NoDup (map fst todo) /\ Forall (fun m => 1 <= snd m) todo.

(** ** The monitor the e2e check runs over real endpoints (extracted): for one direction, given
    the send results in call order [(token, ok)] and the tokens delivered at the peer in order. *)
Fixpoint subseq_b (l1 l2 : list nat) : bool :=
  match l1, l2 with
  | [], _ => true
  | _ :: _, [] => false
  | x :: t1, y :: t2 => if Nat.eqb x y then subseq_b t1 t2 else subseq_b l1 t2
  end.

Fixpoint nodup_b (l : list nat) : bool :=
  match l with
  | [] => true
  | x :: tl => negb (existsb (Nat.eqb x) tl) && nodup_b tl
  end.

Definition ok_dir (sent : list (nat * bool)) (delivered : list nat) : bool :=
  nodup_b delivered &&
  subseq_b delivered (map fst sent) &&
  forallb (fun m => negb (snd m) || existsb (Nat.eqb (fst m)) delivered) sent.
