(** Proofs about the SECS-I line protocol model (Secs1/Line.v).

    Part 1: the CONTROL SKELETON (phases without counters, outboxes without payloads) of every
    reachable state lies in a finite table computed by breadth-first search and checked closed
    under the abstract transition relation by [vm_compute] (finite domain). The table yields the
    synchronisation facts (a block in flight finds the peer in its receive procedure; an ACK in
    flight finds the peer waiting for it; ...).
    Part 2: data invariants per direction (sender position vs receiver assembler), the retry
    bound, contention, absence of deadlock; exactly-once at the message level. *)
From Coq Require Import Arith Bool List Lia.
From GoSecs Require Import Secs1.Line.
Import ListNotations.

(** * Part 1: control skeleton *)
Inductive cph := cI | cWE | cWA | cRI | cRY | cDN.
Inductive och := oENQ | oEOT | oACK | oNAK | oBLK.
Inductive aarr := aENQ | aEOT | aACK | aNAK | aNoise | aBLK | aBAD.

Definition cph_eqb (a b : cph) : bool :=
  match a, b with
  | cI, cI | cWE, cWE | cWA, cWA | cRI, cRI | cRY, cRY | cDN, cDN => true
  | _, _ => false
  end.
Definition och_eqb (a b : och) : bool :=
  match a, b with
  | oENQ, oENQ | oEOT, oEOT | oACK, oACK | oNAK, oNAK | oBLK, oBLK => true
  | _, _ => false
  end.
Fixpoint ol_eqb (a b : list och) : bool :=
  match a, b with
  | [], [] => true
  | x :: a', y :: b' => och_eqb x y && ol_eqb a' b'
  | _, _ => false
  end.

Definition ske := (cph * list och)%type.
Definition sks := (ske * ske)%type.     (* (A = master, B = slave) *)

Definition ske_eqb (a b : ske) : bool := cph_eqb (fst a) (fst b) && ol_eqb (snd a) (snd b).
Definition sks_eqb (a b : sks) : bool := ske_eqb (fst a) (fst b) && ske_eqb (snd a) (snd b).

Lemma cph_eqb_eq a b : cph_eqb a b = true <-> a = b.
Proof. destruct a, b; cbn; split; congruence. Qed.
Lemma och_eqb_eq a b : och_eqb a b = true <-> a = b.
Proof. destruct a, b; cbn; split; congruence. Qed.
Lemma ol_eqb_eq a : forall b, ol_eqb a b = true <-> a = b.
Proof.
  induction a as [|x a IH]; intros [|y b]; cbn; split; intros H; try congruence; try discriminate.
  - apply andb_true_iff in H as [H1 H2]. apply och_eqb_eq in H1. apply IH in H2. congruence.
  - inversion H; subst. apply andb_true_iff. split; [apply och_eqb_eq|apply IH]; reflexivity.
Qed.
Lemma ske_eqb_eq a b : ske_eqb a b = true <-> a = b.
Proof.
  destruct a as [p o], b as [q u]; unfold ske_eqb; cbn. rewrite andb_true_iff, cph_eqb_eq, ol_eqb_eq.
  split; [intros [-> ->]; reflexivity|intros H; inversion H; auto].
Qed.
Lemma sks_eqb_eq a b : sks_eqb a b = true <-> a = b.
Proof.
  destruct a as [a1 a2], b as [b1 b2]; unfold sks_eqb; cbn. rewrite andb_true_iff, !ske_eqb_eq.
  split; [intros [-> ->]; reflexivity|intros H; inversion H; auto].
Qed.

Definition sk_ph (p : phase) : cph :=
  match p with
  | Idle => cI | WaitEOT _ => cWE | WaitACK _ => cWA
  | RecvWait CtxIdle => cRI | RecvWait (CtxYield _) => cRY | Down => cDN
  end.
Definition sk_out (o : out) : och :=
  match o with
  | OCh ENQ => oENQ | OCh EOT => oEOT | OCh ACK => oACK | OCh NAK => oNAK
  | OCh Noise => oNAK (* never written by an end *) | OBlk _ => oBLK
  end.
Definition sk_end (e : endst) : ske := (sk_ph (e_ph e), map sk_out (e_out e)).
Definition sk_sys (s : sys) : sks := (sk_end (sa s), sk_end (sb s)).
Definition sk_arr (a : arrival) : aarr :=
  match a with
  | AChar ENQ => aENQ | AChar EOT => aEOT | AChar ACK => aACK | AChar NAK => aNAK
  | AChar Noise => aNoise | ABlk _ => aBLK | ABad => aBAD
  end.

(** Abstract transitions: every data-dependent decision is taken both ways. *)
Definition a_retry (o : list och) : list ske := [(cWE, o ++ [oENQ]); (cDN, o)].
Definition a_advance (p : cph) (o : list och) : list ske := [(cWE, o ++ [oENQ]); (cI, o); (p, o)].
Definition a_react (master : bool) (e : ske) (a : aarr) : list ske :=
  let '(p, o) := e in
  match p, a with
  | cI, aENQ => [(cRI, o ++ [oEOT])]
  | cI, _ => [(cI, o)]
  | cWE, aEOT => [(cWA, o ++ [oBLK]); (cWE, o)]
  | cWE, aENQ => if master then [(cWE, o)] else [(cRY, o ++ [oEOT])]
  | cWE, _ => [(cWE, o)]
  | cWA, aACK => a_advance cWA o
  | cWA, _ => a_retry o
  | cRI, aBLK => [(cI, o ++ [oACK])]
  | cRI, _ => [(cI, o ++ [oNAK])]
  | cRY, aBLK => [(cWE, o ++ [oACK; oENQ])]
  | cRY, _ => a_retry (o ++ [oNAK])
  | cDN, _ => [(cDN, o)]
  end.
Definition a_timeout (e : ske) : list ske :=
  let '(p, o) := e in
  match p with
  | cWE | cWA => a_retry o
  | cRI => [(cI, o ++ [oNAK])]
  | cRY => a_retry (o ++ [oNAK])
  | _ => []
  end.
Definition a_through (o : och) : list (option aarr) :=
  match o with
  | oENQ => [None; Some aENQ; Some aNoise]
  | oEOT => [None; Some aEOT; Some aNoise]
  | oACK => [None; Some aACK; Some aNoise]
  | oNAK => [None; Some aNAK; Some aNoise]
  | oBLK => [None; Some aBLK; Some aBAD]
  end.

Definition a_alive (s : sks) : bool :=
  negb (cph_eqb (fst (fst s)) cDN) && negb (cph_eqb (fst (snd s)) cDN).

(** All abstract successors of a skeleton state. *)
Definition a_succ (s : sks) : list sks :=
  if negb (a_alive s) then [] else
  let '(ea, eb) := s in
  (* start *)
  (if cph_eqb (fst ea) cI then [((cWE, snd ea ++ [oENQ]), eb)] else []) ++
  (if cph_eqb (fst eb) cI then [(ea, (cWE, snd eb ++ [oENQ]))] else []) ++
  (* line from A to B *)
  (match snd ea with
   | [] => []
   | o :: rest =>
       flat_map (fun oa => match oa with
                           | None => [((fst ea, rest), eb)]
                           | Some a => map (fun eb' => ((fst ea, rest), eb')) (a_react false eb a)
                           end) (a_through o)
   end) ++
  (* line from B to A *)
  (match snd eb with
   | [] => []
   | o :: rest =>
       flat_map (fun oa => match oa with
                           | None => [(ea, (fst eb, rest))]
                           | Some a => map (fun ea' => (ea', (fst eb, rest))) (a_react true ea a)
                           end) (a_through o)
   end) ++
  (* timeouts *)
  (match snd ea, snd eb with
   | [], [] => map (fun ea' => (ea', eb)) (a_timeout ea) ++ map (fun eb' => (ea, eb')) (a_timeout eb)
   | _, _ => []
   end).

Definition in_tab (t : list sks) (s : sks) : bool := existsb (sks_eqb s) t.

Fixpoint bfs (fuel : nat) (frontier seen : list sks) : list sks :=
  match fuel with
  | O => seen
  | S f =>
      match frontier with
      | [] => seen
      | s :: rest =>
          let new := fold_left (fun acc x => if in_tab (acc ++ seen) x then acc else acc ++ [x]) (a_succ s) [] in
          bfs f (rest ++ new) (seen ++ new)
      end
  end.

Definition sk0 : sks := ((cI, []), (cI, [])).
Definition table : list sks := Eval vm_compute in bfs 400 [sk0] [sk0].

Lemma table_closed :
  forallb (fun s => forallb (in_tab table) (a_succ s)) table = true.
Proof. vm_compute. reflexivity. Qed.

Lemma table_init : in_tab table sk0 = true.
Proof. vm_compute. reflexivity. Qed.

Lemma in_tab_In t s : in_tab t s = true <-> In s t.
Proof.
  unfold in_tab. rewrite existsb_exists. split.
  - intros (x & Hx & E). apply sks_eqb_eq in E. subst. exact Hx.
  - intros H. exists s. split; [exact H|apply sks_eqb_eq; reflexivity].
Qed.

Lemma table_step s s' : In s table -> In s' (a_succ s) -> In s' table.
Proof.
  intros Hs Hs'. pose proof table_closed as C. rewrite forallb_forall in C.
  specialize (C s Hs). rewrite forallb_forall in C. apply in_tab_In. apply C. exact Hs'.
Qed.

(** Synchronisation facts, checked on every table entry. [S] is the sending end of a direction,
    [R] the receiving end. *)
Definition has (x : och) (l : list och) : bool := existsb (och_eqb x) l.

Definition sync_dir (S R : ske) : bool :=
  (* a block in flight: nothing else is, the sender waits for ACK, the peer is in receiveBlock *)
  (negb (has oBLK (snd S)) ||
     (ol_eqb (snd S) [oBLK] && cph_eqb (fst S) cWA &&
      (cph_eqb (fst R) cRI || cph_eqb (fst R) cRY) && ol_eqb (snd R) [])) &&
  (* an ACK in flight: it is the oldest character, the only ACK, and the peer waits for it *)
  (negb (has oACK (snd R)) ||
     (match snd R with
      | x :: tl => och_eqb x oACK && negb (has oACK tl)
      | [] => false
      end && cph_eqb (fst S) cWA && ol_eqb (snd S) [])).

Definition sync_ok (s : sks) : bool :=
  sync_dir (fst s) (snd s) && sync_dir (snd s) (fst s) &&
  negb (cph_eqb (fst (fst s)) cRY).          (* the master never yields *)

Lemma table_sync : forallb sync_ok table = true.
Proof. vm_compute. reflexivity. Qed.

(** Concrete steps are abstract steps. *)
Lemma sk_push e o : sk_end (push e o) = (sk_ph (e_ph e), map sk_out (e_out e) ++ [sk_out o]).
Proof. unfold sk_end, push; cbn. rewrite map_app. reflexivity. Qed.

Lemma sk_retry e r :
  In (sk_end (retry_step e r)) (a_retry (map sk_out (e_out e))).
Proof.
  unfold retry_step, a_retry. destruct (S r <=? e_limit e).
  - left. rewrite sk_push. reflexivity.
  - right. left. reflexivity.
Qed.

Lemma sk_advance e r :
  e_ph e = WaitACK r -> In (sk_end (advance e)) (a_advance cWA (map sk_out (e_out e))).
Proof.
  intros Hp. unfold advance, a_advance. destruct (e_todo e) as [|[t n] rest].
  - right. right. left. unfold sk_end. rewrite Hp. reflexivity.
  - destruct (S (e_k e) <? n).
    + left. rewrite sk_push. reflexivity.
    + right. left. reflexivity.
Qed.

Lemma sk_react e a :
  In (sk_end (react e a)) (a_react (e_master e) (sk_end e) (sk_arr a)).
Proof.
  unfold react, sk_end at 2. destruct (e_ph e) as [|r|r|c|] eqn:P; cbn [sk_ph a_react].
  - (* Idle *)
    destruct a as [[]| |]; cbn [sk_arr]; try (left; unfold sk_end; rewrite P; reflexivity).
    left. rewrite sk_push. reflexivity.
  - (* WaitEOT *)
    destruct a as [[]| |]; cbn [sk_arr]; try (left; unfold sk_end; rewrite P; reflexivity).
    + destruct (e_master e); [left; unfold sk_end; rewrite P; reflexivity|].
      left. rewrite sk_push. reflexivity.
    + destruct (cur e).
      * left. rewrite sk_push. reflexivity.
      * right. left. unfold sk_end. rewrite P. reflexivity.
  - (* WaitACK *)
    destruct a as [[]| |]; cbn [sk_arr]; try apply sk_retry.
    apply (sk_advance e r P).
  - (* RecvWait *)
    destruct c as [|r]; cbn [sk_ph].
    + destruct a as [[]| |]; cbn [sk_arr finish_recv]; left; unfold sk_end, set_ph, push, hand; cbn;
        try (rewrite map_app; reflexivity).
      destruct (match e_last e with Some l => bid_eqb b l | None => false end); cbn; rewrite map_app; reflexivity.
    + destruct a as [[]| |]; cbn [sk_arr finish_recv];
        try (pose proof (sk_retry (push e (OCh NAK)) r) as H; unfold push in H at 2; cbn [e_out] in H;
             rewrite map_app in H; exact H).
      left. rewrite sk_push. unfold sk_end, set_attempts, set_ph, push, hand; cbn.
      destruct (match e_last e with Some l => bid_eqb b l | None => false end); cbn;
        rewrite map_app, <- app_assoc; reflexivity.
  - left. unfold sk_end. rewrite P. destruct a as [[]| |]; reflexivity.
Qed.

Lemma sk_timeout e : waits e = true -> In (sk_end (timeout e)) (a_timeout (sk_end e)).
Proof.
  unfold waits, timeout, sk_end at 2. destruct (e_ph e) as [|r|r|c|] eqn:P; try discriminate; intros _; cbn [sk_ph a_timeout].
  - apply sk_retry.
  - apply sk_retry.
  - destruct c as [|r]; cbn [sk_ph finish_recv].
    + left. unfold sk_end, set_ph, push; cbn. rewrite map_app. reflexivity.
    + pose proof (sk_retry (push e (OCh NAK)) r) as H. unfold push in H at 2. cbn [e_out] in H.
      rewrite map_app in H. exact H.
Qed.

Lemma sk_through o f : In (option_map sk_arr (through o f)) (a_through (sk_out o)).
Proof. destruct f, o as [[]|b]; cbn; auto. Qed.

Definition roles_ok (s : sys) : Prop := e_master (sa s) = true /\ e_master (sb s) = false.

Lemma retry_master e r : e_master (retry_step e r) = e_master e.
Proof. unfold retry_step. destruct (S r <=? e_limit e); reflexivity. Qed.
Lemma advance_master e : e_master (advance e) = e_master e.
Proof. unfold advance. destruct (e_todo e) as [|[t n] rest]; [reflexivity|]. destruct (S (e_k e) <? n); reflexivity. Qed.
Lemma hand_master e b : e_master (hand e b) = e_master e.
Proof. unfold hand. destruct (match e_last e with Some l => bid_eqb b l | None => false end); reflexivity. Qed.
Lemma finish_master e c ok : e_master (finish_recv e c ok) = e_master e.
Proof. unfold finish_recv. destruct c; [reflexivity|]. destruct ok; [reflexivity|apply retry_master]. Qed.

Lemma react_master e a : e_master (react e a) = e_master e.
Proof.
  unfold react. destruct (e_ph e) as [|r|r|c|]; destruct a as [[]| |];
    rewrite ?retry_master, ?advance_master, ?finish_master; cbn; rewrite ?hand_master; try reflexivity.
  - destruct (e_master e) eqn:M; cbn; auto.
  - destruct (cur e); reflexivity.
Qed.

Lemma timeout_master e : e_master (timeout e) = e_master e.
Proof.
  unfold timeout. destruct (e_ph e) as [|r|r|c|]; rewrite ?retry_master, ?finish_master; reflexivity.
Qed.

Lemma step_roles s l s' : roles_ok s -> step s l = Some s' -> roles_ok s'.
Proof.
  unfold roles_ok, step. intros [Ha Hb] H. destruct (negb (alive s)); [discriminate|].
  destruct l as [x|x f|x].
  - destruct (can_start (get s x)); [|discriminate]. inversion H; subst. destruct x; cbn; auto.
  - destruct (e_out (get s x)) as [|o rest] eqn:E; [discriminate|].
    destruct (through o f) as [a|]; inversion H; subst; destruct x; cbn; rewrite ?react_master; auto.
  - destruct (quiet s && waits (get s x)); [|discriminate]. inversion H; subst.
    destruct x; cbn; rewrite ?timeout_master; auto.
Qed.

Lemma sk_step s l s' :
  roles_ok s -> step s l = Some s' -> In (sk_sys s') (a_succ (sk_sys s)).
Proof.
  intros [Ha Hb] H. unfold step in H.
  assert (AL : a_alive (sk_sys s) = alive s).
  { unfold a_alive, alive, sk_sys, sk_end, is_down; cbn.
    destruct (e_ph (sa s)) as [| | |[]|], (e_ph (sb s)) as [| | |[]|]; reflexivity. }
  destruct (negb (alive s)) eqn:AV; [discriminate|].
  unfold a_succ. rewrite AL, AV.
  change (sk_sys s) with (sk_end (sa s), sk_end (sb s)). cbv beta iota.
  change (fst (sk_end (sa s))) with (sk_ph (e_ph (sa s))).
  change (fst (sk_end (sb s))) with (sk_ph (e_ph (sb s))).
  change (snd (sk_end (sa s))) with (map sk_out (e_out (sa s))).
  change (snd (sk_end (sb s))) with (map sk_out (e_out (sb s))).
  destruct l as [x|x f|x].
  - (* start *)
    destruct (can_start (get s x)) eqn:CS; [|discriminate]. inversion H; subst s'. clear H.
    unfold can_start in CS. destruct x; cbn [get] in CS.
    + destruct (e_ph (sa s)) eqn:P; try discriminate. apply in_or_app. left.
      cbn [sk_ph cph_eqb]. left.
      unfold sk_sys, put, start. cbn [sa sb get]. rewrite sk_push. reflexivity.
    + destruct (e_ph (sb s)) eqn:P; try discriminate. apply in_or_app. right. apply in_or_app. left.
      cbn [sk_ph cph_eqb]. left.
      unfold sk_sys, put, start. cbn [sa sb get]. rewrite sk_push. reflexivity.
  - (* line *)
    destruct (e_out (get s x)) as [|o rest] eqn:E; [discriminate|].
    pose proof (sk_through o f) as T.
    destruct x; cbn [get other] in *.
    + apply in_or_app. right. apply in_or_app. right. apply in_or_app. left.
      rewrite E. cbn [map].
      apply in_flat_map. exists (option_map sk_arr (through o f)). split; [exact T|].
      destruct (through o f) as [a|]; cbn [option_map]; inversion H; subst s'; clear H.
      * apply in_map_iff. exists (sk_end (react (sb s) a)). split.
        -- reflexivity.
        -- cbn [put get sa sb]. pose proof (sk_react (sb s) a) as R. rewrite Hb in R. exact R.
      * left. reflexivity.
    + apply in_or_app. right. apply in_or_app. right. apply in_or_app. right. apply in_or_app. left.
      rewrite E. cbn [map].
      apply in_flat_map. exists (option_map sk_arr (through o f)). split; [exact T|].
      destruct (through o f) as [a|]; cbn [option_map]; inversion H; subst s'; clear H.
      * apply in_map_iff. exists (sk_end (react (sa s) a)). split.
        -- reflexivity.
        -- cbn [put get sa sb]. pose proof (sk_react (sa s) a) as R. rewrite Ha in R. exact R.
      * left. reflexivity.
  - (* timeout *)
    destruct (quiet s && waits (get s x)) eqn:Q; [|discriminate]. inversion H; subst s'; clear H.
    apply andb_true_iff in Q as [Q W]. unfold quiet in Q.
    destruct (e_out (sa s)) eqn:Ea; [|discriminate]. destruct (e_out (sb s)) eqn:Eb; [|discriminate].
    do 4 (apply in_or_app; right). cbn [map].
    apply in_or_app. destruct x; cbn [get] in W.
    + left. apply in_map_iff. exists (sk_end (timeout (sa s))). split; [reflexivity|].
      exact (sk_timeout (sa s) W).
    + right. apply in_map_iff. exists (sk_end (timeout (sb s))). split; [reflexivity|].
      exact (sk_timeout (sb s) W).
Qed.

Lemma step_skeleton s l s' :
  roles_ok s -> In (sk_sys s) table -> step s l = Some s' -> roles_ok s' /\ In (sk_sys s') table.
Proof.
  intros R T H. split; [eapply step_roles; eassumption|].
  eapply table_step; [exact T|]. apply (sk_step s l s' R H).
Qed.

Lemma sync_of_table s : In (sk_sys s) table -> sync_ok (sk_sys s) = true.
Proof. intros H. pose proof table_sync as T. rewrite forallb_forall in T. apply T, H. Qed.

(** * Part 2: data invariants *)
Definition blk (t k n : nat) : bid := {| b_tok := t; b_idx := k; b_last := Nat.eqb (S k) n |}.

Lemma bid_eqb_eq a b : bid_eqb a b = true <-> a = b.
Proof.
  destruct a as [t i l], b as [t' i' l']; unfold bid_eqb; cbn.
  rewrite !andb_true_iff, !Nat.eqb_eq. split.
  - intros [[-> ->] H]. apply eqb_prop in H. subst. reflexivity.
  - intros H. inversion H; subst. repeat split. apply eqb_reflx.
Qed.

Definition sender_view (e : endst) := (e_done e, e_todo e, e_k e).
Definition receiver_view (e : endst) := (e_deliv e, e_open e, e_last e).

(** Direction invariant: [sx] is the sending end, [rx] the receiving end. [ahead] says the
    receiver has already accepted the block the sender is still working on. *)
Definition dir_inv (sx rx : endst) : Prop :=
  NoDup (e_done sx ++ map fst (e_todo sx)) /\
  Forall (fun m => 1 <= snd m) (e_todo sx) /\
  (forall b, In (OBlk b) (e_out sx) -> cur sx = Some b) /\
  exists ahead : bool,
    (In (OCh ACK) (e_out rx) -> ahead = true) /\
    match e_todo sx with
    | [] => ahead = false /\ e_k sx = 0 /\ e_deliv rx = e_done sx /\ e_open rx = None
    | (t, n) :: _ =>
        e_k sx < n /\
        let k' := if ahead then S (e_k sx) else e_k sx in
        e_deliv rx = e_done sx ++ (if Nat.eqb k' n then [t] else []) /\
        e_open rx = (if Nat.eqb k' 0 || Nat.eqb k' n then None else Some (t, k')) /\
        (if ahead then e_last rx = Some (blk t (e_k sx) n) else e_last rx <> Some (blk t (e_k sx) n))
    end.

Lemma cur_view e e' : sender_view e' = sender_view e -> cur e' = cur e.
Proof. unfold sender_view, cur. intros H. inversion H as [[H1 H2 H3]]. rewrite H2, H3. reflexivity. Qed.

Lemma dir_frame sx rx sx1 rx1 :
  sender_view sx1 = sender_view sx ->
  (forall b, In (OBlk b) (e_out sx1) -> In (OBlk b) (e_out sx) \/ cur sx = Some b) ->
  receiver_view rx1 = receiver_view rx ->
  (In (OCh ACK) (e_out rx1) -> In (OCh ACK) (e_out rx)) ->
  dir_inv sx rx -> dir_inv sx1 rx1.
Proof.
  intros VS OS VR OR (I1 & I2 & I3 & ahead & I4 & I5).
  pose proof (cur_view _ _ VS) as C.
  unfold sender_view in VS. inversion VS as [[V1 V2 V3]].
  unfold receiver_view in VR. inversion VR as [[W1 W2 W3]].
  unfold dir_inv. rewrite V1, V2, V3, W1, W2, W3, C.
  split; [exact I1|]. split; [exact I2|]. split.
  - intros b Hb. destruct (OS b Hb) as [H|H]; [apply I3, H|exact H].
  - exists ahead. split; [intros H; apply I4, OR, H|exact I5].
Qed.

(** Classification of reactions. *)
Definition is_ack_adv (e : endst) (a : arrival) : bool :=
  match e_ph e, a with WaitACK _, AChar ACK => true | _, _ => false end.
Definition is_hand (e : endst) (a : arrival) : bool :=
  match e_ph e, a with RecvWait _, ABlk _ => true | _, _ => false end.

Lemma retry_views e r :
  sender_view (retry_step e r) = sender_view e /\ receiver_view (retry_step e r) = receiver_view e /\
  (e_out (retry_step e r) = e_out e \/ e_out (retry_step e r) = e_out e ++ [OCh ENQ]).
Proof. unfold retry_step. destruct (S r <=? e_limit e); cbn; auto. Qed.

Lemma in_app_chars (l : list out) (x : out) (y : out) :
  In x (l ++ [y]) -> x <> y -> In x l.
Proof. intros H N. apply in_app_or in H as [H|[H|[]]]; [exact H|congruence]. Qed.

Lemma react_other e a :
  is_ack_adv e a = false -> is_hand e a = false ->
  sender_view (react e a) = sender_view e /\ receiver_view (react e a) = receiver_view e /\
  (forall b, In (OBlk b) (e_out (react e a)) -> In (OBlk b) (e_out e) \/ cur e = Some b) /\
  (In (OCh ACK) (e_out (react e a)) -> In (OCh ACK) (e_out e)).
Proof.
  unfold is_ack_adv, is_hand, react. intros NA NH.
  destruct (e_ph e) as [|r|r|c|] eqn:P.
  - destruct a as [[]| |]; cbn; repeat split; auto;
      intros; (left + idtac); eapply in_app_chars; try eassumption; discriminate.
  - destruct a as [[]| |]; cbn; repeat split; auto.
    + destruct (e_master e); cbn; reflexivity.
    + destruct (e_master e); cbn; reflexivity.
    + intros b. destruct (e_master e); cbn; auto. intros H. left. eapply in_app_chars; [exact H|discriminate].
    + destruct (e_master e); cbn; auto. intros H. eapply in_app_chars; [exact H|discriminate].
    + destruct (cur e); reflexivity.
    + destruct (cur e); reflexivity.
    + intros b. destruct (cur e) as [c|] eqn:C; cbn; auto. intros H.
      apply in_app_or in H as [H|[H|[]]]; [left; exact H|right; congruence].
    + destruct (cur e); cbn; auto. intros H. eapply in_app_chars; [exact H|discriminate].
  - destruct a as [[]| |]; try discriminate;
      destruct (retry_views e r) as (V1 & V2 & [O|O]); rewrite V1, V2, O; repeat split; auto;
      intros; (left + idtac); eapply in_app_chars; try eassumption; discriminate.
  - destruct a as [ch0| |]; try discriminate.
    + (* a character taken for the length byte: NAK *)
      destruct c as [|r]; cbn [finish_recv].
      * cbn. repeat split; auto; intros; (left + idtac); eapply in_app_chars; try eassumption; discriminate.
      * destruct (retry_views (push e (OCh NAK)) r) as (V1 & V2 & [O|O]); rewrite V1, V2, O; cbn;
          repeat split; auto; intros b0 **;
          repeat match goal with
                 | H : In _ (_ ++ [_]) |- _ => apply in_app_chars in H; [|discriminate]
                 end; auto.
    + destruct c as [|r]; cbn [finish_recv].
      * cbn. repeat split; auto; intros; (left + idtac); eapply in_app_chars; try eassumption; discriminate.
      * destruct (retry_views (push e (OCh NAK)) r) as (V1 & V2 & [O|O]); rewrite V1, V2, O; cbn;
          repeat split; auto; intros b0 **;
          repeat match goal with
                 | H : In _ (_ ++ [_]) |- _ => apply in_app_chars in H; [|discriminate]
                 end; auto.
  - destruct a as [[]| |]; cbn; repeat split; auto.
Qed.

(** The two steps that move data. *)
Lemma advance_views e :
  receiver_view (advance e) = receiver_view e /\
  (e_out (advance e) = e_out e \/ e_out (advance e) = e_out e ++ [OCh ENQ]).
Proof.
  unfold advance. destruct (e_todo e) as [|[t n] rest]; [auto|]. destruct (S (e_k e) <? n); cbn; auto.
Qed.

Lemma hand_views e b :
  sender_view (hand e b) = sender_view e /\ e_out (hand e b) = e_out e /\ e_ph (hand e b) = e_ph e.
Proof.
  unfold hand. destruct (match e_last e with Some l => bid_eqb b l | None => false end); cbn; auto.
Qed.

Lemma finish_ok_views e c :
  sender_view (finish_recv e c true) = sender_view e /\
  receiver_view (finish_recv e c true) = receiver_view e /\
  (e_out (finish_recv e c true) = e_out e \/ e_out (finish_recv e c true) = e_out e ++ [OCh ENQ]).
Proof. destruct c; cbn; auto. Qed.

Lemma nodup_app_head (l1 : list nat) t l2 : NoDup (l1 ++ t :: l2) -> NoDup ((l1 ++ [t]) ++ l2).
Proof. rewrite <- app_assoc. exact (fun H => H). Qed.

Lemma adv_key sx rx r rest :
  e_ph sx = WaitACK r -> e_out rx = OCh ACK :: rest -> e_out sx = [] -> ~ In (OCh ACK) rest ->
  dir_inv sx rx -> dir_inv (advance sx) (set_out rx rest).
Proof.
  intros P OR OS NA (I1 & I2 & I3 & ahead & I4 & I5).
  assert (A : ahead = true) by (apply I4; rewrite OR; left; reflexivity). subst ahead.
  unfold advance. destruct (e_todo sx) as [|[t n] todo'] eqn:T; [destruct I5; discriminate|].
  destruct I5 as (Hk & Hd & Ho & Hl). cbv zeta in Hd, Ho.
  inversion I2 as [|? ? Hn I2']; subst. cbn [snd] in Hn.
  destruct (S (e_k sx) <? n) eqn:More.
  - (* next block of the same message *)
    apply Nat.ltb_lt in More.
    unfold dir_inv. cbn [e_done e_todo e_out e_k push set_out e_deliv e_open e_last].
    split; [exact I1|]. split; [constructor; assumption|]. split.
    { intros b Hb. rewrite OS in Hb. cbn in Hb. destruct Hb as [Hb|[]]. discriminate. }
    exists false. split; [intros H; contradiction|].
    split; [exact More|]. cbv zeta.
    replace (Nat.eqb (S (e_k sx)) n) with false in * by (symmetry; apply Nat.eqb_neq; lia).
    cbn [Nat.eqb orb] in Ho. split; [exact Hd|]. split; [exact Ho|].
    rewrite Hl. unfold blk. intros E. inversion E. lia.
  - (* the message is complete *)
    apply Nat.ltb_ge in More. assert (E : S (e_k sx) = n) by lia.
    unfold dir_inv. cbn [e_done e_todo e_out e_k set_out e_deliv e_open e_last].
    rewrite E, Nat.eqb_refl in Hd, Ho. rewrite orb_true_r in Ho.
    split. { cbn [map fst] in I1. apply nodup_app_head. exact I1. }
    split; [exact I2'|]. split.
    { intros b Hb. rewrite OS in Hb. destruct Hb. }
    exists false. split; [intros H; contradiction|].
    destruct todo' as [|[t' n'] todo''].
    + repeat split; auto.
    + inversion I2' as [|? ? Hn' _]; subst. cbn [snd] in Hn'.
      split; [lia|]. cbv zeta.
      replace (Nat.eqb 0 n') with false by (symmetry; apply Nat.eqb_neq; lia).
      cbn [Nat.eqb orb]. rewrite app_nil_r. split; [exact Hd|]. split; [exact Ho|].
      rewrite Hl. unfold blk. intros Q. inversion Q as [[Q1 Q2 Q3]].
      (* the next message has a different token *)
      cbn [map fst] in I1. apply NoDup_remove_2 in I1. apply I1.
      apply in_or_app. right. left. symmetry. exact Q1.
Qed.

Lemma hand_key sx rx c b rest :
  e_ph rx = RecvWait c -> e_out sx = OBlk b :: rest ->
  dir_inv sx rx ->
  dir_inv (set_out sx rest) (finish_recv (push (hand rx b) (OCh ACK)) c true).
Proof.
  intros P OS (I1 & I2 & I3 & ahead & I4 & I5).
  assert (C : cur sx = Some b) by (apply I3; rewrite OS; left; reflexivity).
  destruct (finish_ok_views (push (hand rx b) (OCh ACK)) c) as (_ & FV & _).
  unfold dir_inv. cbn [set_out e_done e_todo e_k e_out].
  unfold receiver_view in FV. inversion FV as [[F1 F2 F3]]. rewrite F1, F2, F3.
  cbn [push e_deliv e_open e_last].
  split; [exact I1|]. split; [exact I2|]. split.
  { intros b0 Hb. unfold cur. cbn [set_out e_todo e_k]. apply I3. rewrite OS. right. exact Hb. }
  exists true. split; [reflexivity|].
  unfold cur in C. destruct (e_todo sx) as [|[t n] todo'] eqn:T; [discriminate|].
  assert (Cb : b = blk t (e_k sx) n) by (unfold blk; congruence). clear C. subst b.
  destruct I5 as (Hk & Hd & Ho & Hl). cbv zeta in Hd, Ho |- *.
  split; [exact Hk|].
  unfold hand. destruct ahead.
  - (* already accepted: a retransmission, dropped by the duplicate record *)
    rewrite Hl.
    replace (bid_eqb (blk t (e_k sx) n) (blk t (e_k sx) n)) with true by (symmetry; apply bid_eqb_eq; reflexivity).
    cbn [e_deliv e_open e_last]. auto.
  - (* new: the expected block, or the first block of the next message *)
    assert (ND : match e_last rx with Some l => bid_eqb (blk t (e_k sx) n) l | None => false end = false).
    { destruct (e_last rx) as [l|]; [|reflexivity].
      destruct (bid_eqb (blk t (e_k sx) n) l) eqn:Q; [|reflexivity].
      apply bid_eqb_eq in Q. subst l. contradiction. }
    rewrite ND. cbn [e_deliv e_open e_last b_idx b_tok b_last blk].
    assert (Acc : (match e_open rx with
                   | Some (t0, n0) => Nat.eqb t t0 && Nat.eqb (e_k sx) n0
                   | None => false
                   end || Nat.eqb (e_k sx) 0) = true).
    { rewrite Ho. destruct (Nat.eqb (e_k sx) 0) eqn:Z; [apply orb_true_r|].
      replace (Nat.eqb (e_k sx) n) with false by (symmetry; apply Nat.eqb_neq; lia).
      cbn [orb]. rewrite !Nat.eqb_refl. reflexivity. }
    rewrite Acc. cbn [andb].
    destruct (Nat.eqb (S (e_k sx)) n) eqn:L.
    + rewrite Hd. replace (Nat.eqb (e_k sx) n) with false by (symmetry; apply Nat.eqb_neq; lia).
      rewrite app_nil_r. rewrite orb_true_r. auto.
    + rewrite Hd. replace (Nat.eqb (e_k sx) n) with false by (symmetry; apply Nat.eqb_neq; lia).
      rewrite app_nil_r. cbn [Nat.eqb orb]. auto.
Qed.

Lemma has_in_ack l : In (OCh ACK) l -> has oACK (map sk_out l) = true.
Proof.
  intros H. unfold has. apply existsb_exists. exists oACK. split; [|reflexivity].
  change oACK with (sk_out (OCh ACK)). apply in_map, H.
Qed.

Lemma sync_ack_concrete sx rx rest :
  sync_dir (sk_end sx) (sk_end rx) = true -> e_out rx = OCh ACK :: rest ->
  e_out sx = [] /\ ~ In (OCh ACK) rest.
Proof.
  unfold sync_dir, sk_end. cbn [fst snd]. intros H E. rewrite E in H. cbn [map sk_out] in H.
  apply andb_true_iff in H as [_ H]. cbn [has existsb och_eqb orb negb] in H.
  cbn [orb] in H. apply andb_true_iff in H as [H Ho]. apply andb_true_iff in H as [H _].
  cbn [andb] in H. split.
  - destruct (e_out sx); [reflexivity|discriminate].
  - intros I. apply has_in_ack in I. rewrite I in H. discriminate.
Qed.

Lemma through_ack o f : through o f = Some (AChar ACK) -> o = OCh ACK.
Proof. destruct f, o as [[]|b]; cbn; congruence. Qed.
Lemma through_blk o f b : through o f = Some (ABlk b) -> o = OBlk b.
Proof. destruct f, o as [[]|b0]; cbn; congruence. Qed.

Lemma in_ext_no (l : list out) (x : out) :
  forall l', (l' = l \/ l' = l ++ [OCh ENQ]) -> x <> OCh ENQ -> In x l' -> In x l.
Proof. intros l' [->| ->] N H; [exact H|]. eapply in_app_chars; eassumption. Qed.

Lemma line_pair ex ey o rest f :
  e_out ex = o :: rest ->
  sync_dir (sk_end ey) (sk_end ex) = true ->
  dir_inv ex ey -> dir_inv ey ex ->
  let ex' := set_out ex rest in
  let ey' := match through o f with None => ey | Some a => react ey a end in
  dir_inv ex' ey' /\ dir_inv ey' ex'.
Proof.
  intros E SY Dxy Dyx ex' ey'.
  assert (PopS : forall b, In (OBlk b) (e_out ex') -> In (OBlk b) (e_out ex) \/ cur ex = Some b).
  { intros b H. left. rewrite E. right. exact H. }
  assert (PopR : In (OCh ACK) (e_out ex') -> In (OCh ACK) (e_out ex)).
  { intros H. rewrite E. right. exact H. }
  destruct (through o f) as [a|] eqn:TH; subst ey'.
  2:{ split; [eapply dir_frame; [| | | |exact Dxy]|eapply dir_frame; [| | | |exact Dyx]]; try reflexivity; auto. }
  destruct (is_ack_adv ey a) eqn:KA.
  - (* the awaited ACK: the sender advances *)
    unfold is_ack_adv in KA. destruct (e_ph ey) as [|r|r|c|] eqn:P; try discriminate.
    destruct a as [[]| |]; try discriminate.
    apply through_ack in TH. subst o.
    destruct (sync_ack_concrete ey ex rest SY E) as [Oy NA].
    assert (RE : react ey (AChar ACK) = advance ey) by (unfold react; rewrite P; reflexivity).
    rewrite RE. destruct (advance_views ey) as [AV AO]. split.
    + eapply dir_frame; [| | | |exact Dxy]; try reflexivity; auto.
      intros H. eapply in_ext_no; [exact AO|discriminate|exact H].
    + eapply adv_key; eassumption.
  - destruct (is_hand ey a) eqn:KH.
    + (* an intact block reaches the receive procedure *)
      unfold is_hand in KH. destruct (e_ph ey) as [|r|r|c|] eqn:P; try discriminate.
      destruct a as [|b|]; try discriminate.
      apply through_blk in TH. subst o.
      assert (RE : react ey (ABlk b) = finish_recv (push (hand ey b) (OCh ACK)) c true)
        by (unfold react; rewrite P; reflexivity).
      rewrite RE. split; [eapply hand_key; eassumption|].
      destruct (finish_ok_views (push (hand ey b) (OCh ACK)) c) as (FS & _ & FO).
      destruct (hand_views ey b) as (HS & HO & _).
      eapply dir_frame; [| | | |exact Dyx]; try reflexivity; auto.
      * rewrite FS. exact HS.
      * intros b0 H. left. eapply in_ext_no in H; [|exact FO|discriminate].
        cbn [push e_out] in H. rewrite HO in H. eapply in_app_chars; [exact H|discriminate].
    + destruct (react_other ey a KA KH) as (RS & RR & RO & RA).
      split; [eapply dir_frame; [| | | |exact Dxy]|eapply dir_frame; [| | | |exact Dyx]]; try reflexivity; auto.
Qed.

Lemma start_frame e :
  sender_view (start e) = sender_view e /\ receiver_view (start e) = receiver_view e /\
  (forall b, In (OBlk b) (e_out (start e)) -> In (OBlk b) (e_out e) \/ cur e = Some b) /\
  (In (OCh ACK) (e_out (start e)) -> In (OCh ACK) (e_out e)).
Proof.
  unfold start; cbn. repeat split; auto; intros; (left + idtac); eapply in_app_chars; try eassumption; discriminate.
Qed.

Lemma timeout_frame e :
  sender_view (timeout e) = sender_view e /\ receiver_view (timeout e) = receiver_view e /\
  (forall b, In (OBlk b) (e_out (timeout e)) -> In (OBlk b) (e_out e) \/ cur e = Some b) /\
  (In (OCh ACK) (e_out (timeout e)) -> In (OCh ACK) (e_out e)).
Proof.
  unfold timeout. destruct (e_ph e) as [|r|r|c|]; try (repeat split; auto; fail).
  - destruct (retry_views e r) as (V1 & V2 & O). rewrite V1, V2. repeat split; auto.
    + intros b H. left. eapply in_ext_no; [exact O|discriminate|exact H].
    + intros H. eapply in_ext_no; [exact O|discriminate|exact H].
  - destruct (retry_views e r) as (V1 & V2 & O). rewrite V1, V2. repeat split; auto.
    + intros b H. left. eapply in_ext_no; [exact O|discriminate|exact H].
    + intros H. eapply in_ext_no; [exact O|discriminate|exact H].
  - destruct c as [|r]; cbn [finish_recv].
    + cbn. repeat split; auto; intros; (left + idtac); eapply in_app_chars; try eassumption; discriminate.
    + destruct (retry_views (push e (OCh NAK)) r) as (V1 & V2 & O). rewrite V1, V2. cbn. repeat split; auto.
      * intros b H. left. eapply in_ext_no in H; [|exact O|discriminate].
        cbn in H. eapply in_app_chars; [exact H|discriminate].
      * intros H. eapply in_ext_no in H; [|exact O|discriminate].
        cbn in H. eapply in_app_chars; [exact H|discriminate].
Qed.

Definition Inv (s : sys) : Prop :=
  roles_ok s /\ In (sk_sys s) table /\ dir_inv (sa s) (sb s) /\ dir_inv (sb s) (sa s).

Lemma step_inv s l s' : Inv s -> step s l = Some s' -> Inv s'.
Proof.
  intros (RO & TB & Dab & Dba) H.
  destruct (step_skeleton s l s' RO TB H) as [RO' TB'].
  split; [exact RO'|]. split; [exact TB'|].
  pose proof (sync_of_table s TB) as SY. unfold sync_ok in SY.
  apply andb_true_iff in SY as [SY _]. apply andb_true_iff in SY as [SYab SYba].
  unfold sk_sys in SYab, SYba. cbn [fst snd] in SYab, SYba.
  unfold step in H. destruct (negb (alive s)); [discriminate|].
  destruct l as [x|x f|x].
  - destruct (can_start (get s x)); [|discriminate]. inversion H; subst s'; clear H.
    destruct x; cbn [get put sa sb];
      destruct (start_frame (sa s)) as (A1 & A2 & A3 & A4);
      destruct (start_frame (sb s)) as (B1 & B2 & B3 & B4);
      (split; [eapply dir_frame; [| | | |exact Dab]|eapply dir_frame; [| | | |exact Dba]]); try reflexivity; auto.
  - destruct (e_out (get s x)) as [|o rest] eqn:E; [discriminate|].
    destruct x; cbn [get other put sa sb] in *.
    + pose proof (line_pair (sa s) (sb s) o rest f E SYba Dab Dba) as [P1 P2].
      destruct (through o f); inversion H; subst s'; cbn [sa sb put get]; split; assumption.
    + pose proof (line_pair (sb s) (sa s) o rest f E SYab Dba Dab) as [P1 P2].
      destruct (through o f); inversion H; subst s'; cbn [sa sb put get]; split; assumption.
  - destruct (quiet s && waits (get s x)); [|discriminate]. inversion H; subst s'; clear H.
    destruct x; cbn [get put sa sb];
      destruct (timeout_frame (sa s)) as (A1 & A2 & A3 & A4);
      destruct (timeout_frame (sb s)) as (B1 & B2 & B3 & B4);
      (split; [eapply dir_frame; [| | | |exact Dab]|eapply dir_frame; [| | | |exact Dba]]); try reflexivity; auto.
Qed.

(** ** Initial state and reachability *)
Lemma run_inv : forall ls s s', Inv s -> run s ls = Some s' -> Inv s'.
Proof.
  induction ls as [|l ls IH]; intros s s' I H; cbn in H; [inversion H; subst; exact I|].
  destruct (step s l) as [s1|] eqn:E; [|discriminate].
  eapply IH; [eapply step_inv; eassumption|exact H].
Qed.

Lemma dir_inv_init m1 l1 m2 l2 t1 t2 :
  wf_todo t1 -> dir_inv (end0 m1 l1 t1) (end0 m2 l2 t2).
Proof.
  intros [ND F]. unfold dir_inv, end0; cbn.
  split; [exact ND|]. split; [exact F|]. split; [intros b []|].
  exists false. split; [intros []|].
  destruct t1 as [|[t n] t1']; [auto|].
  inversion F as [|? ? Hn _]; subst. cbn [snd] in Hn.
  split; [lia|]. cbv zeta.
  replace (Nat.eqb 0 n) with false by (symmetry; apply Nat.eqb_neq; lia).
  cbn. repeat split; auto. discriminate.
Qed.

Lemma inv_init la lb ta tb : wf_todo ta -> wf_todo tb -> Inv (sys0 la lb ta tb).
Proof.
  intros Wa Wb. split; [split; reflexivity|]. split.
  - apply in_tab_In. exact table_init.
  - split; apply dir_inv_init; assumption.
Qed.

Lemma reachable_inv la lb ta tb s :
  wf_todo ta -> wf_todo tb -> reachable (sys0 la lb ta tb) s -> Inv s.
Proof. intros Wa Wb [ls H]. eapply run_inv; [apply (inv_init la lb ta tb Wa Wb)|exact H]. Qed.

(** ** Per-end invariants that need no synchronisation: retry bound, constant configuration,
    constant token list *)
Definition tokens (e : endst) : list nat := e_done e ++ map fst (e_todo e).

Definition end_inv (e : endst) : Prop :=
  match e_ph e with
  | WaitEOT r | WaitACK r => r <= e_limit e /\ e_attempts e = S r
  | RecvWait (CtxYield r) => r <= e_limit e /\ e_attempts e = S r /\ e_master e = false
  | _ => True
  end /\ (e_master e = true -> e_yields e = 0) /\ e_attempts e <= S (e_limit e).

Definition same_cfg (e e' : endst) : Prop :=
  e_master e' = e_master e /\ e_limit e' = e_limit e /\ tokens e' = tokens e.

Lemma same_cfg_refl e : same_cfg e e.
Proof. repeat split. Qed.

Definition ctx_ok (e : endst) (c : rctx) : Prop :=
  match c with
  | CtxIdle => True
  | CtxYield r => r <= e_limit e /\ e_attempts e = S r /\ e_master e = false
  end.

Lemma retry_end e r :
  r <= e_limit e -> e_attempts e = S r -> (e_master e = true -> e_yields e = 0) ->
  end_inv (retry_step e r) /\ same_cfg e (retry_step e r).
Proof.
  intros Hr Ha Hy. unfold retry_step. destruct (S r <=? e_limit e) eqn:L.
  - apply Nat.leb_le in L. unfold end_inv, same_cfg, tokens; cbn. repeat split; auto. lia.
  - unfold end_inv, same_cfg, tokens; cbn. repeat split; auto. lia.
Qed.

Lemma advance_end e :
  end_inv e -> end_inv (advance e) /\ same_cfg e (advance e).
Proof.
  intros I. unfold advance.
  destruct (e_todo e) as [|[t n] rest] eqn:T; [split; [exact I|apply same_cfg_refl]|].
  destruct I as (_ & Hy & _).
  destruct (S (e_k e) <? n).
  - unfold end_inv, same_cfg, tokens; cbn. rewrite T. repeat split; auto; lia.
  - unfold end_inv, same_cfg, tokens; cbn. rewrite T. cbn. rewrite <- app_assoc. repeat split; auto; lia.
Qed.

Lemma hand_fields e b :
  e_master (hand e b) = e_master e /\ e_limit (hand e b) = e_limit e /\
  e_attempts (hand e b) = e_attempts e /\ e_yields (hand e b) = e_yields e /\
  tokens (hand e b) = tokens e.
Proof.
  unfold hand, tokens.
  destruct (match e_last e with Some l => bid_eqb b l | None => false end); cbn; auto.
Qed.

Lemma finish_end e c ok :
  ctx_ok e c -> (e_master e = true -> e_yields e = 0) -> e_attempts e <= S (e_limit e) ->
  end_inv (finish_recv e c ok) /\ same_cfg e (finish_recv e c ok).
Proof.
  intros Hc Hy Hb. destruct c as [|r]; cbn [finish_recv].
  - unfold end_inv, same_cfg, tokens; cbn. repeat split; auto.
  - destruct Hc as (Hr & Ha & Hm). destruct ok.
    + unfold end_inv, same_cfg, tokens; cbn. repeat split; auto; lia.
    + apply retry_end; auto.
Qed.

Lemma react_end e a : end_inv e -> end_inv (react e a) /\ same_cfg e (react e a).
Proof.
  intros I. pose proof I as (Ip & Hy & Hb). unfold react.
  destruct (e_ph e) as [|r|r|c|] eqn:P.
  - destruct a as [[]| |]; try (split; [exact I|apply same_cfg_refl]).
    unfold end_inv, same_cfg, tokens; cbn. repeat split; auto.
  - destruct Ip as [Hr Ha].
    destruct a as [[]| |]; try (split; [exact I|apply same_cfg_refl]).
    + destruct (e_master e) eqn:M; [split; [exact I|apply same_cfg_refl]|].
      unfold end_inv, same_cfg, tokens; cbn. repeat split; auto. intros Q; congruence.
    + destruct (cur e); [|split; [exact I|apply same_cfg_refl]].
      unfold end_inv, same_cfg, tokens; cbn. repeat split; auto.
  - destruct Ip as [Hr Ha].
    destruct a as [[]| |]; try (apply retry_end; auto). apply advance_end, I.
  - assert (Hc : ctx_ok e c) by (destruct c; [exact Logic.I|exact Ip]).
    destruct a as [ch0|b|].
    + destruct (finish_end (push e (OCh NAK)) c false Hc Hy Hb) as [F1 F2]. split; [exact F1|exact F2].
    + destruct (hand_fields e b) as (G1 & G2 & G3 & G4 & G5).
      assert (Hc' : ctx_ok (push (hand e b) (OCh ACK)) c).
      { destruct c; [exact Logic.I|]. unfold ctx_ok. cbn [push e_limit e_attempts e_master].
        rewrite G1, G2, G3. exact Hc. }
      assert (Hy' : e_master (push (hand e b) (OCh ACK)) = true -> e_yields (push (hand e b) (OCh ACK)) = 0).
      { cbn [push e_master e_yields]. rewrite G1, G4. exact Hy. }
      assert (Hb' : e_attempts (push (hand e b) (OCh ACK)) <= S (e_limit (push (hand e b) (OCh ACK)))).
      { cbn [push e_attempts e_limit]. rewrite G2, G3. exact Hb. }
      destruct (finish_end (push (hand e b) (OCh ACK)) c true Hc' Hy' Hb') as [F1 (F2 & F3 & F4)].
      split; [exact F1|]. unfold same_cfg. cbn [push e_master e_limit] in F2, F3.
      unfold tokens in F4, G5 |- *. cbn [push e_done e_todo] in F4.
      repeat split; congruence.
    + destruct (finish_end (push e (OCh NAK)) c false Hc Hy Hb) as [F1 F2]. split; [exact F1|exact F2].
  - split; [exact I|apply same_cfg_refl].
Qed.

Lemma timeout_end e : end_inv e -> end_inv (timeout e) /\ same_cfg e (timeout e).
Proof.
  intros I. pose proof I as (Ip & Hy & Hb). unfold timeout.
  destruct (e_ph e) as [|r|r|c|] eqn:P; try (split; [exact I|apply same_cfg_refl]).
  - destruct Ip. apply retry_end; auto.
  - destruct Ip. apply retry_end; auto.
  - assert (Hc : ctx_ok e c) by (destruct c; [exact Logic.I|exact Ip]).
    destruct (finish_end (push e (OCh NAK)) c false Hc Hy Hb) as [F1 F2]. split; [exact F1|exact F2].
Qed.

Lemma start_end e : end_inv e -> end_inv (start e) /\ same_cfg e (start e).
Proof.
  intros (_ & Hy & _). unfold start, end_inv, same_cfg, tokens; cbn. repeat split; auto; lia.
Qed.

Lemma set_out_end e l : end_inv e -> end_inv (set_out e l) /\ same_cfg e (set_out e l).
Proof. intros I. split; [exact I|repeat split]. Qed.

Definition cfg_inv (la lb : nat) (ta tb : list (nat * nat)) (s : sys) : Prop :=
  end_inv (sa s) /\ end_inv (sb s) /\
  e_limit (sa s) = la /\ e_limit (sb s) = lb /\
  tokens (sa s) = map fst ta /\ tokens (sb s) = map fst tb.

Lemma cfg_update la lb ta tb s x e :
  cfg_inv la lb ta tb s -> end_inv e -> same_cfg (get s x) e -> cfg_inv la lb ta tb (put s x e).
Proof.
  intros (Ia & Ib & La & Lb & Ta & Tb) E (C1 & C2 & C3).
  destruct x; cbn [get put] in *; unfold cfg_inv; cbn [sa sb];
    (split; [first [exact E|exact Ia]|]); (split; [first [exact E|exact Ib]|]); repeat split; congruence.
Qed.

Lemma step_cfg la lb ta tb s l s' :
  cfg_inv la lb ta tb s -> step s l = Some s' -> cfg_inv la lb ta tb s'.
Proof.
  intros I H. unfold step in H.
  assert (EI : forall x, end_inv (get s x)) by (destruct I as (Ia & Ib & _); intros []; assumption).
  destruct (negb (alive s)); [discriminate|].
  destruct l as [x|x f|x].
  - destruct (can_start (get s x)); [|discriminate]. inversion H; subst s'; clear H.
    destruct (start_end (get s x) (EI x)) as [E C]. apply cfg_update; assumption.
  - destruct (e_out (get s x)) as [|o rest] eqn:E; [discriminate|].
    assert (I1 : cfg_inv la lb ta tb (put s x (set_out (get s x) rest))).
    { destruct (set_out_end (get s x) rest (EI x)) as [E1 C1]. apply cfg_update; assumption. }
    destruct (through o f) as [a|]; inversion H; subst s'; clear H; [|exact I1].
    set (s1 := put s x (set_out (get s x) rest)) in *.
    assert (EO : end_inv (get s1 (other x))) by (destruct I1 as (Ia & Ib & _); destruct x; assumption).
    destruct (react_end (get s1 (other x)) a EO) as [E2 C2]. apply cfg_update; assumption.
  - destruct (quiet s && waits (get s x)); [|discriminate]. inversion H; subst s'; clear H.
    destruct (timeout_end (get s x) (EI x)) as [E C]. apply cfg_update; assumption.
Qed.

Lemma reachable_cfg la lb ta tb s :
  reachable (sys0 la lb ta tb) s -> cfg_inv la lb ta tb s.
Proof.
  intros [ls H].
  assert (I0 : cfg_inv la lb ta tb (sys0 la lb ta tb)).
  { unfold cfg_inv, sys0, end0, end_inv, tokens; cbn. repeat split; auto; lia. }
  revert H I0. generalize (sys0 la lb ta tb) as s0.
  induction ls as [|l ls IH]; intros s0 H I0; cbn in H; [inversion H; subst; exact I0|].
  destruct (step s0 l) as [s1|] eqn:E; [|discriminate].
  eapply IH; [exact H|eapply step_cfg; eassumption].
Qed.

(** * The property theorems *)

(** Exactly-once, in order: in every reachable state and for each direction, the tokens
    delivered at the receiver are the tokens whose send returned nil at the sender, followed by at
    most the one message in progress (its last block already accepted, its ACK still on the way or
    lost) — and all of that is a duplicate-free prefix of the tokens in the order queued. *)
Definition dir_once (sx rx : endst) (queued : list nat) : Prop :=
  NoDup queued /\
  exists extra rest,
    queued = e_done sx ++ extra ++ rest /\
    e_deliv rx = e_done sx ++ extra /\
    length extra <= 1.

Lemma dir_once_of_inv sx rx queued :
  dir_inv sx rx -> tokens sx = queued -> dir_once sx rx queued.
Proof.
  intros (I1 & I2 & I3 & ahead & I4 & I5) T. unfold tokens in T. split; [rewrite <- T; exact I1|].
  destruct (e_todo sx) as [|[t n] todo'].
  - destruct I5 as (_ & _ & Hd & _). exists [], []. cbn in T. rewrite app_nil_r in *.
    repeat split; auto. rewrite app_nil_r. exact Hd.
  - destruct I5 as (_ & Hd & _). cbv zeta in Hd. cbn [map fst] in T.
    destruct (Nat.eqb (if ahead then S (e_k sx) else e_k sx) n).
    + exists [t], (map fst todo'). repeat split; auto.
    + exists [], (t :: map fst todo'). rewrite app_nil_r in Hd. repeat split; auto.
      rewrite app_nil_r. exact Hd.
Qed.

Theorem exactly_once la lb ta tb s :
  wf_todo ta -> wf_todo tb -> reachable (sys0 la lb ta tb) s ->
  dir_once (sa s) (sb s) (map fst ta) /\ dir_once (sb s) (sa s) (map fst tb).
Proof.
  intros Wa Wb Hr.
  destruct (reachable_inv la lb ta tb s Wa Wb Hr) as (_ & _ & Dab & Dba).
  destruct (reachable_cfg la lb ta tb s Hr) as (_ & _ & _ & _ & Ta & Tb).
  split; apply dir_once_of_inv; assumption.
Qed.

(** The monitor [ok_dir] the e2e check evaluates on real endpoints accepts every reachable state
    of the model (sends still pending count as "not ok"). *)
Lemma subseq_b_prefix l r : subseq_b l (l ++ r) = true.
Proof.
  induction l as [|x l IH]; [destruct r; reflexivity|]. cbn. rewrite Nat.eqb_refl. exact IH.
Qed.

Lemma nodup_b_NoDup l : NoDup l -> nodup_b l = true.
Proof.
  induction 1 as [|x l Hx Hn IH]; [reflexivity|]. cbn. rewrite IH, andb_true_r.
  destruct (existsb (Nat.eqb x) l) eqn:E; [|reflexivity].
  apply existsb_exists in E as (y & Hy & Q). apply Nat.eqb_eq in Q. subst. contradiction.
Qed.

Lemma NoDup_app_l {A} (l1 l2 : list A) : NoDup (l1 ++ l2) -> NoDup l1.
Proof.
  induction l1 as [|x l1 IH]; intros H; [constructor|]. inversion H; subst. constructor.
  - intros Hin. apply H2. apply in_or_app. left. exact Hin.
  - apply IH. assumption.
Qed.

Definition send_log (sx : endst) : list (nat * bool) :=
  map (fun t => (t, true)) (e_done sx) ++ map (fun m => (fst m, false)) (e_todo sx).

Lemma monitor_of_once sx rx queued :
  tokens sx = queued -> dir_once sx rx queued -> ok_dir (send_log sx) (e_deliv rx) = true.
Proof.
  intros T (ND & extra & rest & Q & D & L). unfold ok_dir, send_log.
  assert (M : map fst (map (fun t => (t, true)) (e_done sx) ++ map (fun m => (fst m, false)) (e_todo sx)) = queued).
  { rewrite map_app, !map_map. cbn [fst]. rewrite map_id. exact T. }
  rewrite M. apply andb_true_iff. split; [apply andb_true_iff; split|].
  - apply nodup_b_NoDup. rewrite D. rewrite Q, app_assoc in ND. apply NoDup_app_l in ND. exact ND.
  - rewrite D, Q, app_assoc. apply subseq_b_prefix.
  - rewrite forallb_app. apply andb_true_iff. split.
    + apply forallb_forall. intros [t b] Hin. apply in_map_iff in Hin as (t0 & E & Hin). inversion E; subst.
      cbn [fst snd negb orb]. apply existsb_exists. exists t. split; [|apply Nat.eqb_refl].
      rewrite D. apply in_or_app. left. exact Hin.
    + apply forallb_forall. intros [t b] Hin. apply in_map_iff in Hin as (m & E & _). inversion E; subst. reflexivity.
Qed.

Theorem monitor_accepts la lb ta tb s :
  wf_todo ta -> wf_todo tb -> reachable (sys0 la lb ta tb) s ->
  ok_dir (send_log (sa s)) (e_deliv (sb s)) = true /\
  ok_dir (send_log (sb s)) (e_deliv (sa s)) = true.
Proof.
  intros Wa Wb Hr. destruct (exactly_once la lb ta tb s Wa Wb Hr) as [Oa Ob].
  destruct (reachable_cfg la lb ta tb s Hr) as (_ & _ & _ & _ & Ta & Tb).
  split; eapply monitor_of_once; eassumption.
Qed.

(** Retry bound: the current block has been attempted (sendBlockOnce, i.e. ENQ written) at most
    RetryLimit+1 times since the counter was last reset (new block, or a successful contention
    yield); while a send is in progress the number of attempts is exactly retry+1. *)
Theorem retry_bound la lb ta tb s :
  reachable (sys0 la lb ta tb) s ->
  e_attempts (sa s) <= S la /\ e_attempts (sb s) <= S lb /\
  (forall x r, (e_ph (get s x) = WaitEOT r \/ e_ph (get s x) = WaitACK r \/
                e_ph (get s x) = RecvWait (CtxYield r)) ->
     r <= e_limit (get s x) /\ e_attempts (get s x) = S r).
Proof.
  intros Hr. destruct (reachable_cfg la lb ta tb s Hr) as (Ia & Ib & La & Lb & _ & _).
  split; [rewrite <- La; apply Ia|]. split; [rewrite <- Lb; apply Ib|].
  intros x r H.
  assert (I : end_inv (get s x)) by (destruct x; assumption).
  destruct I as (Ip & _ & _). destruct H as [H|[H|H]]; rewrite H in Ip; tauto.
Qed.

(** Contention: the master never yields (it never enters the receive procedure from inside a
    send, and its yield counter stays 0); a slave whose ENQ meets the master's ENQ yields; after
    a successful yield the postponed send restarts with retry counter 0 and its block intact. *)
Theorem master_never_yields la lb ta tb s :
  reachable (sys0 la lb ta tb) s ->
  e_yields (sa s) = 0 /\ forall r, e_ph (sa s) <> RecvWait (CtxYield r).
Proof.
  intros Hr. destruct (reachable_cfg la lb ta tb s Hr) as ((Ip & Hy & _) & _).
  assert (M : e_master (sa s) = true).
  { destruct Hr as [ls H].
    assert (R0 : roles_ok (sys0 la lb ta tb)) by (split; reflexivity).
    revert H R0. generalize (sys0 la lb ta tb) as s0.
    induction ls as [|l ls IH]; intros s0 H R0; cbn in H; [inversion H; subst; apply R0|].
    destruct (step s0 l) as [s1|] eqn:E; [|discriminate].
    eapply IH; [exact H|eapply step_roles; eassumption]. }
  split; [apply Hy, M|]. intros r Q. rewrite Q in Ip. destruct Ip as (_ & _ & F). congruence.
Qed.

Lemma slave_yields e r :
  e_master e = false -> e_ph e = WaitEOT r ->
  react e (AChar ENQ) = push (count_yield (set_ph e (RecvWait (CtxYield r)))) (OCh EOT).
Proof. intros M P. unfold react. rewrite P, M. reflexivity. Qed.

Lemma master_ignores_enq e r :
  e_master e = true -> e_ph e = WaitEOT r -> react e (AChar ENQ) = e.
Proof. intros M P. unfold react. rewrite P, M. reflexivity. Qed.

Lemma yield_success_restarts e r b :
  e_ph e = RecvWait (CtxYield r) ->
  let e' := react e (ABlk b) in
  e_ph e' = WaitEOT 0 /\ e_attempts e' = 1 /\ sender_view e' = sender_view e /\
  e_out e' = e_out e ++ [OCh ACK; OCh ENQ].
Proof.
  intros P. unfold react. rewrite P. cbn [finish_recv].
  destruct (hand_views e b) as (HS & HO & _). cbn. rewrite HO, <- app_assoc.
  unfold sender_view in *. cbn. repeat split; auto.
Qed.

(** No deadlock: a live state is either final (both ends idle, nothing queued, nothing in flight)
    or has an enabled step. *)
Definition final (s : sys) : Prop :=
  e_ph (sa s) = Idle /\ e_ph (sb s) = Idle /\ e_out (sa s) = [] /\ e_out (sb s) = [] /\
  e_todo (sa s) = [] /\ e_todo (sb s) = [].

Theorem no_deadlock s : alive s = true -> final s \/ exists l s', step s l = Some s'.
Proof.
  intros AL. unfold step. rewrite AL. cbn [negb].
  destruct (e_out (sa s)) as [|oa ra] eqn:Ea.
  2:{ right. exists (LLine A Drop). cbn [get]. rewrite Ea. destruct oa; cbn; eauto. }
  destruct (e_out (sb s)) as [|ob rb] eqn:Eb.
  2:{ right. exists (LLine B Drop). cbn [get]. rewrite Eb. destruct ob; cbn; eauto. }
  assert (Q : quiet s = true) by (unfold quiet; rewrite Ea, Eb; reflexivity).
  destruct (waits (sa s)) eqn:Wa.
  { right. exists (LTimeout A). cbn [get]. rewrite Q, Wa. cbn. eauto. }
  destruct (waits (sb s)) eqn:Wb.
  { right. exists (LTimeout B). cbn [get]. rewrite Q, Wb. cbn. eauto. }
  unfold alive, is_down in AL. unfold waits in Wa, Wb.
  destruct (e_ph (sa s)) eqn:Pa; try discriminate; destruct (e_ph (sb s)) eqn:Pb; try discriminate.
  destruct (e_todo (sa s)) as [|ma ta'] eqn:Ta.
  2:{ right. exists (LStart A). unfold can_start. cbn [get]. rewrite Pa, Ta. eauto. }
  destruct (e_todo (sb s)) as [|mb tb'] eqn:Tb.
  2:{ right. exists (LStart B). unfold can_start. cbn [get]. rewrite Pb, Tb. eauto. }
  left. repeat split; assumption.
Qed.

(** Fault-free contention, computed: both ends write ENQ at once; the master's message is
    delivered first, the slave's postponed message follows, the slave yielded exactly once. *)
Definition contention_run : list label :=
  [LStart A; LStart B; LLine A Deliver; LLine B Deliver; LLine B Deliver; LLine A Deliver;
   LLine B Deliver; LLine B Deliver; LLine A Deliver; LLine B Deliver; LLine A Deliver].

Lemma contention_example :
  (exists s, run (sys0 3 3 [(7, 1)] [(9, 1)]) (firstn 6 contention_run) = Some s /\
             e_deliv (sb s) = [7] /\ e_deliv (sa s) = [] /\ e_done (sa s) = []) /\
  (exists s, run (sys0 3 3 [(7, 1)] [(9, 1)]) contention_run = Some s /\
             e_deliv (sb s) = [7] /\ e_deliv (sa s) = [9] /\ e_done (sa s) = [7] /\ e_done (sb s) = [9] /\
             e_yields (sb s) = 1 /\ e_yields (sa s) = 0 /\ final s).
Proof.
  split; eexists; (split; [vm_compute; reflexivity|]); cbn; repeat split; reflexivity.
Qed.

(** Outside the fault model: if the line turns the receiver's NAK into ACK, the sender's call
    succeeds although nothing was delivered — E4 cannot detect it, hence its exclusion. *)
Lemma nak_to_ack_refuted :
  exists s, run (sys0 3 3 [(7, 1)] []) [LStart A; LLine A Deliver; LLine B Deliver; LLine A Garble] = Some s /\
    e_out (sb s) = [OCh NAK] /\
    let a' := react (sa s) (AChar ACK) in
    e_done a' = [7] /\ e_deliv (sb s) = [].
Proof. eexists. split; [vm_compute; reflexivity|]. cbn. repeat split; reflexivity. Qed.

(** Why [Down] must be terminal. Before fix 2852a07 the line engine went on serving the line after
    its own send failed, until the core's teardown reached it, while the closing generation's
    delivery path already dropped frames (the engine now returns on ErrSendFailed, as the model
    says). [closing_react] is that behaviour: the end answers as if idle but
    nothing reaches its handlers. Then a message can be ACK'd — its send returns nil — and lost. *)
Definition closing_react (e : endst) (a : arrival) : endst :=
  let e' := react (set_ph e (match e_ph e with Down => Idle | p => p end)) a in
  {| e_master := e_master e'; e_limit := e_limit e'; e_ph := e_ph e'; e_out := e_out e';
     e_done := e_done e'; e_todo := e_todo e'; e_k := e_k e'; e_attempts := e_attempts e';
     e_open := e_open e'; e_last := e_last e'; e_deliv := e_deliv e; e_handed := e_handed e';
     e_yields := e_yields e' |}.

Lemma served_after_failure_refuted :
  exists s, run (sys0 0 0 [(7, 1)] [(9, 1)]) [LStart B; LLine B Drop; LTimeout B] = Some s /\
    e_ph (sb s) = Down /\
    let a1 := start (sa s) in                                       (* the master requests the line: ENQ *)
    let b1 := closing_react (sb s) (AChar ENQ) in                   (* ... still answered: EOT *)
    let a2 := react (set_out a1 []) (AChar EOT) in                  (* block transmitted *)
    let b2 := closing_react (set_out b1 []) (ABlk (blk 7 0 1)) in   (* ... ACK'd, frame dropped *)
    let a3 := react (set_out a2 []) (AChar ACK) in                  (* the master's send returns nil *)
    e_out a1 = [OCh ENQ] /\ e_out b1 = [OCh EOT] /\ e_out a2 = [OBlk (blk 7 0 1)] /\
    e_out b2 = [OCh ACK] /\ e_done a3 = [7] /\ e_deliv b2 = [].
Proof. eexists. split; [vm_compute; reflexivity|]. cbn. repeat split; reflexivity. Qed.
