(** Model of the inbound multi-block assembler (secs1/assembler.go) and an independent reading of
    SEMI E4 §9.4 against which it is verified (Secs1/AssemblerProofs.v). No proofs here.

    One input event = one checksum-valid, already ACK'd block handed to [accept], together with
    what the code reads from its environment during that call: the clock (read once per call in
    the model; the code reads it for the T4 test and again for the T4 base, microseconds apart)
    and the live T4 value. *)
From Coq Require Import ZArith Bool List Lia.
From GoSecs Require Import Secs1.Block.
Import ListNotations.
Open Scope Z_scope.

Record acfg := { c_equip : bool; c_dev : Z }.

Record ev := { e_time : Z; e_t4 : Z; e_blk : block }.
Definition e_hdr (e : ev) : list Z := b_hdr (e_blk e).

(** What [accept] can do besides changing its state. *)
Inductive viol := VDevice | VNumber | VHeader | VInvalidFirst.
Inductive counter := CDevice | CDir | CPartialTimeout | CDup | CNumberMismatch | CInvalidFirst.
Inductive aout :=
| ODeliver (frame : list Z)          (* deliverFrame(frame) *)
| OViol (v : viol) (hdr : list Z)    (* notify(violation, header) *)
| OCount (c : counter)               (* metrics increment *)
| OError (e : err).                  (* accept returns a non-nil error (assembleFrame failed) *)

Record astate := {
  a_open : bool;
  a_hdr : mheader;
  a_blocks : list block;
  a_expected : Z;
  a_last_time : Z;
  a_last_hdr : list Z;
  a_have_last : bool
}.

Definition astate0 : astate :=
  {| a_open := false; a_hdr := zero_mheader; a_blocks := []; a_expected := 0; a_last_time := 0;
     a_last_hdr := []; a_have_last := false |}.

Definition reset (st : astate) : astate :=
  {| a_open := false; a_hdr := zero_mheader; a_blocks := []; a_expected := 0; a_last_time := 0;
     a_last_hdr := a_last_hdr st; a_have_last := a_have_last st |}.

Definition complete (st : astate) : astate * list aout :=
  match assemble_frame (a_blocks st) with
  | Ok f => (reset st, [ODeliver f])
  | Err e => (reset st, [OError e])
  end.

Definition valid_first_hdr (hdr : list Z) : bool :=
  (hdr_num hdr =? 1) || ((hdr_num hdr =? 0) && hdr_ebit hdr).

Definition start_message (st : astate) (e : ev) (notify : bool) : astate * list aout :=
  let hdr := e_hdr e in
  if valid_first_hdr hdr then
    let st' := {| a_open := true; a_hdr := msg_header hdr; a_blocks := [e_blk e];
                  a_expected := hdr_num hdr + 1; a_last_time := e_time e;
                  a_last_hdr := hdr; a_have_last := true |} in
    if hdr_ebit hdr then complete st' else (st', [])
  else (st, if notify then [OCount CInvalidFirst; OViol VInvalidFirst hdr] else []).

Definition append_blk (st : astate) (e : ev) : astate * list aout :=
  let hdr := e_hdr e in
  let st' := {| a_open := a_open st; a_hdr := a_hdr st; a_blocks := a_blocks st ++ [e_blk e];
                a_expected := hdr_num hdr + 1; a_last_time := e_time e;
                a_last_hdr := hdr; a_have_last := true |} in
  if hdr_ebit hdr then complete st' else (st', []).

(** Steps 3-5 of [accept] (duplicate detection, expected-block accumulation, completion), on the
    state left by the lazy T4 test. *)
Definition accept_core (st1 : astate) (e : ev) : astate * list aout :=
  let hdr := e_hdr e in
  if a_have_last st1 && list_eqb hdr (a_last_hdr st1) then (st1, [OCount CDup])
  else if a_open st1 then
    if (hdr_num hdr =? a_expected st1) && mheader_eqb (msg_header hdr) (a_hdr st1) then
      append_blk st1 e
    else
      let v := if negb (hdr_num hdr =? a_expected st1) then VNumber else VHeader in
      let '(st2, o2) := start_message (reset st1) e false in
      (st2, [OCount CNumberMismatch; OViol v hdr] ++ o2)
  else start_message st1 e true.

Definition accept (cfg : acfg) (st : astate) (e : ev) : astate * list aout :=
  let hdr := e_hdr e in
  if negb (hdr_dev hdr =? c_dev cfg) then (st, [OCount CDevice; OViol VDevice hdr])
  else if Bool.eqb (hdr_rbit hdr) (c_equip cfg) then (st, [OCount CDir])
  else
    let timed_out := a_open st && (e_time e - a_last_time st >? e_t4 e) in
    let '(st2, o2) := accept_core (if timed_out then reset st else st) e in
    (st2, (if timed_out then [OCount CPartialTimeout] else []) ++ o2).

(** Fold over an inbound block sequence: per-event outputs. *)
Fixpoint run_from (cfg : acfg) (st : astate) (s : list ev) : list (list aout) :=
  match s with
  | [] => []
  | e :: tl => let '(st', o) := accept cfg st e in o :: run_from cfg st' tl
  end.

Fixpoint state_after (cfg : acfg) (st : astate) (s : list ev) : astate :=
  match s with
  | [] => st
  | e :: tl => state_after cfg (fst (accept cfg st e)) tl
  end.

Definition deliveries_of (o : list aout) : list (list Z) :=
  flat_map (fun x => match x with ODeliver f => [f] | _ => [] end) o.

Definition deliveries (cfg : acfg) (s : list ev) : list (list Z) :=
  flat_map deliveries_of (run_from cfg astate0 s).

Definition is_error (x : aout) : bool := match x with OError _ => true | _ => false end.

(** * The reading of SEMI E4 §9.4 the assembler is verified against

    A block is OURS when it carries our device id and is directed to us. The receiver remembers
    the header of the block it accepted last; a block of ours with that same header is a
    RETRANSMISSION. The receiver holds a candidate run (the blocks of the message in progress);
    the run is abandoned when T4 has elapsed since its last block at the arrival of the next
    block of ours. A block of ours that is not a retransmission is accepted exactly when the run
    extended by it, or else the block on its own, is a well-formed message prefix — decided by
    re-validating the whole candidate with the stateless predicate [e4_prefix] — and a message is
    delivered exactly when the accepted block carries the E-bit; the frame is built directly from
    the first block's header fields and the concatenated bodies. *)

Definition addressed (cfg : acfg) (e : ev) : bool :=
  (hdr_dev (e_hdr e) =? c_dev cfg) && negb (Bool.eqb (hdr_rbit (e_hdr e)) (c_equip cfg)).

(** [b] directly continues [a] within one message. *)
Definition continues (a b : ev) : bool :=
  negb (hdr_ebit (e_hdr a)) && (hdr_num (e_hdr b) =? hdr_num (e_hdr a) + 1) &&
  mheader_eqb (msg_header (e_hdr b)) (msg_header (e_hdr a)) &&
  (e_time b - e_time a <=? e_t4 b).

Fixpoint chain (a : ev) (rest : list ev) : bool :=
  match rest with
  | [] => true
  | b :: tl => continues a b && chain b tl
  end.

Definition e4_prefix (run : list ev) : bool :=
  match run with
  | [] => false
  | a :: tl => valid_first_hdr (e_hdr a) && chain a tl
  end.

Definition frame_of (run : list ev) : list Z :=
  match run with
  | [] => []
  | a :: _ => hsms_header_of (msg_header (e_hdr a)) ++ concat (map (fun e => b_body (e_blk e)) run)
  end.

Record sstate := { s_last : option (list Z); s_run : list ev }.
Definition sstate0 : sstate := {| s_last := None; s_run := [] |}.

Definition is_retransmission (last : option (list Z)) (e : ev) : bool :=
  match last with Some h => list_eqb (e_hdr e) h | None => false end.

Definition dflt_ev : ev := {| e_time := 0; e_t4 := 0; e_blk := {| b_hdr := []; b_body := [] |} |}.
Definition last_ev (run : list ev) : ev := last run dflt_ev.

Definition stale (run : list ev) (e : ev) : bool :=
  match run with
  | [] => false
  | _ => e_time e - e_time (last_ev run) >? e_t4 e
  end.

Definition spec_core (s : sstate) (e : ev) : sstate * list (list Z) :=
  if is_retransmission (s_last s) e then (s, [])
  else
    let cand :=
      if e4_prefix (s_run s ++ [e]) then Some (s_run s ++ [e])
      else if e4_prefix [e] then Some [e] else None in
    match cand with
    | None => ({| s_last := s_last s; s_run := [] |}, [])
    | Some run =>
        if hdr_ebit (e_hdr e)
        then ({| s_last := Some (e_hdr e); s_run := [] |}, [frame_of run])
        else ({| s_last := Some (e_hdr e); s_run := run |}, [])
    end.

Definition spec_step (cfg : acfg) (s : sstate) (e : ev) : sstate * list (list Z) :=
  if negb (addressed cfg e) then (s, [])
  else spec_core {| s_last := s_last s; s_run := if stale (s_run s) e then [] else s_run s |} e.

Fixpoint spec_from (cfg : acfg) (s : sstate) (seq : list ev) : list (list Z) :=
  match seq with
  | [] => []
  | e :: tl => let '(s', d) := spec_step cfg s e in d ++ spec_from cfg s' tl
  end.

Definition spec_deliveries (cfg : acfg) (seq : list ev) : list (list Z) := spec_from cfg sstate0 seq.

(** The global (property-text) form of "a complete E4 message": numbered 1..N (or a lone block 0),
    E-bit on exactly the last, one invariant header, every inter-block gap within T4. *)
Definition e4_message (run : list ev) : Prop :=
  run <> [] /\
  (forall k, (k < length run)%nat ->
     let e := nth k run dflt_ev in
     msg_header (e_hdr e) = msg_header (e_hdr (hd e run)) /\
     hdr_ebit (e_hdr e) = Nat.eqb (S k) (length run) /\
     (hdr_num (e_hdr e) = 1 + Z.of_nat k \/ (length run = 1%nat /\ hdr_num (e_hdr e) = 0))) /\
  (forall k, (S k < length run)%nat ->
     e_time (nth (S k) run dflt_ev) - e_time (nth k run dflt_ev) <= e_t4 (nth (S k) run dflt_ev)).
