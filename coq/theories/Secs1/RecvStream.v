(** Character-level model of the receiving side of the line engine (transport.lineEngine's idle
    loop + line.go receiveBlock + drainUntilSilence) over a stream of characters and silences.

    [Ch b] is a character that arrives less than T1 after the previous one (or while no timer is
    running); [Silence] is the line staying quiet until the timer the receiver is blocked on
    expires (T2 while waiting for the length character, T1 inside a block and while draining).
    After a frame that fails (length out of range, or length+checksum read in full but wrong) the
    receiver KEEPS LISTENING until the line is silent (SEMI E4 7.8.5) and only then sends NAK:
    everything the sender is still transmitting is discarded, whatever it looks like. *)
From Coq Require Import ZArith Bool List Lia ZifyBool.
From GoSecs Require Import Secs1.Block Secs1.BlockProofs Secs1.LineBytes.
Import ListNotations.
Open Scope Z_scope.

Definition c_enq : Z := 5.
Definition c_eot : Z := 4.
Definition c_ack : Z := 6.
Definition c_nak : Z := 21.

Inductive rin := Ch (b : Z) | Silence.
Inductive rout := Emit (b : Z) | Deliver (b : block).

Inductive rst :=
| RIdle                                          (* idle loop: poll for ENQ *)
| RLen                                           (* EOT sent: waiting for the length character (T2) *)
| RData (lb : Z) (need : nat) (acc : list Z)     (* reading header+body+checksum (T1 per read) *)
| RDrain.                                        (* failed frame: listen until the line is silent *)

Definition rstep (s : rst) (i : rin) : rst * list rout :=
  match s, i with
  | RIdle, Ch b => if b =? c_enq then (RLen, [Emit c_eot]) else (RIdle, [])
  | RIdle, Silence => (RIdle, [])
  | RLen, Ch b =>
      if (b <? min_block_length) || (b >? max_block_length) then (RDrain, [])
      else (RData b (Z.to_nat (b + checksum_size)) [], [])
  | RLen, Silence => (RIdle, [Emit c_nak])
  | RData lb need acc, Ch b =>
      match need with
      | S O =>
          match parse_block lb (acc ++ [b]) with
          | Ok blk => (RIdle, [Emit c_ack; Deliver blk])
          | Err _ => (RDrain, [])
          end
      | S k => (RData lb k (acc ++ [b]), [])
      | O => (RDrain, [])
      end
  | RData _ _ _, Silence => (RIdle, [Emit c_nak])
  | RDrain, Ch _ => (RDrain, [])
  | RDrain, Silence => (RIdle, [Emit c_nak])
  end.

Fixpoint rrun (s : rst) (l : list rin) : rst * list rout :=
  match l with
  | [] => (s, [])
  | i :: tl => let '(s1, o1) := rstep s i in let '(s2, o2) := rrun s1 tl in (s2, o1 ++ o2)
  end.

Definition chars (l : list Z) : list rin := map Ch l.

Lemma rrun_app s a b :
  rrun s (a ++ b) = let '(s1, o1) := rrun s a in let '(s2, o2) := rrun s1 b in (s2, o1 ++ o2).
Proof.
  revert s. induction a as [|i a IH]; intros s; cbn [app rrun].
  - destruct (rrun s b); reflexivity.
  - destruct (rstep s i) as [s1 o1]. rewrite IH.
    destruct (rrun s1 a) as [s2 o2]. destruct (rrun s2 b) as [s3 o3]. rewrite app_assoc. reflexivity.
Qed.

Lemma drain_chars l : rrun RDrain (chars l) = (RDrain, []).
Proof. induction l as [|b l IH]; cbn; [reflexivity|]. unfold chars in IH. rewrite IH. reflexivity. Qed.

(** Reading a frame: fewer characters than announced leave the receiver inside the frame; with
    enough characters the first [need] decide, and what follows is processed from the resulting
    state. *)
Lemma data_chars_short lb : forall l need acc,
  (length l < need)%nat ->
  rrun (RData lb need acc) (chars l) = (RData lb (need - length l) (acc ++ l), []).
Proof.
  induction l as [|b l IH]; intros need acc H; cbn [chars map rrun length].
  - rewrite Nat.sub_0_r, app_nil_r. reflexivity.
  - cbn [length] in H. destruct need as [|[|k]]; try lia.
    cbn [rstep]. fold (chars l). rewrite IH by lia. cbn. rewrite <- app_assoc. reflexivity.
Qed.

Lemma data_chars_full lb : forall l need acc,
  (1 <= need <= length l)%nat ->
  rrun (RData lb need acc) (chars l) =
    match parse_block lb (acc ++ firstn need l) with
    | Ok blk => let '(s, o) := rrun RIdle (chars (skipn need l)) in (s, [Emit c_ack; Deliver blk] ++ o)
    | Err _ => (RDrain, [])
    end.
Proof.
  induction l as [|b l IH]; intros need acc H; [cbn in H; lia|].
  cbn [chars map rrun]. destruct need as [|[|k]]; [lia| |].
  - cbn [rstep firstn skipn]. fold (chars l).
    destruct (parse_block lb (acc ++ [b])).
    + destruct (rrun RIdle (chars l)); reflexivity.
    + rewrite drain_chars. reflexivity.
  - cbn [rstep]. fold (chars l). cbn [length] in H. rewrite IH by lia.
    change (firstn (S (S k)) (b :: l)) with (b :: firstn (S k) l).
    change (skipn (S (S k)) (b :: l)) with (skipn (S k) l).
    rewrite <- app_assoc. cbn [app].
    destruct (parse_block lb (acc ++ b :: firstn (S k) l)); [|reflexivity].
    destruct (rrun RIdle (chars (skipn (S k) l))); reflexivity.
Qed.

(** A transmission that the receive procedure does not accept ([recv_bytes] = None: nothing at
    all, a length out of range, fewer characters than announced, or a failing checksum over the
    announced extent) is answered by exactly one NAK, sent after the line fell silent — and NOTHING
    it contains is delivered or answered, whatever follows the failed frame inside it (an ENQ, a
    well-formed block image, EOT/ACK/NAK characters, ...). *)
Theorem nakd_transmission l :
  recv_bytes l = None -> rrun RLen (chars l ++ [Silence]) = (RIdle, [Emit c_nak]).
Proof.
  intros H. rewrite rrun_app. destruct l as [|lb rest].
  - reflexivity.
  - cbn [chars map rrun rstep]. unfold recv_bytes in H.
    destruct ((lb <? min_block_length) || (lb >? max_block_length)) eqn:R.
    + fold (chars rest). rewrite drain_chars. reflexivity.
    + fold (chars rest).
      assert (Hn : (12 <= Z.to_nat (lb + checksum_size))%nat)
        by (unfold min_block_length, max_block_length, checksum_size in *; lia).
      destruct (zlen rest <? lb + checksum_size) eqn:Sh.
      * rewrite data_chars_short by (unfold zlen in Sh; lia).
        cbn. destruct (Z.to_nat (lb + checksum_size) - length rest)%nat eqn:Q; reflexivity.
      * rewrite data_chars_full by (unfold zlen in Sh; lia). cbn [app] in *.
        destruct (parse_block lb (firstn (Z.to_nat (lb + checksum_size)) rest)); [discriminate|].
        reflexivity.
Qed.

Corollary nakd_transmission_after_enq l :
  recv_bytes l = None ->
  rrun RIdle (Ch c_enq :: chars l ++ [Silence]) = (RIdle, [Emit c_eot; Emit c_nak]).
Proof. intros H. cbn [rrun rstep]. rewrite Z.eqb_refl. rewrite (nakd_transmission l H). reflexivity. Qed.

(** An intact transmission is ACK'd and delivered. *)
Theorem intact_transmission b :
  wf_block b -> rrun RLen (chars (append_block b) ++ [Silence]) = (RIdle, [Emit c_ack; Deliver b]).
Proof.
  intros W. destruct (append_block_shape b W) as [E R]. rewrite E, rrun_app.
  cbn [chars map rrun rstep]. unfold min_block_length, max_block_length, checksum_size.
  replace ((wire_len b <? 10) || (wire_len b >? 254)) with false by lia.
  fold (chars (wire_rest b)).
  pose proof (wire_rest_len b W) as L. unfold zlen in L.
  rewrite data_chars_full by lia.
  replace (Z.to_nat (wire_len b + 2)) with (length (wire_rest b)) by lia.
  rewrite firstn_all, skipn_all. cbn [app]. rewrite (parse_append b W). reflexivity.
Qed.

(** The length character lowered while the sender transmits the original extent: what the
    receiver decides depends only on the announced prefix, never on the tail. *)
Lemma length_down_tail_irrelevant b lb' tail :
  wf_block b -> lb' < wire_len b ->
  recv_bytes (lb' :: wire_rest b ++ tail) = recv_bytes (lb' :: wire_rest b).
Proof.
  intros W H. pose proof (wire_rest_len b W) as L. unfold recv_bytes.
  destruct ((lb' <? min_block_length) || (lb' >? max_block_length)) eqn:R; [reflexivity|].
  unfold min_block_length, max_block_length, checksum_size in *.
  rewrite zlen_app. pose proof (zlen_nonneg tail).
  replace (zlen (wire_rest b) + zlen tail <? lb' + 2) with false by lia.
  replace (zlen (wire_rest b) <? lb' + 2) with false by lia.
  rewrite firstn_app. unfold zlen in L.
  replace (Z.to_nat (lb' + 2) - length (wire_rest b))%nat with 0%nat by lia.
  cbn [firstn]. rewrite app_nil_r. reflexivity.
Qed.
