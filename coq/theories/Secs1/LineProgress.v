(** Progress of the SECS-I line model (Secs1/Line.v) once the line behaves.

    A NON-FAULT step is a start, a T2 expiry, or the oldest written item passing the line INTACT
    ([LLine x Deliver]); drops and garbles are the faults. The measure

      mu s = (blocks not yet ACK'd, both directions) * bigK s
             + potential of end A + potential of end B

    strictly decreases on EVERY enabled non-fault step of a reachable state, under any scheduling
    of the two engines and their timers. The potential of an end is a phase term — the remaining
    retry budget of the current block, [psi r = (RetryLimit + 1 - r) * cst], plus small offsets per
    phase — plus a weight per item it has written that is still in flight (ENQ 4, EOT/ACK/NAK 1, a
    block [blkw]). The weights are asymmetric because only the slave's retry counter is ever reset
    without a block being ACK'd (after a successful contention yield): the master's block in
    flight outweighs the slave's whole budget ([blkw master = 8*RetryLimit_slave + 14],
    [cst master = 8*RetryLimit_slave + 20], [cst slave = 8], [blkw slave = 2]).

    Hence every non-fault run from a reachable state [s] — in particular from every state reached
    THROUGH arbitrary faults, contention, retransmissions and NAKs — has at most [mu s] steps (no
    livelock), a state without an enabled non-fault step is final or down (no deadlock), and in a
    final state every queued message of both directions has been delivered exactly once and its
    send has returned nil. *)
From Coq Require Import Arith Bool List Lia.
From GoSecs Require Import Secs1.Line Secs1.LineProofs.
Import ListNotations.

Definition nofault (l : label) : bool :=
  match l with
  | LStart _ | LTimeout _ | LLine _ Deliver => true
  | LLine _ _ => false
  end.

(** ** The measure *)
Definition cst (master : bool) (lpeer : nat) : nat := if master then 8 * lpeer + 20 else 8.
Definition blkw (master : bool) (lpeer : nat) : nat := if master then 8 * lpeer + 14 else 2.
Definition psi (l : nat) (m : bool) (lp r : nat) : nat := (S l - r) * cst m lp.

Definition outw (m : bool) (lp : nat) (o : out) : nat :=
  match o with
  | OCh ENQ => 4
  | OCh _ => 1
  | OBlk _ => blkw m lp
  end.

Definition ow (e : endst) (lp : nat) : nat := list_sum (map (outw (e_master e) lp) (e_out e)).

Definition idle_pot (e : endst) (lp : nat) : nat :=
  match e_todo e with
  | [] => 0
  | _ => psi (e_limit e) (e_master e) lp 0 + 5
  end.

Definition pot (e : endst) (lp : nat) : nat :=
  match e_ph e with
  | Idle => idle_pot e lp
  | WaitEOT r => psi (e_limit e) (e_master e) lp r
  | WaitACK r => psi (e_limit e) (e_master e) lp (S r) + 5
  | RecvWait CtxIdle => idle_pot e lp + 2
  | RecvWait (CtxYield r) => psi (e_limit e) (e_master e) lp (S r) + 6
  | Down => 0
  end.

Definition epot (e : endst) (lp : nat) : nat := pot e lp + ow e lp.

Definition work (e : endst) : nat := list_sum (map snd (e_todo e)) - e_k e.

Definition bigK (s : sys) : nat :=
  psi (e_limit (sa s)) (e_master (sa s)) (e_limit (sb s)) 0 +
  psi (e_limit (sb s)) (e_master (sb s)) (e_limit (sa s)) 0 + 11.

Definition mu (s : sys) : nat :=
  (work (sa s) + work (sb s)) * bigK s +
  epot (sa s) (e_limit (sb s)) + epot (sb s) (e_limit (sa s)).

(** ** Arithmetic of [psi] *)
Lemma psi_rec l m lp r : r <= l -> psi l m lp r = psi l m lp (S r) + cst m lp.
Proof. intros H. unfold psi. replace (S l - r) with (S (S l - S r)) by lia. cbn [Nat.mul]. lia. Qed.

Lemma psi_end l m lp : psi l m lp (S l) = 0.
Proof. unfold psi. rewrite Nat.sub_diag. reflexivity. Qed.

Lemma psi_slave0 l lp : psi l false lp 0 = 8 * S l.
Proof. unfold psi, cst. lia. Qed.

Lemma psi_mono l m lp r : psi l m lp (S r) <= psi l m lp r.
Proof. unfold psi. apply Nat.mul_le_mono_r. lia. Qed.

Lemma cst_pos m lp : 8 <= cst m lp.
Proof. unfold cst. destruct m; lia. Qed.

Global Opaque psi.

(** ** Per-end invariant needed besides [end_inv]: an end in a send phase has a message *)
Definition sp_ok (e : endst) : Prop :=
  match e_ph e with
  | WaitEOT _ | WaitACK _ | RecvWait (CtxYield _) => e_todo e <> []
  | _ => True
  end.

Lemma ow_push e lp o : ow (push e o) lp = ow e lp + outw (e_master e) lp o.
Proof. unfold ow, push; cbn. rewrite map_app, list_sum_app. cbn. lia. Qed.

(** retry_step: at most the next retry level plus the new ENQ. *)
Lemma retry_epot e lp r :
  r <= e_limit e ->
  epot (retry_step e r) lp <= psi (e_limit e) (e_master e) lp (S r) + 4 + ow e lp.
Proof.
  intros H. unfold retry_step. destruct (S r <=? e_limit e) eqn:L.
  - unfold epot. rewrite ow_push. unfold pot, ow; cbn. unfold list_sum. lia.
  - apply Nat.leb_gt in L. assert (r = e_limit e) by lia. subst r.
    unfold epot, pot, ow; cbn. unfold list_sum. lia.
Qed.

Lemma retry_sp e r : e_todo e <> [] -> sp_ok (retry_step e r).
Proof. intros H. unfold retry_step, sp_ok. destruct (S r <=? e_limit e); cbn; auto. Qed.

Lemma retry_work e r : work (retry_step e r) = work e.
Proof. unfold retry_step. destruct (S r <=? e_limit e); reflexivity. Qed.

Lemma hand_meas e b lp :
  pot (hand e b) lp = pot e lp /\ ow (hand e b) lp = ow e lp /\ work (hand e b) = work e /\
  e_todo (hand e b) = e_todo e /\ e_ph (hand e b) = e_ph e /\ e_limit (hand e b) = e_limit e /\
  e_master (hand e b) = e_master e.
Proof.
  unfold hand. destruct (match e_last e with Some l => bid_eqb b l | None => false end);
    unfold pot, idle_pot, ow, work; cbn; repeat split; reflexivity.
Qed.

(** What an arriving item weighs in the SENDER's outbox (the sender has the opposite role and
    our retry limit as its peer limit). *)
Definition arrw (e : endst) (a : arrival) : nat :=
  match a with
  | AChar ENQ => 4
  | AChar _ => 1
  | ABlk _ | ABad => blkw (negb (e_master e)) (e_limit e)
  end.

Lemma arrw_pos e a : 1 <= arrw e a.
Proof. unfold arrw, blkw. destruct a as [[]| |]; try lia; destruct (negb (e_master e)); lia. Qed.

Definition is_adv (e : endst) (a : arrival) : bool :=
  match e_ph e, a with WaitACK _, AChar ACK => true | _, _ => false end.

(** finish_recv after the NAK/ACK has been pushed. *)
Lemma finish_fail_epot e c lp :
  ctx_ok e c ->
  epot (finish_recv (push e (OCh NAK)) c false) lp <=
    match c with
    | CtxIdle => idle_pot e lp + 1
    | CtxYield r => psi (e_limit e) (e_master e) lp (S r) + 5
    end + ow e lp.
Proof.
  intros Hc. destruct c as [|r]; cbn [finish_recv].
  - unfold epot, pot, idle_pot, ow; cbn. rewrite map_app, list_sum_app. cbn. lia.
  - destruct Hc as (Hr & _). pose proof (retry_epot (push e (OCh NAK)) lp r) as R.
    cbn [push e_limit e_master] in R. specialize (R Hr). rewrite ow_push in R. cbn [outw] in R. lia.
Qed.

(** A reaction other than "the awaited ACK" costs less than what arrived. *)
Lemma epot_idle_push X o lp :
  epot (set_ph (push X o) Idle) lp = idle_pot X lp + ow X lp + outw (e_master X) lp o.
Proof.
  unfold epot, pot, idle_pot, ow; cbn [set_ph push e_ph e_todo e_limit e_master e_out].
  rewrite map_app, list_sum_app. cbn. unfold list_sum. lia.
Qed.

Lemma epot_restart_push X o lp :
  epot (push (set_attempts (set_ph (push X o) (WaitEOT 0)) 1) (OCh ENQ)) lp =
  psi (e_limit X) (e_master X) lp 0 + ow X lp + outw (e_master X) lp o + 4.
Proof.
  unfold epot, pot, ow; cbn [set_ph set_attempts push e_ph e_todo e_limit e_master e_out].
  rewrite !map_app, !list_sum_app. cbn. unfold list_sum. lia.
Qed.

Ltac tri t1 t2 t3 := split; [t1|split; [t2|t3]].
Ltac norm := unfold epot, pot, idle_pot, ow, work in *; cbn in *; unfold list_sum in *.

Lemma react_epot e a lp :
  end_inv e -> sp_ok e -> is_adv e a = false ->
  epot (react e a) lp + 1 <= epot e lp + arrw e a /\ work (react e a) = work e /\ sp_ok (react e a).
Proof.
  intros (Ip & _ & _) Sp NA. pose proof (arrw_pos e a) as AP.
  unfold react, is_adv in *. unfold sp_ok in Sp.
  destruct (e_ph e) as [|r|r|c|] eqn:P.
  - (* Idle *)
    assert (Same : epot e lp + 1 <= epot e lp + arrw e a /\ work e = work e /\ sp_ok e)
      by (tri lia reflexivity ltac:(unfold sp_ok; rewrite P; exact I)).
    destruct a as [[]| |]; try exact Same.
    tri idtac reflexivity ltac:(exact I).
    unfold epot at 1. rewrite ow_push. norm. rewrite P. norm. lia.
  - (* WaitEOT *)
    destruct Ip as [Hr _]. pose proof (psi_rec (e_limit e) (e_master e) lp r Hr) as PR.
    assert (Same : epot e lp + 1 <= epot e lp + arrw e a /\ work e = work e /\ sp_ok e)
      by (tri lia reflexivity ltac:(unfold sp_ok; rewrite P; exact Sp)).
    destruct a as [[]| |]; try exact Same.
    + (* ENQ *)
      destruct (e_master e) eqn:M; [exact Same|].
      tri idtac reflexivity ltac:(exact Sp).
      unfold epot at 1. rewrite ow_push. norm. rewrite P, M in *. norm.
      unfold cst in PR. lia.
    + (* EOT *)
      destruct (cur e) as [b|]; [|exact Same].
      tri idtac reflexivity ltac:(exact Sp).
      unfold epot at 1. rewrite ow_push. norm. rewrite P.
      unfold blkw, cst in *. destruct (e_master e); lia.
  - (* WaitACK *)
    destruct Ip as [Hr _].
    assert (G : epot (retry_step e r) lp + 1 <= epot e lp + arrw e a).
    { pose proof (retry_epot e lp r Hr). unfold epot at 2. unfold pot. rewrite P. lia. }
    destruct a as [[]| |]; try discriminate;
      (tri ltac:(exact G) ltac:(apply retry_work) ltac:(apply retry_sp; exact Sp)).
  - (* RecvWait *)
    assert (Hc : ctx_ok e c) by (destruct c; [exact I|exact Ip]).
    assert (F : epot (finish_recv (push e (OCh NAK)) c false) lp + 1 <= epot e lp + arrw e a).
    { pose proof (finish_fail_epot e c lp Hc) as F. unfold epot at 2. unfold pot. rewrite P.
      destruct c; lia. }
    assert (FW : work (finish_recv (push e (OCh NAK)) c false) = work e).
    { destruct c; cbn [finish_recv]; [reflexivity|]. rewrite retry_work. reflexivity. }
    assert (FS : sp_ok (finish_recv (push e (OCh NAK)) c false)).
    { destruct c; cbn [finish_recv]; [exact I|]. apply retry_sp. exact Sp. }
    destruct a as [ch0|b|]; try (tri ltac:(exact F) ltac:(exact FW) ltac:(exact FS)).
    (* an intact block *)
    destruct (hand_meas e b lp) as (H1 & H2 & H3 & H4 & H5 & H6 & H7).
    destruct c as [|r]; cbn [finish_recv].
    + tri idtac ltac:(exact H3) ltac:(exact I).
      rewrite epot_idle_push. unfold idle_pot. rewrite H4, H6, H7, H2. cbn [outw].
      unfold epot, pot. rewrite P. unfold idle_pot. lia.
    + destruct Ip as (Hr & _ & M).
      tri idtac ltac:(exact H3) ltac:(unfold sp_ok; cbn; rewrite H4; exact Sp).
      rewrite epot_restart_push. rewrite H6, H7, H2. cbn [outw].
      unfold epot, pot. rewrite P. cbn [arrw]. rewrite M. cbn [negb].
      rewrite psi_slave0. unfold blkw. lia.
  - tri lia reflexivity ltac:(unfold sp_ok; rewrite P; exact I).
Qed.

Definition kn_ok (e : endst) : Prop :=
  match e_todo e with (t, n) :: _ => e_k e < n | [] => True end.

Lemma advance_meas e r lp :
  e_ph e = WaitACK r -> e_todo e <> [] -> kn_ok e ->
  work (advance e) + 1 = work e /\
  epot (advance e) lp <= psi (e_limit e) (e_master e) lp 0 + 5 + ow e lp /\
  sp_ok (advance e).
Proof.
  intros P T K. unfold advance, kn_ok in *. destruct (e_todo e) as [|[t n] rest] eqn:E; [congruence|].
  destruct (S (e_k e) <? n) eqn:L.
  - apply Nat.ltb_lt in L. tri idtac idtac ltac:(unfold sp_ok; cbn; try rewrite E; discriminate).
    + unfold work; cbn. try rewrite E. cbn. lia.
    + unfold epot. rewrite ow_push. unfold pot, ow; cbn. unfold list_sum. lia.
  - apply Nat.ltb_ge in L. tri idtac idtac ltac:(exact I).
    + unfold work; cbn. try rewrite E. cbn. lia.
    + unfold epot, pot, idle_pot, ow; cbn. destruct rest; unfold list_sum; lia.
Qed.

Lemma timeout_meas e lp :
  end_inv e -> sp_ok e -> waits e = true ->
  epot (timeout e) lp < epot e lp /\ work (timeout e) = work e /\ sp_ok (timeout e).
Proof.
  intros (Ip & _ & _) Sp W. unfold timeout, waits in *. unfold sp_ok in Sp.
  destruct (e_ph e) as [|r|r|c|] eqn:P; try discriminate.
  - destruct Ip as [Hr _]. pose proof (psi_rec (e_limit e) (e_master e) lp r Hr).
    pose proof (cst_pos (e_master e) lp). pose proof (retry_epot e lp r Hr).
    tri idtac ltac:(apply retry_work) ltac:(apply retry_sp; exact Sp).
    unfold epot at 2. unfold pot. rewrite P. lia.
  - destruct Ip as [Hr _]. pose proof (retry_epot e lp r Hr).
    tri idtac ltac:(apply retry_work) ltac:(apply retry_sp; exact Sp).
    unfold epot at 2. unfold pot. rewrite P. lia.
  - assert (Hc : ctx_ok e c) by (destruct c; [exact I|exact Ip]).
    pose proof (finish_fail_epot e c lp Hc) as F.
    tri idtac idtac idtac.
    + unfold epot at 2. unfold pot. rewrite P. destruct c; lia.
    + destruct c; cbn [finish_recv]; [reflexivity|]. rewrite retry_work. reflexivity.
    + destruct c; cbn [finish_recv]; [exact I|]. apply retry_sp. exact Sp.
Qed.

Lemma start_meas e lp :
  can_start e = true ->
  epot (start e) lp < epot e lp /\ work (start e) = work e /\ sp_ok (start e).
Proof.
  unfold can_start. destruct (e_ph e) eqn:P; try discriminate.
  destruct (e_todo e) as [|m rest] eqn:T; [discriminate|]. intros _.
  tri idtac ltac:(reflexivity) ltac:(unfold sp_ok, start; cbn; rewrite T; discriminate).
  unfold start. unfold epot at 1. rewrite ow_push. unfold epot, pot, idle_pot, ow; cbn.
  rewrite P, T. unfold list_sum. lia.
Qed.

Lemma pop_meas e o rest lp :
  e_out e = o :: rest ->
  epot (set_out e rest) lp + outw (e_master e) lp o = epot e lp /\
  work (set_out e rest) = work e /\ (sp_ok e -> sp_ok (set_out e rest)).
Proof.
  intros E. tri idtac ltac:(reflexivity) ltac:(intros H; exact H).
  unfold epot, pot, idle_pot, ow; cbn. rewrite E. cbn. unfold list_sum. lia.
Qed.

Lemma deliver_weight x y o a :
  e_master x = negb (e_master y) -> through o Deliver = Some a ->
  outw (e_master x) (e_limit y) o = arrw y a.
Proof.
  intros M T. destruct o as [c|b]; cbn in T; inversion T; subst; cbn; [destruct c; reflexivity|].
  rewrite M. reflexivity.
Qed.

(** ** The measure decreases on every enabled non-fault step *)
Definition pinv (la lb : nat) (ta tb : list (nat * nat)) (s : sys) : Prop :=
  Inv s /\ cfg_inv la lb ta tb s /\ sp_ok (sa s) /\ sp_ok (sb s).

Lemma kn_of_dir sx rx : dir_inv sx rx -> kn_ok sx.
Proof.
  intros (_ & _ & _ & ahead & _ & H). unfold kn_ok. destruct (e_todo sx) as [|[t n] rest]; [exact I|].
  apply H.
Qed.

Lemma through_deliver o : exists a, through o Deliver = Some a.
Proof. destruct o; cbn; eauto. Qed.

Lemma line_mu x y o rest a K :
  e_out x = o :: rest -> through o Deliver = Some a ->
  e_master x = negb (e_master y) -> end_inv y -> sp_ok y -> kn_ok y ->
  psi (e_limit y) (e_master y) (e_limit x) 0 + 11 <= K ->
  (work (set_out x rest) + work (react y a)) * K + epot (set_out x rest) (e_limit y) + epot (react y a) (e_limit x)
    < (work x + work y) * K + epot x (e_limit y) + epot y (e_limit x)
  /\ sp_ok (react y a).
Proof.
  intros E T M I Sp Kn HK.
  destruct (pop_meas x o rest (e_limit y) E) as (P1 & P2 & _).
  rewrite (deliver_weight x y o a M T) in P1. rewrite P2.
  destruct (is_adv y a) eqn:A.
  - (* the awaited ACK *)
    unfold is_adv in A. destruct (e_ph y) as [|r|r|c|] eqn:P; try discriminate.
    destruct a as [[]| |]; try discriminate.
    assert (Td : e_todo y <> []) by (unfold sp_ok in Sp; rewrite P in Sp; exact Sp).
    assert (R : react y (AChar ACK) = advance y) by (unfold react; rewrite P; reflexivity).
    rewrite R. destruct (advance_meas y r (e_limit x) P Td Kn) as (W1 & W2 & W3).
    split; [|exact W3].
    assert (OW : ow y (e_limit x) <= epot y (e_limit x)) by (unfold epot; lia).
    cbn [arrw] in P1.
    replace (work x + work y) with (S (work x + work (advance y))) by lia.
    rewrite Nat.mul_succ_l. lia.
  - destruct (react_epot y a (e_limit x) I Sp A) as (R1 & R2 & R3).
    split; [|exact R3]. rewrite R2. lia.
Qed.

Lemma step_mu la lb ta tb s l s' :
  pinv la lb ta tb s -> nofault l = true -> step s l = Some s' ->
  mu s' < mu s /\ pinv la lb ta tb s'.
Proof.
  intros (IV & CF & SpA & SpB) NF H.
  pose proof (step_inv s l s' IV H) as IV'. pose proof (step_cfg la lb ta tb s l s' CF H) as CF'.
  pose proof IV' as IV2.
  destruct IV as ((MA & MB) & TB & Dab & Dba).
  destruct IV' as ((MA' & MB') & TB' & Dab' & Dba').
  pose proof CF as (IA & IB & LA & LB & _). pose proof CF' as (IA' & IB' & LA' & LB' & _).
  assert (G : mu s' < mu s /\ sp_ok (sa s') /\ sp_ok (sb s')).
  2:{ destruct G as (G1 & G2 & G3). split; [exact G1|]. split; [exact IV2|]. split; [exact CF'|]. split; assumption. }
  unfold mu, bigK. rewrite MA, MB, MA', MB', LA, LB, LA', LB'.
  set (K := psi la true lb 0 + psi lb false la 0 + 11).
  unfold step in H. destruct (negb (alive s)); [discriminate|].
  destruct l as [x|x f|x].
  - destruct (can_start (get s x)) eqn:CS; [|discriminate]. inversion H; subst s'; clear H.
    destruct x; cbn [get put sa sb] in *.
    + destruct (start_meas (sa s) lb CS) as (S1 & S2 & S3). rewrite S2. repeat split; try assumption. lia.
    + destruct (start_meas (sb s) la CS) as (S1 & S2 & S3). rewrite S2. repeat split; try assumption. lia.
  - destruct f; try discriminate.
    destruct (e_out (get s x)) as [|o rest] eqn:E; [discriminate|].
    destruct (through_deliver o) as [a T]. rewrite T in H. inversion H; subst s'; clear H.
    destruct x; cbn [get other put sa sb] in *.
    + assert (HK : psi (e_limit (sb s)) (e_master (sb s)) (e_limit (sa s)) 0 + 11 <= K)
        by (rewrite LA, LB, MB; unfold K; lia).
      destruct (line_mu (sa s) (sb s) o rest a K E T ltac:(rewrite MA, MB; reflexivity) IB SpB
                  (kn_of_dir _ _ Dba) HK) as [L1 L2].
      rewrite LA, LB in L1. repeat split; [lia|exact SpA|exact L2].
    + assert (HK : psi (e_limit (sa s)) (e_master (sa s)) (e_limit (sb s)) 0 + 11 <= K)
        by (rewrite LA, LB, MA; unfold K; lia).
      destruct (line_mu (sb s) (sa s) o rest a K E T ltac:(rewrite MA, MB; reflexivity) IA SpA
                  (kn_of_dir _ _ Dab) HK) as [L1 L2].
      rewrite LA, LB in L1. repeat split; [lia|exact L2|exact SpB].
  - destruct (quiet s && waits (get s x)) eqn:Q; [|discriminate]. inversion H; subst s'; clear H.
    apply andb_true_iff in Q as [_ W].
    destruct x; cbn [get put sa sb] in *.
    + destruct (timeout_meas (sa s) lb IA SpA W) as (S1 & S2 & S3). rewrite S2. repeat split; try assumption. lia.
    + destruct (timeout_meas (sb s) la IB SpB W) as (S1 & S2 & S3). rewrite S2. repeat split; try assumption. lia.
Qed.

(** ** [pinv] holds in every reachable state (fault steps included) *)
Lemma step_sp la lb ta tb s l s' :
  pinv la lb ta tb s -> step s l = Some s' -> sp_ok (sa s') /\ sp_ok (sb s').
Proof.
  intros (IV & CF & SpA & SpB) H.
  destruct (nofault l) eqn:NF.
  { destruct (step_mu la lb ta tb s l s' (conj IV (conj CF (conj SpA SpB))) NF H) as (_ & _ & _ & R). exact R. }
  destruct IV as (_ & _ & Dab & Dba). destruct CF as (IA & IB & _).
  unfold step in H. destruct (negb (alive s)); [discriminate|].
  destruct l as [x|x f|x]; try discriminate.
  destruct (e_out (get s x)) as [|o rest] eqn:E; [discriminate|].
  assert (RS : forall y a, end_inv y -> sp_ok y -> kn_ok y -> sp_ok (react y a)).
  { intros y a I Sp Kn. destruct (is_adv y a) eqn:A.
    - unfold is_adv in A. destruct (e_ph y) as [|r|r|c|] eqn:P; try discriminate.
      destruct a as [[]| |]; try discriminate.
      assert (Td : e_todo y <> []) by (unfold sp_ok in Sp; rewrite P in Sp; exact Sp).
      assert (R : react y (AChar ACK) = advance y) by (unfold react; rewrite P; reflexivity).
      rewrite R. apply (advance_meas y r 0 P Td Kn).
    - apply (react_epot y a 0 I Sp A). }
  destruct x; cbn [get other put sa sb] in *.
  - destruct (through o f) as [a|]; inversion H; subst s'; cbn [sa sb put get]; split; try assumption.
    apply RS; try assumption. apply (kn_of_dir _ _ Dba).
  - destruct (through o f) as [a|]; inversion H; subst s'; cbn [sa sb put get]; split; try assumption.
    apply RS; try assumption. apply (kn_of_dir _ _ Dab).
Qed.

Lemma step_pinv la lb ta tb s l s' :
  pinv la lb ta tb s -> step s l = Some s' -> pinv la lb ta tb s'.
Proof.
  intros P H. pose proof (step_sp la lb ta tb s l s' P H) as [S1 S2].
  destruct P as (IV & CF & _). split; [eapply step_inv; eassumption|].
  split; [eapply step_cfg; eassumption|]. split; assumption.
Qed.

Lemma run_pinv la lb ta tb : forall ls s s',
  pinv la lb ta tb s -> run s ls = Some s' -> pinv la lb ta tb s'.
Proof.
  induction ls as [|l ls IH]; intros s s' P H; cbn in H; [inversion H; subst; exact P|].
  destruct (step s l) as [s1|] eqn:E; [|discriminate].
  eapply IH; [eapply step_pinv; eassumption|exact H].
Qed.

Lemma pinv_init la lb ta tb : wf_todo ta -> wf_todo tb -> pinv la lb ta tb (sys0 la lb ta tb).
Proof.
  intros Wa Wb. split; [apply inv_init; assumption|]. split.
  - apply reachable_cfg. exists []. reflexivity.
  - split; exact I.
Qed.

Lemma reachable_pinv la lb ta tb s :
  wf_todo ta -> wf_todo tb -> reachable (sys0 la lb ta tb) s -> pinv la lb ta tb s.
Proof. intros Wa Wb [ls H]. eapply run_pinv; [apply pinv_init; eassumption|exact H]. Qed.

(** ** Bounded length of non-fault runs *)
Definition nofaults (ls : list label) : Prop := Forall (fun l => nofault l = true) ls.

Lemma run_mu la lb ta tb : forall ls s s',
  pinv la lb ta tb s -> nofaults ls -> run s ls = Some s' -> length ls + mu s' <= mu s.
Proof.
  induction ls as [|l ls IH]; intros s s' P NF H; cbn in H; [inversion H; subst; cbn; lia|].
  inversion NF as [|? ? N1 N2]; subst.
  destruct (step s l) as [s1|] eqn:E; [|discriminate].
  destruct (step_mu la lb ta tb s l s1 P N1 E) as [M P1].
  specialize (IH s1 s' P1 N2 H). cbn [length]. lia.
Qed.

(** ** No deadlock among the non-fault steps *)
Lemma no_deadlock_nofault s :
  alive s = true -> final s \/ exists l s', nofault l = true /\ step s l = Some s'.
Proof.
  intros AL. unfold step. rewrite AL. cbn [negb].
  destruct (e_out (sa s)) as [|oa ra] eqn:Ea.
  2:{ right. exists (LLine A Deliver). cbn [get]. rewrite Ea. destruct (through_deliver oa) as [a ->]. eauto. }
  destruct (e_out (sb s)) as [|ob rb] eqn:Eb.
  2:{ right. exists (LLine B Deliver). cbn [get]. rewrite Eb. destruct (through_deliver ob) as [a ->]. eauto. }
  assert (Q : quiet s = true) by (unfold quiet; rewrite Ea, Eb; reflexivity).
  destruct (waits (sa s)) eqn:Wa.
  { right. exists (LTimeout A). cbn [get]. rewrite Q, Wa. cbn. eauto. }
  destruct (waits (sb s)) eqn:Wb.
  { right. exists (LTimeout B). cbn [get]. rewrite Q, Wb. cbn. eauto. }
  unfold alive, is_down in AL. unfold waits in Wa, Wb.
  destruct (e_ph (sa s)) eqn:Pa; try discriminate; destruct (e_ph (sb s)) eqn:Pb; try discriminate.
  destruct (e_todo (sa s)) as [|ma ta'] eqn:Ta.
  2:{ right. exists (LStart A). unfold can_start. cbn [get]. rewrite Pa, Ta. eauto. }
  destruct (e_todo (sb s)) as [|mb tb'] eqn:Tb.
  2:{ right. exists (LStart B). unfold can_start. cbn [get]. rewrite Pb, Tb. eauto. }
  left. repeat split; assumption.
Qed.

(** ** Progress *)
Definition settled (ta tb : list (nat * nat)) (s : sys) : Prop :=
  alive s = false \/
  (final s /\
   e_done (sa s) = map fst ta /\ e_deliv (sb s) = map fst ta /\
   e_done (sb s) = map fst tb /\ e_deliv (sa s) = map fst tb).

Lemma run_app : forall l1 l2 s s1, run s l1 = Some s1 -> run s (l1 ++ l2) = run s1 l2.
Proof.
  induction l1 as [|l l1 IH]; intros l2 s s1 H; cbn in *; [inversion H; reflexivity|].
  destruct (step s l); [|discriminate]. apply IH. exact H.
Qed.

Lemma reachable_run s0 s ls s' : reachable s0 s -> run s ls = Some s' -> reachable s0 s'.
Proof. intros [l0 H0] H. exists (l0 ++ ls). rewrite (run_app _ _ _ _ H0). exact H. Qed.

Lemma final_settled la lb ta tb s :
  wf_todo ta -> wf_todo tb -> reachable (sys0 la lb ta tb) s -> final s -> settled ta tb s.
Proof.
  intros Wa Wb Hr F. right. split; [exact F|].
  destruct F as (_ & _ & _ & _ & Ta & Tb).
  destruct (exactly_once la lb ta tb s Wa Wb Hr) as [Oa Ob].
  destruct (reachable_cfg la lb ta tb s Hr) as (_ & _ & _ & _ & Ka & Kb).
  unfold tokens in Ka, Kb. rewrite Ta in Ka. rewrite Tb in Kb. cbn in Ka, Kb. rewrite app_nil_r in Ka, Kb.
  destruct Oa as (_ & ea & ra & Qa & Da & _). destruct Ob as (_ & eb & rb & Qb & Db & _).
  rewrite Ka in Qa, Da. rewrite Kb in Qb, Db.
  assert (Ea : ea = []).
  { rewrite <- (app_nil_r (map fst ta)) in Qa at 1. apply app_inv_head in Qa.
    destruct ea; [reflexivity|discriminate]. }
  assert (Eb : eb = []).
  { rewrite <- (app_nil_r (map fst tb)) in Qb at 1. apply app_inv_head in Qb.
    destruct eb; [reflexivity|discriminate]. }
  subst. rewrite app_nil_r in Da, Db. repeat split; assumption.
Qed.

Theorem progress la lb ta tb s :
  wf_todo ta -> wf_todo tb -> reachable (sys0 la lb ta tb) s ->
  (* every non-fault run is at most [mu s] steps long *)
  (forall ls s', nofaults ls -> run s ls = Some s' -> length ls + mu s' <= mu s) /\
  (* wherever such a run stands, it is settled or can take another non-fault step *)
  (forall ls s', nofaults ls -> run s ls = Some s' ->
     settled ta tb s' \/ exists l s'', nofault l = true /\ step s' l = Some s'') /\
  (* hence after [mu s] non-fault steps, under any scheduling, the run is settled *)
  (forall ls s', nofaults ls -> run s ls = Some s' -> mu s <= length ls -> settled ta tb s').
Proof.
  intros Wa Wb Hr. pose proof (reachable_pinv la lb ta tb s Wa Wb Hr) as P.
  assert (C1 : forall ls s', nofaults ls -> run s ls = Some s' -> length ls + mu s' <= mu s)
    by (intros; eapply run_mu; eassumption).
  assert (C2 : forall ls s', nofaults ls -> run s ls = Some s' ->
               settled ta tb s' \/ exists l s'', nofault l = true /\ step s' l = Some s'').
  { intros ls s' NF H. destruct (alive s') eqn:AL; [|left; left; exact AL].
    destruct (no_deadlock_nofault s' AL) as [F|E]; [|right; exact E].
    left. apply (final_settled la lb ta tb s' Wa Wb (reachable_run _ _ _ _ Hr H) F). }
  split; [exact C1|]. split; [exact C2|].
  intros ls s' NF H Len. destruct (C2 ls s' NF H) as [S|(l & s'' & N & E)]; [exact S|].
  exfalso. pose proof (C1 ls s' NF H).
  pose proof (run_pinv la lb ta tb ls s s' P H) as P'.
  destruct (step_mu la lb ta tb s' l s'' P' N E) as [M _]. lia.
Qed.

(** ** A deterministic fault-free scheduler, for examples *)
Definition pick (s : sys) : option label :=
  match e_out (sa s), e_out (sb s) with
  | _ :: _, _ => Some (LLine A Deliver)
  | [], _ :: _ => Some (LLine B Deliver)
  | [], [] =>
      if waits (sa s) then Some (LTimeout A)
      else if waits (sb s) then Some (LTimeout B)
      else if can_start (sa s) then Some (LStart A)
      else if can_start (sb s) then Some (LStart B)
      else None
  end.

Fixpoint drive (fuel : nat) (s : sys) : sys * nat :=
  match fuel with
  | O => (s, 0)
  | S f => match pick s with
           | Some l => match step s l with
                       | Some s' => let '(s2, n) := drive f s' in (s2, S n)
                       | None => (s, 0)
                       end
           | None => (s, 0)
           end
  end.

(** A state reached through loss (A's ENQ, then B's ACK), contention (simultaneous ENQs, slave
    yields) and a duplicate in flight (block 0 of A's two-block message retransmitted), with A's
    second block and B's message still pending. From there, without further faults, 11 steps of
    the scheduler above settle everything; the measure bounds ANY scheduling by 486 steps. *)
Definition faulty_prefix : list label :=
  [LStart A; LStart B; LLine A Drop; LLine B Deliver; LTimeout A; LLine A Deliver; LLine B Deliver;
   LLine A Deliver; LLine B Drop; LLine B Deliver; LLine A Deliver; LLine B Deliver].

Lemma progress_example :
  exists s, run (sys0 2 2 [(7, 2)] [(9, 1)]) faulty_prefix = Some s /\
    e_out (sa s) = [OBlk {| b_tok := 7; b_idx := 0; b_last := false |}] /\
    e_handed (sb s) = 1 /\ e_done (sa s) = [] /\ e_todo (sb s) = [(9, 1)] /\
    mu s = 486 /\
    let '(s', n) := drive 100 s in
    n = 11 /\ final s' /\ e_deliv (sb s') = [7] /\ e_deliv (sa s') = [9] /\
    e_done (sa s') = [7] /\ e_done (sb s') = [9] /\ e_handed (sb s') = 3.
Proof. eexists. split; [vm_compute; reflexivity|]. vm_compute. repeat split; reflexivity. Qed.

(** The "settled" outcome can be a definite failure even though no further fault occurs and the
    retry budget was not yet used up when the faults stopped: the model leaves the ORDER of the two
    ends' T2 expiries open. After one lost ENQ of the master during contention both ends wait for
    EOT on a quiet line; if the slave's timer keeps firing first, the slave spends its retries on
    ENQs the master ignores and gives up, whereas with the master's timer first everything is
    delivered. (In real time the master's T2 expires within T2 of its ENQ as well; the bound on
    the retries lost this way is a real-time statement the untimed model does not make.) *)
Lemma failure_by_timer_order :
  exists s, run (sys0 3 1 [(7, 1)] [(9, 1)]) [LStart A; LStart B; LLine A Drop; LLine B Deliver] = Some s /\
    quiet s = true /\ e_ph (sb s) = WaitEOT 0 /\
    (exists s1, run s [LTimeout B; LLine B Deliver; LTimeout B] = Some s1 /\ alive s1 = false /\ e_deliv (sa s1) = []) /\
    (let '(s2, n) := drive 100 s in final s2 /\ e_deliv (sb s2) = [7] /\ e_deliv (sa s2) = [9]).
Proof.
  eexists. split; [vm_compute; reflexivity|]. split; [reflexivity|]. split; [reflexivity|]. split.
  - eexists. split; [vm_compute; reflexivity|]. split; reflexivity.
  - vm_compute. repeat split; reflexivity.
Qed.
